/-
  C10 — model of `support.FBP` (support/fbp.go, sequential semantics: one worker),
  `support.MinTransferDist` / `minTransferDistRecur`, `support.TBE` and
  `NormalizeTransferDistancesByDepth` (support/tbe.go), with what they use of
  `tree.ReinitIndexes`, `tree.CompareTipIndexes`, `Edge.TopoDepth` and the
  per-tree `tree.EdgeIndex` (tree/edgeindex.go).

  Abstractions (DESIGN §3.4): a bitset is the set of tip *names* it holds (the
  tip index is the rank of the name in the sorted names, identical in two trees
  that passed `CompareTipIndexes`), the edge index is the list of the keys put
  into it and `Value` is a search with `bitset.EqualOrComplement` (the hash code
  is a function of the bipartition: C04).  `ones[edge.Id()]` is the value
  returned by the recursive call (`TBE` numbers the bootstrap branches itself).
  `minedges`, `speciestoadd/remove` (the `--moved-taxa` log) are not modelled:
  `TBE` is modelled with `computeavgtaxa = computeperbranchtaxa = false`, one
  thread.  Precondition of `TBE` made explicit: the caller has run
  `reftree.ReinitIndexes()` (cmd/booster.go does) and the branch ids of the
  reference are `0 … #branches-1` (what the Newick parser assigns), else
  `sumNbClosestBranches[e.Id()]` is an index error (outcome `panic`).
  Core Lean only (linked into the driver).
-/
import Gotree.Model.Core

namespace Gotree.C10
open Gotree

/-- outcome classes of the two functions -/
inductive Out (α : Type) where
  | ok (a : α)
  | err
  | panic
  | nan      -- `float64(0)/float64(0)`: FBP on an empty collection
  deriving Repr

/-- `Tree.ReinitIndexes`: `UpdateTipIndex` fails on a repeated tip name,
    `ClearBitSets` when there is no tip at all. -/
def reinitOk (t : T) : Bool := decide t.tipNames.Nodup && !t.tipNames.isEmpty

/-- `Tree.CompareTipIndexes` (tree/tree.go:755): both indexes non-empty, of the
    same size, and every name of `r` known to `b`. -/
def compareTips (r b : T) : Bool :=
  r.tipNames.length != 0 && b.tipNames.length != 0 &&
  r.tipNames.length == b.tipNames.length && r.tipNames.all b.tipNames.contains

/-- `len(t.Tips())` -/
def ntips (t : T) : Nat := t.tipNames.length

/-- `Edge.TopoDepth()` after `ComputeEdgeHashes`: `min(ntaxleft, ntaxright)`,
    `-1` (with an error the callers drop) when one side is empty. -/
def topoDepth (n : Nat) (s : SplitE) : Int :=
  let r := s.below.length
  let l := n - r
  if l == 0 || r == 0 then -1 else ((min l r : Nat) : Int)

/- ## the edge index -/

def subset (a b : List String) : Bool := a.all b.contains
def setEq (a b : List String) : Bool := subset a b && subset b a

/-- `bitset.EqualOrComplement` for two branches over the same indexed taxa `all` -/
def sameSplit (all a b : List String) : Bool :=
  setEq a b || setEq a (all.filter fun x => !b.contains x)

/-- `EdgeIndex.Value(e)`: some key defines the bipartition of `e` -/
def found (all : List String) (idx : List (List String)) (s : SplitE) : Bool :=
  idx.any (sameSplit all s.below)

/-- FBP puts the branches whose lower node is not a tip (fbp.go:73) -/
def fbpIndex (b : T) : List (List String) := (b.splits.filter fun s => !s.tip).map (·.below)

/-- TBE puts every branch (tbe.go:223) -/
def tbeIndex (b : T) : List (List String) := b.splits.map (·.below)

/- ## FBP -/

/-- one bootstrap tree: `foundEdges <- i` for every reference branch found -/
def fbpCount (all : List String) (idx : List (List String)) (splits : List SplitE) (c : List Nat) : List Nat :=
  List.zipWith (fun s k => if found all idx s then k + 1 else k) splits c

/-- the worker loop: (foundBoot, ntrees, error?) -/
def fbpLoop (r : T) : List T → List Nat → Nat → List Nat × Nat × Bool
  | [], c, n => (c, n, false)
  | b :: bs, c, n =>
    if !reinitOk b then (c, n, true)
    else if !compareTips r b then (c, n, true)
    else fbpLoop r bs (fbpCount r.tipNames (fbpIndex b) r.splits c) (n + 1)

/-- which branches receive a support (fbp.go:104, since 227a97a) -/
def supported (n : Nat) (s : SplitE) : Bool := !s.tip && decide (topoDepth n s > 1)

/-- `support.FBP`: the new support of every branch in `Edges()` order -/
def fbp (r : T) (bs : List T) : Out (List Rat) :=
  if !reinitOk r then .err else
  match fbpLoop r bs (r.splits.map fun _ => 0) 0 with
  | (_, _, true) => .err
  | (c, n, false) =>
    if n == 0 && r.splits.any (supported (ntips r)) then .nan else
    .ok (List.zipWith (fun (s : SplitE) (k : Nat) => if supported (ntips r) s then ((k : Nat) : Rat) / ((n : Nat) : Rat) else s.e.sup) r.splits c)

/- ## MinTransferDist -/

/-- `dist` and `stop` of minTransferDistRecur -/
structure MS where
  dist : Int
  stop : Bool
  deriving Repr, DecidableEq

/-- Is the tip on the light side of the reference branch
    (`refEdge.TipPresent(tipIndex)`, flipped when `NumTipsRight() > ntips/2`). -/
def lightOf (n : Nat) (s : SplitE) (x : String) : Bool :=
  let present := s.below.contains x
  if s.below.length > n / 2 then !present else present

/-- the distance of one bootstrap branch with `r` tips below it, `ones` of them
    on the heavy side (tbe.go:124-130) -/
def edgeDist (p n : Int) (r ones : Nat) : Int :=
  let zero : Int := (r : Int) - (ones : Int)
  let d : Int := p - zero + (ones : Int)
  if d > n / 2 then n - d else d

/-- the block `if curEdge != nil { … }` (tbe.go:121-142) -/
def visitEdge (p n : Int) (absent : Bool) (r ones : Nat) (st : MS) : MS :=
  let d := edgeDist p n r ones
  if d ≤ st.dist then ⟨d, st.stop || (d == 1 && absent)⟩ else st

/- `minTransferDistRecur(cur, curEdge ≠ nil)`: returns `ones[curEdge.Id()]` and
   the state.  A node below the root is a `Tip()` iff it has no child. -/
mutual
def mtdNode (light : String → Bool) (p n : Int) (absent : Bool) : T → MS → Nat × MS
  | .node d _ [], st =>
    if st.stop then (0, st) else
    let ones := if light d.name then 0 else 1
    (ones, visitEdge p n absent 1 ones st)
  | .node _ _ (k :: ks), st =>
    if st.stop then (0, st) else
    let (ones, st') := mtdKids light p n absent (k :: ks) st
    if st'.stop then (ones, st')
    else (ones, visitEdge p n absent (leavesL (k :: ks)).length ones st')
def mtdKids (light : String → Bool) (p n : Int) (absent : Bool) : Kids → MS → Nat × MS
  | [], st => (0, st)
  | (_, t) :: rest, st =>
    let (o₁, st₁) := mtdNode light p n absent t st
    if st₁.stop then (o₁, st₁) else
    let (o₂, st₂) := mtdKids light p n absent rest st₁
    (o₁ + o₂, st₂)
end

/-- `MinTransferDist(refedge, reftree, boottree, ntips, bootedges, absent)`:
    the distance only.  A bootstrap root with a single neighbour is a `Tip()`:
    the recursion stops there at once. -/
def minTransferDist (light : String → Bool) (p n : Int) (absent : Bool) (b : T) : Int :=
  if p == 1 then p - 1
  else if b.kids.length == 1 then p - 1
  else (mtdKids light p n absent b.kids ⟨p - 1, false⟩).2.dist

/- ## TBE -/

/-- `Edge.IncrementSupport` -/
def incr (sup x : Rat) : Rat := (if sup == NIL then 0 else sup) + x

/-- what one bootstrap tree adds to one reference branch (tbe.go:248-272) -/
def tbeEdge (r b : T) (s : SplitE) (sup : Rat) : Rat :=
  let n := ntips r
  let p := topoDepth n s
  if p > 1 then
    if found r.tipNames (tbeIndex b) s then incr sup 0
    else incr sup ((minTransferDist (lightOf n s) p n true b : Int) : Rat)
  else sup

/-- `sumNbClosestBranches[e.Id()] += 1.0` is an index error -/
def idPanic (r b : T) : Bool :=
  r.splits.any fun s =>
    decide (topoDepth (ntips r) s > 1) && found r.tipNames (tbeIndex b) s &&
    !(decide (0 ≤ s.e.id) && decide (s.e.id < (r.splits.length : Int)))

/-- the loop over the bootstrap trees: (raw supports, nboot) -/
def tbeLoop (r : T) : List T → List Rat → Nat → Out (List Rat × Nat)
  | [], sups, nboot => .ok (sups, nboot)
  | b :: bs, sups, nboot =>
    if !reinitOk b then .err
    else if !compareTips r b then .err
    else if idPanic r b then .panic
    else tbeLoop r bs (List.zipWith (tbeEdge r b) r.splits sups) (nboot + 1)

/-- `NormalizeTransferDistancesByDepth` for one branch -/
def normalize (n nboot : Nat) (s : SplitE) (sup : Rat) : Rat :=
  if sup != NIL then 1 - (sup / (nboot : Rat)) / ((topoDepth n s - 1 : Int) : Rat) else sup

/-- `refTree.ReinitIndexes()` (cmd/booster.go:81) then `support.TBE` -/
def tbe (r : T) (bs : List T) : Out (List Rat) :=
  if !reinitOk r then .err else
  match tbeLoop r bs (r.splits.map fun _ => NIL) 0 with
  | .ok (sups, nboot) => .ok (List.zipWith (normalize (ntips r) nboot) r.splits sups)
  | .err => .err
  | .panic => .panic
  | .nan => .nan

/- ## what else the two functions do to the reference tree -/

/- `e.Right().SetName("")` / `e.Left().SetName("")` for every end of every branch that is
   not a `Tip()` (fbp.go:33-40, tbe.go:198-205): every node with children loses its name,
   except a root with a single neighbour (it is a tip) — a root without branch is not visited. -/
mutual
def blankBelow : T → T
  | .node d p [] => .node d p []
  | .node d p (k :: ks) => .node ⟨"", d.comments⟩ p (blankL (k :: ks))
def blankL : Kids → Kids
  | [] => []
  | (e, t) :: r => (e, blankBelow t) :: blankL r
end

def blankNames : T → T
  | .node d p k => .node (if k.length == 1 || k.isEmpty then d else ⟨"", d.comments⟩) p (blankL k)

/- the supports written back on the branches, in `Edges()` order -/
mutual
def setSupsT : T → List Rat → T × List Rat
  | .node d p k, l => let (k', l') := setSupsL k l; (.node d p k', l')
def setSupsL : Kids → List Rat → Kids × List Rat
  | [], l => ([], l)
  | (e, t) :: r, l =>
    let e' := match l with
      | [] => e
      | x :: _ => { e with sup := x }
    let (t', l₁) := setSupsT t l.tail
    let (r', l₂) := setSupsL r l₁
    ((e', t') :: r', l₂)
end

/-- the reference tree as the function leaves it: names blanked, supports written -/
def annotated (r : T) (sups : List Rat) : T := (setSupsT (blankNames r) sups).1

/- ## TBE with `--moved-taxa` / `--per-branches` / `--out-raw` (tbe.go:17-93, 232-330, 346-389) -/

/-- state of `minTransferDistRecur` when `absent = false`: no early stop, the branches at the
    least distance (`minedges`, bootstrap branch ids = positions in `Edges()`), every `ones[id]` -/
structure FS where
  dist : Int
  minedges : List Nat
  ones : List (Nat × Nat)
  deriving Repr

/-- tbe.go:121-142 -/
def visitFull (p n : Int) (id r ones : Nat) (st : FS) : FS :=
  let d := edgeDist p n r ones
  let me := if d < st.dist then [] else st.minedges
  if d ≤ st.dist then ⟨d, me ++ [id], (id, ones) :: st.ones⟩ else ⟨st.dist, me, (id, ones) :: st.ones⟩

/- the branch above child number `j` of a node whose first child branch has id `c` has id
   `c + Σ_{i<j} (1 + #branches below child i)` (pre-order numbering, tbe.go:218) -/
mutual
def fullNode (light : String → Bool) (p n : Int) : T → Nat → FS → Nat × FS
  | .node d _ [], id, st =>
    let ones := if light d.name then 0 else 1
    (ones, visitFull p n id 1 ones st)
  | .node _ _ (k :: ks), id, st =>
    let (ones, st') := fullKids light p n (k :: ks) (id + 1) st
    (ones, visitFull p n id (leavesL (k :: ks)).length ones st')
def fullKids (light : String → Bool) (p n : Int) : Kids → Nat → FS → Nat × FS
  | [], _, st => (0, st)
  | (_, t) :: rest, c, st =>
    let (o₁, st₁) := fullNode light p n t c st
    let (o₂, st₂) := fullKids light p n rest (c + 1 + (splitsL t.kids).length) st₁
    (o₁ + o₂, st₂)
end

def onesAt (l : List (Nat × Nat)) (id : Nat) : Nat := (l.lookup id).getD 0

/- `speciesToMoveRecursive` below the root: (species to add, species to remove) -/
mutual
def stmNode (minedge : Nat) (ones : List (Nat × Nat)) : T → Nat → Bool → List String × List String
  | .node d _ k, id, want0 =>
    let want := if id == minedge then !want0 else want0
    let o := onesAt ones id
    let a₀ := if k.isEmpty && want && o == 0 then [d.name] else []
    let r₀ := if k.isEmpty && !want && o == 1 then [d.name] else []
    let size := if k.isEmpty then 1 else (leavesL k).length
    if (want && o == size) || (!want && o == 0) then (a₀, r₀)
    else
      let (a, r) := stmKids minedge ones k (id + 1) want
      (a₀ ++ a, r₀ ++ r)
def stmKids (minedge : Nat) (ones : List (Nat × Nat)) : Kids → Nat → Bool → List String × List String
  | [], _, _ => ([], [])
  | (_, t) :: rest, c, want =>
    let (a₁, r₁) := stmNode minedge ones t c want
    let (a₂, r₂) := stmKids minedge ones rest (c + 1 + (splitsL t.kids).length) want
    (a₁ ++ a₂, r₁ ++ r₂)
end

/-- `MinTransferDist(…, absent = false)`: distance, closest branches, and for each of them the
    species to add and to remove (tbe.go:37-60) -/
def minTransferFull (light : String → Bool) (p n : Int) (b : T) :
    Int × List (Nat × List String × List String) :=
  let st := (fullKids light p n b.kids 0 ⟨p - 1, [], []⟩).2
  let sizes : List Nat := b.splits.map fun s => s.below.length
  (st.dist, st.minedges.map fun m =>
    let nsub : Int := ((sizes.getD m 0 : Nat) : Int)
    let onesSub : Int := ((onesAt st.ones m : Nat) : Int)
    let zerosSub := nsub - onesSub
    let onesTotal := n - p
    let zerosTotal := p
    let opsOnesIn := zerosSub + (onesTotal - onesSub)
    let opsZerosIn := onesSub + (zerosTotal - zerosSub)
    let (a, r) := stmKids m st.ones b.kids 0 (decide (opsZerosIn < opsOnesIn))
    (m, a, r))

/-- the accumulators of `TBE` -/
structure Acc where
  sups : List Rat                          -- raw supports per reference branch
  sumNb : List Rat                         -- sumNbClosestBranches (indexed by branch position = id)
  moved : List (String × Rat)              -- movedspecies per tip
  perBranch : List (List (String × Rat))   -- movedperbranch per reference branch, per tip
  deriving Repr

def addAt (l : List (String × Rat)) (x : String) (v : Rat) : List (String × Rat) :=
  l.map fun (y, w) => if y == x then (y, w + v) else (y, w)

/-- `int(math.Ceil(1.0/distcutoff + 1.0))` -/
def minDepth (cutoff : Rat) : Int := (1 / cutoff + 1).ceil

/-- one bootstrap tree (tbe.go:232-296), `computeavgtaxa = computeperbranchtaxa = true`, one thread:
    returns the new accumulators -/
def logStep (r b : T) (cutoff : Rat) (acc : Acc) : Acc :=
  let n := ntips r
  let md := minDepth cutoff
  let zero : List (String × Rat) := r.tipNames.map fun x => (x, 0)
  -- fold over the reference branches
  let init : List Rat × List Rat × List (List (String × Rat)) × List (String × Rat) × Nat :=
    ([], [], [], zero, 0)
  let res := (List.zip r.splits (List.zip acc.sups (List.zip acc.sumNb acc.perBranch))).foldl
    (fun (st : List Rat × List Rat × List (List (String × Rat)) × List (String × Rat) × Nat) x =>
      let (sups, sumNb, perB, tmp, close) := st
      let s := x.1
      let sup := x.2.1
      let nb := x.2.2.1
      let pb := x.2.2.2
      let p := topoDepth n s
      if p > 1 then
        if found r.tipNames (tbeIndex b) s then
          (sups ++ [incr sup 0], sumNb ++ [nb + 1], perB ++ [pb], tmp, if p ≥ md then close + 1 else close)
        else
          let (dist, mins) := minTransferFull (lightOf n s) p n b
          let k : Rat := ((mins.length : Nat) : Rat)
          let norm : Rat := (dist : Rat) / ((p : Rat) - 1)
          let species : List String := mins.flatMap fun m => m.2.1 ++ m.2.2
          let counted := decide (norm ≤ cutoff) && decide (p ≥ md)
          let tmp' := if counted then species.foldl (fun t x => addAt t x (1 / k)) tmp else tmp
          let pb' := species.foldl (fun t x => addAt t x (1 / k)) pb
          (sups ++ [incr sup (dist : Rat)], sumNb ++ [nb + k], perB ++ [pb'], tmp', if counted then close + 1 else close)
      else (sups ++ [sup], sumNb ++ [nb], perB ++ [pb], tmp, close))
    init
  let (sups, sumNb, perB, tmp, close) := res
  let moved := if close > 0 then
      acc.moved.map fun (x, w) => (x, w + ((tmp.lookup x).getD 0) / ((close : Nat) : Rat))
    else acc.moved
  ⟨sups, sumNb, moved, perB⟩

/-- what `TBE(…, outrawtree, computeavgtaxa, computeperbranchtaxa = true, …)` writes besides the
    supports, for an accepted collection: the raw tree names `(i, avgdist, depth)`, the
    `Taxon tIndex` table, the per-branch table `(id, depth, AvgNbClosestBranches, per tip)` -/
structure LogOut where
  raw : List (Nat × Rat × Int)
  taxa : List (String × Rat)
  branches : List (Int × Int × Rat × List Rat)
  deriving Repr

def tbeLog (r : T) (bs : List T) (cutoff : Rat) : LogOut :=
  let zero : List (String × Rat) := r.tipNames.map fun x => (x, 0)
  let acc0 : Acc := ⟨r.splits.map fun _ => NIL, r.splits.map fun _ => 0, zero, r.splits.map fun _ => zero⟩
  let acc := bs.foldl (fun a b => logStep r b cutoff a) acc0
  let nboot : Rat := ((bs.length : Nat) : Rat)
  let n := ntips r
  let idx := List.range r.splits.length
  { raw := (List.zip idx (List.zip r.splits acc.sups)).filterMap fun x =>
      if x.2.2 != NIL then some (x.1, x.2.2 / nboot, topoDepth n x.2.1) else none,
    taxa := acc.moved.map fun (x, w) => (x, w * 100 / nboot),
    branches := (List.zip r.splits (List.zip acc.sumNb acc.perBranch)).filterMap fun x =>
      if x.1.tip then none
      else some (x.1.e.id, topoDepth n x.1, x.2.1 / nboot, x.2.2.map fun y => y.2 / nboot) }

/-- `support.TBE` called on a reference that was never indexed (no `ReinitIndexes`, against the
    precondition): nothing panics and nothing is annotated silently — the taxon check of the first
    bootstrap tree fails ("Tip name index is not initialized …", tree.go:756). -/
def tbeNotIndexed (r : T) (bs : List T) : Out (List Rat) :=
  match bs with
  | [] => .ok (r.splits.map fun _ => NIL)
  | _ :: _ => .err

/- ## the thread count (a configuration: `cpus` of FBP, `cpu` of TBE, `-t` of the commands)

   `if cpus < 1 { cpus = 1 }` (fbp.go:18, tbe.go:152, since 4aac0a9); with `cpus ≥ 1` workers the
   outcome is the one-worker semantics above (what C11 proves of the pools; exercised here with
   0, -1, 1, 2, 4 and 16 threads). -/

def atLeastOne (cpus : Int) : Int := if cpus < 1 then 1 else cpus

/-- `support.FBP(reftree, boottrees, cpus, nil)` -/
def fbpCfg (cpus : Int) (r : T) (bs : List T) : Out (List Rat) :=
  if atLeastOne cpus ≥ 1 then fbp r bs else .panic

/-- `support.TBE(reftree, boottrees, cpu, …)` -/
def tbeCfg (cpu : Int) (r : T) (bs : List T) : Out (List Rat) :=
  if atLeastOne cpu ≥ 1 then tbe r bs else .panic

/- Before 4aac0a9 (finding C10NonPositiveThreads, repaired): a count ≤ 0 was taken as it came. -/

/-- `FBP` with no worker: the channel is never read, no tree is counted, no error is seen, and
    every supported branch gets `0/0`. -/
def fbpCfgPinned (cpus : Int) (r : T) (bs : List T) : Out (List Rat) :=
  if cpus ≥ 1 then fbp r bs
  else if !reinitOk r then .err
  else if r.splits.any (supported (ntips r)) then .nan
  else .ok (r.splits.map (·.e.sup))

/-- `TBE` with `cpu = 0`: the trees are still checked in the main goroutine, but no worker takes
    the branches (`wg.Add(0)`, the producer of the unbuffered channel stays blocked): every
    support stays absent.  With `cpu < 0`: `make(chan, cpu*10)` panics at the first accepted tree. -/
def tbeCfgPinned (cpu : Int) (r : T) (bs : List T) : Out (List Rat) :=
  if cpu ≥ 1 then tbe r bs
  else if !reinitOk r then .err
  else
    let rec go : List T → Out (List Rat)
      | [] => .ok (r.splits.map fun _ => NIL)
      | b :: rest =>
        if !reinitOk b then .err
        else if !compareTips r b then .err
        else if cpu < 0 then .panic
        else go rest
    go bs

/- ## command-line glue (cmd/classical.go, cmd/booster.go, cmd/root.go readTree / readTrees) -/

/-- what a Newick input file is made of, line-wise: a tree terminated by `;`, a blank
    line, text that is not a terminated tree -/
inductive Item (α : Type) where
  | tree (a : α)
  | blank
  | junk
  /-- (before 3850fd2) a line holding a terminated tree followed by more terminated trees, of which
      the bootstrap reader took the first and dropped the rest; kept for the record -/
  | treePlus (a : α)
  /-- a line holding several terminated trees: `ReadUntilSemiColon` hands the whole line to one
      parser; the bootstrap reader parses it until the text is exhausted (since 3850fd2), the
      reference reader takes its first tree -/
  | treeLine (as : List α)
  deriving Repr

/-- `readTree` → `utils.ReadTree` → `newick.NewParser(reader).Parse()`: the FIRST tree of the
    file, whatever follows; blank lines before it are skipped; other text first is a parse error. -/
def cliReference {α : Type} : List (Item α) → Option α
  | [] => none
  | .tree a :: _ => some a
  | .treePlus a :: _ => some a
  | .treeLine (a :: _) :: _ => some a
  | .treeLine [] :: r => cliReference r
  | .blank :: r => cliReference r
  | .junk :: _ => none

/- `readTrees` → `utils.ReadMultiTrees`: `ReadUntilSemiColon` glues lines up to the next one ending
   with `;` (blank lines vanish into the next chunk, other text spoils it: parse error and
   the reader stops); at the end of the input, left-over text — or no tree at all — is
   one erroneous item (`Trees.Err`).  `dirty` = unterminated text is pending, `sent` = number
   of items already sent. -/
def cliStreamGo {α : Type} : List (Item α) → Bool → Nat → List (Option α)
  | [], dirty, sent => if dirty || sent == 0 then [none] else []
  | .blank :: r, dirty, sent => cliStreamGo r dirty sent
  | .junk :: r, _, sent => cliStreamGo r true sent
  | .tree a :: r, dirty, sent => if dirty then [none] else some a :: cliStreamGo r false (sent + 1)
  | .treePlus a :: r, dirty, sent => if dirty then [none] else some a :: cliStreamGo r false (sent + 1)
  | .treeLine [] :: r, dirty, sent => cliStreamGo r dirty sent
  | .treeLine (a :: as) :: r, dirty, sent =>
    if dirty then [none] else (a :: as).map some ++ cliStreamGo r false (sent + (a :: as).length)

def cliStream {α : Type} (items : List (Item α)) : List (Option α) := cliStreamGo items false 0

/-- `gotree compute support fbp|tbe -i ref -b boots`: an erroneous item of the stream makes
    the function return its error when it reaches it (fbp.go:58, tbe.go:214); before that
    only a tree on other taxa can happen, an error as well. -/
def cliRun (f : T → List T → Out (List Rat)) (refFile bootFile : List (Item T)) : Out (List Rat) :=
  match cliReference refFile with
  | none => .err
  | some r =>
    let st := cliStream bootFile
    if st.any Option.isNone then .err else f r (st.filterMap id)

/- ## the repaired defects, as variants (AGENTS.md "State of /repo") -/

/-- F14 (before ba522d8): `if inerr = …; err != nil` never fires — the bootstrap
    tree is used whatever its taxa. -/
def fbpLoopPinned14 (r : T) : List T → List Nat → Nat → List Nat × Nat × Bool
  | [], c, n => (c, n, false)
  | b :: bs, c, n => fbpLoopPinned14 r bs (fbpCount r.tipNames (fbpIndex b) r.splits c) (n + 1)

def fbpPinned14 (r : T) (bs : List T) : Out (List Rat) :=
  if !reinitOk r then .err else
  match fbpLoopPinned14 r bs (r.splits.map fun _ => 0) 0 with
  | (_, _, true) => .err
  | (c, n, false) =>
    if n == 0 && r.splits.any (supported (ntips r)) then .nan else
    .ok (List.zipWith (fun (s : SplitE) (k : Nat) => if supported (ntips r) s then ((k : Nat) : Rat) / ((n : Nat) : Rat) else s.e.sup) r.splits c)

/-- F35 (before 227a97a): every branch whose lower node is not a tip gets a support -/
def fbpPinned35 (r : T) (bs : List T) : Out (List Rat) :=
  if !reinitOk r then .err else
  match fbpLoop r bs (r.splits.map fun _ => 0) 0 with
  | (_, _, true) => .err
  | (c, n, false) =>
    if n == 0 && r.splits.any (fun s => !s.tip) then .nan else
    .ok (List.zipWith (fun (s : SplitE) (k : Nat) => if !s.tip then ((k : Nat) : Rat) / ((n : Nat) : Rat) else s.e.sup) r.splits c)

/-- F15 (before 46b6f1e): the mismatch is logged, the loop goes on, and the
    returned `err` is whatever the *last* tree assigned. -/
def tbeLoopPinned15 (r : T) : List T → List Rat → Nat → Bool → List Rat × Nat × Bool
  | [], sups, nboot, e => (sups, nboot, e)
  | b :: bs, sups, nboot, _ =>
    tbeLoopPinned15 r bs (List.zipWith (tbeEdge r b) r.splits sups) (nboot + 1) (!compareTips r b)

def tbePinned15 (r : T) (bs : List T) : Out (List Rat) :=
  if !reinitOk r then .err else
  match tbeLoopPinned15 r bs (r.splits.map fun _ => NIL) 0 false with
  | (_, _, true) => .err
  | (sups, nboot, false) => .ok (List.zipWith (normalize (ntips r) nboot) r.splits sups)

end Gotree.C10
