/-
  C07 — helper lemmas used directly by Proofs/C07.lean (kept out of it: that file holds only
  the property theorems).
-/
import Gotree.Lemmas.C07
import Gotree.Lemmas.C07Resolve

namespace Gotree.C07
open Gotree

/-- what happens to one observed branch under a selection `selV` (a function of what is
    observed of the branch: `f` of the names below, the branch data, tip?):
    not selected → untouched; selected tip branch → stays, length 0 iff `removeTips`;
    selected inner branch → gone. -/
def keepV {β : Type} (selV : β × EdgeD × Bool → Bool) (rt : Bool) (x : Obs β) : Option (Obs β) :=
  if selV (x.1, x.2.1, x.2.2.1) then
    (if x.2.2.1 then some (x.1, (if rt then zeroLen x.2.1 else x.2.1), x.2.2.1, x.2.2.2) else none)
  else some x

/-- the observation list and the split list of Core are parallel -/
theorem obs_partner {β : Type} (f : List String → β) (t : T) (x : Obs β) (hx : x ∈ obsT f t) :
    ∃ s ∈ t.splits, (f s.below, s.e, s.tip) = (x.1, x.2.1, x.2.2.1) := by
  have h := splitsL_obs f t.kids
  have hx' : (x.1, x.2.1, x.2.2.1) ∈ (obsL f t.kids).map (fun x => (x.1, x.2.1, x.2.2.1)) := by
    rw [obsT_kids] at hx
    exact List.mem_map.mpr ⟨x, hx, rfl⟩
  rw [← h] at hx'
  obtain ⟨s, hs, he⟩ := List.mem_map.mp hx'
  exact ⟨s, hs, he⟩

theorem obs_of_split {β : Type} (f : List String → β) (t : T) (s : SplitE) (hs : s ∈ t.splits) :
    ∃ x ∈ obsT f t, (f s.below, s.e, s.tip) = (x.1, x.2.1, x.2.2.1) := by
  have h := splitsL_obs f t.kids
  have hs' : (f s.below, s.e, s.tip) ∈ (splitsL t.kids).map (fun s => (f s.below, s.e, s.tip)) :=
    List.mem_map.mpr ⟨s, hs, rfl⟩
  rw [h] at hs'
  obtain ⟨x, hx, he⟩ := List.mem_map.mp hs'
  rw [← obsT_kids] at hx
  exact ⟨x, hx, he.symm⟩

/-- With unique branch ids, "the id of the branch is among those of the selected branches"
    is "the branch is selected" — on any list of observed branches of `t`. -/
theorem sel_congr {β : Type} (f : List String → β)
    (sel : SplitE → Bool) (selV : β × EdgeD × Bool → Bool)
    (rt : Bool) (t : T)
    (hsel : ∀ s ∈ t.splits, sel s = selV (f s.below, s.e, s.tip))
    (hid : uniqueIds t = true) (L : List (Obs β))
    (hL : ∀ x ∈ L, ∃ s ∈ t.splits, (f s.below, s.e, s.tip) = (x.1, x.2.1, x.2.2.1)) :
    L.filterMap (stepAllO rt ((t.splits.filter sel).map (·.e.id))) = L.filterMap (keepV selV rt) := by
  apply filterMap_congr'
  intro x hx
  rw [stepAllO_char]
  unfold keepV
  have hnd : (t.splits.map (·.e.id)).Nodup := by simpa [uniqueIds] using hid
  obtain ⟨s0, hs0, he0⟩ := hL x hx
  have he : s0.e = x.2.1 := by injection he0 with _ h2; injection h2
  have key : (x.2.1.id ∈ List.map (fun s => s.e.id) (List.filter sel t.splits)) ↔ selV (x.1, x.2.1, x.2.2.1) = true := by
    constructor
    · intro hm
      obtain ⟨s, hsf, hsid⟩ := List.mem_map.mp hm
      have hsm := (List.mem_filter.mp hsf)
      have : s = s0 := eq_of_nodup_map (·.e.id) t.splits hnd s hsm.1 s0 hs0 (by rw [hsid, he])
      rw [← he0, ← hsel s0 hs0, ← this]; exact hsm.2
    · intro hv
      refine List.mem_map.mpr ⟨s0, List.mem_filter.mpr ⟨hs0, ?_⟩, by rw [he]⟩
      rw [hsel s0 hs0, he0]; exact hv
  by_cases hv : selV (x.1, x.2.1, x.2.2.1) = true
  · rw [if_pos (key.mpr hv), if_pos hv]
  · rw [if_neg (fun hm => hv (key.mp hm)), if_neg hv]

/- ## distances from the observation list -/

theorem sum_perm {l1 l2 : List Rat} (h : l1.Perm l2) : l1.sum = l2.sum := by
  induction h with
  | nil => rfl
  | cons x _ ih => simp [ih]
  | swap x y l => simp only [List.sum_cons]; grind
  | trans _ _ ih1 ih2 => exact ih1.trans ih2

/-- the separation test of the patristic distance, as an order-independent observation -/
def sepf (a b : String) (l : List String) : Bool := (l.contains a) != (l.contains b)

theorem sepf_permInv (a b : String) : PermInv (sepf a b) := by
  intro l l' hp
  unfold sepf
  rw [hp.contains_eq (a := a), hp.contains_eq (a := b)]

/-- what an observed branch contributes to the distance between `a` and `b` -/
def wR (x : ObsR Bool) : Rat := if x.1 then (if x.2.1 == NIL then 0 else x.2.1) else 0

/-- `T.dist` (Core: sum of the lengths of the separating branches, absent = 0) read off the
    observation list -/
theorem dist_eq_RT (t : T) (a b : String) : t.dist a b = ((RT (sepf a b) t).map wR).sum := by
  unfold T.dist distW T.splits
  rw [RT_kids]
  unfold RL
  have h := splitsL_obs (sepf a b) t.kids
  have h1 : (splitsL t.kids).map (fun s => if s.sep a b then s.e.lenOr0 else 0) =
      ((splitsL t.kids).map (fun s => (sepf a b s.below, s.e, s.tip))).map (fun y => if y.1 then y.2.1.lenOr0 else 0) := by
    rw [List.map_map]; rfl
  rw [h1, h, List.map_map, List.map_map]
  rfl

end Gotree.C07

namespace Gotree.C07
open Gotree

/- ## a node never loses neighbours (unconditional) -/

theorem removeEdges_kids_len (rr rt : Bool) : ∀ (ids : List Int) (t : T),
    t.kids.length ≤ (removeEdges rr rt ids t).kids.length
  | [], t => by simp [removeEdges]
  | id :: ids, t => by
    rw [removeEdges_cons]
    have ih := removeEdges_kids_len rr rt ids (contractT rr rt id true t)
    cases t with
    | node d p k =>
      rw [contractT_kids] at ih
      have := contractL_len (rr || !true) rt id (k.length + (if true = true then 0 else 1)) k
      simp only [T.kids_node]
      omega

/-- a root that is a tip stays one: its single branch is a tip branch (fix e276115) -/
theorem contractT_kids_one (rr rt : Bool) (id : Int) (t : T) (h : t.kids.length = 1) :
    (contractT rr rt id true t).kids.length = 1 := by
  cases t with
  | node d p k =>
    simp only [T.kids_node] at h
    match k, h with
    | [(e, c)], _ =>
      rw [contractT_kids]
      simp only [List.length_cons, List.length_nil, if_true, newKids]
      rw [contractL_cons]
      simp only [contractL]
      split <;> simp [stayKids]

theorem removeEdges_kids_one (rr rt : Bool) : ∀ (ids : List Int) (t : T), t.kids.length = 1 →
    (removeEdges rr rt ids t).kids.length = 1
  | [], t, h => by simpa [removeEdges] using h
  | id :: ids, t, h => by
    rw [removeEdges_cons]
    exact removeEdges_kids_one rr rt ids _ (contractT_kids_one rr rt id t h)

theorem leaves_eq_leavesL_kids (t : T) (h : t.kids ≠ []) : t.leaves = leavesL t.kids := by
  cases t with
  | node d p k => rw [leaves_node, if_neg (by simpa using h)]; rfl

end Gotree.C07

namespace Gotree.C07
open Gotree

/- ## `TopoDepth` never fails after `ReinitIndexes`: both sides of every branch hold a taxon -/

theorem splitsBelow_eq (c : T) : c.splitsBelow = splitsL c.kids := by cases c; simp [T.splitsBelow]

theorem leaves_len_ge (c : T) : (leavesL c.kids).length ≤ c.leaves.length := by
  cases c with
  | node d p k =>
    rw [leaves_node]
    by_cases h : k = []
    · subst h; simp [leavesL]
    · rw [if_neg h]; exact Nat.le_refl _

mutual
theorem below_le_T : ∀ (c : T), ∀ s ∈ c.splitsBelow, s.below.length ≤ c.leaves.length
  | .node d p k => by
    intro s hs
    have := below_le_L k s (by simpa [T.splitsBelow] using hs)
    exact Nat.le_trans this (leaves_len_ge (.node d p k))
theorem below_le_L : ∀ (k : Kids), ∀ s ∈ splitsL k, s.below.length ≤ (leavesL k).length
  | [] => by intro s hs; simp [splitsL] at hs
  | (e, c) :: r => by
    intro s hs
    simp only [splitsL, List.mem_cons, List.mem_append] at hs
    simp only [leavesL, List.length_append]
    rcases hs with rfl | hs | hs
    · simp
    · have := below_le_T c s hs; omega
    · have := below_le_L r s hs; omega
end

theorem leaves_len_pos (c : T) : 0 < c.leaves.length := by
  have := leaves_ne_nil c
  cases h : c.leaves with
  | nil => exact absurd h this
  | cons _ _ => simp

mutual
theorem below_pos_T : ∀ (c : T), ∀ s ∈ c.splitsBelow, 0 < s.below.length
  | .node d p k => by
    intro s hs
    exact below_pos_L k s (by simpa [T.splitsBelow] using hs)
theorem below_pos_L : ∀ (k : Kids), ∀ s ∈ splitsL k, 0 < s.below.length
  | [] => by intro s hs; simp [splitsL] at hs
  | (e, c) :: r => by
    intro s hs
    simp only [splitsL, List.mem_cons, List.mem_append] at hs
    rcases hs with rfl | hs | hs
    · exact leaves_len_pos c
    · exact below_pos_T c s hs
    · exact below_pos_L r s hs
end

/-- with at least two children at the root, every branch leaves a taxon outside -/
theorem below_lt_of_two : ∀ (k : Kids), 2 ≤ k.length → ∀ s ∈ splitsL k, s.below.length < (leavesL k).length
  | [], h, _, _ => by simp at h
  | [_], h, _, _ => by simp at h
  | (e, c) :: (e2, c2) :: r, _, s, hs => by
    have hr : 0 < (leavesL ((e2, c2) :: r)).length := by
      simp only [leavesL, List.length_append]
      have := leaves_len_pos c2; omega
    have hc := leaves_len_pos c
    rw [splitsL] at hs
    simp only [List.mem_cons, List.mem_append] at hs
    rw [leavesL, List.length_append]
    rcases hs with rfl | hs | hs
    · simp only; omega
    · have := below_le_T c s hs; omega
    · have := below_le_L ((e2, c2) :: r) s hs; omega

theorem depth_never_errs (t : T) : t.splits.any (depthErr t.tipNames.length) = false := by
  rw [List.any_eq_false]
  intro s hs
  unfold depthErr
  have hpos := below_pos_L t.kids s hs
  have hle := below_le_L t.kids s hs
  have htot : t.tipNames.length = (if t.kids.length == 1 then 1 else 0) + (leavesL t.kids).length := by
    unfold T.tipNames
    split <;> simp <;> omega
  simp only [Bool.or_eq_true, beq_iff_eq, not_or]
  refine ⟨?_, by omega⟩
  by_cases h1 : t.kids.length = 1
  · simp [h1] at htot; omega
  · by_cases h2 : 2 ≤ t.kids.length
    · have := below_lt_of_two t.kids h2 s hs
      omega
    · have h0 : t.kids = [] := by
        cases hk : t.kids with
        | nil => rfl
        | cons a r => rw [hk] at h1 h2; cases r <;> simp at h1 h2
      simp [T.splits, h0, splitsL] at hs

end Gotree.C07

namespace Gotree.C07
open Gotree

/-- `RemoveEdges` keeps "no single-child inner node" (for clients: C03) -/
theorem removeEdges_noSingle (rr rt : Bool) : ∀ (ids : List Int) (t : T), t.noSingle = true →
    (removeEdges rr rt ids t).noSingle = true
  | [], t, h => by simpa [removeEdges] using h
  | id :: ids, t, h => by
    rw [removeEdges_cons]
    apply removeEdges_noSingle rr rt ids
    obtain ⟨d, p, k⟩ := t
    simp only [T.noSingle, T.kids_node] at h
    simp only [T.noSingle, contractT_kids]
    exact (contractL_ns _ rt id _ k h).1

end Gotree.C07
