/-
  C05 — a history of operations that remove nothing preserves the tree (composition of the
  single-operation results through `Same.trans`).
-/
import Gotree.Model.C05History
import Gotree.Lemmas.C05Mid

namespace Gotree.C05
open Gotree

theorem reroot_same (t u : T) (p : List Nat) (h : reroot t p = .ok u) (hu : t.tipNames.Nodup)
    (hg : LensGood t.splits) : Same t u := by
  have ht : u = (rerootP t p none []).1 := by
    unfold reroot at h
    cases hn : nodeAt t p with
    | none => simp [hn] at h
    | some n =>
      simp only [hn] at h
      by_cases h2 : (if p.isEmpty then n.kids.length else n.kids.length + 1) < 2
      · rw [if_pos h2] at h; cases h
      · rw [if_neg h2] at h; cases h; rfl
  subst ht
  exact (rerootP_same p t none [] hu hg).1

theorem step_same (s : Step) (t u : T) (hk : s.keeps = true) (h : s.apply t = .ok u) (hu : t.tipNames.Nodup)
    (hl : lensOK t = true) (hs : supsOK t = true) : Same t u := by
  have hl' := (lensOK_iff t).1 hl
  have hs' := (supsOK_iff t).1 hs
  cases s with
  | reroot p => exact reroot_same t u p h hu hl'
  | unroot =>
    simp only [Step.apply] at h
    cases h
    exact unroot_same t hu hl' hs'
  | outgroup rm st S =>
    cases rm with
    | true => simp [Step.keeps] at hk
    | false => exact outgroup_same t u st S h hu hl' hs'
  | midpoint => exact (midpoint_same t u h hu hl' hs').1
  | sort =>
    simp only [Step.apply] at h
    cases h
    exact sortT_same t hl'
  | rerootFirst =>
    simp only [Step.apply] at h
    unfold rerootFirst at h
    split at h
    · cases h
    · exact reroot_same t u _ h hu hl'
  | rotate ds =>
    simp only [Step.apply] at h
    cases h
    exact rotate_same t ds hl'

theorem history_same : ∀ (steps : List Step) (t u : T), historyOK steps t = true → t.tipNames.Nodup →
    (runSteps steps t).2 = .ok u → Same t u
  | [], t, u, _, _, h => by
    simp only [runSteps] at h
    cases h
    exact Same.refl t
  | s :: r, t, u, hh, hu, h => by
    simp only [historyOK, Bool.and_eq_true] at hh
    obtain ⟨⟨⟨hl, hs⟩, hk⟩, hrest⟩ := hh
    simp only [runSteps] at h
    cases ha : s.apply t with
    | ok v =>
      rw [ha] at h hrest
      have s1 := step_same s t v hk ha hu hl hs
      have huv : v.tipNames.Nodup := s1.tips.nodup_iff.2 hu
      exact s1.trans (history_same r v u hrest huv h)
    | err m => rw [ha] at h; cases h
    | panic m => rw [ha] at h; cases h

end Gotree.C05
