/-
  C10 lemmas, part D: the two supports compared (both in [0,1], FBP ≤ TBE,
  TBE = 1 iff every bootstrap tree has the split) and their independence of the
  order of the collection.
-/
import Gotree.Lemmas.C10Sums

namespace Gotree.C10
open Gotree

/-! ## rational arithmetic -/

theorem rat_core (c S N q u v : Rat) (hN : N * u = 1) (hq : q * v = 1) (hu : 0 ≤ u) (hv : 0 ≤ v)
    (h : S + c * q ≤ N * q) : c * u ≤ 1 - S * u * v := by
  have huv : 0 ≤ u * v := Rat.mul_nonneg hu hv
  have key := Rat.mul_le_mul_of_nonneg_right h huv
  have e1 : (S + c * q) * (u * v) = S * u * v + c * u * (q * v) := by grind
  have e2 : N * q * (u * v) = (N * u) * (q * v) := by grind
  rw [e1, e2, hN, hq] at key
  grind

theorem rat_le_one (S u v : Rat) (hS : 0 ≤ S) (hu : 0 ≤ u) (hv : 0 ≤ v) : 1 - S * u * v ≤ 1 := by
  have := Rat.mul_nonneg (Rat.mul_nonneg hS hu) hv
  grind

theorem rat_eq_one (S u v : Rat) (hu : 0 < u) (hv : 0 < v) : 1 - S * u * v = 1 ↔ S = 0 := by
  constructor
  · intro h
    have huv : u * v ≠ 0 := by
      have := Rat.mul_pos hu hv
      grind
    have : S * (u * v) = 0 := by grind
    rcases Rat.mul_eq_zero.1 this with h | h
    · exact h
    · exact absurd h huv
  · intro h; rw [h]; grind

/-! ## sums over the collection -/

theorem sum_bound (m : T → Nat) (P : T → Bool) (q : Nat) : ∀ (bs : List T),
    (∀ b ∈ bs, m b ≤ q ∧ (P b = true → m b = 0)) →
    (bs.map m).sum + (bs.filter P).length * q ≤ bs.length * q
  | [], _ => by simp
  | b :: bs, h => by
    have ih := sum_bound m P q bs (fun b' hb' => h b' (List.mem_cons_of_mem _ hb'))
    obtain ⟨h1, h2⟩ := h b (List.mem_cons_self ..)
    by_cases hp : P b = true
    · have := h2 hp
      simp only [List.map_cons, List.sum_cons, List.filter_cons, hp, if_true, List.length_cons,
        Nat.add_mul, Nat.one_mul]
      omega
    · simp only [List.map_cons, List.sum_cons, List.filter_cons, hp, Bool.false_eq_true, if_false,
        List.length_cons, Nat.add_mul, Nat.one_mul]
      omega

theorem sum_eq_zero_iff (m : T → Nat) : ∀ (bs : List T), (bs.map m).sum = 0 ↔ ∀ b ∈ bs, m b = 0
  | [] => by simp
  | b :: bs => by
    have ih := sum_eq_zero_iff m bs
    simp only [List.map_cons, List.sum_cons, List.mem_cons, forall_eq_or_imp]
    constructor
    · intro h
      exact ⟨by omega, ih.1 (by omega)⟩
    · rintro ⟨h1, h2⟩
      have := ih.2 h2
      omega

/-! ## one non-trivial branch of the reference -/

theorem edge_facts (r : T) (bs : List T) (h : hypOK r bs = true) (s : SplitE) (hs : s ∈ r.splits)
    (h2 : 2 ≤ depth r.tipNames s.below) :
    0 ≤ fbpSpec r.tipNames s.below bs ∧
    fbpSpec r.tipNames s.below bs ≤ tbeSpec r.tipNames s.below bs ∧
    tbeSpec r.tipNames s.below bs ≤ 1 ∧
    (tbeSpec r.tipNames s.below bs = 1 ↔ ∀ b ∈ bs, containsSplit r.tipNames s.below b = true) := by
  obtain ⟨hr, hne, hb⟩ := hypOK_facts h
  obtain ⟨hrn, _, _, hrs⟩ := treeOK_facts r hr
  obtain ⟨hsn, hss⟩ := hrs s hs
  have hLl := lightSide_length hrn hsn hss
  have hL2 : 2 ≤ (lightSide r.tipNames s.below).length := by rw [hLl]; exact h2
  -- the natural-number facts
  have hm : ∀ b ∈ bs, minTransfer (lightSide r.tipNames s.below) r.tipNames.length b ≤
        (lightSide r.tipNames s.below).length - 1 ∧
      (containsSplit r.tipNames s.below b = true →
        minTransfer (lightSide r.tipNames s.below) r.tipNames.length b = 0) := by
    intro b hb'
    exact ⟨minTransfer_le _ _ _,
      (minTransfer_eq_zero_iff r b s hr (hb b hb').1 (hb b hb').2 hs h2).2⟩
  have hbound := sum_bound _ _ _ bs hm
  have hzero := sum_eq_zero_iff (minTransfer (lightSide r.tipNames s.below) r.tipNames.length) bs
  have hNpos : 0 < bs.length := List.length_pos_iff.2 hne
  -- casts
  generalize hS : (bs.map (minTransfer (lightSide r.tipNames s.below) r.tipNames.length)).sum = S at hbound hzero
  generalize hc : (bs.filter (containsSplit r.tipNames s.below)).length = c at hbound
  generalize hq : (lightSide r.tipNames s.below).length - 1 = q at hbound
  have hLq : ((lightSide r.tipNames s.below).length : Rat) - 1 = (q : Rat) := by
    have : (lightSide r.tipNames s.below).length = q + 1 := by omega
    rw [this, Rat.natCast_add]
    have : ((1 : Nat) : Rat) = 1 := rfl
    grind
  have hqpos : 0 < q := by omega
  have hN0 : ((bs.length : Nat) : Rat) ≠ 0 := by
    intro e; have := Rat.natCast_eq_zero_iff.1 e; omega
  have hq0 : ((q : Nat) : Rat) ≠ 0 := by
    intro e; have := Rat.natCast_eq_zero_iff.1 e; omega
  have hNu := Rat.mul_inv_cancel _ hN0
  have hqv := Rat.mul_inv_cancel _ hq0
  have hu : (0 : Rat) < ((bs.length : Nat) : Rat)⁻¹ := Rat.inv_pos.2 (Rat.natCast_pos.2 hNpos)
  have hv : (0 : Rat) < ((q : Nat) : Rat)⁻¹ := Rat.inv_pos.2 (Rat.natCast_pos.2 hqpos)
  have hcast : ((S : Nat) : Rat) + ((c : Nat) : Rat) * ((q : Nat) : Rat) ≤
      ((bs.length : Nat) : Rat) * ((q : Nat) : Rat) := by
    rw [← Rat.natCast_mul, ← Rat.natCast_mul, ← Rat.natCast_add]
    exact Rat.natCast_le_natCast.2 hbound
  have ef : fbpSpec r.tipNames s.below bs = ((c : Nat) : Rat) * ((bs.length : Nat) : Rat)⁻¹ := by
    unfold fbpSpec; rw [hc, Rat.div_def]
  have et : tbeSpec r.tipNames s.below bs =
      1 - ((S : Nat) : Rat) * ((bs.length : Nat) : Rat)⁻¹ * ((q : Nat) : Rat)⁻¹ := by
    unfold tbeSpec
    simp only []
    rw [hS, hLq, Rat.div_def, Rat.div_def]
  rw [ef, et]
  refine ⟨Rat.mul_nonneg Rat.natCast_nonneg (Rat.le_of_lt hu),
    rat_core _ _ _ _ _ _ hNu hqv (Rat.le_of_lt hu) (Rat.le_of_lt hv) hcast,
    rat_le_one _ _ _ Rat.natCast_nonneg (Rat.le_of_lt hu) (Rat.le_of_lt hv), ?_⟩
  rw [rat_eq_one _ _ _ hu hv, Rat.natCast_eq_zero_iff, hzero]
  constructor
  · intro h0 b hb'
    exact (minTransfer_eq_zero_iff r b s hr (hb b hb').1 (hb b hb').2 hs h2).1 (h0 b hb')
  · intro h0 b hb'
    exact (hm b hb').2 (h0 b hb')

/-! ## rejection of other taxa -/

theorem sameTaxa_of_compareTips {r b : T} (hr : r.tipNames.Nodup) (hb : b.tipNames.Nodup)
    (h : compareTips r b = true) : sameTaxa r b = true := by
  simp only [compareTips, Bool.and_eq_true, bne_iff_ne, ne_eq, beq_iff_eq, List.all_eq_true,
    List.contains_eq_mem, decide_eq_true_eq] at h
  obtain ⟨⟨_, hl⟩, hs⟩ := h
  rw [sameTaxa_iff]
  intro x
  exact ⟨hs x, subset_of_nodup_length_le hr hs (by omega) x⟩

theorem fbpLoop_err (r : T) : ∀ (bs : List T) (c : List Nat) (n : Nat),
    (∃ b ∈ bs, compareTips r b = false) → (fbpLoop r bs c n).2.2 = true
  | [], _, _, h => by obtain ⟨b, hb, _⟩ := h; cases hb
  | b :: bs, c, n, h => by
    unfold fbpLoop
    by_cases h1 : reinitOk b = true
    · by_cases h2 : compareTips r b = true
      · simp only [h1, h2, Bool.not_true, Bool.false_eq_true, if_false]
        apply fbpLoop_err r bs
        obtain ⟨b', hb', hc⟩ := h
        rcases List.mem_cons.1 hb' with rfl | hb'
        · rw [h2] at hc; cases hc
        · exact ⟨b', hb', hc⟩
      · simp [h1, h2]
    · simp [h1]

theorem tbeLoop_err (r : T) (hid : idsInRange r = true) : ∀ (bs : List T) (sups : List Rat) (n : Nat),
    (∃ b ∈ bs, compareTips r b = false) → tbeLoop r bs sups n = .err
  | [], _, _, h => by obtain ⟨b, hb, _⟩ := h; cases hb
  | b :: bs, c, n, h => by
    unfold tbeLoop
    by_cases h1 : reinitOk b = true
    · by_cases h2 : compareTips r b = true
      · simp only [h1, h2, idPanic_false r b hid, Bool.not_true, Bool.false_eq_true, if_false]
        apply tbeLoop_err r hid bs
        obtain ⟨b', hb', hc⟩ := h
        rcases List.mem_cons.1 hb' with rfl | hb'
        · rw [h2] at hc; cases hc
        · exact ⟨b', hb', hc⟩
      · simp [h1, h2]
    · simp [h1]

/-! ## order of the collection -/

theorem perm_sum_nat {l₁ l₂ : List Nat} (h : l₁.Perm l₂) : l₁.sum = l₂.sum := by
  induction h with
  | nil => rfl
  | cons x _ ih => simp [ih]
  | swap x y l => simp only [List.sum_cons]; omega
  | trans _ _ ih1 ih2 => exact ih1.trans ih2

theorem hypOK_perm {r : T} {bs bs' : List T} (hp : bs.Perm bs') (h : hypOK r bs = true) :
    hypOK r bs' = true := by
  obtain ⟨hr, hne, hb⟩ := hypOK_facts h
  simp only [hypOK, Bool.and_eq_true, Bool.not_eq_true', List.isEmpty_eq_false_iff, List.all_eq_true]
  refine ⟨⟨hr, ?_⟩, fun b hb' => hb b (hp.mem_iff.2 hb')⟩
  intro e
  rw [e] at hp
  exact hne (List.Perm.eq_nil hp)

theorem fbpSpec_perm (all side : List String) {bs bs' : List T} (hp : bs.Perm bs') :
    fbpSpec all side bs = fbpSpec all side bs' := by
  unfold fbpSpec
  rw [(hp.filter _).length_eq, hp.length_eq]

theorem tbeSpec_perm (all below : List String) {bs bs' : List T} (hp : bs.Perm bs') :
    tbeSpec all below bs = tbeSpec all below bs' := by
  unfold tbeSpec
  simp only []
  rw [perm_sum_nat (hp.map _), hp.length_eq]

end Gotree.C10
