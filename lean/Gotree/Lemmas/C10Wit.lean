/-
  C10: concrete witnesses (non-vacuity of the hypotheses, pinned variants).
-/
import Gotree.Lemmas.C10Rot

namespace Gotree.C10
open Gotree

def Out.isErr {α : Type} : Out α → Bool
  | .err => true
  | _ => false

def Out.isNan {α : Type} : Out α → Bool
  | .nan => true
  | _ => false

def Out.isPanic {α : Type} : Out α → Bool
  | .panic => true
  | _ => false

/-- the support of branch number `i` of an accepted run -/
def supAt (o : Out (List Rat)) (i : Nat) : Option Rat :=
  match o with
  | .ok l => l[i]?
  | _ => none

def wE (i : Int) : EdgeD := ⟨NIL, NIL, NIL, [], i⟩
def wN (k : Kids) : T := .node ⟨"", []⟩ 0 k

/-- `(a,((b,c),d));` — rooted, a tip child of the root; branch 1 is the twin of tip branch 0 -/
def wRef : T :=
  wN [(wE 0, T.leaf "a"), (wE 1, wN [(wE 2, wN [(wE 3, T.leaf "b"), (wE 4, T.leaf "c")]), (wE 5, T.leaf "d")])]
/-- `((b,c),a,d);` -/
def wBoot : T := wN [(wE 0, wN [(wE 1, T.leaf "b"), (wE 2, T.leaf "c")]), (wE 3, T.leaf "a"), (wE 4, T.leaf "d")]
/-- `((b,d),a,c);` -/
def wBoot2 : T := wN [(wE 0, wN [(wE 1, T.leaf "b"), (wE 2, T.leaf "d")]), (wE 3, T.leaf "a"), (wE 4, T.leaf "c")]
/-- `((b,c),a,z);` — other taxa -/
def wBad : T := wN [(wE 0, wN [(wE 1, T.leaf "b"), (wE 2, T.leaf "c")]), (wE 3, T.leaf "a"), (wE 4, T.leaf "z")]
/-- `((a,b),(c,d,e),f);` — unrooted, multifurcating, 6 taxa -/
def wRef6 : T :=
  wN [(wE 0, wN [(wE 1, T.leaf "a"), (wE 2, T.leaf "b")]),
      (wE 3, wN [(wE 4, T.leaf "c"), (wE 5, T.leaf "d"), (wE 6, T.leaf "e")]), (wE 7, T.leaf "f")]
/-- `(((a,c),b),(d,e),f);` -/
def wBoot6 : T :=
  wN [(wE 0, wN [(wE 1, wN [(wE 2, T.leaf "a"), (wE 3, T.leaf "c")]), (wE 4, T.leaf "b")]),
      (wE 5, wN [(wE 6, T.leaf "d"), (wE 7, T.leaf "e")]), (wE 8, T.leaf "f")]

/-- `((c,a),b,((e,d),f));` — `wBoot6` re-rooted, children rotated -/
def wBoot6r : T :=
  wN [(wE 0, wN [(wE 1, T.leaf "c"), (wE 2, T.leaf "a")]), (wE 3, T.leaf "b"),
      (wE 4, wN [(wE 5, wN [(wE 6, T.leaf "e"), (wE 7, T.leaf "d")]), (wE 8, T.leaf "f")])]
/-- `(f,(b,a),(e,d,c));` — `wRef6` re-rooted nowhere but rotated; `((a,b),((c,d,e),f));` rooted -/
def wRef6r : T :=
  wN [(wE 0, wN [(wE 1, T.leaf "a"), (wE 2, T.leaf "b")]),
      (wE 3, wN [(wE 4, wN [(wE 5, T.leaf "c"), (wE 6, T.leaf "d"), (wE 7, T.leaf "e")]), (wE 8, T.leaf "f")])]

/-- `(f,(b,a),(c,d,e));` — `wRef6` with the children of the root and of the node `(a,b)` reordered -/
def wRef6rot : T :=
  wN [(wE 7, T.leaf "f"), (wE 0, wN [(wE 2, T.leaf "b"), (wE 1, T.leaf "a")]),
      (wE 3, wN [(wE 4, T.leaf "c"), (wE 5, T.leaf "d"), (wE 6, T.leaf "e")])]

theorem wRef6_rot : RotT wRef6 wRef6rot :=
  ⟨rfl, [(wE 0, wN [(wE 2, T.leaf "b"), (wE 1, T.leaf "a")]),
         (wE 3, wN [(wE 4, T.leaf "c"), (wE 5, T.leaf "d"), (wE 6, T.leaf "e")]), (wE 7, T.leaf "f")],
    ⟨rfl, ⟨rfl, _, rotK_refl _, List.Perm.swap _ _ _⟩, rfl, rotT_refl _, rfl, rotT_refl _, trivial⟩,
    (List.perm_append_comm (l₁ := [(wE 0, wN [(wE 2, T.leaf "b"), (wE 1, T.leaf "a")]),
         (wE 3, wN [(wE 4, T.leaf "c"), (wE 5, T.leaf "d"), (wE 6, T.leaf "e")])]) (l₂ := [(wE 7, T.leaf "f")]))⟩

theorem hypOK_reference {r r' : T} {bs : List T} (h : hypOK r bs = true) (hr' : treeOK r' = true)
    (hT : sameTaxa r r' = true) : hypOK r' bs = true := by
  obtain ⟨_, hne, hb⟩ := hypOK_facts h
  have t := sameTaxa_iff.1 hT
  simp only [hypOK, Bool.and_eq_true, Bool.not_eq_true', List.isEmpty_eq_false_iff, List.all_eq_true]
  refine ⟨⟨hr', hne⟩, fun b hbm => ⟨(hb b hbm).1, ?_⟩⟩
  rw [sameTaxa_iff]
  intro x
  exact (t x).symm.trans (sameTaxa_iff.1 (hb b hbm).2 x)

theorem zero_div_one : ((0 : Nat) : Rat) / ((1 : Nat) : Rat) = 0 := by
  have : ((0 : Nat) : Rat) = 0 := rfl
  rw [this, Rat.div_def, Rat.zero_mul]

theorem one_div_one : ((1 : Nat) : Rat) / ((1 : Nat) : Rat) = 1 := by
  have : ((1 : Nat) : Rat) = 1 := rfl
  rw [this, Rat.div_def, Rat.mul_inv_cancel _ (by decide)]

/-! ## the pinned variants, for all inputs -/

theorem fbpLoopPinned14_noerr (r : T) : ∀ (bs : List T) (c : List Nat) (n : Nat),
    (fbpLoopPinned14 r bs c n).2.2 = false
  | [], _, _ => rfl
  | _ :: bs, _, _ => by
    unfold fbpLoopPinned14
    exact fbpLoopPinned14_noerr r bs _ _

theorem tbeLoopPinned15_err (r : T) : ∀ (bs : List T) (sups : List Rat) (n : Nat) (e : Bool),
    (tbeLoopPinned15 r bs sups n e).2.2 =
      match bs.getLast? with
      | none => e
      | some b => !compareTips r b
  | [], _, _, _ => rfl
  | [b], _, _, _ => by simp [tbeLoopPinned15]
  | b :: b' :: bs, sups, n, e => by
    unfold tbeLoopPinned15
    rw [tbeLoopPinned15_err r (b' :: bs), List.getLast?_cons_cons]
    cases h : (b' :: bs).getLast? with
    | none => simp at h
    | some x => rfl

end Gotree.C10
