/-
  C06 — `removeTip` and the loop of `RemoveTips` at the root: the effect on the
  split list of the whole tree.  Core Lean only.
-/
import Gotree.Lemmas.C06Eff

namespace Gotree.C06
open Gotree Gotree.C14

theorem splits_node (d : NodeD) (p : Nat) (k : Kids) : (T.node d p k).splits = splitsL k := rfl

theorem splitsBelow_eq (c : T) : c.splitsBelow = splitsL c.kids := by
  obtain ⟨d, p, k⟩ := c; rfl

theorem disjoint_of_nodup_append {A B : List String} (h : (A ++ B).Nodup) :
    ∀ a ∈ A ++ B, (a ∈ A ↔ a ∉ B) := by
  intro a ha
  have hd := (List.nodup_append.1 h).2.2
  constructor
  · intro h1 h2; exact hd a h1 a h2 rfl
  · intro h2
    rcases List.mem_append.1 ha with m | m
    · exact m
    · exact absurd m h2

/-- One `removeTip` on a well-formed tree with unique tips, ≥ 3 tips remaining:
    effect on the split list, seen from the remaining tips. -/
theorem removeTip_rootEff (x : String) (t : T) (hroot : t.kids.length ≠ 1) (hns : t.noSingle = true)
    (hnd : t.tipNames.Nodup) (hcount : 4 ≤ t.tipNames.length) (t' : T) (h : removeTip x t = .ok t') :
    RootEff t'.tipNames t.splits t'.splits := by
  obtain ⟨t'', e1, hperm, _, hr'⟩ := removeTip_spec x t hroot hns hcount
  rw [h] at e1
  cases e1
  have hnd' : t'.tipNames.Nodup := hperm.nodup_iff.2 (hnd.erase x)
  have hx : x ∉ t'.tipNames := by
    intro hm
    have := hperm.mem_iff.1 hm
    exact (hnd.mem_erase_iff.1 this).1 rfl
  obtain ⟨d, p, kids⟩ := t
  simp only [T.kids_node] at hroot
  have E := rmKids_eff x kids
  have hr1 : (kids.length == 1) = false := by simp [hroot]
  simp only [removeTip, hr1, Bool.false_and, Bool.false_eq_true, if_false] at h
  rw [splits_node]
  cases hk : rmKids x kids with
  | notFound =>
    rw [hk] at h; cases h
    exact RootEff.of_eff hx (Eff.refl x _)
  | set ks =>
    rw [hk] at h E; cases h
    exact RootEff.of_eff hx E
  | spl i ks ei e c =>
    rw [hk] at h E; cases h
    rw [splits_node, splitsL_append, splitsL_single]
    exact RootEff.of_eff hx (E _)
  | del i ks =>
    rw [hk] at h E
    have E' : Eff x (splitsL kids) (splitsL ks) := E
    match ks, h, E' with
    | [], h, E' => cases h; exact RootEff.of_eff hx E'
    | [(e, c)], h, E' =>
      cases h
      rw [splits_node]
      rw [splitsL_single] at E'
      refine RootEff.trans (fun a ha => ha) (RootEff.of_eff hx E') ?_
      rw [← splitsBelow_eq c]
      apply RootEff.dropTop
      intro a ha
      simp only [T.kids_node] at hr'
      rw [tipNames_of_ne1 _ (by simpa using hr')] at ha
      simp only [T.kids_node] at ha
      by_cases hc : c.kids = []
      · rw [hc] at ha; simp [leavesL] at ha
      · show a ∈ c.leaves
        rw [leaves_of_inner c hc]; exact ha
    | [(e0, k0), (e1, k1)], h, E' =>
      have hL : splitsL [(e0, k0), (e1, k1)] =
          (⟨k0.leaves, e0, k0.isLeaf⟩ : SplitE) :: (k0.splitsBelow ++ ((⟨k1.leaves, e1, k1.isLeaf⟩ : SplitE) :: k1.splitsBelow)) := by
        simp [splitsL]
      rw [hL] at E'
      by_cases h0 : k0.kids.length > 1
      · simp only [h0, if_true] at h
        cases h
        have hk0 : k0.kids ≠ [] := by intro h'; rw [h'] at h0; simp at h0
        refine RootEff.trans (fun a ha => ha) (RootEff.of_eff hx E') ?_
        rw [splits_node, splitsL_append, splitsL_single, ← splitsBelow_eq k0]
        simp only [reattach_leaves, reattach_isLeaf, reattach_splitsBelow]
        have hall : (T.node k0.d 0 (k0.kids ++ [(fuseEdge e0 e1 (!k1.isLeaf), reattach k1)])).tipNames
            = k0.leaves ++ k1.leaves := by
          rw [tipNames_of_ne1 _ (by simpa using hr')]
          simp [leavesL_append, leavesL_single, leaves_of_inner k0 hk0]
        rw [hall] at hnd' ⊢
        exact RootEff.fuseRoot _ _ ⟨k1.leaves, _, k1.isLeaf⟩ _ _ (!k1.isLeaf)
          (disjoint_of_nodup_append hnd') (sameSplit.rfl' _ _) (Or.inl rfl)
      · simp only [h0, if_false] at h
        by_cases h1 : k1.kids.length > 1
        · simp only [h1, if_true] at h
          cases h
          have hk1 : k1.kids ≠ [] := by intro h'; rw [h'] at h1; simp at h1
          refine RootEff.trans (fun a ha => ha) (RootEff.of_eff hx E') ?_
          rw [splits_node, splitsL_append, splitsL_single, ← splitsBelow_eq k1]
          simp only [reattach_leaves, reattach_isLeaf, reattach_splitsBelow]
          have hall : (T.node k1.d 0 (k1.kids ++ [(fuseEdge e0 e1 (!k0.isLeaf), reattach k0)])).tipNames
              = k1.leaves ++ k0.leaves := by
            rw [tipNames_of_ne1 _ (by simpa using hr')]
            simp [leavesL_append, leavesL_single, leaves_of_inner k1 hk1]
          rw [hall] at hnd' ⊢
          -- bring the branch of k1 first, then fuse
          have sw := RootEff.swap (k1.leaves ++ k0.leaves)
            ((⟨k0.leaves, e0, k0.isLeaf⟩ : SplitE) :: k0.splitsBelow)
            ((⟨k1.leaves, e1, k1.isLeaf⟩ : SplitE) :: k1.splitsBelow)
          have fu := RootEff.fuseRoot (all := k1.leaves ++ k0.leaves) ⟨k1.leaves, e1, k1.isLeaf⟩ ⟨k0.leaves, e0, k0.isLeaf⟩
            ⟨k0.leaves, fuseEdge e0 e1 (!k0.isLeaf), k0.isLeaf⟩ k1.splitsBelow k0.splitsBelow (!k0.isLeaf)
            (disjoint_of_nodup_append hnd') (sameSplit.rfl' _ _) (Or.inr rfl)
          exact RootEff.trans (fun a ha => ha) (by simpa using sw) (by simpa using fu)
        · simp [h1] at h
    | a :: b :: c :: r, h, E' => cases h; exact RootEff.of_eff hx E'

theorem removeLoop_rootEff : ∀ (todo : List (String × Bool)) (t : T), t.kids.length ≠ 1 → t.noSingle = true →
    t.tipNames.Nodup → (todo.map (·.1)).Nodup → (∀ n ∈ todo.map (·.1), n ∈ t.tipNames) →
    3 + (flagged todo).length ≤ t.tipNames.length →
    ∀ t', removeLoop todo t = .ok t' → RootEff t'.tipNames t.splits t'.splits
  | [], t, _, _, _, _, _, _, t', h => by
    cases h
    exact ⟨fun _ _ _ _ _ => rfl, fun h => h, fun s hs => ⟨s, hs, sameSplit.rfl' _ _⟩,
      fun s hs _ _ => ⟨s, hs, sameSplit.rfl' _ _⟩⟩
  | (n, false) :: r, t, hroot, hns, hnd, htodo, hsub, hcount, t', h => by
    have hn : n ∈ t.tipNames := hsub n (by simp)
    have hf : flagged ((n, false) :: r) = flagged r := by simp [flagged]
    rw [hf] at hcount
    simp only [List.map_cons, List.nodup_cons] at htodo
    have hl : removeLoop r t = .ok t' := by
      simp only [removeLoop] at h
      simpa [hn] using h
    exact removeLoop_rootEff r t hroot hns hnd htodo.2 (fun m hm => hsub m (by simp at hm ⊢; exact Or.inr hm)) hcount t' hl
  | (n, true) :: r, t, hroot, hns, hnd, htodo, hsub, hcount, t', h => by
    have hn : n ∈ t.tipNames := hsub n (by simp)
    have hf : flagged ((n, true) :: r) = n :: flagged r := by simp [flagged]
    rw [hf] at hcount
    simp only [List.map_cons, List.nodup_cons] at htodo
    have hc4 : 4 ≤ t.tipNames.length := by simp at hcount; omega
    obtain ⟨t1, h1, h2, h3, h4⟩ := removeTip_spec n t hroot hns hc4
    have hnd1 : t1.tipNames.Nodup := (h2.nodup_iff).2 (hnd.erase n)
    have hsub1 : ∀ m ∈ r.map (·.1), m ∈ t1.tipNames := by
      intro m hm
      have hmn : m ≠ n := by
        intro h; subst h; exact htodo.1 hm
      exact h2.mem_iff.2 ((List.mem_erase_of_ne hmn).2 (hsub m (by simp at hm ⊢; exact Or.inr hm)))
    have hc1 : 3 + (flagged r).length ≤ t1.tipNames.length := by
      rw [h2.length_eq, List.length_erase_of_mem hn]; simp at hcount; omega
    have hl : removeLoop r t1 = .ok t' := by
      simp only [removeLoop] at h
      simpa [hn, h1] using h
    have R1 := removeTip_rootEff n t hroot hns hnd hc4 t1 h1
    have R2 := removeLoop_rootEff r t1 h4 h3 hnd1 htodo.2 hsub1 hc1 t' hl
    obtain ⟨t'', g1, g2, _⟩ := removeLoop_spec r t1 h4 h3 hnd1 htodo.2 hsub1 hc1
    rw [hl] at g1; cases g1
    exact RootEff.trans (fun a ha => (List.mem_filter.1 (g2.mem_iff.1 ha)).1) R1 R2

/-- the Bool hypotheses evaluated by the driver (`wf`) as propositions -/
theorem wf_iff (t : T) : wf t = true ↔ t.tipNames.Nodup ∧ t.noSingle = true ∧ t.kids.length ≠ 1 := by
  simp [wf, uniq, hasDup_false_iff, and_assoc]

theorem lensOK_iff (t : T) : lensOK t = true ↔ ∀ s ∈ t.splits, lenOKe s.e := by
  simp [lensOK, T.edges, lenOKe]

theorem mem_sortNames6 {a : String} {l : List String} : a ∈ sortNames l ↔ a ∈ l :=
  (List.mergeSort_perm l _).mem_iff

end Gotree.C06
