import Gotree.Model.Core
/-
  C18 — determinism.  Models of the map-range sites of /repo (table (c), Gen/C18Sites.lean).

  A Go map is an association list with unspecified iteration order (DESIGN §3.4): every
  function below that corresponds to a `range` over a map takes the entries IN ITERATION
  ORDER as an explicit argument `l : List (K × V)`; keys of a map are distinct
  (`nodupKeys l`).  The C18 theorems (Proofs/C18.lean) are permutation-invariance in `l`.

  Loops are written as the code writes them (collect, sort, look up, write; early exits;
  in-place updates of an accumulator), not as their specification.
  Core Lean only (linked into the driver).
-/
namespace Gotree.C18

/-! ## vocabulary -/

/-- `sort.Strings` (bytewise order = `String` order) -/
def sortS (l : List String) : List String := l.mergeSort (fun a b => decide (a ≤ b))

/-- `sort.Ints` -/
def sortI (l : List Int) : List Int := l.mergeSort (fun a b => decide (a ≤ b))

/-- Go map lookup `v, ok := m[k]` on the entry list -/
def get {K V} [BEq K] (l : List (K × V)) (k : K) : Option V := l.lookup k

def keys {K V} (l : List (K × V)) : List K := l.map (·.1)

/-- the keys of a map are pairwise distinct -/
def nodupKeys {K V} [BEq K] : List (K × V) → Bool
  | [] => true
  | (k, _) :: r => !(r.any (fun e => e.1 == k)) && nodupKeys r

/-- the values of an index are pairwise distinct (distinct names index distinct nodes) -/
def nodupVals {K V} [BEq V] : List (K × V) → Bool
  | [] => true
  | (_, v) :: r => !(r.any (fun e => e.2 == v)) && nodupVals r

/-- map write `m[k] = v` on an association list standing for a map that is only looked up afterwards -/
def put {K V} [BEq K] (m : List (K × V)) (k : K) (v : V) : List (K × V) :=
  if m.any (fun e => e.1 == k) then m.map (fun e => if e.1 == k then (k, v) else e) else m ++ [(k, v)]

/-- `delete(m, k)` -/
def del {K V} [BEq K] (m : List (K × V)) (k : K) : List (K × V) := m.filter (fun e => !(e.1 == k))

/-! ## the pattern "collect the keys, sort.Strings, then walk the sorted keys"
    (TipBag.Tips, cmd/acr.go, cmd/comparetips.go, cmd/extractmutations.go, cmd/rename.go) -/

/-- first loop: `for k := range m { names = append(names, k) }` -/
def collectKeys {V} (l : List (String × V)) : List String := l.foldl (fun acc e => acc ++ [e.1]) []

/-- second loop: `for _, k := range names { v := m[k]; emit k v }` (emit may skip) -/
def walkSorted {V O} (emit : String → Option V → Option O) (l : List (String × V)) : List O :=
  (sortS (collectKeys l)).filterMap (fun k => emit k (get l k))

/-- the pinned (pre-fix) shape: emit while ranging over the map -/
def walkUnsorted {V O} (emit : String → Option V → Option O) (l : List (String × V)) : List O :=
  l.filterMap (fun e => emit e.1 (some e.2))

/-- tree/tipbags.go `TipBag.Tips` (node = any reference type) -/
def tipBagTips {N} (l : List (String × N)) : List (Option N) :=
  walkSorted (fun _ v => some v) l

/-- cmd/acr.go `--out-states`: one line `name,state` per node, sorted by name -/
def acrStateLines (l : List (String × String)) : List String :=
  walkSorted (fun k v => some (k ++ "," ++ v.getD "" ++ "\n")) l
def acrStateLinesPinned (l : List (String × String)) : List String :=
  walkUnsorted (fun k v => some (k ++ "," ++ v.getD "" ++ "\n")) l

/-- cmd/comparetips.go with a tip file: the `>` lines (tips of the file absent from the reference tree) -/
def compareTipsLines (refTips : List String) (l : List (String × Bool)) : List String :=
  walkSorted (fun k _ => if refTips.contains k then none else some ("(Tree 0) > " ++ k ++ "\n")) l
def compareTipsLinesPinned (refTips : List String) (l : List (String × Bool)) : List String :=
  walkUnsorted (fun k _ => if refTips.contains k then none else some ("(Tree 0) > " ++ k ++ "\n")) l

/-- cmd/comparetips.go with a tip file, the whole standard output: `<` lines for the tips of the reference
    tree absent from the file (in `Tips()` order, the map only looked up), the sorted `>` lines, the count -/
def compareTipsOutput (refTips : List String) (l : List (String × Bool)) : List String :=
  refTips.filterMap (fun t => if (get l t).isSome then none else some ("(Tree 0) < " ++ t ++ "\n")) ++
  compareTipsLines refTips l ++
  ["(Tree 0) = " ++ toString (refTips.filter (fun t => (get l t).isSome)).length ++ "\n"]

/-- cmd/rename.go `writeNameMap`: `old<TAB>new` lines sorted by old name -/
def nameMapLines (l : List (String × String)) : List String :=
  walkSorted (fun k v => some (k ++ "\t" ++ v.getD "" ++ "\n")) l
def nameMapLinesPinned (l : List (String × String)) : List String :=
  walkUnsorted (fun k v => some (k ++ "\t" ++ v.getD "" ++ "\n")) l

/-- cmd/comparetrees.go `--rf` (0c409eb): `for id := range rfs { ids = append(ids, id) }; sort.Ints(ids);
    for _, id := range ids { Printf("%d\n", rfs[id]) }` -/
def rfLines (l : List (Int × Int)) : List String :=
  (sortI (l.foldl (fun acc e => acc ++ [e.1]) [])).map (fun id => toString ((get l id).getD 0) ++ "\n")
/-- the code before 0c409eb wrote the values in the order of delivery, without the id -/
def rfLinesPinned (delivered : List (Int × Int)) : List String :=
  delivered.map (fun e => toString e.2 ++ "\n")

/-- a mutation record (mutations.Mutation) -/
structure Mut where
  site : Nat
  branch : Nat
  childName : String
  parent : Char
  child : Char
  numTips : Nat
  numTipsChild : Nat
  numEEM : Nat
  deriving BEq, Repr, DecidableEq

def Mut.zero : Mut := ⟨0, 0, "", 'A', 'A', 0, 0, 0⟩

/-- `%d\t%d\t%d\t%s\t%c\t%c\t%d\t%d\n` with the tree id first -/
def mutLine (treeId : Nat) (m : Mut) : String :=
  toString treeId ++ "\t" ++ toString m.site ++ "\t" ++ toString m.branch ++ "\t" ++ m.childName ++ "\t" ++
  m.parent.toString ++ "\t" ++ m.child.toString ++ "\t" ++ toString m.numTips ++ "\t" ++ toString m.numTipsChild ++ "\n"

/-- `%d\t%d\t%c\t%c\t%d\n` (the --eems table) -/
def eemLine (treeId : Nat) (m : Mut) : String :=
  toString treeId ++ "\t" ++ toString m.site ++ "\t" ++ m.parent.toString ++ "\t" ++ m.child.toString ++ "\t" ++ toString m.numEEM ++ "\n"

/-- cmd/extractmutations.go: `for _, k := range sortedMutationKeys(muts) { m := muts.Mutations[k]; Fprintf … }` -/
def mutationLines (eems : Bool) (treeId : Nat) (l : List (String × Mut)) : List String :=
  walkSorted (fun _ v => some ((if eems then eemLine else mutLine) treeId (v.getD Mut.zero))) l
def mutationLinesPinned (eems : Bool) (treeId : Nat) (l : List (String × Mut)) : List String :=
  walkUnsorted (fun _ v => some ((if eems then eemLine else mutLine) treeId (v.getD Mut.zero))) l

/-- cmd/extractmutations.go `sortedMutationKeys` alone -/
def sortedMutationKeys (l : List (String × Mut)) : List String := sortS (collectKeys l)

/-! ## acr.ParsimonyAcr: the alphabet = distinct states in order of first appearance, then sorted -/

/-- `for _, state := range tipCharacters { if !seen[state] { alphabet = append(alphabet, state) }; seen[state] = true }`
    (`seen` is the set of states met so far = membership in the alphabet built so far) -/
def acrCollect (l : List (String × String)) : List String :=
  l.foldl (fun alphabet e => if alphabet.contains e.2 then alphabet else alphabet ++ [e.2]) []

def acrAlphabet (l : List (String × String)) : List String := sortS (acrCollect l)

/-- what the alphabet would be without the `sort.Strings` (a variant, for the negative witness) -/
def acrAlphabetUnsorted (l : List (String × String)) : List String := acrCollect l

/-! ## asr.parsimonyUPPASS, tip case: the states a character of a tip stands for, and the counts vector -/

/-- goalign `align.IupacCode` (a map that is only looked up; an absent key gives the empty slice) -/
def iupac : Char → List Char
  | 'A' => ['A'] | 'C' => ['C'] | 'G' => ['G'] | 'T' => ['T']
  | 'R' => ['A', 'G'] | 'Y' => ['C', 'T'] | 'S' => ['G', 'C'] | 'W' => ['A', 'T'] | 'K' => ['G', 'T'] | 'M' => ['A', 'C']
  | 'B' => ['C', 'G', 'T'] | 'D' => ['A', 'G', 'T'] | 'H' => ['A', 'C', 'T'] | 'V' => ['A', 'C', 'G']
  | 'N' => ['A', 'C', 'G', 'T'] | '-' => ['-'] | _ => []

/-- repaired code (de2cfbe): nucleotides through the IUPAC table; amino acids: 'X' expands to the
    alphabet itself; `charToIndex` is only looked up -/
def asrPossibilities (nucl : Bool) (alphabet : List Char) (c : Char) : List Char :=
  if nucl then iupac c else if c == 'X' then alphabet else [c]

/-- pinned code (F23): ranges over `charToIndex` and cuts the last two entries -/
def asrPossibilitiesPinned (charToIndex : List (Char × Nat)) (c : Char) : List Char :=
  if c == 'X' then (keys charToIndex).dropLast.dropLast else [c]

def setAt (l : List Nat) (i : Nat) (v : Nat) : List Nat := l.set i v

/-- `for _, c2 := range possibilities { if idx, ok := charToIndex[c2]; ok { counts[idx] = 1 } }` -/
def asrTipCounts (nucl : Bool) (alphabet : List Char) (charToIndex : List (Char × Nat)) (c : Char) : List Nat :=
  (asrPossibilities nucl alphabet c).foldl
    (fun counts c2 => match get charToIndex c2 with | some i => setAt counts i 1 | none => counts)
    (List.replicate charToIndex.length 0)

def asrTipCountsPinned (charToIndex : List (Char × Nat)) (c : Char) : List Nat :=
  (asrPossibilitiesPinned charToIndex c).foldl
    (fun counts c2 => match get charToIndex c2 with | some i => setAt counts i 1 | none => counts)
    (List.replicate charToIndex.length 0)

/-- `assignSequencesToTree`, one site of one node: the characters whose count is positive, in alphabet
    order; `*` when there is none, braces when there are several -/
def asrRender (fullAlphabet : List Char) (counts : List Nat) : String :=
  let present := (fullAlphabet.zip counts).filterMap (fun e => if e.2 > 0 then some e.1 else none)
  if present.length == 0 then "*"
  else if present.length > 1 then "{" ++ String.ofList present ++ "}"
  else String.ofList present

/-! ## tree.UpdateTipIndex -/

/-- `for k := range t.tipIndex { delete(t.tipIndex, k) }` on the map itself -/
def clearIndex {N} (l : List (String × N)) : List (String × N) :=
  l.foldl (fun m e => del m e.1) l

/-- then `for i, tip := range sortedTips { if _, ok := idx[name]; ok { err }; idx[name] = tip }` -/
def fillIndex {N} : List (String × N) → List (String × N) → Option (List (String × N))
  | idx, [] => some idx
  | idx, (name, n) :: r => if (get idx name).isSome then none else fillIndex (put idx name n) r

/-- the whole of `UpdateTipIndex`: `none` = "several tips have the same name" -/
def updateTipIndex {N} (sortedTips : List (String × N)) (l : List (String × N)) : Option (List (String × N)) :=
  fillIndex (clearIndex l) sortedTips

/-! ## tree.CompareTipIndexes, tree.Merge: early exit on the first key (not) found in the other index -/

/-- `for k := range t.tipIndex { if _, ok := t2.tipIndex[k]; !ok { return error } }; return nil` — `true` = nil -/
def compareTipIndexesLoop {N} : List String → List (String × N) → Bool
  | _, [] => true
  | other, (k, _) :: r => if other.contains k then compareTipIndexesLoop other r else false

def compareTipIndexes {N} (other : List String) (l : List (String × N)) : Bool :=
  if l.length == 0 || other.length == 0 || l.length != other.length then false else compareTipIndexesLoop other l

/-- `for k := range t.tipIndex { if _, ok := t2.tipIndex[k]; ok { return error } }` — `true` = no common tip -/
def mergeDisjointLoop {N} : List String → List (String × N) → Bool
  | _, [] => true
  | other, (k, _) :: r => if other.contains k then false else mergeDisjointLoop other r

/-! ## tree.Rename -/

/-- `for name, newname := range namemap { if node, ok := nodeindex[name]; ok { node.SetName(newname) } }`
    `index`: name ↦ node id (built before the loop); `names`: node id ↦ current name -/
def renameLoop (index : List (String × Nat)) (names : Nat → String) (l : List (String × String)) : Nat → String :=
  l.foldl (fun nm e => match get index e.1 with
    | some id => fun i => if i == id then e.2 else nm i
    | none => nm) names

/-- `NewNodeIndex`: nodes in `t.Nodes()` order (position = node id here); a node with a name is entered
    under it, `none` = "Tree contains several node with the same name" -/
def buildNodeIndex : Nat → List String → List (String × Nat) → Option (List (String × Nat))
  | _, [], acc => some acc
  | i, n :: r, acc =>
    if n == "" then buildNodeIndex (i + 1) r acc
    else if (get acc n).isSome then none
    else buildNodeIndex (i + 1) r (put acc n i)

/-- the whole of `Tree.Rename` on the node names (in `t.Nodes()` order) and the tip flags:
    index, loop, then `UpdateTipIndex` (an error when two tips end up with the same name) -/
def renameFull (names : List String) (isTip : List Bool) (l : List (String × String)) : Option (List String) :=
  match buildNodeIndex 0 names [] with
  | none => none
  | some index =>
    let after := (List.range names.length).map (renameLoop index (fun i => (names.drop i).headD "") l)
    let tips := sortS ((after.zip isTip).filterMap (fun e => if e.2 then some e.1 else none))
    match fillIndex ([] : List (String × Nat)) (tips.map (fun n => (n, 0))) with
    | none => none
    | some _ => some after

/-- a variant of `renameLoop` in which the loop also records each renamed node under its NEW name in the
    node index (`nodeindex.AddNode(node)`, the seeded change C18-1): a later entry whose old name is that new
    name then finds the node again -/
def renameLoopReindex (index : List (String × Nat)) (names : Nat → String) (l : List (String × String)) : Nat → String :=
  (l.foldl (fun (st : List (String × Nat) × (Nat → String)) e => match get st.1 e.1 with
    | some id => (put st.1 e.2 id, fun i => if i == id then e.2 else st.2 i)
    | none => st) (index, names)).2

/-! ## io/nexus `WriteNexus`: the taxon label table (nexus.go:83-99) and the blocks written from it -/

/-- `if _, ok := taxLabelsMap[tip]; !ok { taxLabelsMap[tip] = Sprintf("%d", nbTax); slice = append(slice, tip); nbTax++ }` -/
def nexusLabelStep (st : List (String × String) × List String × Nat) (tip : String) :
    List (String × String) × List String × Nat :=
  if (get st.1 tip).isSome then st else (put st.1 tip (toString st.2.2), st.2.1 ++ [tip], st.2.2 + 1)

/-- the loop over the trees (each given by its tip names in `AllTipNames` order); `sort.Strings(slice)` after each tree -/
def nexusLabels (trees : List (List String)) : List (String × String) × List String × Nat :=
  trees.foldl (fun st tips => let st' := tips.foldl nexusLabelStep st; (st'.1, sortS st'.2.1, st'.2.2)) ([], [], 0)

/-- everything `WriteNexus` writes except the `TREE` lines: TAXA block, TRANSLATE block (map only looked up) -/
def nexusFrameLines (translate : Bool) (trees : List (List String)) : List String :=
  let st := nexusLabels trees
  ["#NEXUS\n", "BEGIN TAXA;\n", " DIMENSIONS NTAX=" ++ toString st.1.length ++ ";\n",
   " TAXLABELS" ++ String.join (st.2.1.map (" " ++ ·)) ++ ";\n", "END;\n", "BEGIN TREES;\n"] ++
  (if translate then ["  TRANSLATE\n"] ++ st.2.1.map (fun tip => "   " ++ (get st.1 tip).getD "" ++ " " ++ tip ++ "\n") ++ ["  ;\n"] else []) ++
  ["END;\n"]

/-! ## mutations -/

/-- `MutationList.Append`: `none` = error "already exist" (the partial result is dropped by every caller) -/
def mutAppendLoop : List (String × Mut) → List (String × Mut) → Option (List (String × Mut))
  | m, [] => some m
  | m, (k, v) :: r => if (get m k).isSome then none else mutAppendLoop (put m k v) r

/-- the key that the error message of `Append` names (`none` = no error): the first duplicate met -/
def mutAppendErrKey : List (String × Mut) → List (String × Mut) → Option String
  | _, [] => none
  | m, (k, v) :: r => if (get m k).isSome then some k else mutAppendErrKey (put m k v) r

/-- observation of a mutation map: the lookup function -/
def mutAppend (m : List (String × Mut)) (l : List (String × Mut)) : Option (String → Option Mut) :=
  (mutAppendLoop m l).map (fun r => fun k => get r k)

/-- `countMutationSiteBranch`: `for char, nb := range tmp { if !exist { cd[char] = nb } else { cd[char] += nb } }` -/
def charDistLoop (cd : List (Char × Nat)) (l : List (Char × Nat)) : List (Char × Nat) :=
  l.foldl (fun cd e => match get cd e.1 with
    | none => put cd e.1 e.2
    | some old => put cd e.1 (old + e.2)) cd

def charDist (cd : List (Char × Nat)) (l : List (Char × Nat)) : Char → Option Nat :=
  fun c => get (charDistLoop cd l) c

/-- what `CountMutations` records for a branch whose two ends differ at the site -/
structure MutObs where
  child : String
  parent : Char
  cur : Char
  ntips : Nat
  nid : Nat
  deriving BEq, DecidableEq, Repr

/- `mutations.countMutationSiteBranch` for one alignment site, on the rose tree.  `charOf`: the
   character of a node (by name) at the site; `ord`: the order in which Go iterates the character
   distribution returned for a child (an arbitrary re-listing of that map).
   Result: (number of tips below, character distribution below, mutation records of the subtree). -/
mutual
def cmsNode (charOf : String → Char) (ord : List (Char × Nat) → List (Char × Nat)) (prevChar : Option Char) :
    T → Nat × List (Char × Nat) × List MutObs
  | .node d _ kids =>
    let cur := charOf d.name
    let r := if kids.isEmpty then (1, [(cur, 1)], []) else cmsKids charOf ord cur (0, [], []) kids
    let nid := (get r.2.1 cur).getD 0
    let ms := match prevChar with
      | some p => if p != cur then r.2.2 ++ [⟨d.name, p, cur, r.1, nid⟩] else r.2.2
      | none => r.2.2
    (r.1, r.2.1, ms)
def cmsKids (charOf : String → Char) (ord : List (Char × Nat) → List (Char × Nat)) (cur : Char)
    (acc : Nat × List (Char × Nat) × List MutObs) : Kids → Nat × List (Char × Nat) × List MutObs
  | [] => acc
  | (_, t) :: r =>
    let c := cmsNode charOf ord (some cur) t
    cmsKids charOf ord cur (acc.1 + c.1, charDistLoop acc.2.1 (ord c.2.1), acc.2.2 ++ c.2.2) r
end

/-- `CountMutations` for one site (the root has no parent; a root with a single neighbour is a tip for Go) -/
def countMutationsSite (charOf : String → Char) (ord : List (Char × Nat) → List (Char × Nat)) (t : T) : List MutObs :=
  match t with
  | .node d p kids => if kids.length == 1 then [] else (cmsNode charOf ord none (.node d p kids)).2.2

/-- key of the EEM table `"%d-%c-%c"` (site, parent, child): kept as the triple -/
abbrev EemKey := Nat × Char × Char

def eemKey (v : Mut) : EemKey := (v.site, v.parent, v.child)

/-- one step of the inner loop of `CountEEMs`:
    `id := …; if m, ok := acc[id]; ok { m.NumEEM++; acc[id] = m } else { acc[id] = v }` -/
def eemStep (acc : List (EemKey × Mut)) (v : Mut) : List (EemKey × Mut) :=
  match get acc (eemKey v) with
  | some m => put acc (eemKey v) { m with numEEM := m.numEEM + 1 }
  | none => put acc (eemKey v) v

/-- `CountEEMs` (bf532dd): `for k := range site { keys = append(keys, k) }; sort.Strings(keys);
    for _, k := range keys { v := site[k]; step }` -/
def eemLoop (acc : List (EemKey × Mut)) (l : List (String × Mut)) : List (EemKey × Mut) :=
  (sortS (collectKeys l)).foldl (fun acc k => eemStep acc ((get l k).getD Mut.zero)) acc

/-- the code before bf532dd: `for _, v := range site { step }` -/
def eemLoopPinned (acc : List (EemKey × Mut)) (l : List (String × Mut)) : List (EemKey × Mut) :=
  l.foldl (fun acc e => eemStep acc e.2) acc

/-- the whole records (library result of `mutations.CountEEMs`), as the lookup function of the result map -/
def eemRecords (acc : List (EemKey × Mut)) (l : List (String × Mut)) : EemKey → Option Mut :=
  fun id => get (eemLoop acc l) id

def eemRecordsPinned (acc : List (EemKey × Mut)) (l : List (String × Mut)) : EemKey → Option Mut :=
  fun id => get (eemLoopPinned acc l) id

/-- key of the per-site map of `countEEMSiteBranch`: `"%d-%d-%c-%c"` (site, branch, parent, child) -/
def eemSiteKey (m : Mut) : String :=
  toString m.site ++ "-" ++ toString m.branch ++ "-" ++ m.parent.toString ++ "-" ++ m.child.toString

/- `mutations.countEEMSiteBranch` for one site on the rose tree: the mutation of the nearest changed branch
   above is carried down (`curMutation`) and entered in the per-site map at every tip below it
   (`mutations.Mutations[id] = *curMutation`: one entry per key). -/
mutual
def eemNode (charOf : String → Char) (site : Nat) (prevChar : Option Char) (edgeId : Int) (curMut : Option Mut)
    (acc : List (String × Mut)) : T → List (String × Mut)
  | .node d _ kids =>
    let cur := charOf d.name
    let cm := match prevChar with
      | some p => if p != cur then some ⟨site, edgeId.toNat, d.name, p, cur, 0, 0, 1⟩ else curMut
      | none => curMut
    if kids.isEmpty then (match cm with | some m => put acc (eemSiteKey m) m | none => acc)
    else eemKids charOf site cur cm acc kids
def eemKids (charOf : String → Char) (site : Nat) (cur : Char) (cm : Option Mut)
    (acc : List (String × Mut)) : Kids → List (String × Mut)
  | [] => acc
  | (e, t) :: r => eemKids charOf site cur cm (eemNode charOf site (some cur) e.id cm acc t) r
end

/-- `CountEEMs`: for every site, the per-site map (listed by `ord`, Go's iteration order) merged into the result -/
def countEEMs (charOfAt : Nat → String → Char) (ord : List (String × Mut) → List (String × Mut)) (nsites : Nat) (t : T) :
    List (EemKey × Mut) :=
  (List.range nsites).foldl (fun acc j => eemLoop acc (ord (eemNode (charOfAt j) j none 0 none [] t))) []

/-- what `gotree compute mutations --eems` prints of the pinned loop: per (site, parent, child) the
    number of emergences (this much was order-independent already before bf532dd) -/
def eemCountsPinned (acc : List (EemKey × Mut)) (l : List (String × Mut)) : EemKey → Option Nat :=
  fun id => (get (eemLoopPinned acc l) id).map (·.numEEM)

/-! ## cmd/root.go `PersistentPreRun`: the value handed to `rand.Seed` -/

/-- `if seed == -1 { seed = time.Now().UTC().UnixNano() }; rand.Seed(seed)` -/
def effectiveSeed (seedFlag : Int) (clockNanos : Int) : Int :=
  if seedFlag == -1 then clockNanos else seedFlag

/-! ## excluded packages (reviewed, DESIGN §3.7) -/

/-- draw/pngtreedrawer.go `initFonts`: `for name, ttf := range TTFs { fontCache.Store(name, parse(ttf)) }`, then the
    cache is only looked up (`Load`) -/
def fontCacheLoad (l : List (String × String)) (name : String) : Option String :=
  get (l.foldl (fun fc e => put fc e.1 e.2) []) name

/-- download/ncbitax.go `writeMapfile`: lines written while ranging -/
def ncbiMapLines (l : List (String × String)) : List String :=
  walkUnsorted (fun k v => some (k ++ "\t" ++ v.getD "" ++ "\n")) l

end Gotree.C18
