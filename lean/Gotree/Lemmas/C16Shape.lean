/-
  C16 — the caterpillar shape (helper lemmas for Proofs/C16.lean).
-/
import Gotree.Lemmas.C16

namespace Gotree.C16
open Gotree

/-- the spine the caterpillar generator grows: `m` inner nodes, each carrying the rest of the
    spine as first child and one tip as second child; `last` is the tip at the bottom -/
inductive Lad : Nat → String → T → Prop where
  | leaf (d : NodeD) (p : Nat) : Lad 0 d.name (.node d p [])
  | step {m : Nat} {last : String} {c : T} (d : NodeD) (p : Nat) (e1 e2 : EdgeD) (dx : NodeD) (px : Nat) :
      Lad m last c → Lad (m + 1) last (.node d p [(e1, c), (e2, .node dx px [])])

theorem lad_numEdges {m : Nat} {last : String} {c : T} (h : Lad m last c) : numEdges c = 2 * m := by
  induction h with
  | leaf d p => simp [numEdges, numEdgesL]
  | step d p e1 e2 dx px _ ih => simp [numEdges, numEdgesL] at *; omega

theorem lad_find {m : Nat} {last : String} {c : T} (h : Lad m last c) :
    ∀ (e : EdgeD) (r : Kids),
      (splitsL ((e, c) :: r)).findIdx? (fun s => s.tip && s.below == [last]) = some m := by
  induction h with
  | leaf d p => intro e r; simp [splitsL, T.leaves, T.isLeaf, List.findIdx?_cons]
  | @step m' last' c' d p e1 e2 dx px _ ih =>
    intro e r
    have h1 := ih e1 [(e2, .node dx px [])]
    have hsplit : splitsL ((e, T.node d p [(e1, c'), (e2, .node dx px [])]) :: r) =
        ⟨(T.node d p [(e1, c'), (e2, .node dx px [])]).leaves, e, false⟩ ::
          (splitsL [(e1, c'), (e2, .node dx px [])] ++ splitsL r) := by
      simp [splitsL, T.splitsBelow, T.isLeaf]
    rw [hsplit, List.findIdx?_cons]
    simp only [Bool.false_and, Bool.false_eq_true, if_false]
    rw [List.findIdx?_append, h1]
    simp

theorem lad_graft (new : String) (l0 l1 l2 : Rat) {m : Nat} {last : String} {c : T} (h : Lad m last c) :
    ∀ (e : EdgeD) (r : Kids), ∃ e' c', applyAtL (graftLen new l0 l1 l2) m ((e, c) :: r) = (e', c') :: r ∧
      Lad (m + 1) new c' := by
  induction h with
  | leaf d p =>
    intro e r
    refine ⟨(graftLen new l0 l1 l2 (e, .node d p [])).1, (graftLen new l0 l1 l2 (e, .node d p [])).2,
      by simp [applyAtL], ?_⟩
    rw [graftLen_eq]
    exact Lad.step newNodeD 1 _ _ d p (Lad.leaf ⟨new, []⟩ 0)
  | @step m' last' c' d p e1 e2 dx px hc ih =>
    intro e r
    obtain ⟨e1', c'', h1, h2⟩ := ih e1 [(e2, .node dx px [])]
    have hne := lad_numEdges hc
    have hlt : m' + 1 - 1 < numEdges (.node d p [(e1, c'), (e2, .node dx px [])]) := by
      simp [numEdges, numEdgesL, hne]; omega
    refine ⟨e, .node d p [(e1', c''), (e2, .node dx px [])], ?_, Lad.step d p e1' e2 dx px h2⟩
    have : applyAtL (graftLen new l0 l1 l2) (m' + 1) ((e, T.node d p [(e1, c'), (e2, .node dx px [])]) :: r) =
        (e, applyAt (graftLen new l0 l1 l2) (m' + 1 - 1) (T.node d p [(e1, c'), (e2, .node dx px [])])) :: r := by
      rw [applyAtL]
      simp only [Nat.add_one_ne_zero, if_false, hlt, if_true]
    rw [this]
    simp only [Nat.add_sub_cancel, applyAt, h1]

mutual
theorem caterBelow_lad_aux : ∀ (m : Nat) (last : String) (c : T), Lad m last c → caterBelow c = true
  | _, _, _, .leaf d p => by simp [caterBelow, innerCount, caterL]
  | _, _, _, .step d p e1 e2 dx px hc => by
    have := caterBelow_lad_aux _ _ _ hc
    simp only [caterBelow, caterL, this, Bool.and_true, Bool.true_and, innerCount, List.filter, T.isLeaf, T.kids_node,
      List.isEmpty_nil, Bool.not_true]
    split <;> simp
end

theorem caterBelow_lad {m : Nat} {last : String} {c : T} (h : Lad m last c) : caterBelow c = true :=
  caterBelow_lad_aux m last c h

/-- invariant of the caterpillar loop: the general one, and the spine (with `i-2` inner nodes,
    ending in the tip added last) hanging on the first branch of the root; in the rooted case the
    other root branch carries a tip -/
def PCS (rooted : Bool) (i : Nat) (s : St) : Prop :=
  InvT rooted i s.t ∧ ∃ e X r, Lad (i - 2) (tipName (i - 1)) X ∧ s.t.kids = (e, X) :: r ∧
    (r = [] ∨ ∃ e' dx px, r = [(e', .node dx px [])])

theorem lad_mem_leaves {m : Nat} {last : String} {c : T} (h : Lad m last c) : last ∈ c.leaves := by
  induction h with
  | leaf d p => simp [T.leaves]
  | @step m' last' c' d p e1 e2 dx px _ ih => simp [T.leaves, leavesL, ih]

theorem caterStepS_inv (n : Nat) (rooted : Bool) (lens : List Rat) (hl : lensNonneg lens = true)
    (i : Nat) (s : St) (h2 : 2 ≤ i) (_ : i < n) (hp : PCS rooted i s) :
    ∃ s', caterStep lens i s = .ok s' ∧ PCS rooted (i + 1) s' := by
  obtain ⟨hI, e, X, r, hLad, hk, hr⟩ := hp
  have hfind : edgeOfTip s.t (tipName (i - 1)) = some (i - 2) := by
    unfold edgeOfTip
    have hcond : (s.t.kids.length == 1 && s.t.name == tipName (i - 1)) = false := by
      by_cases h1 : s.t.kids.length = 1
      · -- the root is a tip: its name differs from every leaf name
        have hnd : s.t.tipNames.Nodup := hI.tips.nodup_iff.mpr (tipNamesUpTo_nodup i)
        have hmem : tipName (i - 1) ∈ leavesL s.t.kids := by
          rw [hk]; simp only [leavesL, List.mem_append]; exact Or.inl (lad_mem_leaves hLad)
        unfold T.tipNames at hnd
        simp only [h1, beq_self_eq_true, if_true, List.singleton_append, List.nodup_cons] at hnd
        have : s.t.name ≠ tipName (i - 1) := fun hx => hnd.1 (hx ▸ hmem)
        simp [this]
      · simp [h1]
    rw [hcond]
    simp only [Bool.false_eq_true, if_false, T.splits, hk]
    exact lad_find hLad e r
  have hlt : i - 2 < numEdges s.t := by
    have : numEdges s.t = numEdgesL s.t.kids := by cases s.t; simp [numEdges]
    rw [this, hk]; simp only [numEdgesL, lad_numEdges hLad]; omega
  obtain ⟨t', hg, hI', _⟩ := graftAt_inv rooted i s.t (lenAt lens s.li) (lenAt lens (s.li + 1)) (lenAt lens (s.li + 2))
    (i - 2) hI h2 hlt (lenAt_nonneg lens hl s.li) (lenAt_nonneg lens hl (s.li + 1)) (lenAt_nonneg lens hl (s.li + 2))
  have ht' : t' = applyAt (graftLen (tipName i) (lenAt lens s.li) (lenAt lens (s.li + 1)) (lenAt lens (s.li + 2))) (i - 2) s.t := by
    simp only [graftAt, hlt, if_true] at hg
    exact (Res.ok.inj hg).symm
  obtain ⟨e', c', hap, hLad'⟩ := lad_graft (tipName i) (lenAt lens s.li) (lenAt lens (s.li + 1)) (lenAt lens (s.li + 2)) hLad e r
  refine ⟨{ s with t := t', li := s.li + 3 }, by simp only [caterStep, hfind, hg], hI', e', c', r, ?_, ?_, hr⟩
  · have e1 : i + 1 - 2 = i - 2 + 1 := by omega
    have e2 : i + 1 - 1 = i := by omega
    rw [e1, e2]; exact hLad'
  · show t'.kids = (e', c') :: r
    rw [ht', applyAt_kids, hk, hap]

theorem initSt_PCS (rooted : Bool) (lens : List Rat) (hl : lensNonneg lens = true) : PCS rooted 2 (initSt rooted lens) := by
  refine ⟨by rw [initSt_t]; exact initTree_inv rooted lens hl, ?_⟩
  rw [initSt_t]
  cases rooted
  · exact ⟨newEdge (lenAt lens 0), T.leaf (tipName 1), [], Lad.leaf ⟨tipName 1, []⟩ 0, by simp [initTree], Or.inl rfl⟩
  · exact ⟨newEdge (lenAt lens 0), T.leaf (tipName 1), [(newEdge (lenAt lens 1), T.leaf (tipName 0))],
      Lad.leaf ⟨tipName 1, []⟩ 0, by simp [initTree], Or.inr ⟨_, _, _, rfl⟩⟩

/-- running the loop of an insertion generator, with its invariant at the end -/
theorem insertionGen_run (step : Nat → St → Res St) (P : Nat → St → Prop) (n : Nat) (rooted : Bool)
    (lens : List Rat) (h3 : 3 ≤ n) (hP0 : P 2 (initSt rooted lens))
    (hstep : ∀ i s, 2 ≤ i → i < n → P i s → ∃ s', step i s = .ok s' ∧ P (i + 1) s') :
    ∃ s, P n s ∧ insertionGen step (n : Int) rooted lens = finishIns rooted s.t := by
  have h3' : ¬ ((n : Int) < 3) := by omega
  unfold insertionGen
  rw [if_neg h3']
  obtain ⟨s, hs, hp⟩ := iter_inv step P n hstep (n - 2) 2 (initSt rooted lens) (by omega) (by omega) hP0
  have hn : 2 + (n - 2) = n := by omega
  rw [hn] at hp
  have h1 : ¬ ((n : Int) < 2) := by omega
  have h2 : ¬ ((n : Int) < 3) := by omega
  have h4 : (n : Int).toNat - 2 = n - 2 := by simp
  refine ⟨s, hp, ?_⟩
  unfold insertionGenDoc2
  simp only [h1, h2, if_false, decide_false, Bool.false_and, h4, hs]
  rfl

theorem finishIns_unrooted_eq (d dc : NodeD) (p pc : Nat) (e : EdgeD) (a b : EdgeD × T) :
    finishIns false (.node d p [(e, .node dc pc [a, b])]) =
      .ok (finishOut (.node dc 0 (([a, b].take pc) ++ (e, .node d 0 []) :: [a, b].drop pc))) := by
  obtain ⟨ea, ta⟩ := a
  obtain ⟨eb, tb⟩ := b
  simp [finishIns, rerootFirst, firstDeg3, firstDeg3L, rerootPath, rerootGo, moveRoot]

theorem caterpillar_shape_lemma (n : Nat) (rooted : Bool) (lens : List Rat) (h3 : 3 ≤ n) (hl : lensNonneg lens = true) :
    ∃ o, caterpillar (n : Int) rooted lens = .ok o ∧ caterShape rooted o.t = true := by
  obtain ⟨s, ⟨hI, e, X, r, hLad, hk, hr⟩, hrun⟩ := insertionGen_run (caterStep lens) (PCS rooted) n rooted lens h3
    (initSt_PCS rooted lens hl) (caterStepS_inv n rooted lens hl)
  unfold caterpillar
  rw [hrun]
  have hcb := caterBelow_lad hLad
  cases rooted with
  | true =>
    refine ⟨finishOut s.t, rfl, ?_⟩
    have hdeg := hI.deg
    rcases hr with rfl | ⟨e', dx, px, rfl⟩
    · rw [hk] at hdeg; simp at hdeg
    · simp only [caterShape, finishOut, hk, if_true, caterL, hcb, Bool.true_and, Bool.and_true, innerCount, List.filter,
        T.isLeaf, T.kids_node, List.isEmpty_nil, Bool.not_true, caterBelow]
      split <;> simp
  | false =>
    have hdeg := hI.deg
    have hr0 : r = [] := by
      rcases hr with rfl | ⟨e', dx, px, rfl⟩
      · rfl
      · rw [hk] at hdeg; simp at hdeg
    subst hr0
    obtain ⟨m, hm⟩ : ∃ m, n - 2 = m + 1 := ⟨n - 3, by omega⟩
    rw [hm] at hLad
    cases hLad with
    | step dX pX e1 e2 dx px hc =>
      rename_i c
      have ht : s.t = .node s.t.d s.t.ppos [(e, .node dX pX [(e1, c), (e2, .node dx px [])])] := by
        cases hs : s.t with
        | node d0 p0 k0 => rw [hs] at hk; simp only [T.kids_node] at hk; simp [hk]
      rw [ht, finishIns_unrooted_eq]
      refine ⟨_, rfl, ?_⟩
      have hcc := caterBelow_lad hc
      match pX with
      | 0 => simp only [caterShape, finishOut, List.take, List.drop, List.nil_append, caterL, caterBelow, hcc, innerCount,
               List.filter, T.isLeaf, T.kids_node, List.isEmpty_nil, Bool.not_true, caterL]
             split <;> simp [caterL, caterBelow, innerCount]
      | 1 => simp only [caterShape, finishOut, List.take, List.drop, List.cons_append, List.nil_append, caterL, caterBelow, hcc, innerCount,
               List.filter, T.isLeaf, T.kids_node, List.isEmpty_nil, Bool.not_true, caterL]
             split <;> simp [caterL, caterBelow, innerCount]
      | k + 2 => simp only [caterShape, finishOut, List.take, List.drop, List.cons_append, List.nil_append, caterL, caterBelow, hcc, innerCount,
               List.filter, T.isLeaf, T.kids_node, List.isEmpty_nil, Bool.not_true, caterL]
                 split <;> simp [caterL, caterBelow, innerCount]

/-! ### every enumerated tree is a binary tree on Tip1..Tipn -/

mutual
theorem clone_leaves : ∀ (t : T), (clone t).leaves = t.leaves
  | .node d p [] => by simp [clone, cloneL, T.leaves]
  | .node d p ((e, t) :: r) => by
    have h := cloneL_leaves ((e, t) :: r)
    simp only [clone, cloneL] at h ⊢
    rw [leaves_node_cons, leaves_node_cons]; exact h
theorem cloneL_leaves : ∀ (ks : Kids), leavesL (cloneL ks) = leavesL ks
  | [] => rfl
  | (e, t) :: r => by simp only [cloneL, leavesL, clone_leaves t, cloneL_leaves r]
end

theorem cloneL_length : ∀ (ks : Kids), (cloneL ks).length = ks.length
  | [] => rfl
  | (e, t) :: r => by simp [cloneL, cloneL_length r]

mutual
theorem clone_binaryBelow : ∀ (t : T), (clone t).binaryBelow = t.binaryBelow
  | .node d p ks => by simp only [clone, T.binaryBelow, cloneL_length, cloneL_binaryL ks]
theorem cloneL_binaryL : ∀ (ks : Kids), binaryL (cloneL ks) = binaryL ks
  | [] => rfl
  | (e, t) :: r => by simp only [cloneL, binaryL, clone_binaryBelow t, cloneL_binaryL r]
end

theorem clone_kids (t : T) : (clone t).kids = cloneL t.kids := by cases t; simp [clone]

/-- the first `n` names of the enumeration -/
def namesUpTo (nm : Nat → String) (n : Nat) : List String := (List.range n).map nm

/-- invariant of the backtracking: binary below the root, fixed root degree, leaves = the first
    `total` names -/
structure TI (nm : Nat → String) (deg total : Nat) (t : T) : Prop where
  bin : binaryL t.kids = true
  deg : t.kids.length = deg
  leaves : (leavesL t.kids).Perm (namesUpTo nm total)

theorem namesUpTo_succ (nm : Nat → String) (n : Nat) : namesUpTo nm (n + 1) = namesUpTo nm n ++ [nm n] := by
  simp [namesUpTo, List.range_succ]

theorem TI_graft (nm : Nat → String) (deg total : Nat) (t : T) (k : Nat) (hk : k < numEdges t) (h : TI nm deg total t) :
    TI nm deg (total + 1) (applyAt (graftLen (nm total) NIL NIL NIL) k t) := by
  have h2 : k < numEdgesL t.kids := by cases t; simpa [numEdges] using hk
  constructor
  · rw [applyAt_kids]; exact binaryL_applyAtL _ (graftLen_binary _ NIL NIL NIL) _ _ h.bin
  · rw [applyAt_kids, applyAtL_length]; exact h.deg
  · rw [applyAt_kids, namesUpTo_succ]
    exact (leavesL_applyAtL _ (nm total) (graftLen_leaves _ NIL NIL NIL) t.kids k h2).trans
      ((List.Perm.cons _ h.leaves).trans (List.perm_append_singleton _ _).symm)

theorem allTopoRaw_wf (nm : Nat → String) (deg : Nat) : ∀ (f : Nat) (t : T) (total : Nat), TI nm deg total t →
    ∀ u ∈ allTopoRaw nm f t total, TI nm deg (total + f) u
  | 0, t, total, h, u, hu => by
    simp only [allTopoRaw, List.mem_singleton] at hu
    subst hu; exact h
  | f + 1, t, total, h, u, hu => by
    simp only [allTopoRaw, List.mem_flatMap, List.mem_range] at hu
    obtain ⟨k, hk, hu'⟩ := hu
    have := allTopoRaw_wf nm deg f _ (total + 1) (TI_graft nm deg total t k hk h) u hu'
    have e : total + (f + 1) = total + 1 + f := by omega
    rw [e]; exact this

/-- with three branches at the root nothing is dropped -/
theorem dropStem_of_three (t : T) (h : t.kids.length = 3) : dropStem t = t := by
  cases t with
  | node d p ks =>
    match ks, h with
    | [(ea, .node da pa ka), b, c], _ => rfl

/-- a backtracking tree of the rooted enumeration with at least two tips: the start node carries
    one inner node with two children -/
theorem TI_one_shape (nm : Nat → String) (total : Nat) (t : T) (h : TI nm 1 total t) (h2 : 2 ≤ total) :
    ∃ d p e dn pn a b, t = .node d p [(e, .node dn pn [a, b])] := by
  obtain ⟨hbin, hdeg, hleaves⟩ := h
  cases t with
  | node d p ks =>
    simp only [T.kids_node] at hbin hdeg hleaves
    match ks, hdeg with
    | [(e, .node dn pn kc)], _ =>
      simp only [binaryL, T.binaryBelow, Bool.and_eq_true, Bool.or_eq_true, beq_iff_eq] at hbin
      have hlen := hleaves.length_eq
      simp only [namesUpTo, List.length_map, List.length_range] at hlen
      rcases hbin.1.1 with h0 | h2'
      · have : kc = [] := List.length_eq_zero_iff.mp h0
        subst this
        simp [leavesL, T.leaves] at hlen; omega
      · match kc, h2' with
        | [a, b], _ => exact ⟨d, p, e, dn, pn, a, b, rfl⟩

/-- what the enumeration returns: binary below the root, root of degree 2 (rooted) / 3 (unrooted),
    tips = the first `total` names -/
theorem topo_out (nm : Nat → String) (rooted : Bool) (total : Nat) (v : T)
    (h : TI nm (if rooted then 1 else 3) total v) (h2 : 2 ≤ total) :
    let u := dropStem (clone v)
    binaryL u.kids = true ∧ u.kids.length = (if rooted then 2 else 3) ∧ (u.tipNames).Perm (namesUpTo nm total) := by
  cases rooted with
  | false =>
    simp only [Bool.false_eq_true, if_false] at h ⊢
    have hk : (clone v).kids.length = 3 := by rw [clone_kids, cloneL_length]; exact h.deg
    rw [dropStem_of_three _ hk]
    refine ⟨by rw [clone_kids, cloneL_binaryL]; exact h.bin, hk, ?_⟩
    simp only [T.tipNames, hk]
    rw [clone_kids, cloneL_leaves]; simpa using h.leaves
  | true =>
    simp only [if_true] at h ⊢
    obtain ⟨d, p, e, dn, pn, a, b, rfl⟩ := TI_one_shape nm total v h h2
    obtain ⟨ea, ta⟩ := a
    obtain ⟨eb, tb⟩ := b
    have hbin := h.bin
    have hleaves := h.leaves
    have hbb : ta.binaryBelow = true ∧ tb.binaryBelow = true := by
      simpa [binaryL, T.binaryBelow] using hbin
    simp only [T.kids_node, leavesL, leaves_node_cons, List.append_nil] at hleaves
    simp only [clone, cloneL, dropStem, T.kids_node, binaryL, clone_binaryBelow, hbb.1, hbb.2, Bool.and_self,
      List.length_cons, List.length_nil, T.tipNames, leavesL, clone_leaves, List.append_nil, true_and]
    simpa using hleaves

/-- the start tree of the enumeration satisfies the invariant -/
theorem TI_init (nm : Nat → String) (rooted : Bool) :
    TI nm (if rooted then 1 else 3) (topoInit nm rooted).2 (topoInit nm rooted).1 := by
  cases rooted
  · exact ⟨by simp [topoInit, binaryL, T.binaryBelow, T.leaf], rfl,
      by simp [topoInit, leavesL, T.leaves, T.leaf, namesUpTo, List.range_succ]⟩
  · exact ⟨by simp [topoInit, binaryL, T.binaryBelow, T.leaf], rfl,
      by simp [topoInit, leavesL, T.leaves, T.leaf, namesUpTo, List.range_succ]⟩

/-- unfolding `allTopologies` on an accepted request -/
theorem allTopologies_eq (n : Nat) (rooted : Bool) (names : List String) (h : (if rooted then 2 else 3) ≤ n)
    (hn : names = [] ∨ names.length = n) :
    allTopologies (n : Int) rooted names =
      .ok (allTopoRec (topoName names) (n - (topoInit (topoName names) rooted).2) (topoInit (topoName names) rooted).1
        (topoInit (topoName names) rooted).2) := by
  have hnames : (decide (names.length > 0) && ((names.length : Int) != (n : Int))) = false := by
    rcases hn with rfl | hl
    · simp
    · simp [hl]
  cases rooted with
  | false =>
    simp only [Bool.false_eq_true, if_false] at h
    have h1 : ¬ ((n : Int) < 3) := by omega
    simp [allTopologies, h1, hnames, topoInit]
  | true =>
    simp only [if_true] at h
    have h1 : ¬ ((n : Int) < 2) := by omega
    simp [allTopologies, h1, hnames, topoInit]

end Gotree.C16
