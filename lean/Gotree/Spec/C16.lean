/-
  C16 — what the property means (Bool-valued; evaluated by the driver on the
  implementation's own output, and the subject of the theorems of Proofs/C16).
-/
import Gotree.Model.C16
import Gotree.Spec.Splits

namespace Gotree.C16
open Gotree

/-- `Tip0 … Tip(n-1)` -/
def tipNamesUpTo (n : Nat) : List String := (List.range n).map tipName

/-- `Tip1 … Tipn` (the enumerator numbers from 1) -/
def tipNamesFrom1 (n : Nat) : List String := (List.range n).map fun i => tipName (i + 1)

/-- the names the enumerator gives to its `n` tips: the caller's, or `Tip1 … Tipn` -/
def topoNames (names : List String) (n : Nat) : List String := (List.range n).map (topoName names)

/-- same names with the same multiplicities -/
def sameNames (a b : List String) : Bool := sortNames a == sortNames b

/-- every branch has a length, and it is not negative (`NIL = -1` fails this) -/
def lensOk (t : T) : Bool := t.edges.all fun e => decide (0 ≤ e.len)

/- ### shapes -/

def innerCount (ks : Kids) : Nat := (ks.filter fun et => !et.2.isLeaf).length

mutual
def caterBelow : T → Bool
  | .node _ _ ks => decide (innerCount ks ≤ 1) && caterL ks
def caterL : Kids → Bool
  | [] => true
  | (_, t) :: r => caterBelow t && caterL r
end

/-- caterpillar: the inner nodes form a path — below the root every node has at most one inner
    child; the root at most one (rooted: a ladder) or two (unrooted) -/
def caterShape (rooted : Bool) (t : T) : Bool :=
  decide (innerCount t.kids ≤ (if rooted then 1 else 2)) && caterL t.kids

mutual
/-- `some h` when the subtree is the complete binary tree of height `h` -/
def perfectH : T → Option Nat
  | .node _ _ [] => some 0
  | .node _ _ [(_, a), (_, b)] =>
    match perfectH a, perfectH b with
    | some x, some y => if x == y then some (x + 1) else none
    | _, _ => none
  | .node _ _ _ => none
end

def sortNat (l : List Nat) : List Nat := l.mergeSort (fun a b => decide (a ≤ b))

/-- balanced of depth `d`: rooted — two complete subtrees of height `d-1`; unrooted (`d ≥ 2`) — the
    root of one half has become the root: two complete subtrees of height `d-2` and one of `d-1` -/
def balancedShape (rooted : Bool) (d : Nat) (t : T) : Bool :=
  let hs := t.kids.map fun et => perfectH et.2
  if rooted then sortNat (hs.filterMap id) == [d - 1, d - 1] && hs.length == 2
  else decide (2 ≤ d) && sortNat (hs.filterMap id) == [d - 2, d - 2, d - 1] && hs.length == 3

/-- star: a single inner node (the root) carrying `n` tips -/
def starShape (n : Nat) (t : T) : Bool := t.kids.length == n && t.kids.all fun et => et.2.isLeaf

/-- the two-node tree whose root is itself a tip -/
def rootIsTip (t : T) : Bool := t.kids.length == 1

/-- the generator claims of the property on a returned tree -/
def genTreeOK (g : GenKind) (n : Nat) (rooted : Bool) (t : T) : Bool :=
  sameNames t.tipNames (tipNamesUpTo (g.ntips n)) && !hasDup t.tipNames && lensOk t &&
  (match g with
   | .star => starShape n t
   | .caterpillar => t.binary && t.rooted == rooted && caterShape rooted t
   | .balanced => t.binary && t.rooted == rooted && balancedShape rooted n t
   | _ => t.binary && t.rooted == rooted)

/-- the index answers: `ExistsTip(p)` is `true` exactly for the tips of the tree -/
def existsOK (t : T) (probes : List String) (answers : List (Option Bool)) : Bool :=
  probes.length == answers.length &&
  (List.zipWith (fun p a => a == some (t.tipNames.contains p)) probes answers).all id

/-- bitsets: the names whose bit is set in the bitset of each branch (`Edges()` order) are the
    tips below it; `NumTipsRight` is their number -/
def bitsOK (t : T) (bits : List (List String)) (nright : List Nat) : Bool :=
  bits.map sortNames == t.splits.map (fun s => sortNames s.below) &&
  nright == t.splits.map (fun s => s.below.length)

def indexReady (o : Out) : Bool := o.index == some (sortNames o.t.tipNames)

/- ### enumeration -/

def dfact : Nat → Nat
  | 0 => 1
  | 1 => 1
  | n + 2 => (n + 2) * dfact n

def topoCount (n : Nat) (rooted : Bool) : Nat := if rooted then dfact (2 * n - 3) else dfact (2 * n - 5)

def showKey (k : List (List String)) : String := ";".intercalate (k.map fun s => ",".intercalate s)

/-- canonical form of a labelled topology: rooted — the set of proper clades (leaf sets below the
    branches, the full set excluded so that a root with one neighbour changes nothing); unrooted — the set of non-trivial splits (canonical sides) -/
def topoKey (rooted : Bool) (t : T) : String :=
  if rooted then
    showKey (((t.splits.filter fun s => 2 ≤ s.below.length && s.below.length < (leavesL t.kids).length).map fun s => sortNames s.below).mergeSort
      (fun a b => decide (",".intercalate a ≤ ",".intercalate b)))
  else showKey t.usplitSet

def sortStr (l : List String) : List String := l.mergeSort (fun a b => decide (a ≤ b))

def adjDistinct : List String → Bool
  | a :: b :: r => a != b && adjDistinct (b :: r)
  | _ => true

/-- pairwise distinct -/
def distinctKeys (ks : List String) : Bool := adjDistinct (sortStr ks)

/-- one enumerated tree: its tips are exactly the `n` names, binary below the root, root of degree 3
    (unrooted) or 2 (rooted) -/
def topoTreeOK (n : Nat) (rooted : Bool) (t : T) (names : List String := []) : Bool :=
  sameNames t.tipNames (topoNames names n) && binaryL t.kids &&
  (if rooted then t.kids.length == 2 else t.kids.length == 3)

def topoOK (n : Nat) (rooted : Bool) (ts : List T) (names : List String := []) : Bool :=
  ts.length == topoCount n rooted && ts.all (fun t => topoTreeOK n rooted t names) &&
  distinctKeys (ts.map (topoKey rooted))

/- ### the same distinctness without sorting (quadratic; the kernel can evaluate it) -/

def setEq (a b : List String) : Bool := a.all b.contains && b.all a.contains

def famEq (A B : List (List String)) : Bool :=
  A.all (fun a => B.any (setEq a)) && B.all (fun b => A.any (setEq b))

/-- the clades (rooted) / the sides avoiding the least tip name of the non-trivial splits (unrooted) -/
def cladeFam (rooted : Bool) (t : T) : List (List String) :=
  let all := leavesL t.kids
  let n := all.length
  if rooted then
    (t.splits.filter fun s => 2 ≤ s.below.length && s.below.length < n).map (·.below)
  else
    let first := (minS all).getD ""
    ((t.splits.filter fun s => 2 ≤ s.below.length && s.below.length + 2 ≤ n).map fun s =>
      if s.below.contains first then all.filter (fun x => !s.below.contains x) else s.below)

/-- all leaf sets below the branches of a tree: its topology seen from its root -/
def belowFam (t : T) : List (List String) := t.splits.map (·.below)

def pairwiseDistinct : List (List (List String)) → Bool
  | [] => true
  | a :: r => r.all (fun b => !famEq a b) && pairwiseDistinct r

def namesEq (a b : List String) : Bool := a.length == b.length && setEq a b

/-- the enumeration claims for the model's own enumeration at size `n`, in kernel-evaluable form:
    count, every tree a binary tree on Tip1..Tipn, pairwise different topologies -/
def topoCheck (rooted : Bool) (n : Nat) : Bool :=
  match allTopologies (n : Int) rooted with
  | .ok ts =>
    ts.length == topoCount n rooted &&
    ts.all (fun t => namesEq t.tipNames (tipNamesFrom1 n) && binaryL t.kids &&
      (if rooted then t.kids.length == 2 else t.kids.length == 3)) &&
    pairwiseDistinct (ts.map (cladeFam rooted))
  | _ => false

end Gotree.C16
