/-
  C15 — executable heap model (cells with reference fields, programs of stores and allocations, the copy
  of Clone/SubTree driven by the regenerated table, the comparison up to renaming used by the driver).
  The theorems about it are in Lemmas/C15Heap*.lean.  Core Lean only.
-/
import Gotree.Model.C15

namespace Gotree.C15.Heap
open Gotree Gotree.C15


abbrev Addr := Nat

structure H where
  ptrs : Addr → List Addr
  data : Addr → Nat
  next : Addr

def run : List (H → H) → H → H
  | [], h => h
  | e :: es, h => run es (e h)

/-- overwrite the data of the root cell (e.g. a rename, a new length) -/
def setData (r : Addr) (v : Nat) (h : H) : H := { h with data := fun a => if a = r then v else h.data a }

/-- allocate a cell and hang it on the root cell (e.g. `AddComment` growing its array, a new child) -/
def allocChild (r : Addr) (h : H) : H :=
  { ptrs := fun a => if a = r then h.next :: h.ptrs r else if a = h.next then [] else h.ptrs a,
    data := h.data, next := h.next + 1 }

/-- where an operand comes from: a path of reference-field indexes from the root of the
    edited tree, or the k-th cell allocated by this program -/
inductive Src
  | path (p : List Nat)
  | fresh (k : Nat)
  deriving Repr

inductive Op
  | setData (t : Src) (v : Nat)          -- store into the non-reference part of a cell
  | setPtrs (t : Src) (l : List Src)     -- store the reference fields of a cell
  | alloc                                -- allocate one cell (no references, data 0)
  | copyData (t : Src) (src : Src)       -- store the non-reference part of another cell (read anywhere)
  deriving Repr

def follow (h : H) : Addr → List Nat → Option Addr
  | a, [] => some a
  | a, i :: p => match (h.ptrs a)[i]? with
    | some b => follow h b p
    | none => none

def resolve (h : H) (r base : Addr) : Src → Option Addr
  | .path p => follow h r p
  | .fresh k => if base + k < h.next then some (base + k) else none

def resolveAll (h : H) (r base : Addr) : List Src → Option (List Addr)
  | [] => some []
  | s :: l => match resolve h r base s, resolveAll h r base l with
    | some a, some as => some (a :: as)
    | _, _ => none

def setDataAt (h : H) (a : Addr) (v : Nat) : H := { h with data := fun x => if x = a then v else h.data x }
def setPtrsAt (h : H) (a : Addr) (l : List Addr) : H := { h with ptrs := fun x => if x = a then l else h.ptrs x }
def allocCell (h : H) : H :=
  { ptrs := fun x => if x = h.next then [] else h.ptrs x,
    data := fun x => if x = h.next then 0 else h.data x,
    next := h.next + 1 }

/-- an operand that does not resolve makes the operation a no-op (a nil dereference would panic:
    nothing is written either) -/
def step (r base : Addr) (h : H) : Op → H
  | .setData t v => match resolve h r base t with
    | some a => setDataAt h a v
    | none => h
  | .setPtrs t l => match resolve h r base t, resolveAll h r base l with
    | some a, some bs => setPtrsAt h a bs
    | _, _ => h
  | .alloc => allocCell h
  | .copyData t s => match resolve h r base t, resolve h r base s with
    | some a, some b => setDataAt h a (h.data b)
    | _, _ => h

def exec (r base : Addr) : List Op → H → H
  | [], h => h
  | o :: os, h => exec r base os (step r base h o)

/-- an edit: the program may be computed from the whole heap (the edit may READ anything) -/
def runProg (r : Addr) (prog : H → List Op) (h : H) : H := exec r h.next (prog h) h

def Src.isFresh : Src → Bool
  | .fresh _ => true
  | .path _ => false

/-- the operation writes only a cell allocated by the program -/
def Op.freshTarget : Op → Bool
  | .setData t _ => t.isFresh
  | .setPtrs t _ => t.isFresh
  | .alloc => true
  | .copyData t _ => t.isFresh

/-- … and stores only references to cells allocated by the program -/
def Op.freshRefs : Op → Bool
  | .setPtrs _ l => l.all Src.isFresh
  | _ => true

/-- what the table says about the three reference fields that CopyNode / CopyEdge may touch -/
structure Plan where
  nodeCommentShared : Bool
  edgeCommentShared : Bool
  bitsetShared : Bool
  deriving DecidableEq, Repr

def sharedIn (tb : Table) (owner name : String) : Bool :=
  tb.any fun f => f.owner == owner && f.name == name && f.treat == .shared

def planOf (tb : Table) : Plan :=
  ⟨sharedIn tb "Node" "comment", sharedIn tb "Edge" "comment", sharedIn tb "Edge" "bitset"⟩

/-- the reference stored in a copied field: the copy's own cell, or — `shared` — the source's cell,
    found by navigating the source -/
def refSrc (shared : Bool) (own : Nat) (srcPath : List Nat) : Src := if shared then .path srcPath else .fresh own

/-- index, in the `neigh`/`br` slices of a source node, of its `i`-th child -/
def slot (isRoot : Bool) (pp i : Nat) : Nat := if !isRoot && pp ≤ i then i + 1 else i

/- `k` = next free fresh index; `sp` = path of the source node in the source heap; returns the
   operations, the next free index, and the fresh index of the copied node.  `up` = fresh indexes
   of the copy's parent node and of the branch that joins it (none at the root). -/
mutual
def copyNodeOps (pl : Plan) : T → List Nat → Bool → Option (Nat × Nat) → Nat → List Op × Nat
  | .node _ pp kids, sp, isRoot, up, k =>
    let me := k
    let r := copyKidsOps pl kids sp isRoot pp 0 me (k + 4)
    -- r = (ops of the children, next free index, (child node, branch) fresh indexes in order)
    let neigh := (match up with | some (p, _) => [Src.fresh p] | none => []) ++ r.2.2.map (fun x => Src.fresh x.1)
    let br := (match up with | some (_, e) => [Src.fresh e] | none => []) ++ r.2.2.map (fun x => Src.fresh x.2)
    ([Op.alloc, Op.alloc, Op.alloc, Op.alloc,
      Op.setPtrs (.fresh me) [refSrc pl.nodeCommentShared (me + 1) (sp ++ [0]), .fresh (me + 2), .fresh (me + 3)],
      -- out.name = n.name; out.depth = n.depth; out.id = n.id  /  out.comment[i] = c
      Op.copyData (.fresh me) (.path sp), Op.copyData (.fresh (me + 1)) (.path (sp ++ [0]))]
      ++ r.1 ++
     [Op.setPtrs (.fresh (me + 2)) neigh, Op.setPtrs (.fresh (me + 3)) br], r.2.1)
def copyKidsOps (pl : Plan) : Kids → List Nat → Bool → Nat → Nat → Nat → Nat → List Op × Nat × List (Nat × Nat)
  | [], _, _, _, _, _, k => ([], k, [])
  | (_, t) :: rest, sp, isRoot, pp, i, parent, k =>
    let j := slot isRoot pp i
    let e := k          -- branch struct, k+1 its comment array, k+2 its bitset
    let child := k + 3  -- the child's struct is the first cell `copyNodeOps` allocates
    let c := copyNodeOps pl t (sp ++ [1, j]) false (some (parent, e)) (k + 3)
    let r := copyKidsOps pl rest sp isRoot pp (i + 1) parent c.2
    ([Op.alloc, Op.alloc, Op.alloc] ++ c.1 ++
     -- (the child is allocated before the branch refers to it: `CopyNode(child)`, then `ConnectNodes`)
     [Op.setPtrs (.fresh e) [.fresh parent, .fresh child,
        refSrc pl.edgeCommentShared (e + 1) (sp ++ [2, j, 2]), refSrc pl.bitsetShared (e + 2) (sp ++ [2, j, 3])],
      -- CopyEdge: length, support, pvalue, id, hashes…  /  the comments  /  the bitset
      Op.copyData (.fresh e) (.path (sp ++ [2, j])), Op.copyData (.fresh (e + 1)) (.path (sp ++ [2, j, 2])),
      Op.copyData (.fresh (e + 2)) (.path (sp ++ [2, j, 3]))]
      ++ r.1, r.2.1, (child, e) :: r.2.2)
end

/-- `Clone` / `SubTree(n)`: the copy of what hangs below the source node at path `sp` -/
def cloneOpsAt (tb : Table) (t : T) (sp : List Nat) (srcIsRoot : Bool) : List Op :=
  (copyNodeOps (planOf tb) t sp srcIsRoot none 0).1

/-- … when the source node is the root of its tree (`Clone`; `SubTree(root)`) -/
def cloneOps (tb : Table) (t : T) (sp : List Nat) : List Op := cloneOpsAt tb t sp true

def Plan.none : Plan := ⟨false, false, false⟩

/-- a heap from a list of cells (address, reference fields); `next` = one past the largest address -/
def ofCells (cells : List (Nat × List Nat)) : H :=
  { ptrs := fun a => (cells.lookup a).getD [],
    data := fun _ => 0,
    next := (cells.foldl (fun m c => max m (c.1 + 1)) 0) }

/-- are the structures reachable from `a` in `h` and from `b` in `g` the same up to renaming of cells?
    (simultaneous traversal; `m` = pairs matched so far) -/
def isoGo (h : H) (g : Nat → List Nat) : Nat → List (Addr × Nat) → List (Addr × Nat) → Option (List (Addr × Nat))
  | 0, _, _ => none
  | _ + 1, [], m => some m
  | fuel + 1, (a, b) :: todo, m =>
    match m.lookup a with
    | some b' => if b' == b then isoGo h g fuel todo m else none
    | none =>
      if m.any (·.2 == b) then none
      else
        let pa := h.ptrs a
        let pb := g b
        if pa.length != pb.length then none
        else isoGo h g fuel (pa.zip pb ++ todo) ((a, b) :: m)

def isoFrom (h : H) (a : Addr) (cells : List (Nat × List Nat)) (b : Nat) : Bool :=
  (isoGo h (fun x => (cells.lookup x).getD []) (4 * (cells.length + 2) * (cells.length + 2) + 16) [(a, b)] []).isSome

/-- heap path of the node at child-index path `p` of the tree `t` hanging at heap path `sp` -/
def heapPath : T → List Nat → List Nat → Bool → Option (List Nat × T × Bool)
  | t, [], sp, isRoot => some (sp, t, isRoot)
  | .node _ pp kids, i :: p, sp, isRoot =>
    match kids[i]? with
    | some (_, c) => heapPath c p (sp ++ [1, slot isRoot pp i]) false
    | none => none

/-- a heap from cells with their non-reference content -/
def ofCellsD (cells : List (Nat × Nat × List Nat)) : H :=
  { ptrs := fun a => ((cells.lookup a).map (·.2)).getD [],
    data := fun a => ((cells.lookup a).map (·.1)).getD 0,
    next := (cells.foldl (fun m c => max m (c.1 + 1)) 0) }

/-- `isoGo` that also compares the content of matched cells -/
def isoGoD (h : H) (g : Nat → Nat × List Nat) : Nat → List (Addr × Nat) → List (Addr × Nat) → Option (List (Addr × Nat))
  | 0, _, _ => none
  | _ + 1, [], m => some m
  | fuel + 1, (a, b) :: todo, m =>
    match m.lookup a with
    | some b' => if b' == b then isoGoD h g fuel todo m else none
    | none =>
      if m.any (·.2 == b) then none
      else
        let pa := h.ptrs a
        let pb := (g b).2
        if pa.length != pb.length || h.data a != (g b).1 then none
        else isoGoD h g fuel (pa.zip pb ++ todo) ((a, b) :: m)

def isoFromD (h : H) (a : Addr) (cells : List (Nat × Nat × List Nat)) (b : Nat) : Bool :=
  (isoGoD h (fun x => (cells.lookup x).getD (0, [])) (4 * (cells.length + 2) * (cells.length + 2) + 16) [(a, b)] []).isSome

end Gotree.C15.Heap
