/-
  C15 — property theorems (every `theorem` here is audited with `#print axioms` by bin/check).

  All statements are about the model functions the driver runs against the code
  (`graft`, `merge`, `insertIdentical`, `removeSingle`, `subTree`, `clone` of
  `Gotree/Model/C15.lean`), for all trees — no bound on size.
-/
import Gotree.Lemmas.C15Copy
import Gotree.Lemmas.C15Graft
import Gotree.Lemmas.C15Single
import Gotree.Lemmas.C15InsertAll
import Gotree.Lemmas.C15Holds
import Gotree.Lemmas.C15Heap
import Gotree.Lemmas.C15USplits
import Gotree.Lemmas.C15Edges
import Gotree.Lemmas.C15Text
import Gotree.Lemmas.C15Refuse
import Gotree.Lemmas.C15InsertFail
import Gotree.Lemmas.C15HeapEdits
import Gotree.Lemmas.C15Derived
import Gotree.Lemmas.C15Cmd
import Gotree.Gen.C15Guards
import Gotree.Model.C15Guards

namespace Gotree.C15
open Gotree Gotree.C14

/-! ## table (d): decided on the table regenerated from the source -/

/-- every field the α dump / the Newick writer reads is copied by `CopyNode` / `CopyEdge`
    (hypothesis of `clone_eq`; broken by reverting b0dbbc9 = F20) -/
theorem table_observable_copied : allObservableFieldsCopied Gotree.Gen.C15.fields = true := by decide

/-- table (d), round 6: EVERY field of `Node`, `Edge` and `Tree` found in the source has a reviewed policy
    (`fieldPolicy`: must be copied / structural, rebuilt with copies / recomputed by the copy), no reviewed
    field is missing from the source, and every must-copy field — `rootdepth` (8aafdfc), depths, tip counts,
    hash codes, bitset included — is copied -/
theorem table_all_fields_reviewed : allFieldsReviewed Gotree.Gen.C15.fields = true := by decide

/-- pinned variant (before 8aafdfc): `CopyNode` without `rootdepth` — the decision fails -/
theorem table_rootdepth_pinned_fails :
    allFieldsReviewed (Gotree.Gen.C15.fields.map fun f =>
      if f.owner == "Node" && f.name == "rootdepth" then { f with treat := .notCopied } else f) = false := by decide

/-- ★ every slice / pointer / map field of a copied node or branch is freshly allocated (or left
    at the fresh value of `NewNode`/`NewEdge` and filled by `ConnectNodes` with copies only):
    no cell of the copy is a cell of the source, so no edit of one can write into the other
    (the frame argument is at field granularity — DESIGN §6 C15) -/
theorem copy_fresh : allRefFieldsFresh Gotree.Gen.C15.fields Gotree.Gen.C15.recurFacts = true := by decide

/-- the frame argument on an abstract heap (see `Lemmas/C15Heap.lean`): two trees that reach
    disjoint sets of allocated cells — what `copy_fresh` decides for a copy and its source, and what
    the harness observes right after `Clone`/`SubTree` — stay disjoint under any history of local
    edits of the first one, and the second one keeps every cell content and its set of cells; so
    anything computed from the cells it reaches (α dump, Newick text) is unchanged.
    PARTIAL with respect to the Go code: that each edit operation is `Local` is assumed
    (tested by the aliasing histories), not proved. -/
theorem twin_unchanged_partial {α : Type} (r r' : Heap.Addr) (obs : Heap.H → α)
    (hobs : ∀ h h', Heap.SameOn h h' r' → obs h' = obs h)
    (es : List (Heap.H → Heap.H)) (h : Heap.H) (hes : ∀ e ∈ es, Heap.Local r e ∧ Heap.KeepsAlloc r e)
    (ha : Heap.Alloc h r) (ha' : Heap.Alloc h r') (hd : Heap.Disjoint h r r') :
    obs (Heap.run es h) = obs h ∧ Heap.Disjoint (Heap.run es h) r r' :=
  ⟨Heap.observe_frame obs hobs es h hes ha ha' hd, (Heap.history_frame es h hes ha ha' hd).2.2⟩

/- `Local` is inhabited: overwriting the root cell's data, allocating a cell below the root -/
example (r : Heap.Addr) (v : Nat) : Heap.Local r (Heap.setData r v) ∧ Heap.KeepsAlloc r (Heap.setData r v) :=
  Heap.setData_local r v
example (r : Heap.Addr) : Heap.Local r (Heap.allocChild r) ∧ Heap.KeepsAlloc r (Heap.allocChild r) :=
  Heap.allocChild_local r

/-- table (d) read as a copy plan: none of the three reference fields CopyNode / CopyEdge assign
    (node comments, branch comments, bitset) is shared — decided on the regenerated table -/
theorem clone_plan_fresh : Heap.planOf Gotree.Gen.C15.fields = Heap.Plan.none := by decide

/-- ★ every edit that reaches the cells it writes, and the references it stores, by navigating
    from its own tree (or by allocating) is local: it leaves every other allocated cell alone and
    whatever it reaches afterwards it reached before or has allocated.  (`Heap.Op`: store a scalar,
    store reference fields / slice elements, allocate; operands = paths of reference fields from
    the root of the edited tree, or cells allocated by the edit; the program may depend on the
    whole heap.)  `Lemmas/C15HeapEdits.lean` lists the Go statements of the edit operations in
    this form. -/
theorem heap_edit_local (r : Heap.Addr) (prog : Heap.H → List Heap.Op) :
    Heap.Local r (Heap.runProg r prog) ∧ Heap.KeepsAlloc r (Heap.runProg r prog) :=
  Heap.runProg_local r prog

/-- ★ independence of copies on the heap: `Clone` / `SubTree` (the heap program `Heap.cloneOps`, driven
    by the regenerated table) builds the copy of the tree `t` found at path `sp` of the source in
    cells of its own; then under ANY history of heap edits of the copy the source keeps every cell
    content and its set of cells, and under any history of heap edits of the source the copy does.
    This closes `twin_unchanged_partial` for all edits that are heap programs. -/
theorem twin_unchanged (t : T) (sp : List Nat) (src : Heap.Addr) (h0 : Heap.H) (hsrc : Heap.Alloc h0 src)
    (progs : List (Heap.H → List Heap.Op)) :
    let h1 := Heap.exec src h0.next (Heap.cloneOps Gotree.Gen.C15.fields t sp) h0
    let cp := h0.next
    (Heap.SameOn h0 h1 src ∧ Heap.Disjoint h1 cp src) ∧
    (Heap.SameOn h1 (Heap.run (progs.map (Heap.runProg cp)) h1) src ∧
      Heap.Disjoint (Heap.run (progs.map (Heap.runProg cp)) h1) cp src) ∧
    (Heap.SameOn h1 (Heap.run (progs.map (Heap.runProg src)) h1) cp ∧
      Heap.Disjoint (Heap.run (progs.map (Heap.runProg src)) h1) src cp) :=
  Heap.clone_then_edit_frame _ clone_plan_fresh t sp src h0 hsrc progs

/-- … the same for `SubTree` at any node (`b` = the node is the root of the source; it only matters
    for where the source's cells are read) -/
theorem twin_unchanged_subtree (t : T) (sp : List Nat) (b : Bool) (src : Heap.Addr) (h0 : Heap.H)
    (hsrc : Heap.Alloc h0 src) (progs : List (Heap.H → List Heap.Op)) :
    let h1 := Heap.exec src h0.next (Heap.cloneOpsAt Gotree.Gen.C15.fields t sp b) h0
    let cp := h0.next
    (Heap.SameOn h0 h1 src ∧ Heap.Disjoint h1 cp src) ∧
    (Heap.SameOn h1 (Heap.run (progs.map (Heap.runProg cp)) h1) src ∧
      Heap.Disjoint (Heap.run (progs.map (Heap.runProg cp)) h1) cp src) ∧
    (Heap.SameOn h1 (Heap.run (progs.map (Heap.runProg src)) h1) cp ∧
      Heap.Disjoint (Heap.run (progs.map (Heap.runProg src)) h1) src cp) :=
  Heap.subtree_then_edit_frame _ clone_plan_fresh t sp b src h0 hsrc progs

/-- the anchored operations themselves, written statement by statement as heap programs
    (`Lemmas/C15HeapEdits.lean`; the driver runs them on the real pointer graph and compares with the
    graph after the real call): each is local to the frame it navigates from — the receiver and its
    argument — so none of them can change a tree that shares no cell with them -/
theorem anchored_ops_local (f : Heap.Addr) :
    (∀ parN kn idx tr kt, Heap.Local f (Heap.runProg f (Heap.graftProg parN kn idx tr kt))) ∧
    Heap.Local f (Heap.runProg f Heap.mergeProg) ∧
    (∀ parN kn, Heap.Local f (Heap.runProg f (Heap.insertZeroProg parN kn))) ∧
    (∀ parN kn idx, Heap.Local f (Heap.runProg f (Heap.insertCherryProg parN kn idx))) ∧
    (∀ (t : T) P b, ∀ p ∈ Heap.rsProgs t P b, Heap.Local f (Heap.runProg f p)) ∧
    (∀ slots, ∀ p ∈ Heap.rerootProgs slots, Heap.Local f (Heap.runProg f p)) :=
  ⟨fun _ _ _ _ _ => (Heap.runProg_local f _).1, (Heap.runProg_local f _).1, fun _ _ => (Heap.runProg_local f _).1,
   fun _ _ _ => (Heap.runProg_local f _).1, fun _ _ _ _ _ => (Heap.runProg_local f _).1,
   fun _ _ _ => (Heap.runProg_local f _).1⟩

/-- `(a,b);` on the heap: Tree struct 13 [root 0, tip index 12]; root 0 [comments 1, neigh 2, br 3];
    tips 4 and 8; branches 14 and 17 [left, right, comments, bitset] -/
def exCells : List (Nat × List Nat) :=
  [(13, [0, 12]), (12, []), (0, [1, 2, 3]), (1, []), (2, [4, 8]), (3, [14, 17]),
   (4, [5, 6, 7]), (5, []), (6, [0]), (7, [14]), (8, [9, 10, 11]), (9, []), (10, [0]), (11, [17]),
   (14, [0, 4, 15, 16]), (15, []), (16, []), (17, [0, 8, 18, 19]), (18, []), (19, [])]

def exTree : T := .node ⟨"", []⟩ 0 [(EdgeD.blank, T.leaf "a"), (EdgeD.blank, T.leaf "b")]

/- a whole run of the copy program on that heap (kernel-evaluated): 18 cells are allocated (20 … 37), the
   copy's root 20 is wired [21, 22, 23], its neighbours are the two new tips 27 and 34, the first new branch
   24 joins 20 and 27; the structure below 20 is the structure below the source's root 0 up to renaming;
   and no cell of the source has changed -/
example :
    let h0 := Heap.ofCells exCells
    let h1 := Heap.exec 13 h0.next (Heap.cloneOpsAt Gotree.Gen.C15.fields exTree [0] true) h0
    h0.next = 20 ∧ h1.next = 38 ∧ h1.ptrs 20 = [21, 22, 23] ∧ h1.ptrs 22 = [27, 34] ∧ h1.ptrs 24 = [20, 27, 25, 26] ∧
    Heap.isoFrom h1 20 exCells 0 = true ∧ (List.range 20).all (fun a => h1.ptrs a == h0.ptrs a) = true := by
  decide +kernel

/-- pinned variant of the plan (own breakage "CopyNode shares the comment slice"): the copy stores a
    path INTO THE SOURCE for its comment array, so the copy program is not one that stores only its
    own cells -/
theorem clone_plan_shared_fails :
    Heap.planOf (Gotree.Gen.C15.fields.map fun f =>
      if f.owner == "Node" && f.name == "comment" then { f with treat := .shared } else f) ≠ Heap.Plan.none ∧
    (Heap.copyNodeOps ⟨true, false, false⟩ (T.leaf "a") [0] true none 0).1.any (fun o => !o.freshRefs) = true := by
  decide

/-! ## Clone -/

/-- ★ a clone is the source with every parent position reset (the copy is built parent-first);
    for any table that copies the observable fields -/
theorem cloneBy_eq (tb : Table) (h : allObservableFieldsCopied tb = true) (t : T) : cloneBy tb t = zeroPpos t :=
  copyRecBy_eq h t

/-- ★ … in particular for the table of the current source -/
theorem clone_eq (t : T) : clone t = zeroPpos t := cloneBy_eq _ table_observable_copied t

/-- nothing any enumeration or text reads depends on the parent positions: same split list
    (names below every branch, branch data incl. comments), same tips, same node names in
    pre-order, same distances -/
theorem clone_same_observations (t : T) :
    (clone t).splits = t.splits ∧ (clone t).tipNames = t.tipNames ∧ (clone t).nodeNames = t.nodeNames ∧
    (clone t).d = t.d ∧ ∀ a b, (clone t).dist a b = t.dist a b := by
  rw [clone_eq]
  exact ⟨zeroPpos_splits t, zeroPpos_tipNames t, zeroPpos_nodeNames t, zeroPpos_d t, zeroPpos_dist t⟩

/-- ★ "same text, including comments": for the writer model of C01 (`Newick.write`, any float codec),
    the Newick text of the clone is the text of its source (the writer never reads a parent position) -/
theorem clone_same_text (C : Newick.Codec) (t : T) : Newick.write C (clone t) = Newick.write C t := by
  rw [clone_eq, write_zeroPpos]

/-- … and likewise the text of an extracted subtree is the text of what hangs below the node -/
theorem subtree_same_text (C : Newick.Codec) (t : T) (path : List Nat) (n sub : T)
    (hn : nodeAt t path = some n) (hs : subTree t path = some sub) : Newick.write C sub = Newick.write C n := by
  have hsub : sub = zeroPpos n := by
    simp only [subTree, subTreeBy, hn, Option.map_some, Option.some.injEq] at hs
    rw [← hs]; exact copyRecBy_eq table_observable_copied n
  rw [hsub, write_zeroPpos]

/-- the derived state of a clone: `UpdateTipIndex` gives the clone the tip ids of its source, and the
    bitsets `CopyEdge` clones are the ones `ReinitIndexes` would compute on the clone -/
theorem clone_derived (t : T) : tipIndex (clone t) = tipIndex t ∧ bitsets (clone t) = bitsets t := by
  rw [clone_eq]; exact zeroPpos_derived t

/-- `UpdateTipIndex` on unique tip names: ids = positions in the sorted tip names, no error -/
theorem tipIndex_unique (t : T) (h : t.tipNames.Nodup) : tipIndex t = (sortN t.tipNames, true) :=
  tipIndex_of_nodup t h

/-- the model's clone meets the Spec used as oracle -/
theorem cloneOK_holds (t : T) : cloneOK t (clone t) = true := by
  have : zeroPpos (clone t) = zeroPpos t := by rw [clone_eq, zeroPpos_idem]
  simp only [cloneOK, this]
  exact beq_refl_T _

/-- pinned variant (F20, before b0dbbc9): `CopyEdge` without the comments -/
def pinnedFields : Table :=
  Gotree.Gen.C15.fields.map fun f => if f.owner == "Edge" && f.name == "comment" then { f with treat := .notCopied } else f

def witnessF20 : T :=
  .node ⟨"", []⟩ 0 [(⟨1, NIL, NIL, ["c"], 0⟩, T.leaf "a"), (⟨1, NIL, NIL, [], 1⟩, T.leaf "b")]

theorem clone_pinned_fails :
    allObservableFieldsCopied pinnedFields = false ∧ (cloneBy pinnedFields witnessF20).edges ≠ witnessF20.edges := by
  decide +kernel


/-! ## SubTree -/

/-- ★ the subtree extracted at a node: path lengths between the leaves below that node are
    those of the source tree (unique tip names) -/
theorem subtree_dist (t : T) (path : List Nat) (n sub : T) (hn : nodeAt t path = some n)
    (hs : subTree t path = some sub) (hu : t.tipNames.Nodup) (a b : String)
    (ha : a ∈ leavesL n.kids) (hb : b ∈ leavesL n.kids) : sub.dist a b = t.dist a b := by
  have hsub : sub = zeroPpos n := by
    simp only [subTree, subTreeBy, hn, Option.map_some, Option.some.injEq] at hs
    rw [← hs]; exact copyRecBy_eq table_observable_copied n
  have hk : (leavesL t.kids).Nodup := by
    rw [tipNames_def] at hu; exact (List.nodup_append.mp hu).2.1
  rw [hsub, zeroPpos_dist, dist_def, dist_def]
  exact nodeAt_dist EdgeD.lenOr0 path t n hn hk a b ha hb

/-- ★ … and its tips are exactly the leaves below the node (plus the node itself when it has a
    single child: a root with one neighbour is a tip) -/
theorem subtree_tips (t : T) (path : List Nat) (n sub : T) (hn : nodeAt t path = some n)
    (hs : subTree t path = some sub) : sub.tipNames = subTips n ∧ zeroPpos sub = zeroPpos n := by
  have hsub : sub = zeroPpos n := by
    simp only [subTree, subTreeBy, hn, Option.map_some, Option.some.injEq] at hs
    rw [← hs]; exact copyRecBy_eq table_observable_copied n
  rw [hsub, zeroPpos_tipNames, zeroPpos_idem]
  exact ⟨rfl, rfl⟩

/-- … of an extracted subtree (`ReinitIndexes`): those of what hangs below the node, read as a tree -/
theorem subtree_derived (t : T) (path : List Nat) (n sub : T) (hn : nodeAt t path = some n)
    (hs : subTree t path = some sub) : tipIndex sub = tipIndex n ∧ bitsets sub = bitsets n := by
  have h := (subtree_tips t path n sub hn hs).2
  have h1 := zeroPpos_derived sub
  have h2 := zeroPpos_derived n
  rw [h] at h1
  exact ⟨h1.1.symm.trans h2.1, h1.2.symm.trans h2.2⟩

/-- … with the branch data of the source -/
theorem subtree_edges (t : T) (path : List Nat) (n sub : T) (hn : nodeAt t path = some n)
    (hs : subTree t path = some sub) : sub.splits = n.splits := by
  have := (subtree_tips t path n sub hn hs).2
  rw [← zeroPpos_splits sub, this, zeroPpos_splits]

/-- the model's subtree meets the Spec used as oracle -/
theorem subTreeOK_holds (t : T) (path : List Nat) (n sub : T) (hn : nodeAt t path = some n)
    (hs : subTree t path = some sub) (hu : t.tipNames.Nodup) : subTreeOK t n sub = true := by
  simp only [subTreeOK, Bool.and_eq_true]
  refine ⟨sameNames_of_perm (by rw [(subtree_tips t path n sub hn hs).1]), distAgree_of fun a ha b hb => ?_⟩
  exact (subtree_dist t path n sub hn hs hu a b ha hb).symm

/-! ## Merge -/

/-- ★ merging two rooted trees under a new root: path lengths inside the first tree unchanged -/
theorem merge_dist (i1 i2 : Bool) (t t2 t' : T) (h : merge i1 i2 t t2 = .ok t') (a b : String)
    (ha : a ∈ t.tipNames) (hb : b ∈ t.tipNames) : t'.dist a b = t.dist a b :=
  merge_dist_left h a b ha hb

/-- ★ … and inside the second tree -/
theorem merge_dist_second (i1 i2 : Bool) (t t2 t' : T) (h : merge i1 i2 t t2 = .ok t') (a b : String)
    (ha : a ∈ t2.tipNames) (hb : b ∈ t2.tipNames) : t'.dist a b = t2.dist a b :=
  merge_dist_right h a b ha hb

/-- … and a tip of the first and a tip of the second tree are joined through the two old roots
    (the two new root branches carry no length) -/
theorem merge_dist_cross (i1 i2 : Bool) (t t2 t' : T) (h : merge i1 i2 t t2 = .ok t') (a b : String)
    (ha : a ∈ t.tipNames) (hb : b ∈ t2.tipNames) : t'.dist a b = t.rootDist a + t2.rootDist b :=
  merge_dist_cross' h a b ha hb

/-- ★ the tips of the merged tree are those of the two trees, in that order; a successful merge
    implies both trees were rooted and shared no tip name -/
theorem merge_tips (i1 i2 : Bool) (t t2 t' : T) (h : merge i1 i2 t t2 = .ok t') :
    t'.tipNames = t.tipNames ++ t2.tipNames ∧ t.rooted = true ∧ t2.rooted = true ∧
    (∀ x ∈ t.tipNames, x ∉ t2.tipNames) ∧ t'.rooted = true := by
  obtain ⟨hr, hr2, hd, ht'⟩ := merge_ok h
  refine ⟨merge_tipNames h, hr, hr2, fun x hx hx2 => ?_, by rw [ht']; rfl⟩
  have := List.any_eq_false.mp hd x hx
  simp [hx2] at this

/-- the branch data of both trees are untouched and in place: the branches of the merged tree are
    the two new (empty) root branches followed by the branches of the first resp. second tree -/
theorem merge_edges (i1 i2 : Bool) (t t2 t' : T) (h : merge i1 i2 t t2 = .ok t') :
    t'.edges = EdgeD.blank :: (t.edges ++ EdgeD.blank :: t2.edges) := merge_edges' h

/-- the model's merge meets the Spec used as oracle (incl. "under a new root": the root has two
    children, carrying the two trees) -/
theorem mergeOK_holds (i1 i2 : Bool) (t t2 t' : T) (h : merge i1 i2 t t2 = .ok t') : mergeOK t t2 t' = true :=
  mergeOK_holds' h

/-- merge is refused when a tip name is shared -/
theorem merge_common_err (t t2 : T) (x : String) (hx : x ∈ t.tipNames) (hx2 : x ∈ t2.tipNames) :
    ∀ t', merge true true t t2 ≠ .ok t' := by
  intro t' h
  exact (merge_tips _ _ _ _ _ h).2.2.2.1 x hx hx2

/-! ## GraftTreeOnTip -/

/-- ★ grafting a tree in place of a tip: path lengths between the other tips of the host unchanged
    (`a`, `b` any names other than the replaced tip and the leaves of the graft) -/
theorem graft_dist (idx : Bool) (t g t' : T) (tip : String) (h : graft idx t tip g = .ok t') (a b : String)
    (ha : a ≠ tip) (hb : b ≠ tip) (hag : a ∉ graftLeaves g) (hbg : b ∉ graftLeaves g) :
    t'.dist a b = t.dist a b := by
  obtain ⟨_, k', hk, rfl⟩ := graft_ok h
  exact graftKids_dist_out EdgeD.lenOr0 t.kids k' hk a b ha hb hag hbg

/-- ★ … and path lengths between two leaves of the graft are those inside the graft
    (names of the graft not used by the host) -/
theorem graft_dist_inside (idx : Bool) (t g t' : T) (tip : String) (h : graft idx t tip g = .ok t') (a b : String)
    (ha : a ∈ graftLeaves g) (hb : b ∈ graftLeaves g) (hat : a ∉ t.tipNames) (hbt : b ∉ t.tipNames) :
    t'.dist a b = g.dist a b := by
  obtain ⟨_, k', hk, rfl⟩ := graft_ok h
  have hat' : a ∉ leavesL t.kids := fun h => hat (by rw [tipNames_def]; exact List.mem_append_right _ h)
  have hbt' : b ∉ leavesL t.kids := fun h => hbt (by rw [tipNames_def]; exact List.mem_append_right _ h)
  have := graftKids_dist_in EdgeD.lenOr0 t.kids k' hk a b ha hb hat' hbt'
  simpa [dist_def, asGraft] using this

/-- ★ the tips after the graft: the old ones minus the replaced tip, plus the leaves of the graft -/
theorem graft_tips (idx : Bool) (t g t' : T) (tip : String) (h : graft idx t tip g = .ok t') :
    t'.tipNames.Perm (t.tipNames.erase tip ++ graftLeaves g) := by
  obtain ⟨hroot, k', hk, rfl⟩ := graft_ok h
  have hp := graftKids_perm t.kids k' hk
  have hl := graftKids_length t.kids k' hk
  simp only [T.tipNames, T.kids_node, T.name, T.d_node, hl]
  by_cases h1 : t.kids.length = 1
  · have hne : t.d.name ≠ tip := fun h2 => hroot ⟨h1, h2⟩
    simp only [h1, beq_self_eq_true, if_true, List.singleton_append]
    rw [List.erase_cons_tail (by simpa using hne)]
    exact (hp.cons _)
  · simpa [h1, graftLeaves] using hp

/-- ★ a tip of the host and a leaf of the graft are joined through the branch of the replaced tip
    and the root of the graft -/
theorem graft_dist_cross (idx : Bool) (t g t' : T) (tip : String) (h : graft idx t tip g = .ok t')
    (hu : t.tipNames.Nodup) (a b : String) (hat : a ≠ tip) (hag : a ∉ graftLeaves g)
    (hb : b ∈ graftLeaves g) (hbt : b ∉ t.tipNames) : t'.dist a b = t.dist a tip + g.rootDist b := by
  obtain ⟨_, k', hk, rfl⟩ := graft_ok h
  have hk0 : (leavesL t.kids).Nodup := by rw [tipNames_def] at hu; exact (List.nodup_append.mp hu).2.1
  have hbt' : b ∉ leavesL t.kids := fun h => hbt (by rw [tipNames_def]; exact List.mem_append_right _ h)
  have := graftKids_dist_cross EdgeD.lenOr0 t.kids k' hk hk0 a b hat hag hb hbt'
  simpa [dist_def, asGraft, rootDist_eq, T.splits] using this

theorem mem_graftLeaves_of_kids {g : T} {a : String} (h : a ∈ leavesL g.kids) : a ∈ graftLeaves g := by
  have hne : g.kids ≠ [] := by intro h0; simp [h0, leavesL] at h
  simpa [graftLeaves, asGraft, leaves_of_kids_ne _ _ _ hne] using h

/-- the model's graft meets the Spec used as oracle (unique host tips, graft names new to the host) -/
theorem graftOK_holds (idx : Bool) (t g t' : T) (tip : String) (h : graft idx t tip g = .ok t')
    (hu : t.tipNames.Nodup) (hdis : ∀ x ∈ graftLeaves g, x ∉ t.tipNames) : graftOK t tip g t' = true := by
  have hhost : ∀ a ∈ t.tipNames.erase tip, a ≠ tip ∧ a ∉ graftLeaves g := fun a ha => by
    have := (List.Nodup.mem_erase_iff hu).mp ha
    exact ⟨this.1, fun hg => hdis a hg this.2⟩
  simp only [graftOK, Bool.and_eq_true]
  refine ⟨⟨⟨sameNames_of_perm (graft_tips idx t g t' tip h), distAgree_of fun a ha b hb => ?_⟩,
    distAgree_of fun a ha b hb => ?_⟩, ?_⟩
  · exact (graft_dist idx t g t' tip h a b (hhost a ha).1 (hhost b hb).1 (hhost a ha).2 (hhost b hb).2).symm
  · have ha' := mem_graftLeaves_of_kids ha
    have hb' := mem_graftLeaves_of_kids hb
    exact (graft_dist_inside idx t g t' tip h a b ha' hb' (hdis a ha') (hdis b hb')).symm
  · simp only [List.all_eq_true, beq_iff_eq]
    intro a ha b hb
    have hb' := mem_graftLeaves_of_kids hb
    exact graft_dist_cross idx t g t' tip h hu a b (hhost a ha).1 (hhost a ha).2 hb' (hdis b hb')

/-- the branch data (length, support, p-value, comments, id) of host and graft are untouched: the
    branches after the graft are those of the host (the tip's branch now carries the graft) and
    those of the graft -/
theorem graft_edges (idx : Bool) (t g t' : T) (tip : String) (h : graft idx t tip g = .ok t') :
    t'.edges.Perm (t.edges ++ g.edges) := by
  obtain ⟨_, k', hk, rfl⟩ := graft_ok h
  simpa [edges_def, edgesL, asGraft] using graftKids_edges t.kids k' hk

/-- the graft is refused when the tip is absent -/
theorem graft_absent_err (idx : Bool) (t g : T) (tip : String) (h : tip ∉ t.tipNames) :
    ∀ t', graft idx t tip g ≠ .ok t' := by
  intro t' h'
  unfold graft at h'
  split at h'
  · cases h'
  · split at h'
    · cases h'
    · rename_i hc
      simp at hc
      exact h hc

/-! ## InsertIdenticalTip(s) -/

def okTips : Except String T → List String
  | .ok t => t.tipNames
  | .error _ => []



/-- ★ one `InsertIdenticalTip(old, new)`: path lengths between all other names unchanged; the new tip
    is exactly as far from everything as the tip it was put next to — in particular at distance 0
    from it —; the tips are the old ones plus the new name.
    Hypotheses: unique tip names, the tip index holds them. -/
theorem insertIdenticalTip_dist (t t' : T) (tips : List String) (old new : String)
    (h : insertOne t tips old new = .ok t') (hu : t.tipNames.Nodup) (hsub : ∀ x ∈ t.tipNames, x ∈ tips) :
    (∀ a b, a ≠ new → b ≠ new → t'.dist a b = t.dist a b) ∧
    (∀ x, x ≠ new → t'.dist new x = t.dist old x) ∧ t'.dist new old = 0 ∧
    t'.tipNames.Perm (new :: t.tipNames) ∧ old ∈ t.tipNames := by
  have st := insertOne_step h hu hsub
  have hne : old ≠ new := fun h0 => (insertOne_ok h).1 (hsub _ (h0 ▸ st.old_mem))
  refine ⟨st.out, st.twin, ?_, st.perm, st.old_mem⟩
  rw [st.twin old hne]
  exact distW_self _ _ _

/-- … and the branches are the old ones plus one or two new branches of length 0 -/
theorem insertIdenticalTip_edges (t t' : T) (tips : List String) (old new : String)
    (h : insertOne t tips old new = .ok t') :
    t'.edges.Perm (zeroEdge :: t.edges) ∨ t'.edges.Perm (zeroEdge :: zeroEdge :: t.edges) := by
  obtain ⟨_, k', hk, rfl⟩ := insertOne_ok h
  simpa [edges_def] using insKids_edges t.kids k' hk

theorem insert_inv (t t' : T) (groups : List (List String))
    (h : insertIdentical true t groups = (t', none)) (hu : t.tipNames.Nodup)
    (hne : ∀ g ∈ groups, "" ∉ g) : ∃ tips', Inv t t' tips' groups.flatten groups := by
  have h0 : Inv t t t.tipNames groups.flatten [] :=
    ⟨hu, fun _ => Iff.rfl, fun _ _ _ _ => rfl, fun _ ha => ha, fun _ hx => Or.inl hx, fun g hg => by cases hg⟩
  have := insertGroups_inv groups [] t t.tipNames t' h0 hne
    (fun g hg x hx => List.mem_flatten.mpr ⟨g, hg, hx⟩) (by simpa using insertIdentical_ok h)
  simpa using this

/-- ★ `InsertIdenticalTips(groups)`, when it succeeds: every path length between pre-existing tips
    is unchanged (unique tip names, no empty name in a group) -/
theorem insertIdentical_dist (t t' : T) (groups : List (List String))
    (h : insertIdentical true t groups = (t', none)) (hu : t.tipNames.Nodup)
    (hne : ∀ g ∈ groups, "" ∉ g) (a b : String) (ha : a ∈ t.tipNames) (hb : b ∈ t.tipNames) :
    t'.dist a b = t.dist a b := by
  obtain ⟨_, hI⟩ := insert_inv t t' groups h hu hne
  exact hI.keep a ha b hb

/-- ★ … all members of a group (the existing tip and the new ones) are at distance 0 from each other -/
theorem insertIdentical_zero (t t' : T) (groups : List (List String))
    (h : insertIdentical true t groups = (t', none)) (hu : t.tipNames.Nodup)
    (hne : ∀ g ∈ groups, "" ∉ g) (g : List String) (hg : g ∈ groups) (x y : String) (hx : x ∈ g) (hy : y ∈ g) :
    t'.dist x y = 0 := by
  obtain ⟨_, hI⟩ := insert_inv t t' groups h hu hne
  exact (hI.zero g hg x hx y hy).1

/-- ★ … and the tips afterwards are exactly the old tips and the names of the groups, each once -/
theorem insertIdentical_tips (t t' : T) (groups : List (List String))
    (h : insertIdentical true t groups = (t', none)) (hu : t.tipNames.Nodup)
    (hne : ∀ g ∈ groups, "" ∉ g) :
    t'.tipNames.Nodup ∧ ∀ x, x ∈ t'.tipNames ↔ (x ∈ t.tipNames ∨ x ∈ groups.flatten) := by
  obtain ⟨_, hI⟩ := insert_inv t t' groups h hu hne
  refine ⟨hI.nodup, fun x => ⟨hI.only x, fun hx => ?_⟩⟩
  rcases hx with hx | hx
  · exact hI.sub x hx
  · obtain ⟨g, hg, hxg⟩ := List.mem_flatten.mp hx
    exact (hI.zero g hg x hxg x hxg).2

/-- … also when the call FAILS half-way (the insertions made before the failing group stay in the
    tree): no path length between pre-existing tips has moved, every pre-existing tip is still there,
    tip names are still unique -/
theorem insertIdentical_dist_always (t t' : T) (groups : List (List String)) (r : Option String)
    (h : insertIdentical true t groups = (t', r)) (hu : t.tipNames.Nodup) (hne : ∀ g ∈ groups, "" ∉ g) :
    (∀ a ∈ t.tipNames, ∀ b ∈ t.tipNames, t'.dist a b = t.dist a b) ∧ (∀ a ∈ t.tipNames, a ∈ t'.tipNames) ∧
    t'.tipNames.Nodup := by
  have h0 : Inv t t t.tipNames groups.flatten [] :=
    ⟨hu, fun _ => Iff.rfl, fun _ _ _ _ => rfl, fun _ ha => ha, fun _ hx => Or.inl hx, fun g hg => by cases hg⟩
  unfold insertIdentical at h
  split at h
  · injection h with h1 _
    subst h1
    exact ⟨fun _ _ _ _ => rfl, fun _ ha => ha, hu⟩
  · obtain ⟨_, _, hI⟩ := insertGroups_keep groups [] t t.tipNames t' r h0 hne
      (fun g hg x hx => List.mem_flatten.mpr ⟨g, hg, hx⟩) (by simpa using h)
    exact ⟨hI.keep, hI.sub, hI.nodup⟩

/-- "one existing member each": a (first) group with no member, or with more than one member, among
    the tips is refused, and the tree is left as it was -/
theorem insertIdentical_refused (t : T) (g : List String) (gs : List (List String))
    (hne : "" ∉ g) (h : existing t.tipNames g ≠ 1) :
    (insertIdentical true t (g :: gs)).1 = t ∧ (insertIdentical true t (g :: gs)).2 ≠ none := by
  unfold insertIdentical
  split
  · exact ⟨rfl, by simp⟩
  · have := insertGroups_refuse t t.tipNames g gs hne h
    simp only [if_true]
    exact ⟨by rw [this.1], this.2⟩

/-- `((a,b)S,(c,d)S,e);` — the witness of the open finding F79 -/
def witnessF79 : T :=
  .node ⟨"", []⟩ 0 [
    (⟨1, NIL, NIL, [], 0⟩, .node ⟨"S", []⟩ 0 [(⟨1, NIL, NIL, [], 1⟩, T.leaf "a"), (⟨1, NIL, NIL, [], 2⟩, T.leaf "b")]),
    (⟨1, NIL, NIL, [], 3⟩, .node ⟨"S", []⟩ 0 [(⟨1, NIL, NIL, [], 4⟩, T.leaf "c"), (⟨1, NIL, NIL, [], 5⟩, T.leaf "d")]),
    (⟨1, NIL, NIL, [], 6⟩, T.leaf "e")]

/-- F79 (open, class `InsertIdenticalDuplicateInnerLabels`), negative theorem on the witness: the tips are
    pairwise different, the group `[a, n]` has exactly one existing member and the insertion itself goes
    through (`groupsAcceptable`), yet the model — as the code, because of `NewNodeIndex` over ALL named
    nodes — refuses and leaves the tree as it was -/
theorem insertIdentical_duplicate_inner_labels_refused :
    witnessF79.tipNames.Nodup ∧ dupInnerLabels witnessF79 = true ∧
    groupsAcceptable witnessF79 [["a", "n"]] = true ∧
    (insertIdentical true witnessF79 [["a", "n"]]).2 ≠ none ∧
    (insertIdentical true witnessF79 [["a", "n"]]).1.tipNames = witnessF79.tipNames := by
  decide +kernel

/-- PARTIAL (F79): acceptable groups are accepted by the model only outside the excluded region —
    when no two named nodes of the host (inner nodes included) share a label; there
    `InsertIdenticalTips` is the insertion procedure itself -/
theorem insertIdentical_accepts_partial (t : T) (groups : List (List String))
    (hl : hasDup (t.nodeNames.filter (· != "")) = false) (ha : groupsAcceptable t groups = true) :
    (insertIdentical true t groups).2 = none := by
  unfold insertIdentical
  simp only [hl, Bool.false_eq_true, if_false, if_true]
  simpa [groupsAcceptable] using ha

/-- the model's result meets the Spec used as oracle -/
theorem insertOK_holds (t t' : T) (groups : List (List String))
    (h : insertIdentical true t groups = (t', none)) (hu : t.tipNames.Nodup)
    (hne : ∀ g ∈ groups, "" ∉ g) : insertOK t groups t' = true := by
  obtain ⟨_, hI⟩ := insert_inv t t' groups h hu hne
  exact insertOK_holds' hu hI

/-- `(a:0)r;` — the two-node tree: a root that is a tip above one leaf with a zero-length branch -/
def witnessTwoNode : T := .node ⟨"r", []⟩ 0 [(⟨0, NIL, NIL, [], 0⟩, T.leaf "a")]

/-- pinned variant (before e4eb1d8, found by this check): the zero-length rule applied below a root
    that is a tip hangs the new tip on the root, and the root `r` is no longer a tip; the current
    rule builds the cherry and keeps it -/
theorem insert_pinned_fails :
    witnessTwoNode.tipNames = ["r", "a"] ∧
    okTips (insertOnePinned witnessTwoNode ["r", "a"] "a" "n") = ["a", "n"] ∧
    okTips (insertOne witnessTwoNode ["r", "a"] "a" "n") = ["r", "n", "a"] ∧
    (insertIdentical true witnessTwoNode [["a", "n"]]).1.tipNames = ["r", "n", "a"] := by
  decide +kernel

/-! ## command-line glue -/

/-- what `gotree graft` does (cmd/graft.go:67 drops the error of `GraftTreeOnTip`): with a tip name
    the host does not have, the host is printed unchanged (and the exit status is 0 — checked by the
    CLI tier against `cliGraft`) -/
theorem cliGraft_absent_tip (host g : T) (tip : String) (h : tip ∉ host.tipNames) : cliGraft host tip g = host := by
  unfold cliGraft
  cases hg : graft true host tip g with
  | ok t => exact absurd hg (graft_absent_err true host g tip h t)
  | error m => rfl

/-- … and otherwise prints the grafted tree, to which all the `graft_*` theorems apply -/
theorem cliGraft_ok (host g t' : T) (tip : String) (h : graft true host tip g = .ok t') : cliGraft host tip g = t' := by
  simp [cliGraft, h]

/-- `gotree merge` prints a tree exactly when `Merge` accepts, and then that tree -/
theorem cliMerge_spec (a b : T) : (cliMerge a b = none ↔ ∀ t', merge true true a b ≠ .ok t') ∧
    ∀ t', cliMerge a b = some t' ↔ merge true true a b = .ok t' := by
  unfold cliMerge
  cases h : merge true true a b with
  | ok t => simp
  | error m => simp

/-- `gotree subtree -n '^name$'` prints something only when exactly one node carries the name and it
    is not a tip; then it prints the copy of what hangs below it -/
theorem cliSubtree_spec (t : T) (name : String) (sub : T) (h : cliSubtree t name = some sub) :
    ∃ n, nodesNamed t name = [(false, n)] ∧ zeroPpos sub = zeroPpos n := by
  unfold cliSubtree at h
  split at h
  · rename_i n hn
    injection h with h
    exact ⟨n, hn, by rw [← h, copyRecBy_eq table_observable_copied, zeroPpos_idem]⟩
  · cases h

/-! ## RemoveSingleNodes -/

/-- ★ removing the single-child nodes leaves every path length unchanged
    (branch lengths absent or ≥ 0) -/
theorem removeSingle_dist (t : T) (h : lengthsOK t = true) (a b : String) :
    (removeSingle t).dist a b = t.dist a b := removeSingle_dist' t h a b

/-- ★ … keeps the tips -/
theorem removeSingle_tips (t : T) : (removeSingle t).tipNames.Perm t.tipNames := removeSingle_tips' t

/-- ★ … and leaves no single-child inner node (chains included); admissible lengths stay admissible -/
theorem removeSingle_noSingle (t : T) :
    (removeSingle t).noSingle = true ∧ (lengthsOK t = true → lengthsOK (removeSingle t) = true) :=
  ⟨removeSingle_noSingle' t, removeSingle_lengthsOK t⟩

/-- … keeps the tip ids (the tip index is not rebuilt, and need not be) -/
theorem removeSingle_tipIndex (t : T) : tipIndex (removeSingle t) = tipIndex t := removeSingle_tipIndex' t

/-- … and changes nothing at all when there is no single-child node -/
theorem removeSingle_id (t : T) (h : t.noSingle = true) : removeSingle t = t := removeSingleBy_id _ t h

/-- … hence is idempotent -/
theorem removeSingle_idem (t : T) : removeSingle (removeSingle t) = removeSingle t :=
  removeSingle_id _ (removeSingle_noSingle' t)

/-- … and keeps the unrooted split map (`Spec/Splits.lean`): every split with its length and its
    support — the two branches around a removed node are fused as the Spec fuses two entries with the
    same side (lengths add, absent only if both are; support = the larger, absent = -1).  This is the
    observation the driver adds to `obs_C15` for this operation. -/
theorem removeSingle_usplits (t : T) (h : lengthsOK t = true) :
    (removeSingle t).usplits.Perm t.usplits ∧ (removeSingle t).usplitsAll.Perm t.usplitsAll :=
  ⟨removeSingle_usplits' t h, removeSingle_usplitsAll' t h⟩

/-- the model's result meets the Spec used as oracle -/
theorem removeSingleOK_holds (t : T) (h : lengthsOK t = true) : removeSingleOK t (removeSingle t) = true :=
  removeSingleOK_holds' t h

/-- `((a:1,b:1):2,((c:1,d:1)):3);` — the witness of F37 -/
def witnessF37 : T :=
  .node ⟨"", []⟩ 0 [
    (⟨2, NIL, NIL, [], 0⟩, .node ⟨"", []⟩ 0 [(⟨1, NIL, NIL, [], 1⟩, T.leaf "a"), (⟨1, NIL, NIL, [], 2⟩, T.leaf "b")]),
    (⟨3, NIL, NIL, [], 3⟩, .node ⟨"", []⟩ 0 [
      (⟨NIL, NIL, NIL, [], 4⟩, .node ⟨"", []⟩ 0 [(⟨1, NIL, NIL, [], 5⟩, T.leaf "c"), (⟨1, NIL, NIL, [], 6⟩, T.leaf "d")])])]

/-- pinned variant (F37, before 7b2ddfc): the length rule that needs BOTH lengths loses the 3 -/
theorem removeSingle_pinned_fails :
    witnessF37.dist "a" "c" = 7 ∧ (removeSinglePinned witnessF37).dist "a" "c" = 4 ∧
    (removeSingle witnessF37).dist "a" "c" = 7 := by
  decide +kernel

/-! ### the hypotheses are satisfiable on non-trivial trees -/

example : lengthsOK witnessF37 = true ∧ witnessF37.noSingle = false ∧ witnessF37.tipNames.Nodup := by decide +kernel
def exXY : T := .node ⟨"", []⟩ 0 [(⟨1, NIL, NIL, [], 0⟩, T.leaf "x"), (⟨2, NIL, NIL, [], 1⟩, T.leaf "y")]

example : (insertIdentical true witnessF37 [["c", "n1", "n2"], ["m", "a"]]).2 = none ∧
    (insertIdentical true witnessF37 [["c", "n1", "n2"], ["m", "a"]]).1.tipNames = ["m", "a", "b", "n1", "c", "n2", "d"] := by
  decide +kernel
example : okTips (graft true witnessF37 "b" exXY) = ["a", "x", "y", "c", "d"] := by decide +kernel
example : okTips (merge true true witnessF37 exXY) = ["a", "b", "c", "d", "x", "y"] := by decide +kernel
example : (subTree witnessF37 [1, 0]).map T.tipNames = some ["c", "d"] ∧
    (nodeAt witnessF37 [1, 0]).map (fun n => leavesL n.kids) = some ["c", "d"] := by decide +kernel

/-! ## the commands on their whole input (round 7): group file as text, the states of `-g`, several trees -/

/-- the group file format is faithful: groups of clean names (no ",", no end-of-line character), none of
    them empty, written one per line are read back by the model of `readIdenticalGroupFile` as they were -/
theorem readGroupFile_render (gs : List (List String)) (hne : ∀ g ∈ gs, g ≠ [])
    (hc : ∀ g ∈ gs, ∀ n ∈ g, cleanName n = true) : readGroupFile (renderGroups gs) = gs :=
  readGroupFile_render' gs hne hc

/-- the other spellings of the same file (CRLF, no final newline), the blank line that becomes the group
    `[""]` (refused later: "" is no tip), the empty file, a line with a single name -/
theorem readGroupFile_variants :
    readGroupFile "a,b\r\nc,d\r\n" = [["a", "b"], ["c", "d"]] ∧
    readGroupFile "a,b\nc,d" = [["a", "b"], ["c", "d"]] ∧
    readGroupFile "a,b\n\n" = [["a", "b"], [""]] ∧
    readGroupFile "" = [] ∧ readGroupFile "a\n" = [["a"]] ∧
    readGroupFile "a,b\r" = [["a", "b\r"]] := by decide +kernel

/-- `-g` not given: error exit, nothing printed -/
theorem cliRepopulateFile_absent (ts : List T) : cliRepopulateFile .absent ts = ([], false) := rfl

/-- the trees printed are a prefix of the input; exit 0 exactly when every tree was printed … -/
theorem cliRepopulateFile_prefix (ga : GroupArg) (ts : List T) :
    (cliRepopulateFile ga ts).1.length ≤ ts.length ∧
    ((cliRepopulateFile ga ts).2 = true → (cliRepopulateFile ga ts).1.length = ts.length) := by
  unfold cliRepopulateFile
  cases groupsOf ga with
  | none => simp
  | some gs => exact repopulateLoop_length gs ts

/-- … and then EVERY tree of the input (not only the first) got exactly the requested tips, at distance 0
    from their models, with all other path lengths unchanged (`insertOK`, the Spec used as oracle) -/
theorem cliRepopulateFile_ok (txt : String) (ts outs : List T)
    (h : cliRepopulateFile (.file txt) ts = (outs, true))
    (hu : ∀ t ∈ ts, t.tipNames.Nodup) (hne : ∀ g ∈ readGroupFile txt, "" ∉ g) :
    outs.length = ts.length ∧ ∀ p ∈ ts.zip outs, insertOK p.1 (readGroupFile txt) p.2 = true := by
  obtain ⟨hl, hz⟩ := repopulateLoop_ok (readGroupFile txt) ts outs h
  refine ⟨hl, fun p hp => ?_⟩
  exact insertOK_holds p.1 p.2 _ (hz p hp) (hu p.1 (List.of_mem_zip hp).1) hne

/-- cmd/repopulate.go:57–59 overwrites the error of `readIdenticalGroupFile`: with a group file that cannot
    be opened every tree (unique tip names, no two named nodes with the same label) is printed UNCHANGED
    and the exit status is 0 — a command-line matter outside the property, stated, tied, not judged -/
theorem cliRepopulateFile_missing_silent (ts : List T) (hu : ∀ t ∈ ts, t.tipNames.Nodup)
    (hl : ∀ t ∈ ts, hasDup (t.nodeNames.filter (· != "")) = false) :
    cliRepopulateFile .missing ts = (ts, true) := by
  show repopulateLoop [] ts = (ts, true)
  induction ts with
  | nil => rfl
  | cons t r ih =>
    have h1 : (tipIndex t).2 = true := by rw [tipIndex_unique t (hu t (by simp))]
    have h2 : insertIdentical true t [] = (t, none) := by
      unfold insertIdentical
      simp [hl t (by simp), insertGroups]
    unfold repopulateLoop
    simp only [h1, Bool.not_true, Bool.false_eq_true, if_false, h2]
    rw [ih (fun t ht => hu t (List.mem_cons_of_mem _ ht)) (fun t ht => hl t (List.mem_cons_of_mem _ ht))]

/-- `gotree collapse single` on several trees: one tree printed per input tree, each meeting the Spec -/
theorem cliCollapseSingleAll_spec (ts : List T) (h : ∀ t ∈ ts, lengthsOK t = true) :
    (cliCollapseSingleAll ts).length = ts.length ∧
    ∀ p ∈ ts.zip (cliCollapseSingleAll ts), removeSingleOK p.1 p.2 = true := by
  refine ⟨by simp [cliCollapseSingleAll], ?_⟩
  induction ts with
  | nil => simp [cliCollapseSingleAll]
  | cons t r ih =>
    intro p hp
    simp only [cliCollapseSingleAll, List.map_cons, List.zip_cons_cons, List.mem_cons] at hp
    rcases hp with rfl | hp
    · exact removeSingleOK_holds t (h t (by simp))
    · exact ih (fun t ht => h t (List.mem_cons_of_mem _ ht)) p hp

/-- `gotree subtree` on several trees prints at most one tree per input tree, each the subtree of a node of
    some input tree with that name -/
theorem cliSubtreeAll_length (ts : List T) (name : String) : (cliSubtreeAll ts name).length ≤ ts.length := by
  unfold cliSubtreeAll
  exact List.length_filterMap_le _ _

/-- completeness on the whole input: groups acceptable for EVERY tree of the input (unique tip names, no
    two named nodes with the same label — the region outside F79) are accepted: exit 0, so by
    `cliRepopulateFile_prefix` / `cliRepopulateFile_ok` every tree is printed with the requested tips -/
theorem cliRepopulateFile_accepts (txt : String) (ts : List T) (hu : ∀ t ∈ ts, t.tipNames.Nodup)
    (hl : ∀ t ∈ ts, hasDup (t.nodeNames.filter (· != "")) = false)
    (ha : ∀ t ∈ ts, groupsAcceptable t (readGroupFile txt) = true) :
    (cliRepopulateFile (.file txt) ts).2 = true := by
  show (repopulateLoop (readGroupFile txt) ts).2 = true
  apply repopulateLoop_accepts
  intro t ht
  exact ⟨by rw [tipIndex_unique t (hu t ht)], insertIdentical_accepts_partial t _ (hl t ht) (ha t ht)⟩

example : let ts := [witnessF37, witnessF37]
    (∀ t ∈ ts, t.tipNames.Nodup) ∧ (∀ t ∈ ts, hasDup (t.nodeNames.filter (· != "")) = false) ∧
    (∀ t ∈ ts, groupsAcceptable t (readGroupFile "c,n1,n2\r\nm,a\r\n") = true) ∧
    (∀ g ∈ readGroupFile "c,n1,n2\r\nm,a\r\n", "" ∉ g) := by decide +kernel

/-! ## table (e), round 7: sentinels and guard constants regenerated from the source -/

/-- the sentinels of tree/edge.go are the ones of the model (`NIL`, `EdgeD.blank`, `zeroEdge`) -/
theorem sentinels_check :
    Gotree.Gen.C15.sentinels = expectedSentinels ∧ modelSentinels = expectedSentinels := by decide +kernel

/-- every comparison with a constant in Rooted, Tip, Merge, InsertIdenticalTips, InsertIdenticalTip and
    removeSingleNodesRecur, and every constant given to SetLength / math.Max there, is the one the model
    was written from (`Model/C15Guards.lean` names the model definition behind each row).  A changed
    operator or constant (`> 1` → `> 2`, `== 0.0` → `<= 0.0`, `Max(0, …)` → `Max(1, …)`) breaks this decision;
    the failing input is then searched by the oracle as usual. -/
theorem guards_check : Gotree.Gen.C15.guards = expectedGuards := by decide +kernel

end Gotree.C15
