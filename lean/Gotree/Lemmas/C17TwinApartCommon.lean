/-
  C17 — the two neighbours proposed for one branch, in the `Apart` form (so that the canonical
  split sets of the two neighbours can be compared).
-/
import Gotree.Lemmas.C17ApartLocalCommon
import Gotree.Lemmas.C17Twin

namespace Gotree.C17
open Gotree Gotree.C17.Spec

theorem apart_kids2 {Z : List String} {isRoot : Bool} {k k' : Kids} (j1 j2 : Nat) (R : List SplitE)
    (h1 : (splitsL k).Perm (entryOf k j1 :: R)) (h2 : (splitsL k').Perm (entryOf k' j2 :: R))
    (he : (entryOf k j1).e = (entryOf k' j2).e) (ht : (entryOf k j1).tip = false) (ht' : (entryOf k' j2).tip = false)
    (hcZ : ∀ x ∈ (entryOf k j1).below, x ∈ Z) (hcZ' : ∀ x ∈ (entryOf k' j2).below, x ∈ Z)
    (q1 : ∃ x, x ∈ (entryOf k j1).below ∧ x ∈ (entryOf k' j2).below)
    (q2 : ∃ x, x ∈ (entryOf k j1).below ∧ x ∉ (entryOf k' j2).below)
    (q3 : ∃ x, x ∈ Z ∧ x ∉ (entryOf k j1).below ∧ x ∈ (entryOf k' j2).below)
    (q4 : isRoot = true → ∃ x, x ∈ Z ∧ x ∉ (entryOf k j1).below ∧ x ∉ (entryOf k' j2).below)
    (hR : ∀ s ∈ R, s.below ≠ [] ∧ Within Z (entryOf k j1).below (entryOf k' j2).below s.below) :
    ∃ cb, Apart Z cb isRoot (splitsL k) (splitsL k') :=
  ⟨_, entryOf k j1, entryOf k' j2, R, R, rfl, h1, h2, sameBranches_refl _, he, ht, ht', hcZ, hcZ', q1, q2, q3, q4, hR⟩

macro "apart2_at3" j1:num j2:num eu:ident ev:ident ey:ident tu:ident tv:ident ty:ident
    xu:ident xv:ident xy:ident bu:ident bv:ident bY:ident : tactic => `(tactic|
  (refine apart_kids2 $j1 $j2
    (((⟨T.leaves $tu, $eu, T.isLeaf $tu⟩ : SplitE) :: T.splitsBelow $tu) ++
      ((⟨T.leaves $tv, $ev, T.isLeaf $tv⟩ : SplitE) :: T.splitsBelow $tv) ++
      ((⟨T.leaves $ty, $ey, T.isLeaf $ty⟩ : SplitE) :: T.splitsBelow $ty))
    (by ev_entries; perm_entries) (by ev_entries; perm_entries) (by ev_entries) (by ev_entries) (by ev_entries)
    (by ev_entries; intro x hx; simp only [List.mem_append] at hx ⊢; grind)
    (by ev_entries; intro x hx; simp only [List.mem_append] at hx ⊢; grind)
    (by ev_entries; pick2 $xu $xv $xy $xy) (by ev_entries; pick2 $xu $xv $xy $xy) (by ev_entries; pick3 $xu $xv $xy $xy)
    (by intro h; cases h) ?_
   ev_entries
   intro s hs
   simp only [List.mem_append] at hs
   rcases hs with (hs | hs) | hs
   · obtain ⟨hne, hsub⟩ := $bu s hs
     exact ⟨hne, by within_block hsub⟩
   · obtain ⟨hne, hsub⟩ := $bv s hs
     exact ⟨hne, by within_block hsub⟩
   · obtain ⟨hne, hsub⟩ := $bY s hs
     exact ⟨hne, by within_block hsub⟩))

macro "apart2_at4" j1:num j2:num eu:ident ev:ident ey:ident ez:ident tu:ident tv:ident ty:ident tz:ident
    xu:ident xv:ident xy:ident xz:ident bu:ident bv:ident bY:ident bz:ident : tactic => `(tactic|
  (refine apart_kids2 $j1 $j2
    (((⟨T.leaves $tu, $eu, T.isLeaf $tu⟩ : SplitE) :: T.splitsBelow $tu) ++
      ((⟨T.leaves $tv, $ev, T.isLeaf $tv⟩ : SplitE) :: T.splitsBelow $tv) ++
      ((⟨T.leaves $ty, $ey, T.isLeaf $ty⟩ : SplitE) :: T.splitsBelow $ty) ++
      ((⟨T.leaves $tz, $ez, T.isLeaf $tz⟩ : SplitE) :: T.splitsBelow $tz))
    (by ev_entries; perm_entries) (by ev_entries; perm_entries) (by ev_entries) (by ev_entries) (by ev_entries)
    (by ev_entries; intro x hx; simp only [List.mem_append] at hx ⊢; grind)
    (by ev_entries; intro x hx; simp only [List.mem_append] at hx ⊢; grind)
    (by ev_entries; pick2 $xu $xv $xy $xz) (by ev_entries; pick2 $xu $xv $xy $xz) (by ev_entries; pick3 $xu $xv $xy $xz)
    (by intro _; ev_entries; pick3 $xu $xv $xy $xz) ?_
   ev_entries
   intro s hs
   simp only [List.mem_append] at hs
   rcases hs with ((hs | hs) | hs) | hs
   · obtain ⟨hne, hsub⟩ := $bu s hs
     exact ⟨hne, by within_block hsub⟩
   · obtain ⟨hne, hsub⟩ := $bv s hs
     exact ⟨hne, by within_block hsub⟩
   · obtain ⟨hne, hsub⟩ := $bY s hs
     exact ⟨hne, by within_block hsub⟩
   · obtain ⟨hne, hsub⟩ := $bz s hs
     exact ⟨hne, by within_block hsub⟩))

/-- the statement of the local fact for one configuration -/
def LocalTwinApart (path : List Nat) (d1 : NodeD) (isRoot : Bool) (p1 : Nat) (k1 : Kids) (j p2 : Nat) : Prop :=
  (leavesL k1).Nodup →
    ∀ S1 S2, applyLocal isRoot (newNNI path isRoot p1 j p2 false) (.node d1 p1 k1) = some S1 →
      applyLocal isRoot (newNNI path isRoot p1 j p2 true) (.node d1 p1 k1) = some S2 →
      ∃ cb, Apart (leavesL k1) cb isRoot (splitsL S1.kids) (splitsL S2.kids)

end Gotree.C17
