/-
  C13 — a SPECIFICATION writer for Nexus tree files as other programs (FigTree / BEAST / MrBayes style)
  write them, which gotree's own writer never emits: lower-case keywords, tabs, one label per line, a
  TRANSLATE table numbered from 1 with commas, a rooting comment `[&U]` before each tree.  It is not a
  model of Go code: it describes legal input documents, for the theorem that gotree's Nexus READER
  (model `Nex.parse`) reads them back (`nexus_std_roundtrip`), and the harness emits the same layout
  (flag `std-form`) so that the driver can compare the text with this definition.
  Core Lean only.
-/
import Gotree.Model.C13

namespace Gotree.C13
open Gotree

def stdA : Txt := "#NEXUS\nbegin taxa;\n\tdimensions ntax=".toList
def stdB : Txt := "\n\t".toList
def stdTaxlabels : Txt := "taxlabels".toList
def stdSep : Txt := "\t\t".toList
def stdC : Txt := "\nend;\n\nbegin trees;\n\t".toList
def stdTranslate : Txt := "translate".toList
def stdD : Txt := "\n".toList
def stdTree : Txt := "tree ".toList
def stdEq : Txt := "= [&U] ".toList
def stdE : Txt := "end;\n".toList

/-- one label per line -/
def stdLabels : List String → Txt
  | [] => []
  | l :: r => '\n' :: (stdSep ++ (l.toList ++ stdLabels r))

/-- the translate map of such a file: labels numbered from `k` -/
def stdMap : Nat → List String → List (String × String)
  | _, [] => []
  | k, l :: r => (l, toString k) :: stdMap (k + 1) r

/-- `<number> <label>,` lines (the number a label has in the map `m`), the last one without comma -/
def stdTrLines (m : List (String × String)) : List String → Txt
  | [] => []
  | [l] => '\n' :: (stdSep ++ ((match lookup m l with | some v => v.toList | none => []) ++ ' ' :: l.toList))
  | l :: r => '\n' :: (stdSep ++ ((match lookup m l with | some v => v.toList | none => []) ++ ' ' :: (l.toList ++ ',' :: stdTrLines m r)))

def stdTreeLines (C : NewickCodec) (m : List (String × String)) : Nat → List T → Txt
  | _, [] => []
  | i, t :: r => stdTree ++ ((litTree2 ++ natTxt i) ++ ' ' :: (stdEq ++ (C.write (renameT m t) ++ '\n' :: stdTreeLines C m (i + 1) r)))

/-- the document: taxa `labels`, trees `ts` written with their tips replaced by the numbers -/
def writeNexusStd (C : NewickCodec) (labels : List String) (ts : List T) : Txt :=
  stdA ++ (natTxt labels.length ++ ';' :: (stdB ++ (stdTaxlabels ++ (stdLabels labels ++ '\n' :: ';' :: (stdC ++
  (stdTranslate ++ (stdTrLines (stdMap 1 labels) labels ++ '\n' :: ';' :: (stdD ++
  (stdTreeLines C (stdMap 1 labels) 1 ts ++ stdE)))))))))

end Gotree.C13
