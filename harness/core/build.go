package core

import (
	"fmt"

	"github.com/evolbioinfo/gotree/tree"
)

type bEdge struct {
	parent, child *N
	done          bool
}

// Build constructs a *tree.Tree from a harness-side tree through the public
// API only (NewNode, ConnectNodes, Set*, AddComment), honouring child order and
// parent positions.  The result is re-read with Alpha and compared with the
// request, which validates the constructor itself.
func Build(root *N) (*tree.Tree, error) {
	t := tree.NewTree()
	gn := map[*N]*tree.Node{}
	adj := map[*N][]*bEdge{} // adjacency in required slice order
	var edges []*bEdge
	var mk func(n *N, up *bEdge) error
	mk = func(n *N, up *bEdge) error {
		g := t.NewNode()
		g.SetName(n.Name)
		for _, c := range n.Comments {
			g.AddComment(c)
		}
		gn[n] = g
		if up != nil && n.PPos > len(n.Kids) {
			return fmt.Errorf("ppos %d out of range for node %q", n.PPos, n.Name)
		}
		var list []*bEdge
		for i, k := range n.Kids {
			if up != nil && i == n.PPos {
				list = append(list, up)
			}
			be := &bEdge{parent: n, child: k}
			edges = append(edges, be)
			list = append(list, be)
			if err := mk(k, be); err != nil {
				return err
			}
		}
		if up != nil && n.PPos >= len(n.Kids) {
			list = append(list, up)
		}
		adj[n] = list
		return nil
	}
	if err := mk(root, nil); err != nil {
		return nil, err
	}
	next := map[*N]int{}
	remaining := len(edges)
	for remaining > 0 {
		progress := false
		for _, be := range edges {
			if be.done {
				continue
			}
			p, c := be.parent, be.child
			if adj[p][next[p]] == be && adj[c][next[c]] == be {
				e := t.ConnectNodes(gn[p], gn[c])
				e.SetLength(c.E.Len)
				e.SetSupport(c.E.Sup)
				e.SetPValue(c.E.Pval)
				e.SetId(c.E.Id)
				for _, cm := range c.E.Comments {
					e.AddComment(cm)
				}
				be.done = true
				next[p]++
				next[c]++
				remaining--
				progress = true
			}
		}
		if !progress {
			return nil, fmt.Errorf("cannot order branch creation")
		}
	}
	t.SetRoot(gn[root])
	back, wf := Alpha(t)
	if !wf.OK() {
		return nil, fmt.Errorf("built tree malformed: %v", wf.Problems)
	}
	if back.Dump() != root.Dump() {
		return nil, fmt.Errorf("built tree differs from request:\n%s\n%s", back.Dump(), root.Dump())
	}
	return t, nil
}

// NodeAt resolves a child-index path (as in the α dump) to the Go node.
func NodeAt(t *tree.Tree, path []int) (*tree.Node, *tree.Edge, error) {
	cur := t.Root()
	var prev *tree.Node
	var e *tree.Edge
	for _, idx := range path {
		j := 0
		var nxt *tree.Node
		var ne *tree.Edge
		for i, nb := range cur.Neigh() {
			if nb == prev {
				continue
			}
			if j == idx {
				nxt = nb
				ne = cur.Edges()[i]
				break
			}
			j++
		}
		if nxt == nil {
			return nil, nil, fmt.Errorf("path out of range")
		}
		prev, cur, e = cur, nxt, ne
	}
	return cur, e, nil
}

// At resolves a path in the harness-side tree.
func (n *N) At(path []int) *N {
	cur := n
	for _, i := range path {
		if i >= len(cur.Kids) {
			return nil
		}
		cur = cur.Kids[i]
	}
	return cur
}

// Paths lists the child-index paths of all nodes (pre-order).
func (n *N) Paths() [][]int {
	var out [][]int
	var rec func(x *N, p []int)
	rec = func(x *N, p []int) {
		out = append(out, append([]int(nil), p...))
		for i, k := range x.Kids {
			rec(k, append(p, i))
		}
	}
	rec(n, nil)
	return out
}
