/-
  C13 — PhyloXML documents in the alternative forms of `Model/C13PxForms.lean`: the reader model
  gives the trees back.
-/
import Gotree.Model.C13PxForms
import Gotree.Lemmas.C13Px

namespace Gotree.C13
open Gotree
open Px

/-- the `name`, `scientific_name`, `code` fields `xml.Unmarshal` fills for a name written in style `s` -/
def nmOf (s : NameStyle) (n : String) : String :=
  match s with | .name | .nameTax | .twice => n | _ => ""
def sciOf (s : NameStyle) (n : String) : String :=
  match s with | .sci | .sciCode => n | .nameTax => (if n != "" then "Y y" else "") | _ => ""
def codeOf (s : NameStyle) (n : String) : String :=
  match s with | .code => n | .sciCode | .nameTax => (if n != "" then "ZZZ" else "") | _ => ""

mutual
def cladeAlt (sty : String → NameStyle) : Option EdgeD → T → Clade
  | oe, .node d _ k =>
    .mk (nmOf (sty d.name) d.name) (blOf oe) (confOf oe k) (sciOf (sty d.name) d.name) (codeOf (sty d.name) d.name)
      (cladesAlt sty k)
def cladesAlt (sty : String → NameStyle) : Kids → List Clade
  | [] => []
  | (e, t) :: r => cladeAlt sty (some e) t :: cladesAlt sty r
end

theorem label_alt (s : NameStyle) (n : String) (bl conf : Option Rat) :
    (Clade.mk (nmOf s n) bl conf (sciOf s n) (codeOf s n) []).label = n := by
  cases s <;> by_cases h : n = "" <;> simp [Clade.label, nmOf, sciOf, codeOf, h]

/- ### cladeToTree gives the same tree as for gotree's own form -/

theorem cladesAlt_isEmpty (sty : String → NameStyle) (k : Kids) : (cladesAlt sty k).isEmpty = (cladesOf k).isEmpty := by
  cases k with
  | nil => rfl
  | cons x r => obtain ⟨e, t⟩ := x; rfl

mutual
theorem toT_alt (sty : String → NameStyle) : ∀ (oe : Option EdgeD) (t : T), (cladeAlt sty oe t).toT = (cladeOf oe t).toT
  | oe, .node d p k => by
    rw [cladeOf_eq]
    simp only [cladeAlt, Clade.toT, label_alt]
    rw [toKids_alt sty k]
    simp [Clade.label]
theorem toKids_alt (sty : String → NameStyle) : ∀ (k : Kids), toKids (cladesAlt sty k) = toKids (cladesOf k)
  | [] => rfl
  | (e, .node d p kk) :: r => by
    have h1 := toT_alt sty (some e) (.node d p kk)
    have h2 := toKids_alt sty r
    rw [cladeOf_eq] at h1
    simp only [cladeAlt] at h1
    simp only [cladesAlt, cladesOf, cladeAlt, cladeOf_eq, toKids, h1, h2]
    congr 2
    cases kk with
    | nil => rfl
    | cons x r' => obtain ⟨e', t'⟩ := x; rfl
end

theorem tipsNamed_cladeAlt (sty : String → NameStyle) : ∀ (p : Rat → Bool) (oe : Option EdgeD) (t : T),
    (!t.kids.isEmpty || t.name != "") = true → pxKids p t.kids = true → (cladeAlt sty oe t).tipsNamed = true := by
  intro p oe t
  induction t using T.induct generalizing oe with
  | h d pp k ih =>
    intro hroot hk
    simp only [T.kids_node] at hk hroot
    simp only [cladeAlt, Clade.tipsNamed]
    have hkids : tipsNamedL (cladesAlt sty k) = true := by
      clear hroot
      induction k with
      | nil => rfl
      | cons et r ihr =>
        obtain ⟨e, t⟩ := et
        simp only [pxKids, Bool.and_eq_true] at hk
        simp only [cladesAlt, tipsNamedL, Bool.and_eq_true]
        refine ⟨?_, ihr (fun x hx => ih x (by simp [hx])) hk.2⟩
        cases t with
        | node d' p' k' =>
          have hn := hk.1
          simp only [pxNode, Bool.and_eq_true] at hn
          apply ih (e, .node d' p' k') (by simp) (some e)
          · cases k' with
            | nil => have := hn.1.2; simp at this; simp [T.name, this.1]
            | cons _ _ => simp
          · exact hn.2
    cases k with
    | nil =>
      simp [T.name] at hroot
      simp only [cladesAlt, tipsNamedL, Bool.and_true]
      cases sty d.name <;> simp [nmOf, sciOf, codeOf, hroot]
    | cons x r =>
      cases hcs : cladesAlt sty (x :: r) with
      | nil => obtain ⟨e, t⟩ := x; simp [cladesAlt] at hcs
      | cons c cs => rw [hcs] at hkids; simp [hkids]

/- ### decoding -/

theorem ct_nameAlt_other (s : NameStyle) (n tag : String) (h1 : tag ≠ "name") (h2 : tag ≠ "taxonomy") :
    childrenTagged tag (nameElemsAlt s n) = [] := by
  have e1 : (some "name" == some tag) = false := by simp; exact fun h => h1 h.symm
  have e2 : (some "taxonomy" == some tag) = false := by simp; exact fun h => h2 h.symm
  cases s <;> by_cases h : n = "" <;> simp [nameElemsAlt, childrenTagged, el, Xml.tag?, h, e1, e2]

theorem strField_nameAlt (s : NameStyle) (n : String) :
    (match (childrenTagged "name" (nameElemsAlt s n)).getLast? with
     | none => some ""
     | some x => some (chardata x.kids)) = some (nmOf s n) := by
  cases s <;> by_cases h : n = "" <;>
    simp [nameElemsAlt, childrenTagged, el, Xml.tag?, h, nmOf, chardata, Xml.kids]

theorem taxFields_nameAlt (s : NameStyle) (n : String) :
    taxFields (childrenTagged "taxonomy" (nameElemsAlt s n)) ("", "") = (sciOf s n, codeOf s n) := by
  cases s <;> by_cases h : n = "" <;>
    simp [nameElemsAlt, childrenTagged, el, Xml.tag?, h, sciOf, codeOf, taxFields, chardata, Xml.kids]

theorem junk_tag (junk : List Xml) (h : junkOK junk = true) (tag : String)
    (ht : tag = "name" ∨ tag = "branch_length" ∨ tag = "confidence" ∨ tag = "taxonomy" ∨ tag = "clade") :
    childrenTagged tag junk = [] := by
  simp only [junkOK, List.all_cons, List.all_nil, Bool.and_true, Bool.and_eq_true, List.isEmpty_iff] at h
  rcases ht with h' | h' | h' | h' | h' <;> subst h'
  · exact h.1
  · exact h.2.1
  · exact h.2.2.1
  · exact h.2.2.2.1
  · exact h.2.2.2.2

/- ### white space around the numbers -/

theorem dropWhile_append_all {p : Char → Bool} (a b : Txt) (h : ∀ c ∈ a, p c = true) :
    (a ++ b).dropWhile p = b.dropWhile p := by
  induction a with
  | nil => rfl
  | cons c r ih =>
    simp only [List.cons_append, List.dropWhile_cons, h c (by simp), if_true]
    exact ih (fun x hx => h x (by simp [hx]))

theorem dropWhile_append_ne {p : Char → Bool} (s t : Txt) (h : s.dropWhile p ≠ []) :
    (s ++ t).dropWhile p = s.dropWhile p ++ t := by
  induction s with
  | nil => simp at h
  | cons c r ih =>
    simp only [List.cons_append, List.dropWhile_cons] at h ⊢
    by_cases hc : p c = true
    · simp only [hc, if_true] at h ⊢; exact ih h
    · simp [hc]

theorem all_of_dropWhile_nil {p : Char → Bool} (s : Txt) (h : s.dropWhile p = []) : ∀ c ∈ s, p c = true := by
  induction s with
  | nil => intro c hc; cases hc
  | cons a r ih =>
    simp only [List.dropWhile_cons] at h
    by_cases ha : p a = true
    · simp only [ha, if_true] at h
      intro c hc
      rcases List.mem_cons.1 hc with e | e
      · rw [e]; exact ha
      · exact ih h c e
    · simp [ha] at h

theorem dropWhile_all {p : Char → Bool} (a : Txt) (h : ∀ c ∈ a, p c = true) : a.dropWhile p = [] := by
  have := dropWhile_append_all (p := p) a [] h
  simpa using this

theorem trim_pad (padL padR s : Txt) (hl : padOK padL = true) (hr : padOK padR = true) :
    trim (padL ++ (s ++ padR)) = trim s := by
  simp only [padOK, List.all_eq_true] at hl hr
  unfold trim
  simp only []
  rw [dropWhile_append_all padL _ hl]
  by_cases hu : s.dropWhile (fun c => c == ' ' || c == '\t' || c == '\n' || c == '\r') = []
  · have h1 : (s ++ padR).dropWhile (fun c => c == ' ' || c == '\t' || c == '\n' || c == '\r') = [] := by
      have hs : ∀ c ∈ s, (c == ' ' || c == '\t' || c == '\n' || c == '\r') = true := by
        intro c hc
        exact all_of_dropWhile_nil s hu c hc
      rw [dropWhile_append_all s _ hs]
      exact dropWhile_all padR hr
    rw [h1, hu]
  · rw [dropWhile_append_ne s padR hu, List.reverse_append,
      dropWhile_append_all padR.reverse _ (fun c hc => hr c (List.mem_reverse.1 hc))]

def blElemsP (N : NumCodec) (padL padR : Txt) : Option Rat → List Xml
  | some q => [.elem "branch_length" [] [txt (padL ++ (N.fmt q ++ padR))]]
  | none => []
def confElemsP (N : NumCodec) (padL padR : Txt) : Option Rat → List Xml
  | some q => [.elem "confidence" [("type", "bootstrap")] [txt (padL ++ (N.fmt q ++ padR))]]
  | none => []

theorem ct_blP (N : NumCodec) (padL padR : Txt) (tag : String) (bl : Option Rat) :
    childrenTagged tag (blElemsP N padL padR bl) = if tag = "branch_length" then blElemsP N padL padR bl else [] := by
  unfold blElemsP childrenTagged
  cases bl <;> by_cases ht : tag = "branch_length" <;> simp [ht, Xml.tag?]
  exact fun h => ht h.symm

theorem ct_confP (N : NumCodec) (padL padR : Txt) (tag : String) (c : Option Rat) :
    childrenTagged tag (confElemsP N padL padR c) = if tag = "confidence" then confElemsP N padL padR c else [] := by
  unfold confElemsP childrenTagged
  cases c <;> by_cases ht : tag = "confidence" <;> simp [ht, Xml.tag?]
  exact fun h => ht h.symm

/-- decoding one `<clade>` element: unknown elements, the name in some style, optional branch length,
    optional confidence, then sub-clades `K` that decode to `cs` -/
theorem decClade_elem_alt (N : NumCodec) (NL : NumLaws N) (junk : List Xml) (hj : junkOK junk = true)
    (padL padR : Txt) (hpl : padOK padL = true) (hpr : padOK padR = true)
    (s : NameStyle) (name : String) (bl conf : Option Rat) (K : List Xml) (cs : List Clade)
    (hbl : ∀ q, bl = some q → NL.dom q = true) (hconf : ∀ q, conf = some q → NL.dom q = true)
    (hK : decKids N K = .ok cs) (hKt : ∀ tag, tag ≠ "clade" → childrenTagged tag K = []) :
    decClade N (.elem "clade" [] (junk ++ (nameElemsAlt s name ++ (blElemsP N padL padR bl ++ confElemsP N padL padR conf) ++ K))) =
      .ok (.mk (nmOf s name) bl conf (sciOf s name) (codeOf s name) cs) := by
  have hct : ∀ tag, tag ≠ "clade" →
      childrenTagged tag (junk ++ (nameElemsAlt s name ++ (blElemsP N padL padR bl ++ confElemsP N padL padR conf) ++ K)) =
        childrenTagged tag junk ++ (childrenTagged tag (nameElemsAlt s name) ++
        ((if tag = "branch_length" then blElemsP N padL padR bl else []) ++ (if tag = "confidence" then confElemsP N padL padR conf else []))) := by
    intro tag ht
    simp only [childrenTagged_append, ct_blP, ct_confP, hKt tag ht, List.append_nil]
  have hdk : decKids N (junk ++ (nameElemsAlt s name ++ (blElemsP N padL padR bl ++ confElemsP N padL padR conf) ++ K)) = .ok cs := by
    rw [decKids_skip N _ _ (junk_tag junk hj "clade" (by simp)), decKids_skip N _ K, hK]
    simp only [childrenTagged_append, ct_blP, ct_confP, ct_nameAlt_other s name "clade" (by decide) (by decide)]
    simp
  have hname : strField "name" (junk ++ (nameElemsAlt s name ++ (blElemsP N padL padR bl ++ confElemsP N padL padR conf) ++ K)) =
      some (nmOf s name) := by
    unfold strField
    rw [hct "name" (by decide), junk_tag junk hj "name" (by simp)]
    simp only [List.nil_append, String.reduceEq, if_false, List.append_nil]
    exact strField_nameAlt s name
  have hblf : floatField N "branch_length" (junk ++ (nameElemsAlt s name ++ (blElemsP N padL padR bl ++ confElemsP N padL padR conf) ++ K)) =
      (match bl with | some q => .val q | none => .absent) := by
    unfold floatField
    rw [hct "branch_length" (by decide), junk_tag junk hj "branch_length" (by simp),
      ct_nameAlt_other s name "branch_length" (by decide) (by decide)]
    cases bl with
    | none => simp [blElemsP]
    | some q =>
      have := NL.parse_fmt q (hbl q rfl)
      simp [blElemsP, floatVals, Xml.kids, chardata_txt, trim_pad _ _ _ hpl hpr, this]
  have hcf : floatField N "confidence" (junk ++ (nameElemsAlt s name ++ (blElemsP N padL padR bl ++ confElemsP N padL padR conf) ++ K)) =
      (match conf with | some q => .val q | none => .absent) := by
    unfold floatField
    rw [hct "confidence" (by decide), junk_tag junk hj "confidence" (by simp),
      ct_nameAlt_other s name "confidence" (by decide) (by decide)]
    cases conf with
    | none => simp [confElemsP]
    | some q =>
      have := NL.parse_fmt q (hconf q rfl)
      simp [confElemsP, floatVals, Xml.kids, chardata_txt, trim_pad _ _ _ hpl hpr, this]
  have htax : childrenTagged "taxonomy" (junk ++ (nameElemsAlt s name ++ (blElemsP N padL padR bl ++ confElemsP N padL padR conf) ++ K)) =
      childrenTagged "taxonomy" (nameElemsAlt s name) := by
    rw [hct "taxonomy" (by decide), junk_tag junk hj "taxonomy" (by simp)]; simp
  rw [decClade]
  simp only [hname, hblf, hcf, htax, taxFields_nameAlt, hdk]
  cases bl <;> cases conf <;> rfl

theorem childrenTagged_encKidsAlt (N : NumCodec) (sty : String → NameStyle) (junk : List Xml) (padL padR : Txt) (tag : String)
    (h : tag ≠ "clade") (k : Kids) : childrenTagged tag (encKidsAlt N sty junk padL padR k) = [] := by
  induction k with
  | nil => simp [encKidsAlt, childrenTagged]
  | cons et r ih =>
    obtain ⟨e, t⟩ := et
    cases t with
    | node d p kk =>
      simp only [encKidsAlt, encCladeAlt, childrenTagged, List.filter_cons, Xml.tag?] at ih ⊢
      have : (some "clade" == some tag) = false := by
        simp; exact fun h' => h h'.symm
      simp [this, ih]

theorem encCladeAlt_eq (N : NumCodec) (sty : String → NameStyle) (junk : List Xml) (padL padR : Txt) (oe : Option EdgeD) (d : NodeD) (p : Nat) (k : Kids) :
    encCladeAlt N sty junk padL padR oe (.node d p k) =
      .elem "clade" [] (junk ++ (nameElemsAlt (sty d.name) d.name ++ (blElemsP N padL padR (blOf oe) ++ confElemsP N padL padR (confOf oe k)) ++
        encKidsAlt N sty junk padL padR k)) := by
  cases oe with
  | none => simp [encCladeAlt, blElemsP, confElemsP, blOf, confOf]
  | some e =>
    simp only [encCladeAlt, blOf, confOf]
    by_cases hl : e.len = NIL <;> by_cases hs : (!k.isEmpty && e.sup != NIL) = true <;>
      simp [hl, hs, blElemsP, confElemsP]

mutual
theorem dec_encAlt_clade (N : NumCodec) (NL : NumLaws N) (sty : String → NameStyle) (junk : List Xml) (hj : junkOK junk = true)
    (padL padR : Txt) (hpl : padOK padL = true) (hpr : padOK padR = true) :
    ∀ (oe : Option EdgeD) (t : T),
    oeOK NL.dom oe t.kids → pxKids NL.dom t.kids = true →
    decClade N (encCladeAlt N sty junk padL padR oe t) = .ok (cladeAlt sty oe t)
  | oe, .node d p k, ho, hk => by
    rw [encCladeAlt_eq]
    simp only [cladeAlt]
    exact decClade_elem_alt N NL junk hj padL padR hpl hpr (sty d.name) d.name (blOf oe) (confOf oe k) (encKidsAlt N sty junk padL padR k)
      (cladesAlt sty k) ho.1 ho.2
      (dec_encAlt_kids N NL sty junk hj padL padR hpl hpr k hk) (fun tag ht => childrenTagged_encKidsAlt N sty junk padL padR tag ht k)
theorem dec_encAlt_kids (N : NumCodec) (NL : NumLaws N) (sty : String → NameStyle) (junk : List Xml) (hj : junkOK junk = true)
    (padL padR : Txt) (hpl : padOK padL = true) (hpr : padOK padR = true) :
    ∀ (k : Kids), pxKids NL.dom k = true →
    decKids N (encKidsAlt N sty junk padL padR k) = .ok (cladesAlt sty k)
  | [], _ => rfl
  | (e, .node d p kk) :: r, h => by
    simp only [pxKids, Bool.and_eq_true] at h
    have hn := h.1
    have h1 := dec_encAlt_clade N NL sty junk hj padL padR hpl hpr (some e) (.node d p kk) (oeOK_of_pxNode NL.dom e d p kk hn)
      (by simp only [pxNode, Bool.and_eq_true] at hn; exact hn.2)
    have h2 := dec_encAlt_kids N NL sty junk hj padL padR hpl hpr r h.2
    have htag : (encCladeAlt N sty junk padL padR (some e) (.node d p kk)).tag? = some "clade" := by
      rw [encCladeAlt_eq]; rfl
    simp only [encKidsAlt, cladesAlt, decKids, htag, beq_self_eq_true, if_true, h1, h2]
end

end Gotree.C13
