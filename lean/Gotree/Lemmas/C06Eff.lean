/-
  C06 — the effect of `removeTip` on the split list (DESIGN §3.1): entries are
  kept up to the removed name, entries with nothing else below are dropped, two
  entries with the same tips below are fused (lengths added).  Everything the
  property says about splits and path lengths follows from this relation.
  Core Lean only.
-/
import Gotree.Lemmas.C06

namespace Gotree.C06
open Gotree Gotree.C14

/-- same members, the removed name `x` apart -/
def eqv (x : String) (A B : List String) : Prop := ∀ a, a ≠ x → (a ∈ A ↔ a ∈ B)

theorem eqv.rfl' (x : String) (A : List String) : eqv x A A := fun _ _ => Iff.rfl
theorem eqv.symm' {x : String} {A B : List String} (h : eqv x A B) : eqv x B A := fun a ha => (h a ha).symm
theorem eqv.trans' {x : String} {A B C : List String} (h : eqv x A B) (g : eqv x B C) : eqv x A C :=
  fun a ha => (h a ha).trans (g a ha)

theorem eqv_of_perm_erase {x : String} {l l' : List String} (h : l'.Perm (l.erase x)) : eqv x l' l :=
  fun _ ha => h.mem_iff.trans (List.mem_erase_of_ne ha)

/-- a length is absent or non-negative -/
def lenOKe (e : EdgeD) : Prop := e.len = NIL ∨ 0 ≤ e.len

theorem sep_eqv {x : String} {s s' : SplitE} (h : eqv x s.below s'.below) (a b : String) (ha : a ≠ x) (hb : b ≠ x) :
    s.sep a b = s'.sep a b := by
  have h1 : s.below.contains a = s'.below.contains a := by
    have := h a ha
    by_cases m : a ∈ s.below <;> simp_all
  have h2 : s.below.contains b = s'.below.contains b := by
    have := h b hb
    by_cases m : b ∈ s.below <;> simp_all
  simp only [SplitE.sep, h1, h2]

theorem rmax0_nil : rmax 0 NIL = 0 := by decide

theorem rmax0_nonneg {l : Rat} (h : 0 ≤ l) : rmax 0 l = l := by
  unfold rmax
  split
  · rename_i h'; exact Rat.le_antisymm h h'
  · rfl

theorem lenOr0_eq_rmax {e : EdgeD} (h : lenOKe e) : e.lenOr0 = rmax 0 e.len := by
  rcases h with h | h
  · simp [EdgeD.lenOr0, h, rmax0_nil]
  · rw [rmax0_nonneg h]
    have : e.len ≠ NIL := by
      intro h'; rw [h'] at h; exact absurd h (by decide)
    simp [EdgeD.lenOr0, this]

theorem rmax0_nonneg' (l : Rat) : 0 ≤ rmax 0 l := by
  unfold rmax
  split
  · exact Rat.le_refl
  · rename_i h; exact Rat.le_of_lt (Rat.not_le.1 h)

theorem fuse_lenOK (e1 e2 : EdgeD) (b : Bool) : lenOKe (fuseEdge e1 e2 b) := by
  unfold lenOKe fuseEdge
  simp only
  split
  · right
    exact Rat.add_nonneg (rmax0_nonneg' e1.len) (rmax0_nonneg' e2.len)
  · left; rfl

theorem fuse_lenOr0 {e1 e2 : EdgeD} (h1 : lenOKe e1) (h2 : lenOKe e2) (b : Bool) :
    (fuseEdge e1 e2 b).lenOr0 = e1.lenOr0 + e2.lenOr0 := by
  rw [lenOr0_eq_rmax h1, lenOr0_eq_rmax h2]
  by_cases hn : (e1.len != NIL || e2.len != NIL) = true
  · have hs : 0 ≤ rmax 0 e1.len + rmax 0 e2.len :=
      Rat.add_nonneg (rmax0_nonneg' e1.len) (rmax0_nonneg' e2.len)
    have : (fuseEdge e1 e2 b).len = rmax 0 e1.len + rmax 0 e2.len := by simp [fuseEdge, hn]
    have hne : (fuseEdge e1 e2 b).len ≠ NIL := by
      rw [this]; intro h'; rw [h'] at hs; exact absurd hs (by decide)
    rw [EdgeD.lenOr0, this]
    have hne' : ¬ (rmax 0 e1.len + rmax 0 e2.len = NIL) := by rw [← this]; exact hne
    simp [hne']
  · have hn' : e1.len = NIL ∧ e2.len = NIL := by simpa using hn
    have : (fuseEdge e1 e2 b).len = NIL := by simp [fuseEdge, hn'.1, hn'.2]
    simp [EdgeD.lenOr0, this, hn'.1, hn'.2, rmax0_nil, Rat.add_zero]

/-- The effect of removing the tip `x` on a split list. -/
structure Eff (x : String) (L L' : List SplitE) : Prop where
  dist : (∀ s ∈ L, lenOKe s.e) → ∀ a b, a ≠ x → b ≠ x →
    distW EdgeD.lenOr0 L' a b = distW EdgeD.lenOr0 L a b
  lens : (∀ s ∈ L, lenOKe s.e) → ∀ s' ∈ L', lenOKe s'.e
  back : ∀ s' ∈ L', ∃ s ∈ L, eqv x s'.below s.below
  fwd : ∀ s ∈ L, (∃ a, a ≠ x ∧ a ∈ s.below) → ∃ s' ∈ L', eqv x s'.below s.below

theorem Eff.refl (x : String) (L : List SplitE) : Eff x L L :=
  ⟨fun _ _ _ _ _ => rfl, fun h => h, fun s hs => ⟨s, hs, eqv.rfl' _ _⟩, fun s hs _ => ⟨s, hs, eqv.rfl' _ _⟩⟩

theorem Eff.trans {x : String} {L L' L'' : List SplitE} (h : Eff x L L') (g : Eff x L' L'') : Eff x L L'' := by
  refine ⟨fun hl a b ha hb => ?_, fun hl => g.lens (h.lens hl), fun s'' hs'' => ?_, fun s hs hne => ?_⟩
  · rw [g.dist (h.lens hl) a b ha hb, h.dist hl a b ha hb]
  · obtain ⟨s', hs', e1⟩ := g.back s'' hs''
    obtain ⟨s, hs, e2⟩ := h.back s' hs'
    exact ⟨s, hs, e1.trans' e2⟩
  · obtain ⟨s', hs', e1⟩ := h.fwd s hs hne
    obtain ⟨a, ha, hm⟩ := hne
    obtain ⟨s'', hs'', e2⟩ := g.fwd s' hs' ⟨a, ha, (e1 a ha).2 hm⟩
    exact ⟨s'', hs'', e2.trans' e1⟩

theorem Eff.append {x : String} {A A' B B' : List SplitE} (h : Eff x A A') (g : Eff x B B') :
    Eff x (A ++ B) (A' ++ B') := by
  refine ⟨fun hl a b ha hb => ?_, fun hl s' hs' => ?_, fun s' hs' => ?_, fun s hs hne => ?_⟩
  · rw [distW_append, distW_append,
      h.dist (fun s hs => hl s (List.mem_append_left _ hs)) a b ha hb,
      g.dist (fun s hs => hl s (List.mem_append_right _ hs)) a b ha hb]
  · rcases List.mem_append.1 hs' with m | m
    · exact h.lens (fun s hs => hl s (List.mem_append_left _ hs)) s' m
    · exact g.lens (fun s hs => hl s (List.mem_append_right _ hs)) s' m
  · rcases List.mem_append.1 hs' with m | m
    · obtain ⟨s, hs, e⟩ := h.back s' m; exact ⟨s, List.mem_append_left _ hs, e⟩
    · obtain ⟨s, hs, e⟩ := g.back s' m; exact ⟨s, List.mem_append_right _ hs, e⟩
  · rcases List.mem_append.1 hs with m | m
    · obtain ⟨s', hs', e⟩ := h.fwd s m hne; exact ⟨s', List.mem_append_left _ hs', e⟩
    · obtain ⟨s', hs', e⟩ := g.fwd s m hne; exact ⟨s', List.mem_append_right _ hs', e⟩

theorem Eff.swap (x : String) (A B : List SplitE) : Eff x (A ++ B) (B ++ A) := by
  refine ⟨fun _ a b _ _ => ?_, fun hl s' hs' => ?_, fun s' hs' => ?_, fun s hs _ => ?_⟩
  · rw [distW_append, distW_append, Rat.add_comm]
  · exact hl s' (List.mem_append.2 (List.mem_append.1 hs').symm)
  · exact ⟨s', List.mem_append.2 (List.mem_append.1 hs').symm, eqv.rfl' _ _⟩
  · exact ⟨s, List.mem_append.2 (List.mem_append.1 hs).symm, eqv.rfl' _ _⟩

theorem Eff.single {x : String} {s s' : SplitE} (h : eqv x s.below s'.below) (he : s'.e = s.e) :
    Eff x [s] [s'] := by
  refine ⟨fun _ a b ha hb => ?_, fun hl t ht => ?_, fun t ht => ?_, fun t ht _ => ?_⟩
  · simp [distW_cons, distW_nil, sep_eqv h a b ha hb, he]
  · simp at ht; subst ht; rw [he]; exact hl s (by simp)
  · simp at ht; subst ht; exact ⟨s, by simp, h.symm'⟩
  · simp at ht; subst ht; exact ⟨s', by simp, h.symm'⟩

theorem Eff.drop {x : String} {A : List SplitE} (h : ∀ s ∈ A, eqv x s.below []) : Eff x A [] := by
  refine ⟨fun _ a b ha hb => ?_, fun _ t ht => (by cases ht), fun t ht => (by cases ht), fun s hs hne => ?_⟩
  · rw [distW_nil, distW_both_out]
    · intro s hs hm; exact absurd ((h s hs a ha).1 hm) (by simp)
    · intro s hs hm; exact absurd ((h s hs b hb).1 hm) (by simp)
  · obtain ⟨a, ha, hm⟩ := hne
    exact absurd ((h s hs a ha).1 hm) (by simp)

theorem Eff.fuse {x : String} {s1 s2 s' : SplitE} (h1 : eqv x s1.below s'.below) (h2 : eqv x s2.below s'.below)
    (b : Bool) (he : s'.e = fuseEdge s1.e s2.e b) : Eff x [s1, s2] [s'] := by
  refine ⟨fun hl a c ha hc => ?_, fun _ t ht => ?_, fun t ht => ?_, fun t ht _ => ?_⟩
  · have l1 := hl s1 (by simp)
    have l2 := hl s2 (by simp)
    simp only [distW_cons, distW_nil, sep_eqv h1 a c ha hc, sep_eqv h2 a c ha hc, he, fuse_lenOr0 l1 l2]
    split <;> simp [Rat.add_zero]
  · simp at ht; subst ht; rw [he]; exact fuse_lenOK _ _ _
  · simp at ht; subst ht; exact ⟨s1, by simp, h1.symm'⟩
  · simp at ht
    rcases ht with rfl | rfl
    · exact ⟨s', by simp, h1.symm'⟩
    · exact ⟨s', by simp, h2.symm'⟩

/-! ## `rmNode` / `rmKids` have this effect -/

def OutEff (x : String) (t : T) : Out → Prop
  | .notFound => True
  | .repl t' => Eff x t.splitsBelow t'.splitsBelow
  | .gone => True
  | .splice e c => Eff x t.splitsBelow (⟨c.leaves, e, c.isLeaf⟩ :: c.splitsBelow)

def KOutEff (x : String) (k : Kids) : KOut → Prop
  | .notFound => True
  | .set ks => Eff x (splitsL k) (splitsL ks)
  | .del _ ks => Eff x (splitsL k) (splitsL ks)
  | .spl _ ks ei e c =>
    ∀ b, Eff x (splitsL k) (splitsL ks ++ (⟨c.leaves, fuseEdge ei e b, c.isLeaf⟩ :: c.splitsBelow))

theorem splitsL_cons (e : EdgeD) (t : T) (r : Kids) :
    splitsL ((e, t) :: r) = [⟨t.leaves, e, t.isLeaf⟩] ++ (t.splitsBelow ++ splitsL r) := rfl

theorem splitsL_single (e : EdgeD) (c : T) : splitsL [(e, c)] = ⟨c.leaves, e, c.isLeaf⟩ :: c.splitsBelow := by
  simp [splitsL]

theorem finishNode_eff (x : String) (d : NodeD) (p : Nat) (k : Kids) (ko : KOut)
    (h : KOutEff x k ko) : OutEff x (.node d p k) (finishNode d p ko) := by
  cases ko with
  | notFound => trivial
  | set ks => exact h
  | spl i ks ei e c =>
    show Eff x (splitsL k) (splitsL (ks ++ [(fuseEdge ei e (!c.isLeaf), c)]))
    rw [splitsL_append, splitsL_single]; exact h _
  | del i ks =>
    match ks, h with
    | [], _ => trivial
    | [(e, c)], h =>
      show Eff x (splitsL k) (⟨(reattach c).leaves, e, (reattach c).isLeaf⟩ :: (reattach c).splitsBelow)
      have h' : Eff x (splitsL k) (splitsL [(e, c)]) := h
      simpa [splitsL_single] using h'
    | a :: b :: r, h => exact h

theorem drop_of_leaves_single {x : String} {t : T} (h : t.leaves = [x]) :
    ∀ s ∈ t.splitsBelow, eqv x s.below [] := by
  intro s hs a ha
  constructor
  · intro hm
    have := below_sub t s hs a hm
    rw [h] at this
    simp at this; exact absurd this ha
  · intro hm; cases hm

mutual
theorem rmNode_eff (x : String) : ∀ t : T, OutEff x t (rmNode x t)
  | .node d p [] => by
    simp only [rmNode]; split <;> trivial
  | .node d p (k :: ks) => by
    simp only [rmNode]
    exact finishNode_eff x d p _ _ (rmKids_eff x (k :: ks))
theorem rmKids_eff (x : String) : ∀ k : Kids, KOutEff x k (rmKids x k)
  | [] => by simp [rmKids, KOutEff]
  | (e, t) :: r => by
    have h1 := rmNode_eff x t
    have h2 := rmKids_eff x r
    have l1 := rmNode_leaves x t
    simp only [rmKids]
    cases hn : rmNode x t with
    | repl t' =>
      rw [hn] at h1 l1
      show Eff x (splitsL ((e, t) :: r)) (splitsL ((e, t') :: r))
      rw [splitsL_cons, splitsL_cons]
      exact Eff.append (Eff.single (eqv_of_perm_erase l1.2.1).symm' rfl) (Eff.append h1 (Eff.refl _ _))
    | gone =>
      rw [hn] at l1
      simp only [OutLeaves] at l1
      show Eff x (splitsL ((e, t) :: r)) (splitsL r)
      rw [splitsL_cons]
      have hd : Eff x [(⟨t.leaves, e, t.isLeaf⟩ : SplitE)] [] := Eff.drop (by
        intro s hs; simp at hs; subst hs
        intro a ha; simp [l1, ha])
      have := Eff.append hd (Eff.append (Eff.drop (drop_of_leaves_single l1)) (Eff.refl x (splitsL r)))
      simpa using this
    | splice e' c =>
      rw [hn] at h1 l1
      intro b
      show Eff x (splitsL ((e, t) :: r)) (splitsL r ++ (⟨c.leaves, fuseEdge e e' b, c.isLeaf⟩ :: c.splitsBelow))
      rw [splitsL_cons]
      -- [hd] ++ (T ++ R) → [hd] ++ ((hc :: C) ++ R)
      have s1 : Eff x ([(⟨t.leaves, e, t.isLeaf⟩ : SplitE)] ++ (t.splitsBelow ++ splitsL r))
          ([(⟨t.leaves, e, t.isLeaf⟩ : SplitE)] ++ ((⟨c.leaves, e', c.isLeaf⟩ :: c.splitsBelow) ++ splitsL r)) :=
        Eff.append (Eff.refl _ _) (Eff.append h1 (Eff.refl _ _))
      -- fuse hd and hc
      have hf : Eff x [(⟨t.leaves, e, t.isLeaf⟩ : SplitE), ⟨c.leaves, e', c.isLeaf⟩]
          [(⟨c.leaves, fuseEdge e e' b, c.isLeaf⟩ : SplitE)] :=
        Eff.fuse (s' := ⟨c.leaves, fuseEdge e e' b, c.isLeaf⟩) (eqv_of_perm_erase l1.2).symm' (eqv.rfl' _ _) b rfl
      have s2 : Eff x ([(⟨t.leaves, e, t.isLeaf⟩ : SplitE), ⟨c.leaves, e', c.isLeaf⟩] ++ (c.splitsBelow ++ splitsL r))
          ([(⟨c.leaves, fuseEdge e e' b, c.isLeaf⟩ : SplitE)] ++ (c.splitsBelow ++ splitsL r)) :=
        Eff.append hf (Eff.refl _ _)
      have s3 := Eff.swap x ((⟨c.leaves, fuseEdge e e' b, c.isLeaf⟩ : SplitE) :: c.splitsBelow) (splitsL r)
      have s12 := s1.trans (by simpa using s2)
      exact s12.trans (by simpa using s3)
    | notFound =>
      cases hk : rmKids x r with
      | notFound => trivial
      | set ks' =>
        rw [hk] at h2
        show Eff x (splitsL ((e, t) :: r)) (splitsL ((e, t) :: ks'))
        rw [splitsL_cons, splitsL_cons]
        exact Eff.append (Eff.refl _ _) (Eff.append (Eff.refl _ _) h2)
      | del i ks' =>
        rw [hk] at h2
        show Eff x (splitsL ((e, t) :: r)) (splitsL ((e, t) :: ks'))
        rw [splitsL_cons, splitsL_cons]
        exact Eff.append (Eff.refl _ _) (Eff.append (Eff.refl _ _) h2)
      | spl i ks' ei e' c =>
        rw [hk] at h2
        intro b
        show Eff x (splitsL ((e, t) :: r))
          (splitsL ((e, t) :: ks') ++ (⟨c.leaves, fuseEdge ei e' b, c.isLeaf⟩ :: c.splitsBelow))
        rw [splitsL_cons, splitsL_cons]
        have := Eff.append (Eff.refl x [(⟨t.leaves, e, t.isLeaf⟩ : SplitE)])
          (Eff.append (Eff.refl x t.splitsBelow) (h2 b))
        simpa [List.append_assoc] using this
end

/-! ## the root level -/

theorem sameSplit.rfl' (all A : List String) : sameSplit all A A := Or.inl fun _ _ => Iff.rfl

theorem sameSplit.mono {all all' A B : List String} (hsub : ∀ a ∈ all', a ∈ all) (h : sameSplit all A B) :
    sameSplit all' A B := by
  rcases h with h | h
  · exact Or.inl fun a ha => h a (hsub a ha)
  · exact Or.inr fun a ha => h a (hsub a ha)

theorem sameSplit.trans' {all A B C : List String} (h : sameSplit all A B) (g : sameSplit all B C) :
    sameSplit all A C := by
  rcases h with h | h <;> rcases g with g | g
  · exact Or.inl fun a ha => (h a ha).trans (g a ha)
  · exact Or.inr fun a ha => (h a ha).trans (g a ha)
  · exact Or.inr fun a ha => (h a ha).trans (not_congr (g a ha))
  · refine Or.inl fun a ha => (h a ha).trans ?_
    rw [g a ha]; exact Decidable.not_not

theorem sameSplit.symm' {all A B : List String} (h : sameSplit all A B) : sameSplit all B A := by
  rcases h with h | h
  · exact Or.inl fun a ha => (h a ha).symm
  · refine Or.inr fun a ha => ?_
    have := h a ha
    constructor
    · intro hb ha'; exact (this.1 ha') hb
    · intro hna; exact Decidable.by_contra fun hb => hna (this.2 hb)

/-- effect on the split list seen from the remaining taxa `all` -/
structure RootEff (all : List String) (L L' : List SplitE) : Prop where
  dist : (∀ s ∈ L, lenOKe s.e) → ∀ a b, a ∈ all → b ∈ all →
    distW EdgeD.lenOr0 L' a b = distW EdgeD.lenOr0 L a b
  lens : (∀ s ∈ L, lenOKe s.e) → ∀ s' ∈ L', lenOKe s'.e
  back : ∀ s' ∈ L', ∃ s ∈ L, sameSplit all s'.below s.below
  fwd : ∀ s ∈ L, (∃ a ∈ all, a ∈ s.below) → (∃ b ∈ all, b ∉ s.below) →
    ∃ s' ∈ L', sameSplit all s'.below s.below

theorem sameSplit_of_eqv {x : String} {all A B : List String} (hx : x ∉ all) (h : eqv x A B) :
    sameSplit all A B :=
  Or.inl fun a ha => h a (fun e => hx (e ▸ ha))

theorem RootEff.of_eff {x : String} {all : List String} {L L' : List SplitE} (hx : x ∉ all) (h : Eff x L L') :
    RootEff all L L' := by
  have ne : ∀ a ∈ all, a ≠ x := fun a ha e => hx (e ▸ ha)
  refine ⟨fun hl a b ha hb => h.dist hl a b (ne a ha) (ne b hb), h.lens, fun s' hs' => ?_, fun s hs h1 _ => ?_⟩
  · obtain ⟨s, hs, e⟩ := h.back s' hs'; exact ⟨s, hs, sameSplit_of_eqv hx e⟩
  · obtain ⟨a, ha, hm⟩ := h1
    obtain ⟨s', hs', e⟩ := h.fwd s hs ⟨a, ne a ha, hm⟩
    exact ⟨s', hs', sameSplit_of_eqv hx e⟩

theorem RootEff.trans {all all' : List String} {L L' L'' : List SplitE} (hsub : ∀ a ∈ all', a ∈ all)
    (h : RootEff all L L') (g : RootEff all' L' L'') : RootEff all' L L'' := by
  refine ⟨fun hl a b ha hb => ?_, fun hl => g.lens (h.lens hl), fun s'' hs'' => ?_, fun s hs h1 h2 => ?_⟩
  · rw [g.dist (h.lens hl) a b ha hb, h.dist hl a b (hsub a ha) (hsub b hb)]
  · obtain ⟨s', hs', e1⟩ := g.back s'' hs''
    obtain ⟨s, hs, e2⟩ := h.back s' hs'
    exact ⟨s, hs, e1.trans' (e2.mono hsub)⟩
  · obtain ⟨a, ha, hma⟩ := h1
    obtain ⟨b, hb, hmb⟩ := h2
    obtain ⟨s', hs', e1⟩ := h.fwd s hs ⟨a, hsub a ha, hma⟩ ⟨b, hsub b hb, hmb⟩
    have e1' := e1.mono hsub
    have : (∃ a ∈ all', a ∈ s'.below) ∧ (∃ b ∈ all', b ∉ s'.below) := by
      rcases e1' with e | e
      · exact ⟨⟨a, ha, (e a ha).2 hma⟩, ⟨b, hb, fun h' => hmb ((e b hb).1 h')⟩⟩
      · exact ⟨⟨b, hb, (e b hb).2 hmb⟩, ⟨a, ha, fun h' => ((e a ha).1 h') hma⟩⟩
    obtain ⟨s'', hs'', e2⟩ := g.fwd s' hs' this.1 this.2
    exact ⟨s'', hs'', e2.trans' e1'⟩

/-- case 1b: the root is replaced by its only child; the child's branch has every
    remaining taxon below it and disappears -/
theorem RootEff.dropTop {all : List String} (hc : SplitE) (C : List SplitE) (h : ∀ a ∈ all, a ∈ hc.below) :
    RootEff all (hc :: C) C := by
  refine ⟨fun _ a b ha hb => ?_, fun hl s' hs' => hl s' (List.mem_cons_of_mem _ hs'),
    fun s' hs' => ⟨s', List.mem_cons_of_mem _ hs', sameSplit.rfl' _ _⟩, fun s hs _ h2 => ?_⟩
  · rw [distW_cons]
    have : hc.sep a b = false := by simp [SplitE.sep, h a ha, h b hb]
    simp [this, Rat.zero_add]
  · obtain ⟨b, hb, hmb⟩ := h2
    rcases List.mem_cons.1 hs with rfl | hs
    · exact absurd (h b hb) hmb
    · exact ⟨s, hs, sameSplit.rfl' _ _⟩

theorem sep_compl {all : List String} {s s' : SplitE} (h : ∀ a ∈ all, (a ∈ s.below ↔ a ∉ s'.below))
    (a b : String) (ha : a ∈ all) (hb : b ∈ all) : s.sep a b = s'.sep a b := by
  have h1 := h a ha
  have h2 := h b hb
  simp only [SplitE.sep, List.contains_eq_mem]
  by_cases m1 : a ∈ s'.below <;> by_cases m2 : b ∈ s'.below <;> simp_all

/-- case 2, 3): the two branches of the root are fused, the first child is the new root -/
theorem RootEff.fuseRoot {all : List String} (h0 h1 hf : SplitE) (K0 K1 : List SplitE) (b : Bool)
    (hc : ∀ a ∈ all, (a ∈ h0.below ↔ a ∉ h1.below)) (hs : sameSplit all hf.below h1.below)
    (he : hf.e = fuseEdge h0.e h1.e b ∨ hf.e = fuseEdge h1.e h0.e b) :
    RootEff all (h0 :: (K0 ++ (h1 :: K1))) (K0 ++ (hf :: K1)) := by
  have hsep : ∀ a c, a ∈ all → c ∈ all → hf.sep a c = h1.sep a c := by
    intro a c ha hc'
    rcases hs with e | e
    · have e1 := e a ha; have e2 := e c hc'
      simp only [SplitE.sep, List.contains_eq_mem]
      by_cases m1 : a ∈ h1.below <;> by_cases m2 : c ∈ h1.below <;> simp_all
    · exact sep_compl e a c ha hc'
  refine ⟨fun hl a c ha hc' => ?_, fun hl s' hs' => ?_, fun s' hs' => ?_, fun s hs1 _ _ => ?_⟩
  · have l0 := hl h0 (by simp)
    have l1 := hl h1 (by simp)
    have hw : hf.e.lenOr0 = h0.e.lenOr0 + h1.e.lenOr0 := by
      rcases he with he | he
      · rw [he, fuse_lenOr0 l0 l1]
      · rw [he, fuse_lenOr0 l1 l0, Rat.add_comm]
    simp only [distW_cons, distW_append, hsep a c ha hc', sep_compl hc a c ha hc', hw]
    split <;> grind
  · rcases List.mem_append.1 hs' with m | m
    · exact hl s' (by simp [m])
    · rcases List.mem_cons.1 m with rfl | m
      · rcases he with he | he <;> rw [he] <;> exact fuse_lenOK _ _ _
      · exact hl s' (by simp [m])
  · rcases List.mem_append.1 hs' with m | m
    · exact ⟨s', by simp [m], sameSplit.rfl' _ _⟩
    · rcases List.mem_cons.1 m with rfl | m
      · exact ⟨h1, by simp, hs⟩
      · exact ⟨s', by simp [m], sameSplit.rfl' _ _⟩
  · rcases List.mem_cons.1 hs1 with rfl | m
    · exact ⟨hf, by simp, hs.trans' (Or.inr fun a ha => by
        have := hc a ha
        constructor
        · intro h' h''; exact (this.1 h'') h'
        · intro h'; exact Decidable.by_contra fun h'' => h' (this.2 h''))⟩
    · rcases List.mem_append.1 m with m | m
      · exact ⟨s, by simp [m], sameSplit.rfl' _ _⟩
      · rcases List.mem_cons.1 m with rfl | m
        · exact ⟨hf, by simp, hs⟩
        · exact ⟨s, by simp [m], sameSplit.rfl' _ _⟩

theorem RootEff.swap (all : List String) (A B : List SplitE) : RootEff all (A ++ B) (B ++ A) := by
  refine ⟨fun _ a b _ _ => ?_, fun hl s' hs' => ?_, fun s' hs' => ?_, fun s hs _ _ => ?_⟩
  · rw [distW_append, distW_append, Rat.add_comm]
  · exact hl s' (List.mem_append.2 (List.mem_append.1 hs').symm)
  · exact ⟨s', List.mem_append.2 (List.mem_append.1 hs').symm, sameSplit.rfl' _ _⟩
  · exact ⟨s, List.mem_append.2 (List.mem_append.1 hs).symm, sameSplit.rfl' _ _⟩

end Gotree.C06
