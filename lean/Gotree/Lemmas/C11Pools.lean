/-
  C11 — the pools the theorems are instantiated with: the facts extracted from the source
  (Gotree/Gen/C11Goroutines.lean, regenerated on every run), each worker with the goroutine that
  feeds it, and the shapes the pinned tree had before the repairs.
-/
import Gotree.Lemmas.C11
import Gotree.Gen.C11Goroutines

namespace Gotree.C11
open Gotree.Gen.C11

/-- the pools as extracted, each with the goroutine that feeds it: the commands read the trees with
    `ReadMultiTrees`; TBE feeds its workers the reference branches -/
def comparePool : PoolFacts := Compare_worker0.factsWithProducer ReadMultiTrees_go0

def compareWeightedPool : PoolFacts := CompareWeighted_worker0.factsWithProducer ReadMultiTrees_go0

def fbpPool : PoolFacts := FBP_worker0.factsWithProducer ReadMultiTrees_go0

def tbePool : PoolFacts := TBE_worker0.factsWithProducer TBE_go0

/-- a pool with one early exit that reaches `Done`: its shape is the `shapeStop` the driver runs for FBP -/
def stopFacts : PoolFacts := ⟨[⟨.rangeEnd, 0, true⟩, ⟨.ret, 0, true⟩], [], []⟩

/-- FBP before 1f22b20 (F16): `wg.Done()` after the loop, `return` on an erroneous tree inside it -/
def fbpPinned : PoolFacts := ⟨[⟨.rangeEnd, 83, true⟩, ⟨.ret, 54, false⟩, ⟨.ret, 58, false⟩, ⟨.ret, 62, false⟩], [], []⟩

/-- CompareWeighted before 800c0a0 (F18): `compEdges` declared outside the goroutines -/
def compareWeightedPinned : PoolFacts := ⟨[⟨.rangeEnd, 1003, true⟩], [⟨"compEdges", "assign", .none, 933⟩], []⟩

/-- ReadMultiTrees with a `return` before its `close(compTrees)` (own breakage B11): nothing ever closes
    the input channel, the workers wait forever -/
def readerPinned : PoolFacts := ⟨[⟨.rangeEnd, 875, true⟩], [], [124]⟩

end Gotree.C11
