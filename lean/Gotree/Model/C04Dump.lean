/-
  C04 — model of `Edge.DumpBitSet` (tree/edge.go:188) over `bitset.DumpAsBits` (external module
  github.com/fredericlemoine/bitset, read and copied here; only the pinned variant uses it since 405e36d) and of the command `gotree stats splits`
  (cmd/splits.go) that prints the split index: the only place where a user SEES the bitsets.

  Strings are lists of characters here (`String.ofList` at the very end) so that the theorems can
  speak of `drop` / `reverse`.  Core Lean only.
-/
import Gotree.Model.C04

namespace Gotree.C04
open Gotree

def bitChar (b : Bool) : Char := if b then '1' else '0'

/-- one `uint64` word `w` of the bitset as `fmt.Fprintf(buffer, "%064b.", b.set[w])`:
    bit 63 of the word first, bit 0 last, then a dot -/
def wordChars (b : List Bool) (w : Nat) : List Char :=
  ((List.range 64).reverse.map fun i => bitChar (b.getD (64 * w + i) false)) ++ ['.']

/-- `BitSet.DumpAsBits` for a bitset of width `b.length` (`wordsNeeded = (length + 63) / 64` words):
    the words from the highest to the lowest -/
def dumpAsBitsL (b : List Bool) : List Char :=
  (List.range ((b.length + 63) / 64)).reverse.flatMap (wordChars b)

/-- `Edge.DumpBitSet` since fix 405e36d: `"nil"` without a bitset; otherwise
    `for i := Len; i > 0; i-- { if Test(i-1) {'1'} else {'0'} }` and a final dot — one character per position,
    the last position first. -/
def dumpBitSetL : Option (List Bool) → List Char
  | none => ['n', 'i', 'l']
  | some b => ((List.range b.length).reverse.map fun i => bitChar (b.getD i false)) ++ ['.']

def dumpBitSet (b : Option (List Bool)) : String := String.ofList (dumpBitSetL b)

/-- The pinned `Edge.DumpBitSet` (before 405e36d, finding F95): `s[len(s)-int(e.bitset.Len())-1 : len(s)]` of
    `s = DumpAsBits()`, i.e. the LAST `Len+1` characters of a dump that holds one dot per 64-bit word.
    `none` = slice bounds out of range (a panic; only for width 0, which `ClearBitSets` never creates). -/
def dumpBitSetPinnedL : Option (List Bool) → Option (List Char)
  | none => some ['n', 'i', 'l']
  | some b =>
    let s := dumpAsBitsL b
    if s.length < b.length + 1 then none
    else some (s.drop (s.length - b.length - 1))

/-- The body of `gotree stats splits` for the tree number `id` of the input: `ReinitIndexes` (its error is the
    command's error), the line `Tree<TAB>` + the sorted tip names from the LAST to the first joined by `|`, then one
    line `id<TAB>DumpBitSet` per branch in `Edges()` order. -/
def statsSplits (id : Nat) (t : T) : Res String :=
  match reinitLit3 fnv1a t with
  | .err m => .err m
  | .ok (sorted, idx) =>
    let header := "Tree\t" ++ "|".intercalate sorted.reverse ++ "\n"
    .ok (header ++ String.join (idx.map fun e => toString id ++ "\t" ++ dumpBitSet (some e.bits) ++ "\n"))

end Gotree.C04
