package c03

// extract.go — table (c) of DESIGN §4.1 for C03: a go/parser pass (no type information needed) over
// tree/*.go and tree/rearrange.go that writes lean/Gotree/Gen/C03Source.lean.
//
// For every function of the reviewed list (the five enumerations with their recursions, the
// degree predicates, the pairwise pointer helpers and the anchored edits) it records three facts
// that the hand-written Lean models silently assume and that survive harmless rewrites:
//
//   calls    the set of functions of package tree it calls, accessors left out (an accessor is a
//            function whose body is one `return` of an expression without a call of the package:
//            Left, Right, Neigh, Edges, Name, Length …); e.g. internalEdgesRecur calls only itself
//            (defect F8 was a call of edgesRecur there);
//   writes   the set of fields of Node / Edge / Tree it assigns directly (x.f = …, x.f[i] = …,
//            x.f[i], x.f[j] = …, x.f++): the enumerations and the Newick writer write none;
//   degTests the comparisons of a number of neighbours (len(x.neigh), len(x.br), len(x.Neigh()),
//            len(x.Edges()), x.Nneigh()) with an integer literal, normalised to == != >= <=
//            (`> 1` is `>= 2`, `< 2` is `<= 1`, literal on the right): Tip is `== 1`, Rooted `== 2` …
//
// Lean (Proofs/C03.lean, source_facts_check) decides that the table equals the reviewed one.

import (
	"fmt"
	"go/ast"
	"go/parser"
	"go/token"
	"os"
	"path/filepath"
	"sort"
	"strconv"
	"strings"
)

// the reviewed functions, "Receiver.name"
var xReviewed = []string{
	"Tree.Edges", "Tree.edgesRecur", "Tree.InternalEdges", "Tree.internalEdgesRecur", "Tree.TipEdges", "Tree.tipEdgesRecur",
	"Tree.Nodes", "Tree.nodesRecur", "Tree.Tips", "Tree.tipsRecur",
	"Node.Tip", "Node.Nneigh", "Tree.Rooted", "Node.Newick", "Tree.Newick",
	"Node.addChild", "Node.delNeighbor", "Tree.ConnectNodes", "Edge.setLeft", "Edge.setRight", "Edge.Inverse",
	"Tree.delNode", "Tree.unconnectNode", "Tree.SetRoot",
	"Tree.Reroot", "Tree.reroot_nocheck", "Tree.ReorderEdges", "Tree.RerootFirst", "Tree.UnRoot",
	"Tree.RemoveTips", "Tree.removeTip", "Tree.RemoveEdges", "Tree.Resolve", "Tree.resolveRecur",
	"Tree.RemoveSingleNodes", "Tree.removeSingleNodesRecur", "Tree.GraftTipOnEdge", "Tree.GraftTreeOnTip",
	"Tree.InsertIdenticalTip", "Tree.Merge", "Tree.Clone", "Tree.copyTreeRecur", "Tree.SubTree",
	"Tree.SortNeighborsByTips", "Tree.sortNeighbors", "Tree.RotateInternalNodes", "Node.RotateNeighbors",
	"Tree.AddBipartition", "Tree.CollapseClade", "nni.Apply", "nni.Undo",
}

func xRecv(fd *ast.FuncDecl) string {
	if fd.Recv == nil || len(fd.Recv.List) == 0 {
		return ""
	}
	t := fd.Recv.List[0].Type
	if s, ok := t.(*ast.StarExpr); ok {
		t = s.X
	}
	if id, ok := t.(*ast.Ident); ok {
		return id.Name
	}
	return ""
}

func xCallee(c *ast.CallExpr) string {
	switch f := c.Fun.(type) {
	case *ast.Ident:
		return f.Name
	case *ast.SelectorExpr:
		return f.Sel.Name
	}
	return ""
}

// GenTables writes <out>/C03Source.lean from <repo>/tree.
func GenTables(repo, out string) error {
	dir := filepath.Join(repo, "tree")
	fset := token.NewFileSet()
	ents, err := os.ReadDir(dir)
	if err != nil {
		return err
	}
	decls := map[string]*ast.FuncDecl{}    // "Recv.name" (or "name")
	byName := map[string][]*ast.FuncDecl{} // bare name -> declarations
	fields := map[string]bool{}            // field names of Node, Edge, Tree
	for _, e := range ents {
		if !strings.HasSuffix(e.Name(), ".go") || strings.HasSuffix(e.Name(), "_test.go") {
			continue
		}
		f, err := parser.ParseFile(fset, filepath.Join(dir, e.Name()), nil, 0)
		if err != nil {
			return fmt.Errorf("parse %s: %v", e.Name(), err)
		}
		for _, d := range f.Decls {
			switch v := d.(type) {
			case *ast.FuncDecl:
				if v.Body == nil {
					continue
				}
				k := v.Name.Name
				if r := xRecv(v); r != "" {
					k = r + "." + k
				}
				decls[k] = v
				byName[v.Name.Name] = append(byName[v.Name.Name], v)
			case *ast.GenDecl:
				for _, sp := range v.Specs {
					ts, ok := sp.(*ast.TypeSpec)
					if !ok || (ts.Name.Name != "Node" && ts.Name.Name != "Edge" && ts.Name.Name != "Tree") {
						continue
					}
					if st, ok := ts.Type.(*ast.StructType); ok {
						for _, fl := range st.Fields.List {
							for _, nm := range fl.Names {
								fields[nm.Name] = true
							}
						}
					}
				}
			}
		}
	}
	// accessor: one `return` statement whose expressions call nothing of the package
	accessor := func(fd *ast.FuncDecl) bool {
		if len(fd.Body.List) != 1 {
			return false
		}
		rs, ok := fd.Body.List[0].(*ast.ReturnStmt)
		if !ok {
			return false
		}
		pure := true
		for _, r := range rs.Results {
			ast.Inspect(r, func(n ast.Node) bool {
				if c, ok := n.(*ast.CallExpr); ok {
					if _, in := byName[xCallee(c)]; in {
						pure = false
					}
				}
				return true
			})
		}
		return pure
	}
	// (no type information: a NAME is left out as soon as one function of that name is an accessor —
	// Node.Edges / Tree.Edges, Node.Name / Edge.Name)
	isAccessor := func(name string) bool {
		for _, fd := range byName[name] {
			if accessor(fd) {
				return true
			}
		}
		return false
	}
	// the field a written l-value is rooted at: x.f, x.f[i], x.f[i:j]
	var lfield func(e ast.Expr) string
	lfield = func(e ast.Expr) string {
		switch v := e.(type) {
		case *ast.SelectorExpr:
			if fields[v.Sel.Name] {
				return v.Sel.Name
			}
		case *ast.IndexExpr:
			// x.Neigh()[i] = … / x.Edges()[i] = … write through the slice the accessor hands out
			if c, ok := v.X.(*ast.CallExpr); ok && len(c.Args) == 0 {
				switch xCallee(c) {
				case "Neigh":
					return "neigh"
				case "Edges":
					return "br"
				}
			}
			return lfield(v.X)
		case *ast.SliceExpr:
			return lfield(v.X)
		case *ast.ParenExpr:
			return lfield(v.X)
		case *ast.StarExpr:
			return lfield(v.X)
		}
		return ""
	}
	isDegree := func(e ast.Expr) bool {
		c, ok := e.(*ast.CallExpr)
		if !ok {
			return false
		}
		if xCallee(c) == "Nneigh" && len(c.Args) == 0 {
			return true
		}
		if id, ok := c.Fun.(*ast.Ident); ok && id.Name == "len" && len(c.Args) == 1 {
			switch a := c.Args[0].(type) {
			case *ast.SelectorExpr:
				return a.Sel.Name == "neigh" || a.Sel.Name == "br"
			case *ast.CallExpr:
				n := xCallee(a)
				return (n == "Neigh" || n == "Edges") && len(a.Args) == 0
			}
		}
		return false
	}
	intLit := func(e ast.Expr) (int, bool) {
		if b, ok := e.(*ast.BasicLit); ok && b.Kind == token.INT {
			v, err := strconv.Atoi(b.Value)
			return v, err == nil
		}
		return 0, false
	}
	var sb strings.Builder
	sb.WriteString("-- GENERATED by harness/c03/extract.go (vh gen-tables) from tree/*.go of the working tree; do not edit\n")
	sb.WriteString("import Gotree.Model.C03Table\n\nnamespace Gotree.Gen.C03\nopen Gotree.C03\n\ndef facts : List FnFacts := [\n")
	for i, k := range xReviewed {
		fd := decls[k]
		calls, writes, tests := map[string]bool{}, map[string]bool{}, map[string]bool{}
		missing := fd == nil
		if fd != nil {
			ast.Inspect(fd.Body, func(n ast.Node) bool {
				switch v := n.(type) {
				case *ast.CallExpr:
					nm := xCallee(v)
					if _, in := byName[nm]; in && !isAccessor(nm) {
						calls[nm] = true
					}
				case *ast.AssignStmt:
					for _, l := range v.Lhs {
						if f := lfield(l); f != "" {
							writes[f] = true
						}
					}
				case *ast.IncDecStmt:
					if f := lfield(v.X); f != "" {
						writes[f] = true
					}
				case *ast.BinaryExpr:
					op := v.Op
					var k int
					var ok bool
					if isDegree(v.X) {
						k, ok = intLit(v.Y)
					} else if isDegree(v.Y) {
						k, ok = intLit(v.X)
						// literal on the left: mirror the operator
						switch op {
						case token.LSS:
							op = token.GTR
						case token.GTR:
							op = token.LSS
						case token.LEQ:
							op = token.GEQ
						case token.GEQ:
							op = token.LEQ
						}
					}
					if ok {
						switch op {
						case token.GTR:
							op, k = token.GEQ, k+1
						case token.LSS:
							op, k = token.LEQ, k-1
						}
						switch op {
						case token.EQL, token.NEQ, token.GEQ, token.LEQ:
							tests[fmt.Sprintf("(\"%s\", %d)", op.String(), k)] = true
						}
					}
				}
				return true
			})
		}
		keys := func(m map[string]bool, quote bool) string {
			var ks []string
			for x := range m {
				if quote {
					x = strconv.Quote(x)
				}
				ks = append(ks, x)
			}
			sort.Strings(ks)
			return "[" + strings.Join(ks, ", ") + "]"
		}
		sep := ","
		if i == len(xReviewed)-1 {
			sep = ""
		}
		fmt.Fprintf(&sb, "  ⟨%s, %v, %s, %s, %s⟩%s\n", strconv.Quote(k), !missing, keys(calls, true), keys(writes, true), keys(tests, false), sep)
	}
	sb.WriteString("]\n\nend Gotree.Gen.C03\n")
	return os.WriteFile(filepath.Join(out, "C03Source.lean"), []byte(sb.String()), 0o644)
}
