/-
  C09 — the single-insertion lemma (DESIGN Appendix F, `consensus_splits` fallback):
  what `insertSplit` (the model of LeastCommonAncestorUnrooted + AddBipartition)
  does to the split list of a tree.
-/
import Gotree.Model.C09

namespace Gotree.C09
open Gotree

/-! ## split lists as concatenations of blocks -/

/-- the entries contributed by one child: its own branch, then the branches below -/
def blk (et : EdgeD × T) : List SplitE := ⟨et.2.leaves, et.1, et.2.isLeaf⟩ :: et.2.splitsBelow

theorem splitsL_cons (et : EdgeD × T) (r : Kids) : splitsL (et :: r) = blk et ++ splitsL r := by
  obtain ⟨e, t⟩ := et
  simp [splitsL, blk]

theorem splitsL_append (a b : Kids) : splitsL (a ++ b) = splitsL a ++ splitsL b := by
  induction a with
  | nil => simp [splitsL]
  | cons et a ih => rw [List.cons_append, splitsL_cons, splitsL_cons, ih, List.append_assoc]

theorem leavesL_cons (et : EdgeD × T) (r : Kids) : leavesL (et :: r) = et.2.leaves ++ leavesL r := by
  obtain ⟨e, t⟩ := et
  simp [leavesL]

theorem leavesL_append (a b : Kids) : leavesL (a ++ b) = leavesL a ++ leavesL b := by
  induction a with
  | nil => simp [leavesL]
  | cons et a ih => rw [List.cons_append, leavesL_cons, leavesL_cons, ih, List.append_assoc]

theorem mem_splitsL {s : SplitE} {k : Kids} : s ∈ splitsL k ↔ ∃ et ∈ k, s ∈ blk et := by
  induction k with
  | nil => simp [splitsL]
  | cons et k ih =>
    rw [splitsL_cons, List.mem_append, ih]
    constructor
    · rintro (h | ⟨x, hx, hs⟩)
      · exact ⟨et, by simp, h⟩
      · exact ⟨x, by simp [hx], hs⟩
    · rintro ⟨x, hx, hs⟩
      rcases List.mem_cons.1 hx with rfl | hx
      · exact Or.inl hs
      · exact Or.inr ⟨x, hx, hs⟩

theorem splitsBelow_node (d : NodeD) (p : Nat) (k : Kids) : (T.node d p k).splitsBelow = splitsL k := rfl

theorem leaves_node_ne (d : NodeD) (p : Nat) (k : Kids) (h : k ≠ []) : (T.node d p k).leaves = leavesL k := by
  cases k with
  | nil => exact absurd rfl h
  | cons a b => rfl

theorem isLeaf_node (d : NodeD) (p : Nat) (k : Kids) : (T.node d p k).isLeaf = k.isEmpty := rfl

theorem blk_node (e : EdgeD) (d : NodeD) (p : Nat) (k : Kids) (hk : k ≠ []) :
    blk (e, .node d p k) = ⟨leavesL k, e, false⟩ :: splitsL k := by
  unfold blk
  simp only [leaves_node_ne _ _ _ hk, isLeaf_node, splitsBelow_node]
  cases k with
  | nil => exact absurd rfl hk
  | cons a b => rfl

/-! ## the relation "same split, same data" -/

/-- same tips below (as a set with multiplicity), same length, support and kind -/
def Same (s s' : SplitE) : Prop :=
  s.below.Perm s'.below ∧ s.e.len = s'.e.len ∧ s.e.sup = s'.e.sup ∧ s.tip = s'.tip

theorem Same.rfl' (s : SplitE) : Same s s := ⟨List.Perm.refl _, rfl, rfl, rfl⟩

theorem Same.symm {s s' : SplitE} (h : Same s s') : Same s' s :=
  ⟨h.1.symm, h.2.1.symm, h.2.2.1.symm, h.2.2.2.symm⟩

/-- every entry of `L` has a counterpart in `L'` -/
def Keeps (L L' : List SplitE) : Prop := ∀ s ∈ L, ∃ s' ∈ L', Same s s'

theorem Keeps.refl (L : List SplitE) : Keeps L L := fun s hs => ⟨s, hs, Same.rfl' s⟩

theorem Keeps.append {a a' b b' : List SplitE} (h1 : Keeps a a') (h2 : Keeps b b') : Keeps (a ++ b) (a' ++ b') := by
  intro s hs
  rcases List.mem_append.1 hs with hs | hs
  · obtain ⟨s', h, hsame⟩ := h1 s hs; exact ⟨s', List.mem_append_left _ h, hsame⟩
  · obtain ⟨s', h, hsame⟩ := h2 s hs; exact ⟨s', List.mem_append_right _ h, hsame⟩

theorem Keeps.mono {a b b' : List SplitE} (h : Keeps a b) (hsub : ∀ s ∈ b, s ∈ b') : Keeps a b' := by
  intro s hs
  obtain ⟨s', h', hsame⟩ := h s hs
  exact ⟨s', hsub s' h', hsame⟩

/-! ## `moved` keeps the block -/

theorem moved_leaves (et : EdgeD × T) : (moved et).2.leaves = et.2.leaves := by
  obtain ⟨e, t⟩ := et
  cases t with
  | node d p k => cases k <;> rfl

theorem moved_isLeaf (et : EdgeD × T) : (moved et).2.isLeaf = et.2.isLeaf := by
  obtain ⟨e, t⟩ := et
  cases t with
  | node d p k => rfl

theorem moved_splitsBelow (et : EdgeD × T) : (moved et).2.splitsBelow = et.2.splitsBelow := by
  obtain ⟨e, t⟩ := et
  cases t with
  | node d p k => rfl

theorem blk_moved (et : EdgeD × T) :
    blk (moved et) = ⟨et.2.leaves, (moved et).1, et.2.isLeaf⟩ :: et.2.splitsBelow := by
  unfold blk
  rw [moved_leaves, moved_isLeaf, moved_splitsBelow]

theorem keeps_blk_moved (et : EdgeD × T) : Keeps (blk et) (blk (moved et)) ∧ Keeps (blk (moved et)) (blk et) := by
  rw [blk_moved]
  unfold blk
  constructor
  · intro s hs
    rcases List.mem_cons.1 hs with rfl | hs
    · exact ⟨⟨et.2.leaves, (moved et).1, et.2.isLeaf⟩, List.mem_cons_self, ⟨List.Perm.refl _, rfl, rfl, rfl⟩⟩
    · exact ⟨s, by simp [hs], Same.rfl' s⟩
  · intro s hs
    rcases List.mem_cons.1 hs with rfl | hs
    · exact ⟨⟨et.2.leaves, et.1, et.2.isLeaf⟩, List.mem_cons_self, ⟨List.Perm.refl _, rfl, rfl, rfl⟩⟩
    · exact ⟨s, by simp [hs], Same.rfl' s⟩

theorem leavesL_map_moved (A : Kids) : leavesL (A.map moved) = leavesL A := by
  induction A with
  | nil => rfl
  | cons et A ih => rw [List.map_cons, leavesL_cons, leavesL_cons, ih, moved_leaves]

theorem keeps_map_moved (A : Kids) :
    Keeps (splitsL A) (splitsL (A.map moved)) ∧ Keeps (splitsL (A.map moved)) (splitsL A) := by
  induction A with
  | nil => exact ⟨Keeps.refl _, Keeps.refl _⟩
  | cons et A ih =>
    rw [List.map_cons, splitsL_cons, splitsL_cons]
    exact ⟨Keeps.append (keeps_blk_moved et).1 ih.1, Keeps.append (keeps_blk_moved et).2 ih.2⟩

/-! ## partition of the kids by a predicate -/

theorem leavesL_filter_perm (p : EdgeD × T → Bool) (k : Kids) :
    (leavesL (k.filter p) ++ leavesL (k.filter (fun et => !p et))).Perm (leavesL k) := by
  induction k with
  | nil => simp [leavesL]
  | cons et k ih =>
    by_cases h : p et = true
    · simp only [List.filter_cons, h, if_true, Bool.not_true, Bool.false_eq_true, if_false]
      rw [leavesL_cons, leavesL_cons, List.append_assoc]
      exact ih.append_left _
    · have h' : p et = false := by simpa using h
      simp only [List.filter_cons, h', Bool.false_eq_true, if_false, Bool.not_false, if_true]
      rw [leavesL_cons, leavesL_cons]
      refine List.Perm.trans ?_ (ih.append_left et.2.leaves)
      rw [← List.append_assoc, ← List.append_assoc]
      exact List.Perm.append_right _ List.perm_append_comm

theorem mem_filter_or (p : EdgeD × T → Bool) (k : Kids) (et : EdgeD × T) (h : et ∈ k) :
    et ∈ k.filter p ∨ et ∈ k.filter (fun et => !p et) := by
  by_cases hp : p et = true
  · exact Or.inl (List.mem_filter.2 ⟨h, hp⟩)
  · exact Or.inr (List.mem_filter.2 ⟨h, by simpa using hp⟩)

theorem length_filter_add (p : EdgeD × T → Bool) (k : Kids) :
    (k.filter p).length + (k.filter (fun et => !p et)).length = k.length := by
  induction k with
  | nil => rfl
  | cons et k ih =>
    by_cases h : p et = true
    · simp only [List.filter_cons, h, if_true, Bool.not_true, Bool.false_eq_true, if_false, List.length_cons]; omega
    · have h' : p et = false := by simpa using h
      simp only [List.filter_cons, h', Bool.false_eq_true, if_false, Bool.not_false, if_true, List.length_cons]; omega

/-! ## counting tips of `S` -/

theorem comL_cons (S : List String) (et : EdgeD × T) (r : Kids) : comL S (et :: r) = com S et.2 + comL S r := by
  unfold comL com
  rw [leavesL_cons, List.filter_append, List.length_append]

theorem com_le (S : List String) (t : T) : com S t ≤ t.leaves.length := List.length_filter_le _ _

/-- a child none of whose … : either no leaf in `S` or all of them -/
def NotMixed (S : List String) (et : EdgeD × T) : Prop :=
  ¬ (0 < com S et.2 ∧ com S et.2 < et.2.leaves.length)

theorem pure_of_notMixed {S : List String} {et : EdgeD × T} (h : NotMixed S et) (hpos : 0 < com S et.2) :
    ∀ a ∈ et.2.leaves, a ∈ S := by
  have hle := com_le S et.2
  have heq : com S et.2 = et.2.leaves.length := by
    unfold NotMixed at h; omega
  intro a ha
  have hall := List.length_filter_eq_length_iff.1 heq
  simpa using hall a ha

theorem none_of_com_zero {S : List String} {t : T} (h : com S t = 0) : ∀ a ∈ t.leaves, a ∉ S := by
  intro a ha hs
  unfold com at h
  have : a ∈ t.leaves.filter S.contains := List.mem_filter.2 ⟨ha, by simpa using hs⟩
  rw [List.length_eq_zero_iff] at h
  rw [h] at this
  cases this

/-- in a node without mixed child: the children with tips of `S` hold only tips of
    `S` and all the node's tips of `S`; the others hold none; sizes add up -/
theorem pure_split (S : List String) (k : Kids) (h : ∀ et ∈ k, NotMixed S et) :
    (∀ a ∈ leavesL (k.filter fun et => com S et.2 > 0), a ∈ S) ∧
    ((leavesL (k.filter fun et => com S et.2 > 0)).filter S.contains).length = comL S k ∧
    (∀ a ∈ leavesL (k.filter fun et => !(com S et.2 > 0)), a ∉ S) ∧
    (leavesL (k.filter fun et => !(com S et.2 > 0))).length + comL S k = (leavesL k).length := by
  induction k with
  | nil => simp [leavesL, comL]
  | cons et k ih =>
    obtain ⟨i1, i2, i3, i4⟩ := ih (fun x hx => h x (by simp [hx]))
    have hnm := h et (by simp)
    by_cases hp : com S et.2 > 0
    · have hd : decide (com S et.2 > 0) = true := by simpa using hp
      have hpure := pure_of_notMixed hnm hp
      have hfull : (et.2.leaves.filter S.contains).length = et.2.leaves.length := by
        rw [List.length_filter_eq_length_iff]; intro a ha; simpa using hpure a ha
      simp only [List.filter_cons, hd, if_true, Bool.not_true, Bool.false_eq_true, if_false]
      rw [leavesL_cons, comL_cons, leavesL_cons]
      refine ⟨?_, ?_, i3, ?_⟩
      · intro a ha
        rcases List.mem_append.1 ha with ha | ha
        · exact hpure a ha
        · exact i1 a ha
      · rw [List.filter_append, List.length_append, i2]; rfl
      · rw [List.length_append]
        have : com S et.2 = et.2.leaves.length := hfull
        omega
    · have hz : com S et.2 = 0 := by omega
      have hd : decide (com S et.2 > 0) = false := by simpa using hp
      simp only [List.filter_cons, hd, Bool.false_eq_true, if_false, Bool.not_false, if_true]
      rw [leavesL_cons, comL_cons, leavesL_cons]
      refine ⟨i1, by rw [i2, hz]; omega, ?_, ?_⟩
      · intro a ha
        rcases List.mem_append.1 ha with ha | ha
        · exact none_of_com_zero hz a ha
        · exact i3 a ha
      · rw [List.length_append, List.length_append, hz]; omega

/-! ## pigeonhole on lists without repetition -/

theorem sub_length {l₁ : List String} : ∀ {l₂ : List String}, l₁.Nodup → l₁ ⊆ l₂ → l₁.length ≤ l₂.length := by
  induction l₁ with
  | nil => intro _ _ _; simp
  | cons a r ih =>
    intro l₂ hnd hsub
    rw [List.nodup_cons] at hnd
    have ha : a ∈ l₂ := hsub (by simp)
    have hr : r ⊆ l₂.erase a := by
      intro x hx
      have hxa : x ≠ a := fun e => hnd.1 (e ▸ hx)
      exact (List.mem_erase_of_ne hxa).2 (hsub (by simp [hx]))
    have := ih hnd.2 hr
    rw [List.length_erase_of_mem ha] at this
    have hpos : 0 < l₂.length := List.length_pos_of_mem ha
    simp only [List.length_cons]; omega

theorem sub_of_length {l₁ l₂ : List String} (hnd : l₁.Nodup) (hsub : l₁ ⊆ l₂)
    (hlen : l₂.length ≤ l₁.length) : l₂ ⊆ l₁ := by
  intro x hx
  apply Classical.byContradiction
  intro hnx
  have hr : l₁ ⊆ l₂.erase x := by
    intro y hy
    have hyx : y ≠ x := fun e => hnx (e ▸ hy)
    exact (List.mem_erase_of_ne hyx).2 (hsub hy)
  have := sub_length hnd hr
  rw [List.length_erase_of_mem hx] at this
  have hpos : 0 < l₂.length := List.length_pos_of_mem hx
  omega


/-! ## the insertion -/

/-- the branch created by the insertion: it carries `(len, sup)`, joins two inner
    nodes, and its side is exactly `S` or is disjoint from `S` with `n - |S|` tips -/
def IsNew (S : List String) (tot n : Nat) (len sup : Rat) (s : SplitE) : Prop :=
  s.e = newEdge len sup ∧ s.tip = false ∧
  (((∀ a ∈ s.below, a ∈ S) ∧ (∀ a ∈ S, a ∈ s.below)) ∨
   ((∀ a ∈ s.below, a ∉ S) ∧ s.below.length + tot = n))

def Old (L : List SplitE) (s' : SplitE) : Prop := ∃ s ∈ L, Same s s'

theorem Old.of_mem {L : List SplitE} {s : SplitE} (h : s ∈ L) : Old L s := ⟨s, h, Same.rfl' s⟩

theorem Old.mono {L L' : List SplitE} {s : SplitE} (h : Old L s) (hsub : ∀ x ∈ L, x ∈ L') : Old L' s := by
  obtain ⟨x, hx, hs⟩ := h; exact ⟨x, hsub x hx, hs⟩

/-- number of inner branches (the lower node is not a tip) -/
def ni (L : List SplitE) : Nat := (L.filter (fun s => !s.tip)).length

theorem ni_append (a b : List SplitE) : ni (a ++ b) = ni a + ni b := by
  simp [ni, List.filter_append]

theorem ni_cons (s : SplitE) (r : List SplitE) : ni (s :: r) = (if s.tip then 0 else 1) + ni r := by
  unfold ni
  by_cases h : s.tip = true
  · simp [List.filter_cons, h]
  · have h' : s.tip = false := by simpa using h
    simp [List.filter_cons, h']; omega

theorem ni_blk_moved (et : EdgeD × T) : ni (blk (moved et)) = ni (blk et) := by
  rw [blk_moved]; unfold blk; simp [ni_cons]

theorem ni_map_moved (A : Kids) : ni (splitsL (A.map moved)) = ni (splitsL A) := by
  induction A with
  | nil => rfl
  | cons et A ih => rw [List.map_cons, splitsL_cons, splitsL_cons, ni_append, ni_append, ih, ni_blk_moved]

theorem ni_filter (p : EdgeD × T → Bool) (k : Kids) :
    ni (splitsL (k.filter p)) + ni (splitsL (k.filter (fun et => !p et))) = ni (splitsL k) := by
  induction k with
  | nil => rfl
  | cons et k ih =>
    by_cases h : p et = true
    · simp only [List.filter_cons, h, if_true, Bool.not_true, Bool.false_eq_true, if_false]
      rw [splitsL_cons, splitsL_cons, ni_append, ni_append]; omega
    · have h' : p et = false := by simpa using h
      simp only [List.filter_cons, h', Bool.false_eq_true, if_false, Bool.not_false, if_true]
      rw [splitsL_cons, splitsL_cons, ni_append, ni_append]; omega

/-- what a result of `insK` on the kids `k` must satisfy -/
def InsSpec (S : List String) (tot n : Nat) (len sup : Rat) (k : Kids) : Ins → Prop
  | .done k' =>
    Keeps (splitsL k) (splitsL k') ∧
    (∀ s' ∈ splitsL k', Old (splitsL k) s' ∨ IsNew S tot n len sup s') ∧
    (leavesL k').Perm (leavesL k) ∧ (2 ≤ k.length → 2 ≤ k'.length) ∧
    ni (splitsL k') ≤ ni (splitsL k) + 1
  | .lift k' up =>
    ni (splitsL k') + ni (splitsL up) = ni (splitsL k) ∧
    Keeps (splitsL k) (splitsL k' ++ splitsL up) ∧
    (∀ s' ∈ splitsL k' ++ splitsL up, Old (splitsL k) s') ∧
    (leavesL k' ++ leavesL up).Perm (leavesL k) ∧
    (∀ a ∈ leavesL k', a ∉ S) ∧ (leavesL k').length + tot = n ∧ k' ≠ []
  | .fail _ => True

theorem insSpec_same (S : List String) (tot n : Nat) (len sup : Rat) (k : Kids) :
    InsSpec S tot n len sup k (.done k) :=
  ⟨Keeps.refl _, fun _ h => Or.inl (Old.of_mem h), List.Perm.refl _, fun h => h, Nat.le_succ _⟩

theorem mem_leavesL {a : String} {k : Kids} : a ∈ leavesL k ↔ ∃ et ∈ k, a ∈ et.2.leaves := by
  induction k with
  | nil => simp [leavesL]
  | cons et k ih =>
    rw [leavesL_cons, List.mem_append, ih]
    constructor
    · rintro (h | ⟨x, hx, hs⟩)
      · exact ⟨et, by simp, h⟩
      · exact ⟨x, by simp [hx], hs⟩
    · rintro ⟨x, hx, hs⟩
      rcases List.mem_cons.1 hx with rfl | hx
      · exact Or.inl hs
      · exact Or.inr ⟨x, hx, hs⟩

theorem mem_splitsL_of_filter {p : EdgeD × T → Bool} {k : Kids} {s : SplitE}
    (h : s ∈ splitsL (k.filter p)) : s ∈ splitsL k := by
  obtain ⟨et, het, hs⟩ := mem_splitsL.1 h
  exact mem_splitsL.2 ⟨et, (List.mem_filter.1 het).1, hs⟩

/-- all of `S` lies below a node as soon as the node has `|S|` leaves in `S` -/
theorem S_below (S : List String) (_hS : S.Nodup) (k : Kids) (hnd : (leavesL k).Nodup)
    (h : S.length ≤ comL S k) : ∀ a ∈ S, a ∈ leavesL k := by
  intro a ha
  have hF : ((leavesL k).filter S.contains).Nodup := hnd.filter _
  have hsub : (leavesL k).filter S.contains ⊆ S := fun x hx => by
    have := (List.mem_filter.1 hx).2; simpa using this
  have := sub_of_length hF hsub h ha
  exact (List.mem_filter.1 this).1

theorem mem_A_of_mem {S : List String} {k : Kids} {a : String} (ha : a ∈ leavesL k) (hs : a ∈ S) :
    a ∈ leavesL (k.filter fun et => com S et.2 > 0) := by
  obtain ⟨et, het, hae⟩ := mem_leavesL.1 ha
  refine mem_leavesL.2 ⟨et, List.mem_filter.2 ⟨het, ?_⟩, hae⟩
  have : a ∈ et.2.leaves.filter S.contains := List.mem_filter.2 ⟨hae, by simpa using hs⟩
  have hpos : 0 < (et.2.leaves.filter S.contains).length := List.length_pos_of_mem this
  simpa [com] using hpos

/-- the case "no child is mixed" of `insK` -/
theorem insK_nil_spec (S : List String) (hS : S.Nodup) (tot n : Nat) (htot : tot = S.length) (len sup : Rat)
    (isRoot : Bool) (outside : Nat) (pre : Kids)
    (hpre : ∀ et ∈ pre, NotMixed S et)
    (hout : isRoot = false → outside = n - (leavesL pre).length)
    (hroot : isRoot = true → ∀ a ∈ S, a ∈ leavesL pre)
    (hnd : (leavesL pre).Nodup) :
    InsSpec S tot n len sup pre (insK S tot n len sup isRoot outside pre []) := by
  obtain ⟨p1, _, p3, p4⟩ := pure_split S pre hpre
  have hAB := length_filter_add (fun et => decide (com S et.2 > 0)) pre
  have hle : comL S pre ≤ (leavesL pre).length := List.length_filter_le _ _
  generalize hA : (pre.filter fun et => decide (com S et.2 > 0)) = A at *
  generalize hB : (pre.filter fun et => !decide (com S et.2 > 0)) = B at *
  generalize hc : comL S pre = c at *
  have hunf : insK S tot n len sup isRoot outside pre [] =
      if (isRoot || tot - c == 0) = true then
        (if (decide (A.length ≤ 1) || decide (A.length + 1 ≥ pre.length + (if isRoot = true then 0 else 1))) = true
          then .done pre
          else .done (B ++ [(newEdge len sup, .node ⟨"", []⟩ A.length (A.map moved))]))
      else if (tot - c == outside) = true then
        (if A.length + 1 ≥ pre.length then .done pre else .lift B (A.map moved))
      else .fail "mono" := by
    simp only [insK, hA, hB, hc]
  rw [hunf]
  have memA : ∀ et ∈ A, et ∈ pre := fun et h => by rw [← hA] at h; exact (List.mem_filter.1 h).1
  have memB : ∀ et ∈ B, et ∈ pre := fun et h => by rw [← hB] at h; exact (List.mem_filter.1 h).1
  have memAB : ∀ et ∈ pre, et ∈ A ∨ et ∈ B := fun et h => by
    rw [← hA, ← hB]; exact mem_filter_or (fun et => decide (com S et.2 > 0)) pre et h
  have splA : ∀ s ∈ splitsL A, s ∈ splitsL pre := fun s h => by
    obtain ⟨et, het, hs⟩ := mem_splitsL.1 h; exact mem_splitsL.2 ⟨et, memA et het, hs⟩
  have splB : ∀ s ∈ splitsL B, s ∈ splitsL pre := fun s h => by
    obtain ⟨et, het, hs⟩ := mem_splitsL.1 h; exact mem_splitsL.2 ⟨et, memB et het, hs⟩
  have hperm : (leavesL B ++ leavesL A).Perm (leavesL pre) := by
    have := leavesL_filter_perm (fun et => decide (com S et.2 > 0)) pre
    rw [hA, hB] at this
    exact List.Perm.trans List.perm_append_comm this
  by_cases hcase : (isRoot || tot - c == 0) = true
  · rw [if_pos hcase]
    by_cases hrefuse : (decide (A.length ≤ 1) || decide (A.length + 1 ≥ pre.length + (if isRoot = true then 0 else 1))) = true
    · rw [if_pos hrefuse]; exact insSpec_same _ _ _ _ _ _
    · rw [if_neg hrefuse]
      simp only [Bool.or_eq_true, decide_eq_true_eq, not_or, Nat.not_le, ge_iff_le] at hrefuse
      have hA2 : 1 < A.length := hrefuse.1
      have hAne : A.map moved ≠ [] := by
        intro h; rw [List.map_eq_nil_iff] at h; rw [h] at hA2; simp at hA2
      have hallS : ∀ a ∈ S, a ∈ leavesL pre := by
        rcases Bool.or_eq_true_iff.1 hcase with h | h
        · exact hroot h
        · have : tot - c = 0 := by simpa using h
          exact S_below S hS pre hnd (by rw [hc]; omega)
      have hni : ni (splitsL (B ++ [(newEdge len sup, T.node ⟨"", []⟩ A.length (A.map moved))])) ≤
          ni (splitsL pre) + 1 := by
        have hf := ni_filter (fun et => decide (com S et.2 > 0)) pre
        rw [hA, hB] at hf
        rw [splitsL_append, splitsL_cons, ni_append, ni_append, blk_node _ _ _ _ hAne, ni_cons, ni_map_moved]
        simp only [Bool.false_eq_true, if_false]
        have : ni (splitsL ([] : Kids)) = 0 := rfl
        omega
      rw [InsSpec]
      refine ⟨?_, ?_, ?_, ?_, hni⟩
      rotate_left 2
      · rw [leavesL_append, leavesL_cons]
        simp only [leavesL, List.append_nil, leaves_node_ne _ _ _ hAne, leavesL_map_moved]
        exact hperm
      · intro _
        have : (if isRoot = true then 0 else 1) ≤ 1 := by split <;> omega
        simp only [List.length_append, List.length_cons, List.length_nil]
        omega
      all_goals
        rw [splitsL_append, splitsL_cons]
        simp only [splitsL, List.append_nil, blk, splitsBelow_node, isLeaf_node,
          leaves_node_ne _ _ _ hAne, leavesL_map_moved]
      · intro s hs
        obtain ⟨et, het, hse⟩ := mem_splitsL.1 hs
        rcases memAB et het with h | h
        · obtain ⟨s', hs', hsame⟩ := (keeps_map_moved _).1 s (mem_splitsL.2 ⟨et, h, hse⟩)
          exact ⟨s', by simp [hs'], hsame⟩
        · exact ⟨s, List.mem_append_left _ (mem_splitsL.2 ⟨et, h, hse⟩), Same.rfl' s⟩
      · intro s' hs'
        rcases List.mem_append.1 hs' with h | h
        · exact Or.inl (Old.of_mem (splB _ h))
        · rcases List.mem_cons.1 h with rfl | h
          · right
            refine ⟨rfl, by simpa using hAne, Or.inl ⟨p1, ?_⟩⟩
            intro a ha
            have := mem_A_of_mem (hallS a ha) ha
            rw [hA] at this; exact this
          · obtain ⟨s, hs, hsame⟩ := (keeps_map_moved _).2 s' h
            exact Or.inl ⟨s, splA _ hs, hsame.symm⟩
  · rw [if_neg hcase]
    simp only [Bool.or_eq_true, not_or, Bool.not_eq_true] at hcase
    by_cases hlift : (tot - c == outside) = true
    · rw [if_pos hlift]
      by_cases hrefuse : A.length + 1 ≥ pre.length
      · rw [if_pos hrefuse]; exact insSpec_same _ _ _ _ _ _
      · rw [if_neg hrefuse]
        have ho := hout hcase.1
        have hoc : tot - c ≠ 0 := by simpa using hcase.2
        have heq : tot - c = outside := by simpa using hlift
        have hBne : B ≠ [] := by
          intro h
          have : B.length = 0 := by rw [h]; rfl
          omega
        rw [InsSpec]
        refine ⟨?_, ?_, ?_, ?_, p3, ?_, hBne⟩
        · have hf := ni_filter (fun et => decide (com S et.2 > 0)) pre
          rw [hA, hB] at hf
          rw [ni_map_moved]; omega
        · intro s hs
          obtain ⟨et, het, hse⟩ := mem_splitsL.1 hs
          rcases memAB et het with h | h
          · obtain ⟨s', hs', hsame⟩ := (keeps_map_moved _).1 s (mem_splitsL.2 ⟨et, h, hse⟩)
            exact ⟨s', List.mem_append_right _ hs', hsame⟩
          · exact ⟨s, List.mem_append_left _ (mem_splitsL.2 ⟨et, h, hse⟩), Same.rfl' s⟩
        · intro s' hs'
          rcases List.mem_append.1 hs' with h | h
          · exact Old.of_mem (splB _ h)
          · obtain ⟨s, hs, hsame⟩ := (keeps_map_moved _).2 s' h
            exact ⟨s, splA _ hs, hsame.symm⟩
        · rw [leavesL_map_moved]; exact hperm
        · omega
    · rw [if_neg hlift]; trivial
/- every subtree has a leaf -/
mutual
theorem leaves_pos : ∀ t : T, 1 ≤ t.leaves.length
  | .node d p [] => by simp [T.leaves]
  | .node d p (k :: ks) => by
    have := leavesL_len (k :: ks)
    simp only [T.leaves]
    simp only [List.length_cons] at this
    omega
theorem leavesL_len : ∀ k : Kids, k.length ≤ (leavesL k).length
  | [] => by simp [leavesL]
  | (e, t) :: r => by
    have := leaves_pos t
    have := leavesL_len r
    simp only [leavesL, List.length_append, List.length_cons]
    omega
end


/-- replacing one child by another one whose block keeps the old entries -/
theorem insSpec_replace (S : List String) (tot n : Nat) (len sup : Rat) (pre r : Kids) (x x' : EdgeD × T)
    (hk : Keeps (blk x) (blk x'))
    (hn : ∀ s' ∈ blk x', Old (blk x) s' ∨ IsNew S tot n len sup s')
    (hp : x'.2.leaves.Perm x.2.leaves) (hni : ni (blk x') ≤ ni (blk x) + 1) :
    InsSpec S tot n len sup (pre ++ x :: r) (.done (pre ++ x' :: r)) := by
  rw [InsSpec]
  simp only [splitsL_append, splitsL_cons, leavesL_append, leavesL_cons]
  refine ⟨Keeps.append (Keeps.refl _) (Keeps.append hk (Keeps.refl _)), ?_, ?_, by simp, by
    simp only [ni_append]; omega⟩
  · intro s' hs'
    rcases List.mem_append.1 hs' with h | h
    · exact Or.inl (Old.of_mem (List.mem_append_left _ h))
    · rcases List.mem_append.1 h with h | h
      · rcases hn s' h with ho | hnew
        · exact Or.inl (ho.mono fun y hy => List.mem_append_right _ (List.mem_append_left _ hy))
        · exact Or.inr hnew
      · exact Or.inl (Old.of_mem (List.mem_append_right _ (List.mem_append_right _ h)))
  · exact List.Perm.append_left _ (List.Perm.append_right _ hp)

theorem nodup_parts {pre r : Kids} {e : EdgeD} {t : T} (h : (leavesL (pre ++ (e, t) :: r)).Nodup) :
    t.leaves.Nodup := by
  rw [leavesL_append, leavesL_cons] at h
  exact (List.nodup_append.1 (List.nodup_append.1 h).2.1).1

mutual
theorem insT_spec (S : List String) (hS : S.Nodup) (tot n : Nat) (htot : tot = S.length) (len sup : Rat) :
    ∀ t : T, (leavesL t.kids).Nodup → InsSpec S tot n len sup t.kids (insT S tot n len sup t)
  | .node d p k => fun hnd => by
    have := insK_spec S hS tot n htot len sup false (n - (leavesL k).length) [] k
      (by simp) (by intro _; simp) (by intro h; cases h) (by simpa using hnd)
    simpa [insT] using this
theorem insK_spec (S : List String) (hS : S.Nodup) (tot n : Nat) (htot : tot = S.length) (len sup : Rat)
    (isRoot : Bool) (outside : Nat) : ∀ (pre rest : Kids),
    (∀ et ∈ pre, NotMixed S et) →
    (isRoot = false → outside = n - (leavesL (pre ++ rest)).length) →
    (isRoot = true → ∀ a ∈ S, a ∈ leavesL (pre ++ rest)) →
    (leavesL (pre ++ rest)).Nodup →
    InsSpec S tot n len sup (pre ++ rest) (insK S tot n len sup isRoot outside pre rest)
  | pre, [] => fun hpre hout hroot hnd => by
    have := insK_nil_spec S hS tot n htot len sup isRoot outside pre hpre
      (by simpa using hout) (by simpa using hroot) (by simpa using hnd)
    simpa using this
  | pre, (e, .node d p k) :: r => fun hpre hout hroot hnd => by
    have hunf : insK S tot n len sup isRoot outside pre ((e, .node d p k) :: r) =
        if (decide (0 < com S (.node d p k)) && decide (com S (.node d p k) < (T.node d p k).leaves.length)) = true then
          (if (tot - com S (.node d p k) == 0 || tot - com S (.node d p k) == n - (T.node d p k).leaves.length) = true then
            (match insT S tot n len sup (.node d p k) with
              | .done k' => .done (pre ++ (e, withKids (.node d p k) k') :: r)
              | .lift k' up => .done (pre ++ ((moved (e, .node d p k)).1,
                  .node ⟨"", []⟩ 0 (up ++ [(newEdge len sup, withKids (.node d p k) k')])) :: r)
              | .fail w => .fail w)
          else .fail "mono")
        else insK S tot n len sup isRoot outside (pre ++ [(e, .node d p k)]) r := by
      simp only [insK]
      rfl
    rw [hunf]
    by_cases hmix : (decide (0 < com S (.node d p k)) && decide (com S (.node d p k) < (T.node d p k).leaves.length)) = true
    · rw [if_pos hmix]
      by_cases hside : (tot - com S (.node d p k) == 0 || tot - com S (.node d p k) == n - (T.node d p k).leaves.length) = true
      · rw [if_pos hside]
        simp only [Bool.and_eq_true, decide_eq_true_eq] at hmix
        have hk : k ≠ [] := by
          intro h; subst h
          have := com_le S (.node d p [])
          simp only [T.leaves, List.length_singleton] at hmix this
          omega
        have hndk : (leavesL k).Nodup := by
          have := nodup_parts hnd
          rwa [leaves_node_ne _ _ _ hk] at this
        have ih := insT_spec S hS tot n htot len sup (.node d p k) (by simpa using hndk)
        simp only [T.kids_node] at ih
        cases hres : insT S tot n len sup (.node d p k) with
        | fail w => trivial
        | done k' =>
          rw [hres] at ih
          obtain ⟨i1, i2, i3, _, i5⟩ := ih
          have hk' : k' ≠ [] := by
            intro h; subst h
            have h1 := i3.length_eq
            have h2 := leavesL_len k
            have h3 : 0 < k.length := List.length_pos_iff.2 hk
            simp [leavesL] at h1; omega
          show InsSpec S tot n len sup (pre ++ (e, .node d p k) :: r) (.done (pre ++ (e, .node d p k') :: r))
          apply insSpec_replace
          · rw [blk_node _ _ _ _ hk, blk_node _ _ _ _ hk']
            intro s hs
            rcases List.mem_cons.1 hs with rfl | hs
            · exact ⟨_, List.mem_cons_self, ⟨i3.symm, rfl, rfl, rfl⟩⟩
            · obtain ⟨s', hs', hsame⟩ := i1 s hs
              exact ⟨s', List.mem_cons_of_mem _ hs', hsame⟩
          · rw [blk_node _ _ _ _ hk, blk_node _ _ _ _ hk']
            intro s' hs'
            rcases List.mem_cons.1 hs' with rfl | hs'
            · exact Or.inl ⟨_, List.mem_cons_self, ⟨i3.symm, rfl, rfl, rfl⟩⟩
            · rcases i2 s' hs' with ho | hnew
              · exact Or.inl (ho.mono fun y hy => List.mem_cons_of_mem _ hy)
              · exact Or.inr hnew
          · show (T.node d p k').leaves.Perm (T.node d p k).leaves
            rw [leaves_node_ne _ _ _ hk, leaves_node_ne _ _ _ hk']; exact i3
          · rw [blk_node _ _ _ _ hk, blk_node _ _ _ _ hk', ni_cons, ni_cons]
            simp only [Bool.false_eq_true, if_false]; omega
        | lift k' up =>
          rw [hres] at ih
          obtain ⟨i0, i1, i2, i3, i4, i5, hk'⟩ := ih
          show InsSpec S tot n len sup (pre ++ (e, .node d p k) :: r)
            (.done (pre ++ ((moved (e, .node d p k)).1,
              .node ⟨"", []⟩ 0 (up ++ [(newEdge len sup, .node d p k')])) :: r))
          have hne : up ++ [(newEdge len sup, T.node d p k')] ≠ [] := by simp
          have hleaves : leavesL (up ++ [(newEdge len sup, T.node d p k')]) = leavesL up ++ leavesL k' := by
            rw [leavesL_append, leavesL_cons]
            simp only [leaves_node_ne _ _ _ hk', leavesL, List.append_nil]
          have hspl : splitsL (up ++ [(newEdge len sup, T.node d p k')]) =
              splitsL up ++ (⟨leavesL k', newEdge len sup, false⟩ :: splitsL k') := by
            rw [splitsL_append, splitsL_cons, blk_node _ _ _ _ hk']
            simp [splitsL]
          have hperm : (leavesL up ++ leavesL k').Perm (leavesL k) :=
            List.Perm.trans List.perm_append_comm i3
          apply insSpec_replace
          · rw [blk_node _ _ _ _ hk, blk_node _ _ _ _ hne, hleaves, hspl]
            intro s hs
            rcases List.mem_cons.1 hs with rfl | hs
            · exact ⟨_, List.mem_cons_self, ⟨hperm.symm, rfl, rfl, rfl⟩⟩
            · obtain ⟨s', hs', hsame⟩ := i1 s hs
              refine ⟨s', List.mem_cons_of_mem _ ?_, hsame⟩
              rcases List.mem_append.1 hs' with h | h
              · exact List.mem_append_right _ (List.mem_cons_of_mem _ h)
              · exact List.mem_append_left _ h
          · rw [blk_node _ _ _ _ hk, blk_node _ _ _ _ hne, hleaves, hspl]
            intro s' hs'
            rcases List.mem_cons.1 hs' with rfl | hs'
            · exact Or.inl ⟨_, List.mem_cons_self, ⟨hperm.symm, rfl, rfl, rfl⟩⟩
            · rcases List.mem_append.1 hs' with h | h
              · exact Or.inl ((i2 s' (List.mem_append_right _ h)).mono fun y hy => List.mem_cons_of_mem _ hy)
              · rcases List.mem_cons.1 h with rfl | h
                · exact Or.inr ⟨rfl, rfl, Or.inr ⟨i4, i5⟩⟩
                · exact Or.inl ((i2 s' (List.mem_append_left _ h)).mono fun y hy => List.mem_cons_of_mem _ hy)
          · show (T.node ⟨"", []⟩ 0 (up ++ [(newEdge len sup, T.node d p k')])).leaves.Perm (T.node d p k).leaves
            rw [leaves_node_ne _ _ _ hk, leaves_node_ne _ _ _ hne, hleaves]; exact hperm
          · rw [blk_node _ _ _ _ hk, blk_node _ _ _ _ hne, hspl, ni_cons, ni_cons, ni_append, ni_cons]
            simp only [Bool.false_eq_true, if_false]; omega
      · rw [if_neg hside]; trivial
    · rw [if_neg hmix]
      have hnm : NotMixed S (e, .node d p k) := by
        unfold NotMixed
        simpa [Bool.and_eq_true] using hmix
      have := insK_spec S hS tot n htot len sup isRoot outside (pre ++ [(e, .node d p k)]) r
        (by
          intro et het
          rcases List.mem_append.1 het with h | h
          · exact hpre et h
          · simp only [List.mem_singleton] at h; subst h; exact hnm)
        (by simpa using hout) (by simpa using hroot) (by simpa using hnd)
      simpa using this
end

/-- `insertSplit` on a tree with unique tips: every branch of the tree keeps its
    tips, length, support and kind; every branch of the result is such a branch
    or the new one; the leaves are the same. -/
theorem insertSplit_spec (names : List String) (len sup : Rat) (t t' : T)
    (hnd : t.tipNames.Nodup) (hdeg : t.kids.length ≠ 1) (hn : names.Nodup)
    (h : insertSplit names len sup t = .ok t') :
    Keeps t.splits t'.splits ∧
    (∀ s' ∈ t'.splits, Old t.splits s' ∨
      IsNew (names.filter t.tipNames.contains) (names.filter t.tipNames.contains).length
        t.tipNames.length len sup s') ∧
    (leavesL t'.kids).Perm (leavesL t.kids) ∧ (2 ≤ t.kids.length → 2 ≤ t'.kids.length) ∧
    ni t'.splits ≤ ni t.splits + 1 := by
  have htips : t.tipNames = leavesL t.kids := by
    unfold T.tipNames
    have : (t.kids.length == 1) = false := by simpa using hdeg
    simp [this]
  unfold insertSplit at h
  simp only at h
  split at h
  · exact absurd h (by simp)
  · split at h
    · exact absurd h (by simp)
    · cases t with
      | node d p k =>
        simp only at h
        have hS : (names.filter (T.node d p k).tipNames.contains).Nodup := hn.filter _
        have hspec := insK_spec (names.filter (T.node d p k).tipNames.contains) hS
          (names.filter (T.node d p k).tipNames.contains).length (T.node d p k).tipNames.length rfl len sup
          true 0 [] k (by simp) (by intro h; cases h)
          (by
            intro _ a ha
            have := (List.mem_filter.1 ha).2
            rw [htips] at this
            simpa using this)
          (by rw [htips] at hnd; simpa using hnd)
        simp only [List.nil_append] at hspec
        split at h
        · rename_i k' hk'
          rw [hk'] at hspec
          simp only [Except.ok.injEq] at h
          subst h
          exact hspec
        · exact absurd h (by simp)
        · exact absurd h (by simp)

/-! ## the tip-length update -/

/-- what `SetLength` on the tip branch of `a` does to an entry of the split list -/
def setLenEntry (a : String) (v : Rat) (s : SplitE) : SplitE :=
  if s.tip && s.below == [a] then { s with e := { s.e with len := v } } else s

mutual
theorem setTipLenT_spec (a : String) (v : Rat) (e : EdgeD) : ∀ t : T,
    blk (setTipLenT a v e t) = (blk (e, t)).map (setLenEntry a v)
  | .node d p [] => by
    unfold setTipLenT
    by_cases h : (d.name == a) = true
    · have : d.name = a := by simpa using h
      simp [blk, T.leaves, T.isLeaf, T.splitsBelow, splitsL, setLenEntry, this]
    · simp [h, blk, T.leaves, T.isLeaf, T.splitsBelow, splitsL, setLenEntry]
  | .node d p (k :: ks) => by
    have ih := setTipLenL_spec a v (k :: ks)
    unfold setTipLenT
    have hne : setTipLenL a v (k :: ks) ≠ [] := by
      obtain ⟨e', t'⟩ := k
      simp [setTipLenL]
    have hl : leavesL (setTipLenL a v (k :: ks)) = leavesL (k :: ks) := setTipLenL_leaves a v (k :: ks)
    rw [blk_node _ _ _ _ hne, blk_node _ _ _ _ (by simp), ih, hl]
    simp [setLenEntry]
theorem setTipLenL_spec (a : String) (v : Rat) : ∀ k : Kids,
    splitsL (setTipLenL a v k) = (splitsL k).map (setLenEntry a v)
  | [] => by simp [setTipLenL, splitsL]
  | (e, t) :: r => by
    have h1 := setTipLenT_spec a v e t
    have h2 := setTipLenL_spec a v r
    unfold setTipLenL
    rw [splitsL_cons, splitsL_cons, h1, h2, List.map_append]
theorem setTipLenT_leaves (a : String) (v : Rat) (e : EdgeD) : ∀ t : T,
    (setTipLenT a v e t).2.leaves = t.leaves
  | .node d p [] => by
    unfold setTipLenT
    by_cases h : (d.name == a) = true <;> simp [h, T.leaves]
  | .node d p (k :: ks) => by
    have ih := setTipLenL_leaves a v (k :: ks)
    unfold setTipLenT
    have hne : setTipLenL a v (k :: ks) ≠ [] := by
      obtain ⟨e', t'⟩ := k
      simp [setTipLenL]
    rw [leaves_node_ne _ _ _ hne, ih]; rfl
theorem setTipLenL_leaves (a : String) (v : Rat) : ∀ k : Kids,
    leavesL (setTipLenL a v k) = leavesL k
  | [] => by simp [setTipLenL]
  | (e, t) :: r => by
    have h1 := setTipLenT_leaves a v e t
    have h2 := setTipLenL_leaves a v r
    unfold setTipLenL
    rw [leavesL_cons, leavesL_cons, h1, h2]
end

/-- `setTipLen a v` changes the length of the tip branch of `a` and nothing else. -/
theorem setTipLen_splits (a : String) (v : Rat) (t : T) :
    (setTipLen a v t).splits = t.splits.map (setLenEntry a v) := by
  cases t with
  | node d p k => exact setTipLenL_spec a v k

/-! ## when the insertion really adds the branch

The single-insertion lemma of DESIGN Appendix F: a bipartition that is compatible
with every branch of the tree and is not yet in it is inserted (never refused,
never an error). -/

def SubS (a b : List String) : Prop := ∀ x ∈ a, x ∈ b

/-- the clade `X` of the tree is compatible with the bipartition `S | tips \ S`
    and is neither of its sides -/
structure CladeOK (S tips X : List String) : Prop where
  compat : (∀ x ∈ X, x ∉ S) ∨ SubS X S ∨ SubS S X ∨ (∀ a ∈ tips, a ∈ X ∨ a ∈ S)
  neS : ¬ (SubS X S ∧ SubS S X)
  neC : ¬ ((∀ x ∈ X, x ∉ S) ∧ (∀ a ∈ tips, a ∈ X ∨ a ∈ S))

theorem length_filter_of_sub {S X : List String} (hS : S.Nodup) (hX : X.Nodup) (h : SubS S X) :
    (X.filter S.contains).length = S.length := by
  apply List.Perm.length_eq
  rw [List.perm_ext_iff_of_nodup (hX.filter _) hS]
  intro a
  rw [List.mem_filter]
  constructor
  · rintro ⟨_, h2⟩; simpa using h2
  · intro ha; exact ⟨h a ha, by simpa using ha⟩

theorem length_filter_comm {S X : List String} (hS : S.Nodup) (hX : X.Nodup) :
    (X.filter S.contains).length = (S.filter X.contains).length := by
  apply List.Perm.length_eq
  rw [List.perm_ext_iff_of_nodup (hX.filter _) (hS.filter _)]
  intro a
  simp only [List.mem_filter, List.contains_iff_mem]
  constructor <;> (rintro ⟨h1, h2⟩; exact ⟨h2, h1⟩)

theorem length_filter_not (p : String → Bool) (l : List String) :
    (l.filter p).length + (l.filter (fun a => !p a)).length = l.length := by
  induction l with
  | nil => rfl
  | cons a l ih =>
    by_cases h : p a = true
    · simp only [List.filter_cons, h, if_true, Bool.not_true, Bool.false_eq_true, if_false, List.length_cons]; omega
    · have h' : p a = false := by simpa using h
      simp only [List.filter_cons, h', Bool.false_eq_true, if_false, Bool.not_false, if_true, List.length_cons]; omega

/-- `X ∪ S = tips` in counts: the tips of `S` outside `X` are the tips outside `X` -/
theorem count_cover {S X tips : List String} (hS : S.Nodup) (hX : X.Nodup) (hT : tips.Nodup)
    (hST : SubS S tips) (hXT : SubS X tips) (hcov : ∀ a ∈ tips, a ∈ X ∨ a ∈ S) :
    S.length - (X.filter S.contains).length = tips.length - X.length := by
  have h1 := length_filter_not X.contains S
  have h2 := length_filter_not X.contains tips
  have h3 : (tips.filter X.contains).length = X.length := length_filter_of_sub hX hT hXT
  have h4 : (S.filter (fun a => !X.contains a)).length = (tips.filter (fun a => !X.contains a)).length := by
    apply List.Perm.length_eq
    rw [List.perm_ext_iff_of_nodup (hS.filter _) (hT.filter _)]
    intro a
    simp only [List.mem_filter, Bool.not_eq_true', List.contains_eq_mem, decide_eq_false_iff_not]
    constructor
    · rintro ⟨h, hn⟩; exact ⟨hST a h, hn⟩
    · rintro ⟨h, hn⟩
      rcases hcov a h with hx | hs
      · exact absurd hx hn
      · exact ⟨hs, hn⟩
  rw [length_filter_comm hS hX]
  omega

/-- does the result contain the new branch (a `lift` hands it to the parent)? -/
def Adds (S : List String) (tot n : Nat) (len sup : Rat) : Ins → Prop
  | .done k' => ∃ s' ∈ splitsL k', IsNew S tot n len sup s'
  | .lift _ _ => True
  | .fail _ => False

/-- hypotheses on the children `k` of a node for the insertion of `S` -/
structure NodeOK (S tips : List String) (k : Kids) : Prop where
  nd : (leavesL k).Nodup
  sub : SubS (leavesL k) tips
  clades : ∀ s ∈ splitsL k, CladeOK S tips s.below

theorem comL_eq (S : List String) (k : Kids) : comL S k = ((leavesL k).filter S.contains).length := rfl

theorem mem_blk_self (et : EdgeD × T) : (⟨et.2.leaves, et.1, et.2.isLeaf⟩ : SplitE) ∈ blk et := List.mem_cons_self

theorem leaves_sub_of_mem {k : Kids} {et : EdgeD × T} (h : et ∈ k) : SubS et.2.leaves (leavesL k) :=
  fun _ ha => mem_leavesL.2 ⟨et, h, ha⟩

theorem kid_nodup {k : Kids} {et : EdgeD × T} (hnd : (leavesL k).Nodup) (h : et ∈ k) : et.2.leaves.Nodup := by
  obtain ⟨a, b, rfl⟩ := List.append_of_mem h
  obtain ⟨e, t⟩ := et
  exact nodup_parts hnd

/-- a single pure child inside `S` that holds all of `S`: its clade is `S` -/
theorem single_A {S : List String} {pre : Kids} (hpre : ∀ et ∈ pre, NotMixed S et)
    (hlen : (pre.filter fun et => decide (com S et.2 > 0)).length ≤ 1)
    (hS2 : S ≠ []) (hsub : SubS S (leavesL pre)) :
    ∃ et ∈ pre, SubS et.2.leaves S ∧ SubS S et.2.leaves := by
  obtain ⟨a0, ha0⟩ := List.exists_mem_of_ne_nil S hS2
  obtain ⟨et, het, hae⟩ := mem_leavesL.1 (hsub a0 ha0)
  have hpos : com S et.2 > 0 := by
    have : a0 ∈ et.2.leaves.filter S.contains := List.mem_filter.2 ⟨hae, by simpa using ha0⟩
    exact List.length_pos_of_mem this
  have hetA : et ∈ pre.filter fun et => decide (com S et.2 > 0) := List.mem_filter.2 ⟨het, by simpa using hpos⟩
  refine ⟨et, het, pure_of_notMixed (hpre et het) hpos, ?_⟩
  intro a ha
  obtain ⟨et', het', hae'⟩ := mem_leavesL.1 (hsub a ha)
  have hpos' : com S et'.2 > 0 := by
    have : a ∈ et'.2.leaves.filter S.contains := List.mem_filter.2 ⟨hae', by simpa using ha⟩
    exact List.length_pos_of_mem this
  have het'A : et' ∈ pre.filter fun et => decide (com S et.2 > 0) := List.mem_filter.2 ⟨het', by simpa using hpos'⟩
  -- a list of length ≤ 1 has at most one element
  have : et' = et := by
    generalize (pre.filter fun et => decide (com S et.2 > 0)) = A at hlen hetA het'A
    match A, hlen, hetA, het'A with
    | [x], _, h1, h2 =>
      simp only [List.mem_singleton] at h1 h2
      rw [h1, h2]
  rw [← this]; exact hae'

theorem cover_AB {S : List String} {pre : Kids} (hpre : ∀ et ∈ pre, NotMixed S et) :
    ∀ a ∈ leavesL pre, a ∈ S ∨ ∃ et ∈ pre.filter (fun et => !decide (com S et.2 > 0)), a ∈ et.2.leaves := by
  intro a ha
  obtain ⟨et, het, hae⟩ := mem_leavesL.1 ha
  by_cases hp : com S et.2 > 0
  · exact Or.inl (pure_of_notMixed (hpre et het) hp a hae)
  · exact Or.inr ⟨et, List.mem_filter.2 ⟨het, by simpa using hp⟩, hae⟩

/-- the other children (no tip in `S`) are at least two, else the clade of the
    single one would be the complementary side -/
theorem B_two {S tips : List String} {pre : Kids} (hpre : ∀ et ∈ pre, NotMixed S et)
    (hnode : NodeOK S tips pre) (hout : ∃ a ∈ tips, a ∉ S)
    (hcov : ∀ a ∈ tips, a ∈ leavesL pre ∨ a ∈ S) :
    2 ≤ (pre.filter fun et => !decide (com S et.2 > 0)).length := by
  have hc := cover_AB hpre
  generalize hB : (pre.filter fun et => !decide (com S et.2 > 0)) = B at hc
  match B, hB with
  | [], _ =>
    exfalso
    obtain ⟨a, hat, has⟩ := hout
    rcases hcov a hat with h | h
    · rcases hc a h with h' | ⟨et, het, _⟩
      · exact has h'
      · cases het
    · exact has h
  | [Y], hB =>
    exfalso
    have hYB : Y ∈ pre.filter fun et => !decide (com S et.2 > 0) := by rw [hB]; simp
    have hY := List.mem_filter.1 hYB
    have hz : com S Y.2 = 0 := by
      have := hY.2; simp only [Bool.not_eq_true', decide_eq_false_iff_not] at this; omega
    have hclade := hnode.clades ⟨Y.2.leaves, Y.1, Y.2.isLeaf⟩ (mem_splitsL.2 ⟨Y, hY.1, mem_blk_self Y⟩)
    apply hclade.neC
    refine ⟨none_of_com_zero hz, ?_⟩
    intro a hat
    rcases hcov a hat with h | h
    · rcases hc a h with h' | ⟨et, het, hae⟩
      · exact Or.inr h'
      · simp only [List.mem_singleton] at het; subst het; exact Or.inl hae
    · exact Or.inr h
  | _ :: _ :: _, _ => simp

/-- the case "no child is mixed": the branch is added (or handed to the parent) -/
theorem insK_nil_adds (S tips : List String) (hS : S.Nodup) (hS2 : 2 ≤ S.length) (hT : tips.Nodup)
    (hST : SubS S tips) (hout : ∃ a ∈ tips, a ∉ S) (len sup : Rat)
    (isRoot : Bool) (outside : Nat) (pre : Kids)
    (hpre : ∀ et ∈ pre, NotMixed S et) (hnode : NodeOK S tips pre)
    (hroot : isRoot = true → SubS tips (leavesL pre))
    (hnon : isRoot = false → outside = tips.length - (leavesL pre).length ∧
      (SubS S (leavesL pre) ∨ ∀ a ∈ tips, a ∈ leavesL pre ∨ a ∈ S) ∧
      ¬ (SubS (leavesL pre) S ∧ SubS S (leavesL pre))) :
    Adds S S.length tips.length len sup (insK S S.length tips.length len sup isRoot outside pre []) := by
  obtain ⟨p1, _, p3, _⟩ := pure_split S pre hpre
  have hAB := length_filter_add (fun et => decide (com S et.2 > 0)) pre
  have hSne : S ≠ [] := by intro h; rw [h] at hS2; simp at hS2
  generalize hA : (pre.filter fun et => decide (com S et.2 > 0)) = A at *
  generalize hB : (pre.filter fun et => !decide (com S et.2 > 0)) = B at *
  have hunf : insK S S.length tips.length len sup isRoot outside pre [] =
      if (isRoot || S.length - comL S pre == 0) = true then
        (if (decide (A.length ≤ 1) || decide (A.length + 1 ≥ pre.length + (if isRoot = true then 0 else 1))) = true
          then .done pre
          else .done (B ++ [(newEdge len sup, .node ⟨"", []⟩ A.length (A.map moved))]))
      else if (S.length - comL S pre == outside) = true then
        (if A.length + 1 ≥ pre.length then .done pre else .lift B (A.map moved))
      else .fail "mono" := by
    simp only [insK, hA, hB]
  rw [hunf]
  by_cases hcase : (isRoot || S.length - comL S pre == 0) = true
  · rw [if_pos hcase]
    -- all of S is below this node
    have hallS : SubS S (leavesL pre) := by
      rcases Bool.or_eq_true_iff.1 hcase with h | h
      · exact fun a ha => hroot h a (hST a ha)
      · have : S.length - comL S pre = 0 := by simpa using h
        exact S_below S hS pre hnode.nd (by omega)
    have hA2 : ¬ A.length ≤ 1 := by
      intro hle
      obtain ⟨et, het, h1, h2⟩ := single_A hpre (by rw [hA]; exact hle) hSne hallS
      exact (hnode.clades ⟨et.2.leaves, et.1, et.2.isLeaf⟩ (mem_splitsL.2 ⟨et, het, mem_blk_self et⟩)).neS ⟨h1, h2⟩
    have hB2 : ¬ (A.length + 1 ≥ pre.length + (if isRoot = true then 0 else 1)) := by
      intro hge
      cases hr : isRoot with
      | true =>
        have := B_two hpre hnode hout (fun a ha => Or.inl (hroot hr a ha))
        rw [hB] at this
        simp only [hr, if_true] at hge; omega
      | false =>
        simp only [hr, Bool.false_eq_true, if_false] at hge
        have hB0 : B = [] := List.eq_nil_of_length_eq_zero (by omega)
        apply (hnon hr).2.2
        refine ⟨?_, hallS⟩
        intro a ha
        rcases cover_AB hpre a ha with h | ⟨et, het, _⟩
        · exact h
        · rw [hB, hB0] at het; cases het
    rw [if_neg (by simp only [Bool.or_eq_true, decide_eq_true_eq, not_or]; exact ⟨hA2, hB2⟩)]
    have hAne : A.map moved ≠ [] := by
      intro h; rw [List.map_eq_nil_iff] at h; rw [h] at hA2; simp at hA2
    show ∃ s' ∈ splitsL (B ++ [(newEdge len sup, T.node ⟨"", []⟩ A.length (A.map moved))]), _
    refine ⟨⟨leavesL A, newEdge len sup, false⟩, ?_, rfl, rfl, Or.inl ⟨p1, ?_⟩⟩
    · rw [splitsL_append, splitsL_cons, blk_node _ _ _ _ hAne, leavesL_map_moved]
      exact List.mem_append_right _ (List.mem_append_left _ List.mem_cons_self)
    · intro a ha
      have := mem_A_of_mem (hallS a ha) ha
      rw [hA] at this; exact this
  · rw [if_neg hcase]
    simp only [Bool.or_eq_true, not_or, Bool.not_eq_true] at hcase
    have hr : isRoot = false := hcase.1
    obtain ⟨ho, hV, _⟩ := hnon hr
    have hoc : S.length - comL S pre ≠ 0 := by simpa using hcase.2
    -- S is not entirely below: the outside is inside S
    have hcov : ∀ a ∈ tips, a ∈ leavesL pre ∨ a ∈ S := by
      rcases hV with h | h
      · exfalso
        have := length_filter_of_sub hS hnode.nd h
        rw [← comL_eq] at this
        omega
      · exact h
    have hcount := count_cover hS hnode.nd hT hST hnode.sub hcov
    rw [← comL_eq] at hcount
    have hlift : (S.length - comL S pre == outside) = true := by rw [ho, hcount]; simp
    rw [if_pos hlift]
    have hB2 := B_two hpre hnode hout hcov
    rw [hB] at hB2
    rw [if_neg (by omega)]
    trivial

mutual
theorem insT_adds (S tips : List String) (hS : S.Nodup) (hS2 : 2 ≤ S.length) (hT : tips.Nodup)
    (hST : SubS S tips) (hout : ∃ a ∈ tips, a ∉ S) (len sup : Rat) : ∀ t : T,
    NodeOK S tips t.kids →
    (SubS S (leavesL t.kids) ∨ ∀ a ∈ tips, a ∈ leavesL t.kids ∨ a ∈ S) →
    ¬ (SubS (leavesL t.kids) S ∧ SubS S (leavesL t.kids)) →
    Adds S S.length tips.length len sup (insT S S.length tips.length len sup t)
  | .node d p k => fun hnode hV hne => by
    have := insK_adds S tips hS hS2 hT hST hout len sup false (tips.length - (leavesL k).length) [] k
      (by simp) (by simpa using hnode) (by intro h; cases h)
      (by intro _; exact ⟨by simp, by simpa using hV, by simpa using hne⟩)
    simpa [insT] using this
theorem insK_adds (S tips : List String) (hS : S.Nodup) (hS2 : 2 ≤ S.length) (hT : tips.Nodup)
    (hST : SubS S tips) (hout : ∃ a ∈ tips, a ∉ S) (len sup : Rat)
    (isRoot : Bool) (outside : Nat) : ∀ (pre rest : Kids),
    (∀ et ∈ pre, NotMixed S et) → NodeOK S tips (pre ++ rest) →
    (isRoot = true → SubS tips (leavesL (pre ++ rest))) →
    (isRoot = false → outside = tips.length - (leavesL (pre ++ rest)).length ∧
      (SubS S (leavesL (pre ++ rest)) ∨ ∀ a ∈ tips, a ∈ leavesL (pre ++ rest) ∨ a ∈ S) ∧
      ¬ (SubS (leavesL (pre ++ rest)) S ∧ SubS S (leavesL (pre ++ rest)))) →
    Adds S S.length tips.length len sup (insK S S.length tips.length len sup isRoot outside pre rest)
  | pre, [] => fun hpre hnode hroot hnon => by
    have := insK_nil_adds S tips hS hS2 hT hST hout len sup isRoot outside pre hpre
      (by simpa using hnode) (by simpa using hroot) (by simpa using hnon)
    simpa using this
  | pre, (e, .node d p k) :: r => fun hpre hnode hroot hnon => by
    have hunf : insK S S.length tips.length len sup isRoot outside pre ((e, .node d p k) :: r) =
        if (decide (0 < com S (.node d p k)) && decide (com S (.node d p k) < (T.node d p k).leaves.length)) = true then
          (if (S.length - com S (.node d p k) == 0 ||
              S.length - com S (.node d p k) == tips.length - (T.node d p k).leaves.length) = true then
            (match insT S S.length tips.length len sup (.node d p k) with
              | .done k' => .done (pre ++ (e, withKids (.node d p k) k') :: r)
              | .lift k' up => .done (pre ++ ((moved (e, .node d p k)).1,
                  .node ⟨"", []⟩ 0 (up ++ [(newEdge len sup, withKids (.node d p k) k')])) :: r)
              | .fail w => .fail w)
          else .fail "mono")
        else insK S S.length tips.length len sup isRoot outside (pre ++ [(e, .node d p k)]) r := by
      simp only [insK]
      rfl
    rw [hunf]
    by_cases hmix : (decide (0 < com S (.node d p k)) && decide (com S (.node d p k) < (T.node d p k).leaves.length)) = true
    · rw [if_pos hmix]
      simp only [Bool.and_eq_true, decide_eq_true_eq] at hmix
      have hk : k ≠ [] := by
        intro h; subst h
        have := com_le S (.node d p [])
        simp only [T.leaves, List.length_singleton] at hmix this
        omega
      have hmem : (e, T.node d p k) ∈ pre ++ (e, T.node d p k) :: r := by simp
      have hXnd : (T.node d p k).leaves.Nodup := nodup_parts hnode.nd
      have hXsub : SubS (T.node d p k).leaves tips := fun a ha =>
        hnode.sub a (leaves_sub_of_mem hmem a ha)
      have hclade := hnode.clades ⟨(T.node d p k).leaves, e, (T.node d p k).isLeaf⟩
        (mem_splitsL.2 ⟨_, hmem, mem_blk_self _⟩)
      -- the mixed child contains S or covers its complement
      have hV : SubS S (T.node d p k).leaves ∨ ∀ a ∈ tips, a ∈ (T.node d p k).leaves ∨ a ∈ S := by
        rcases hclade.compat with h | h | h | h
        · exfalso
          have : (T.node d p k).leaves.filter S.contains = [] := by
            rw [List.filter_eq_nil_iff]; intro a ha; simpa using h a ha
          have hc : com S (T.node d p k) = 0 := by unfold com; rw [this]; rfl
          omega
        · exfalso
          have : com S (T.node d p k) = (T.node d p k).leaves.length := by
            unfold com; rw [List.length_filter_eq_length_iff]; intro a ha; simpa using h a ha
          omega
        · exact Or.inl h
        · exact Or.inr h
      have hside : (S.length - com S (.node d p k) == 0 ||
          S.length - com S (.node d p k) == tips.length - (T.node d p k).leaves.length) = true := by
        rcases hV with h | h
        · have := length_filter_of_sub hS hXnd h
          have hc : com S (T.node d p k) = S.length := this
          simp [hc]
        · have := count_cover hS hXnd hT hST hXsub h
          have hc : S.length - com S (T.node d p k) = tips.length - (T.node d p k).leaves.length := this
          simp [hc]
      rw [if_pos hside]
      have hleaves : (T.node d p k).leaves = leavesL k := leaves_node_ne _ _ _ hk
      have hnodek : NodeOK S tips k := by
        refine ⟨by rw [← hleaves]; exact hXnd, by rw [← hleaves]; exact hXsub, ?_⟩
        intro s hs
        apply hnode.clades
        refine mem_splitsL.2 ⟨_, hmem, ?_⟩
        rw [blk_node _ _ _ _ hk]; exact List.mem_cons_of_mem _ hs
      have ih := insT_adds S tips hS hS2 hT hST hout len sup (.node d p k) (by simpa using hnodek)
        (by simpa [hleaves] using hV)
        (by simp only [T.kids_node, ← hleaves]; exact hclade.neS)
      have ispec := insT_spec S hS S.length tips.length rfl len sup (.node d p k) (by simpa using hnodek.nd)
      simp only [T.kids_node] at ispec
      cases hres : insT S S.length tips.length len sup (.node d p k) with
      | fail w => rw [hres] at ih; exact ih.elim
      | done k' =>
        rw [hres] at ih
        obtain ⟨s', hs', hnew⟩ := ih
        have hk' : k' ≠ [] := by intro h; subst h; simp [splitsL] at hs'
        show ∃ s ∈ splitsL (pre ++ (e, T.node d p k') :: r), _
        refine ⟨s', ?_, hnew⟩
        rw [splitsL_append, splitsL_cons, blk_node _ _ _ _ hk']
        exact List.mem_append_right _ (List.mem_append_left _ (List.mem_cons_of_mem _ hs'))
      | lift k' up =>
        rw [hres] at ispec
        obtain ⟨_, _, _, _, i4, i5, hk'⟩ := ispec
        show ∃ s ∈ splitsL (pre ++ ((moved (e, T.node d p k)).1,
            T.node ⟨"", []⟩ 0 (up ++ [(newEdge len sup, T.node d p k')])) :: r), _
        have hne : up ++ [(newEdge len sup, T.node d p k')] ≠ [] := by simp
        refine ⟨⟨leavesL k', newEdge len sup, false⟩, ?_, rfl, rfl, Or.inr ⟨i4, i5⟩⟩
        rw [splitsL_append, splitsL_cons, blk_node _ _ _ _ hne, splitsL_append, splitsL_cons,
          blk_node _ _ _ _ hk']
        apply List.mem_append_right
        apply List.mem_append_left
        apply List.mem_cons_of_mem
        apply List.mem_append_right
        apply List.mem_append_left
        exact List.mem_cons_self
    · rw [if_neg hmix]
      have hnm : NotMixed S (e, .node d p k) := by
        unfold NotMixed
        simpa [Bool.and_eq_true] using hmix
      have := insK_adds S tips hS hS2 hT hST hout len sup isRoot outside (pre ++ [(e, .node d p k)]) r
        (by
          intro et het
          rcases List.mem_append.1 het with h | h
          · exact hpre et h
          · simp only [List.mem_singleton] at h; subst h; exact hnm)
        (by simpa using hnode) (by simpa using hroot) (by simpa using hnon)
      simpa using this
end

/-- DESIGN Appendix F, single-insertion lemma.  `t` has unique tips and a root of
    degree ≠ 1; `names` (≥ 2 tips of `t`, not all of them, no repetition) is
    compatible with the tips below every branch of `t` and neither it nor its
    complement is the set of tips below a branch.  Then `insertSplit` succeeds, and
    the result has a new branch (`IsNew`): it carries `(len, sup)` and the tips
    below it are exactly `names` or exactly the other tips. -/
theorem insertSplit_adds (names : List String) (len sup : Rat) (t : T)
    (hnd : t.tipNames.Nodup) (hdeg : t.kids.length ≠ 1) (hn : names.Nodup) (h2 : 2 ≤ names.length)
    (hsub : SubS names t.tipNames) (hout : ∃ a ∈ t.tipNames, a ∉ names)
    (hclades : ∀ s ∈ t.splits, CladeOK names t.tipNames s.below) :
    ∃ t', insertSplit names len sup t = .ok t' ∧
      ∃ s' ∈ t'.splits, IsNew names names.length t.tipNames.length len sup s' := by
  have htips : t.tipNames = leavesL t.kids := by
    unfold T.tipNames
    have : (t.kids.length == 1) = false := by simpa using hdeg
    simp [this]
  have hfil : names.filter t.tipNames.contains = names := by
    rw [List.filter_eq_self]; intro a ha; simpa using hsub a ha
  have hne : names ≠ [] := by intro h; rw [h] at h2; simp at h2
  unfold insertSplit
  simp only [hfil]
  have h1 : names.isEmpty = false := by
    cases names with
    | nil => exact absurd rfl hne
    | cons _ _ => rfl
  have h3 : (t.tipNames.all names.contains) = false := by
    obtain ⟨a, ha, hna⟩ := hout
    rw [List.all_eq_false]
    exact ⟨a, ha, by simpa using hna⟩
  simp only [h1, h3, Bool.false_eq_true, if_false]
  cases t with
  | node d p k =>
    simp only [T.kids_node] at htips
    have hadds := insK_adds names (T.node d p k).tipNames hn h2 hnd hsub hout len sup true 0 [] k
      (by simp)
      (by
        simp only [List.nil_append]
        exact ⟨by rw [← htips]; exact hnd, by rw [← htips]; exact fun a h => h, hclades⟩)
      (by intro _; simp only [List.nil_append]; rw [← htips]; exact fun a h => h)
      (by intro h; cases h)
    simp only
    cases hres : insK names names.length (T.node d p k).tipNames.length len sup true 0 [] k with
    | done k' =>
      rw [hres] at hadds
      exact ⟨.node d p k', rfl, hadds⟩
    | lift k' up =>
      -- impossible at the root
      exfalso
      have : ∀ (pre rest : Kids) (o : Nat), ∀ k' up, insK names names.length (T.node d p k).tipNames.length len sup true o pre rest ≠ .lift k' up := by
        intro pre rest
        induction rest generalizing pre with
        | nil => intro o k' up; simp only [insK, Bool.true_or, if_true]; split <;> simp
        | cons et rest ih =>
          intro o k' up
          obtain ⟨e, t⟩ := et
          simp only [insK]
          split
          · split
            · split <;> simp
            · simp
          · exact ih _ _ _ _
      exact this [] k 0 k' up hres
    | fail w => rw [hres] at hadds; exact hadds.elim

end Gotree.C09
