/-
  C04 — helper lemmas about `Quartet.HashCode`'s sorting network.  Core Lean only.
-/
import Gotree.Spec.C04
namespace Gotree.C04

theorem cx (a b : Nat) : (if b < a then (b, a) else (a, b)) = (min a b, max a b) := by
  split <;> simp only [Prod.mk.injEq] <;> omega
theorem cx' (a b : Nat) : (if a < b then (b, a) else (a, b)) = (max a b, min a b) := by
  split <;> simp only [Prod.mk.injEq] <;> omega

theorem sorted4_closed (q : Quartet) : q.sorted4 =
    (min (min q.t1 q.t2) (min q.t3 q.t4),
     min (max (min q.t1 q.t2) (min q.t3 q.t4)) (min (max q.t1 q.t2) (max q.t3 q.t4)),
     max (max (min q.t1 q.t2) (min q.t3 q.t4)) (min (max q.t1 q.t2) (max q.t3 q.t4)),
     max (max q.t1 q.t2) (max q.t3 q.t4)) := by
  unfold Quartet.sorted4
  simp only [cx, cx']

/-- closes `sorted4 ⟨a,b,c,d⟩ = sorted4 ⟨σ(a,b,c,d)⟩` by splitting on the 6 pairwise orders -/
macro "q_fin" a:ident b:ident c:ident d:ident : tactic => `(tactic|
  (simp only [sorted4_closed, Prod.mk.injEq]
   rcases Nat.le_total $a $b with h1 | h1 <;> rcases Nat.le_total $c $d with h2 | h2 <;>
   rcases Nat.le_total $a $c with h3 | h3 <;> rcases Nat.le_total $b $d with h4 | h4 <;>
   rcases Nat.le_total $a $d with h5 | h5 <;> rcases Nat.le_total $b $c with h6 | h6 <;>
   simp only [Nat.min_eq_left, Nat.min_eq_right, Nat.max_eq_left, Nat.max_eq_right, h1, h2, h3, h4, h5, h6, true_and, and_true, and_self] <;>
   omega))

theorem s4_abdc (a b c d : Nat) : Quartet.sorted4 ⟨a, b, c, d⟩ = Quartet.sorted4 ⟨a, b, d, c⟩ := by q_fin a b c d
theorem s4_acbd (a b c d : Nat) : Quartet.sorted4 ⟨a, b, c, d⟩ = Quartet.sorted4 ⟨a, c, b, d⟩ := by q_fin a b c d
theorem s4_acdb (a b c d : Nat) : Quartet.sorted4 ⟨a, b, c, d⟩ = Quartet.sorted4 ⟨a, c, d, b⟩ := by q_fin a b c d
theorem s4_adbc (a b c d : Nat) : Quartet.sorted4 ⟨a, b, c, d⟩ = Quartet.sorted4 ⟨a, d, b, c⟩ := by q_fin a b c d
theorem s4_adcb (a b c d : Nat) : Quartet.sorted4 ⟨a, b, c, d⟩ = Quartet.sorted4 ⟨a, d, c, b⟩ := by q_fin a b c d
theorem s4_bacd (a b c d : Nat) : Quartet.sorted4 ⟨a, b, c, d⟩ = Quartet.sorted4 ⟨b, a, c, d⟩ := by q_fin a b c d
theorem s4_badc (a b c d : Nat) : Quartet.sorted4 ⟨a, b, c, d⟩ = Quartet.sorted4 ⟨b, a, d, c⟩ := by q_fin a b c d
theorem s4_bcad (a b c d : Nat) : Quartet.sorted4 ⟨a, b, c, d⟩ = Quartet.sorted4 ⟨b, c, a, d⟩ := by q_fin a b c d
theorem s4_bcda (a b c d : Nat) : Quartet.sorted4 ⟨a, b, c, d⟩ = Quartet.sorted4 ⟨b, c, d, a⟩ := by q_fin a b c d
theorem s4_bdac (a b c d : Nat) : Quartet.sorted4 ⟨a, b, c, d⟩ = Quartet.sorted4 ⟨b, d, a, c⟩ := by q_fin a b c d
theorem s4_bdca (a b c d : Nat) : Quartet.sorted4 ⟨a, b, c, d⟩ = Quartet.sorted4 ⟨b, d, c, a⟩ := by q_fin a b c d
theorem s4_cabd (a b c d : Nat) : Quartet.sorted4 ⟨a, b, c, d⟩ = Quartet.sorted4 ⟨c, a, b, d⟩ := by q_fin a b c d
theorem s4_cadb (a b c d : Nat) : Quartet.sorted4 ⟨a, b, c, d⟩ = Quartet.sorted4 ⟨c, a, d, b⟩ := by q_fin a b c d
theorem s4_cbad (a b c d : Nat) : Quartet.sorted4 ⟨a, b, c, d⟩ = Quartet.sorted4 ⟨c, b, a, d⟩ := by q_fin a b c d
theorem s4_cbda (a b c d : Nat) : Quartet.sorted4 ⟨a, b, c, d⟩ = Quartet.sorted4 ⟨c, b, d, a⟩ := by q_fin a b c d
theorem s4_cdab (a b c d : Nat) : Quartet.sorted4 ⟨a, b, c, d⟩ = Quartet.sorted4 ⟨c, d, a, b⟩ := by q_fin a b c d
theorem s4_cdba (a b c d : Nat) : Quartet.sorted4 ⟨a, b, c, d⟩ = Quartet.sorted4 ⟨c, d, b, a⟩ := by q_fin a b c d
theorem s4_dabc (a b c d : Nat) : Quartet.sorted4 ⟨a, b, c, d⟩ = Quartet.sorted4 ⟨d, a, b, c⟩ := by q_fin a b c d
theorem s4_dacb (a b c d : Nat) : Quartet.sorted4 ⟨a, b, c, d⟩ = Quartet.sorted4 ⟨d, a, c, b⟩ := by q_fin a b c d
theorem s4_dbac (a b c d : Nat) : Quartet.sorted4 ⟨a, b, c, d⟩ = Quartet.sorted4 ⟨d, b, a, c⟩ := by q_fin a b c d
theorem s4_dbca (a b c d : Nat) : Quartet.sorted4 ⟨a, b, c, d⟩ = Quartet.sorted4 ⟨d, b, c, a⟩ := by q_fin a b c d
theorem s4_dcab (a b c d : Nat) : Quartet.sorted4 ⟨a, b, c, d⟩ = Quartet.sorted4 ⟨d, c, a, b⟩ := by q_fin a b c d
theorem s4_dcba (a b c d : Nat) : Quartet.sorted4 ⟨a, b, c, d⟩ = Quartet.sorted4 ⟨d, c, b, a⟩ := by q_fin a b c d

macro "q_close" : tactic => `(tactic| first | rfl | exact s4_abdc _ _ _ _ | exact s4_acbd _ _ _ _ | exact s4_acdb _ _ _ _ | exact s4_adbc _ _ _ _ | exact s4_adcb _ _ _ _ | exact s4_bacd _ _ _ _ | exact s4_badc _ _ _ _ | exact s4_bcad _ _ _ _ | exact s4_bcda _ _ _ _ | exact s4_bdac _ _ _ _ | exact s4_bdca _ _ _ _ | exact s4_cabd _ _ _ _ | exact s4_cadb _ _ _ _ | exact s4_cbad _ _ _ _ | exact s4_cbda _ _ _ _ | exact s4_cdab _ _ _ _ | exact s4_cdba _ _ _ _ | exact s4_dabc _ _ _ _ | exact s4_dacb _ _ _ _ | exact s4_dbac _ _ _ _ | exact s4_dbca _ _ _ _ | exact s4_dcab _ _ _ _ | exact s4_dcba _ _ _ _)

theorem sorted4_of_hashEquals (q q' : Quartet) (h : q.hashEquals q' = true) : q.sorted4 = q'.sorted4 := by
  obtain ⟨a, b, c, d⟩ := q
  obtain ⟨a', b', c', d'⟩ := q'
  unfold Quartet.hashEquals Quartet.compare at h
  dsimp only at h
  repeat' split at h
  all_goals first
    | (rename_i hc
       simp only [Bool.and_eq_true, Bool.or_eq_true, beq_iff_eq] at hc
       obtain ⟨⟨h1, h2⟩ | ⟨h1, h2⟩, ⟨h3, h4⟩ | ⟨h3, h4⟩⟩ := hc <;> subst h1 h2 h3 h4 <;> q_close)
    | exact absurd h (by decide)
/-! ## `HashEquals` ⇔ same four taxa -/

theorem peel_gen (x : Nat) (l l' : List Nat) (h : (x :: l).Perm l') :
    ∃ l₁ l₂, l' = l₁ ++ x :: l₂ ∧ l.Perm (l₁ ++ l₂) := by
  have hm : x ∈ l' := h.subset (List.mem_cons_self ..)
  obtain ⟨s, t, e⟩ := List.append_of_mem hm
  refine ⟨s, t, e, ?_⟩
  subst e
  exact List.Perm.cons_inv (h.trans List.perm_middle)

theorem peel4 (x : Nat) (l : List Nat) (y1 y2 y3 y4 : Nat) (h : (x :: l).Perm [y1, y2, y3, y4]) :
    (x = y1 ∧ l.Perm [y2, y3, y4]) ∨ (x = y2 ∧ l.Perm [y1, y3, y4]) ∨ (x = y3 ∧ l.Perm [y1, y2, y4]) ∨
    (x = y4 ∧ l.Perm [y1, y2, y3]) := by
  obtain ⟨l₁, l₂, e, p⟩ := peel_gen x l _ h
  rcases l₁ with _ | ⟨z1, _ | ⟨z2, _ | ⟨z3, _ | ⟨z4, l₁⟩⟩⟩⟩ <;> simp at e
  · obtain ⟨rfl, rfl⟩ := e; exact Or.inl ⟨rfl, p⟩
  · obtain ⟨rfl, rfl, rfl⟩ := e; exact Or.inr (Or.inl ⟨rfl, p⟩)
  · obtain ⟨rfl, rfl, rfl, rfl⟩ := e; exact Or.inr (Or.inr (Or.inl ⟨rfl, p⟩))
  · obtain ⟨rfl, rfl, rfl, rfl, rfl⟩ := e; exact Or.inr (Or.inr (Or.inr ⟨rfl, p⟩))

theorem peel3 (x : Nat) (l : List Nat) (y1 y2 y3 : Nat) (h : (x :: l).Perm [y1, y2, y3]) :
    (x = y1 ∧ l.Perm [y2, y3]) ∨ (x = y2 ∧ l.Perm [y1, y3]) ∨ (x = y3 ∧ l.Perm [y1, y2]) := by
  obtain ⟨l₁, l₂, e, p⟩ := peel_gen x l _ h
  rcases l₁ with _ | ⟨z1, _ | ⟨z2, _ | ⟨z3, l₁⟩⟩⟩ <;> simp at e
  · obtain ⟨rfl, rfl⟩ := e; exact Or.inl ⟨rfl, p⟩
  · obtain ⟨rfl, rfl, rfl⟩ := e; exact Or.inr (Or.inl ⟨rfl, p⟩)
  · obtain ⟨rfl, rfl, rfl, rfl⟩ := e; exact Or.inr (Or.inr ⟨rfl, p⟩)

theorem peel2 (x : Nat) (l : List Nat) (y1 y2 : Nat) (h : (x :: l).Perm [y1, y2]) :
    (x = y1 ∧ l.Perm [y2]) ∨ (x = y2 ∧ l.Perm [y1]) := by
  obtain ⟨l₁, l₂, e, p⟩ := peel_gen x l _ h
  rcases l₁ with _ | ⟨z1, _ | ⟨z2, l₁⟩⟩ <;> simp at e
  · obtain ⟨rfl, rfl⟩ := e; exact Or.inl ⟨rfl, p⟩
  · obtain ⟨rfl, rfl, rfl⟩ := e; exact Or.inr ⟨rfl, p⟩

theorem hashEquals_of_perm (q q' : Quartet) (h : q.taxa.Perm q'.taxa) : q.hashEquals q' = true := by
  obtain ⟨a, b, c, d⟩ := q
  obtain ⟨a', b', c', d'⟩ := q'
  simp only [Quartet.taxa] at h
  rcases peel4 _ _ _ _ _ _ h with ⟨rfl, h1⟩ | ⟨rfl, h1⟩ | ⟨rfl, h1⟩ | ⟨rfl, h1⟩ <;>
  rcases peel3 _ _ _ _ _ h1 with ⟨rfl, h2⟩ | ⟨rfl, h2⟩ | ⟨rfl, h2⟩ <;>
  rcases peel2 _ _ _ _ h2 with ⟨rfl, h3⟩ | ⟨rfl, h3⟩ <;>
  (have := List.perm_singleton.mp h3; simp only [List.cons.injEq, and_true] at this; subst this
   simp [Quartet.hashEquals, Quartet.compare] <;> (repeat' split) <;> simp)

theorem perm_of_hashEquals (q q' : Quartet) (h : q.hashEquals q' = true) : q.taxa.Perm q'.taxa := by
  obtain ⟨a, b, c, d⟩ := q
  obtain ⟨a', b', c', d'⟩ := q'
  unfold Quartet.hashEquals Quartet.compare at h
  dsimp only at h
  simp only [Quartet.taxa]
  repeat' split at h
  all_goals first
    | (rename_i hc
       simp only [Bool.and_eq_true, Bool.or_eq_true, beq_iff_eq] at hc
       obtain ⟨⟨h1, h2⟩ | ⟨h1, h2⟩, ⟨h3, h4⟩ | ⟨h3, h4⟩⟩ := hc <;> subst h1 h2 h3 h4 <;>
       (apply List.perm_iff_count.mpr; intro x; simp only [List.count_cons, List.count_nil] <;> ac_rfl))
    | exact absurd h (by decide)

theorem cmp_abs (T1 T2 C1 C2 C3 C4 : Bool) :
    (if T1 = true then QCmp.equals else if T2 = true then QCmp.equals else if C1 = true then QCmp.conflict
      else if C2 = true then QCmp.conflict else if C3 = true then QCmp.conflict else if C4 = true then QCmp.conflict else QCmp.diff) =
    if (T1 || T2) = true then QCmp.equals
    else if ((if T1 = true then QCmp.equals else if T2 = true then QCmp.equals else if C1 = true then QCmp.conflict
      else if C2 = true then QCmp.conflict else if C3 = true then QCmp.conflict else if C4 = true then QCmp.conflict else QCmp.diff) != QCmp.diff) = true
      then QCmp.conflict else QCmp.diff := by
  cases T1 <;> cases T2 <;> cases C1 <;> cases C2 <;> cases C3 <;> cases C4 <;> rfl


end Gotree.C04
