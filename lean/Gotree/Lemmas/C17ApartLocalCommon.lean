/-
  C17 — `Apart` at every site: helpers and tactics shared by the two case analyses.
-/
import Gotree.Lemmas.C17Apart

namespace Gotree.C17
open Gotree Gotree.C17.Spec

theorem apart_kids {Z : List String} {isRoot : Bool} {k k' : Kids} (c : SplitE) (jj : Nat) (R : List SplitE)
    (h1 : (splitsL k).Perm (c :: R)) (h2 : (splitsL k').Perm (entryOf k' jj :: R))
    (he : c.e = (entryOf k' jj).e) (ht : c.tip = false) (ht' : (entryOf k' jj).tip = false)
    (hcZ : ∀ x ∈ c.below, x ∈ Z) (hcZ' : ∀ x ∈ (entryOf k' jj).below, x ∈ Z)
    (q1 : ∃ x, x ∈ c.below ∧ x ∈ (entryOf k' jj).below) (q2 : ∃ x, x ∈ c.below ∧ x ∉ (entryOf k' jj).below)
    (q3 : ∃ x, x ∈ Z ∧ x ∉ c.below ∧ x ∈ (entryOf k' jj).below)
    (q4 : isRoot = true → ∃ x, x ∈ Z ∧ x ∉ c.below ∧ x ∉ (entryOf k' jj).below)
    (hR : ∀ s ∈ R, s.below ≠ [] ∧ Within Z c.below (entryOf k' jj).below s.below) :
    Apart Z c.below isRoot (splitsL k) (splitsL k') :=
  ⟨c, entryOf k' jj, R, R, rfl, h1, h2, sameBranches_refl _, he, ht, ht', hcZ, hcZ', q1, q2, q3, q4, hR⟩

/-- the entries of one child's block lie below that child -/
theorem block_sub (e : EdgeD) (t : T) : ∀ s ∈ (⟨t.leaves, e, t.isLeaf⟩ : SplitE) :: t.splitsBelow,
    s.below ≠ [] ∧ ∀ x ∈ s.below, x ∈ t.leaves := by
  intro s hs
  have := below_sub_leavesL [(e, t)] s (by simpa [splitsL] using hs)
  simpa [leavesL] using this

macro "within_block" hsub:ident : tactic => `(tactic|
  (unfold Within
   first
   | exact Or.inl (fun x hx => by have := $hsub x hx; grind)
   | exact Or.inr (Or.inl (fun x hx => by have := $hsub x hx; grind))
   | exact Or.inr (Or.inr (Or.inl (fun x hx => by have := $hsub x hx; grind)))
   | exact Or.inr (Or.inr (Or.inr (Or.inl (fun x hx => by have := $hsub x hx; grind))))))

macro "pick2" a:ident b:ident c:ident d:ident : tactic => `(tactic|
  first
  | exact ⟨$a, by grind, by grind⟩
  | exact ⟨$b, by grind, by grind⟩
  | exact ⟨$c, by grind, by grind⟩
  | exact ⟨$d, by grind, by grind⟩)

macro "pick3" a:ident b:ident c:ident d:ident : tactic => `(tactic|
  first
  | exact ⟨$a, by grind, by grind, by grind⟩
  | exact ⟨$b, by grind, by grind, by grind⟩
  | exact ⟨$c, by grind, by grind, by grind⟩
  | exact ⟨$d, by grind, by grind, by grind⟩)

/-- non-root site: the three blocks `u v y`; the central branch of the new tree is child `jj` -/
macro "apart_at3" jj:num e:ident eu:ident ev:ident ey:ident tu:ident tv:ident ty:ident
    xu:ident xv:ident xy:ident bu:ident bv:ident bY:ident : tactic => `(tactic|
  (refine apart_kids ⟨T.leaves $tu ++ T.leaves $tv, $e, false⟩ $jj
    (((⟨T.leaves $tu, $eu, T.isLeaf $tu⟩ : SplitE) :: T.splitsBelow $tu) ++
      ((⟨T.leaves $tv, $ev, T.isLeaf $tv⟩ : SplitE) :: T.splitsBelow $tv) ++
      ((⟨T.leaves $ty, $ey, T.isLeaf $ty⟩ : SplitE) :: T.splitsBelow $ty))
    (by ev_entries; perm_entries) (by ev_entries; perm_entries) (by ev_entries) rfl (by ev_entries)
    (by ev_entries; intro x hx; simp only [List.mem_append] at hx ⊢; grind)
    (by ev_entries; intro x hx; simp only [List.mem_append] at hx ⊢; grind)
    (by ev_entries; pick2 $xu $xv $xy $xy) (by ev_entries; pick2 $xu $xv $xy $xy) (by ev_entries; pick3 $xu $xv $xy $xy)
    (by intro h; cases h) ?_
   ev_entries
   intro s hs
   simp only [List.mem_append] at hs
   rcases hs with (hs | hs) | hs
   · obtain ⟨hne, hsub⟩ := $bu s hs
     exact ⟨hne, by within_block hsub⟩
   · obtain ⟨hne, hsub⟩ := $bv s hs
     exact ⟨hne, by within_block hsub⟩
   · obtain ⟨hne, hsub⟩ := $bY s hs
     exact ⟨hne, by within_block hsub⟩))

/-- root site: the four blocks `u v y z` -/
macro "apart_at4" jj:num e:ident eu:ident ev:ident ey:ident ez:ident tu:ident tv:ident ty:ident tz:ident
    xu:ident xv:ident xy:ident xz:ident bu:ident bv:ident bY:ident bz:ident : tactic => `(tactic|
  (refine apart_kids ⟨T.leaves $tu ++ T.leaves $tv, $e, false⟩ $jj
    (((⟨T.leaves $tu, $eu, T.isLeaf $tu⟩ : SplitE) :: T.splitsBelow $tu) ++
      ((⟨T.leaves $tv, $ev, T.isLeaf $tv⟩ : SplitE) :: T.splitsBelow $tv) ++
      ((⟨T.leaves $ty, $ey, T.isLeaf $ty⟩ : SplitE) :: T.splitsBelow $ty) ++
      ((⟨T.leaves $tz, $ez, T.isLeaf $tz⟩ : SplitE) :: T.splitsBelow $tz))
    (by ev_entries; perm_entries) (by ev_entries; perm_entries) (by ev_entries) rfl (by ev_entries)
    (by ev_entries; intro x hx; simp only [List.mem_append] at hx ⊢; grind)
    (by ev_entries; intro x hx; simp only [List.mem_append] at hx ⊢; grind)
    (by ev_entries; pick2 $xu $xv $xy $xz) (by ev_entries; pick2 $xu $xv $xy $xz) (by ev_entries; pick3 $xu $xv $xy $xz)
    (by intro _; ev_entries; pick3 $xu $xv $xy $xz) ?_
   ev_entries
   intro s hs
   simp only [List.mem_append] at hs
   rcases hs with ((hs | hs) | hs) | hs
   · obtain ⟨hne, hsub⟩ := $bu s hs
     exact ⟨hne, by within_block hsub⟩
   · obtain ⟨hne, hsub⟩ := $bv s hs
     exact ⟨hne, by within_block hsub⟩
   · obtain ⟨hne, hsub⟩ := $bY s hs
     exact ⟨hne, by within_block hsub⟩
   · obtain ⟨hne, hsub⟩ := $bz s hs
     exact ⟨hne, by within_block hsub⟩))

/-- the leaves below child number `j` -/
def lowerLeaves (k : Kids) (j : Nat) : List String :=
  match k[j]? with
  | some (_, c) => leavesL c.kids
  | none => []

/-- the statement of the local fact for one configuration -/
def LocalApart (path : List Nat) (d1 : NodeD) (cross : Bool) (isRoot : Bool) (p1 : Nat) (k1 : Kids) (j p2 : Nat) : Prop :=
  (leavesL k1).Nodup →
    ∀ S', applyLocal isRoot (newNNI path isRoot p1 j p2 cross) (.node d1 p1 k1) = some S' →
      Apart (leavesL k1) (lowerLeaves k1 j) isRoot (splitsL k1) (splitsL S'.kids)

end Gotree.C17
