/-
  C08 — the rooting / child-order clause as theorems about C05's operation models
  (`C05.reroot`, `C05.rotate`, `C05.moveRoot`): what those operations preserve (C05's
  `reroot_preserves`, `rotate_preserves`, `moveRoot_splits`) is exactly what the record of
  `Compare` depends on.  Core Lean only.
-/
import Gotree.Lemmas.C08Bits
import Gotree.Lemmas.C08HM
import Gotree.Proofs.C05

namespace Gotree.C08
open Gotree List

/-- side and length of every branch, trivial ones included -/
def sideLens (t : T) : List (List String × Rat) := t.usplitsAll.map fun s => (s.side, s.len)

theorem sideLens_perm_parts (t : T) :
    sideLens t ~ (t.usplits.map fun s => (s.side, s.len)) ++ t.tipLens := by
  unfold sideLens T.usplits T.tipLens
  rw [← map_append]
  apply Perm.map
  refine (filter_append_perm (fun s => decide (2 ≤ lightSize t.tipNames s.side)) t.usplitsAll).symm.trans ?_
  apply Perm.append (Perm.refl _)
  apply Perm.of_eq
  apply filter_congr
  intro s _
  by_cases h : 2 ≤ lightSize t.tipNames s.side
  · have : ¬ lightSize t.tipNames s.side ≤ 1 := by omega
    simp [h, this]
  · have : lightSize t.tipNames s.side ≤ 1 := by omega
    simp [h, this]

/-- what C05's operations preserve: tips, non-trivial splits (with data), tip branch lengths -/
structure SameU (t u : T) : Prop where
  tips : u.tipNames ~ t.tipNames
  usp : u.usplits ~ t.usplits
  tl : u.tipLens ~ t.tipLens

theorem SameU.sideLens {t u : T} (h : SameU t u) : sideLens u ~ sideLens t :=
  (sideLens_perm_parts u).trans (((h.usp.map _).append h.tl).trans (sideLens_perm_parts t).symm)

theorem S_eq_sideLens (t : T) : S true t = (sideLens t).map (·.1) := by
  unfold S U sideLens
  simp [map_map, Function.comp_def]

theorem SameU.S_perm {t u : T} (h : SameU t u) (tips : Bool) : S tips u ~ S tips t := by
  cases tips with
  | true => rw [S_eq_sideLens, S_eq_sideLens]; exact h.sideLens.map _
  | false => unfold S U; simp only [Bool.false_eq_true, if_false]; exact h.usp.map _

/-- … hence the same split set, with and without the tip branches -/
theorem SameU.sameSplits {t u : T} (h : SameU t u) (tips : Bool) : sameSplits t u tips = true := by
  have p := h.S_perm tips
  unfold C08.sameSplits diffL
  simp only [Bool.and_eq_true, isEmpty_iff, filter_eq_nil_iff, Bool.not_eq_true', Bool.not_eq_false,
    contains_iff_mem]
  exact ⟨fun x hx => p.mem_iff.mpr hx, fun x hx => p.mem_iff.mp hx⟩

theorem sameTaxa_of_perms {r c r' c' : T} (hT : sameTaxa r c = true)
    (hr : r'.tipNames ~ r.tipNames) (hc : c'.tipNames ~ c.tipNames) : sameTaxa r' c' = true := by
  unfold sameTaxa at *
  simp only [Bool.and_eq_true, all_eq_true, contains_iff_mem] at *
  exact ⟨fun x hx => hc.mem_iff.mpr (hT.1 x (hr.mem_iff.mp hx)), fun x hx => hr.mem_iff.mpr (hT.2 x (hc.mem_iff.mp hx))⟩

theorem uniq_of_unrootedOK {t : T} (h : unrootedOK t = true) : C05.uniq t = true := by
  unfold unrootedOK at h
  simp only [Bool.and_eq_true] at h
  exact (C05.uniq_iff t).mpr (Canon.nodup_of_uniqueTips t h.1.1)

theorem sameU_reroot {t t' : T} {p : List Nat} (hu : C05.uniq t = true) (hl : C05.lensOK t = true)
    (h : C05.reroot t p = .ok t') : SameU t t' := by
  obtain ⟨h1, h2, h3, _⟩ := C05.P.reroot_preserves t t' p hu hl h
  exact ⟨h1, h2, h3⟩

theorem sameU_rotate (t : T) (draws : List Nat) (hl : C05.lensOK t = true) : SameU t (C05.rotate t draws) := by
  obtain ⟨h1, h2, h3, _⟩ := C05.P.rotate_preserves t draws hl
  exact ⟨h1, h2, h3⟩

theorem sameU_moveRoot (t : T) (i : Nat) (hu : C05.uniq t = true) (hl : C05.lensOK t = true) :
    SameU t (C05.moveRoot t i) := by
  obtain ⟨h1, h2, h3⟩ := C05.P.moveRoot_splits t i hu hl
  exact ⟨h1, h2, h3⟩

/-! ## the weighted terms depend on (side, length) of the branches only -/

def pr (s : USplit) : List String × Rat := (s.side, s.len)

def lenOfP (P : List (List String × Rat)) (k : List String) : Option Rat := (P.find? (·.1 == k)).map (·.2)

theorem lenOf_eq_lenOfP (b : List USplit) (k : List String) : lenOf b k = lenOfP (b.map pr) k := by
  unfold lenOf lenOfP
  rw [find?_map, Option.map_map]
  rfl

theorem lenOfP_perm {P P' : List (List String × Rat)} (h : P ~ P') (hn : (P.map (·.1)).Nodup) (k : List String) :
    lenOfP P k = lenOfP P' k := by
  unfold lenOfP
  have key : P.find? (·.1 == k) = P'.find? (·.1 == k) := by
    cases hf : P.find? (·.1 == k) with
    | none =>
      rw [find?_eq_none] at hf
      symm; rw [find?_eq_none]
      exact fun x hx => hf x (h.mem_iff.mpr hx)
    | some x =>
      have hx : x ∈ P := mem_of_find?_eq_some hf
      have hxk : (x.1 == k) = true := find?_some (p := fun z : List String × Rat => z.1 == k) hf
      cases hf' : P'.find? (·.1 == k) with
      | none =>
        rw [find?_eq_none] at hf'
        exact absurd hxk (hf' x (h.mem_iff.mp hx))
      | some y =>
        have hy : y ∈ P := h.mem_iff.mpr (mem_of_find?_eq_some hf')
        have hyk : (y.1 == k) = true := find?_some (p := fun z : List String × Rat => z.1 == k) hf'
        simp only [beq_iff_eq] at hxk hyk
        congr 1
        exact Canon.nodup_map_inj hn hx hy (hxk.trans hyk.symm)
  rw [key]

theorem onlyLens_eq (a b : List USplit) :
    onlyLens a b = ((a.map pr).filter fun p => !(b.map (·.side)).contains p.1).map (·.2) := by
  unfold onlyLens
  rw [filter_map, map_map]
  rfl

theorem onlyLens_congr {a a' b b' : List USplit} (ha : a.map pr ~ a'.map pr)
    (hb : ∀ k, k ∈ b.map (·.side) ↔ k ∈ b'.map (·.side)) : onlyLens a b ~ onlyLens a' b' := by
  rw [onlyLens_eq, onlyLens_eq]
  have : (fun p : List String × Rat => !(b.map (·.side)).contains p.1)
      = (fun p : List String × Rat => !(b'.map (·.side)).contains p.1) := by
    funext p; simp only [contains_eq_mem]; congr 2; exact propext (hb p.1)
  rw [this]
  exact (ha.filter _).map _

theorem commonDiffs_eq (a b : List USplit) :
    commonDiffs a b = (a.map pr).filterMap fun p => (lenOfP (b.map pr) p.1).map fun l => p.2 - l := by
  unfold commonDiffs
  rw [filterMap_map]
  apply Canon.filterMap_congr'
  intro s _
  simp only [Function.comp, lenOf_eq_lenOfP]
  rfl

theorem commonDiffs_congr {a a' b b' : List USplit} (ha : a.map pr ~ a'.map pr) (hb : b.map pr ~ b'.map pr)
    (hn : (b.map (·.side)).Nodup) : commonDiffs a b ~ commonDiffs a' b' := by
  rw [commonDiffs_eq, commonDiffs_eq]
  have hn' : ((b.map pr).map (·.1)).Nodup := by simpa [map_map, Function.comp_def, pr] using hn
  have : (fun p : List String × Rat => (lenOfP (b.map pr) p.1).map fun l => p.2 - l)
      = (fun p : List String × Rat => (lenOfP (b'.map pr) p.1).map fun l => p.2 - l) := by
    funext p; rw [lenOfP_perm hb hn']
  rw [this]
  exact ha.filterMap _

theorem SameU.U_pr {t u : T} (h : SameU t u) (tips : Bool) : (U tips u).map pr ~ (U tips t).map pr := by
  cases tips with
  | true => exact h.sideLens
  | false => unfold U; simp only [Bool.false_eq_true, if_false]; exact h.usp.map _

theorem S_eq_U_pr (tips : Bool) (t : T) : (U tips t).map (·.side) = ((U tips t).map pr).map (·.1) := by
  simp [map_map, Function.comp_def, pr]

theorem SameU.sides_iff {t u : T} (h : SameU t u) (tips : Bool) (k : List String) :
    k ∈ (U tips u).map (·.side) ↔ k ∈ (U tips t).map (·.side) := by
  rw [S_eq_U_pr, S_eq_U_pr]
  exact ((h.U_pr tips).map _).mem_iff

/-- the Spec's weighted terms of (r', c') are those of (r, c) up to order -/
theorem spec_terms_invariant {r c r' c' : T} (tips : Bool) (sr : SameU r r') (sc : SameU c c')
    (hnc : (S tips c').Nodup) :
    onlyLens (U tips r') (U tips c') ~ onlyLens (U tips r) (U tips c) ∧
    onlyLens (U tips c') (U tips r') ~ onlyLens (U tips c) (U tips r) ∧
    commonDiffs (U tips r') (U tips c') ~ commonDiffs (U tips r) (U tips c) :=
  ⟨onlyLens_congr (sr.U_pr tips) (sc.sides_iff tips), onlyLens_congr (sc.U_pr tips) (sr.sides_iff tips),
   commonDiffs_congr (sr.U_pr tips) (sc.U_pr tips) hnc⟩

/-! ## a one-edge root move keeps the shape hypotheses -/

theorem noSingleL_iff (l : Kids) : noSingleL l = true ↔ ∀ p ∈ l, p.2.noSingleBelow = true := by
  induction l with
  | nil => simp [noSingleL]
  | cons x r ih =>
    obtain ⟨e, t⟩ := x
    simp only [noSingleL, Bool.and_eq_true, ih, mem_cons]
    constructor
    · rintro ⟨h1, h2⟩ p (hp | hp)
      · rw [hp]; exact h1
      · exact h2 p hp
    · intro h; exact ⟨h (e, t) (Or.inl rfl), fun p hp => h p (Or.inr hp)⟩

/-- moving the root to an inner child of an unrooted tree of the property gives such a tree -/
theorem unrootedOK_moveRoot (t : T) (i : Nat) (e : EdgeD) (c : T) (h : unrootedOK t = true)
    (hc : t.kids[i]? = some (e, c)) (hin : c.isLeaf = false) : unrootedOK (C05.moveRoot t i) = true := by
  have hu := uniq_of_unrootedOK h
  unfold unrootedOK at h
  simp only [Bool.and_eq_true, decide_eq_true_eq] at h
  obtain ⟨⟨h1, h2⟩, h3⟩ := h
  have hlperm : (C05.moveRoot t i).tipNames ~ t.tipNames := C05.moveRoot_tips t i
  have hu' : (C05.moveRoot t i).uniqueTips = true :=
    (uniqueTips_iff _).mpr (hlperm.symm.nodup ((uniqueTips_iff t).mp h1))
  match t, hc, h2, h3 with
  | .node d p kids, hc, h2, h3 =>
    match c, hin, hc with
    | .node dc pc kc, hin, hc =>
      have hk : ∀ q ∈ kids, q.2.noSingleBelow = true := (noSingleL_iff kids).mp h2
      have hcm : (e, T.node dc pc kc) ∈ kids := mem_of_getElem? hc
      have hcb := hk _ hcm
      simp only [T.noSingleBelow, Bool.and_eq_true, bne_iff_ne, ne_eq] at hcb
      have hkc : 2 ≤ kc.length := by
        have : kc ≠ [] := by intro e0; simp [T.isLeaf, e0] at hin
        have := length_pos_iff.mpr this
        omega
      have hmr : C05.moveRoot (.node d p kids) i
          = .node dc 0 (C05.insertAt kc pc (e, .node d i (kids.eraseIdx i))) := by
        simp only [C05.moveRoot] at hc ⊢
        simp only [T.kids_node] at hc
        rw [hc]
      have hlen : (C05.insertAt kc pc (e, T.node d i (kids.eraseIdx i))).length = kc.length + 1 := by
        simp only [C05.insertAt, length_append, length_cons, length_take, length_drop]; omega
      unfold unrootedOK
      simp only [Bool.and_eq_true, decide_eq_true_eq, hu', true_and]
      rw [hmr]
      refine ⟨?_, by simp only [T.kids_node, hlen]; omega⟩
      show noSingleL (C05.insertAt kc pc (e, T.node d i (kids.eraseIdx i))) = true
      rw [noSingleL_iff]
      intro q hq
      simp only [C05.insertAt, mem_append, mem_cons] at hq
      have hkcs := (noSingleL_iff kc).mp hcb.2
      rcases hq with hq | hq | hq
      · exact hkcs q (mem_of_mem_take hq)
      · rw [hq]
        simp only [T.noSingleBelow, Bool.and_eq_true, bne_iff_ne, ne_eq]
        have hi : i < kids.length := by
          rcases List.getElem?_eq_some_iff.mp hc with ⟨hi, _⟩; exact hi
        simp only [T.kids_node] at h3
        refine ⟨by rw [length_eraseIdx]; simp [hi]; omega, ?_⟩
        rw [noSingleL_iff]
        intro q' hq'
        exact hk q' (mem_of_mem_eraseIdx hq')
      · exact hkcs q (mem_of_mem_drop hq)

/-! ## rotation keeps the shape hypotheses -/

theorem rot_kids_perm (isRoot : Bool) (d : NodeD) (p : Nat) (k : Kids) (ds : List Nat) :
    (C05.rot isRoot (.node d p k) ds).1.kids.Perm
      (C05.rotL k (ds.drop (k.length + (if isRoot then 0 else 1)))).1 := by
  simp only [C05.rot, T.kids_node]
  refine ((C05.shuf_perm _ _ _ _).filterMap _).trans ?_
  cases isRoot
  · simp [C05.filterMap_insertAt_none]
  · simp

mutual
theorem rot_noSingle : ∀ (isRoot : Bool) (t : T) (ds : List Nat),
    (C05.rot isRoot t ds).1.noSingleBelow = t.noSingleBelow
  | isRoot, .node d p k, ds => by
    have hp := rot_kids_perm isRoot d p k ds
    obtain ⟨h1, h2⟩ := rotL_noSingle k (ds.drop (k.length + (if isRoot then 0 else 1)))
    have e : (C05.rot isRoot (.node d p k) ds).1
        = .node (C05.rot isRoot (.node d p k) ds).1.d (C05.rot isRoot (.node d p k) ds).1.ppos
            (C05.rot isRoot (.node d p k) ds).1.kids := by
      cases (C05.rot isRoot (.node d p k) ds).1; rfl
    rw [e]
    simp only [T.noSingleBelow]
    rw [hp.length_eq, h2]
    congr 1
    rw [Bool.eq_iff_iff, noSingleL_iff, ← h1, noSingleL_iff]
    exact ⟨fun h q hq => h q (hp.mem_iff.mpr hq), fun h q hq => h q (hp.mem_iff.mp hq)⟩
theorem rotL_noSingle : ∀ (k : Kids) (ds : List Nat),
    noSingleL (C05.rotL k ds).1 = noSingleL k ∧ (C05.rotL k ds).1.length = k.length
  | [], _ => by simp [C05.rotL]
  | (e, t) :: r, ds => by
    obtain ⟨h1, h2⟩ := rotL_noSingle r (C05.rot false t ds).2
    simp [C05.rotL, noSingleL, rot_noSingle false t ds, h1, h2]
end

theorem noSingleBelow_eq (v : T) : v.noSingleBelow = (v.kids.length != 1 && noSingleL v.kids) := by
  cases v; rfl

/-- `RotateInternalNodes` keeps a tree of the property a tree of the property -/
theorem unrootedOK_rotate (t : T) (draws : List Nat) (h : unrootedOK t = true) :
    unrootedOK (C05.rotate t draws) = true := by
  unfold unrootedOK at h ⊢
  simp only [Bool.and_eq_true, decide_eq_true_eq] at h ⊢
  obtain ⟨⟨h1, h2⟩, h3⟩ := h
  obtain ⟨_, _, _, hlen, _, hleaves⟩ := C05.rot_rel true t draws
  have hns := rot_noSingle true t draws
  have hk : (C05.rotate t draws).kids.length = t.kids.length := hlen
  have hk3 : 3 ≤ (C05.rotate t draws).kids.length := by rw [hk]; exact h3
  refine ⟨⟨?_, ?_⟩, hk3⟩
  · -- unique tips: the tip names are permuted
    have hp : (C05.rotate t draws).tipNames.Perm t.tipNames := by
      rw [Canon.tipNames_eq _ hk3, Canon.tipNames_eq t h3]; exact hleaves
    exact (uniqueTips_iff _).mpr (hp.symm.nodup ((uniqueTips_iff t).mp h1))
  · -- no single-child node
    have e : (C05.rotate t draws).noSingleBelow = t.noSingleBelow := hns
    rw [noSingleBelow_eq, noSingleBelow_eq, hk] at e
    have h2' : noSingleL t.kids = true := h2
    have hne : (t.kids.length != 1) = true := by simp; omega
    rw [h2', hne] at e
    simp only [Bool.and_true, Bool.true_and] at e
    exact e

/-- every node the re-rooting walks through, the target included, is an inner node (in the
    coordinates `rerootP` uses); an index out of range ends the walk, as in `rerootP` -/
def innerPath : T → List Nat → Option Nat → Bool
  | _, [], _ => true
  | t, i :: rest, adj =>
    match t.kids[C05.adjIdx adj i]? with
    | none => true
    | some (_, c) =>
      !c.isLeaf && innerPath (C05.moveRoot t (C05.adjIdx adj i)) rest (some (min c.ppos c.kids.length))

theorem unrootedOK_rerootP : ∀ (path : List Nat) (t : T) (adj : Option Nat) (back : List Nat),
    unrootedOK t = true → innerPath t path adj = true → unrootedOK (C05.rerootP t path adj back).1 = true
  | [], t, _, _, h, _ => by rw [C05.rerootP_nil]; exact h
  | i :: rest, t, adj, back, h, hp => by
    cases hk : t.kids[C05.adjIdx adj i]? with
    | none => rw [C05.rerootP_cons_none t i rest adj back hk]; exact h
    | some ec =>
      obtain ⟨e, c⟩ := ec
      rw [C05.rerootP_cons_some t i rest adj back e c hk]
      simp only [innerPath, hk, Bool.and_eq_true, Bool.not_eq_true'] at hp
      exact unrootedOK_rerootP rest _ _ _ (unrootedOK_moveRoot t _ e c h hk hp.1) hp.2

theorem unrootedOK_reroot {t t' : T} {p : List Nat} (h : unrootedOK t = true) (hp : innerPath t p none = true)
    (hr : C05.reroot t p = .ok t') : unrootedOK t' = true := by
  unfold C05.reroot at hr
  cases hn : C05.nodeAt t p with
  | none => simp [hn] at hr
  | some n =>
    simp only [hn] at hr
    by_cases h2 : (if p.isEmpty then n.kids.length else n.kids.length + 1) < 2
    · rw [if_pos h2] at hr; cases hr
    · rw [if_neg h2] at hr; cases hr; exact unrootedOK_rerootP p t none [] h hp

end Gotree.C08
