package c07

// The library code under test can END THE PROCESS: RemoveEdges calls io.ExitWithMessage (os.Exit) on
// "Problem in edge orientation" and on a failed NodeIndex.  A broken RemoveEdges would therefore kill the
// harness in the middle of a run and the input that did it would be lost (round 7, mutant "left end points
// read once before the loop").  So the whole runner works in a child process — a re-execution of this
// binary with C07_CHILD=1 — and, before every call into the code under test, the child flushes its case
// lines and writes to the file C07_PENDING the case line to emit should it not come back (the request
// fields, outcome `exit:killed`).  When the child dies the parent emits that line: the driver answers
// ORACLE and the request is the replay.

import (
	"fmt"
	"os"
	"os/exec"
	"strings"

	"verifharness/core"
)

var pendingFile = os.Getenv("C07_PENDING")

// pending records what to report if the next call into the code under test ends the process.
func pending(c *core.Ctx, op string, fields ...string) {
	if pendingFile == "" {
		return
	}
	c.W.Flush()
	head := ""
	if replayLine >= 0 {
		head = fmt.Sprintf("#%d\n", replayLine)
	}
	os.WriteFile(pendingFile, []byte(head+op+"\t"+strings.Join(fields, "\t")+"\n"), 0644)
}

// done: the call came back.
func done() {
	if pendingFile != "" {
		os.WriteFile(pendingFile, nil, 0644)
	}
}

// replayLine is the index of the request being replayed (child, replay mode), written in front of the
// pending line so that the parent can restart behind it.
var replayLine = -1

// runInChild re-executes the harness; true when this process is the parent (and the work is done).
// After a death inside a call of the code under test the pending case is emitted and the child is started
// again (at most maxRestarts times): in replay mode behind the request that killed it (C07_SKIP), otherwise
// with another seed (the cases before the death would only be repeated).
func runInChild(c *core.Ctx) bool {
	if os.Getenv("C07_CHILD") != "" {
		return false
	}
	f, err := os.CreateTemp(c.Tmp, "c07-pending-*.txt")
	if err != nil {
		return false // no scratch file: run in-process as before
	}
	f.Close()
	defer os.Remove(f.Name())
	const maxRestarts = 8
	skip := 0
	for attempt := 0; ; attempt++ {
		args := append([]string{}, os.Args[1:]...)
		if attempt > 0 && c.Arg == "" {
			args = append(args, "-seed", fmt.Sprint(c.Seed+int64(attempt)*7919))
		}
		os.WriteFile(f.Name(), nil, 0644)
		cmd := exec.Command(os.Args[0], args...)
		cmd.Env = append(os.Environ(), "C07_CHILD=1", "C07_PENDING="+f.Name(), fmt.Sprintf("C07_SKIP=%d", skip))
		cmd.Stdout = c.W
		cmd.Stderr = os.Stderr
		err = cmd.Run()
		if err == nil {
			return true
		}
		data, _ := os.ReadFile(f.Name())
		line := string(data)
		if len(line) == 0 {
			// not inside a call of the code under test: a harness problem, reported as such
			fmt.Fprintf(os.Stderr, "C07 child: %v\n", err)
			c.W.Flush()
			os.Exit(1)
		}
		if strings.HasPrefix(line, "#") { // "#<index of the replayed request>\n" in front
			i := strings.Index(line, "\n")
			fmt.Sscanf(line[1:i], "%d", &skip)
			skip++
			line = line[i+1:]
		}
		fmt.Fprintf(os.Stderr, "C07: the code under test ended the process (%v); reported as outcome exit:killed\n", err)
		c.W.WriteString(line)
		if attempt >= maxRestarts {
			return true
		}
	}
}
