package c11

// Capacities of the channels made in the scoped functions: a regenerated fact the pool model used to carry
// as hand-written constants of the driver (10 for ReadMultiTrees, cpu*10 for TBE's edge channel).  The
// capacity expression is read as `a*threads + b`: absent → (0,0); an integer literal n → (0,n);
// `ident * n` or `n * ident` → (n,0).  Anything else is listed as unparsed (decided empty in Lean).
// The driver takes the capacity of its model runs from this table, so that a changed buffer size
// changes the model run, not the verdict (the theorems hold for every capacity).

import (
	"go/ast"
	"go/token"
	"strconv"
)

type xChanCap struct {
	Fn, Var, Elem string
	A, B          int
	Raw           string // non-empty: the expression could not be read
	Line          int
}

// filled by extractGoroutines
var chanCaps []xChanCap

func capExpr(e ast.Expr) (a, b int, ok bool) {
	switch v := e.(type) {
	case *ast.BasicLit:
		if v.Kind == token.INT {
			if n, err := strconv.Atoi(v.Value); err == nil {
				return 0, n, true
			}
		}
	case *ast.ParenExpr:
		return capExpr(v.X)
	case *ast.BinaryExpr:
		if v.Op == token.MUL {
			if _, isId := v.X.(*ast.Ident); isId {
				if _, n, ok := capExpr(v.Y); ok {
					return n, 0, true
				}
			}
			if _, isId := v.Y.(*ast.Ident); isId {
				if _, n, ok := capExpr(v.X); ok {
					return n, 0, true
				}
			}
		}
	}
	return 0, 0, false
}

func (x *extractor) chanCapsOf(fname string, fd *ast.FuncDecl) []xChanCap {
	var out []xChanCap
	note := func(name string, rhs ast.Expr) {
		call, ok := rhs.(*ast.CallExpr)
		if !ok || len(call.Args) == 0 {
			return
		}
		if id, ok := call.Fun.(*ast.Ident); !ok || id.Name != "make" {
			return
		}
		ct, ok := call.Args[0].(*ast.ChanType)
		if !ok {
			return
		}
		c := xChanCap{Fn: fd.Name.Name, Var: name, Elem: exprStr(ct.Value), Line: x.fset.Position(call.Pos()).Line}
		if len(call.Args) >= 2 {
			if a, b, ok := capExpr(call.Args[1]); ok {
				c.A, c.B = a, b
			} else {
				c.Raw = exprStr(call.Args[1])
				if c.Raw == "" {
					c.Raw = "?"
				}
			}
		}
		out = append(out, c)
	}
	ast.Inspect(fd.Body, func(n ast.Node) bool {
		switch s := n.(type) {
		case *ast.AssignStmt:
			for i, r := range s.Rhs {
				if i < len(s.Lhs) {
					note(exprStr(s.Lhs[i]), r)
				}
			}
		case *ast.ValueSpec:
			for i, r := range s.Values {
				if i < len(s.Names) {
					note(s.Names[i].Name, r)
				}
			}
		}
		return true
	})
	return out
}
