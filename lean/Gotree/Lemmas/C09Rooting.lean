/-
  C09 — the frequency table does not depend on the child order or on the rooting
  of the input trees: reordering children (`rotT`) and moving the root along a
  branch (`moveRoot`) give branch lists that describe the same bipartitions with
  the same lengths (`LEq`), and `LEq` branch lists give the same rows.
-/
import Gotree.Lemmas.C09

namespace Gotree.C09
open Gotree

/-! ## equivalent branch lists -/

/-- pointwise relation between two lists of the same length -/
inductive F2 {α β : Type} (R : α → β → Prop) : List α → List β → Prop
  | nil : F2 R [] []
  | cons {a : α} {b : β} {l : List α} {l' : List β} : R a b → F2 R l l' → F2 R (a :: l) (b :: l')

/-- same bipartition, same length -/
def KEq (all : List String) (a b : KL) : Prop := Eqc all a.1 b.1 ∧ a.2 = b.2

/-- the two lists describe the same bipartitions with the same lengths, up to order -/
def LEq (all : List String) (L L' : List KL) : Prop :=
  ∃ M, L.Perm M ∧ F2 (KEq all) M L'

theorem forall₂_refl (all : List String) (L : List KL) : F2 (KEq all) L L := by
  induction L with
  | nil => exact .nil
  | cons a L ih => exact .cons ⟨Eqc.refl _ _, rfl⟩ ih

theorem LEq.of_perm {all : List String} {L L' : List KL} (h : L.Perm L') : LEq all L L' :=
  ⟨L', h, forall₂_refl all L'⟩

theorem LEq.refl (all : List String) (L : List KL) : LEq all L L := LEq.of_perm (List.Perm.refl _)

theorem LEq.of_forall₂ {all : List String} {L L' : List KL} (h : F2 (KEq all) L L') : LEq all L L' :=
  ⟨L, List.Perm.refl _, h⟩

theorem forall₂_append {all : List String} {a a' b b' : List KL}
    (h1 : F2 (KEq all) a a') (h2 : F2 (KEq all) b b') :
    F2 (KEq all) (a ++ b) (a' ++ b') := by
  induction h1 with
  | nil => simpa using h2
  | cons h _ ih => exact .cons h ih

theorem LEq.append {all : List String} {a a' b b' : List KL} (h1 : LEq all a a') (h2 : LEq all b b') :
    LEq all (a ++ b) (a' ++ b') := by
  obtain ⟨m1, p1, f1⟩ := h1
  obtain ⟨m2, p2, f2⟩ := h2
  exact ⟨m1 ++ m2, p1.append p2, forall₂_append f1 f2⟩

theorem forall₂_mem_left {all : List String} {M L' : List KL} (h : F2 (KEq all) M L')
    {a : KL} (ha : a ∈ M) : ∃ b ∈ L', KEq all a b := by
  induction h with
  | nil => cases ha
  | cons hab _ ih =>
    rcases List.mem_cons.1 ha with rfl | ha
    · exact ⟨_, List.mem_cons_self, hab⟩
    · obtain ⟨b, hb, hk⟩ := ih ha; exact ⟨b, List.mem_cons_of_mem _ hb, hk⟩

theorem eqc_congr_right {all a b c : List String} (ha : IsKey all a) (hb : IsKey all b) (hc : IsKey all c)
    (h : Eqc all a b) : eqc all c a = eqc all c b := by
  rw [eqc_symm_b hc ha, eqc_symm_b hc hb]
  exact eqc_congr_left ha hb hc h

theorem cnt_forall₂ (all : List String) {M L' : List KL} (h : F2 (KEq all) M L')
    (hM : ∀ kl ∈ M, IsKey all kl.1) (hL' : ∀ kl ∈ L', IsKey all kl.1) (k : List String) (hk : IsKey all k) :
    cnt all M k = cnt all L' k ∧ lsum all M k = lsum all L' k := by
  induction h with
  | nil => exact ⟨rfl, rfl⟩
  | @cons a b M L' hab _ ih =>
    have ha := hM a (by simp)
    have hb := hL' b (by simp)
    obtain ⟨i1, i2⟩ := ih (fun x hx => hM x (by simp [hx])) (fun x hx => hL' x (by simp [hx]))
    have e := eqc_congr_right ha hb hk hab.1
    have c1 : cnt all (a :: M) k = cnt all [a] k + cnt all M k := by
      rw [← cnt_append]; rfl
    have c2 : cnt all (b :: L') k = cnt all [b] k + cnt all L' k := by
      rw [← cnt_append]; rfl
    have l1 : lsum all (a :: M) k = lsum all [a] k + lsum all M k := by
      rw [← lsum_append]; rfl
    have l2 : lsum all (b :: L') k = lsum all [b] k + lsum all L' k := by
      rw [← lsum_append]; rfl
    obtain ⟨a1, a2⟩ := a
    obtain ⟨b1, b2⟩ := b
    simp only at e hab
    have h2 : a2 = b2 := hab.2
    rw [c1, c2, l1, l2, cnt_single, cnt_single, lsum_single, lsum_single, i1, i2, e, h2]
    exact ⟨rfl, rfl⟩

theorem cnt_LEq (all : List String) {L L' : List KL} (h : LEq all L L')
    (hL : ∀ kl ∈ L, IsKey all kl.1) (hL' : ∀ kl ∈ L', IsKey all kl.1) (k : List String) (hk : IsKey all k) :
    cnt all L k = cnt all L' k ∧ lsum all L k = lsum all L' k := by
  obtain ⟨M, p, f⟩ := h
  have hM : ∀ kl ∈ M, IsKey all kl.1 := fun kl hkl => hL kl (p.mem_iff.2 hkl)
  obtain ⟨c, l⟩ := cnt_forall₂ all f hM hL' k hk
  exact ⟨(cnt_perm all p k).trans c, (lsum_perm all p k).trans l⟩

/-- indexes over equivalent branch lists have the same rows up to the presentation of the key -/
theorem inv_equiv {all : List String} {idx idx' : List Entry} {L L' : List KL}
    (h : Inv all idx L) (h' : Inv all idx' L') (he : LEq all L L') (x : Entry) (hx : x ∈ idx) :
    ∃ y ∈ idx', eqc all y.key x.key = true ∧ y.count = x.count ∧ y.len = x.len := by
  have hxk := h.keys x hx
  have hpos := h.pos x hx
  rw [(h.vals x hx).1] at hpos
  unfold cnt at hpos
  rw [List.countP_pos_iff] at hpos
  obtain ⟨kl, hkl, hxe⟩ := hpos
  obtain ⟨M, p, f⟩ := he
  obtain ⟨kl', hkl', hkk⟩ := forall₂_mem_left f (p.mem_iff.1 hkl)
  obtain ⟨y, hy, hye⟩ := h'.cover kl' hkl'
  have hklk := h.lkeys kl hkl
  have hkl'k := h'.lkeys kl' hkl'
  have hyk := h'.keys y hy
  have e1 : Eqc all y.key x.key :=
    Eqc.trans hxk (Eqc.trans hklk ((eqc_iff _ _ _).1 hye) (Eqc.symm hkl'k hkk.1))
      (Eqc.symm hklk ((eqc_iff _ _ _).1 hxe))
  obtain ⟨c, l⟩ := cnt_LEq all ⟨M, p, f⟩ h.lkeys h'.lkeys y.key hyk
  refine ⟨y, hy, (eqc_iff _ _ _).2 e1, ?_, ?_⟩
  · rw [(h'.vals y hy).1, (h.vals x hx).1, ← c, cnt_congr all L h.lkeys hyk hxk e1]
  · rw [(h'.vals y hy).2, (h.vals x hx).2, ← l, lsum_congr all L h.lkeys hyk hxk e1]

/-- tree by tree equivalent collections have equivalent flattened branch lists -/
theorem flat_LEq (all : List String) {us us' : List T}
    (h : F2 (fun u u' => LEq all (edgeKeys all u) (edgeKeys all u')) us us') :
    LEq all (us.flatMap (edgeKeys all)) (us'.flatMap (edgeKeys all)) := by
  induction h with
  | nil => exact LEq.refl _ _
  | cons h _ ih => rw [List.flatMap_cons, List.flatMap_cons]; exact LEq.append h ih

/-! ## child order -/

/-- the key of a split entry -/
def keyOf (all : List String) (s : SplitE) : KL := (bits all s.below, s.e.len)

theorem edgeKeys_eq (all : List String) (t : T) : edgeKeys all t = (splitsL t.kids).map (keyOf all) := rfl

theorem bits_perm (all : List String) {a b : List String} (h : a.Perm b) : bits all a = bits all b := by
  unfold bits
  apply List.filter_congr
  intro x _
  rw [Bool.eq_iff_iff]
  simp [h.mem_iff]

/- reorder the children of every node by `f` -/
mutual
def rotT (f : Kids → Kids) : T → T
  | .node d p k => .node d p (f (rotL f k))
def rotL (f : Kids → Kids) : Kids → Kids
  | [] => []
  | (e, t) :: r => (e, rotT f t) :: rotL f r
end

theorem splitsL_perm {a b : Kids} (h : a.Perm b) : (splitsL a).Perm (splitsL b) := by
  induction h with
  | nil => exact List.Perm.refl _
  | cons x _ ih => rw [splitsL_cons, splitsL_cons]; exact ih.append_left _
  | swap x y l =>
    simp only [splitsL_cons]
    rw [← List.append_assoc, ← List.append_assoc]
    exact List.Perm.append_right _ List.perm_append_comm
  | trans _ _ ih1 ih2 => exact ih1.trans ih2

theorem leavesL_perm {a b : Kids} (h : a.Perm b) : (leavesL a).Perm (leavesL b) := by
  induction h with
  | nil => exact List.Perm.refl _
  | cons x _ ih => rw [leavesL_cons, leavesL_cons]; exact ih.append_left _
  | swap x y l =>
    simp only [leavesL_cons]
    rw [← List.append_assoc, ← List.append_assoc]
    exact List.Perm.append_right _ List.perm_append_comm
  | trans _ _ ih1 ih2 => exact ih1.trans ih2

theorem leaves_node_perm (d : NodeD) (p p' : Nat) {k k' : Kids} (h : (leavesL k').Perm (leavesL k))
    (hlen : k'.length = k.length) : (T.node d p' k').leaves.Perm (T.node d p k).leaves := by
  cases k with
  | nil =>
    have : k' = [] := List.length_eq_zero_iff.1 hlen
    subst this; exact List.Perm.refl _
  | cons a b =>
    cases k' with
    | nil => simp at hlen
    | cons a' b' => exact h

mutual
theorem rotT_spec (all : List String) (f : Kids → Kids) (hf : ∀ k, (f k).Perm k) : ∀ t : T,
    (rotT f t).leaves.Perm t.leaves ∧ (rotT f t).isLeaf = t.isLeaf ∧
    ((rotT f t).splitsBelow.map (keyOf all)).Perm (t.splitsBelow.map (keyOf all))
  | .node d p k => by
    obtain ⟨i1, i2, i3⟩ := rotL_spec all f hf k
    have hp := hf (rotL f k)
    unfold rotT
    refine ⟨?_, ?_, ?_⟩
    · exact leaves_node_perm d p p ((leavesL_perm hp).trans i1) (by rw [hp.length_eq, i2])
    · simp only [isLeaf_node]
      have : (f (rotL f k)).length = k.length := by rw [hp.length_eq, i2]
      cases k with
      | nil => simp at this; simp [this]
      | cons a b =>
        cases hfk : f (rotL f (a :: b)) with
        | nil => rw [hfk] at this; simp at this
        | cons _ _ => rfl
    · simp only [splitsBelow_node]
      exact ((splitsL_perm hp).map _).trans i3
theorem rotL_spec (all : List String) (f : Kids → Kids) (hf : ∀ k, (f k).Perm k) : ∀ k : Kids,
    (leavesL (rotL f k)).Perm (leavesL k) ∧ (rotL f k).length = k.length ∧
    ((splitsL (rotL f k)).map (keyOf all)).Perm ((splitsL k).map (keyOf all))
  | [] => by simp [rotL]
  | (e, t) :: r => by
    obtain ⟨h1, h2, h3⟩ := rotT_spec all f hf t
    obtain ⟨i1, i2, i3⟩ := rotL_spec all f hf r
    unfold rotL
    refine ⟨?_, by simp [i2], ?_⟩
    · rw [leavesL_cons, leavesL_cons]; exact h1.append i1
    · rw [splitsL_cons, splitsL_cons, List.map_append, List.map_append]
      refine List.Perm.append ?_ i3
      unfold blk
      simp only [List.map_cons]
      have : keyOf all ⟨(rotT f t).leaves, e, (rotT f t).isLeaf⟩ = keyOf all ⟨t.leaves, e, t.isLeaf⟩ := by
        unfold keyOf; simp only; rw [bits_perm all h1]
      rw [this]
      exact List.Perm.cons _ h3
end

/-- Reordering the children of every node does not change the branch list of the
    tree (as a multiset of (bitset, length)). -/
theorem rot_keys (all : List String) (f : Kids → Kids) (hf : ∀ k, (f k).Perm k) (t : T) :
    (edgeKeys all (rotT f t)).Perm (edgeKeys all t) := by
  cases t with
  | node d p k =>
    have := (rotT_spec all f hf (.node d p k)).2.2
    simpa [edgeKeys_eq, splitsBelow_node, rotT] using this

/-! ## rooting -/

/-- the two sides of a branch have complementary bitsets -/
theorem bits_compl (all X Y : List String) (h : ∀ x ∈ all, (x ∈ X ↔ ¬ x ∈ Y)) :
    Eqc all (bits all X) (bits all Y) := by
  right
  unfold bits compl
  apply List.filter_congr
  intro x hx
  rw [contains_filter_of_mem _ hx, Bool.eq_iff_iff]
  simp [h x hx]

/-- One step of re-rooting along the branch `e`: the child `c = node dc _ kc` of the
    root becomes the root and the old root (with its other children `pre ++ post`)
    becomes a child of `c`.  Same branch list up to complementing the moved branch. -/
theorem moveRoot_keys (all : List String) (d dc : NodeD) (p pc p' p'' : Nat) (pre post kc : Kids) (e : EdgeD)
    (hkc : kc ≠ []) (hrest : pre ++ post ≠ [])
    (hnd : (leavesL (pre ++ (e, T.node dc pc kc) :: post)).Nodup)
    (hall : ∀ x ∈ all, x ∈ leavesL (pre ++ (e, T.node dc pc kc) :: post)) :
    LEq all (edgeKeys all (.node d p (pre ++ (e, .node dc pc kc) :: post)))
      (edgeKeys all (.node dc p' (kc ++ [(e, .node d p'' (pre ++ post))]))) := by
  have hL : splitsL (pre ++ (e, T.node dc pc kc) :: post) =
      splitsL pre ++ ((⟨leavesL kc, e, false⟩ :: splitsL kc) ++ splitsL post) := by
    rw [splitsL_append, splitsL_cons, blk_node _ _ _ _ hkc]
  have hR : splitsL (kc ++ [(e, T.node d p'' (pre ++ post))]) =
      splitsL kc ++ (⟨leavesL (pre ++ post), e, false⟩ :: (splitsL pre ++ splitsL post)) := by
    rw [splitsL_append, splitsL_cons, blk_node _ _ _ _ hrest, splitsL_append]
    simp [splitsL]
  rw [edgeKeys_eq, edgeKeys_eq, T.kids_node, T.kids_node, hL, hR]
  simp only [List.map_append, List.map_cons]
  refine ⟨(splitsL kc).map (keyOf all) ++ (keyOf all ⟨leavesL kc, e, false⟩ ::
      ((splitsL pre).map (keyOf all) ++ (splitsL post).map (keyOf all))), ?_, ?_⟩
  · -- a rearrangement of the blocks
    have h1 : ((splitsL pre).map (keyOf all) ++
        (keyOf all ⟨leavesL kc, e, false⟩ :: (splitsL kc).map (keyOf all) ++ (splitsL post).map (keyOf all))).Perm
        ((keyOf all ⟨leavesL kc, e, false⟩ :: (splitsL kc).map (keyOf all)) ++
          ((splitsL pre).map (keyOf all) ++ (splitsL post).map (keyOf all))) := by
      rw [← List.append_assoc, ← List.append_assoc]
      exact List.Perm.append_right _ List.perm_append_comm
    refine h1.trans ?_
    rw [List.cons_append]
    exact (List.perm_middle (l₁ := (splitsL kc).map (keyOf all))).symm
  · apply forall₂_append (forall₂_refl all _)
    refine .cons ⟨?_, rfl⟩ (forall₂_refl all _)
    apply bits_compl
    intro x hx
    have hx' := hall x hx
    rw [leavesL_append, leavesL_cons, leaves_node_ne _ _ _ hkc] at hx' hnd
    rw [leavesL_append]
    have hnd1 := List.nodup_append.1 hnd
    have hnd2 := List.nodup_append.1 hnd1.2.1
    constructor
    · intro hxk hxr
      rcases List.mem_append.1 hxr with h | h
      · exact hnd1.2.2 x h x (List.mem_append_left _ hxk) rfl
      · exact hnd2.2.2 x hxk x h rfl
    · intro hn
      rcases List.mem_append.1 hx' with h | h
      · exact absurd (List.mem_append_left _ h) hn
      · rcases List.mem_append.1 h with h | h
        · exact h
        · exact absurd (List.mem_append_right _ h) hn

/-- `Reroot` by one branch as a function: child `i` (an inner node) becomes the root -/
def moveRoot (t : T) (i : Nat) : T :=
  match t with
  | .node d _ k =>
    match k[i]? with
    | some (e, .node dc _ (c :: cs)) =>
      .node dc 0 ((c :: cs) ++ [(e, .node d (k.eraseIdx i).length (k.eraseIdx i))])
    | _ => t

theorem moveRoot_LEq (all : List String) (t : T) (i : Nat) (h3 : 3 ≤ t.kids.length)
    (hnd : (leavesL t.kids).Nodup) (hall : ∀ x ∈ all, x ∈ leavesL t.kids) :
    LEq all (edgeKeys all t) (edgeKeys all (moveRoot t i)) := by
  cases t with
  | node d p k =>
    unfold moveRoot
    simp only
    cases hki : k[i]? with
    | none => exact LEq.refl _ _
    | some et =>
      obtain ⟨e, c⟩ := et
      cases c with
      | node dc pc kc =>
        cases kc with
        | nil => exact LEq.refl _ _
        | cons c cs =>
          simp only
          have hi : i < k.length := by
            rcases Nat.lt_or_ge i k.length with h | h
            · exact h
            · rw [List.getElem?_eq_none h] at hki; cases hki
          have hget : k[i] = (e, T.node dc pc (c :: cs)) := by
            rw [List.getElem?_eq_getElem hi] at hki; exact Option.some.inj hki
          have hdec : k = k.take i ++ (e, T.node dc pc (c :: cs)) :: k.drop (i + 1) := by
            rw [← hget, ← List.drop_eq_getElem_cons hi, List.take_append_drop]
          have her : k.eraseIdx i = k.take i ++ k.drop (i + 1) := List.eraseIdx_eq_take_drop_succ k i
          have hrest : k.take i ++ k.drop (i + 1) ≠ [] := by
            intro h
            have hl : (k.eraseIdx i).length = 0 := by rw [her, h]; rfl
            rw [List.length_eraseIdx_of_lt hi] at hl
            simp only [T.kids_node] at h3; omega
          rw [her]
          simp only [T.kids_node] at hnd hall
          rw [hdec] at hnd hall
          have := moveRoot_keys all d dc p pc 0 (k.take i ++ k.drop (i + 1)).length (k.take i) (k.drop (i + 1)) (c :: cs) e
            (by simp) hrest hnd hall
          rw [← hdec] at this
          exact this

/-- Unrooting a rooted presentation: the root placed on the branch `e` between the
    inner node `n1 = node d1 _ k1` and `n2`, the length of `e` shared between the
    two root branches.  `unroot` gives back the tree rooted at `n1`. -/
theorem unroot_rooting_keys (all : List String) (dr d1 d2 : NodeD) (pr p1 p2 p1' : Nat) (k1 k2 : Kids)
    (e e1 e2 : EdgeD) (hk1 : k1 ≠ []) (hlen : e1.len ≠ NIL ∨ e2.len ≠ NIL)
    (hsum : max0 e1.len + max0 e2.len = e.len) :
    edgeKeys all (unroot (.node dr pr [(e1, .node d1 p1 k1), (e2, .node d2 p2 k2)])) =
      edgeKeys all (.node d1 p1' (k1 ++ [(e, .node d2 p2 k2)])) := by
  have hne : k1.isEmpty = false := by
    cases k1 with
    | nil => exact absurd rfl hk1
    | cons _ _ => rfl
  have hl : (e1.len != NIL || e2.len != NIL) = true := by
    rcases hlen with h | h <;> simp [h]
  unfold unroot
  simp only [hne, hl, if_true, Bool.false_eq_true, if_false]
  rw [edgeKeys_eq, edgeKeys_eq]
  simp only [T.kids_node, splitsL_append, splitsL_cons, List.map_append]
  congr 1
  unfold blk
  simp only [List.map_cons, splitsL, List.append_nil, List.map_nil]
  congr 1
  · unfold keyOf
    simp only [hsum]
    congr 2
    cases k2 <;> rfl

/-- … and when the first child of the root is a tip (a tip hanging off the root),
    `unroot` roots the tree at the other child. -/
theorem unroot_rooting_tip_keys (all : List String) (dr d1 d2 : NodeD) (pr p1 p2 p2' p1' : Nat) (k2 : Kids)
    (e e1 e2 : EdgeD) (hlen : e1.len ≠ NIL ∨ e2.len ≠ NIL)
    (hsum : max0 e1.len + max0 e2.len = e.len) :
    edgeKeys all (unroot (.node dr pr [(e1, .node d1 p1 []), (e2, .node d2 p2 k2)])) =
      edgeKeys all (.node d2 p2' (k2 ++ [(e, .node d1 p1' [])])) := by
  have hl : (e1.len != NIL || e2.len != NIL) = true := by
    rcases hlen with h | h <;> simp [h]
  unfold unroot
  simp only [List.isEmpty_nil, hl, if_true]
  rw [edgeKeys_eq, edgeKeys_eq]
  simp only [T.kids_node, splitsL_append, splitsL_cons, List.map_append]
  congr 1
  unfold blk keyOf
  simp [hsum, T.leaves, T.isLeaf, T.splitsBelow, splitsL]

end Gotree.C09
