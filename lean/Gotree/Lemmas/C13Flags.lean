/-
  C13 — the regenerated tables (Gotree/Gen/C13Tables.lean) against the model, and the format flag.
-/
import Gotree.Model.C13Flags
import Gotree.Gen.C13Tables

namespace Gotree.C13

theorem formatOfFlag_table (s : String) :
    (formatOfFlag s).constName = tableLookup Gen.C13.formatFlags Gen.C13.formatDefault s := by
  unfold formatOfFlag
  simp only [Gen.C13.formatFlags, Gen.C13.formatDefault, tableLookup]
  split
  · rfl
  · split
    · rfl
    · split
      · rfl
      · split <;> rfl

theorem formatOfFlag_nexus (s : String) : formatOfFlag s = .nexus ↔ s = "nexus" := by
  unfold formatOfFlag
  constructor
  · intro h
    split at h
    · cases h
    · split at h
      · assumption
      · split at h
        · cases h
        · split at h <;> cases h
  · intro h; subst h; decide

theorem formatOfFlag_phyloxml (s : String) : formatOfFlag s = .phyloxml ↔ s = "phyloxml" := by
  unfold formatOfFlag
  constructor
  · intro h
    split at h
    · cases h
    · split at h
      · cases h
      · split at h
        · assumption
        · split at h <;> cases h
  · intro h; subst h; decide

theorem formatOfFlag_nextstrain (s : String) : formatOfFlag s = .nextstrain ↔ s = "nextstrain" := by
  unfold formatOfFlag
  constructor
  · intro h
    split at h
    · cases h
    · split at h
      · cases h
      · split at h
        · cases h
        · split at h
          · assumption
          · cases h
  · intro h; subst h; decide

theorem formatOfFlag_other (s : String) (h1 : s ≠ "nexus") (h2 : s ≠ "phyloxml") (h3 : s ≠ "nextstrain") :
    formatOfFlag s = .newick := by
  unfold formatOfFlag
  simp [h1, h2, h3]

namespace Nex

theorem keywordOf_table (s : String) : keywordOf s = keywordOfTable Gen.C13.lexerKeywords s := by
  unfold keywordOf keywordOfTable
  generalize String.ofList (s.toList.map upperGo) = u
  simp only [Gen.C13.lexerKeywords, tableLookup]
  split <;> first
    | (simp only [kwOfName]; decide)
    | (rename_i h1 h2 h3 h4 h5 h6 h7 h8 h9 h10 h11 h12 h13 h14 h15 h16 h17 h18
       rw [if_neg h1, if_neg h2, if_neg h3, if_neg h4, if_neg h5, if_neg h6, if_neg h7, if_neg h8, if_neg h9,
         if_neg h10, if_neg h11, if_neg h12, if_neg h13, if_neg h14, if_neg h15, if_neg h16, if_neg h17, if_neg h18]
       decide)

theorem isIdent_table (c : Char) :
    isIdent c = identOfTable Gen.C13.identStops Gen.C13.whitespaceChars c := by
  unfold isIdent identOfTable isWs
  simp [Gen.C13.identStops, Gen.C13.whitespaceChars, Bool.and_assoc]

theorem isWs_table (c : Char) : isWs c = wsOfTable Gen.C13.whitespaceChars c := by
  unfold isWs wsOfTable
  simp [Gen.C13.whitespaceChars]

end Nex

end Gotree.C13
