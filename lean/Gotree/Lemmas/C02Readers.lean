/-
  C02 — the reader entry points never crash.
-/
import Gotree.Lemmas.C02Nexus
import Gotree.Lemmas.C02
namespace Gotree.C02.Readers
open Gotree Gotree.C02

theorem lastCharRev_no_panic : ∀ (l : List UInt8), l ≠ [] → ∀ m, lastCharRev false l ≠ .panic m
  | [], h, _ => absurd rfl h
  | [b], _, m => by unfold lastCharRev; simp
  | b :: c :: r, _, m => by
    unfold lastCharRev
    split
    · exact lastCharRev_no_panic (c :: r) (by simp) m
    · simp

theorem readUntilSemiColonRev_no_panic : ∀ (cs : List Chunk) (ln : List UInt8) (m : String),
    readUntilSemiColonRev false cs ln ≠ .panic m
  | [], ln, m => by
    unfold readUntilSemiColonRev
    split
    · simp
    · rename_i a r
      split
      · simp
      · simp
      · rename_i m' hp
        exact absurd hp (lastCharRev_no_panic _ (by simp) m')
  | c :: rest, ln, m => by
    unfold readUntilSemiColonRev
    simp only
    split
    · exact readUntilSemiColonRev_no_panic rest _ m
    · rename_i a r hl
      split
      · split
        · exact readUntilSemiColonRev_no_panic rest _ m
        · simp
      · simp
      · rename_i m' hp
        exact absurd hp (lastCharRev_no_panic _ (by rw [hl]; simp) m')

theorem readUntilSemiColon_no_panic (cs : List Chunk) (ln : List UInt8) (m : String) :
    readUntilSemiColon false cs ln ≠ .panic m := readUntilSemiColonRev_no_panic cs _ m

theorem multiLoop_not_crashed (np : List UInt8 → Res Newick.Parsed) (hnp : ∀ b m, np b ≠ .panic m)
    (line : Line) (id : Nat) (he : line.err = false) : (multiLoop false np line id he).crashed = false := by
  fun_induction multiLoop false np line id he
  case case1 line id he m hp => exact absurd hp (hnp _ _)
  case case3 line id he p hp m h => exact absurd h (readUntilSemiColon_no_panic _ _ _)
  case case6 line id he p hp next h hn hne ih => exact ih
  all_goals simp [ROut.crashed]

theorem multiNewickWith_not_crashed (np : List UInt8 → Res Newick.Parsed) (hnp : ∀ b m, np b ≠ .panic m)
    (chunks : List Chunk) : (multiNewickWith false np chunks).crashed = false := by
  unfold multiNewickWith
  split
  · rename_i m h; exact absurd h (readUntilSemiColon_no_panic _ _ _)
  · rfl
  · split
    · exact multiLoop_not_crashed np hnp _ _ _
    · rfl

theorem multiLoop_shape (np : List UInt8 → Res Newick.Parsed) (line : Line) (id : Nat) (he : line.err = false)
    (rs : List Rec) (h : multiLoop false np line id he = .ok rs) :
    ids rs = List.range' id rs.length ∧ errOnlyLast rs = true ∧ rs ≠ [] := by
  fun_induction multiLoop false np line id he generalizing rs
  case case2 line id he msg hp =>
    cases h; simp [ids, errOnlyLast, List.range']
  case case5 line id he p hp next hr hn rs' hm ih =>
    cases h
    have ⟨i1, i2, i3⟩ := ih rs' hm
    refine ⟨?_, ?_, by simp⟩
    · simp only [ids, List.map_cons, List.length_cons, List.range'] at *
      rw [i1]
    · cases rs' with
      | nil => exact absurd rfl i3
      | cons r rest => simp [errOnlyLast, i2]
  case case6 line id he p hp next hr hn hne ih => exact absurd h (hne rs)
  case case7 line id he p hp next hr hn =>
    cases h
    split <;> simp [ids, errOnlyLast, List.range']
  all_goals simp at h

/-- the records of the multi-tree reader are numbered 0, 1, 2, …; only the last one may carry an error -/
theorem multiNewick_shape (chunks : List Chunk) (rs : List Rec) (h : multiNewick chunks = .ok rs) :
    ids rs = List.range rs.length ∧ errOnlyLast rs = true ∧ rs ≠ [] := by
  unfold multiNewick multiNewickWith at h
  rw [List.range_eq_range']
  split at h
  · cases h
  · cases h
  · split at h
    · exact multiLoop_shape _ _ _ _ rs h
    · cases h; simp [ids, errOnlyLast, List.range']

end Gotree.C02.Readers
