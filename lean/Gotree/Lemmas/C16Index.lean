/-
  C16 — the generators leave a complete index (lemmas; uses C04's `reinit_eq`).
-/
import Gotree.Spec.C16Index
import Gotree.Lemmas.C16Oracle
import Gotree.Lemmas.C04Idx

namespace Gotree.C16
open Gotree

/-- on a tree whose tips are `Tip0 … Tip(m-1)` (m > 0), `ReinitIndexes` succeeds and every branch
    record is `specIdx` of the split of the branch -/
theorem reinit_of_perm (H : String → UInt64) (o : Out) (m : Nat) (hm : 0 < m) (hp : o.t.tipNames.Perm (tipNamesUpTo m)) :
    o.reinit H = .ok (C04.sortNames o.t.tipNames, o.t.splits.map fun s => C04.specIdx H o.t.tipNames s.below) := by
  have hn : o.t.tipNames.Nodup := hp.nodup_iff.mpr (tipNamesUpTo_nodup m)
  have hne : o.t.tipNames ≠ [] := by
    intro h
    have := hp.length_eq
    rw [h, tipNamesUpTo_length] at this
    simp at this; omega
  exact C04.reinit_eq H o.t hn hne

/-- the tip index of the C16 model (insertion sort) is the rank list of the C04 model (merge sort) -/
theorem sortNames_eq_C04 (l : List String) : sortNames l = C04.sortNames l := by
  apply List.Perm.eq_of_pairwise (le := (· ≤ ·))
  · intro a b _ _ h1 h2; exact String.le_antisymm h1 h2
  · exact sortNames_sorted l
  · unfold C04.sortNames
    have := List.pairwise_mergeSort (le := fun (a b : String) => decide (a ≤ b))
      (fun a b c h1 h2 => by simp only [decide_eq_true_eq] at *; exact String.le_trans h1 h2)
      (fun a b => by simp only [Bool.or_eq_true, decide_eq_true_eq]; exact String.le_total a b) l
    exact this.imp (by intro a b hab; simpa using hab)
  · exact (sortNames_perm l).trans (List.mergeSort_perm l _).symm

end Gotree.C16
