/-
  C11 — property theorems about the worker-pool transition system of Model/C11.lean
  (the functions `stepFn`, `exec`, `drain`, `runToEnd` are the ones the driver executes).
-/
import Gotree.Lemmas.C11Pools
import Gotree.Lemmas.C11Collect
import Gotree.Lemmas.C11HashMapSpec
import Gotree.Model.C11Tbe
import Gotree.Lemmas.C11Tally

namespace Gotree.C11

variable {α β : Type}

/-- ★ No infinite run: the interleaving relation is well-founded — under EVERY schedule, for every
    pool shape `F` (leaky or not), every per-item function, every number of workers and every input,
    the pool stops after finitely many steps.  No fairness assumption. -/
theorem pool_no_infinite_run (F : PoolFacts) (f : α → β) (stops : α → Bool) :
    WellFounded (fun s' s => Step F f stops s s') := by
  apply Subrelation.wf (r := InvImage (· < ·) (mu (α := α) (β := β)))
  · intro s' s h
    obtain ⟨i, c, h⟩ := h
    exact stepFn_mu F.shape f stops s s' i c h
  · exact InvImage.wf _ Nat.lt_wfRel.wf


/-! ## Reachable states satisfy the invariants -/

section
open Classical

/-- What every maximal run of a pool without leaking exit and without unsynchronised shared write
    ends in, early exits included (FBP): the result channel is closed, nothing has panicked, and the
    items are partitioned into those whose result `f x` was delivered, those on which a worker
    stopped (each of them erroneous, and then the shared error is set) and those never received
    (possible only if every worker stopped on an erroneous item). -/
theorem pool_normal_form_general (F : PoolFacts) (hF : F.exitsWithoutDone = [] ∧ F.unsyncSharedWrites = [] ∧ F.producerLeaks = [])
    (f : α → β) (stops : α → Bool) (w cap : Nat) (hcap : 1 ≤ cap) (inp : List α) (s : PState α β)
    (hR : Reachable F f stops (init w cap inp) s) (hT : Terminal F f stops s) :
    s.closed = true ∧ s.panicked = false ∧
    (s.out ++ (s.dropped ++ (s.inp ++ s.pending)).map f).Perm (inp.map f) ∧
    (∀ x ∈ s.dropped, stops x = true) ∧ (s.errSet = !s.dropped.isEmpty) ∧
    (s.inp ++ s.pending ≠ [] → w ≤ s.dropped.length) ∧ (F.earlyExits = [] → s.dropped = []) ∧
    (F.earlyExits ≠ [] → ∀ x ∈ s.done, stops x = false) ∧ s.out = s.done.map f := by
  have hI := reachable_inv F f stops w cap inp s hR
  have hC := reachable_invClean F ⟨hF.1, hF.2.1⟩ f stops w cap inp s hR
  have hgone := terminal_workers_gone F hF.2.2 f stops w cap hcap inp s hI hT
  -- no worker leaked, so all are finished
  have hfin : ∀ p ∈ s.workers, p = Phase.finished := by
    intro p hp
    rcases hgone p hp with h | h
    · exact h
    · have := sumMap_eq_zero hC.noleak p hp
      subst h; simp [Phase.isLeaked] at this
  have hnf : sumMap Phase.notFinished s.workers = 0 := by
    have : ∀ l : List (Phase α β), (∀ p ∈ l, p = Phase.finished) → sumMap Phase.notFinished l = 0 := by
      intro l
      induction l with
      | nil => intro _; rfl
      | cons a r ih =>
        intro h
        have ha := h a (by simp)
        subst ha
        simp [sumMap, Phase.notFinished]
        exact ih (fun p hp => h p (by simp [hp]))
    exact this _ hfin
  have hwg : s.wg = 0 := by rw [hI.wg]; exact hnf
  have hclosed : s.closed = true := by
    apply closer_can_move F.shape f stops s hI.nopanic _ hwg
    cases h0 : stepFn F.shape f stops s s.workers.length 0 with
    | none => rfl
    | some s' => exact absurd ⟨_, 0, h0⟩ (hT s')
  have hcnt0 : ∀ a, sumMap (Phase.cnt a) s.workers = 0 := by
    intro a
    have : ∀ l : List (Phase α β), (∀ p ∈ l, p = Phase.finished) → sumMap (Phase.cnt a) l = 0 := by
      intro l
      induction l with
      | nil => intro _; rfl
      | cons b r ih =>
        intro h
        have hb := h b (by simp)
        subst hb
        simp [sumMap, Phase.cnt, Phase.items]
        exact ih (fun p hp => h p (by simp [hp]))
    exact this _ hfin
  have hex : sumMap Phase.exited s.workers = w := by
    rw [← hI.len]
    apply sumMap_all_one
    intro p hp
    rw [hfin p hp]; rfl
  refine ⟨hclosed, hI.nopanic, ?_, hI.droppedStops, hI.errset, ?_, ?_, ?_, hC.out⟩
  · rw [hC.out, ← List.map_append]
    apply List.Perm.map
    rw [List.perm_iff_count]
    intro a
    have := hI.cons a
    rw [hcnt0 a] at this
    simp [List.count_append]; omega
  · intro hne
    rcases hI.exits with h | h
    · exfalso
      apply hne
      rw [h.1, (hI.src1 h.2).1]; rfl
    · omega
  · intro he
    apply hI.droppedEarly
    simp [PoolFacts.shape, he]
  · intro he
    apply hI.noStopDone
    simpa [PoolFacts.shape] using he

/-- ★ Every maximal run from `init w inp` — any `w ≥ 1`, any input list with error items anywhere, any
    schedule — of a pool whose extracted facts show no exit without `Done` and no unsynchronised
    shared write, and whose workers do not leave the loop early (Compare, CompareWeighted, TBE) or
    meet no item that makes them leave, ends with the result channel closed and with exactly the
    sequential results, as a multiset: the output is a permutation of `inp.map f`. -/
theorem pool_normal_form_complete (F : PoolFacts) (hF : F.exitsWithoutDone = [] ∧ F.unsyncSharedWrites = [] ∧ F.producerLeaks = [])
    (f : α → β) (stops : α → Bool) (w : Nat) (hw : 1 ≤ w) (cap : Nat) (hcap : 1 ≤ cap) (inp : List α)
    (hE : F.earlyExits = [] ∨ ∀ x ∈ inp, stops x = false) (s : PState α β)
    (hR : Reachable F f stops (init w cap inp) s) (hT : Terminal F f stops s) :
    s.closed = true ∧ s.out.Perm (inp.map f) := by
  obtain ⟨hc, _, hperm, hds, _, hinp, hde, _, _⟩ := pool_normal_form_general F hF f stops w cap hcap inp s hR hT
  have hI := reachable_inv F f stops w cap inp s hR
  have hd : s.dropped = [] := by
    rcases hE with hE | hE
    · exact hde hE
    · -- a dropped item would be an item of the input that stops
      cases hdd : s.dropped with
      | nil => rfl
      | cons x r =>
        have hx : stops x = true := hds x (by simp [hdd])
        have hcons := hI.cons x
        have : 0 < inp.count x := by
          rw [← hcons, hdd]; simp; omega
        have hmem : x ∈ inp := List.count_pos_iff.mp this
        rw [hE x hmem] at hx
        exact absurd hx (by simp)
  have hi : s.inp ++ s.pending = [] := by
    cases hii : s.inp ++ s.pending with
    | nil => rfl
    | cons x r =>
      have := hinp (by simp [hii])
      rw [hd] at this
      simp at this; omega
  refine ⟨hc, ?_⟩
  simpa [hd, hi] using hperm

/-- Thread-count (and schedule, and channel-capacity) independence, as the property states it: the
    results of a maximal run with `w` workers are, as a multiset, those of a maximal run with ONE worker. -/
theorem pool_thread_count_independent (F : PoolFacts) (hF : F.exitsWithoutDone = [] ∧ F.unsyncSharedWrites = [] ∧ F.producerLeaks = [])
    (f : α → β) (stops : α → Bool) (w : Nat) (hw : 1 ≤ w) (cap cap₁ : Nat) (hcap : 1 ≤ cap) (hcap₁ : 1 ≤ cap₁) (inp : List α)
    (hE : F.earlyExits = [] ∨ ∀ x ∈ inp, stops x = false) (s s₁ : PState α β)
    (hR : Reachable F f stops (init w cap inp) s) (hT : Terminal F f stops s)
    (hR₁ : Reachable F f stops (init 1 cap₁ inp) s₁) (hT₁ : Terminal F f stops s₁) :
    s.out.Perm s₁.out :=
  (pool_normal_form_complete F hF f stops w hw cap hcap inp hE s hR hT).2.trans
    (pool_normal_form_complete F hF f stops 1 (Nat.le_refl 1) cap₁ hcap₁ inp hE s₁ hR₁ hT₁).2.symm

/-- The single-threaded run IS the sequential computation: with one worker, every maximal run of a
    recording pool (whatever the interleaving with the producer and the closer) delivers `f x` for the
    items of the stream in the order of the stream. -/
theorem pool_single_worker_sequential (F : PoolFacts) (hF : F.exitsWithoutDone = [] ∧ F.unsyncSharedWrites = [] ∧ F.producerLeaks = [])
    (hE : F.earlyExits = []) (f : α → β) (stops : α → Bool) (cap : Nat) (hcap : 1 ≤ cap) (inp : List α) (s : PState α β)
    (hR : Reachable F f stops (init 1 cap inp) s) (hT : Terminal F f stops s) :
    s.closed = true ∧ s.out.reverse = inp.map f := by
  obtain ⟨hc, _, _, _, _, hinp, hde, _, hout⟩ := pool_normal_form_general F hF f stops 1 cap hcap inp s hR hT
  have hI := reachable_inv F f stops 1 cap inp s hR
  have hC := reachable_invClean F ⟨hF.1, hF.2.1⟩ f stops 1 cap inp s hR
  have hO := reachable_ordInv F hE f stops cap inp s hR
  have hd : s.dropped = [] := hde hE
  have hi : s.inp ++ s.pending = [] := by
    cases hii : s.inp ++ s.pending with
    | nil => rfl
    | cons x r =>
      have := hinp (by simp [hii])
      rw [hd] at this
      simp at this
  have hi1 : s.inp = [] := (List.append_eq_nil_iff.mp hi).1
  have hi2 : s.pending = [] := (List.append_eq_nil_iff.mp hi).2
  -- the only worker is gone
  have hgone := terminal_workers_gone F hF.2.2 f stops 1 cap hcap inp s hI hT
  have hheld : heldL s.workers = [] := by
    match hw : s.workers, hO.one with
    | [p], _ =>
      have := hgone p (by rw [hw]; simp)
      rcases this with h | h <;> subst h <;> simp [heldL, Phase.items]
  have hord := hO.ord
  rw [hheld, hi1, hi2] at hord
  simp at hord
  refine ⟨hc, ?_⟩
  rw [hout, ← List.map_reverse, hord]

/-- Safety at EVERY reachable state (not only at the end) of a clean pool: what the consumer has
    received so far is exactly `f` of the items delivered so far (one result per item, computed from
    that item), the delivered items are a sub-multiset of the input, and nothing has panicked. -/
theorem pool_safe (F : PoolFacts) (hF : F.exitsWithoutDone = [] ∧ F.unsyncSharedWrites = [] ∧ F.producerLeaks = [])
    (f : α → β) (stops : α → Bool) (w cap : Nat) (inp : List α) (s : PState α β)
    (hR : Reachable F f stops (init w cap inp) s) :
    s.out = s.done.map f ∧ (∀ a, s.done.count a ≤ inp.count a) ∧ s.panicked = false ∧
    (s.closed = true → ∀ p ∈ s.workers, p = Phase.finished) := by
  have hI := reachable_inv F f stops w cap inp s hR
  have hC := reachable_invClean F ⟨hF.1, hF.2.1⟩ f stops w cap inp s hR
  refine ⟨hC.out, ?_, hI.nopanic, ?_⟩
  · intro a
    have := hI.cons a
    omega
  · intro hc p hp
    have h0 : sumMap Phase.notFinished s.workers = 0 := by rw [← hI.wg]; exact hI.closed hc
    have := sumMap_eq_zero h0 p hp
    cases p <;> simp [Phase.notFinished] at this ⊢

/-- Freedom from deadlock: a reachable state of a clean pool whose result channel is not yet closed
    can always move (the consumer draining). -/
theorem pool_no_deadlock (F : PoolFacts) (hF : F.exitsWithoutDone = [] ∧ F.unsyncSharedWrites = [] ∧ F.producerLeaks = [])
    (f : α → β) (stops : α → Bool) (w cap : Nat) (hcap : 1 ≤ cap) (inp : List α) (s : PState α β)
    (hR : Reachable F f stops (init w cap inp) s) (hc : s.closed = false) : ∃ s', Step F f stops s s' := by
  apply Classical.byContradiction
  intro hno
  have hT : Terminal F f stops s := fun s' hs => hno ⟨s', hs⟩
  have := (pool_normal_form_general F hF f stops w cap hcap inp s hR hT).1
  rw [hc] at this
  exact absurd this (by simp)

/-- No send on a closed channel, for every pool shape (leaky or racy included). -/
theorem pool_no_send_on_closed (F : PoolFacts) (f : α → β) (stops : α → Bool) (w cap : Nat) (inp : List α) (s : PState α β)
    (hR : Reachable F f stops (init w cap inp) s) : s.panicked = false :=
  (reachable_inv F f stops w cap inp s hR).nopanic

/-- The error reaches the caller.  (a) A pool that records (no early exit: Compare, CompareWeighted):
    the record `f x` of every item, erroneous ones included, is delivered.  (b) A pool that stops
    (FBP): if some item of the stream is erroneous, every maximal run ends — channel closed, caller
    released — with the shared error set; and it is set only then. -/
theorem error_reaches_caller (F : PoolFacts) (hF : F.exitsWithoutDone = [] ∧ F.unsyncSharedWrites = [] ∧ F.producerLeaks = [])
    (f : α → β) (stops : α → Bool) (w : Nat) (hw : 1 ≤ w) (cap : Nat) (hcap : 1 ≤ cap) (inp : List α) (s : PState α β)
    (hR : Reachable F f stops (init w cap inp) s) (hT : Terminal F f stops s) :
    (F.earlyExits = [] → ∀ x ∈ inp, f x ∈ s.out) ∧
    (F.earlyExits ≠ [] → (s.closed = true ∧ (s.errSet = true ↔ ∃ x ∈ inp, stops x = true))) := by
  obtain ⟨hc, _, hperm, hds, herr, hinp, hde, hnd, hout⟩ := pool_normal_form_general F hF f stops w cap hcap inp s hR hT
  have hI := reachable_inv F f stops w cap inp s hR
  constructor
  · intro hE x hx
    have := (pool_normal_form_complete F hF f stops w hw cap hcap inp (Or.inl hE) s hR hT).2
    exact (this.mem_iff).mpr (List.mem_map_of_mem hx)
  · intro hE
    refine ⟨hc, ?_⟩
    constructor
    · intro he
      rw [herr] at he
      cases hdd : s.dropped with
      | nil => simp [hdd] at he
      | cons x r =>
        have hx : stops x = true := hds x (by simp [hdd])
        have hcons := hI.cons x
        have : 0 < inp.count x := by
          rw [← hcons, hdd]; simp; omega
        exact ⟨x, List.count_pos_iff.mp this, hx⟩
    · intro ⟨x, hx, hsx⟩
      rw [herr]
      -- x is delivered, dropped, or never received
      have hcx := hI.cons x
      have hpos : 0 < inp.count x := List.count_pos_iff.mpr hx
      cases hdd : s.dropped with
      | cons y r => simp
      | nil =>
        exfalso
        have hi : s.inp ++ s.pending = [] := by
          cases hii : s.inp ++ s.pending with
          | nil => rfl
          | cons z r =>
            have := hinp (by simp [hii])
            rw [hdd] at this
            simp at this; omega
        have hi1 : s.inp = [] := (List.append_eq_nil_iff.mp hi).1
        have hi2 : s.pending = [] := (List.append_eq_nil_iff.mp hi).2
        -- then x ∈ done, but done items do not stop
        have hfin : sumMap (Phase.cnt x) s.workers = 0 := by
          have hgone := terminal_workers_gone F hF.2.2 f stops w cap hcap inp s hI hT
          have : ∀ l : List (Phase α β), (∀ p ∈ l, p = Phase.finished ∨ p = Phase.leaked) → sumMap (Phase.cnt x) l = 0 := by
            intro l
            induction l with
            | nil => intro _; rfl
            | cons b r ih =>
              intro h
              have hb := h b (by simp)
              have hr := ih (fun p hp => h p (by simp [hp]))
              rcases hb with hb | hb <;> subst hb <;> simp [sumMap, Phase.cnt, Phase.items, hr]
          exact this _ hgone
        rw [hfin, hdd, hi1, hi2] at hcx
        simp at hcx
        have hxd : x ∈ s.done := List.count_pos_iff.mp (by omega)
        have := hnd hE x hxd
        rw [hsx] at this
        exact absurd this (by simp)

/-! ## The defects as theorems -/

/-- F16 as a theorem: as soon as the extracted facts contain ONE exit path that skips `wg.Done()`
    there is an input and a schedule after which nothing can move and the result channel is not
    closed — the caller ranging over it blocks forever.  (`x₀` is any item on which the workers take
    their early exits, e.g. an erroneous tree; it is not needed when the leaking exit is the end of
    the loop.) -/
theorem pool_leak_deadlocks (F : PoolFacts) (h : F.exitsWithoutDone ≠ []) (f : α → β) (stops : α → Bool)
    (x₀ : α) (hx₀ : stops x₀ = true) :
    ∃ (inp : List α) (s : PState α β), Reachable F f stops (init 1 1 inp) s ∧ Terminal F f stops s ∧ s.closed = false := by
  obtain ⟨e, he⟩ := List.exists_mem_of_ne_nil _ h
  simp only [PoolFacts.exitsWithoutDone, List.mem_filter] at he
  obtain ⟨hmem, hdone⟩ := he
  have hdone : e.done = false := by simpa using hdone
  by_cases hre : e.isRangeEnd = true
  · -- the loop end leaks: empty input; the producer leaves, the only worker leaves without Done
    have hR : F.shape.rangeEndDone = false := by
      simp only [PoolFacts.shape, PoolFacts.rangeEndDone]
      rw [Bool.eq_false_iff]
      intro hall
      have := (List.all_eq_true.mp hall) e hmem
      simp [hre, hdone] at this
    cases hpc : F.shape.producerCloses
    · -- the producer does not even close: the worker waits forever
      let s1 : PState α β := { (init 1 1 [] : PState α β) with prod := false }
      refine ⟨[], s1, ?_, ?_, rfl⟩
      · refine Reachable.step Reachable.refl ⟨2, 0, ?_⟩
        simp [stepFn, init, hpc, s1]
      · apply terminal_of_none
        intro i hi
        have hi3 : i = 0 ∨ i = 1 ∨ i = 2 := by
          simp [stepFn, s1, init] at hi; omega
        rcases hi3 with rfl | rfl | rfl <;> simp [stepFn, s1, init]
    · let s1 : PState α β := { (init 1 1 [] : PState α β) with prod := false, srcOpen := false }
      let s2 : PState α β := { s1 with workers := [.leaked] }
      refine ⟨[], s2, ?_, ?_, rfl⟩
      · have h1 : Reachable F f stops (init 1 1 []) s1 := by
          refine Reachable.step Reachable.refl ⟨2, 0, ?_⟩
          simp [stepFn, init, hpc, s1]
        refine Reachable.step h1 ⟨0, 0, ?_⟩
        simp [stepFn, init, hR, s1, s2]
      · apply terminal_of_none
        intro i hi
        have hi3 : i = 0 ∨ i = 1 ∨ i = 2 := by
          simp [stepFn, s1, s2, init] at hi; omega
        rcases hi3 with rfl | rfl | rfl <;> simp [stepFn, s1, s2, init]
  · -- an early exit leaks: one erroneous item
    have hre : e.isRangeEnd = false := by simpa using hre
    have hmemE : e ∈ F.earlyExits := by
      simp [PoolFacts.earlyExits, hmem, hre]
    obtain ⟨k, hk, hke⟩ := List.getElem_of_mem hmemE
    have hne : F.shape.early.isEmpty = false := by
      simp only [PoolFacts.shape, List.isEmpty_map]
      cases hh : F.earlyExits with
      | nil => rw [hh] at hmemE; cases hmemE
      | cons _ _ => rfl
    have hget : F.shape.early[k]? = some false := by
      simp only [PoolFacts.shape, List.getElem?_map]
      rw [List.getElem?_eq_getElem hk, hke]
      simp [hdone]
    let s1 : PState α β := { (init 1 1 [x₀] : PState α β) with pending := [], inp := [x₀] }
    let s2 : PState α β := { s1 with inp := [], workers := [.holding x₀] }
    let s3 : PState α β := { s2 with workers := [.leaked], dropped := [x₀], errSet := true }
    have h1 : Reachable F f stops (init 1 1 [x₀]) s1 := by
      refine Reachable.step Reachable.refl ⟨2, 0, ?_⟩
      simp [stepFn, init, s1]
    have h2 : Reachable F f stops (init 1 1 [x₀]) s2 := by
      refine Reachable.step h1 ⟨0, 0, ?_⟩
      simp [stepFn, init, s1, s2]
    have h3 : Reachable F f stops (init 1 1 [x₀]) s3 := by
      refine Reachable.step h2 ⟨0, k, ?_⟩
      simp [stepFn, s1, s2, s3, init, hx₀, hne, hget]
    by_cases hpc' : F.shape.producerCloses = true
    case neg =>
      have hpc : F.shape.producerCloses = false := by simpa using hpc'
      let s4 : PState α β := { s3 with prod := false }
      refine ⟨[x₀], s4, ?_, ?_, rfl⟩
      · refine Reachable.step h3 ⟨2, 0, ?_⟩
        simp [stepFn, s1, s2, s3, s4, init, hpc]
      · apply terminal_of_none
        intro i hi
        have hi3 : i = 0 ∨ i = 1 ∨ i = 2 := by
          simp [stepFn, s1, s2, s3, s4, init] at hi; omega
        rcases hi3 with rfl | rfl | rfl <;> simp [stepFn, s1, s2, s3, s4, init]
    case pos =>
      have hpc := hpc'
      let s4 : PState α β := { s3 with prod := false, srcOpen := false }
      refine ⟨[x₀], s4, ?_, ?_, rfl⟩
      · refine Reachable.step h3 ⟨2, 0, ?_⟩
        simp [stepFn, s1, s2, s3, s4, init, hpc]
      · apply terminal_of_none
        intro i hi
        have hi3 : i = 0 ∨ i = 1 ∨ i = 2 := by
          simp [stepFn, s1, s2, s3, s4, init] at hi; omega
        rcases hi3 with rfl | rfl | rfl <;> simp [stepFn, s1, s2, s3, s4, init]

/-- The same for the producer: if the goroutine feeding the input channel has an exit path that skips
    its `close` (ReadMultiTrees returning after a parse error, say), the workers wait on the open,
    empty channel forever and the result channel is never closed. -/
theorem producer_leak_deadlocks (F : PoolFacts) (h : F.producerLeaks ≠ []) (f : α → β) (stops : α → Bool) :
    ∃ (s : PState α β), Reachable F f stops (init 1 1 []) s ∧ Terminal F f stops s ∧ s.closed = false := by
  have hpc : F.shape.producerCloses = false := by
    simp only [PoolFacts.shape]
    cases hh : F.producerLeaks with
    | nil => exact absurd hh h
    | cons _ _ => rfl
  let s1 : PState α β := { (init 1 1 [] : PState α β) with prod := false }
  refine ⟨s1, ?_, ?_, rfl⟩
  · refine Reachable.step Reachable.refl ⟨2, 0, ?_⟩
    simp [stepFn, init, hpc, s1]
  · apply terminal_of_none
    intro i hi
    have hi3 : i = 0 ∨ i = 1 ∨ i = 2 := by
      simp [stepFn, s1, init] at hi; omega
    rcases hi3 with rfl | rfl | rfl <;> simp [stepFn, s1, init]

end

/-! ## The functions the driver runs -/

/-- ★ for the function the driver executes: whatever schedule it is given, `runToEnd` ends in a
    state reachable in the LTS where nothing can move — so the theorems above apply to its result. -/
theorem runToEnd_maximal (F : PoolFacts) (f : α → β) (stops : α → Bool) (w cap : Nat) (inp : List α) (sched : List (Nat × Nat)) :
    Reachable F f stops (init w cap inp) (runToEnd F.shape f stops w cap inp sched) ∧
    Terminal F f stops (runToEnd F.shape f stops w cap inp sched) := by
  unfold runToEnd
  refine ⟨?_, ?_⟩
  · exact drain_reachable F f stops _ _ _ (exec_reachable F f stops _ sched _ Reachable.refl)
  · exact drain_terminal F f stops _ _ (Nat.le_refl _)

/-- the driver's run of a clean recording pool: closed, and exactly the sequential results -/
theorem runToEnd_complete (F : PoolFacts) (hF : F.exitsWithoutDone = [] ∧ F.unsyncSharedWrites = [] ∧ F.producerLeaks = [])
    (f : α → β) (stops : α → Bool) (w : Nat) (hw : 1 ≤ w) (cap : Nat) (hcap : 1 ≤ cap) (inp : List α)
    (hE : F.earlyExits = [] ∨ ∀ x ∈ inp, stops x = false) (sched : List (Nat × Nat)) :
    (runToEnd F.shape f stops w cap inp sched).closed = true ∧
    (runToEnd F.shape f stops w cap inp sched).out.Perm (inp.map f) := by
  obtain ⟨hR, hT⟩ := runToEnd_maximal F f stops w cap inp sched
  exact pool_normal_form_complete F hF f stops w hw cap hcap inp hE _ hR hT

/-! ## The regenerated table (Gotree/Gen/C11Goroutines.lean, rewritten from /repo on every run) -/

open Gotree.Gen.C11

/-- table decision: no exit path of any pool worker of tree/algo.go, support/*.go skips `wg.Done()` (F16) -/
theorem table_exitsWithoutDone_nil : Gotree.Gen.C11.exitsWithoutDone = [] := by decide

/-- table decision: no goroutine writes a captured variable without a mutex, an atomic, or ownership
    through the received item (F17: `err`, `sup.progress`; F18: `compEdges`) -/
theorem table_unsyncSharedWrites_nil : Gotree.Gen.C11.unsyncSharedWrites = [] := by decide

/-- table decision: every pool worker is accounted for by a `wg.Add` before it starts (the LTS starts
    with the counter at the number of workers), and every goroutine that feeds or closes a channel
    closes it on every path (no `return` before its `close`) -/
theorem table_add_and_close :
    (Gotree.Gen.C11.goroutines.filter (fun g => g.counted && !g.addOK)).map (·.line) = [] ∧
    Gotree.Gen.C11.goroutines.flatMap (·.returnsBeforeClose) = [] ∧
    ReadMultiTrees_go0.producerLeaks = [] ∧ TBE_go0.producerLeaks = [] := by decide

/-- table decision (harness/c11/globals.go): below the goroutines of the four pools — through every function of the
    parsed packages they call, to any depth, interface methods included — no PACKAGE-LEVEL variable of the module is
    written (assigned, incremented, or the receiver of a method that may write it) without a mutex or an atomic
    operation.  This is the fact a worker can break without capturing anything (a hasher, cache or counter made
    package-level in a callee); the only rows of the unchanged tree are the atomic counter of the `verif` yield hook. -/
theorem table_no_unsync_global_write :
    (Gotree.Gen.C11.globalWrites.filter (fun gw => gw.2.unsync)).map (fun gw => (gw.1, gw.2.var, gw.2.line)) = [] := by decide

/-- table decision (harness/c11/chans.go): the capacity of every channel made in the scoped functions was read
    (`a * threads + b`), and the two input channels whose capacity the driver's model runs take from the table are
    there: the tree channel of `ReadMultiTrees`, the edge channel of `TBE`.  Their VALUES are not pinned: the
    theorems hold for every capacity, a changed buffer size changes the model run only. -/
theorem table_channel_capacities :
    Gotree.Gen.C11.chanCapsUnparsed = [] ∧
    (Gotree.Gen.C11.chanCaps.any fun c => c.1 == "ReadMultiTrees" && c.2.2.1 == "tree.Trees") = true ∧
    (Gotree.Gen.C11.chanCaps.any fun c => c.1 == "TBE" && c.2.2.1 == "*tree.Edge") = true := by decide

/-- table decision: every goroutine the model and the driver name (workers, closers, producers of the four pools) was
    found in the source; a missing one is replaced by a leaky placeholder so that the driver still builds and the
    cases still run (the oracle can then exhibit a failing input), and is listed here -/
theorem table_no_missing_goroutine : Gotree.Gen.C11.missingGoroutines = [] := by decide

/-- table decision: every write an exported method of `*hashmap.HashMap` makes through its receiver
    (PutValue, and rehash below it) happens with the write lock held -/
theorem table_hashmap_writes_locked :
    (Gotree.Gen.C11.hashMapWrites.filter (fun mw => match mw.2.sync with | .mutex => false | _ => true)).map (·.2.line) = [] := by
  decide


/-- table decision: `HashMap.Value` and `HashMap.PutValue` (the two methods the pools use, hashmap.go:47,62)
    touch the state behind their receiver only with the lock held, reads included. -/
theorem table_hashmap_value_put_locked :
    ((Gotree.Gen.C11.hashMapAccesses.filter (fun ma => ma.1 == "HashMap.Value" || ma.1 == "HashMap.PutValue")).all
      (fun ma => match ma.2.sync with | .mutex => true | _ => false)) = true ∧
    (Gotree.Gen.C11.hashMapAccesses.any (fun ma => ma.1 == "HashMap.Value")) = true ∧
    (Gotree.Gen.C11.hashMapAccesses.any (fun ma => ma.1 == "HashMap.PutValue" && ma.2.write)) = true := by decide

/-- OUTSIDE the property's statement (it names tree comparison, weighted comparison, FBP and TBE), shown in
    the table and reviewed: the two other pools driven by the thread option.  `compute roccurve` is clean;
    every defect row (exit without `wg.Done`, return before `close`, unsynchronised write, race pair)
    may only belong to `compute edgetrees` (cmd/edgetrees.go: its workers returned on an error without
    `wg.Done()` and wrote the shared `err` unsynchronised — the F16/F17 pattern, repaired in /repo 279357c). -/
theorem table_other_pools_reviewed :
    ((Gotree.Gen.C11.otherGoroutines.filter (fun g =>
        !g.exitsWithoutDone.isEmpty || !g.unsyncSharedWrites.isEmpty || !g.returnsBeforeClose.isEmpty)).all
      (fun g => g.fn == "edgeTreesCmd")) = true ∧
    racePairs (Gotree.Gen.C11.otherGoroutines.filter (fun g => g.fn != "edgeTreesCmd")) = [] ∧
    (Gotree.Gen.C11.otherGoroutines.any (fun g => g.fn == "roccurveCmd" && g.counted)) = true ∧
    (Gotree.Gen.C11.otherGoroutines.any (fun g => g.fn == "edgeTreesCmd" && g.counted)) = true := by decide

/-- table decision ("the consumer drains", the assumption built into the send step of the LTS): in
    cmd/comparetrees.go the channels returned by `tree.Compare` and `tree.CompareWeighted` are each ranged
    over by the caller, and every "empty the channel" loop inside names that same channel (F38 drained the
    other, nil, one).  Syntactic. -/
theorem table_callers_drain :
    Gotree.Gen.C11.compareCallers.length = 2 ∧
    (Gotree.Gen.C11.compareCallers.all (fun c => c.2.2.1 && c.2.2.2.all (fun d => d == c.2.1))) = true ∧
    (Gotree.Gen.C11.compareCallers.any (fun c => c.1 == "CompareWeighted" && !c.2.2.2.isEmpty)) = true := by decide

/-- table decision: EVERY exported method of `*hashmap.HashMap` (Keys and KeyValues included, since
    ade4233) touches the state behind its receiver only with the lock held -/
theorem table_hashmap_all_locked :
    ((Gotree.Gen.C11.hashMapAccesses.filter (fun ma => (ma.1.toList.take 8) == "HashMap.".toList)).all
      (fun ma => match ma.2.sync with | .mutex => true | _ => false)) = true := by decide

/-- table decision: every exported method of `*support.Supporter` (the progress counter and the stop
    flag shared by the FBP/TBE workers and the caller, F17) touches its fields only with the lock held -/
theorem table_supporter_locked :
    ((Gotree.Gen.C11.hashMapAccesses.filter (fun ma => (ma.1.toList.take 10) == "Supporter.".toList)).all
      (fun ma => match ma.2.sync with | .mutex => true | _ => false)) = true ∧
    (Gotree.Gen.C11.hashMapAccesses.any (fun ma => ma.1 == "Supporter.IncrementProgress" && ma.2.write)) = true ∧
    (Gotree.Gen.C11.hashMapAccesses.any (fun ma => ma.1 == "Supporter.Canceled")) = true := by decide

/-- table decision: in each pool the goroutine that closes the result channel is started after the
    workers (after their `wg.Add`), so its `wg.Wait()` cannot return before they are accounted for -/
theorem table_closer_after_workers :
    Compare_worker0.line < Compare_closer0.line ∧ CompareWeighted_worker0.line < CompareWeighted_closer0.line ∧
    FBP_worker0.line < FBP_closer0.line := by decide

/-- table decision: the per-item pools have exactly the shape the driver runs (`shapeRecord`), and the
    FBP pool is a clean pool whose workers have early exits (the character of `shapeStop`) -/
theorem table_shapes :
    comparePool.shape = shapeRecord ∧ compareWeightedPool.shape = shapeRecord ∧ tbePool.shape = shapeRecord ∧
    (fbpPool.shape.rangeEndDone = true ∧ fbpPool.shape.early.all id = true ∧
     fbpPool.shape.early.isEmpty = false ∧ fbpPool.shape.pureCompute = true ∧ fbpPool.shape.producerCloses = true) := by decide

/-- table decision: every result channel is closed by a goroutine that first waits for the WaitGroup -/
theorem table_close_after_wait :
    (Compare_closer0.closes.all (fun c => c.2.2)) = true ∧ (CompareWeighted_closer0.closes.all (fun c => c.2.2)) = true ∧
    (FBP_closer0.closes.all (fun c => c.2.2)) = true ∧
    Compare_closer0.waits = true ∧ CompareWeighted_closer0.waits = true ∧ FBP_closer0.waits = true := by decide

/-- table decision: the workers of each pool send only on the channel that pool's closer closes (so
    "closed after every worker is done" is about the right channel) -/
theorem table_sends_on_closed_channel :
    Compare_worker0.sends.all (fun s => Compare_closer0.closes.any (fun c => c.1 == s.1)) = true ∧
    CompareWeighted_worker0.sends.all (fun s => CompareWeighted_closer0.closes.any (fun c => c.1 == s.1)) = true ∧
    FBP_worker0.sends.all (fun s => FBP_closer0.closes.any (fun c => c.1 == s.1)) = true ∧
    TBE_worker0.sends = [] := by decide

/-- table decision: no read/write race between goroutines is visible in the table: whenever one goroutine
    writes a captured variable and another one (or another instance of the same `go` statement started
    in a loop) reads overlapping memory, both hold a lock, both are atomic, or both touch only the
    cell owned through the item they received -/
theorem table_no_read_write_race : Gotree.Gen.C11.readWriteRaces = [] := by decide

/-- table decision: the only calls involving captured variables that the extractor did NOT analyse
    are the reviewed ones: bit-set comparison in the external bitset module (read-only), the quartet
    comparison beyond the depth limit (not reachable from these pools), and the parsers the reader
    goroutine hands its own reader to.  A new entry here means: review it. -/
theorem table_unfollowed_reviewed :
    (Gotree.Gen.C11.goroutines.flatMap (·.unfollowed)).all (fun u =>
      ["(*github.com/fredericlemoine/bitset.BitSet).EqualOrComplement(", "(*tree.Quartet).Compare(", "io/"].any
        (fun p => (u.toList.take p.length) == p.toList)) = true := by decide

/-- ★ instantiated: for the pools of `tree.Compare`, `tree.CompareWeighted` and the `support.TBE` fan-out AS
    EXTRACTED FROM THE SOURCE (workers and the goroutine feeding them), every maximal run (any `w ≥ 1`,
    any channel capacity, any stream, any schedule) ends closed with a permutation of the sequential results. -/
theorem extracted_record_pools_complete (F : PoolFacts)
    (hF : F = comparePool ∨ F = compareWeightedPool ∨ F = tbePool)
    (f : α → β) (stops : α → Bool) (w : Nat) (hw : 1 ≤ w) (cap : Nat) (hcap : 1 ≤ cap) (inp : List α) (s : PState α β)
    (hR : Reachable F f stops (init w cap inp) s) (hT : Terminal F f stops s) :
    s.closed = true ∧ s.out.Perm (inp.map f) := by
  have h : (F.exitsWithoutDone = [] ∧ F.unsyncSharedWrites = [] ∧ F.producerLeaks = []) ∧ F.earlyExits = [] := by
    rcases hF with rfl | rfl | rfl <;> decide
  exact pool_normal_form_complete F h.1 f stops w hw cap hcap inp (Or.inl h.2) s hR hT

/-- instantiated: the FBP pool as extracted: every maximal run releases the caller (channel closed)
    and the shared error is set exactly when the stream contains an erroneous tree. -/
theorem extracted_fbp_error_reaches_caller (f : α → β) (stops : α → Bool) (w : Nat) (hw : 1 ≤ w) (cap : Nat) (hcap : 1 ≤ cap)
    (inp : List α) (s : PState α β) (hR : Reachable fbpPool f stops (init w cap inp) s) (hT : Terminal fbpPool f stops s) :
    s.closed = true ∧ (s.errSet = true ↔ ∃ x ∈ inp, stops x = true) :=
  (error_reaches_caller fbpPool (by decide) f stops w hw cap hcap inp s hR hT).2 (by decide)

/-- the driver's run of the extracted `Compare` pool is its run of `shapeRecord` -/
theorem driver_runs_extracted_compare (f : α → β) (stops : α → Bool) (w : Nat) (hw : 1 ≤ w) (cap : Nat) (hcap : 1 ≤ cap)
    (inp : List α) (sched : List (Nat × Nat)) :
    (runToEnd shapeRecord f stops w cap inp sched).closed = true ∧
    (runToEnd shapeRecord f stops w cap inp sched).out.Perm (inp.map f) := by
  have h := runToEnd_complete comparePool (by decide) f stops w hw cap hcap inp (Or.inl (by decide)) sched
  rw [table_shapes.1] at h
  exact h


/-- table decision: the extracted FBP pool generates the same transition relation as `shapeStop`
    (same flags; all of its early exits reach `Done`; it has some) -/
theorem table_fbp_similar_stop : fbpPool.shape.similar stopFacts.shape := by
  refine ⟨by decide, by decide, by decide, by decide, ?_, ?_⟩
  · intro e he
    have h : fbpPool.shape.early.all id = true := by decide
    exact (List.all_eq_true.mp h) e he
  · intro e he
    have h : stopFacts.shape.early.all id = true := by decide
    exact (List.all_eq_true.mp h) e he

/-- the driver's run of `shapeStop` is a maximal run of the FBP pool AS EXTRACTED FROM THE SOURCE: it
    ends with the caller released, and with the shared error set exactly when the stream contains
    an erroneous tree; without one, the collector receives exactly the sequential results. -/
theorem driver_runs_extracted_fbp (f : α → β) (stops : α → Bool) (w : Nat) (hw : 1 ≤ w) (cap : Nat) (hcap : 1 ≤ cap)
    (inp : List α) (sched : List (Nat × Nat)) :
    Reachable fbpPool f stops (init w cap inp) (runToEnd shapeStop f stops w cap inp sched) ∧
    Terminal fbpPool f stops (runToEnd shapeStop f stops w cap inp sched) ∧
    (runToEnd shapeStop f stops w cap inp sched).closed = true ∧
    ((runToEnd shapeStop f stops w cap inp sched).errSet = true ↔ ∃ x ∈ inp, stops x = true) ∧
    ((∀ x ∈ inp, stops x = false) → (runToEnd shapeStop f stops w cap inp sched).out.Perm (inp.map f)) := by
  have hsim := Shape.similar_symm table_fbp_similar_stop
  have hm := runToEnd_maximal stopFacts f stops w cap inp sched
  have hshape : stopFacts.shape = shapeStop := by decide
  rw [hshape] at hm
  have hR := reachable_congr hsim f stops _ _ hm.1
  have hT := terminal_congr hsim f stops _ hm.2
  have he := extracted_fbp_error_reaches_caller f stops w hw cap hcap inp _ hR hT
  refine ⟨hR, hT, he.1, he.2, ?_⟩
  intro hno
  exact (pool_normal_form_complete fbpPool (by decide) f stops w hw cap hcap inp (Or.inr hno) _ hR hT).2

/-! ## The same theorems for EVERY channel capacity, the unbuffered (rendezvous) channel included

  `cap = 0` makes the producer's send and a worker's receive one step (Model/C11.lean).  The hypothesis
  `1 ≤ cap` of the statements above is not needed; they are kept under their names, and proved again
  here without it. -/

section AnyCap
open Classical

/-- `pool_normal_form_general` for every capacity of the input channel, 0 (unbuffered: rendezvous) included -/
theorem pool_normal_form_general_anycap (F : PoolFacts) (hF : F.exitsWithoutDone = [] ∧ F.unsyncSharedWrites = [] ∧ F.producerLeaks = [])
    (f : α → β) (stops : α → Bool) (w cap : Nat) (inp : List α) (s : PState α β)
    (hR : Reachable F f stops (init w cap inp) s) (hT : Terminal F f stops s) :
    s.closed = true ∧ s.panicked = false ∧
    (s.out ++ (s.dropped ++ (s.inp ++ s.pending)).map f).Perm (inp.map f) ∧
    (∀ x ∈ s.dropped, stops x = true) ∧ (s.errSet = !s.dropped.isEmpty) ∧
    (s.inp ++ s.pending ≠ [] → w ≤ s.dropped.length) ∧ (F.earlyExits = [] → s.dropped = []) ∧
    (F.earlyExits ≠ [] → ∀ x ∈ s.done, stops x = false) ∧ s.out = s.done.map f := by
  have hI := reachable_inv F f stops w cap inp s hR
  have hC := reachable_invClean F ⟨hF.1, hF.2.1⟩ f stops w cap inp s hR
  have hgone := terminal_workers_gone' F hF.2.2 f stops w cap inp s hI hT
  -- no worker leaked, so all are finished
  have hfin : ∀ p ∈ s.workers, p = Phase.finished := by
    intro p hp
    rcases hgone p hp with h | h
    · exact h
    · have := sumMap_eq_zero hC.noleak p hp
      subst h; simp [Phase.isLeaked] at this
  have hnf : sumMap Phase.notFinished s.workers = 0 := by
    have : ∀ l : List (Phase α β), (∀ p ∈ l, p = Phase.finished) → sumMap Phase.notFinished l = 0 := by
      intro l
      induction l with
      | nil => intro _; rfl
      | cons a r ih =>
        intro h
        have ha := h a (by simp)
        subst ha
        simp [sumMap, Phase.notFinished]
        exact ih (fun p hp => h p (by simp [hp]))
    exact this _ hfin
  have hwg : s.wg = 0 := by rw [hI.wg]; exact hnf
  have hclosed : s.closed = true := by
    apply closer_can_move F.shape f stops s hI.nopanic _ hwg
    cases h0 : stepFn F.shape f stops s s.workers.length 0 with
    | none => rfl
    | some s' => exact absurd ⟨_, 0, h0⟩ (hT s')
  have hcnt0 : ∀ a, sumMap (Phase.cnt a) s.workers = 0 := by
    intro a
    have : ∀ l : List (Phase α β), (∀ p ∈ l, p = Phase.finished) → sumMap (Phase.cnt a) l = 0 := by
      intro l
      induction l with
      | nil => intro _; rfl
      | cons b r ih =>
        intro h
        have hb := h b (by simp)
        subst hb
        simp [sumMap, Phase.cnt, Phase.items]
        exact ih (fun p hp => h p (by simp [hp]))
    exact this _ hfin
  have hex : sumMap Phase.exited s.workers = w := by
    rw [← hI.len]
    apply sumMap_all_one
    intro p hp
    rw [hfin p hp]; rfl
  refine ⟨hclosed, hI.nopanic, ?_, hI.droppedStops, hI.errset, ?_, ?_, ?_, hC.out⟩
  · rw [hC.out, ← List.map_append]
    apply List.Perm.map
    rw [List.perm_iff_count]
    intro a
    have := hI.cons a
    rw [hcnt0 a] at this
    simp [List.count_append]; omega
  · intro hne
    rcases hI.exits with h | h
    · exfalso
      apply hne
      rw [h.1, (hI.src1 h.2).1]; rfl
    · omega
  · intro he
    apply hI.droppedEarly
    simp [PoolFacts.shape, he]
  · intro he
    apply hI.noStopDone
    simpa [PoolFacts.shape] using he

/-- `pool_normal_form_complete` for every capacity of the input channel, 0 (unbuffered: rendezvous) included -/
theorem pool_normal_form_complete_anycap (F : PoolFacts) (hF : F.exitsWithoutDone = [] ∧ F.unsyncSharedWrites = [] ∧ F.producerLeaks = [])
    (f : α → β) (stops : α → Bool) (w : Nat) (hw : 1 ≤ w) (cap : Nat) (inp : List α)
    (hE : F.earlyExits = [] ∨ ∀ x ∈ inp, stops x = false) (s : PState α β)
    (hR : Reachable F f stops (init w cap inp) s) (hT : Terminal F f stops s) :
    s.closed = true ∧ s.out.Perm (inp.map f) := by
  obtain ⟨hc, _, hperm, hds, _, hinp, hde, _, _⟩ := pool_normal_form_general_anycap F hF f stops w cap inp s hR hT
  have hI := reachable_inv F f stops w cap inp s hR
  have hd : s.dropped = [] := by
    rcases hE with hE | hE
    · exact hde hE
    · -- a dropped item would be an item of the input that stops
      cases hdd : s.dropped with
      | nil => rfl
      | cons x r =>
        have hx : stops x = true := hds x (by simp [hdd])
        have hcons := hI.cons x
        have : 0 < inp.count x := by
          rw [← hcons, hdd]; simp; omega
        have hmem : x ∈ inp := List.count_pos_iff.mp this
        rw [hE x hmem] at hx
        exact absurd hx (by simp)
  have hi : s.inp ++ s.pending = [] := by
    cases hii : s.inp ++ s.pending with
    | nil => rfl
    | cons x r =>
      have := hinp (by simp [hii])
      rw [hd] at this
      simp at this; omega
  refine ⟨hc, ?_⟩
  simpa [hd, hi] using hperm

/-- `pool_thread_count_independent` for every capacity of the input channel, 0 (unbuffered: rendezvous) included -/
theorem pool_thread_count_independent_anycap (F : PoolFacts) (hF : F.exitsWithoutDone = [] ∧ F.unsyncSharedWrites = [] ∧ F.producerLeaks = [])
    (f : α → β) (stops : α → Bool) (w : Nat) (hw : 1 ≤ w) (cap cap₁ : Nat) (inp : List α)
    (hE : F.earlyExits = [] ∨ ∀ x ∈ inp, stops x = false) (s s₁ : PState α β)
    (hR : Reachable F f stops (init w cap inp) s) (hT : Terminal F f stops s)
    (hR₁ : Reachable F f stops (init 1 cap₁ inp) s₁) (hT₁ : Terminal F f stops s₁) :
    s.out.Perm s₁.out :=
  (pool_normal_form_complete_anycap F hF f stops w hw cap inp hE s hR hT).2.trans
    (pool_normal_form_complete_anycap F hF f stops 1 (Nat.le_refl 1) cap₁ inp hE s₁ hR₁ hT₁).2.symm

/-- `pool_single_worker_sequential` for every capacity of the input channel, 0 (unbuffered: rendezvous) included -/
theorem pool_single_worker_sequential_anycap (F : PoolFacts) (hF : F.exitsWithoutDone = [] ∧ F.unsyncSharedWrites = [] ∧ F.producerLeaks = [])
    (hE : F.earlyExits = []) (f : α → β) (stops : α → Bool) (cap : Nat) (inp : List α) (s : PState α β)
    (hR : Reachable F f stops (init 1 cap inp) s) (hT : Terminal F f stops s) :
    s.closed = true ∧ s.out.reverse = inp.map f := by
  obtain ⟨hc, _, _, _, _, hinp, hde, _, hout⟩ := pool_normal_form_general_anycap F hF f stops 1 cap inp s hR hT
  have hI := reachable_inv F f stops 1 cap inp s hR
  have hC := reachable_invClean F ⟨hF.1, hF.2.1⟩ f stops 1 cap inp s hR
  have hO := reachable_ordInv F hE f stops cap inp s hR
  have hd : s.dropped = [] := hde hE
  have hi : s.inp ++ s.pending = [] := by
    cases hii : s.inp ++ s.pending with
    | nil => rfl
    | cons x r =>
      have := hinp (by simp [hii])
      rw [hd] at this
      simp at this
  have hi1 : s.inp = [] := (List.append_eq_nil_iff.mp hi).1
  have hi2 : s.pending = [] := (List.append_eq_nil_iff.mp hi).2
  -- the only worker is gone
  have hgone := terminal_workers_gone' F hF.2.2 f stops 1 cap inp s hI hT
  have hheld : heldL s.workers = [] := by
    match hw : s.workers, hO.one with
    | [p], _ =>
      have := hgone p (by rw [hw]; simp)
      rcases this with h | h <;> subst h <;> simp [heldL, Phase.items]
  have hord := hO.ord
  rw [hheld, hi1, hi2] at hord
  simp at hord
  refine ⟨hc, ?_⟩
  rw [hout, ← List.map_reverse, hord]

/-- `pool_no_deadlock` for every capacity of the input channel, 0 (unbuffered: rendezvous) included -/
theorem pool_no_deadlock_anycap (F : PoolFacts) (hF : F.exitsWithoutDone = [] ∧ F.unsyncSharedWrites = [] ∧ F.producerLeaks = [])
    (f : α → β) (stops : α → Bool) (w cap : Nat) (inp : List α) (s : PState α β)
    (hR : Reachable F f stops (init w cap inp) s) (hc : s.closed = false) : ∃ s', Step F f stops s s' := by
  apply Classical.byContradiction
  intro hno
  have hT : Terminal F f stops s := fun s' hs => hno ⟨s', hs⟩
  have := (pool_normal_form_general_anycap F hF f stops w cap inp s hR hT).1
  rw [hc] at this
  exact absurd this (by simp)

/-- `error_reaches_caller` for every capacity of the input channel, 0 (unbuffered: rendezvous) included -/
theorem error_reaches_caller_anycap (F : PoolFacts) (hF : F.exitsWithoutDone = [] ∧ F.unsyncSharedWrites = [] ∧ F.producerLeaks = [])
    (f : α → β) (stops : α → Bool) (w : Nat) (hw : 1 ≤ w) (cap : Nat) (inp : List α) (s : PState α β)
    (hR : Reachable F f stops (init w cap inp) s) (hT : Terminal F f stops s) :
    (F.earlyExits = [] → ∀ x ∈ inp, f x ∈ s.out) ∧
    (F.earlyExits ≠ [] → (s.closed = true ∧ (s.errSet = true ↔ ∃ x ∈ inp, stops x = true))) := by
  obtain ⟨hc, _, hperm, hds, herr, hinp, hde, hnd, hout⟩ := pool_normal_form_general_anycap F hF f stops w cap inp s hR hT
  have hI := reachable_inv F f stops w cap inp s hR
  constructor
  · intro hE x hx
    have := (pool_normal_form_complete_anycap F hF f stops w hw cap inp (Or.inl hE) s hR hT).2
    exact (this.mem_iff).mpr (List.mem_map_of_mem hx)
  · intro hE
    refine ⟨hc, ?_⟩
    constructor
    · intro he
      rw [herr] at he
      cases hdd : s.dropped with
      | nil => simp [hdd] at he
      | cons x r =>
        have hx : stops x = true := hds x (by simp [hdd])
        have hcons := hI.cons x
        have : 0 < inp.count x := by
          rw [← hcons, hdd]; simp; omega
        exact ⟨x, List.count_pos_iff.mp this, hx⟩
    · intro ⟨x, hx, hsx⟩
      rw [herr]
      -- x is delivered, dropped, or never received
      have hcx := hI.cons x
      have hpos : 0 < inp.count x := List.count_pos_iff.mpr hx
      cases hdd : s.dropped with
      | cons y r => simp
      | nil =>
        exfalso
        have hi : s.inp ++ s.pending = [] := by
          cases hii : s.inp ++ s.pending with
          | nil => rfl
          | cons z r =>
            have := hinp (by simp [hii])
            rw [hdd] at this
            simp at this; omega
        have hi1 : s.inp = [] := (List.append_eq_nil_iff.mp hi).1
        have hi2 : s.pending = [] := (List.append_eq_nil_iff.mp hi).2
        -- then x ∈ done, but done items do not stop
        have hfin : sumMap (Phase.cnt x) s.workers = 0 := by
          have hgone := terminal_workers_gone' F hF.2.2 f stops w cap inp s hI hT
          have : ∀ l : List (Phase α β), (∀ p ∈ l, p = Phase.finished ∨ p = Phase.leaked) → sumMap (Phase.cnt x) l = 0 := by
            intro l
            induction l with
            | nil => intro _; rfl
            | cons b r ih =>
              intro h
              have hb := h b (by simp)
              have hr := ih (fun p hp => h p (by simp [hp]))
              rcases hb with hb | hb <;> subst hb <;> simp [sumMap, Phase.cnt, Phase.items, hr]
          exact this _ hgone
        rw [hfin, hdd, hi1, hi2] at hcx
        simp at hcx
        have hxd : x ∈ s.done := List.count_pos_iff.mp (by omega)
        have := hnd hE x hxd
        rw [hsx] at this
        exact absurd this (by simp)

/-- `runToEnd_complete` for every capacity of the input channel, 0 (unbuffered: rendezvous) included -/
theorem runToEnd_complete_anycap (F : PoolFacts) (hF : F.exitsWithoutDone = [] ∧ F.unsyncSharedWrites = [] ∧ F.producerLeaks = [])
    (f : α → β) (stops : α → Bool) (w : Nat) (hw : 1 ≤ w) (cap : Nat) (inp : List α)
    (hE : F.earlyExits = [] ∨ ∀ x ∈ inp, stops x = false) (sched : List (Nat × Nat)) :
    (runToEnd F.shape f stops w cap inp sched).closed = true ∧
    (runToEnd F.shape f stops w cap inp sched).out.Perm (inp.map f) := by
  obtain ⟨hR, hT⟩ := runToEnd_maximal F f stops w cap inp sched
  exact pool_normal_form_complete_anycap F hF f stops w hw cap inp hE _ hR hT

/-- `extracted_record_pools_complete` for every capacity of the input channel, 0 (unbuffered: rendezvous) included -/
theorem extracted_record_pools_complete_anycap (F : PoolFacts)
    (hF : F = comparePool ∨ F = compareWeightedPool ∨ F = tbePool)
    (f : α → β) (stops : α → Bool) (w : Nat) (hw : 1 ≤ w) (cap : Nat) (inp : List α) (s : PState α β)
    (hR : Reachable F f stops (init w cap inp) s) (hT : Terminal F f stops s) :
    s.closed = true ∧ s.out.Perm (inp.map f) := by
  have h : (F.exitsWithoutDone = [] ∧ F.unsyncSharedWrites = [] ∧ F.producerLeaks = []) ∧ F.earlyExits = [] := by
    rcases hF with rfl | rfl | rfl <;> decide
  exact pool_normal_form_complete_anycap F h.1 f stops w hw cap inp (Or.inl h.2) s hR hT

/-- `extracted_fbp_error_reaches_caller` for every capacity of the input channel, 0 (unbuffered: rendezvous) included -/
theorem extracted_fbp_error_reaches_caller_anycap (f : α → β) (stops : α → Bool) (w : Nat) (hw : 1 ≤ w) (cap : Nat)
    (inp : List α) (s : PState α β) (hR : Reachable fbpPool f stops (init w cap inp) s) (hT : Terminal fbpPool f stops s) :
    s.closed = true ∧ (s.errSet = true ↔ ∃ x ∈ inp, stops x = true) :=
  (error_reaches_caller_anycap fbpPool (by decide) f stops w hw cap inp s hR hT).2 (by decide)

/-- `driver_runs_extracted_compare` for every capacity of the input channel, 0 (unbuffered: rendezvous) included -/
theorem driver_runs_extracted_compare_anycap (f : α → β) (stops : α → Bool) (w : Nat) (hw : 1 ≤ w) (cap : Nat)
    (inp : List α) (sched : List (Nat × Nat)) :
    (runToEnd shapeRecord f stops w cap inp sched).closed = true ∧
    (runToEnd shapeRecord f stops w cap inp sched).out.Perm (inp.map f) := by
  have h := runToEnd_complete_anycap comparePool (by decide) f stops w hw cap inp (Or.inl (by decide)) sched
  rw [table_shapes.1] at h
  exact h

/-- `driver_runs_extracted_fbp` for every capacity of the input channel, 0 (unbuffered: rendezvous) included -/
theorem driver_runs_extracted_fbp_anycap (f : α → β) (stops : α → Bool) (w : Nat) (hw : 1 ≤ w) (cap : Nat)
    (inp : List α) (sched : List (Nat × Nat)) :
    Reachable fbpPool f stops (init w cap inp) (runToEnd shapeStop f stops w cap inp sched) ∧
    Terminal fbpPool f stops (runToEnd shapeStop f stops w cap inp sched) ∧
    (runToEnd shapeStop f stops w cap inp sched).closed = true ∧
    ((runToEnd shapeStop f stops w cap inp sched).errSet = true ↔ ∃ x ∈ inp, stops x = true) ∧
    ((∀ x ∈ inp, stops x = false) → (runToEnd shapeStop f stops w cap inp sched).out.Perm (inp.map f)) := by
  have hsim := Shape.similar_symm table_fbp_similar_stop
  have hm := runToEnd_maximal stopFacts f stops w cap inp sched
  have hshape : stopFacts.shape = shapeStop := by decide
  rw [hshape] at hm
  have hR := reachable_congr hsim f stops _ _ hm.1
  have hT := terminal_congr hsim f stops _ hm.2
  have he := extracted_fbp_error_reaches_caller_anycap f stops w hw cap inp _ hR hT
  refine ⟨hR, hT, he.1, he.2, ?_⟩
  intro hno
  exact (pool_normal_form_complete_anycap fbpPool (by decide) f stops w hw cap inp (Or.inr hno) _ hR hT).2

end AnyCap

/-! ## What the caller sees: the collectors

  The theorems above are about the multiset of the workers' messages.  FBP's caller sees the supports
  computed by the collector from those messages; TBE's caller sees, per bootstrap tree, one raw support
  per reference branch.  Both are invariant under permutation of the messages (Lemmas/C11Collect.lean),
  so they do not depend on the schedule either — stated for the functions the driver runs, with the
  shapes EXTRACTED from the source (`FBP_worker0.facts.shape`, `tbePool.shape` are the driver's
  `extractedShape "fbp"`, `extractedShape "tbe"`). -/

section Collectors
open Classical

/-- FBP: for a stream without erroneous tree the supports the collector computes are the same under
    every schedule, every worker count and channel capacity: those of the sequential run. -/
theorem fbp_supports_schedule_independent (ref : T) (stops : (Nat × Item) → Bool) (w : Nat) (hw : 1 ≤ w) (cap : Nat)
    (inp : List (Nat × Item)) (hno : ∀ x ∈ inp, stops x = false) (sched : List (Nat × Nat)) (ntrees : Nat) :
    fbpSupports ref (runToEnd FBP_worker0.facts.shape (fun x : Nat × Item => fbpFound ref x.2) stops w cap inp sched).out ntrees =
    fbpSupports ref (inp.map fun x => fbpFound ref x.2) ntrees := by
  have h := (runToEnd_complete_anycap FBP_worker0.facts (by decide) (fun x : Nat × Item => fbpFound ref x.2) stops w hw cap inp
    (Or.inr hno) sched).2
  exact fbpSupports_perm ref h ntrees

/-- TBE: for one bootstrap tree `b`, the raw supports collected after the fan-out over the reference
    branches are the same under every schedule, worker count and capacity: every branch is there, with
    the value the sequential per-branch function gives it. -/
theorem tbe_fanout_schedule_independent (r b : T) (sups : List Rat) (w : Nat) (hw : 1 ≤ w) (cap : Nat) (sched : List (Nat × Nat)) :
    tbeCollect r.splits.length (runToEnd tbePool.shape (tbeItemFn r b) (fun _ => false) w cap (tbeItems r sups) sched).out =
    tbeCollect r.splits.length ((tbeItems r sups).map (tbeItemFn r b)) := by
  have h := (runToEnd_complete_anycap tbePool (by decide) (tbeItemFn r b) (fun _ => false) w hw cap (tbeItems r sups)
    (Or.inl (by decide)) sched).2
  exact (tbeCollect_perm h.symm (tbeItems_keys_nodup r b sups) _).symm

/-- FBP with an erroneous tree anywhere in the stream: under every schedule the driver's run of the
    extracted pool ends with the caller released and the error set (the supports are then unspecified). -/
theorem fbp_error_schedule_independent (f : α → β) (stops : α → Bool) (w : Nat) (hw : 1 ≤ w) (cap : Nat)
    (inp : List α) (hbad : ∃ x ∈ inp, stops x = true) (sched : List (Nat × Nat)) :
    (runToEnd FBP_worker0.facts.shape f stops w cap inp sched).closed = true ∧
    (runToEnd FBP_worker0.facts.shape f stops w cap inp sched).errSet = true := by
  obtain ⟨hR, hT⟩ := runToEnd_maximal FBP_worker0.facts f stops w cap inp sched
  have h := (error_reaches_caller_anycap FBP_worker0.facts (by decide) f stops w hw cap inp _ hR hT).2 (by decide)
  exact ⟨h.1, h.2.mpr hbad⟩

/-- ★ TBE, the whole call: for every stream (erroneous trees at any position included), every worker count,
    every capacity of the edge channel and every FAMILY of schedules (one per bootstrap tree), the outer loop
    of `support.TBE` run with the pool shape extracted from the source computes exactly what the one-thread
    loop `tbeSeq` computes: the same error for the first erroneous tree, otherwise the same raw supports and
    the same `nboot`. -/
theorem tbe_schedule_independent (ref : T) (w : Nat) (hw : 1 ≤ w) (cap : Nat) (scheds : Nat → List (Nat × Nat)) :
    ∀ (items : List Item) (k : Nat) (sups : List Rat),
      tbeOuter tbePool.shape ref w cap scheds items k sups = tbeSeq ref items k sups := by
  intro items
  induction items with
  | nil => intro k sups; rfl
  | cons it rest ih =>
    intro k sups
    cases hb : it.bad ref with
    | some c => simp [tbeOuter, tbeSeq, hb]
    | none =>
      cases it with
      | err => simp [Item.bad] at hb
      | tree b =>
        have hc := (runToEnd_complete_anycap tbePool (by decide) (tbeItemFn ref b) (fun _ => false) w hw cap (tbeItems ref sups)
          (Or.inl (by decide)) (scheds k)).1
        have hp := pool_no_send_on_closed tbePool (tbeItemFn ref b) (fun _ => false) w cap (tbeItems ref sups) _
          (runToEnd_maximal tbePool (tbeItemFn ref b) (fun _ => false) w cap (tbeItems ref sups) (scheds k)).1
        have hf := tbe_fanout_schedule_independent ref b sups w hw cap (scheds k)
        simp only [tbeOuter, tbeSeq, hb, hc, hp, hf, Bool.not_true, Bool.or_self, Bool.false_eq_true, if_false]
        cases tbeCollect ref.splits.length ((tbeItems ref sups).map (tbeItemFn ref b)) with
        | none => rfl
        | some sups' => exact ih (k + 1) sups'

/-- the caller's view: the normalised supports or the error, the same for every thread count and schedule -/
theorem tbe_call_schedule_independent (ref : T) (w : Nat) (hw : 1 ≤ w) (cap : Nat) (scheds : Nat → List (Nat × Nat)) (items : List Item) :
    tbeCall tbePool.shape ref w cap scheds items = tbeCallSeq ref items := by
  unfold tbeCall tbeCallSeq
  rw [tbe_schedule_independent ref w hw cap scheds]

/-- TBE: an erroneous tree ANYWHERE in the stream makes the call fail, under every schedule: the error
    reaches the caller (the call never returns supports computed without that tree). -/
theorem tbe_error_reaches_caller (ref : T) (w : Nat) (hw : 1 ≤ w) (cap : Nat) (scheds : Nat → List (Nat × Nat))
    (items : List Item) (hbad : ∃ it ∈ items, it.isBad ref = true) :
    ∃ c, tbeCall tbePool.shape ref w cap scheds items = .error c := by
  rw [tbe_call_schedule_independent ref w hw cap scheds]
  unfold tbeCallSeq
  suffices h : ∀ (items : List Item) (k : Nat) (sups : List Rat), (∃ it ∈ items, it.isBad ref = true) →
      ∃ c, tbeSeq ref items k sups = .error c by
    obtain ⟨c, hc⟩ := h items 0 _ hbad
    exact ⟨c, by rw [hc]⟩
  intro items
  induction items with
  | nil => intro k sups h; obtain ⟨it, hm, _⟩ := h; cases hm
  | cons it rest ih =>
    intro k sups h
    cases hb : it.bad ref with
    | some c => exact ⟨c, by simp [tbeSeq, hb]⟩
    | none =>
      have hrest : ∃ it' ∈ rest, it'.isBad ref = true := by
        obtain ⟨it', hm, hbad'⟩ := h
        rcases List.mem_cons.mp hm with e | hr
        · subst e; simp [Item.isBad, hb] at hbad'
        · exact ⟨it', hr, hbad'⟩
      cases it with
      | err => simp [Item.bad] at hb
      | tree b =>
        simp only [tbeSeq, hb]
        cases tbeCollect ref.splits.length ((tbeItems ref sups).map (tbeItemFn ref b)) with
        | none => exact ⟨"lost-branch", rfl⟩
        | some sups' => exact ih (k + 1) sups' hrest

-- the hypothesis of `tbe_error_reaches_caller` is satisfiable: an item carrying an error is erroneous for every reference
example (ref : T) : ∃ it ∈ [Item.tree ref, Item.err], it.isBad ref = true := ⟨.err, by simp, rfl⟩

/-- TBE's moved-taxa tallies, one bootstrap tree: the accumulators after the fan-out — own cells of every branch
    (raw support, sumNbClosestBranches, movedperbranch row) and the tallies shared under the mutex
    (movedspeciestmp, nbranchclose, folded into movedspecies) — are the same under every schedule, worker count
    and capacity: sums of rationals over the multiset of the workers' messages.  (Over float64 the order of the
    additions under the mutex may change the last bit: class TbeMovedTaxaFloatOrder.) -/
theorem tbe_tallies_fanout_schedule_independent (r b : T) (cutoff : Rat) (acc : Gotree.C10.Acc) (w : Nat) (hw : 1 ≤ w) (cap : Nat)
    (sched : List (Nat × Nat)) :
    tallyCollect r acc (runToEnd tbePool.shape (tallyItemFn r b cutoff) (fun _ => false) w cap (tallyItems r acc) sched).out =
    tallyCollect r acc ((tallyItems r acc).map (tallyItemFn r b cutoff)) := by
  have h := (runToEnd_complete_anycap tbePool (by decide) (tallyItemFn r b cutoff) (fun _ => false) w hw cap (tallyItems r acc)
    (Or.inl (by decide)) sched).2
  exact (tallyCollect_perm r acc h.symm (tallyItems_keys_nodup r b cutoff acc)).symm

/-- … and over the whole stream of bootstrap trees, for every family of schedules -/
theorem tbe_tallies_schedule_independent (ref : T) (cutoff : Rat) (w : Nat) (hw : 1 ≤ w) (cap : Nat) (scheds : Nat → List (Nat × Nat)) :
    ∀ (boots : List T) (k : Nat) (acc : Gotree.C10.Acc),
      tallyOuter tbePool.shape ref cutoff w cap scheds boots k acc = tallySeq ref cutoff boots acc := by
  intro boots
  induction boots with
  | nil => intro k acc; rfl
  | cons b rest ih =>
    intro k acc
    simp only [tallyOuter, tallySeq, tbe_tallies_fanout_schedule_independent ref b cutoff acc w hw cap (scheds k)]
    cases tallyCollect ref acc ((tallyItems ref acc).map (tallyItemFn ref b cutoff)) with
    | none => rfl
    | some acc' => exact ih (k + 1) acc'

/-- the progress counter (one increment per tree whose iteration completes = one message of the model): on a
    stream without erroneous tree every schedule of the extracted FBP pool completes every tree exactly once -/
theorem fbp_progress_schedule_independent (ref : T) (stops : (Nat × Item) → Bool) (w : Nat) (hw : 1 ≤ w) (cap : Nat)
    (inp : List (Nat × Item)) (hno : ∀ x ∈ inp, stops x = false) (sched : List (Nat × Nat)) :
    (runToEnd FBP_worker0.facts.shape (fun x : Nat × Item => fbpFound ref x.2) stops w cap inp sched).out.length = inp.length := by
  have h := (runToEnd_complete_anycap FBP_worker0.facts (by decide) (fun x : Nat × Item => fbpFound ref x.2) stops w hw cap inp
    (Or.inr hno) sched).2
  simpa using h.length_eq

/-- TBE counts every tree of a stream it accepts: `nboot` (and the progress counter) is the number of trees -/
theorem tbe_counts_every_tree (ref : T) : ∀ (items : List Item) (k : Nat) (sups s : List Rat) (k' : Nat),
    tbeSeq ref items k sups = .ok (s, k') → k' = k + items.length := by
  intro items
  induction items with
  | nil => intro k sups s k' h; simp [tbeSeq] at h; simp [h.2]
  | cons it rest ih =>
    intro k sups s k' h
    cases hb : it.bad ref with
    | some c => simp [tbeSeq, hb] at h
    | none =>
      cases it with
      | err => simp [Item.bad] at hb
      | tree b =>
        simp only [tbeSeq, hb] at h
        cases hc : tbeCollect ref.splits.length ((tbeItems ref sups).map (tbeItemFn ref b)) with
        | none => simp [hc] at h
        | some sups' =>
          simp only [hc] at h
          have := ih (k + 1) sups' s k' h
          simp only [List.length_cons]; omega

/-- "Tree by tree": when the items carry distinct identifiers that the per-item function copies into its
    result (the tree id of `BipartitionStats`), every maximal run of a clean recording pool delivers
    exactly one result per identifier of the stream. -/
theorem pool_one_record_per_id (F : PoolFacts) (hF : F.exitsWithoutDone = [] ∧ F.unsyncSharedWrites = [] ∧ F.producerLeaks = [])
    (f : α → β) (stops : α → Bool) (w : Nat) (hw : 1 ≤ w) (cap : Nat) (inp : List α)
    (hE : F.earlyExits = [] ∨ ∀ x ∈ inp, stops x = false)
    (key : α → Nat) (keyOut : β → Nat) (hkey : ∀ x, keyOut (f x) = key x) (hn : (inp.map key).Nodup)
    (s : PState α β) (hR : Reachable F f stops (init w cap inp) s) (hT : Terminal F f stops s) :
    (s.out.map keyOut).Perm (inp.map key) ∧ (s.out.map keyOut).Nodup := by
  have hp := (pool_normal_form_complete_anycap F hF f stops w hw cap inp hE s hR hT).2
  have h1 : (s.out.map keyOut).Perm (inp.map key) := by
    have := hp.map keyOut
    simpa [List.map_map, Function.comp_def, hkey] using this
  exact ⟨h1, (h1.nodup_iff).mpr hn⟩

/-- The ORDER in which the caller receives the results of a recording pool (every shape without early
    exit, clean or not; every schedule): the input channel is a queue and each of the `w` workers holds
    at most one item, so the result of the item at position `k` of the stream is never delivered before
    `k - w + 1` others: if it is the `j`-th delivery (`s.done.reverse` is the delivery order), `k < j + w`.
    This is the schedule-DEPENDENT observation the driver compares with the order in which the real
    pools deliver their records (`orderOK`); with one worker the order is the order of the stream
    (`pool_single_worker_sequential`). -/
theorem pool_arrival_window (F : PoolFacts) (hE : F.earlyExits = []) (f : α → β) (stops : α → Bool) (w cap : Nat)
    (inp : List α) (hn : inp.Nodup) (s : PState α β) (hR : Reachable F f stops (init w cap inp) s)
    (j k : Nat) (x : α) (hj : s.done.reverse[j]? = some x) (hk : inp[k]? = some x) : k < j + w := by
  have hI := reachable_inv F f stops w cap inp s hR
  have hW := reachable_win F f stops w cap inp hn s hR
  have hd : s.dropped = [] := hI.droppedEarly (by simp [PoolFacts.shape, hE])
  have := hW.win j x k hj hk
  rw [hd] at this
  simpa using this

end Collectors

/-! ## The repaired defects, on the shapes the pinned tree had -/


theorem fbp_pinned_fails :
    ∃ (inp : List Nat) (s : PState Nat Nat), Reachable fbpPinned id (fun _ => true) (init 1 1 inp) s ∧
      Terminal fbpPinned id (fun _ => true) s ∧ s.closed = false :=
  pool_leak_deadlocks fbpPinned (by decide) id (fun _ => true) 0 rfl


/-- two workers, two trees: the record of tree 1 is computed from the edges of tree 2 -/
theorem compareWeighted_pinned_fails :
    (runToEnd compareWeightedPinned.shape id (fun _ => false) 2 1 [1, 2] [(3, 0), (0, 0), (3, 0), (1, 0), (0, 2)]).closed = true ∧
    ¬ (runToEnd compareWeightedPinned.shape id (fun _ => false) 2 1 [1, 2] [(3, 0), (0, 0), (3, 0), (1, 0), (0, 2)]).out.Perm ([1, 2].map id) := by
  have h : (runToEnd compareWeightedPinned.shape id (fun _ => false) 2 1 [1, 2] [(3, 0), (0, 0), (3, 0), (1, 0), (0, 2)]).out = [2, 2] := by decide
  refine ⟨by decide, ?_⟩
  rw [h]
  intro hp
  have := hp.mem_iff (a := 1)
  simp at this


theorem reader_leak_fails :
    ∃ (s : PState Nat Nat), Reachable readerPinned id (fun _ => false) (init 1 1 []) s ∧
      Terminal readerPinned id (fun _ => false) s ∧ s.closed = false :=
  producer_leak_deadlocks readerPinned (by decide) id (fun _ => false)

/-! ## The shared hash map (`hashmap/hashmap.go`, Model/C11HashMap.lean)

  Every exported method holds the map's lock for its whole body (`table_hashmap_all_locked`), so a
  concurrent history is an interleaving of WHOLE calls: a list of operations.  The theorems below are
  about every such list, every initial capacity (powers of two or not — the callers pass `2·#edges`),
  every load factor and every hash function. -/

/-- `NewHashMap` establishes the representation invariant (for a size of 0 too: one bucket) -/
theorem hashmap_new_wf {κ ν : Type} [DecidableEq κ] (hash : κ → Nat) (size lfNum lfDen : Nat) :
    HM.WF hash (HM.new size lfNum lfDen : HM.HMap κ ν) ∧ HM.entries (HM.new size lfNum lfDen : HM.HMap κ ν) = [] :=
  ⟨HM.new_wf hash size lfNum lfDen, HM.new_entries size lfNum lfDen⟩

/-- `Value` never indexes outside `mapArray` and answers the association-list lookup -/
theorem hashmap_value_is_lookup {κ ν : Type} [DecidableEq κ] (hash : κ → Nat) (m : HM.HMap κ ν) (hw : HM.WF hash m) (k : κ) :
    HM.value hash m k = .ok (HM.lookup (HM.entries m) k) := HM.value_eq hash m hw k

/-- `PutValue` (with its `rehash`) never panics, keeps the invariant, is the association-list update, and
    adds the key to `Keys` exactly when it was not stored -/
theorem hashmap_putValue_spec {κ ν : Type} [DecidableEq κ] (hash : κ → Nat) (m : HM.HMap κ ν) (hw : HM.WF hash m) (k : κ) (v : ν) :
    ∃ m', HM.putValue hash m k v = .ok m' ∧ HM.WF hash m' ∧
      (∀ k', HM.lookup (HM.entries m') k' = if k' = k then some v else HM.lookup (HM.entries m) k') ∧
      ((HM.entries m').map Prod.fst).Perm
        (if k ∈ (HM.entries m).map Prod.fst then (HM.entries m).map Prod.fst else k :: (HM.entries m).map Prod.fst) :=
  HM.putValue_spec hash m hw k v

/-- `rehash` alone: no panic, invariant kept for the doubled capacity, same entries -/
theorem hashmap_rehash_spec {κ ν : Type} [DecidableEq κ] (hash : κ → Nat) (m : HM.HMap κ ν) (hw : HM.WF hash m) :
    ∃ m', HM.rehash hash m = .ok m' ∧ HM.WF hash m' ∧ (HM.entries m').Perm (HM.entries m) := HM.rehash_spec hash m hw

/-- `Keys` / `KeyValues`: no index error, no nil cell, every entry once -/
theorem hashmap_keys_complete {κ ν : Type} [DecidableEq κ] (hash : κ → Nat) (m : HM.HMap κ ν) (hw : HM.WF hash m) :
    HM.keys m = .ok ((HM.entries m).map (fun kv => some kv.1)) ∧ HM.keyValues m = .ok ((HM.entries m).map some) :=
  ⟨HM.keys_eq hash m hw, HM.cells_eq hash m hw⟩

/-- ★ the model of the hash map meets the Spec of a history (`HM.historyOK`, the oracle of `C11.hmseq`):
    for every list of calls on a new map -/
theorem hashmap_history_meets_spec (hash : Nat → Nat) (size lfNum lfDen : Nat) (ops : List (HM.Op Nat Int)) :
    HM.historyOK [] ops (HM.runOps hash (HM.new size lfNum lfDen) ops) = true :=
  HM.runOps_meets_spec hash ops _ [] (HM.new_wf hash size lfNum lfDen) (by rw [HM.new_entries])

/-- ★ schedule-independence of the filling of a shared map: two interleavings of `PutValue` calls that agree
    key by key (goroutines owning disjoint keys, each in its own order) never panic and leave maps that
    answer every `Value` alike -/
theorem hashmap_interleaving_independent {κ ν : Type} [DecidableEq κ] (hash : κ → Nat) (size lfNum lfDen : Nat)
    (ops1 ops2 : List (κ × ν))
    (h : ∀ k, ops1.filter (fun o => decide (o.1 = k)) = ops2.filter (fun o => decide (o.1 = k))) :
    ∃ m1 m2, HM.putAll hash (HM.new size lfNum lfDen) ops1 = some m1 ∧ HM.putAll hash (HM.new size lfNum lfDen) ops2 = some m2 ∧
      ∀ k, HM.value hash m1 k = HM.value hash m2 k :=
  HM.putAll_interleaving hash _ (HM.new_wf hash size lfNum lfDen) ops1 ops2 h

/-- after any list of `PutValue` calls a `Value` answers the LAST value put for its key -/
theorem hashmap_value_after_puts {κ ν : Type} [DecidableEq κ] (hash : κ → Nat) (size lfNum lfDen : Nat) (ops : List (κ × ν)) :
    ∃ m', HM.putAll hash (HM.new size lfNum lfDen) ops = some m' ∧ ∀ k, HM.value hash m' k = .ok (HM.lastPut ops k) := by
  obtain ⟨m', h1, hw, hl⟩ := HM.putAll_spec hash ops (HM.new size lfNum lfDen : HM.HMap κ ν) (HM.new_wf hash size lfNum lfDen)
  refine ⟨m', h1, fun k => ?_⟩
  rw [HM.value_eq hash m' hw, hl k, HM.new_entries]
  cases HM.lastPut ops k <;> simp [HM.lookup]

/-- the repaired defect F36 (b2a7fc8) on the pinned shape: without the `size == 0 → 1` guard of `NewHashMap`
    the first `PutValue` on a map created with size 0 indexes an empty bucket array -/
theorem hashmap_new_pinned_fails :
    HM.putValue (fun k : Nat => k) ({ arr := [], capacity := 0, lfNum := 3, lfDen := 4, total := 0 } : HM.HMap Nat Int) 5 1 = .panic := by
  decide

-- the hypotheses are satisfiable on a map that has collided, rehashed and overwritten
example : HM.runOps (HM.intKeyHash 3) (HM.new 3 3 4) [.put 1 10, .put 4 40, .put 2 20, .put 1 11, .get 1, .get 4, .get 9, .keys] =
    [.unit, .unit, .unit, .unit, .val (some 11), .val (some 40), .val none, .keys [some 2, some 1, some 4]] := by decide

/-! ## The hypotheses are satisfiable -/

example : shapeRecord.clean := by simp [Shape.clean, shapeRecord]
example : shapeStop.clean := by simp [Shape.clean, shapeStop]
example : (runToEnd shapeRecord (fun n : Nat => n * 10) (fun _ => false) 2 1 [1, 2, 3] [(3, 0), (1, 0), (3, 0), (0, 0), (1, 0), (2, 0)]).closed = true := by decide
example : (runToEnd shapeStop (fun n : Nat => n) (fun n => n == 2) 2 2 [1, 2, 3] [(3, 0), (3, 0), (1, 0), (0, 0), (1, 0), (0, 0)]).errSet = true := by decide

-- a rendezvous run (capacity 0): two workers, three items, every send is a hand-over to a waiting worker
example : (runToEnd shapeRecord (fun n : Nat => n * 10) (fun _ => false) 2 0 [1, 2, 3] [(1, 0), (0, 0), (1, 0), (0, 0)]).closed = true ∧
    (runToEnd shapeRecord (fun n : Nat => n * 10) (fun _ => false) 2 0 [1, 2, 3] [(1, 0), (0, 0), (1, 0), (0, 0)]).out.length = 3 := by decide

end Gotree.C11
