/-
  C10 — lemmas about the Supporter model (Model/C10Cancel.lean): a call cancelled once `k` trees
  are finished is the call on the first `k` trees; the counter advances by the number of trees
  that were finished.
-/
import Gotree.Model.C10Cancel

namespace Gotree.C10
open Gotree

theorem fbpLoopS_take (r : T) : ∀ (bs : List T) (k p0 : Nat) (c : List Nat) (n : Nat),
    (fbpLoopS r (p0 + k) bs c n p0).1 = fbpLoop r (bs.take k) c n
  | [], k, p0, c, n => by simp [fbpLoopS, fbpLoop]
  | b :: bs, 0, p0, c, n => by simp [fbpLoopS, fbpLoop]
  | b :: bs, k + 1, p0, c, n => by
    have ih := fbpLoopS_take r bs k (p0 + 1) (fbpCount r.tipNames (fbpIndex b) r.splits c) (n + 1)
    have hk : ¬ (p0 + (k + 1) ≤ p0) := by omega
    have he : p0 + (k + 1) = p0 + 1 + k := by omega
    simp only [fbpLoopS, List.take_succ_cons, fbpLoop, if_neg hk]
    by_cases h1 : reinitOk b = true
    · by_cases h2 : compareTips r b = true
      · simp only [h1, h2, Bool.not_true, Bool.false_eq_true, if_false]
        rw [he]; exact ih
      · simp [h1, h2]
    · simp [h1]

theorem fbpLoopS_progress (r : T) : ∀ (bs : List T) (k p0 : Nat) (c : List Nat) (n : Nat),
    (fbpLoopS r (p0 + k) bs c n p0).2 = p0 + min k (goodPrefix r bs)
  | [], k, p0, c, n => by simp [fbpLoopS, goodPrefix]
  | b :: bs, 0, p0, c, n => by simp [fbpLoopS]
  | b :: bs, k + 1, p0, c, n => by
    have ih := fbpLoopS_progress r bs k (p0 + 1) (fbpCount r.tipNames (fbpIndex b) r.splits c) (n + 1)
    have hk : ¬ (p0 + (k + 1) ≤ p0) := by omega
    have he : p0 + (k + 1) = p0 + 1 + k := by omega
    simp only [fbpLoopS, goodPrefix, if_neg hk]
    by_cases h1 : reinitOk b = true
    · by_cases h2 : compareTips r b = true
      · simp only [h1, h2, Bool.not_true, Bool.false_eq_true, if_false, Bool.and_self, if_true]
        rw [he, ih]; omega
      · simp [h1, h2]
    · simp [h1]

theorem tbeLoopS_take (r : T) : ∀ (bs : List T) (k p0 : Nat) (sups : List Rat) (nboot : Nat),
    (tbeLoopS r (p0 + k) bs sups nboot p0).1 = tbeLoop r (bs.take k) sups nboot
  | [], k, p0, sups, nboot => by simp [tbeLoopS, tbeLoop]
  | b :: bs, 0, p0, sups, nboot => by simp [tbeLoopS, tbeLoop]
  | b :: bs, k + 1, p0, sups, nboot => by
    have ih := tbeLoopS_take r bs k (p0 + 1) (List.zipWith (tbeEdge r b) r.splits sups) (nboot + 1)
    have hk : ¬ (p0 + (k + 1) ≤ p0) := by omega
    have he : p0 + (k + 1) = p0 + 1 + k := by omega
    simp only [tbeLoopS, List.take_succ_cons, tbeLoop, if_neg hk]
    by_cases h1 : reinitOk b = true
    · by_cases h2 : compareTips r b = true
      · by_cases h3 : idPanic r b = true
        · simp [h1, h2, h3]
        · simp only [h1, h2, h3, Bool.not_true, Bool.false_eq_true, if_false]
          rw [he]; exact ih
      · simp [h1, h2]
    · simp [h1]

theorem tbeLoopS_progress (r : T) (hp : ∀ b, idPanic r b = false) :
    ∀ (bs : List T) (k p0 : Nat) (sups : List Rat) (nboot : Nat),
    (tbeLoopS r (p0 + k) bs sups nboot p0).2 = p0 + min k (goodPrefix r bs)
  | [], k, p0, sups, nboot => by simp [tbeLoopS, goodPrefix]
  | b :: bs, 0, p0, sups, nboot => by simp [tbeLoopS]
  | b :: bs, k + 1, p0, sups, nboot => by
    have ih := tbeLoopS_progress r hp bs k (p0 + 1) (List.zipWith (tbeEdge r b) r.splits sups) (nboot + 1)
    have hk : ¬ (p0 + (k + 1) ≤ p0) := by omega
    have he : p0 + (k + 1) = p0 + 1 + k := by omega
    simp only [tbeLoopS, goodPrefix, if_neg hk]
    by_cases h1 : reinitOk b = true
    · by_cases h2 : compareTips r b = true
      · simp only [h1, h2, hp b, Bool.not_true, Bool.false_eq_true, if_false, Bool.and_self, if_true]
        rw [he, ih]; omega
      · simp [h1, h2]
    · simp [h1]

theorem fbpS_fst (r : T) (bs : List T) (p0 k : Nat) : (fbpS r bs p0 (p0 + k)).1 = fbp r (bs.take k) := by
  unfold fbpS fbp
  by_cases hr : reinitOk r = true
  · simp only [hr, Bool.not_true, Bool.false_eq_true, if_false]
    rw [← fbpLoopS_take r bs k p0]
    generalize fbpLoopS r (p0 + k) bs (r.splits.map fun _ => 0) 0 p0 = res
    obtain ⟨⟨c, n, e⟩, pr⟩ := res
    cases e
    · simp only []
      split <;> rfl
    · rfl
  · simp [hr]

theorem tbeS_fst (r : T) (bs : List T) (p0 k : Nat) : (tbeS r bs p0 (p0 + k)).1 = tbe r (bs.take k) := by
  unfold tbeS tbe
  by_cases hr : reinitOk r = true
  · simp only [hr, Bool.not_true, Bool.false_eq_true, if_false]
    rw [← tbeLoopS_take r bs k p0]
    generalize tbeLoopS r (p0 + k) bs (r.splits.map fun _ => NIL) 0 p0 = res
    obtain ⟨o, pr⟩ := res
    cases o <;> rfl
  · simp [hr]

theorem fbpS_snd (r : T) (bs : List T) (p0 k : Nat) (hr : reinitOk r = true) :
    (fbpS r bs p0 (p0 + k)).2 = p0 + min k (goodPrefix r bs) := by
  unfold fbpS
  simp only [hr, Bool.not_true, Bool.false_eq_true, if_false]
  rw [← fbpLoopS_progress r bs k p0 (r.splits.map fun _ => 0) 0]
  generalize fbpLoopS r (p0 + k) bs (r.splits.map fun _ => 0) 0 p0 = res
  obtain ⟨⟨c, n, e⟩, pr⟩ := res
  cases e
  · simp only []
    split <;> rfl
  · rfl

theorem tbeS_snd (r : T) (bs : List T) (p0 k : Nat) (hr : reinitOk r = true) (hp : ∀ b, idPanic r b = false) :
    (tbeS r bs p0 (p0 + k)).2 = p0 + min k (goodPrefix r bs) := by
  unfold tbeS
  simp only [hr, Bool.not_true, Bool.false_eq_true, if_false]
  rw [← tbeLoopS_progress r hp bs k p0 (r.splits.map fun _ => NIL) 0]
  generalize tbeLoopS r (p0 + k) bs (r.splits.map fun _ => NIL) 0 p0 = res
  obtain ⟨o, pr⟩ := res
  cases o <;> rfl

end Gotree.C10
