/-
  C09 — what the property means, from the unrooted split maps of the input
  trees only (`T.usplitsAll`, Spec/Splits.lean).  Nothing here looks at the model.

  A split is identified by its canonical side (the sorted side that does not
  contain the least taxon), so frequency, support and mean length do not depend
  on the order of the trees, on their rooting or on their child order by
  construction.
-/
import Gotree.Spec.Splits

namespace Gotree.C09S
open Gotree

/-- `a` is `b` correctly rounded, or closer (one float64 division of exact operands). -/
def approx (a b : Rat) : Bool :=
  (if a ≥ b then a - b else b - a) * (4503599627370496 : Rat) ≤ (if b ≥ 0 then b else -b)

/-- All trees have the same tip names as the first one. -/
def sameTaxa : List T → Bool
  | [] => true
  | t :: r => r.all fun u => sortS u.tipNames == sortS t.tipNames

/-- The trees of the property's domain: unique tips, no single-child inner node,
    a root with at least two neighbours, at least `k` taxa. -/
def domainTree (t : T) : Bool := t.uniqueTips && t.noSingle && decide (2 ≤ t.kids.length)

/-- … the same with single-child inner nodes allowed (the Spec fuses the two
    branches around such a node, as it fuses the two root branches of a rooted
    tree; the code removes such nodes since fix 5dad91e).  The oracle applies to
    these trees too; the theorems are about `domainTree`. -/
def domainTreeWide (t : T) : Bool := t.uniqueTips && decide (2 ≤ t.kids.length)

/-- … and, since the code re-roots them (5a3a76a), the trees rooted at a tip whose neighbour is
    not a tip: the root is a taxon like the others (`T.tipNames` lists it). -/
def domainTreeTip (t : T) : Bool :=
  t.uniqueTips && (decide (2 ≤ t.kids.length) ||
    (match t.kids with | [(_, v)] => !v.kids.isEmpty | _ => false))

def allLens (ts : List T) : Bool := ts.all fun t => t.edges.all fun e => e.len != NIL

/-- number of trees containing the split -/
def count (ts : List T) (s : List String) : Nat :=
  (ts.filter fun t => t.usplitsAll.any (·.side == s)).length

/-- sum of the lengths of the split's branch over the trees containing it -/
def lenSum (ts : List T) (s : List String) : Rat :=
  (ts.map fun t => ((t.usplitsAll.filter (·.side == s)).map (·.len)).sum).sum

def freq (ts : List T) (s : List String) : Rat := (count ts s : Rat) / (ts.length : Rat)

def meanLen (ts : List T) (s : List String) : Rat := lenSum ts s / (count ts s : Rat)

/-- every split occurring in some tree -/
def allSides (ts : List T) : List (List String) :=
  (ts.flatMap fun t => t.usplitsAll.map (·.side)).eraseDups

/-- the property's selection rule -/
def isSelected (ts : List T) (c : Rat) (s : List String) : Bool :=
  decide (c < freq ts s) || count ts s == ts.length

def taxa (ts : List T) : List String := match ts with | [] => [] | t :: _ => t.tipNames

/-- the non-trivial splits the consensus must contain, canonical and sorted -/
def expectedSplits (ts : List T) (c : Rat) : List (List String) :=
  canonSet ((allSides ts).filter fun s => isSelected ts c s && decide (2 ≤ lightSize (taxa ts) s))

/-- Spec of a successful consensus `r` (checked on the implementation's output). -/
def splitsOK (ts : List T) (c : Rat) (r : T) : Bool :=
  sortS r.tipNames == sortS (taxa ts) && canonSet r.usplitSet == expectedSplits ts c

def supportsOK (ts : List T) (r : T) : Bool :=
  r.usplits.all fun u => approx u.sup (freq ts u.side)

def lengthsOK (ts : List T) (r : T) : Bool :=
  r.usplitsAll.all fun u => approx u.len (meanLen ts u.side)

/-- the split has a length in every tree that contains it -/
def lenDefined (ts : List T) (s : List String) : Bool :=
  ts.all fun t => (t.usplitsAll.filter (·.side == s)).all (·.len != NIL)

/-- the length clause split by split: every branch of the consensus whose split has a length in
    every tree containing it carries the mean (`lengthsOK` demands it of every branch; the two
    coincide when no input length is absent) -/
def lengthsOKWhereDefined (ts : List T) (r : T) : Bool :=
  r.usplitsAll.all fun u => !(lenDefined ts u.side) || approx u.len (meanLen ts u.side)

/-- the selection with an explicit count cut `m` instead of the threshold: count > m or in every
    tree (used to describe the float64-product defect: `m = int(c*float64(n))`) -/
def expectedSplitsCut (ts : List T) (m : Nat) : List (List String) :=
  canonSet ((allSides ts).filter fun s =>
    (decide (m < count ts s) || count ts s == ts.length) && decide (2 ≤ lightSize (taxa ts) s))

def inRange (c : Rat) : Bool := decide (1/2 ≤ c) && decide (c ≤ 1)

/-- outcome the property demands: `some true` = must succeed, `some false` = must
    be rejected, `none` = outside the property's domain -/
def demanded (ts : List T) (c : Rat) : Option Bool :=
  if !inRange c then some false
  else if ts.isEmpty then none
  else if !(ts.all domainTreeTip) then none
  else if !sameTaxa ts then some false
  else some true

/-- … for any float64 threshold: `none` = NaN or ±Inf, which is not in [1/2, 1]: the call must be rejected -/
def demandedThr (ts : List T) (c : Option Rat) : Option Bool :=
  match c with
  | none => some false
  | some c => demanded ts c

/-- … for a collection delivered with an error record among its items (a tree that could not be
    read, `Trees.Err`): the call must be rejected whatever the rest — the consensus of the readable
    part is not the consensus of the collection -/
def demandedItems (ts : List T) (hasBad : Bool) (c : Rat) : Option Bool :=
  if hasBad then some false else demanded ts c

/-- the printing by which `canonSet` sorts distinguishes the sides that occur (hypothesis of
    the literal equality `splitsOK`; it can only fail for names that contain ", ") -/
def keysOK (ts : List T) : Bool := decide (((allSides ts).map fun s => toString s).Nodup)

/-- the observation `obs_C09` of a consensus tree -/
def obs (r : T) : List String × List USplit × List (List String × Rat) :=
  (sortS r.tipNames, r.usplits, r.tipLens)

/-- same multiset of unrooted split maps (what "the same collection up to order,
    rooting and child order" means) -/
def sameCollection (a b : List T) : Bool :=
  let key (t : T) : String := toString (repr (sortS t.tipNames, t.usplitsAll.map fun u => (u.side, u.len)))
  (a.map key).mergeSort (fun x y => decide (x ≤ y)) == (b.map key).mergeSort (fun x y => decide (x ≤ y))

end Gotree.C09S
