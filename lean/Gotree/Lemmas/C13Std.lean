/-
  C13 — gotree's Nexus reader on the standard-form documents of `Model/C13Std.lean`.
-/
import Gotree.Model.C13Std
import Gotree.Lemmas.C13NexTr2

namespace Gotree.C13
open Gotree
open Nex

theorem stdMap_eq (k : Nat) (ls : List String) : stdMap k ls = mapFrom k ls := by
  induction ls generalizing k with
  | nil => rfl
  | cons l r ih => simp [stdMap, mapFrom, ih]

/- ## scanning -/

/-- the label list, one label per line, up to the line end before the ';' -/
theorem scan_stdLabels (ls : List String) (h : ∀ l ∈ ls, tokLabel l) (rest : Txt) :
    scanGo (stdLabels ls ++ '\n' :: rest) none = ls.flatMap (fun l => [.eol, classify l]) ++ .eol :: scanGo rest none := by
  induction ls with
  | nil => simp only [stdLabels, List.nil_append, List.flatMap_nil]; rw [scanGo_sep '\n' (by decide)]; simp [flush, sepToks, isWs]
  | cons l r ih =>
    have hl := (h l (by simp)).1
    have ih' := ih (fun x hx => h x (by simp [hx]))
    simp only [stdLabels, List.cons_append, List.append_assoc, List.flatMap_cons]
    rw [scanGo_sep '\n' (by decide), scanGo_lit stdSep _ (by decide)]
    have k : scanGo stdSep none = [] := by decide
    -- the label is followed by '\n' (the next label's line, or the closing line)
    have hnext : ∃ X, stdLabels r ++ '\n' :: rest = '\n' :: X := by
      cases r with
      | nil => exact ⟨rest, rfl⟩
      | cons a b => exact ⟨_, rfl⟩
    obtain ⟨X, hX⟩ := hnext
    rw [hX, scanGo_word' _ hl '\n' (by decide), ← hX, ih', k]
    simp [flush, sepToks, isWs]

def stdTrToks (m : List (String × String)) : List String → List Tok
  | [] => []
  | [l] => [.eol, classify (idxOf m l), classify l]
  | l :: r => .eol :: classify (idxOf m l) :: classify l :: .comma :: stdTrToks m r

theorem stdTrLines_eq (m : List (String × String)) (l : String) (r : List String) :
    stdTrLines m (l :: r) = '\n' :: (stdSep ++ ((idxOf m l).toList ++ ' ' :: (l.toList ++
      (match r with | [] => [] | _ :: _ => ',' :: stdTrLines m r)))) := by
  cases r with
  | nil =>
    simp only [stdTrLines, idxOf, List.append_nil]
    cases lookup m l <;> rfl
  | cons a b =>
    simp only [stdTrLines, idxOf]
    cases lookup m l <;> rfl

theorem scan_stdTrLines (m : List (String × String)) (ls : List String)
    (h : ∀ l ∈ ls, tokLabel l ∧ tokLabel (idxOf m l)) (rest : Txt) :
    scanGo (stdTrLines m ls ++ '\n' :: rest) none = stdTrToks m ls ++ .eol :: scanGo rest none := by
  induction ls with
  | nil => simp only [stdTrLines, stdTrToks, List.nil_append]; rw [scanGo_sep '\n' (by decide)]; simp [flush, sepToks, isWs]
  | cons l r ih =>
    obtain ⟨h1, h2⟩ := h l (by simp)
    have ih' := ih (fun x hx => h x (by simp [hx]))
    have k : scanGo stdSep none = [] := by decide
    rw [stdTrLines_eq]
    simp only [List.cons_append, List.append_assoc]
    rw [scanGo_sep '\n' (by decide), scanGo_lit stdSep _ (by decide), scanGo_word _ h2.1 ' ' (by decide)]
    cases r with
    | nil =>
      simp only [List.nil_append, stdTrToks]
      rw [scanGo_word' _ h1.1 '\n' (by decide), scanGo_sep '\n' (by decide), k]
      simp [flush, sepToks, isWs]
    | cons a b =>
      simp only [List.cons_append, stdTrToks]
      rw [scanGo_word _ h1.1 ',' (by decide), ih', k]
      simp [flush, sepToks, isWs, stdTrToks]

end Gotree.C13
