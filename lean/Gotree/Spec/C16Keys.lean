/-
  C16 — a numeric canonical form of a labelled topology (Spec vocabulary, core Lean only).

  Every tip gets the position of its name in a fixed reference list `all` (the names the
  enumeration was asked for); a leaf set becomes the number whose binary digits are its members
  (`maskOf`), a tree the number whose binary digits are the masks of the leaf sets below its
  branches (`topoKeyN`).  Unrooted: a leaf set and its complement are the same split, the side
  avoiding `all[0]` is taken (`canonMask`).  Two trees get the same key exactly when they are the
  same topology (`famEq` / `USame`; theorems `topoKeyN_rooted_iff`, `topoKeyN_unrooted_iff`).
-/
import Gotree.Spec.C16

namespace Gotree.C16
open Gotree

/-- the number whose binary digits at the positions of `l` are 1 -/
def bitsOf (l : List Nat) : Nat := l.foldr (fun i acc => acc ||| 2 ^ i) 0

/-- a leaf set as a number over the reference list -/
def maskOf (all S : List String) : Nat := bitsOf (S.map fun x => all.idxOf x)

/-- all the tips -/
def fullMask (all : List String) : Nat := 2 ^ all.length - 1

/-- the side of the split that does not hold the first reference tip -/
def canonMask (all : List String) (m : Nat) : Nat := if m.testBit 0 then fullMask all ^^^ m else m

/-- numeric canonical form of the topology of `t` (rooted: its clades; unrooted: its splits) -/
def topoKeyN (all : List String) (rooted : Bool) (t : T) : Nat :=
  bitsOf ((belowFam t).map fun S => if rooted then maskOf all S else canonMask all (maskOf all S))

def adjDistinctN : List Nat → Bool
  | a :: b :: r => a != b && adjDistinctN (b :: r)
  | _ => true

/-- pairwise distinct numbers (sort, then compare neighbours) -/
def distinctNat (l : List Nat) : Bool := adjDistinctN (l.mergeSort (fun a b => decide (a ≤ b)))

/-- the enumeration claims with the numeric canonical form -/
def topoOKN (n : Nat) (rooted : Bool) (ts : List T) (names : List String := []) : Bool :=
  ts.length == topoCount n rooted && ts.all (fun t => topoTreeOK n rooted t names) &&
  distinctNat (ts.map (topoKeyN (topoNames names n) rooted))

end Gotree.C16
