/-
  C08 — what `Compare` does on ANY pair of indexable trees on the same taxa (rooted trees,
  single-child nodes, a tip at the root included): the record in closed form over the branch
  lists, and its consequences for rooted trees.  Core Lean only.
-/
import Gotree.Lemmas.C08Bits

namespace Gotree.C08
open Gotree List

/-- the canonical sides of all the branches of a tree (with repetitions: the two root branches of
    a rooted tree, the two branches around a single-child node) -/
def allKeys (t : T) : List (List String) := t.splits.map fun s => canonSide t.tipNames s.below

/-- a branch of `c` is "found": tip branches are taken for found, the others are looked up -/
def foundIn (r c : T) (e : SplitE) : Bool := e.tip || (allKeys r).contains (canonSide c.tipNames e.below)

theorem okE_eq_foundIn (r c : T) (e : SplitE) :
    Canon.okE (Canon.buildIndex r.tipNames r.splits) c.tipNames e = foundIn r c e := by
  unfold Canon.okE foundIn
  cases ht : e.tip with
  | true => simp
  | false =>
    simp only [Bool.not_false, if_true, Bool.false_or]
    rw [Bool.eq_iff_iff, Canon.value_buildIndex_isSome, contains_iff_mem]
    rfl

/-- `Compare` without the shortcut, any two indexable trees on the same taxa, no hypothesis on
    the shape: `Tree1 = total - common`, `Tree2 = total2 - common`, where the totals count the
    branches (not the splits) and `common` the counted branches of the compared tree that are
    found; identical iff every counted branch is found and the totals agree. -/
theorem compare_any' (r c : T) (tips : Bool) (hr : reinitOk r = true) (hc : reinitOk c = true)
    (hT : sameTaxa r c = true) :
    compare r c tips false =
      .ok ⟨(r.splits.countP (counted tips) : Int) - (c.splits.countP fun e => foundIn r c e && counted tips e : Nat),
           (c.splits.countP fun e => foundIn r c e && counted tips e : Nat),
           (c.splits.countP (counted tips) : Int) - (c.splits.countP fun e => foundIn r c e && counted tips e : Nat),
           c.splits.all (foundIn r c) && c.splits.countP (counted tips) == r.splits.countP (counted tips)⟩ := by
  have hr1 : r.uniqueTips = true := by unfold reinitOk at hr; simp at hr; exact hr.1
  have hc1 : c.uniqueTips = true := by unfold reinitOk at hc; simp at hc; exact hc.1
  have hne : r.tipNames ≠ [] := by unfold reinitOk at hr; simp at hr; exact hr.2
  have hperm := Canon.perm_of_sameTaxa r c hT (Canon.nodup_of_uniqueTips r hr1) (Canon.nodup_of_uniqueTips c hc1)
  have h3 := Canon.compareTipIndexes_of_perm hperm hne
  rw [compare_eq]
  unfold Canon.compare
  simp only [hr, hc, h3, Bool.not_true, Bool.false_eq_true, if_false, Canon.cmpLoop_noSC, Nat.zero_add, Bool.true_and]
  have hf : (Canon.okE (Canon.buildIndex r.tipNames r.splits) c.tipNames) = foundIn r c := by
    funext e; exact okE_eq_foundIn r c e
  rw [hf]

/-- every branch of a tree is found in the tree itself -/
theorem foundIn_self (t : T) (e : SplitE) (he : e ∈ t.splits) : foundIn t t e = true := by
  unfold foundIn allKeys
  simp only [Bool.or_eq_true, contains_iff_mem, mem_map]
  exact Or.inr ⟨e, he, rfl⟩

/-- a tree compared with itself is reported identical whatever its shape (rooted or not,
    single-child nodes, a tip at the root): `(0, number of counted branches, 0, true)` -/
theorem compare_self' (t : T) (tips : Bool) (ht : reinitOk t = true) :
    compare t t tips false = .ok ⟨0, (t.splits.countP (counted tips) : Nat), 0, true⟩ := by
  have hT : sameTaxa t t = true := Canon.sameTaxa_of_perm t t (Perm.refl _)
  rw [compare_any' t t tips ht ht hT]
  have h1 : (t.splits.countP fun e => foundIn t t e && counted tips e) = t.splits.countP (counted tips) := by
    apply countP_congr
    intro e he
    rw [foundIn_self t e he]; simp
  have h2 : t.splits.all (foundIn t t) = true := all_eq_true.mpr (foundIn_self t)
  rw [h1, h2]
  simp

/-- the two root branches of a rooted tree define the same split, hence the same index key: the
    second `PutEdgeValue` overwrites the first, while both branches are counted in the totals -/
theorem root_branches_same_key (d : NodeD) (p : Nat) (e1 e2 : EdgeD) (t1 t2 : T)
    (hn : (T.node d p [(e1, t1), (e2, t2)]).tipNames.Nodup) :
    let t := T.node d p [(e1, t1), (e2, t2)]
    canonSide t.tipNames t1.leaves = canonSide t.tipNames t2.leaves ∧
    eqOrCompl (key t.tipNames ⟨t1.leaves, e1, t1.isLeaf⟩) (key t.tipNames ⟨t2.leaves, e2, t2.isLeaf⟩) = true := by
  intro t
  have hall : t.tipNames = t1.leaves ++ t2.leaves := by
    simp [t, T.tipNames, leavesL]
  have hn' : (t1.leaves ++ t2.leaves).Nodup := by rw [← hall]; exact hn
  obtain ⟨n1, n2, hd⟩ := nodup_append.mp hn'
  have h1 : canonSide t.tipNames t1.leaves = canonSide t.tipNames t2.leaves := by
    rw [canonSide_eq_iff _ _ _ hn n1 n2]
    right
    intro x hx
    rw [hall, mem_append] at hx
    constructor
    · intro h1 h2; exact hd x h1 x h2 rfl
    · intro h2; rcases hx with hx | hx
      · exact hx
      · exact absurd hx h2
  refine ⟨h1, ?_⟩
  rw [eqOrCompl_key t.tipNames t.tipNames ⟨t1.leaves, e1, t1.isLeaf⟩ ⟨t2.leaves, e2, t2.isLeaf⟩ (Perm.refl _) hn n1 n2]
  simp only [beq_iff_eq]
  exact h1

/-- the row `compare edges` prints for a branch of the reference: terminal, topological depth,
    and "found" = the split is a split of the compared tree (tip branches included) -/
theorem edgeRow_spec' (r c : T) (hT : sameTaxa r c = true) (hr : unrootedOK r = true) (hc : unrootedOK c = true)
    (s : SplitE) (hs : s ∈ r.splits) :
    edgeRow r c s = (s.tip, lightSize r.tipNames (canonSide r.tipNames s.below),
                     (S true c).contains (canonSide r.tipNames s.below)) := by
  have hgr := Canon.good_of_unrootedOK r hr
  have hgc := Canon.good_of_unrootedOK c hc
  obtain ⟨hr1, _, _, _, _⟩ := Canon.good_parts hgr
  obtain ⟨hc1, _, _, _, _⟩ := Canon.good_parts hgc
  have hnr := Canon.nodup_of_uniqueTips r hr1
  have hnc := Canon.nodup_of_uniqueTips c hc1
  have hp := Canon.perm_of_sameTaxa r c hT hnr hnc
  have hsub : s.below <+ r.tipNames := by
    have h1 : s.below <+ leavesL r.kids := Canon.splitsL_sub r.kids s hs
    have h2 : leavesL r.kids <+ r.tipNames := by unfold T.tipNames; exact sublist_append_right _ _
    exact h1.trans h2
  unfold edgeRow
  rw [Canon.lightSize_canonSide _ _ hnr hsub]
  congr 2
  rw [Bool.eq_iff_iff, contains_iff_mem, Canon.mem_S_iff c true hgc, any_eq_true]
  have hf : c.splits.filter (counted true) = c.splits := filter_eq_self.mpr (fun a _ => Canon.counted_true a)
  rw [hf]
  constructor
  · rintro ⟨e2, he2, h⟩
    rw [eqOrCompl_key _ _ s e2 hp hnr (below_nodup r hnr s hs) (below_nodup c hnc e2 he2), beq_iff_eq] at h
    exact mem_map.mpr ⟨e2, he2, h.symm⟩
  · intro h
    obtain ⟨e2, he2, hk⟩ := mem_map.mp h
    refine ⟨e2, he2, ?_⟩
    rw [eqOrCompl_key _ _ s e2 hp hnr (below_nodup r hnr s hs) (below_nodup c hnc e2 he2), beq_iff_eq]
    exact hk.symm

end Gotree.C08
