/-
  C17 — helper lemmas: the local (six-node) computations by cases on the slots, and the
  lifting of a local fact to every rearrangement of the enumeration.
-/
import Gotree.Model.C17

namespace Gotree.C17
open Gotree

theorem rot1_eq (i : Nat) (h : i < 3) : rot1 i = (i + 1) % 3 := by
  have : i = 0 ∨ i = 1 ∨ i = 2 := by omega
  rcases this with rfl | rfl | rfl <;> rfl

theorem rot2_eq (i : Nat) (h : i < 3) : rot2 i = (i + 2) % 3 := by
  have : i = 0 ∨ i = 1 ∨ i = 2 := by omega
  rcases this with rfl | rfl | rfl <;> rfl

/-- the subtree at a child-index path -/
def subAt : List Nat → T → Option T
  | [], t => some t
  | i :: p, .node _ _ k =>
    match k[i]? with
    | none => none
    | some (_, c) => subAt p c

/-- the hypotheses under which `Rearrange` creates an NNI at the node `node d1 p1 k1`
    (reached by `path`) for its child number `j` -/
structure Site (path : List Nat) (isRoot : Bool) (p1 : Nat) (k1 : Kids) (j : Nat)
    (e : EdgeD) (d2 : NodeD) (p2 : Nat) (u v : EdgeD × T) : Prop where
  root : isRoot = path.isEmpty
  deg : if isRoot then k1.length = 3 else (k1.length = 2 ∧ p1 ≤ 2)
  kid : k1[j]? = some (e, T.node d2 p2 [u, v])
  pp2 : p2 ≤ 2

/-- Lifting: a fact `P S r` that holds at every site holds for every rearrangement of the
    enumeration, `S` being the subtree at `r.path`. -/
theorem enumL_generic (P : T → NNI → Prop)
    (hP : ∀ path isRoot d1 p1 k1 j e d2 p2 u v cross, Site path isRoot p1 k1 j e d2 p2 u v →
      P (.node d1 p1 k1) (newNNI path isRoot p1 j p2 cross))
    (d : NodeD) (p : Nat) (k : Kids) (isRoot : Bool) (pre : List Nat) (hroot : isRoot = pre.isEmpty)
    (hpp : isRoot = false → p ≤ k.length) (par3 : Bool)
    (hpar3 : par3 = (if isRoot then k.length == 3 else k.length == 2)) :
    ∀ (rest done : Kids), k = done ++ rest → pposOKL rest = true →
      (∀ et ∈ rest, ∀ pre', pre' ≠ [] → pposOKBelow et.2 = true → ∀ r ∈ enumT false pre' et.2,
          ∃ q S, r.path = pre' ++ q ∧ subAt q et.2 = some S ∧ P S r) →
      ∀ r ∈ enumL isRoot pre p par3 done.length rest,
        ∃ q S, r.path = pre ++ q ∧ subAt q (.node d p k) = some S ∧ P S r := by
  intro rest
  induction rest with
  | nil => intro done _ _ _ r hr; simp [enumL] at hr
  | cons ec rest ih =>
    obtain ⟨e, c⟩ := ec
    intro done hk hpos IH r hr
    have hkj : k[done.length]? = some (e, c) := by simp [hk]
    simp only [pposOKL, Bool.and_eq_true] at hpos
    rw [enumL] at hr
    simp only [List.mem_append] at hr
    rcases hr with (hr | hr) | hr
    · -- the branch to `c` itself
      split at hr
      · rename_i hcond
        simp only [Bool.and_eq_true] at hcond
        obtain ⟨hpar, hc2⟩ := hcond
        rw [hpar3] at hpar
        obtain ⟨d2, p2, k2⟩ := c
        simp only [T.kids_node, beq_iff_eq] at hc2
        match k2, hc2 with
        | [u, v], _ =>
          have hp2 : p2 ≤ 2 := by
            have := hpos.1
            simp [pposOKBelow] at this
            exact this.1
          have site : Site pre isRoot p k done.length e d2 p2 u v := by
            refine ⟨hroot, ?_, hkj, hp2⟩
            cases isRoot with
            | true => simpa using hpar
            | false =>
              have h2 : k.length = 2 := by simpa using hpar
              exact ⟨h2, h2 ▸ hpp rfl⟩
          simp only [T.ppos_node, List.mem_cons, List.not_mem_nil, or_false] at hr
          rcases hr with rfl | rfl
          · exact ⟨[], _, by simp [newNNI], rfl, hP _ _ d _ _ _ _ _ _ _ _ false site⟩
          · exact ⟨[], _, by simp [newNNI], rfl, hP _ _ d _ _ _ _ _ _ _ _ true site⟩
      · simp at hr
    · -- below `c`
      obtain ⟨q, S, hq, hs, hPS⟩ := IH (e, c) (by simp) (pre ++ [done.length]) (by simp) hpos.1 r hr
      refine ⟨done.length :: q, S, by simp [hq], ?_, hPS⟩
      simp [subAt, hkj, hs]
    · -- the later children
      have := ih (done ++ [(e, c)]) (by simp [hk]) hpos.2 (fun et het => IH et (by simp [het])) r
        (by simpa using hr)
      exact this

theorem enumT_generic (P : T → NNI → Prop)
    (hP : ∀ path isRoot d1 p1 k1 j e d2 p2 u v cross, Site path isRoot p1 k1 j e d2 p2 u v →
      P (.node d1 p1 k1) (newNNI path isRoot p1 j p2 cross)) :
    ∀ (t : T) (pre : List Nat), pre ≠ [] → pposOKBelow t = true → ∀ r ∈ enumT false pre t,
      ∃ q S, r.path = pre ++ q ∧ subAt q t = some S ∧ P S r := by
  intro t
  induction t using T.induct with
  | h d p k ih =>
    intro pre hpre hpos r hr
    simp only [pposOKBelow, Bool.and_eq_true, decide_eq_true_eq] at hpos
    have hroot : false = pre.isEmpty := by
      cases pre with
      | nil => exact absurd rfl hpre
      | cons _ _ => rfl
    exact enumL_generic P hP d p k false pre hroot (fun _ => hpos.1) _ rfl k [] rfl hpos.2
      (fun et het pre' hpre' hp' r' hr' => ih et het pre' hpre' hp' r' hr') r (by simpa [enumT] using hr)

/-- every rearrangement of the enumeration sits at a site, and a fact true at all sites is
    true of it -/
theorem rearrangements_generic (P : T → NNI → Prop)
    (hP : ∀ path isRoot d1 p1 k1 j e d2 p2 u v cross, Site path isRoot p1 k1 j e d2 p2 u v →
      P (.node d1 p1 k1) (newNNI path isRoot p1 j p2 cross))
    (t : T) (hpos : pposOK t = true) :
    ∀ r ∈ rearrangements t, ∃ S, subAt r.path t = some S ∧ P S r := by
  intro r hr
  obtain ⟨d, p, k⟩ := t
  have := enumL_generic P hP d p k true [] rfl (by simp) _ rfl k [] rfl (by simpa [pposOK] using hpos)
    (fun et _ pre' hpre' hp' r' hr' => enumT_generic P hP et.2 pre' hpre' hp' r' hr') r
    (by simpa [rearrangements, enumT] using hr)
  obtain ⟨q, S, hq, hs, hPS⟩ := this
  simp at hq
  subst hq
  exact ⟨S, hs, hPS⟩

/-- rewriting at a path with `f` then with `g`, when `g` undoes `f` on the subtree there -/
theorem modAt_roundtrip (f g : T → Option T) :
    ∀ (q : List Nat) (t S S' : T), subAt q t = some S → f S = some S' → g S' = some S →
      ∃ t', modAt q f t = some t' ∧ modAt q g t' = some t := by
  intro q
  induction q with
  | nil =>
    intro t S S' hs hf hg
    simp only [subAt, Option.some.injEq] at hs
    subst hs
    exact ⟨S', by simp [modAt, hf], by simp [modAt, hg]⟩
  | cons i q ih =>
    intro t S S' hs hf hg
    obtain ⟨d, pp, k⟩ := t
    simp only [subAt] at hs
    cases hki : k[i]? with
    | none => simp [hki] at hs
    | some ec =>
      obtain ⟨e, c⟩ := ec
      simp only [hki] at hs
      obtain ⟨c', h1, h2⟩ := ih c S S' hs hf hg
      have hi : i < k.length := by
        rcases List.getElem?_eq_some_iff.mp hki with ⟨h, _⟩
        exact h
      refine ⟨.node d pp (k.set i (e, c')), by simp [modAt, hki, h1], ?_⟩
      have hget : (k.set i (e, c'))[i]? = some (e, c') := by simp [hi]
      simp only [modAt, hget, h2, List.set_set]
      have : k.set i (e, c) = k := by
        rcases List.getElem?_eq_some_iff.mp hki with ⟨h, hv⟩
        rw [← hv]
        exact List.set_getElem_self h
      rw [this]

/-- destructuring of a site into the finitely many slot configurations; `tac` closes each -/
theorem site_cases {path : List Nat} {isRoot : Bool} {p1 : Nat} {k1 : Kids} {j : Nat}
    {e : EdgeD} {d2 : NodeD} {p2 : Nat} {u v : EdgeD × T}
    (s : Site path isRoot p1 k1 j e d2 p2 u v) (Q : Bool → Nat → Kids → Nat → Nat → Prop)
    (hroot : ∀ (y z : EdgeD × T) p1, p2 ≤ 2 →
      Q true p1 [(e, T.node d2 p2 [u, v]), y, z] 0 p2 ∧ Q true p1 [y, (e, T.node d2 p2 [u, v]), z] 1 p2 ∧
      Q true p1 [y, z, (e, T.node d2 p2 [u, v])] 2 p2)
    (hnon : ∀ (y : EdgeD × T), p1 ≤ 2 → p2 ≤ 2 →
      Q false p1 [(e, T.node d2 p2 [u, v]), y] 0 p2 ∧ Q false p1 [y, (e, T.node d2 p2 [u, v])] 1 p2) :
    Q isRoot p1 k1 j p2 := by
  obtain ⟨_, hdeg, hkid, hp2⟩ := s
  cases isRoot with
  | true =>
    simp only [if_true] at hdeg
    match k1, hdeg with
    | [x, y, z], _ =>
      match j, hkid with
      | 0, hkid => simp at hkid; subst hkid; exact (hroot y z p1 hp2).1
      | 1, hkid => simp at hkid; subst hkid; exact (hroot x z p1 hp2).2.1
      | 2, hkid => simp at hkid; subst hkid; exact (hroot x y p1 hp2).2.2
      | j + 3, hkid => simp at hkid
  | false =>
    simp only [Bool.false_eq_true, if_false] at hdeg
    obtain ⟨hlen, hp1⟩ := hdeg
    match k1, hlen with
    | [x, y], _ =>
      match j, hkid with
      | 0, hkid => simp at hkid; subst hkid; exact (hnon y hp1 hp2).1
      | 1, hkid => simp at hkid; subst hkid; exact (hnon x hp1 hp2).2
      | j + 2, hkid => simp at hkid

/-- ★ local form: at every site, `Undo` after `Apply` gives back the subtree -/
theorem local_undo_apply {path : List Nat} {isRoot : Bool} {p1 : Nat} {k1 : Kids} {j : Nat}
    {e : EdgeD} {d2 : NodeD} {p2 : Nat} {u v : EdgeD × T} (d1 : NodeD) (cross : Bool)
    (s : Site path isRoot p1 k1 j e d2 p2 u v) :
    ∃ S', applyLocal isRoot (newNNI path isRoot p1 j p2 cross) (.node d1 p1 k1) = some S' ∧
      undoLocal isRoot (newNNI path isRoot p1 j p2 cross) S' = some (.node d1 p1 k1) := by
  obtain ⟨eu, tu⟩ := u
  obtain ⟨ev, tv⟩ := v
  refine site_cases s (fun isRoot p1 k1 j p2 =>
    ∃ S', applyLocal isRoot (newNNI path isRoot p1 j p2 cross) (.node d1 p1 k1) = some S' ∧
      undoLocal isRoot (newNNI path isRoot p1 j p2 cross) S' = some (.node d1 p1 k1)) ?_ ?_
  · intro y z p1 hp2
    obtain ⟨ey, ty⟩ := y
    obtain ⟨ez, tz⟩ := z
    have h2 : p2 = 0 ∨ p2 = 1 ∨ p2 = 2 := by omega
    rcases h2 with rfl | rfl | rfl <;> cases cross <;>
      exact ⟨⟨_, rfl, rfl⟩, ⟨_, rfl, rfl⟩, ⟨_, rfl, rfl⟩⟩
  · intro y hp1 hp2
    obtain ⟨ey, ty⟩ := y
    have h1 : p1 = 0 ∨ p1 = 1 ∨ p1 = 2 := by omega
    have h2 : p2 = 0 ∨ p2 = 1 ∨ p2 = 2 := by omega
    rcases h1 with rfl | rfl | rfl <;> rcases h2 with rfl | rfl | rfl <;> cases cross <;>
      exact ⟨⟨_, rfl, rfl⟩, ⟨_, rfl, rfl⟩⟩

end Gotree.C17
