import Driver.Proto
import Gotree.Model.C09
import Gotree.Model.C09Lit
import Gotree.Model.C09Float
import Gotree.Model.C09Items
import Gotree.Model.C09Text
import Gotree.Spec.C09

namespace Gotree.Driver.C09
open Gotree Gotree.Driver Gotree.C09 Gotree.C09S

/-- obs_C09 compared between the implementation (floats) and the model (exact):
    same taxa, same non-trivial splits, supports / lengths / tip lengths equal up
    to the single final division. -/
def obsAgree (impl model : T) : Bool :=
  let (ti, ui, li) := obs impl
  let (tm, um, lm) := obs model
  ti == tm &&
  ui.length == um.length &&
  (List.zipWith (fun a b => a.side == b.side && approx a.len b.len && approx a.sup b.sup) ui um).all id &&
  li.length == lm.length &&
  (List.zipWith (fun (a b : List String × Rat) => a.1 == b.1 && approx a.2 b.2) li lm).all id

def showObs (r : T) : String :=
  let (t, u, l) := obs r
  showStrList t ++ " | " ++ ";".intercalate (u.map fun s => showStrList s.side ++ ":" ++ showRat s.len ++ ":" ++ showRat s.sup) ++
    " | " ++ ";".intercalate (l.map fun s => showStrList s.1 ++ ":" ++ showRat s.2)

/-- the frequency table the theorems talk about (model vocabulary: `C09.count`,
    `lenM` over the branch lists of the unrooted trees) agrees with the one the
    oracle uses (Spec: over `T.usplitsAll`), row by row -/
def tablesAgreeG (tm ts : List T) : Bool :=
  let univ := univOf tm
  (allSides ts).all (fun s =>
    let k := bits univ s
    C09.count tm k == C09S.count ts s && (!allLens ts || lenM univ (trees tm) k == lenSum ts s)) &&
  (index tm).all (fun x => x.count == C09S.count ts (canonSide (taxa ts) x.key))

/-- `tm`: the collection as the theorems see it (tip roots moved to their neighbours, 5a3a76a) -/
def tablesAgree (ts : List T) : Bool := tablesAgreeG (ts.map rerootTip) ts

def parseDumps (s : String) : Option (List T) := (splitTerm "|" s).mapM T.undump

/-- tags describing the collection (generator branches, hypotheses) -/
def collTags (ts : List T) (c : Rat) : List String :=
  let nt := (allSides ts).filter fun s => decide (2 ≤ lightSize (taxa ts) s)
  let dom := !ts.isEmpty && ts.all domainTreeTip && sameTaxa ts   -- = `demanded ts c == some true` for an in-range threshold
  let tm := ts.map rerootTip
  tagIf (ts.any (·.rooted)) "rooted" ++ tagIf (ts.any (!·.rooted)) "unrooted" ++
  tagIf (ts.any (·.rooted) && ts.any (!·.rooted)) "mixed" ++
  tagIf (ts.any fun t => t.rooted && t.kids.any (·.2.isLeaf)) "roottipchild" ++
  tagIf (ts.any (!·.binary)) "multif" ++
  tagIf (ts.all domainTree) "domain" ++ tagIf (ts.all domainTreeWide && !(ts.all domainTree)) "single-child" ++ tagIf (sameTaxa ts) "sametaxa" ++ tagIf (noRepeat tm) "hyp-norepeat" ++ tagIf (domB tm) "hyp-dom" ++ tagIf (lensOK tm) "hyp-lensok" ++ tagIf (keysOK ts && keysOK tm) "hyp-keys" ++ tagIf (inRange c && selHyp tm c) "hyp-selok" ++
  tagIf (ts.any fun t => t.kids.length == 1) "tip-rooted" ++
  tagIf (allLens ts) "alllens" ++ tagIf (!allLens ts) "absent-len" ++
  tagIf (c == 1) "strict" ++ tagIf (c == 1/2) "majority" ++
  tagIf (dom && inRange c && nt.any (fun s => C09S.freq ts s == c)) "tie-threshold" ++
  tagIf (dom && inRange c && nt.any (fun s => isSelected ts c s) && nt.any (fun s => !isSelected ts c s)) "nontrivial" ++
  tagIf (ts.length == 1) "single-tree" ++ tagIf (ts.length ≥ 5) "many-trees" ++
  tagIf (decide ((index tm).length > 96)) "rehash"   -- the edge index (128 buckets, load factor 0.75) has been rehashed

def baseCls (s : String) : String := (s.splitOn ":").headD ""

/-- the model of the code as it is now (tie): `consensusNow = consensusCut cutNow`, `cutNow` being the
    FMA-corrected float64 cut since a53968e.  Theorem `consensusNow_eq_consensus`: for fewer than 2^52
    trees this IS the `consensus` of the theorems (`cutNow_exact`, proved for the `roundF64` used here). -/
def modelNow (ord : List Entry → List Entry) (ts : List T) (c : Rat) : Out := consensusNow ord ts c

/-- oracle + tie for one run of Consensus -/
def judge (tagsIn : List String) (c : Rat) (floorGo : Int) (ts : List T) (cls : String) (res : Option T) : Verdict :=
  let tags := tagsIn ++ collTags ts c
  let n := ts.length
  -- the float64 product, computed exactly (round-to-nearest-even of the rational product), against Go's own arithmetic
  let fcut := floatCut c n
  if inRange c && floorGo != ((fcut : Nat) : Int) then
    ⟨.tie, tags, "model of the float64 product int(c*float64(n)) gives " ++ toString fcut ++ ", Go " ++ toString floorGo⟩ else
  let tags := tags ++ tagIf (inRange c && fcut != floorCut c n) "float-cut-differs" ++
    tagIf (inRange c && fcut != floorCut c n && (allSides ts).any (fun s => C09S.count ts s == fcut && fcut != n && decide (2 ≤ lightSize (taxa ts) s))) "float-boundary"
  let icls := baseCls cls
  -- the oracle: the Spec on the implementation's own output
  let oracle : Option String :=
    match demanded ts c with
    | some false =>
      if icls == "err" then none
      else some (if inRange c then "collection with differing taxa not rejected: " ++ cls else "threshold outside [1/2,1] not rejected: " ++ cls)
    | some true =>
      (match icls, res with
       | "ok", some r =>
         if !(splitsOK ts c r) then
           some ("splits of the consensus " ++ showStrLists (canonSet r.usplitSet) ++ " differ from the selected ones " ++ showStrLists (expectedSplits ts c))
         else if !(supportsOK ts r) then some "a support differs from the split's frequency"
         else if !(lengthsOKWhereDefined ts r) then some "a length differs from the mean over the trees containing the split"
         else none
       | _, _ => some ("valid collection not accepted: " ++ cls))
    | none => none
  -- the float64-product defect (tree/algo.go:353, repaired by a53968e: the class is for its return), as narrow as the finding: in-range threshold, the rounded product
  -- truncates to one more than the exact floor, and the implementation's tree is exactly the Spec's consensus for
  -- that count cut (same taxa, the splits with count > int(c*float64(n)) or in every tree)
  let floatClass : Bool :=
    inRange c && demanded ts c == some true && fcut == floorCut c n + 1 &&
    (match icls, res with
     | "ok", some r => sortS r.tipNames == sortS (taxa ts) && canonSet r.usplitSet == expectedSplitsCut ts fcut
     | _, _ => false)
  match oracle with
  | some msg => ⟨.oracle, tags, (if floatClass then "class=ConsensusFloatProductCut " else "") ++ msg⟩
  | none =>
    let dtags := tags ++ tagIf (demanded ts c == none) "out-of-domain" ++
      tagIf (demanded ts c == some false && inRange c) "rejected-taxa" ++ tagIf (!inRange c) "rejected-range"
    let tm := ts.map rerootTip
    if demanded ts c == some true && !(tablesAgree ts && noRepeat tm) then
      ⟨.tie, dtags, "the model's frequency table (theorem vocabulary) differs from the Spec's, or a valid collection fails noRepeat"⟩ else
    if demanded ts c == some true && !(domB tm) then
      ⟨.tie, dtags, "a collection of the Spec's domain is not in the domain domB of consensus_exact"⟩ else
    if demanded ts c == some true && !(selHyp tm c) then
      ⟨.tie, dtags, "a valid collection fails the hypothesis selOK of consensus_splits (selected rows not pairwise compatible)"⟩ else
    match modelNow id ts c with
    | .unsupported => ⟨.pass, "skip-unsupported" :: dtags, ""⟩
    | .panic => if icls == "panic" then ⟨.pass, "empty" :: dtags, ""⟩ else ⟨.tie, dtags, "model panics (empty collection), implementation: " ++ cls⟩
    | .err w => if icls == "err" then ⟨.pass, ("model-err-" ++ w) :: dtags, ""⟩ else ⟨.tie, dtags, "model rejects (" ++ w ++ "), implementation: " ++ cls⟩
    | .ok m =>
      match icls, res with
      | "ok", some r =>
        if !(obsAgree r m) then ⟨.tie, dtags, "model " ++ showObs m ++ " implementation " ++ showObs r⟩ else
        -- the second, literal model (real bucket order: an `ord` other than `id`, real neighbour order) on the same observation
        let loose := (tagsIn.headD "").startsWith "cli"
        let lit := Gotree.C09L.litOf loose ts c
        match lit with
        | some ml =>
          if obsAgree r ml then ⟨.pass, Gotree.C09L.fidelityOf loose r lit :: dtags, ""⟩
          else ⟨.tie, dtags, "literal model " ++ showObs ml ++ " implementation " ++ showObs r⟩
        | none => ⟨.tie, dtags, "the literal model (hash map, neighbour order) fails where the implementation and the first model succeed"⟩
      | _, _ => ⟨.tie, dtags, "model accepts, implementation: " ++ cls⟩

/-- the threshold field of a case line: what `core.Rat` prints for a float64 -/
def parseThr (s : String) : Option Thr :=
  if s == "nan" then some .nan
  else if s == "+inf" then some (.inf false)
  else if s == "-inf" then some (.inf true)
  else (parseRat? s).map .fin

/-- a threshold that is NaN or ±Inf is not in [1/2, 1]: the property demands a rejection
    (`demandedThr … none = some false`), and so does the model (`consensusThr`) -/
def judgeNonFinite (tagsIn : List String) (t : Thr) (ts : List T) (cls : String) : Verdict :=
  let tags := tagsIn ++ ["nonfinite", match t with | .nan => "thr-nan" | .inf false => "thr-posinf" | _ => "thr-neginf"]
  if demandedThr ts none == some false && baseCls cls != "err" then
    ⟨.oracle, tags, "threshold outside [1/2,1] (not a finite number) not rejected: " ++ cls⟩
  else match consensusThr id ts t with
    | .err w => if cls == "err:range" then ⟨.pass, ("model-err-" ++ w) :: "rejected-range" :: tags, ""⟩
                else ⟨.tie, tags, "model rejects (" ++ w ++ "), implementation: " ++ cls⟩
    | _ => ⟨.tie, tags, "model accepts a non-finite threshold, implementation: " ++ cls⟩

/-- the items of a `C09.items` line: an α dump, or `!` + the escaped message of an error record -/
def parseItems (s : String) : Option (List Item) :=
  (splitTerm "|" s).mapM fun d =>
    if d.startsWith "!" then (unescape (String.ofList (d.toList.drop 1))).map Item.bad
    else (T.undump d).map Item.tree

def itemTrees (items : List Item) : List T := items.filterMap fun | .tree t => some t | .bad _ => none

/-- `Consensus` on a channel with error records (tree/algo.go:284-290; model `consensusItems`).
    Oracle: a collection delivered with an error record must be rejected (`demandedItems`).
    Tie: the class of the error — the first obstacle in channel order decides: `range`, then the error of a
    tree in front of the first record (`taxa`), then the record's own error, returned as it is.
    `consumed` (items taken from the channel) and `shape` (what cmd/consensus.go wrote) are compared too:
    the first as a fidelity figure, the second as part of the tie. -/
def judgeItems (kind : String) (c : Rat) (items : List Item) (cls consumed shape : String) : Verdict :=
  let nbad := (items.filter Item.isBad).length
  let pre := (splitItems items).1
  let cli := kind.startsWith "cli"
  let tags := [kind, "items", "bad-records-" ++ toString nbad] ++
    tagIf (pre.isEmpty) "bad-first" ++ tagIf (pre.length == (itemTrees items).length) "bad-last" ++
    tagIf (!pre.isEmpty && pre.length != (itemTrees items).length) "bad-middle"
  let icls := baseCls cls
  if demandedItems (itemTrees items) true c == some false && icls != "err" then
    ⟨.oracle, tags, "a collection delivered with an error record (unreadable tree) is not rejected: " ++ cls⟩
  else
    let drain := if cli then [] else
      [if consumed.toNat? == some (consumedItems items c) then "drain-exact" else "drain-diff"]
    let tags := tags ++ drain
    if cli && shape != "ok" then ⟨.tie, tags, "cmd/consensus.go: output of a failing run: " ++ shape⟩ else
    match consensusItems id items c with
    | .unsupported => ⟨.pass, "skip-unsupported" :: tags, ""⟩
    | .err w =>
      let want := if cli && w.startsWith "input:" then "err:input" else "err:" ++ w
      let got := if cli && cls.startsWith "err:input" then "err:input" else (unescape cls).getD cls
      if w == "dup" && icls == "err" then ⟨.pass, "model-err-dup" :: tags, ""⟩
      else if got == want then ⟨.pass, ("model-err-" ++ ((w.splitOn ":").headD "")) :: tags, ""⟩
      else ⟨.tie, tags, "model: " ++ want ++ ", implementation: " ++ cls⟩
    | _ => ⟨.tie, tags, "the model accepts a collection with an error record"⟩

def parseRes (cls res : String) : Option (Option T) :=
  if baseCls cls == "ok" then (T.undump res).map some else some none

def handle (op : String) (f : List String) : Verdict :=
  match op, f with
  | "cons", [kind, cs, fl, dumps, cls, res] =>
    match parseThr cs, fl.toInt?, parseDumps dumps, parseRes cls res with
    | some (.fin c), some floorGo, some ts, some r => judge [kind] c floorGo ts cls r
    | some t, some _, some ts, some _ => judgeNonFinite [kind] t ts cls
    | _, _, _, _ => bad "C09.cons fields"
  | "clif", [kind, mode, ftextE, fl, dumps, cls, res] =>
    -- CLI with the threshold as text: `cmd/consensus.go` = parse the flag (model `cliCutoff`), then Consensus
    match unescape ftextE, fl.toInt?, parseDumps dumps, parseRes cls res with
    | some ftext, some floorGo, some ts, some r =>
      let modeTags := match mode.toNat? with
        | some m => tagIf (m % 2 == 1) "cli-stdin" ++ tagIf ((m / 2) % 2 == 1) "cli-nexus" ++ tagIf ((m / 4) % 2 == 1) "cli-outfile"
        | none => []
      (match cliCutoffThr (if ftext.isEmpty then none else some ftext) with
       | none =>
         if cls == "err:flag" then ⟨.pass, [kind, "cli-flag-rejected"] ++ modeTags, ""⟩
         else ⟨.tie, [kind] ++ modeTags, "the model rejects the text of -f as a flag error, the command: " ++ cls⟩
       | some t =>
         if cls == "err:flag" then ⟨.tie, [kind] ++ modeTags, "the command rejects the text of -f, the model reads it"⟩
         else match t with
           | .fin c => judge ([kind] ++ modeTags) c floorGo ts cls r
           | t => judgeNonFinite ([kind] ++ modeTags) t ts cls)
    | _, _, _, _ => bad "C09.clif fields"
  | "items", [kind, cs, fl, itemsS, cls, res, consumed, shape, raw] =>
    match parseRat? cs, fl.toInt?, parseItems itemsS, parseRes cls res with
    | some c, some floorGo, some items, some r =>
      if items.any Item.isBad then judgeItems kind c items cls consumed shape
      else
        -- no error record: the plain run, with the extra observations
        let cli := kind.startsWith "cli"
        let v := judge [kind, "items", "bad-records-0"] c floorGo (itemTrees items) cls r
        let extra := (if cli then [] else
          [if consumed.toNat? == some (consumedItems items c) then "drain-exact" else "drain-diff"])
        if v.status == .pass && cli && shape != "ok" then
          ⟨.tie, v.tags, "cmd/consensus.go: output format: " ++ shape⟩
        else if v.status == .pass && cli && raw != "-" then
          -- the text written, token by token, against the Newick text of the literal model's tree
          match unescape raw, Gotree.C09L.litOf true (itemTrees items) c with
          | some text, some ml =>
            if Gotree.C09L.textAgrees text ml then { v with tags := v.tags ++ ["text-exact"] }
            else ⟨.tie, v.tags, "the text written by cmd/consensus.go differs from the Newick text of the literal model: " ++ text⟩
          | _, _ => { v with tags := v.tags ++ ["text-none"] }
        else { v with tags := v.tags ++ extra }
    | _, _, _, _ => bad "C09.items fields"
  | "hist", [kind, cs, fl, _orig, hist, cls, res, inputs] =>
    -- input trees with a history (indexed, then relabelled / re-rooted / grafted through the API): the
    -- collection is what Consensus received (`inputs`, dumped after the history)
    match parseRat? cs, fl.toInt?, parseDumps inputs, parseRes cls res with
    | some c, some floorGo, some ts, some r =>
      judge ([kind, "hist"] ++ tagIf (hist.contains 'P') "hist-relabel" ++ tagIf (hist.contains 'R') "hist-reroot" ++
        tagIf (hist.contains 'G') "hist-graft") c floorGo ts cls r
    | _, _, _, _ => bad "C09.hist fields"
  | "inv", [kind, cs, fl, dumpsA, clsA, resA, dumpsB, clsB, resB] =>
    match parseRat? cs, fl.toInt?, parseDumps dumpsA, parseRes clsA resA, parseDumps dumpsB, parseRes clsB resB with
    | some c, some _, some a, some ra, some b, some rb =>
      let tags := [kind, "inv"] ++ collTags a c
      if !(sameCollection a b) then bad "C09.inv: the two collections are not the same up to order/rooting"
      else
        (match ra, rb with
         | some x, some y =>
           if obs x == obs y then ⟨.pass, tags, ""⟩
           else ⟨.oracle, tags, "the consensus depends on order/rooting/child order: " ++ showObs x ++ " vs " ++ showObs y⟩
         | none, none =>
           if baseCls clsA == baseCls clsB then ⟨.pass, tags, ""⟩
           else ⟨.oracle, tags, "outcome depends on order/rooting: " ++ clsA ++ " vs " ++ clsB⟩
         | _, _ => ⟨.oracle, tags, "outcome depends on order/rooting: " ++ clsA ++ " vs " ++ clsB⟩)
    | _, _, _, _, _, _ => bad "C09.inv fields"
  | _, _ => bad ("C09: unknown op " ++ op)

end Gotree.Driver.C09
