/-
  C04 — `hashmap.HashMap` refines an association list (proof of `hm_refines`).
  Core Lean only.
-/
import Gotree.Spec.C04

namespace Gotree.C04

/-- what the map needs from a key type: `HashEquals` is an equivalence and equal keys hash equally -/
structure KeyLaws {κ : Type} (hash : κ → UInt64) (eqv : κ → κ → Bool) : Prop where
  refl : ∀ a, eqv a a = true
  symm : ∀ a b, eqv a b = true → eqv b a = true
  trans : ∀ a b c, eqv a b = true → eqv b c = true → eqv a c = true
  compat : ∀ a b, eqv a b = true → hash a = hash b

section
variable {κ ν : Type} {hash : κ → UInt64} {eqv : κ → κ → Bool}

/-- keys pairwise inequivalent -/
def NoDupK (eqv : κ → κ → Bool) (l : List (κ × ν)) : Prop := l.Pairwise fun x y => eqv x.1 y.1 = false

/-- no entry of `l` has a key equal to `k` -/
def NoMatch (eqv : κ → κ → Bool) (k : κ) (l : List (κ × ν)) : Prop := ∀ kv ∈ l, eqv k kv.1 = false

theorem KeyLaws.symm_false (L : KeyLaws hash eqv) {a b : κ} (h : eqv a b = false) : eqv b a = false := by
  cases hb : eqv b a with
  | false => rfl
  | true => rw [L.symm b a hb] at h; exact absurd h (by decide)

/- ### the association list -/

theorem bucketFind_eq (k : κ) (l : List (κ × ν)) : bucketFind eqv k l = Assoc.get eqv k l := by
  induction l with
  | nil => rfl
  | cons x r ih => obtain ⟨k', v⟩ := x; simp only [bucketFind, Assoc.get, ih]

theorem get_nomatch {k : κ} {l : List (κ × ν)} (h : NoMatch eqv k l) : Assoc.get eqv k l = none := by
  induction l with
  | nil => rfl
  | cons x r ih =>
    obtain ⟨k', v⟩ := x
    have h1 : eqv k k' = false := h (k', v) (List.mem_cons_self ..)
    simp only [Assoc.get, h1, Bool.false_eq_true, if_false]
    exact ih fun kv hm => h kv (List.mem_cons_of_mem _ hm)

theorem get_append_left {k : κ} (l₁ l₂ : List (κ × ν)) (h : NoMatch eqv k l₁) :
    Assoc.get eqv k (l₁ ++ l₂) = Assoc.get eqv k l₂ := by
  induction l₁ with
  | nil => rfl
  | cons x r ih =>
    obtain ⟨k', v⟩ := x
    have h1 : eqv k k' = false := h (k', v) (List.mem_cons_self ..)
    simp only [List.cons_append, Assoc.get, h1, Bool.false_eq_true, if_false]
    exact ih fun kv hm => h kv (List.mem_cons_of_mem _ hm)

theorem get_append_right {k : κ} (l₁ l₂ : List (κ × ν)) (h : NoMatch eqv k l₂) :
    Assoc.get eqv k (l₁ ++ l₂) = Assoc.get eqv k l₁ := by
  induction l₁ with
  | nil => exact get_nomatch h
  | cons x r ih =>
    obtain ⟨k', v⟩ := x
    simp only [List.cons_append, Assoc.get, ih]

/-- under `NoDupK`, `get` is determined by membership -/
theorem get_some_iff (L : KeyLaws hash eqv) {k : κ} {l : List (κ × ν)} (hn : NoDupK eqv l) (v : ν) :
    Assoc.get eqv k l = some v ↔ ∃ k', (k', v) ∈ l ∧ eqv k k' = true := by
  induction l with
  | nil => simp [Assoc.get]
  | cons x r ih =>
    obtain ⟨k₁, v₁⟩ := x
    have hn' := List.pairwise_cons.mp hn
    cases h1 : eqv k k₁ with
    | true =>
      simp only [Assoc.get, h1, if_true, Option.some.injEq]
      constructor
      · intro e; subst e; exact ⟨k₁, List.mem_cons_self .., h1⟩
      · rintro ⟨k', hm, he⟩
        cases List.mem_cons.mp hm with
        | inl e => exact (Prod.mk.inj e).2.symm
        | inr hm' =>
          have : eqv k₁ k' = false := hn'.1 (k', v) hm'
          have h2 : eqv k₁ k' = true := L.trans _ _ _ (L.symm _ _ h1) he
          rw [h2] at this; exact absurd this (by decide)
    | false =>
      simp only [Assoc.get, h1, Bool.false_eq_true, if_false]
      rw [ih hn'.2]
      constructor
      · rintro ⟨k', hm, he⟩; exact ⟨k', List.mem_cons_of_mem _ hm, he⟩
      · rintro ⟨k', hm, he⟩
        cases List.mem_cons.mp hm with
        | inl e => rw [(Prod.mk.inj e).1, h1] at he; exact absurd he (by decide)
        | inr hm' => exact ⟨k', hm', he⟩

theorem get_none_iff {k : κ} {l : List (κ × ν)} : Assoc.get eqv k l = none ↔ NoMatch eqv k l := by
  induction l with
  | nil => simp [Assoc.get, NoMatch]
  | cons x r ih =>
    obtain ⟨k₁, v₁⟩ := x
    cases h1 : eqv k k₁ with
    | true =>
      simp only [Assoc.get, h1, if_true, reduceCtorEq, false_iff]
      intro h; have := h (k₁, v₁) (List.mem_cons_self ..); rw [h1] at this; exact absurd this (by decide)
    | false =>
      simp only [Assoc.get, h1, Bool.false_eq_true, if_false, ih]
      constructor
      · intro h kv hm
        cases List.mem_cons.mp hm with
        | inl e => subst e; exact h1
        | inr hm' => exact h kv hm'
      · intro h kv hm; exact h kv (List.mem_cons_of_mem _ hm)

theorem noDupK_perm (L : KeyLaws hash eqv) {l₁ l₂ : List (κ × ν)} (p : l₁.Perm l₂) :
    NoDupK eqv l₁ ↔ NoDupK eqv l₂ :=
  p.pairwise_iff (fun h => L.symm_false h)

/-- S1: `get` does not depend on the order -/
theorem get_perm (L : KeyLaws hash eqv) {k : κ} {l₁ l₂ : List (κ × ν)} (p : l₁.Perm l₂) (hn : NoDupK eqv l₁) :
    Assoc.get eqv k l₁ = Assoc.get eqv k l₂ := by
  have hn2 := (noDupK_perm L p).mp hn
  cases h : Assoc.get eqv k l₂ with
  | none =>
    rw [get_none_iff] at h ⊢
    intro kv hm; exact h kv (p.mem_iff.mp hm)
  | some v =>
    rw [get_some_iff L hn2] at h
    rw [get_some_iff L hn]
    obtain ⟨k', hm, he⟩ := h
    exact ⟨k', p.mem_iff.mpr hm, he⟩

theorem put_nomatch {k : κ} {v : ν} {l : List (κ × ν)} (h : NoMatch eqv k l) :
    Assoc.put eqv k v l = l ++ [(k, v)] := by
  induction l with
  | nil => rfl
  | cons x r ih =>
    obtain ⟨k', v'⟩ := x
    have h1 : eqv k k' = false := h (k', v') (List.mem_cons_self ..)
    simp only [Assoc.put, h1, Bool.false_eq_true, if_false, List.cons_append]
    rw [ih fun kv hm => h kv (List.mem_cons_of_mem _ hm)]

/-- the value update seen as a map over the list -/
def updF (eqv : κ → κ → Bool) (k : κ) (v : ν) (kv : κ × ν) : κ × ν := if eqv k kv.1 then (kv.1, v) else kv

theorem map_updF_nomatch {k : κ} {v : ν} {l : List (κ × ν)} (h : NoMatch eqv k l) : l.map (updF eqv k v) = l := by
  induction l with
  | nil => rfl
  | cons x r ih =>
    have h1 : eqv k x.1 = false := h x (List.mem_cons_self ..)
    have hx : updF eqv k v x = x := by simp [updF, h1]
    rw [List.map_cons, hx, ih fun kv hm => h kv (List.mem_cons_of_mem _ hm)]

theorem put_match (L : KeyLaws hash eqv) {k : κ} {v : ν} {l : List (κ × ν)} (hn : NoDupK eqv l)
    (hm : ¬ NoMatch eqv k l) : Assoc.put eqv k v l = l.map (updF eqv k v) := by
  induction l with
  | nil => exact absurd (fun _ h => by cases h) hm
  | cons x r ih =>
    obtain ⟨k₁, v₁⟩ := x
    have hn' := List.pairwise_cons.mp hn
    cases h1 : eqv k k₁ with
    | true =>
      simp only [Assoc.put, h1, if_true, List.map_cons, updF]
      have : NoMatch eqv k r := by
        intro kv hkv
        cases h2 : eqv k kv.1 with
        | false => rfl
        | true =>
          have h3 : eqv k₁ kv.1 = true := L.trans _ _ _ (L.symm _ _ h1) h2
          have := hn'.1 kv hkv
          simp only at this
          rw [h3] at this; exact absurd this (by decide)
      rw [map_updF_nomatch this]
    | false =>
      simp only [Assoc.put, h1, Bool.false_eq_true, if_false, List.map_cons, updF]
      rw [ih hn'.2]
      intro hno
      apply hm
      intro kv hkv
      cases List.mem_cons.mp hkv with
      | inl e => subst e; exact h1
      | inr h' => exact hno kv h'

theorem noMatch_perm {k : κ} {l₁ l₂ : List (κ × ν)} (p : l₁.Perm l₂) : NoMatch eqv k l₁ ↔ NoMatch eqv k l₂ :=
  ⟨fun h kv hm => h kv (p.mem_iff.mpr hm), fun h kv hm => h kv (p.mem_iff.mp hm)⟩

/-- S2: `put` commutes with reordering -/
theorem put_perm (L : KeyLaws hash eqv) {k : κ} {v : ν} {l₁ l₂ : List (κ × ν)} (p : l₁.Perm l₂) (hn : NoDupK eqv l₁) :
    (Assoc.put eqv k v l₁).Perm (Assoc.put eqv k v l₂) := by
  have hn2 := (noDupK_perm L p).mp hn
  by_cases h : NoMatch eqv k l₁
  · rw [put_nomatch h, put_nomatch ((noMatch_perm p).mp h)]
    exact p.append_right _
  · rw [put_match L hn h, put_match L hn2 (fun h' => h ((noMatch_perm p).mpr h'))]
    exact p.map _

theorem noDupK_put (L : KeyLaws hash eqv) {k : κ} {v : ν} {l : List (κ × ν)} (hn : NoDupK eqv l) :
    NoDupK eqv (Assoc.put eqv k v l) := by
  by_cases h : NoMatch eqv k l
  · rw [put_nomatch h]
    refine List.pairwise_append.mpr ⟨hn, List.pairwise_singleton _ _, ?_⟩
    intro a ha b hb
    rw [List.mem_singleton.mp hb]
    exact L.symm_false (h a ha)
  · rw [put_match L hn h]
    refine List.Pairwise.map _ ?_ hn
    intro a b hab
    have ha : (updF eqv k v a).1 = a.1 := by unfold updF; split <;> rfl
    have hb : (updF eqv k v b).1 = b.1 := by unfold updF; split <;> rfl
    rw [ha, hb]; exact hab

theorem put_append_left {k : κ} {v : ν} (l₁ l₂ : List (κ × ν)) (h : NoMatch eqv k l₁) :
    Assoc.put eqv k v (l₁ ++ l₂) = l₁ ++ Assoc.put eqv k v l₂ := by
  induction l₁ with
  | nil => rfl
  | cons x r ih =>
    obtain ⟨k', v'⟩ := x
    have h1 : eqv k k' = false := h (k', v') (List.mem_cons_self ..)
    simp only [List.cons_append, Assoc.put, h1, Bool.false_eq_true, if_false]
    rw [ih fun kv hm => h kv (List.mem_cons_of_mem _ hm)]

theorem put_append_right {k : κ} {v : ν} (l₁ l₂ : List (κ × ν)) (h : ¬ NoMatch eqv k l₁) :
    Assoc.put eqv k v (l₁ ++ l₂) = Assoc.put eqv k v l₁ ++ l₂ := by
  induction l₁ with
  | nil => exact absurd (fun _ h => by cases h) h
  | cons x r ih =>
    obtain ⟨k', v'⟩ := x
    cases h1 : eqv k k' with
    | true => simp only [List.cons_append, Assoc.put, h1, if_true]
    | false =>
      simp only [List.cons_append, Assoc.put, h1, Bool.false_eq_true, if_false]
      rw [ih]
      intro hno; apply h
      intro kv hkv
      cases List.mem_cons.mp hkv with
      | inl e => subst e; exact h1
      | inr h' => exact hno kv h'

theorem bucketReplace_some {k : κ} {v : ν} {b b' : List (κ × ν)} (h : bucketReplace eqv k v b = some b') :
    b' = Assoc.put eqv k v b ∧ ¬ NoMatch eqv k b := by
  induction b generalizing b' with
  | nil => simp [bucketReplace] at h
  | cons x r ih =>
    obtain ⟨k', v'⟩ := x
    cases h1 : eqv k k' with
    | true =>
      simp only [bucketReplace, h1, if_true, Option.some.injEq] at h
      refine ⟨by simp only [Assoc.put, h1, if_true]; exact h.symm, ?_⟩
      intro hno; have := hno (k', v') (List.mem_cons_self ..); simp only at this; rw [h1] at this; exact absurd this (by decide)
    | false =>
      simp only [bucketReplace, h1, Bool.false_eq_true, if_false] at h
      cases h2 : bucketReplace eqv k v r with
      | none => rw [h2] at h; exact absurd h (by simp)
      | some r' =>
        rw [h2] at h
        simp only [Option.some.injEq] at h
        obtain ⟨e, hne⟩ := ih h2
        refine ⟨by simp only [Assoc.put, h1, Bool.false_eq_true, if_false]; rw [← e]; exact h.symm, ?_⟩
        intro hno; exact hne fun kv hm => hno kv (List.mem_cons_of_mem _ hm)

theorem bucketReplace_none {k : κ} {v : ν} {b : List (κ × ν)} (h : bucketReplace eqv k v b = none) :
    NoMatch eqv k b := by
  induction b with
  | nil => intro _ hm; cases hm
  | cons x r ih =>
    obtain ⟨k', v'⟩ := x
    cases h1 : eqv k k' with
    | true => simp [bucketReplace, h1] at h
    | false =>
      simp only [bucketReplace, h1, Bool.false_eq_true, if_false] at h
      cases h2 : bucketReplace eqv k v r with
      | some r' => rw [h2] at h; exact absurd h (by simp)
      | none =>
        intro kv hm
        cases List.mem_cons.mp hm with
        | inl e => subst e; exact h1
        | inr h' => exact ih h2 kv h'

theorem put_keys {k : κ} {v : ν} {l : List (κ × ν)} (h : ¬ NoMatch eqv k l) :
    (Assoc.put eqv k v l).map Prod.fst = l.map Prod.fst := by
  induction l with
  | nil => exact absurd (fun _ h => by cases h) h
  | cons x r ih =>
    obtain ⟨k', v'⟩ := x
    cases h1 : eqv k k' with
    | true => simp only [Assoc.put, h1, if_true, List.map_cons]
    | false =>
      simp only [Assoc.put, h1, Bool.false_eq_true, if_false, List.map_cons]
      rw [ih]
      intro hno; apply h
      intro kv hkv
      cases List.mem_cons.mp hkv with
      | inl e => subst e; exact h1
      | inr h' => exact hno kv h'

/- ### buckets -/

/-- every entry sits in the bucket its hash selects -/
def Placed (hash : κ → UInt64) (cap : Nat) (bs : List (List (κ × ν))) : Prop :=
  ∀ i b, bs[i]? = some b → ∀ kv ∈ b, indexFor (hash kv.1) cap = i

structure Inv (hash : κ → UInt64) (m : HM κ ν) : Prop where
  len : m.buckets.length = m.cap
  pos : 1 ≤ m.cap
  placed : Placed hash m.cap m.buckets
  total : m.total = m.buckets.flatten.length

theorem indexFor_lt (h : UInt64) {cap : Nat} (hc : 1 ≤ cap) : indexFor h cap < cap := by
  have : h.toNat &&& (cap - 1) ≤ cap - 1 := Nat.and_le_right
  unfold indexFor; omega

/-- keys equal to `k` can only sit in bucket `indexFor (hash k)` -/
theorem noMatch_other (L : KeyLaws hash eqv) {cap : Nat} {bs : List (List (κ × ν))} (hp : Placed hash cap bs)
    {k : κ} {j : Nat} {b : List (κ × ν)} (hb : bs[j]? = some b) (hj : j ≠ indexFor (hash k) cap) :
    NoMatch eqv k b := by
  intro kv hm
  cases h : eqv k kv.1 with
  | false => rfl
  | true =>
    have := hp j b hb kv hm
    rw [← L.compat _ _ h] at this
    exact absurd this.symm hj

theorem flatten_set_put {k : κ} {v : ν} (bs : List (List (κ × ν))) (i : Nat) (b : List (κ × ν))
    (hb : bs[i]? = some b) (hbefore : ∀ j b', j < i → bs[j]? = some b' → NoMatch eqv k b')
    (hm : ¬ NoMatch eqv k b) :
    (bs.set i (Assoc.put eqv k v b)).flatten = Assoc.put eqv k v bs.flatten := by
  induction bs generalizing i with
  | nil => simp at hb
  | cons b₀ r ih =>
    cases i with
    | zero =>
      simp only [List.getElem?_cons_zero, Option.some.injEq] at hb
      subst hb
      simp only [List.set_cons_zero, List.flatten_cons]
      rw [put_append_right _ _ hm]
    | succ i =>
      simp only [List.getElem?_cons_succ] at hb
      simp only [List.set_cons_succ, List.flatten_cons]
      have h0 : NoMatch eqv k b₀ := hbefore 0 b₀ (Nat.succ_pos _) (by simp)
      rw [put_append_left _ _ h0]
      rw [ih i hb (fun j b' hj hb' => hbefore (j + 1) b' (Nat.succ_lt_succ hj) (by simpa using hb'))]

theorem flatten_set_append (bs : List (List (κ × ν))) (i : Nat) (b : List (κ × ν)) (kv : κ × ν)
    (hb : bs[i]? = some b) : (bs.set i (b ++ [kv])).flatten.Perm (bs.flatten ++ [kv]) := by
  induction bs generalizing i with
  | nil => simp at hb
  | cons b₀ r ih =>
    cases i with
    | zero =>
      simp only [List.getElem?_cons_zero, Option.some.injEq] at hb
      subst hb
      simp only [List.set_cons_zero, List.flatten_cons, List.append_assoc]
      exact List.Perm.append_left _ List.perm_append_comm
    | succ i =>
      simp only [List.getElem?_cons_succ] at hb
      simp only [List.set_cons_succ, List.flatten_cons, List.append_assoc]
      exact List.Perm.append_left _ (ih i hb)

theorem noMatch_flatten {k : κ} {bs : List (List (κ × ν))} (h : ∀ (j : Nat) (b : List (κ × ν)), bs[j]? = some b → NoMatch eqv k b) :
    NoMatch eqv k bs.flatten := by
  intro kv hm
  obtain ⟨b, hb, hkv⟩ := List.mem_flatten.mp hm
  obtain ⟨j, hj, e⟩ := List.getElem_of_mem hb
  exact h j b (by rw [List.getElem?_eq_getElem hj, e]) kv hkv

theorem placed_set {cap : Nat} {bs : List (List (κ × ν))} (hp : Placed hash cap bs) (i : Nat) (b' : List (κ × ν))
    (h : ∀ kv ∈ b', indexFor (hash kv.1) cap = i) : Placed hash cap (bs.set i b') := by
  intro j b hb kv hm
  rw [List.getElem?_set] at hb
  split at hb
  · rename_i hij
    split at hb
    · simp only [Option.some.injEq] at hb; subst hb; subst hij; exact h kv hm
    · exact absurd hb (by simp)
  · exact hp j b hb kv hm

theorem placed_replicate (cap n : Nat) : Placed hash cap (List.replicate n ([] : List (κ × ν))) := by
  intro i b hb kv hm
  rw [List.getElem?_replicate] at hb
  split at hb
  · simp only [Option.some.injEq] at hb; subst hb; cases hm
  · exact absurd hb (by simp)

theorem flatten_replicate_nil (n : Nat) : (List.replicate n ([] : List (κ × ν))).flatten = [] := by
  induction n with
  | zero => rfl
  | succ n ih => simp [List.replicate_succ, ih]

/-- the re-insertion loop succeeds, places every entry, and only reorders -/
theorem reinsert_ok {n : Nat} (hn : 1 ≤ n) (l : List (κ × ν)) (bs : List (List (κ × ν)))
    (hl : bs.length = n) (hp : Placed hash n bs) :
    ∃ bs', reinsert hash n l bs = some bs' ∧ bs'.length = n ∧ Placed hash n bs' ∧ bs'.flatten.Perm (bs.flatten ++ l) := by
  induction l generalizing bs with
  | nil => exact ⟨bs, rfl, hl, hp, by simp⟩
  | cons kv r ih =>
    have hi : indexFor (hash kv.1) n < bs.length := by rw [hl]; exact indexFor_lt _ hn
    have hb : bs[indexFor (hash kv.1) n]? = some bs[indexFor (hash kv.1) n] := List.getElem?_eq_getElem hi
    have hp' : Placed hash n (bs.set (indexFor (hash kv.1) n) (bs[indexFor (hash kv.1) n] ++ [kv])) := by
      apply placed_set hp
      intro x hx
      cases List.mem_append.mp hx with
      | inl h => exact hp _ _ hb x h
      | inr h => rw [List.mem_singleton.mp h]
    obtain ⟨bs', h1, h2, h3, h4⟩ := ih (bs.set (indexFor (hash kv.1) n) (bs[indexFor (hash kv.1) n] ++ [kv]))
      (by rw [List.length_set]; exact hl) hp'
    refine ⟨bs', ?_, h2, h3, ?_⟩
    · simp only [reinsert, appendAt, hb]; exact h1
    · refine h4.trans ?_
      have := flatten_set_append bs _ _ kv hb
      refine (this.append_right r).trans ?_
      simp

theorem inv_new (size : Nat) : Inv hash (HM.new size : HM κ ν) := by
  unfold HM.new
  refine ⟨by simp, ?_, placed_replicate _ _, by simp⟩
  show 1 ≤ (if (size == 0) = true then 1 else size)
  split
  · exact Nat.le_refl 1
  · rename_i h; simp at h; omega

theorem flatten_new (size : Nat) : (HM.new size : HM κ ν).buckets.flatten = [] := by
  unfold HM.new; exact flatten_replicate_nil _

/-- I1 -/
theorem get_refines (L : KeyLaws hash eqv) {m : HM κ ν} (hI : Inv hash m) (k : κ) :
    m.get hash eqv k = some (Assoc.get eqv k m.buckets.flatten) := by
  have hi : indexFor (hash k) m.cap < m.buckets.length := by rw [hI.len]; exact indexFor_lt _ hI.pos
  have hb : m.buckets[indexFor (hash k) m.cap]? = some m.buckets[indexFor (hash k) m.cap] := List.getElem?_eq_getElem hi
  simp only [HM.get, hb, bucketFind_eq]
  congr 1
  -- split the flattened list around the bucket
  have key : ∀ (bs : List (List (κ × ν))) (i : Nat) (b : List (κ × ν)), bs[i]? = some b →
      (∀ j b', j ≠ i → bs[j]? = some b' → NoMatch eqv k b') → Assoc.get eqv k b = Assoc.get eqv k bs.flatten := by
    intro bs
    induction bs with
    | nil => intro i b hb; simp at hb
    | cons b₀ r ih =>
      intro i b hb ho
      cases i with
      | zero =>
        simp only [List.getElem?_cons_zero, Option.some.injEq] at hb
        subst hb
        simp only [List.flatten_cons]
        rw [get_append_right]
        exact noMatch_flatten fun j b' hj => ho (j + 1) b' (Nat.succ_ne_zero _) (by simpa using hj)
      | succ i =>
        simp only [List.getElem?_cons_succ] at hb
        simp only [List.flatten_cons]
        rw [get_append_left _ _ (ho 0 b₀ (Nat.succ_ne_zero _).symm (by simp))]
        exact ih i b hb fun j b' hj hb' => ho (j + 1) b' (by omega) (by simpa using hb')
  exact key _ _ _ hb fun j b' hj hb' => noMatch_other L hI.placed hb' hj

/-- I2 -/
theorem put_refines (L : KeyLaws hash eqv) (policy : Nat → Nat → Bool) {m : HM κ ν} (hI : Inv hash m) (k : κ) (v : ν) :
    ∃ m', m.put hash eqv policy k v = some m' ∧ Inv hash m' ∧
      m'.buckets.flatten.Perm (Assoc.put eqv k v m.buckets.flatten) := by
  have hi : indexFor (hash k) m.cap < m.buckets.length := by rw [hI.len]; exact indexFor_lt _ hI.pos
  have hb : m.buckets[indexFor (hash k) m.cap]? = some m.buckets[indexFor (hash k) m.cap] := List.getElem?_eq_getElem hi
  have hother : ∀ j b', j ≠ indexFor (hash k) m.cap → m.buckets[j]? = some b' → NoMatch eqv k b' :=
    fun j b' hj hb' => noMatch_other L hI.placed hb' hj
  cases hr : bucketReplace eqv k v m.buckets[indexFor (hash k) m.cap] with
  | some b' =>
    obtain ⟨e, hm⟩ := bucketReplace_some hr
    subst e
    have hfl := flatten_set_put (k := k) (v := v) m.buckets _ _ hb (fun j b' hj => hother j b' (by omega)) hm
    refine ⟨{ m with buckets := m.buckets.set (indexFor (hash k) m.cap) (Assoc.put eqv k v m.buckets[indexFor (hash k) m.cap]) }, ?_, ?_, ?_⟩
    · simp only [HM.put, hb, hr]
    · refine ⟨by simp [hI.len], hI.pos, ?_, ?_⟩
      · apply placed_set hI.placed
        intro x hx
        have hk : x.1 ∈ (Assoc.put eqv k v m.buckets[indexFor (hash k) m.cap]).map Prod.fst := List.mem_map.mpr ⟨x, hx, rfl⟩
        rw [put_keys hm] at hk
        obtain ⟨y, hy, e⟩ := List.mem_map.mp hk
        rw [← e]; exact hI.placed _ _ hb y hy
      · simp only [hfl]
        have : (Assoc.put eqv k v m.buckets.flatten).length = ((Assoc.put eqv k v m.buckets.flatten).map Prod.fst).length := by simp
        rw [this, put_keys, List.length_map]; exact hI.total
        intro hno
        apply hm
        intro kv hkv
        exact hno kv (List.mem_flatten.mpr ⟨_, List.getElem_mem hi, hkv⟩)
    · simp only [hfl]; exact List.Perm.refl _
  | none =>
    have hno := bucketReplace_none hr
    have hall : NoMatch eqv k m.buckets.flatten := noMatch_flatten fun j b' hb' => by
      by_cases hj : j = indexFor (hash k) m.cap
      · subst hj; rw [hb] at hb'; simp only [Option.some.injEq] at hb'; subst hb'; exact hno
      · exact hother j b' hj hb'
    rw [put_nomatch hall]
    have hperm := flatten_set_append m.buckets _ _ (k, v) hb
    -- the state before `rehash`
    have hI1 : Inv hash { m with buckets := m.buckets.set (indexFor (hash k) m.cap) (m.buckets[indexFor (hash k) m.cap] ++ [(k, v)]), total := m.total + 1 } := by
      refine ⟨by simp [hI.len], hI.pos, ?_, ?_⟩
      · apply placed_set hI.placed
        intro x hx
        cases List.mem_append.mp hx with
        | inl h => exact hI.placed _ _ hb x h
        | inr h => rw [List.mem_singleton.mp h]
      · simp only [hperm.length_eq, List.length_append, List.length_singleton, hI.total]
    simp only [HM.put, hb, hr, HM.rehash]
    split
    · -- rehash
      obtain ⟨bs', h1, h2, h3, h4⟩ := reinsert_ok (hash := hash) (n := 2 * m.cap) (by have := hI.pos; omega)
        (m.buckets.set (indexFor (hash k) m.cap) (m.buckets[indexFor (hash k) m.cap] ++ [(k, v)])).flatten
        (List.replicate (2 * m.cap) []) (by simp) (placed_replicate _ _)
      refine ⟨⟨bs', 2 * m.cap, m.total + 1⟩, by simp only [h1], ⟨h2, by have := hI.pos; show 1 ≤ 2 * m.cap; omega, h3, ?_⟩, ?_⟩
      · simp only [h4.length_eq, flatten_replicate_nil, List.nil_append]; exact hI1.total
      · simp only [flatten_replicate_nil, List.nil_append] at h4
        exact h4.trans hperm
    · exact ⟨_, rfl, hI1, hperm⟩

theorem keyValues_refines {m : HM κ ν} (hI : Inv hash m) : m.keyValues = some m.buckets.flatten := by
  simp [HM.keyValues, hI.total]

/-- the simulation relation carried through a script -/
theorem run_refines (L : KeyLaws hash eqv) (policy : Nat → Nat → Bool) (ops : List (HMOp κ ν)) :
    ∀ (m : HM κ ν) (a : List (κ × ν)), Inv hash m → m.buckets.flatten.Perm a → NoDupK eqv a →
      HMOut.simL (HM.run hash eqv policy ops m) (Assoc.run eqv ops a) := by
  induction ops with
  | nil => intro m a _ _ _; exact trivial
  | cons op r ih =>
    intro m a hI hp hn
    have hnf : NoDupK eqv m.buckets.flatten := (noDupK_perm L hp).mpr hn
    cases op with
    | put k v =>
      obtain ⟨m', h1, h2, h3⟩ := put_refines L policy hI k v
      simp only [HM.run, h1, Assoc.run]
      exact ⟨trivial, ih m' _ h2 (h3.trans (put_perm L hp hnf)) (noDupK_put L hn)⟩
    | get k =>
      simp only [HM.run, get_refines L hI, Assoc.run]
      exact ⟨get_perm L hp hnf, ih m a hI hp hn⟩
    | kvs =>
      simp only [HM.run, keyValues_refines hI, Assoc.run]
      exact ⟨hp, ih m a hI hp hn⟩
    | keys =>
      simp only [HM.run, keyValues_refines hI, Assoc.run]
      exact ⟨hp.map _, ih m a hI hp hn⟩

/-- `EdgeIndex` scripts: the replies are exactly those of the association list -/
theorem ei_run_refines (L : KeyLaws hash eqv) (policy : Nat → Nat → Bool) (ops : List (EIOp κ)) :
    ∀ (m : HM κ EIInfo) (a : List (κ × EIInfo)), Inv hash m → m.buckets.flatten.Perm a → NoDupK eqv a →
      EI.run hash eqv policy ops m = Assoc.runEI eqv ops a := by
  induction ops with
  | nil => intro m a _ _ _; rfl
  | cons op r ih =>
    intro m a hI hp hn
    have hnf : NoDupK eqv m.buckets.flatten := (noDupK_perm L hp).mpr hn
    cases op with
    | add k len =>
      have hg : Assoc.get eqv k m.buckets.flatten = Assoc.get eqv k a := get_perm L hp hnf
      simp only [EI.run, get_refines L hI, Assoc.runEI, hg]
      cases hv : Assoc.get eqv k a with
      | none =>
        obtain ⟨m', h1, h2, h3⟩ := put_refines L policy hI k (⟨1, len⟩ : EIInfo)
        simp only [h1]
        congr 1
        exact ih m' _ h2 (h3.trans (put_perm L hp hnf)) (noDupK_put L hn)
      | some v =>
        obtain ⟨m', h1, h2, h3⟩ := put_refines L policy hI k (⟨v.count + 1, v.len + len⟩ : EIInfo)
        simp only [h1]
        congr 1
        exact ih m' _ h2 (h3.trans (put_perm L hp hnf)) (noDupK_put L hn)
    | putv k c l =>
      obtain ⟨m', h1, h2, h3⟩ := put_refines L policy hI k (⟨c, l⟩ : EIInfo)
      simp only [EI.run, h1, Assoc.runEI]
      congr 1
      exact ih m' _ h2 (h3.trans (put_perm L hp hnf)) (noDupK_put L hn)
    | value k =>
      simp only [EI.run, get_refines L hI, Assoc.runEI, get_perm L hp hnf]
      congr 1
      exact ih m a hI hp hn
    | edges mn mx =>
      simp only [EI.run, keyValues_refines hI, Assoc.runEI]
      congr 1
      · congr 1; exact (hp.filter _).length_eq
      · exact ih m a hI hp hn
    | unindexed =>
      simp only [EI.run, Assoc.runEI]
      congr 1
      exact ih m a hI hp hn

/-! ### counting with `AddEdgeCount` -/

theorem get_congr (L : KeyLaws hash eqv) {k k' : κ} (h : eqv k k' = true) (a : List (κ × ν)) :
    Assoc.get eqv k a = Assoc.get eqv k' a := by
  induction a with
  | nil => rfl
  | cons x r ih =>
    obtain ⟨k₁, v₁⟩ := x
    have : eqv k k₁ = eqv k' k₁ := by
      cases h1 : eqv k k₁ <;> cases h2 : eqv k' k₁ <;> try rfl
      · have := L.trans _ _ _ h h2; rw [h1] at this; exact absurd this (by decide)
      · have := L.trans _ _ _ (L.symm _ _ h) h1; rw [h2] at this; exact absurd this (by decide)
    simp only [Assoc.get, this, ih]

theorem get_put (L : KeyLaws hash eqv) (k k' : κ) (v : ν) (a : List (κ × ν)) :
    Assoc.get eqv k (Assoc.put eqv k' v a) = if eqv k k' then some v else Assoc.get eqv k a := by
  induction a with
  | nil => simp only [Assoc.put, Assoc.get]
  | cons x r ih =>
    obtain ⟨k₁, v₁⟩ := x
    cases h1 : eqv k' k₁ with
    | true =>
      simp only [Assoc.put, h1, if_true, Assoc.get]
      cases h2 : eqv k k' with
      | true => simp only [L.trans _ _ _ h2 h1, if_true]
      | false =>
        have : eqv k k₁ = false := by
          cases h3 : eqv k k₁ with
          | false => rfl
          | true => have := L.trans _ _ _ h3 (L.symm _ _ h1); rw [h2] at this; exact absurd this (by decide)
        simp only [this, Bool.false_eq_true, if_false]
    | false =>
      simp only [Assoc.put, h1, Bool.false_eq_true, if_false, Assoc.get, ih]
      cases h3 : eqv k k₁ with
      | false => simp only [Bool.false_eq_true, if_false]
      | true =>
        have : eqv k k' = false := by
          cases h2 : eqv k k' with
          | false => rfl
          | true => have := L.trans _ _ _ (L.symm _ _ h2) h3; rw [h1] at this; exact absurd this (by decide)
        simp only [this, Bool.false_eq_true, if_false, if_true]

/-- the association list after one `AddEdgeCount` -/
def addA (eqv : κ → κ → Bool) (a : List (κ × EIInfo)) (e : κ × Rat) : List (κ × EIInfo) :=
  match Assoc.get eqv e.1 a with
  | none => Assoc.put eqv e.1 ⟨1, e.2⟩ a
  | some v => Assoc.put eqv e.1 ⟨v.count + 1, v.len + e.2⟩ a

theorem runEI_adds (es : List (κ × Rat)) (rest : List (EIOp κ)) (a : List (κ × EIInfo)) :
    Assoc.runEI eqv (es.map (fun e => EIOp.add e.1 e.2) ++ rest) a =
      List.replicate es.length EIOut.unit ++ Assoc.runEI eqv rest (es.foldl (addA eqv) a) := by
  induction es generalizing a with
  | nil => rfl
  | cons e r ih =>
    simp only [List.map_cons, List.cons_append, Assoc.runEI, List.length_cons, List.replicate_succ, List.foldl_cons]
    congr 1
    rw [ih]
    rfl

/-- the record found for `k` after a list of `AddEdgeCount` calls -/
def merged (eqv : κ → κ → Bool) (k : κ) (es : List (κ × Rat)) : Option EIInfo → Option EIInfo
  | none => if countOf eqv k es = 0 then none else some ⟨(countOf eqv k es : Nat), lenOf eqv k es⟩
  | some v => some ⟨v.count + (countOf eqv k es : Nat), v.len + lenOf eqv k es⟩

theorem get_addAll (L : KeyLaws hash eqv) (k : κ) (es : List (κ × Rat)) (a : List (κ × EIInfo)) :
    Assoc.get eqv k (es.foldl (addA eqv) a) = merged eqv k es (Assoc.get eqv k a) := by
  induction es generalizing a with
  | nil =>
    simp only [List.foldl_nil, merged, countOf, lenOf, List.filter_nil, List.length_nil, List.map_nil, List.sum_nil]
    cases Assoc.get eqv k a with
    | none => rfl
    | some v => cases v; simp [Rat.add_zero]
  | cons e r ih =>
    obtain ⟨k', l⟩ := e
    rw [List.foldl_cons, ih]
    have hstep : Assoc.get eqv k (addA eqv a (k', l)) =
        if eqv k k' then (match Assoc.get eqv k a with | none => some ⟨1, l⟩ | some v => some ⟨v.count + 1, v.len + l⟩)
        else Assoc.get eqv k a := by
      unfold addA
      cases hk : eqv k k' with
      | true =>
        rw [← get_congr L hk a]
        cases Assoc.get eqv k a with
        | none => simp only [get_put L, hk, if_true]
        | some v => simp only [get_put L, hk, if_true]
      | false =>
        simp only
        cases Assoc.get eqv k' a with
        | none => simp only [get_put L, hk, Bool.false_eq_true, if_false]
        | some v => simp only [get_put L, hk, Bool.false_eq_true, if_false]
    rw [hstep]
    cases hk : eqv k k' with
    | false =>
      simp only [Bool.false_eq_true, if_false]
      have hc : countOf eqv k ((k', l) :: r) = countOf eqv k r := by simp [countOf, hk]
      have hl : lenOf eqv k ((k', l) :: r) = lenOf eqv k r := by simp [lenOf, hk]
      cases Assoc.get eqv k a <;> simp only [merged, hc, hl]
    | true =>
      simp only [if_true]
      have hc : countOf eqv k ((k', l) :: r) = countOf eqv k r + 1 := by simp [countOf, hk]
      have hl : lenOf eqv k ((k', l) :: r) = l + lenOf eqv k r := by simp [lenOf, hk]
      cases Assoc.get eqv k a with
      | none =>
        simp only [merged, hc, hl]
        have : ¬ (countOf eqv k r + 1 = 0) := by omega
        simp only [this, if_false, Option.some.injEq, EIInfo.mk.injEq]
        exact ⟨by rw [Int.natCast_add, Int.add_comm]; rfl, trivial⟩
      | some v =>
        simp only [merged, hc, hl, Option.some.injEq, EIInfo.mk.injEq]
        refine ⟨by omega, ?_⟩
        rw [Rat.add_assoc]

end

end Gotree.C04
