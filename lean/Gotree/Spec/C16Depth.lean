/-
  C16 — node depths ("indexes ready for use" includes what `ReinitIndexes`/`ComputeDepths` leave
  in `Node.Depth()`): the number of branches between a node and the closest tip — the closest tip
  BELOW the node in a rooted tree (root with two neighbours, `computeDepthRecurRooted`), the
  closest tip anywhere in an unrooted tree (`computeDepthUnRooted`).  Core Lean only.
-/
import Gotree.Spec.C16

namespace Gotree.C16
open Gotree

def minO : Option Nat → Option Nat → Option Nat
  | none, b => b
  | a, none => a
  | some a, some b => some (min a b)

mutual
/-- branches down to the closest tip below a non-root node (0 for a tip) -/
def downDepth : T → Nat
  | .node _ _ [] => 0
  | .node _ _ (k :: ks) => 1 + (downMin (k :: ks)).getD 0
/-- the least `downDepth` among children -/
def downMin : Kids → Option Nat
  | [] => none
  | (_, t) :: r => minO (some (downDepth t)) (downMin r)
end

/-- depth of the root as `computeDepthRecurRooted` sees it: 0 when it is a tip -/
def rootDown (t : T) : Nat := if t.kids.length == 1 then 0 else downDepth t

mutual
/-- depths in `Nodes()` order (pre-order), rooted rule: closest tip below -/
def depthsR : T → List Nat
  | .node d p ks => downDepth (.node d p ks) :: depthsRL ks
def depthsRL : Kids → List Nat
  | [] => []
  | (_, t) :: r => depthsR t ++ depthsRL r
end

/-- least `1 + downDepth` among the children other than number `i` -/
def sibMin (ks : Kids) (i : Nat) : Option Nat :=
  downMin (ks.eraseIdx i) |>.map (· + 1)

mutual
/-- depths in pre-order, unrooted rule; `up` = branches to the closest tip not below the node
    (`none`: there is none) -/
def depthsU (up : Option Nat) : T → List Nat
  | .node d p ks =>
    let own := (minO (some (downDepth (.node d p ks))) up).getD 0
    own :: depthsUL up ks ks 0
/-- children `rest` (starting at index `i`) of a node whose children are `all` -/
def depthsUL (up : Option Nat) (all : Kids) : Kids → Nat → List Nat
  | [], _ => []
  | (_, t) :: r, i => depthsU ((minO up (sibMin all i)).map (· + 1)) t ++ depthsUL up all r (i + 1)
end

/-- what `Node.Depth()` must answer for every node, in `Nodes()` order, after `ReinitIndexes` -/
def depthsOf (t : T) : List Nat :=
  if t.rooted then depthsR t
  else if t.kids.length == 1 then
    -- the root is a tip: depth 0, and it is the closest tip "above" its only child's subtree
    0 :: depthsUL (some 0) t.kids t.kids 0 |>.map id
  else depthsU none t

/-- oracle: the depths reported by the implementation (`-1` = not computed) are the specified ones -/
def depthsOK (t : T) (ds : List Int) : Bool := ds == (depthsOf t).map fun (x : Nat) => (x : Int)

end Gotree.C16
