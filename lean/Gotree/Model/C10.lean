/-
  C10 — model of `support.FBP` (support/fbp.go, sequential semantics: one worker),
  `support.MinTransferDist` / `minTransferDistRecur`, `support.TBE` and
  `NormalizeTransferDistancesByDepth` (support/tbe.go), with what they use of
  `tree.ReinitIndexes`, `tree.CompareTipIndexes`, `Edge.TopoDepth` and the
  per-tree `tree.EdgeIndex` (tree/edgeindex.go).

  Abstractions (DESIGN §3.4): a bitset is the set of tip *names* it holds (the
  tip index is the rank of the name in the sorted names, identical in two trees
  that passed `CompareTipIndexes`), the edge index is the list of the keys put
  into it and `Value` is a search with `bitset.EqualOrComplement` (the hash code
  is a function of the bipartition: C04).  `ones[edge.Id()]` is the value
  returned by the recursive call (`TBE` numbers the bootstrap branches itself).
  `minedges`, `speciestoadd/remove` (the `--moved-taxa` log) are not modelled:
  `TBE` is modelled with `computeavgtaxa = computeperbranchtaxa = false`, one
  thread.  Precondition of `TBE` made explicit: the caller has run
  `reftree.ReinitIndexes()` (cmd/booster.go does) and the branch ids of the
  reference are `0 … #branches-1` (what the Newick parser assigns), else
  `sumNbClosestBranches[e.Id()]` is an index error (outcome `panic`).
  Core Lean only (linked into the driver).
-/
import Gotree.Model.Core

namespace Gotree.C10
open Gotree

/-- outcome classes of the two functions -/
inductive Out (α : Type) where
  | ok (a : α)
  | err
  | panic
  | nan      -- `float64(0)/float64(0)`: FBP on an empty collection
  deriving Repr

/-- `Tree.ReinitIndexes`: `UpdateTipIndex` fails on a repeated tip name,
    `ClearBitSets` when there is no tip at all. -/
def reinitOk (t : T) : Bool := decide t.tipNames.Nodup && !t.tipNames.isEmpty

/-- `Tree.CompareTipIndexes` (tree/tree.go:755): both indexes non-empty, of the
    same size, and every name of `r` known to `b`. -/
def compareTips (r b : T) : Bool :=
  r.tipNames.length != 0 && b.tipNames.length != 0 &&
  r.tipNames.length == b.tipNames.length && r.tipNames.all b.tipNames.contains

/-- `len(t.Tips())` -/
def ntips (t : T) : Nat := t.tipNames.length

/-- `Edge.TopoDepth()` after `ComputeEdgeHashes`: `min(ntaxleft, ntaxright)`,
    `-1` (with an error the callers drop) when one side is empty. -/
def topoDepth (n : Nat) (s : SplitE) : Int :=
  let r := s.below.length
  let l := n - r
  if l == 0 || r == 0 then -1 else ((min l r : Nat) : Int)

/- ## the edge index -/

def subset (a b : List String) : Bool := a.all b.contains
def setEq (a b : List String) : Bool := subset a b && subset b a

/-- `bitset.EqualOrComplement` for two branches over the same indexed taxa `all` -/
def sameSplit (all a b : List String) : Bool :=
  setEq a b || setEq a (all.filter fun x => !b.contains x)

/-- `EdgeIndex.Value(e)`: some key defines the bipartition of `e` -/
def found (all : List String) (idx : List (List String)) (s : SplitE) : Bool :=
  idx.any (sameSplit all s.below)

/-- FBP puts the branches whose lower node is not a tip (fbp.go:73) -/
def fbpIndex (b : T) : List (List String) := (b.splits.filter fun s => !s.tip).map (·.below)

/-- TBE puts every branch (tbe.go:223) -/
def tbeIndex (b : T) : List (List String) := b.splits.map (·.below)

/- ## FBP -/

/-- one bootstrap tree: `foundEdges <- i` for every reference branch found -/
def fbpCount (all : List String) (idx : List (List String)) (splits : List SplitE) (c : List Nat) : List Nat :=
  List.zipWith (fun s k => if found all idx s then k + 1 else k) splits c

/-- the worker loop: (foundBoot, ntrees, error?) -/
def fbpLoop (r : T) : List T → List Nat → Nat → List Nat × Nat × Bool
  | [], c, n => (c, n, false)
  | b :: bs, c, n =>
    if !reinitOk b then (c, n, true)
    else if !compareTips r b then (c, n, true)
    else fbpLoop r bs (fbpCount r.tipNames (fbpIndex b) r.splits c) (n + 1)

/-- which branches receive a support (fbp.go:104, since 227a97a) -/
def supported (n : Nat) (s : SplitE) : Bool := !s.tip && decide (topoDepth n s > 1)

/-- `support.FBP`: the new support of every branch in `Edges()` order -/
def fbp (r : T) (bs : List T) : Out (List Rat) :=
  if !reinitOk r then .err else
  match fbpLoop r bs (r.splits.map fun _ => 0) 0 with
  | (_, _, true) => .err
  | (c, n, false) =>
    if n == 0 && r.splits.any (supported (ntips r)) then .nan else
    .ok (List.zipWith (fun (s : SplitE) (k : Nat) => if supported (ntips r) s then ((k : Nat) : Rat) / ((n : Nat) : Rat) else s.e.sup) r.splits c)

/- ## MinTransferDist -/

/-- `dist` and `stop` of minTransferDistRecur -/
structure MS where
  dist : Int
  stop : Bool
  deriving Repr, DecidableEq

/-- Is the tip on the light side of the reference branch
    (`refEdge.TipPresent(tipIndex)`, flipped when `NumTipsRight() > ntips/2`). -/
def lightOf (n : Nat) (s : SplitE) (x : String) : Bool :=
  let present := s.below.contains x
  if s.below.length > n / 2 then !present else present

/-- the distance of one bootstrap branch with `r` tips below it, `ones` of them
    on the heavy side (tbe.go:124-130) -/
def edgeDist (p n : Int) (r ones : Nat) : Int :=
  let zero : Int := (r : Int) - (ones : Int)
  let d : Int := p - zero + (ones : Int)
  if d > n / 2 then n - d else d

/-- the block `if curEdge != nil { … }` (tbe.go:121-142) -/
def visitEdge (p n : Int) (absent : Bool) (r ones : Nat) (st : MS) : MS :=
  let d := edgeDist p n r ones
  if d ≤ st.dist then ⟨d, st.stop || (d == 1 && absent)⟩ else st

/- `minTransferDistRecur(cur, curEdge ≠ nil)`: returns `ones[curEdge.Id()]` and
   the state.  A node below the root is a `Tip()` iff it has no child. -/
mutual
def mtdNode (light : String → Bool) (p n : Int) (absent : Bool) : T → MS → Nat × MS
  | .node d _ [], st =>
    if st.stop then (0, st) else
    let ones := if light d.name then 0 else 1
    (ones, visitEdge p n absent 1 ones st)
  | .node _ _ (k :: ks), st =>
    if st.stop then (0, st) else
    let (ones, st') := mtdKids light p n absent (k :: ks) st
    if st'.stop then (ones, st')
    else (ones, visitEdge p n absent (leavesL (k :: ks)).length ones st')
def mtdKids (light : String → Bool) (p n : Int) (absent : Bool) : Kids → MS → Nat × MS
  | [], st => (0, st)
  | (_, t) :: rest, st =>
    let (o₁, st₁) := mtdNode light p n absent t st
    if st₁.stop then (o₁, st₁) else
    let (o₂, st₂) := mtdKids light p n absent rest st₁
    (o₁ + o₂, st₂)
end

/-- `MinTransferDist(refedge, reftree, boottree, ntips, bootedges, absent)`:
    the distance only.  A bootstrap root with a single neighbour is a `Tip()`:
    the recursion stops there at once. -/
def minTransferDist (light : String → Bool) (p n : Int) (absent : Bool) (b : T) : Int :=
  if p == 1 then p - 1
  else if b.kids.length == 1 then p - 1
  else (mtdKids light p n absent b.kids ⟨p - 1, false⟩).2.dist

/- ## TBE -/

/-- `Edge.IncrementSupport` -/
def incr (sup x : Rat) : Rat := (if sup == NIL then 0 else sup) + x

/-- what one bootstrap tree adds to one reference branch (tbe.go:248-272) -/
def tbeEdge (r b : T) (s : SplitE) (sup : Rat) : Rat :=
  let n := ntips r
  let p := topoDepth n s
  if p > 1 then
    if found r.tipNames (tbeIndex b) s then incr sup 0
    else incr sup ((minTransferDist (lightOf n s) p n true b : Int) : Rat)
  else sup

/-- `sumNbClosestBranches[e.Id()] += 1.0` is an index error -/
def idPanic (r b : T) : Bool :=
  r.splits.any fun s =>
    decide (topoDepth (ntips r) s > 1) && found r.tipNames (tbeIndex b) s &&
    !(decide (0 ≤ s.e.id) && decide (s.e.id < (r.splits.length : Int)))

/-- the loop over the bootstrap trees: (raw supports, nboot) -/
def tbeLoop (r : T) : List T → List Rat → Nat → Out (List Rat × Nat)
  | [], sups, nboot => .ok (sups, nboot)
  | b :: bs, sups, nboot =>
    if !reinitOk b then .err
    else if !compareTips r b then .err
    else if idPanic r b then .panic
    else tbeLoop r bs (List.zipWith (tbeEdge r b) r.splits sups) (nboot + 1)

/-- `NormalizeTransferDistancesByDepth` for one branch -/
def normalize (n nboot : Nat) (s : SplitE) (sup : Rat) : Rat :=
  if sup != NIL then 1 - (sup / (nboot : Rat)) / ((topoDepth n s - 1 : Int) : Rat) else sup

/-- `refTree.ReinitIndexes()` (cmd/booster.go:81) then `support.TBE` -/
def tbe (r : T) (bs : List T) : Out (List Rat) :=
  if !reinitOk r then .err else
  match tbeLoop r bs (r.splits.map fun _ => NIL) 0 with
  | .ok (sups, nboot) => .ok (List.zipWith (normalize (ntips r) nboot) r.splits sups)
  | .err => .err
  | .panic => .panic
  | .nan => .nan

/- ## the repaired defects, as variants (AGENTS.md "State of /repo") -/

/-- F14 (before ba522d8): `if inerr = …; err != nil` never fires — the bootstrap
    tree is used whatever its taxa. -/
def fbpLoopPinned14 (r : T) : List T → List Nat → Nat → List Nat × Nat × Bool
  | [], c, n => (c, n, false)
  | b :: bs, c, n => fbpLoopPinned14 r bs (fbpCount r.tipNames (fbpIndex b) r.splits c) (n + 1)

def fbpPinned14 (r : T) (bs : List T) : Out (List Rat) :=
  if !reinitOk r then .err else
  match fbpLoopPinned14 r bs (r.splits.map fun _ => 0) 0 with
  | (_, _, true) => .err
  | (c, n, false) =>
    if n == 0 && r.splits.any (supported (ntips r)) then .nan else
    .ok (List.zipWith (fun (s : SplitE) (k : Nat) => if supported (ntips r) s then ((k : Nat) : Rat) / ((n : Nat) : Rat) else s.e.sup) r.splits c)

/-- F35 (before 227a97a): every branch whose lower node is not a tip gets a support -/
def fbpPinned35 (r : T) (bs : List T) : Out (List Rat) :=
  if !reinitOk r then .err else
  match fbpLoop r bs (r.splits.map fun _ => 0) 0 with
  | (_, _, true) => .err
  | (c, n, false) =>
    if n == 0 && r.splits.any (fun s => !s.tip) then .nan else
    .ok (List.zipWith (fun (s : SplitE) (k : Nat) => if !s.tip then ((k : Nat) : Rat) / ((n : Nat) : Rat) else s.e.sup) r.splits c)

/-- F15 (before 46b6f1e): the mismatch is logged, the loop goes on, and the
    returned `err` is whatever the *last* tree assigned. -/
def tbeLoopPinned15 (r : T) : List T → List Rat → Nat → Bool → List Rat × Nat × Bool
  | [], sups, nboot, e => (sups, nboot, e)
  | b :: bs, sups, nboot, _ =>
    tbeLoopPinned15 r bs (List.zipWith (tbeEdge r b) r.splits sups) (nboot + 1) (!compareTips r b)

def tbePinned15 (r : T) (bs : List T) : Out (List Rat) :=
  if !reinitOk r then .err else
  match tbeLoopPinned15 r bs (r.splits.map fun _ => NIL) 0 false with
  | (_, _, true) => .err
  | (sups, nboot, false) => .ok (List.zipWith (normalize (ntips r) nboot) r.splits sups)

end Gotree.C10
