/-
  C12 — model of `acr/parsimony.go` (ParsimonyAcr, parsimonyUPPASS, computeParsimony,
  parsimonyDOWNPASS, parsimonyDELTRAN, parsimonyACCTRAN, assignStatesToTree,
  buildInternalNamesToStatesMap, the alphabet construction) and of
  `asr/parsimony.go` (the same passes per alignment site, IUPAC sets at tips),
  without the random-resolution option.

  Go keeps, per node id, a slice of `len(alphabet)` float64 counts that are
  mutated in place.  Here a slice is `Vec = List Nat` (the counts are small
  non-negative integers), every slice the code allocates is built by `tab k`,
  and the mutation becomes a returned value: the up-pass state of a node is
  recomputed from the subtree (`upS`) where Go reads `states[child.Id()]`.
-/
import Gotree.Model.Core

namespace Gotree.C12
open Gotree

abbrev Vec := List Nat

/-- `v[i]` of a Go slice (0 outside: never read by the code, total here) -/
def Vec.at (v : Vec) (i : Nat) : Nat := v.getD i 0

/-- `make([]float64, k)` filled by `h` -/
def tab (k : Nat) (h : Nat → Nat) : Vec := (List.range k).map h

def vzero (k : Nat) : Vec := tab k fun _ => 0

/-- `for k, c := range b { a[k] += c }` -/
def vadd (k : Nat) (a b : Vec) : Vec := tab k fun i => a.at i + b.at i

/-- `max := 0.0; for _, c := range v { if c > max { max = c } }` over the first `n` entries -/
def maxTo (h : Nat → Nat) : Nat → Nat
  | 0 => 0
  | n + 1 => if h n > maxTo h n then h n else maxTo h n

/-- the `maxState`/`max` loop of `parsimonyUPPASS`: first index holding the largest count -/
def argTo (h : Nat → Nat) : Nat → Nat × Nat
  | 0 => (0, 0)
  | n + 1 => if h n > (argTo h n).2 then (n, h n) else argTo h n

def maxState (k : Nat) (v : Vec) : Nat := (argTo v.at k).1

/-- `computeParsimony(neighborStates, currentStates, nchild)`: 1 on the maxima, 0 elsewhere -/
def cp (k : Nat) (v : Vec) : Vec := tab k fun i => if v.at i = maxTo v.at k then 1 else 0

/-- the intersection step shared by DELTRAN and ACCTRAN (`state[k] > 1`, `nullIntersection`) -/
def inter (k : Nat) (s p : Vec) : Vec :=
  let st := vadd k s p
  if (List.range k).any (fun i => st.at i > 1) then tab k fun i => if st.at i > 1 then 1 else 0
  else s

/-- annotated copy of the tree: one state slice per node -/
inductive A where
  | node (s : Vec) (kids : List A)
  deriving Repr, Inhabited

def A.s : A → Vec | .node s _ => s
def A.kids : A → List A | .node _ k => k

mutual
def A.flat : A → List Vec
  | .node s k => s :: A.flatL k
def A.flatL : List A → List Vec
  | [] => []
  | a :: r => a.flat ++ A.flatL r
end

mutual
def A.get : A → List Nat → Option Vec
  | .node s _, [] => some s
  | .node _ k, i :: p => A.getL k i p
def A.getL : List A → Nat → List Nat → Option Vec
  | [], _, _ => none
  | a :: _, 0, p => a.get p
  | _ :: r, i + 1, p => A.getL r i p
end

section passes
variable (k : Nat) (tv : String → Vec)

/- ## UPPASS -/
mutual
/-- `states[cur.Id()]` after the up-pass -/
def upS : T → Vec
  | .node d _ [] => tv d.name
  | .node _ _ (c :: cs) => cp k (sumL (c :: cs))
/-- the accumulation `states[cur][k] += states[child][k]` over the children -/
def sumL : Kids → Vec
  | [] => vzero k
  | (_, c) :: r => vadd k (upS c) (sumL r)
end

/-- children whose up-pass slice has 0 at `ms` (`states[child.Id()][maxState] == 0`) -/
def miss (ms : Nat) : Kids → Nat
  | [] => 0
  | (_, c) :: r => (if (upS k tv c).at ms = 0 then 1 else 0) + miss ms r

mutual
/-- `nsteps` returned by `parsimonyUPPASS(cur, prev, …)` -/
def upN : T → Nat
  | .node _ _ [] => 0
  | .node _ _ (c :: cs) => upNL (c :: cs) + miss k tv (maxState k (sumL k tv (c :: cs))) (c :: cs)
def upNL : Kids → Nat
  | [] => 0
  | (_, c) :: r => upN c + upNL r
end

mutual
/-- all up-pass slices (what ALGO_NONE writes) -/
def upA : T → A
  | .node d p ks => .node (upS k tv (.node d p ks)) (upAL ks)
def upAL : Kids → List A
  | [] => []
  | (_, c) :: r => upA c :: upAL r
end

/- ## DOWNPASS -/
mutual
/-- `parsimonyDOWNPASS(cur, prev, …)`; `us = none` at the root, otherwise `upstates[cur.Id()]` -/
def down (us : Option Vec) : T → A
  | .node d _ [] => .node (tv d.name) []
  | .node _ _ (c :: cs) =>
    let s := match us with
      | none => cp k (sumL k tv (c :: cs))
      | some u => cp k (vadd k u (sumL k tv (c :: cs)))
    .node s (downL us (vzero k) (c :: cs))
/-- the loop over the children; `pre` = sum of the up-pass slices of the children already passed -/
def downL (us : Option Vec) (pre : Vec) : Kids → List A
  | [] => []
  | (_, c) :: r =>
    let others := vadd k pre (sumL k tv r)
    let st := match us with
      | none => others
      | some u => vadd k u others
    down (some (cp k st)) c :: downL us (vadd k pre (upS k tv c)) r
end

/- ## DELTRAN (on the result of DOWNPASS), ACCTRAN (on the result of UPPASS) -/
mutual
def deltran (p : Option Vec) : A → A
  | .node s [] => .node s []
  | .node s (c :: cs) =>
    let s' := match p with
      | none => s
      | some pv => inter k s pv
    .node s' (deltranL (some s') (c :: cs))
def deltranL (p : Option Vec) : List A → List A
  | [] => []
  | a :: r => deltran p a :: deltranL p r
end

mutual
/-- ACCTRAN.  Since fix a20daad (`if child != prev && !child.Tip()`) a tip child is no longer intersected with
    its parent: a node without children keeps its slice.  (acr/parsimony.go still intersects tip children; a tip has
    one state there, so the set is the same — `inter_single_tip`.) -/
def acctran (p : Option Vec) : A → A
  | .node s [] => .node s []
  | .node s (c :: cs) =>
    let s' := match p with
      | none => s
      | some pv => inter k s pv
    .node s' (acctranL (some s') (c :: cs))
def acctranL (p : Option Vec) : List A → List A
  | [] => []
  | a :: r => acctran p a :: acctranL p r
end

/- the pinned behaviour of ASR (before fix a20daad): tip children are intersected with their parent too, so an
   IUPAC-ambiguous tip is NARROWED (finding AcctranAmbiguousTipNarrowed, repaired) -/
mutual
def acctranPinned (p : Option Vec) : A → A
  | .node s ks =>
    let s' := match p with
      | none => s
      | some pv => inter k s pv
    .node s' (acctranPinnedL (some s') ks)
def acctranPinnedL (p : Option Vec) : List A → List A
  | [] => []
  | a :: r => acctranPinned p a :: acctranPinnedL p r
end

end passes

inductive Algo | deltran | acctran | downpass | none
  deriving DecidableEq, Repr

/-- the passes selected by `algo`, on a tree whose root is not a Go tip -/
def runAlgo (k : Nat) (tv : String → Vec) (algo : Algo) (t : T) : A :=
  match algo with
  | .downpass => down k tv none t
  | .deltran => deltran k none (down k tv none t)
  | .acctran => acctran k none (upA k tv t)
  | .none => upA k tv t

/- ## a tree rooted at a tip -/

/-- Repaired finding ParsimonyRootIsTip (fix 2ef38ab): for Go a root with ONE neighbour is `Tip()`; `parsimonyUPPASS`
    treated it as a leaf and never descended (steps 0, every other node left without state).  Since the fix
    `ParsimonyAcr`/`ParsimonyAsr` start the passes from the root's neighbour.  `true` = the code as it is now;
    the pinned behaviour is `runCharRootTipPinned` (witness theorem `root_is_tip_pinned_fails`). -/
def rootTipFixedInRepo : Bool := true

/-- the root has one neighbour, and that neighbour is not itself a tip -/
def tipRooted (t : T) : Bool :=
  match t.kids with
  | [(_, c)] => !c.kids.isEmpty
  | _ => false

/-- the same tree seen from the root's neighbour: the old root is its last child, a leaf -/
def rootAtNeighbour (t : T) : T :=
  match t.kids with
  | [(e, .node d _ cks)] => .node d 0 (cks ++ [(e, .node t.d 0 [])])
  | _ => t

/-- pre-order of `rootAtNeighbour t` (neighbour, its subtrees, old root) back to the pre-order of `t` -/
def backOrder {α : Type} (l : List α) : List α :=
  match l.getLast? with
  | some x => x :: l.dropLast
  | none => l

/-- the pinned behaviour on a tree rooted at a tip: the root is a leaf for `parsimonyUPPASS`, nothing else is visited -/
def runCharRootTipPinned (k : Nat) (tv : String → Vec) (t : T) : Nat × List Vec :=
  (0, tv t.name :: List.replicate (t.size - 1) (vzero k))

/-- what the passes compute when they start from the root's neighbour (proposed fix) -/
def runCharAtNeighbour (k : Nat) (tv : String → Vec) (algo : Algo) (t : T) : Nat × List Vec :=
  (upN k tv (rootAtNeighbour t), backOrder (runAlgo k tv algo (rootAtNeighbour t)).flat)

/-- steps and final slices (pre-order) of one character.  A root with exactly one
    neighbour is `Tip()` for Go: it gets its own slice, nothing else is visited (pinned behaviour);
    after the fix the passes run from the neighbour. -/
def runChar (k : Nat) (tv : String → Vec) (algo : Algo) (t : T) : Nat × List Vec :=
  if t.kids.length == 1 then
    if rootTipFixedInRepo && tipRooted t then runCharAtNeighbour k tv algo t
    else runCharRootTipPinned k tv t
  else (upN k tv t, (runAlgo k tv algo t).flat)

/- ## ACR: alphabet, tip slices, output -/

def insertSorted (s : String) : List String → List String
  | [] => [s]
  | x :: r => if s < x then s :: x :: r else if s = x then x :: r else x :: insertSorted s r

/-- `sort.Strings` of the distinct values of the tip/state map -/
def alphabet (vals : List String) : List String := vals.foldl (fun acc s => insertSorted s acc) []

def lookup (m : List (String × String)) (n : String) : Option String :=
  (m.find? (·.1 == n)).map (·.2)

def indexOf (a : List String) (s : String) : Nat := a.findIdx (· == s)

/-- the slice the up-pass writes at a tip -/
def acrTipVec (m : List (String × String)) (alpha : List String) (n : String) : Vec :=
  match lookup m n with
  | some st => tab alpha.length fun i => if i = indexOf alpha st then 1 else 0
  | none => vzero alpha.length

/-- names of the states with a positive count; `*` when there is none -/
def stateNames (alpha : List String) (v : Vec) : List String :=
  let l := (List.range alpha.length).filterMap fun i => if v.at i > 0 then alpha[i]? else none
  if l.isEmpty then ["*"] else l

/- Go's `Tip()` for every node in pre-order -/
mutual
def tipFlags : T → List Bool
  | .node _ _ ks => ks.isEmpty :: tipFlagsL ks
def tipFlagsL : Kids → List Bool
  | [] => []
  | (_, c) :: r => tipFlags c ++ tipFlagsL r
end

def goTipFlags (t : T) : List Bool := (t.kids.length == 1) :: tipFlagsL t.kids

/-- `outmap[id] = …`: insert or overwrite, keys kept sorted -/
def insertKV {β : Type} (kv : String × β) : List (String × β) → List (String × β)
  | [] => [kv]
  | x :: r => if kv.1 < x.1 then kv :: x :: r else if kv.1 = x.1 then kv :: r else x :: insertKV kv r

structure AcrOut where
  steps : Nat
  /-- per node, pre-order: the state names written as the node comment -/
  sets : List (List String)
  /-- `buildInternalNamesToStatesMap`, sorted by key (later nodes overwrite earlier ones) -/
  map : List (String × List String)
  deriving Repr

/-- the names the up-pass looks up: every tip; but when the root itself is a Go tip (one
    neighbour) the recursion stops there and only the root's name is looked up -/
def lookedUp (t : T) : List String :=
  if t.kids.length == 1 && !(rootTipFixedInRepo && tipRooted t) then [t.name] else t.tipNames

/-- `ParsimonyAcr(t, tipCharacters, algo, false)`; `none` = it returns an error -/
def acr (t : T) (m : List (String × String)) (algo : Algo) : Option AcrOut :=
  if !((lookedUp t).all fun n => (lookup m n).isSome) then none else
  let alpha := alphabet (m.map (·.2))
  let k := alpha.length
  let (steps, vs) := runChar k (acrTipVec m alpha) algo t
  let sets := vs.map (stateNames alpha)
  let names := t.nodeNames
  let flags := goTipFlags t
  let entries := (List.range names.length).filterMap fun i =>
    if flags.getD i false then none
    else some ((if names.getD i "" != "" then names.getD i "" else toString i), sets.getD i [])
  let mp := entries.foldl (fun acc kv => insertKV kv acc) []
  some ⟨steps, sets, mp⟩

/- ## ASR -/

/-- `align.IupacCode` restricted to the alphabet `A C G T - *` (indices 0..5) -/
def iupac (c : Char) : List Nat :=
  match c with
  | 'A' => [0] | 'C' => [1] | 'G' => [2] | 'T' => [3]
  | 'R' => [0, 2] | 'Y' => [1, 3] | 'S' => [2, 1] | 'W' => [0, 3] | 'K' => [2, 3] | 'M' => [0, 1]
  | 'B' => [1, 2, 3] | 'D' => [0, 2, 3] | 'H' => [0, 1, 3] | 'V' => [0, 1, 2]
  | 'N' => [0, 1, 2, 3] | '-' => [4]
  | _ => []

def asrAlphabet : List String := ["A", "C", "G", "T", "-", "*"]

/-- what an alignment character is MEANT to allow: case-insensitive, `U` is `T`, and a character
    that is not an IUPAC code (`?`, `X`, `.`, `O` …: "unknown") allows any nucleotide -/
def iupacIntended (c : Char) : List Nat :=
  let u := c.toUpper
  if u == 'U' then [3]
  else match iupac u with
    | [] => [0, 1, 2, 3]
    | l => l

/-- Open finding AsrNonIupacCharEmptySet: `asr/parsimony.go:88` reads `align.IupacCode[c]` as is, so a
    character without entry gets the EMPTY set.  `false` = the code as it is now; set to `true` when a
    `fix:` commit makes the code upper-case / map unknown characters to `N` (proposed diff in the report). -/
def asrNonIupacFixedInRepo : Bool := false

/-- the states the up-pass of `asr` gives a tip for character `c` -/
def asrCodes (c : Char) : List Nat := if asrNonIupacFixedInRepo then iupacIntended c else iupac c

def asrTipVec (m : List (String × String)) (j : Nat) (n : String) : Vec :=
  match lookup m n with
  | some sq => let codes := asrCodes (sq.toList.getD j ' '); tab 6 fun i => if codes.contains i then 1 else 0
  | none => vzero 6

structure AsrOut where
  /-- one entry per site, plus the trailing 0 of `make([]int, a.Length()+1)` -/
  steps : List Nat
  /-- per site, per node (pre-order): the characters written -/
  sets : List (List (List String))
  deriving Repr

/-- `ParsimonyAsr(t, a, algo, false)` for a nucleotide alignment given as (name, sequence)
    pairs of equal length `len`; `none` = error -/
def asr (t : T) (m : List (String × String)) (len : Nat) (algo : Algo) : Option AsrOut :=
  if algo == .none then none else
  if !((lookedUp t).all fun n => (lookup m n).isSome) then none else
  let per := (List.range len).map fun j => runChar 6 (asrTipVec m j) algo t
  some ⟨per.map (·.1) ++ [0], per.map fun r => r.2.map (stateNames asrAlphabet)⟩

/- ## ASR on protein alignments (`a.Alphabet() != align.NUCLEOTIDS`) -/

/-- `align.stdaminoacid`, then `-` and `*` (what `ParsimonyAsr` appends) -/
def aaChars : List Char :=
  ['A', 'R', 'N', 'D', 'C', 'Q', 'E', 'G', 'H', 'I', 'L', 'K', 'M', 'F', 'P', 'S', 'T', 'W', 'Y', 'V', '-', '*']

def aaAlphabet : List String := aaChars.map String.singleton

/-- the states the up-pass gives a tip of a protein alignment: `X` (`align.ALL_AMINO`) is expanded to
    the 20 amino acids (`-` and `*` not included); any other character stands for itself when it is in
    the alphabet and is ignored (warning "does not exist in the alphabet") otherwise -/
def aaCodes (c : Char) : List Nat :=
  if c == 'X' then List.range 20
  else if aaChars.contains c then [aaChars.findIdx (· == c)] else []

def aaTipVec (m : List (String × String)) (j : Nat) (n : String) : Vec :=
  match lookup m n with
  | some sq => let codes := aaCodes (sq.toList.getD j ' '); tab 22 fun i => if codes.contains i then 1 else 0
  | none => vzero 22

/-- `ParsimonyAsr(t, a, algo, false)` for a protein alignment -/
def asrProt (t : T) (m : List (String × String)) (len : Nat) (algo : Algo) : Option AsrOut :=
  if algo == .none then none else
  if !((lookedUp t).all fun n => (lookup m n).isSome) then none else
  let per := (List.range len).map fun j => runChar 22 (aaTipVec m j) algo t
  some ⟨per.map (·.1) ++ [0], per.map fun r => r.2.map (stateNames aaAlphabet)⟩

end Gotree.C12
