/-
  C19 — lemmas about the `gotree rename` option model (core Lean only).
-/
import Gotree.Model.C19Rename

namespace Gotree.C19.Rename

theorem lookup_none_of_not_changed (cl : CmdLine) (f : String) (h : changed cl f = false) :
    cl.reverse.lookup f = none := by
  unfold changed at h
  rw [List.lookup_eq_none_iff]
  intro p hp
  have := List.all_eq_true.mp (by simpa [List.any_eq_false] using h : cl.all (fun x => !(x.1 == f)) = true) p (by simpa using hp)
  simpa [bne, BEq.comm] using this

/-- an omitted option reads its registered default -/
theorem value_of_not_changed (cl : CmdLine) (f : String) (h : changed cl f = false) :
    value cl f = defaultOf f := by
  unfold value; rw [lookup_none_of_not_changed cl f h]; rfl

/-- spelling out the default of an omitted option changes the value of no option -/
theorem value_append_default (cl : CmdLine) (f g : String) (h : changed cl f = false) :
    value (cl ++ [(f, defaultOf f)]) g = value cl g := by
  unfold value
  simp only [List.reverse_append, List.reverse_cons, List.reverse_nil, List.nil_append, List.singleton_append,
    List.lookup_cons]
  by_cases hg : g = f
  · subst hg
    simp [lookup_none_of_not_changed cl g h]
  · have : (g == f) = false := by simpa using hg
    simp [this]

theorem changed_append (cl : CmdLine) (f g x : String) :
    changed (cl ++ [(f, x)]) g = (changed cl g || f == g) := by
  unfold changed; simp

end Gotree.C19.Rename
