/-
  C19 — model of option registration (cmd/*.go `init()` functions, spf13/pflag `XxxVarP`).

  Go: every `init()` of package `cmd` calls
      `someCmd.[Persistent]Flags().TypeVarP(&variable, name, short, default, usage)`
  which (pflag `newXxxValue(default, &variable)`) stores `default` in `variable` and records
  `DefValue = default.String()` in the flag — the text `--help` prints as "(default …)".
  The `init()` functions run one after the other (file-name order, an accident of the build),
  so a variable bound by several flags ends up holding the default of whichever registration
  ran last, while every flag keeps advertising its own `DefValue`.

  Model: a registration `Reg` is (command path, flag, …, variable id, default, …); running a list
  of registrations stores each default in its variable, in list order (`run`, the mutation of the
  package-level variable becomes a returned store); `finalValue regs v` reads variable `v` after
  all registrations ran: the default of the last registration of `v` (`none` = never registered).
  The row type is the one the regenerated table (Gen/C19Flags.lean) uses, so the theorems are
  about the data dumped from the live command tree; `current` (what `Value.String()` answered
  before any parsing) is carried along for the per-run decisions and the oracle and is not read by
  `run`.
-/
namespace Gotree.C19

/-- one flag of one command, as dumped by harness/c19/flagdump.go -/
structure Reg where
  path : String        -- command path, "gotree compute consensus"
  flag : String        -- long name
  short : String       -- shorthand or ""
  persistent : Bool
  var : Nat            -- identity of the bound variable (address inside the pflag.Value, renumbered)
  typ : String         -- pflag type name
  default : String     -- pflag.Flag.DefValue: what the help text shows
  current : String     -- Value.String() before any parsing: what the command uses when the option is omitted
  deriving Repr, BEq, DecidableEq

abbrev Row := Reg

/-- the package-level variables: association list, latest write first -/
abbrev Store := List (Nat × String)

/-- `TypeVarP(&v, …, default, …)`: `*p = default` -/
def register (s : Store) (r : Reg) : Store := (r.var, r.default) :: s

/-- all `init()` registrations, in list order -/
def run : List Reg → Store → Store
  | [], s => s
  | r :: rs, s => run rs (register s r)

/-- value of variable `v` after every registration ran -/
def finalValue (regs : List Reg) (v : Nat) : Option String := (run regs []).lookup v

/-- no two registrations bind the same variable with different defaults -/
def noConflict (regs : List Reg) : Bool :=
  regs.all fun r => regs.all fun s => r.var != s.var || r.default == s.default

/-- the pairs of rows that share a variable and disagree on its default (each unordered pair once) -/
def conflictsAux : List Reg → List (Reg × Reg)
  | [] => []
  | r :: rs => (rs.filter fun s => r.var == s.var && r.default != s.default).map (fun s => (r, s)) ++ conflictsAux rs

def conflicts (regs : List Reg) : List (Reg × Reg) := conflictsAux regs

/-- rows whose current value is not the documented default -/
def stale (regs : List Reg) : List Reg := regs.filter fun r => r.current != r.default

/-- what the model predicts every row reads when its option is omitted -/
def predicted (regs : List Reg) (r : Reg) : Option String := finalValue regs r.var

/-- the table without the registrations of command `c` (the command is not linked in) -/
def without (regs : List Reg) (c : String) : List Reg := regs.filter fun r => r.path != c

/-! ### parsing a command line (spf13/pflag `FlagSet.Set` → `Value.Set`)

  `--flag=value` makes pflag call `flag.Value.Set(value)`, which parses the text and writes the
  result through the pointer the flag was registered with; options are processed left to right,
  an option that is not on the command line touches nothing.  Values are kept as the text
  `Value.String()` prints (the table's `default` / `current` are such texts); that
  `Set(String(x))` stores `x` again for pflag's own value types is the convention the harness
  checks on every flag (`C19.roundtrip`). -/

/-- `--flag=value` -/
def setFlag (s : Store) (r : Reg) (value : String) : Store := (r.var, value) :: s

/-- the options given on the command line, left to right -/
def parse (s : Store) : List (Reg × String) → Store
  | [] => s
  | (r, v) :: rest => parse (setFlag s r v) rest

/-- the variables as the command body (`Run`) finds them: every `init()` ran, then the command
    line was parsed -/
def atRun (regs : List Reg) (given : List (Reg × String)) : Store := parse (run regs []) given

/-- what the command reads from variable `v` -/
def reads (s : Store) (v : Nat) : Option String := s.lookup v

/-- does passing the documented default of `r` explicitly (before the other options) leave every
    variable of `vars` as it is when the option is omitted? -/
def explicitSame (regs : List Reg) (r : Reg) (given : List (Reg × String)) (vars : List Nat) : Bool :=
  vars.all fun v => reads (atRun regs ((r, r.default) :: given)) v == reads (atRun regs given) v

/-! ### which flag a name means for a command, and which one its help prints (spf13/cobra 1.5.0)

  `mergePersistentFlags`: the flag set a command parses is its own flags, then its own persistent
  flags, then the persistent flags of its ancestors, nearest first; `AddFlagSet` skips a name that
  is already present — so the command's own definition of a name wins (`effective`).
  `LocalFlags` (command.go:1507) leaves out every flag whose *name* also exists among the
  ancestors' persistent flags, and `InheritedFlags` prints the ancestors' flag of that name — so
  for such a name the help of the command shows the nearest ancestor's line (`shown`). -/

/-- `a` is a proper ancestor of command `p` ("gotree" of "gotree download itol") -/
def isAncestorPath (a p : String) : Bool := a != p && (p ++ " ").startsWith (a ++ " ")

def ownRow (t : List Reg) (path flag : String) : Option Reg :=
  t.find? fun r => r.path == path && r.flag == flag

/-- the ancestors' persistent flags of that name -/
def inheritedRows (t : List Reg) (path flag : String) : List Reg :=
  t.filter fun q => q.persistent && q.flag == flag && isAncestorPath q.path path

/-- the nearest of them (longest path) -/
def nearest : List Reg → Option Reg
  | [] => none
  | q :: rest =>
    match nearest rest with
    | none => some q
    | some b => if q.path.length ≥ b.path.length then some q else some b

/-- the flag `--flag` on the command line of `path` sets -/
def effective (t : List Reg) (path flag : String) : Option Reg :=
  match ownRow t path flag with
  | some r => some r
  | none => nearest (inheritedRows t path flag)

/-- the flag whose line `path --help` prints for `--flag` -/
def shown (t : List Reg) (path flag : String) : Option Reg :=
  match nearest (inheritedRows t path flag) with
  | some q => some q
  | none => ownRow t path flag

def Reg.show (r : Reg) : String :=
  r.path ++ " --" ++ r.flag ++ " (var " ++ toString r.var ++ ", default " ++ r.default.quote ++ ", current " ++ r.current.quote ++ ")"

end Gotree.C19
