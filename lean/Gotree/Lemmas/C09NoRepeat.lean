/-
  C09 — `noRepeat` follows from the structure of the trees: in a tree with unique
  leaves, no single-child inner node and a root of degree ≥ 3, no two branches
  define the same bipartition.
-/
import Gotree.Lemmas.C09Compat

namespace Gotree.C09
open Gotree

/-- how two clades of one tree (the first met first in pre-order) relate: the
    second is strictly inside the first, or they are disjoint -/
def Rel (s1 s2 : SplitE) : Prop :=
  (SubS s2.below s1.below ∧ ∃ a ∈ s1.below, ¬ a ∈ s2.below) ∨ (∀ x ∈ s1.below, ¬ x ∈ s2.below)

mutual
theorem below_ne_T : ∀ t : T, ∀ s ∈ t.splitsBelow, s.below ≠ []
  | .node d p [] => by simp [T.splitsBelow, splitsL]
  | .node d p (k :: ks) => fun s hs => below_ne_L (k :: ks) s hs
theorem below_ne_L : ∀ k : Kids, ∀ s ∈ splitsL k, s.below ≠ []
  | [] => by simp [splitsL]
  | (e, t) :: r => by
    intro s hs
    rw [splitsL_cons] at hs
    rcases List.mem_append.1 hs with h | h
    · unfold blk at h
      rcases List.mem_cons.1 h with rfl | h
      · have := leaves_pos t
        intro h0; simp only at h0; rw [h0] at this; simp at this
      · exact below_ne_T t s h
    · exact below_ne_L r s h
end

/-- another child of the same node has a leaf, which is outside the given child -/
theorem other_leaf (k : Kids) (h2 : 2 ≤ k.length) (hnd : (leavesL k).Nodup) (c : EdgeD × T) (hc : c ∈ k) :
    ∃ x ∈ leavesL k, ¬ x ∈ c.2.leaves := by
  obtain ⟨a, b, rfl⟩ := List.append_of_mem hc
  have hab : a ++ b ≠ [] := by
    intro h
    have : (a ++ b).length = 0 := by rw [h]; rfl
    simp only [List.length_append, List.length_cons] at h2 this
    omega
  obtain ⟨c', hc'⟩ := List.exists_mem_of_ne_nil _ hab
  have hpos := leaves_pos c'.2
  obtain ⟨x, hx⟩ := List.exists_mem_of_length_pos (by omega : 0 < c'.2.leaves.length)
  rw [leavesL_append, leavesL_cons] at hnd ⊢
  have hnd1 := List.nodup_append.1 hnd
  have hnd2 := List.nodup_append.1 hnd1.2.1
  rcases List.mem_append.1 hc' with h | h
  · have hxa : x ∈ leavesL a := mem_leavesL.2 ⟨c', h, hx⟩
    exact ⟨x, List.mem_append_left _ hxa, fun hxc => hnd1.2.2 x hxa x (List.mem_append_left _ hxc) rfl⟩
  · have hxb : x ∈ leavesL b := mem_leavesL.2 ⟨c', h, hx⟩
    exact ⟨x, List.mem_append_right _ (List.mem_append_right _ hxb), fun hxc => hnd2.2.2 x hxc x hxb rfl⟩

mutual
theorem rel_T : ∀ t : T, okBelow t = true → t.leaves.Nodup → t.splitsBelow.Pairwise Rel
  | .node d p [] => by simp [T.splitsBelow, splitsL]
  | .node d p (k :: ks) => by
    intro h hnd
    simp only [okBelow, Bool.and_eq_true] at h
    exact rel_L (k :: ks) h.2 hnd
theorem rel_L : ∀ k : Kids, okBelowL k = true → (leavesL k).Nodup → (splitsL k).Pairwise Rel
  | [] => by simp [splitsL]
  | (e, .node d p kk) :: r => by
    intro h hnd
    simp only [okBelowL, Bool.and_eq_true] at h
    rw [leavesL_cons] at hnd
    have hnd' := List.nodup_append.1 hnd
    rw [splitsL_cons, List.pairwise_append]
    refine ⟨?_, rel_L r h.2 hnd'.2.1, ?_⟩
    · unfold blk
      rw [List.pairwise_cons]
      refine ⟨?_, rel_T (.node d p kk) h.1 hnd'.1⟩
      intro s2 hs2
      left
      refine ⟨(below_sublist_T _ s2 hs2).subset, ?_⟩
      -- another child of the node has a leaf outside s2
      cases kk with
      | nil => simp [T.splitsBelow, splitsL] at hs2
      | cons a b =>
        have hok := h.1
        simp only [okBelow, Bool.and_eq_true, bne_iff_ne, ne_eq] at hok
        have h2 : 2 ≤ (a :: b).length := by
          have := hok.1; simp only [List.length_cons] at this ⊢; omega
        obtain ⟨c, hc, hsc⟩ := mem_splitsL.1 (show s2 ∈ splitsL (a :: b) from hs2)
        have hs2c : SubS s2.below c.2.leaves := by
          unfold blk at hsc
          rcases List.mem_cons.1 hsc with rfl | hsc
          · exact fun x hx => hx
          · exact (below_sublist_T c.2 s2 hsc).subset
        obtain ⟨x, hx, hxc⟩ := other_leaf (a :: b) h2 hnd'.1 c hc
        exact ⟨x, hx, fun hx2 => hxc (hs2c x hx2)⟩
    · intro s1 hs1 s2 hs2
      right
      have h1 : SubS s1.below (T.node d p kk).leaves := by
        unfold blk at hs1
        rcases List.mem_cons.1 hs1 with rfl | hs1
        · exact fun x hx => hx
        · exact (below_sublist_T _ s1 hs1).subset
      have h2 : SubS s2.below (leavesL r) := (below_sublist_L r s2 hs2).subset
      exact fun x hx hx2 => hnd'.2.2 x (h1 x hx) x (h2 x hx2) rfl
end

/-- two clades never cover all the leaves when the root has degree ≥ 3 -/
theorem not_cover (k : Kids) (h3 : 3 ≤ k.length) (hnd : (leavesL k).Nodup) :
    ∀ s1 ∈ splitsL k, ∀ s2 ∈ splitsL k, ∃ x ∈ leavesL k, ¬ x ∈ s1.below ∧ ¬ x ∈ s2.below := by
  intro s1 hs1 s2 hs2
  have inBlk : ∀ (et : EdgeD × T) (s : SplitE), s ∈ blk et → SubS s.below et.2.leaves := by
    intro et s hs
    unfold blk at hs
    rcases List.mem_cons.1 hs with rfl | hs
    · exact fun x hx => hx
    · exact (below_sublist_T et.2 s hs).subset
  obtain ⟨et1, het1, hse1⟩ := mem_splitsL.1 hs1
  obtain ⟨a, b, rfl⟩ := List.append_of_mem het1
  have hlen : 2 ≤ (a ++ b).length := by
    simp only [List.length_append, List.length_cons] at h3 ⊢; omega
  rw [leavesL_append, leavesL_cons] at hnd
  have hnd1 := List.nodup_append.1 hnd
  have hnd2 := List.nodup_append.1 hnd1.2.1
  have hndab : (leavesL (a ++ b)).Nodup := by
    rw [leavesL_append, List.nodup_append]
    exact ⟨hnd1.1, hnd2.2.1, fun x hx y hy hxy => hnd1.2.2 x hx y (List.mem_append_right _ hy) hxy⟩
  have outside1 : ∀ x ∈ leavesL (a ++ b), ¬ x ∈ et1.2.leaves := by
    intro x hx hx1
    rw [leavesL_append] at hx
    rcases List.mem_append.1 hx with h | h
    · exact hnd1.2.2 x h x (List.mem_append_left _ hx1) rfl
    · exact hnd2.2.2 x hx1 x h rfl
  have memab : ∀ x ∈ leavesL (a ++ b), x ∈ leavesL (a ++ et1 :: b) := by
    intro x hx
    rw [leavesL_append] at hx
    rw [leavesL_append, leavesL_cons]
    rcases List.mem_append.1 hx with h | h
    · exact List.mem_append_left _ h
    · exact List.mem_append_right _ (List.mem_append_right _ h)
  rw [splitsL_append, splitsL_cons] at hs2
  have hs2' : s2 ∈ blk et1 ∨ s2 ∈ splitsL (a ++ b) := by
    rw [splitsL_append]
    rcases List.mem_append.1 hs2 with h | h
    · exact Or.inr (List.mem_append_left _ h)
    · rcases List.mem_append.1 h with h | h
      · exact Or.inl h
      · exact Or.inr (List.mem_append_right _ h)
  rcases hs2' with h | h
  · -- both inside the same child: any leaf of another child
    have hab : a ++ b ≠ [] := by intro h0; rw [h0] at hlen; simp at hlen
    obtain ⟨c', hc'⟩ := List.exists_mem_of_ne_nil _ hab
    obtain ⟨x, hx⟩ := List.exists_mem_of_length_pos (by have := leaves_pos c'.2; omega : 0 < c'.2.leaves.length)
    have hxab : x ∈ leavesL (a ++ b) := mem_leavesL.2 ⟨c', hc', hx⟩
    exact ⟨x, memab x hxab, fun h1 => outside1 x hxab (inBlk et1 s1 hse1 x h1),
      fun h2 => outside1 x hxab (inBlk et1 s2 h x h2)⟩
  · obtain ⟨et2, het2, hse2⟩ := mem_splitsL.1 h
    obtain ⟨x, hx, hx2⟩ := other_leaf (a ++ b) hlen hndab et2 het2
    exact ⟨x, memab x hx, fun h1 => outside1 x hx (inBlk et1 s1 hse1 x h1),
      fun h2 => hx2 (inBlk et2 s2 hse2 x h2)⟩

theorem pairwiseNe_iff (all : List String) : ∀ l : List (List String),
    pairwiseNe all l = true ↔ l.Pairwise (fun a b => eqc all a b = false)
  | [] => by simp [pairwiseNe]
  | a :: r => by
    simp only [pairwiseNe, Bool.and_eq_true, List.all_eq_true, Bool.not_eq_true', List.pairwise_cons,
      pairwiseNe_iff all r]

/-- In a tree with unique leaves, no single-child inner node and a root of degree
    ≥ 3 no two branches define the same bipartition (over any tip index `univ`
    that has the leaves of the tree as elements). -/
theorem distinctKeys_of_structure (univ : List String) (u : T) (h3 : 3 ≤ u.kids.length)
    (hok : okBelowL u.kids = true) (hnd : (leavesL u.kids).Nodup)
    (hut : ∀ a, a ∈ univ ↔ a ∈ leavesL u.kids) : distinctKeys univ u = true := by
  unfold distinctKeys
  rw [pairwiseNe_iff]
  have hk : (edgeKeys univ u).map (·.1) = (splitsL u.kids).map (fun s => bits univ s.below) := by
    unfold edgeKeys T.splits; simp
  rw [hk, List.pairwise_map]
  refine (rel_L u.kids hok hnd).imp_of_mem ?_
  intro s1 s2 hs1 hs2 hrel
  rw [eqc_false_iff]
  have sub1 : SubS s1.below (leavesL u.kids) := (below_sublist_L u.kids s1 hs1).subset
  have sub2 : SubS s2.below (leavesL u.kids) := (below_sublist_L u.kids s2 hs2).subset
  have ne1 := below_ne_L u.kids s1 hs1
  have ne2 := below_ne_L u.kids s2 hs2
  obtain ⟨b2, hb2⟩ := List.exists_mem_of_ne_nil _ ne2
  obtain ⟨b1, hb1⟩ := List.exists_mem_of_ne_nil _ ne1
  rintro (heq | hcomp)
  · -- same bitset: the clades would have the same leaves
    have hm : ∀ a, a ∈ s1.below ↔ a ∈ s2.below := by
      intro a
      constructor
      · intro ha
        have : a ∈ bits univ s1.below := mem_bits.2 ⟨(hut a).2 (sub1 a ha), ha⟩
        rw [heq] at this; exact (mem_bits.1 this).2
      · intro ha
        have : a ∈ bits univ s2.below := mem_bits.2 ⟨(hut a).2 (sub2 a ha), ha⟩
        rw [← heq] at this; exact (mem_bits.1 this).2
    rcases hrel with ⟨_, a, ha, hna⟩ | hd
    · exact hna ((hm a).1 ha)
    · exact hd b1 hb1 ((hm b1).1 hb1)
  · -- complementary bitsets
    have hm : ∀ a ∈ leavesL u.kids, (a ∈ s1.below ↔ ¬ a ∈ s2.below) := by
      intro a hal
      have hau := (hut a).2 hal
      constructor
      · intro ha ha2
        have : a ∈ bits univ s1.below := mem_bits.2 ⟨hau, ha⟩
        rw [hcomp] at this
        exact (mem_compl.1 this).2 (mem_bits.2 ⟨hau, ha2⟩)
      · intro hna2
        have : a ∈ compl univ (bits univ s2.below) := mem_compl.2 ⟨hau, fun h => hna2 (mem_bits.1 h).2⟩
        rw [← hcomp] at this
        exact (mem_bits.1 this).2
    obtain ⟨x, hx, hx1, hx2⟩ := not_cover u.kids h3 hnd s1 hs1 s2 hs2
    exact hx1 ((hm x hx).2 hx2)

/-- the Bool form of the domain gives the hypotheses of the theorems, `noRepeat` included -/
theorem dom_of_domB (ts : List T) (h : domB ts = true) : Dom ts := by
  unfold domB at h
  simp only [Bool.and_eq_true, Bool.not_eq_true', List.all_eq_true, decide_eq_true_eq, beq_iff_eq] at h
  obtain ⟨hne, hall⟩ := h
  have hne' : ts ≠ [] := by intro h; rw [h] at hne; simp at hne
  have hperm : ∀ u ∈ trees ts, (leavesL u.kids).Perm (leavesL (norm ts.head!).kids) :=
    fun u hu => perm_of_sortN_eq (hall u hu).2
  refine ⟨hne', fun u hu => (hall u hu).1.1.1, fun u hu => (hall u hu).1.1.2,
    fun u hu => (hasDup_false_iff _).1 (hall u hu).1.2, hperm, ?_⟩
  unfold noRepeat
  rw [List.all_eq_true]
  intro t ht
  have hu : norm t ∈ trees ts := List.mem_map.2 ⟨t, ht, rfl⟩
  obtain ⟨t0, r, rfl⟩ : ∃ t0 r, ts = t0 :: r := by
    cases ts with
    | nil => exact absurd rfl hne'
    | cons a b => exact ⟨a, b, rfl⟩
  have hfirst : norm t0 ∈ trees (t0 :: r) := List.mem_map.2 ⟨t0, by simp, rfl⟩
  have h30 := (hall _ hfirst).1.1.1
  apply distinctKeys_of_structure _ _ (hall _ hu).1.1.1 (hall _ hu).1.1.2 ((hasDup_false_iff _).1 (hall _ hu).1.2)
  intro a
  show a ∈ sortN (norm t0).tipNames ↔ _
  rw [(sortN_perm _).mem_iff, tipNames_eq_leaves _ (by omega)]
  exact (hperm _ hu).mem_iff.symm

theorem unroot_small (t : T) (h : t.kids.length < 2) : unroot t = t := by
  cases t with
  | node d p k =>
    match k, h with
    | [], _ => rfl
    | [(_, .node _ _ _)], _ => rfl

theorem removeSinglesL_length : ∀ k : Kids, (removeSinglesL k).length = k.length
  | [] => rfl
  | (e, t) :: r => by
    have := removeSinglesL_length r
    unfold removeSinglesL
    simp [this]

/-- in the domain every input tree has a root with at least two neighbours -/
theorem deg_of_domB (ts : List T) (h : domB ts = true) : ∀ t ∈ ts, 2 ≤ t.kids.length := by
  intro t ht
  have hd := dom_of_domB ts h
  have := hd.deg (norm t) (List.mem_map.2 ⟨t, ht, rfl⟩)
  apply Classical.byContradiction
  intro hlt
  have hk : (removeSingles t).kids.length = t.kids.length := by
    cases t with
    | node d p k => exact removeSinglesL_length k
  unfold norm at this
  rw [unroot_small _ (by omega)] at this
  omega

end Gotree.C09
