/-
  C14 — the theorems that depend on the table regenerated from the source (`Gotree/Gen/C14Sites.lean`,
  harness/c14/extract.go, `vh gen-tables`).  Kept apart from `Proofs/C14.lean`: when a change of the code breaks a
  row, the other theorems of C14 still build and are audited.  Nothing outside C14 may import this module.

  Two kinds of rows.  `facts`: the text of an expression (constants, defaults, flag names, formats, arguments) —
  `sitesCheck_*`.  `conds`: the PATH CONDITION under which a statement is reached, as a term (`Sites.Ex`) that is
  EVALUATED here on probes and compared with what the models do — `sitesSem_*`; a rewrite that keeps the value of
  the condition (guard clauses, `!(a >= b)` for `a < b`, turned operands, renamed variables) keeps these theorems.
-/
import Gotree.Proofs.C14
import Gotree.Gen.C14Sites

namespace Gotree.C14
open Gotree

/-- one fact of the table `Gen/C14Sites.lean` (regenerated from the working tree by harness/c14/extract.go on
    every run; receiver, arguments and named results are p0, p1, …; locals x0, x1, …) -/
def fact (key : String) : List String := (Gotree.Gen.C14Sites.facts.lookup key).getD ["<missing>"]

/-- constants and sentinels the models spell as literals: `Go.weight` tests `metric == 1`, `metric == 2`;
    `NIL = -1` (Core) -/
theorem sitesCheck_consts :
    fact "consts" = ["DISTANCE_METRIC_BRLEN = 0", "DISTANCE_METRIC_BOOTS = 1", "DISTANCE_METRIC_NONE = 2",
      "NIL_LENGTH = -1.0", "NIL_SUPPORT = -1.0"] := by decide +kernel

/-- `pathLengths` as `Go.pathLengths` / `Go.weight` / `Metric.w` read it: a distance is written at
    `lengths[cur.Id()]`; the weight starts at 1.0; supports default to
    1.0, lengths to 0.0, every other metric value reads the length; the walk goes on with `curlength+l` -/
theorem sitesCheck_pathLengths :
    fact "pathLengths.switch" = ["DISTANCE_METRIC_BOOTS: Support() == NIL_SUPPORT 1.0", "DISTANCE_METRIC_NONE: 1.0",
      "default: Length() == NIL_LENGTH 0.0"] ∧
    fact "pathLengths.writes" = ["p2[p0.Id()] = p3"] ∧
    fact "pathLengths.recur" = ["pathLengths(x0, p0, p2, p3+x1, p4)"] ∧
    fact "pathLengths.define" = ["x0 := 1.0"] := by decide +kernel

/-- `ToDistanceMatrix` as `Go.toDistanceMatrix` reads it: `Tips()`, sorted by `Name() <`, numbered by
    `SetId(i)` in that order, one walk per tip from `prev = nil`, `curlength = 0` into its own row -/
theorem sitesCheck_toDistanceMatrix :
    fact "ToDistanceMatrix.compare" = ["x0[x1].Name() < x0[x2].Name()"] ∧
    fact "ToDistanceMatrix.calls" = ["x0[x1].SetId(x1)", "pathLengths(x0, nil, x1[x2], 0, p1)"] := by decide +kernel

/-- `AvgDistanceMatrix` as `Go.avgStepG` / `Go.avgFinish` read it: the divisor is a counter whose only write is
    `++` (theorem `avg_ignores_ids`), the tests are `!=`, the accumulation is `+=`, the end a `/=` -/
theorem sitesCheck_avg :
    fact "AvgDistanceMatrix.divisor" = ["float64(x0)"] ∧
    fact "AvgDistanceMatrix.divisor.writes" = ["x0++"] ∧
    fact "AvgDistanceMatrix.arith" = ["p2[x0][x1] += x2[x0][x1]", "p2[x0][x1] /= float64(x2)"] ∧
    fact "AvgDistanceMatrix.calls" = ["x0.Tree.ToDistanceMatrix(p0)", "x0.Tree.ToDistanceMatrix(p0)"] := by decide +kernel

/-- the calls of the flood (the conditions are evaluated in `sitesSem_cut`, `sitesSem_cutRecur`); formerly: strict `<` with the
    threshold on the right at both sites, nothing else compares with it; the flood skips the node it came from
    and marks the branches it crosses; a cut branch keeps its tip ends -/
theorem sitesCheck_cut :
    fact "CutEdgesMaxLength.calls" = ["p0.cutEdgesMaxLengthRecur(x0, x1.Left(), x1.Right(), p1, x2)",
      "p0.cutEdgesMaxLengthRecur(x0, x1.Right(), x1.Left(), p1, x2)"] ∧
    fact "cutEdgesMaxLengthRecur.calls" = ["p0.cutEdgesMaxLengthRecur(p1, x0, p2, p4, p5)"] := by decide +kernel

/-- `TipBag` as `Go.addTip` / `Go.bagNames` / `Go.bagRun` read it -/
theorem sitesCheck_tipbag :
    fact "AddTip.writes" = ["p0.tips[p1.Name()] = p1"] ∧
    fact "TipBag.Tips.calls" = ["sort.Strings(x0)"] := by decide +kernel

/-- the command-line glue as `Cli.metricOfFlag` / `Cli.matrixCmd` / `Cli.cutCmd` / `Cli.matrixText` / `Cli.bagLine`
    read it: spelling -> constant, an unknown spelling returns, `--avg` chooses the branch, flag names, short
    names and defaults (`-m brlen`, `-l 0.5`, `-i stdin`, `-o stdout`), `%.12f`, the id / size / names line -/
theorem sitesCheck_cli :
    fact "matrix.switch" = ["\"brlen\": DISTANCE_METRIC_BRLEN", "\"boot\": DISTANCE_METRIC_BOOTS",
      "\"none\": DISTANCE_METRIC_NONE", "default: return"] ∧
    fact "matrix.avgTest" = ["matrixavg"] ∧
    fact "matrix.calls" = ["openWriteFile(outtreefile)", "readTrees(intreefile)", "tree.AvgDistanceMatrix(x0, x1)",
      "x0.Tree.ToDistanceMatrix(x1)"] ∧
    fact "matrix.formats" = ["distance metric %s in not supported", "%d\n", "%.12f", "%d\n", "%.12f"] ∧
    fact "matrix.flags" = ["StringVarP &intreefile \"input\" \"i\" \"stdin\"", "StringVarP &metric \"metric\" \"m\" \"brlen\"",
      "BoolVar &matrixavg \"avg\" \"\" false", "StringVarP &outtreefile \"output\" \"o\" \"stdout\""] ∧
    fact "cut.calls" = ["openWriteFile(outtreefile)", "readTrees(intreefile)", "x0.Tree.CutEdgesMaxLength(cutlengthmax)"] ∧
    fact "cut.formats" = ["%d\t%d\t"] ∧
    fact "cut.flags" = ["Float64VarP &cutlengthmax \"max-length\" \"l\" 0.5", "StringVarP &outtreefile \"output\" \"o\" \"stdout\""] := by
  decide +kernel

/-! ### evaluated rows -/

open Sites in
/-- the path conditions of the statements whose key is `k` (or `k#i`), in source order -/
def condsOf (k : String) : List Ex :=
  (Gotree.Gen.C14Sites.conds.filter fun r => r.1 == k || startsWithS r.1 (k ++ "#")).map (·.2)

def probeRats : List Rat := [-1, 0, 1 / 2, 1]
def probeBools : List Bool := [false, true]

open Sites in
/-- `pathLengths`, EVALUATED: a distance is written iff the node is a tip and is not the start (`prev != nil`);
    otherwise the walk goes on to every neighbour but the one it came from — `Go.pathLengths`
    (`nd.neigh.length == 1 && prev.isSome`, `some cb.1 != prev`) -/
theorem sitesSem_pathLengths :
    (probeBools.all fun tip => [0, 3].all fun (prev : Rat) => [3, 4].all fun (child : Rat) =>
      let p : Probe := { vals := [("p1", prev), ("x", child)], atoms := [("Tip()", tip)] }
      (condsOf "pathLengths.write").map (·.eval p) == [some (tip && prev != 0)] &&
      (condsOf "pathLengths.recur").map (·.eval p) == [some (!(tip && prev != 0) && child != prev)]) = true := by
  decide +kernel

open Sites in
/-- `CutEdgesMaxLength`, EVALUATED on every probe (visited or not, length and threshold in {-1, 0, 1/2, 1} — ties and
    the sentinel included —, bag size 0-2, tip ends): an unvisited branch STRICTLY shorter than the threshold is
    flooded in both directions and its bag kept iff it has a tip; an unvisited branch that is not shorter gives one
    bag per tip end — `Go.cutStep`, `compL` -/
theorem sitesSem_cut :
    (probeBools.all fun vis => probeRats.all fun len => probeRats.all fun thr => [0, 1, 2].all fun (size : Rat) =>
      probeBools.all fun lt => probeBools.all fun rt =>
      let p : Probe := { vals := [(".Length()", len), (".Size()", size), ("p1", thr), ("p3", 0)],
                         atoms := [("Id()]", vis), ("Left().Tip()", lt), ("Right().Tip()", rt)] }
      let short := decide (len < thr)
      (condsOf "cut.flood").map (·.eval p) == [some (!vis && short), some (!vis && short)] &&
      (condsOf "cut.keepBag").map (·.eval p) ==
        [some (!vis && short && decide (size > 0)), some (!vis && !short && lt), some (!vis && !short && rt)] &&
      (condsOf "cut.tipEnd").map (·.eval p) == [some (!vis && !short && lt), some (!vis && !short && rt)]) = true := by
  decide +kernel

open Sites in
/-- `cutEdgesMaxLengthRecur`, EVALUATED: a tip is collected whenever it is reached; a branch is crossed — and
    marked visited — iff it does not lead back to where the flood came from and is STRICTLY shorter than the
    threshold — `Go.cutRecur` (`nb.1 != prev && b.d.len < maxlen`) -/
theorem sitesSem_cutRecur :
    ([0, 5].all fun (cur : Rat) => probeBools.all fun tip => [4, 6].all fun (prev : Rat) => [6, 7].all fun (next : Rat) =>
      probeRats.all fun len => probeRats.all fun thr =>
      let p : Probe := { vals := [(".Length()", len), ("p4", thr), ("p3", prev), ("p2", cur), ("x", next)],
                         atoms := [("Tip()", tip)] }
      let cross := cur != 0 && next != prev && decide (len < thr)
      (condsOf "recur.addTip").map (·.eval p) == [some (cur != 0 && tip)] &&
      (condsOf "recur.cross").map (·.eval p) == [some cross] &&
      (condsOf "recur.mark").map (·.eval p) == [some cross]) = true := by
  decide +kernel

open Sites in
/-- `AvgDistanceMatrix`, EVALUATED: a later tree (no error record, not the first) is refused iff its number of tips
    differs or, the numbers being equal, a name differs at some position; it is added iff the numbers are equal
    (after the names were compared) — `Go.avgStepG false` -/
theorem sitesSem_avg :
    ([0, 1].all fun (terr : Rat) => [0, 1].all fun (mat : Rat) => [2, 3].all fun (n1 : Rat) => [2, 3].all fun (n2 : Rat) =>
      [7, 8].all fun (nm1 : Rat) => [7, 8].all fun (nm2 : Rat) =>
      let p : Probe := { vals := [("len(p3)", n1), ("len(", n2), ("[", nm2), (".Name()", nm1), (".Err", terr), ("p2", mat)] }
      let later := terr == 0 && mat != 0
      (condsOf "avg.reject").map (·.eval p) == [some (later && n2 != n1), some (later && n2 == n1 && nm1 != nm2)] &&
      (condsOf "avg.add").map (·.eval p) == [some (later && n2 == n1)]) = true := by
  decide +kernel

open Sites in
/-- `TipBag.AddTip`, EVALUATED: nil is refused, a node that is not a tip is refused, a new name is stored, a name
    already there is refused iff it belongs to another node — `Go.addTip` -/
theorem sitesSem_addTip :
    ([0, 5].all fun (node : Rat) => probeBools.all fun tip => probeBools.all fun ok => [5, 6].all fun (other : Rat) =>
      let p : Probe := { vals := [("p1", node), ("x", other)], atoms := [("Tip()", tip), ("x", ok)] }
      (condsOf "addTip.store").map (·.eval p) == [some (node != 0 && tip && !ok)] &&
      (condsOf "addTip.reject").map (·.eval p) ==
        [some (node == 0), some (node != 0 && !tip), some (node != 0 && tip && ok && other != node)]) = true := by
  decide +kernel

end Gotree.C14
