/-
  Helper lemmas for the pool LTS of C11 (core Lean only).
-/
import Gotree.Model.C11

namespace Gotree.C11

variable {α β : Type}

/-- replacing the phase at position `i` changes a sum over the workers by the difference of the two terms -/
theorem sumMap_set (g : Phase α β → Nat) :
    ∀ (l : List (Phase α β)) (i : Nat) (p q : Phase α β), l[i]? = some p →
      sumMap g (l.set i q) + g p = sumMap g l + g q
  | [], i, p, q, h => by simp at h
  | a :: r, 0, p, q, h => by
    simp at h; subst h
    simp [sumMap]; omega
  | a :: r, i + 1, p, q, h => by
    simp at h
    have := sumMap_set g r i p q h
    simp [sumMap]; omega

theorem length_set' (l : List (Phase α β)) (i : Nat) (q : Phase α β) : (l.set i q).length = l.length := by
  simp

theorem sumMap_replicate (g : Phase α β → Nat) (p : Phase α β) : ∀ n, sumMap g (List.replicate n p) = n * g p
  | 0 => by simp [sumMap]
  | n + 1 => by
    simp [List.replicate_succ, sumMap, sumMap_replicate g p n, Nat.add_mul]; omega

theorem sumMap_eq_zero {g : Phase α β → Nat} : ∀ {l : List (Phase α β)}, sumMap g l = 0 → ∀ p ∈ l, g p = 0
  | [], _, p, hp => by cases hp
  | a :: r, h, p, hp => by
    simp [sumMap] at h
    cases hp with
    | head => exact h.1
    | tail _ hp' => exact sumMap_eq_zero h.2 p hp'

theorem sumMap_le_length {g : Phase α β → Nat} (hg : ∀ p, g p ≤ 1) : ∀ (l : List (Phase α β)), sumMap g l ≤ l.length
  | [] => by simp [sumMap]
  | a :: r => by
    have := sumMap_le_length hg r
    have := hg a
    simp [sumMap]; omega

/-- if every worker contributes exactly 1 the sum is the number of workers -/
theorem sumMap_all_one {g : Phase α β → Nat} : ∀ {l : List (Phase α β)}, (∀ p ∈ l, g p = 1) → sumMap g l = l.length
  | [], _ => by simp [sumMap]
  | a :: r, h => by
    have h1 := h a (by simp)
    have h2 := sumMap_all_one (l := r) (fun p hp => h p (by simp [hp]))
    simp [sumMap]; omega


/-! ## What a worker contributes to the invariants -/

def Phase.items : Phase α β → List α
  | .holding x => [x] | .computed x _ => [x] | _ => []

def Phase.notFinished : Phase α β → Nat
  | .finished => 0 | _ => 1

def Phase.isLeaked : Phase α β → Nat
  | .leaked => 1 | _ => 0

def Phase.exited : Phase α β → Nat
  | .exiting => 1 | .finished => 1 | .leaked => 1 | _ => 0

def Phase.pureAt (f : α → β) : Phase α β → Prop
  | .computed x y => y = f x | _ => True

def Phase.noStopAt (stops : α → Bool) : Phase α β → Prop
  | .computed x _ => stops x = false | _ => True

section
set_option linter.unusedSectionVars false
variable [DecidableEq α]

/-- how many times `a` is in the hands of a worker -/
def Phase.cnt (a : α) (p : Phase α β) : Nat := p.items.count a

/-- Invariant of every reachable state, whatever the shape of the pool. -/
structure Inv (Sh : Shape) (stops : α → Bool) (w c0 : Nat) (inp0 : List α) (s : PState α β) : Prop where
  cons : ∀ a, s.done.count a + sumMap (Phase.cnt a) s.workers + s.dropped.count a + s.inp.count a + s.pending.count a = inp0.count a
  wg : s.wg = sumMap Phase.notFinished s.workers
  closed : s.closed = true → s.wg = 0
  len : s.workers.length = w
  nopanic : s.panicked = false
  errset : s.errSet = !s.dropped.isEmpty
  droppedStops : ∀ x ∈ s.dropped, stops x = true
  droppedEarly : Sh.early = [] → s.dropped = []
  exits : (s.inp = [] ∧ s.srcOpen = false) ∨ sumMap Phase.exited s.workers ≤ s.dropped.length
  noStopDone : Sh.early ≠ [] → ∀ x ∈ s.done, stops x = false
  noStopW : Sh.early ≠ [] → ∀ p ∈ s.workers, p.noStopAt stops
  src1 : s.srcOpen = false → s.pending = [] ∧ s.prod = false
  src2 : s.prod = false → s.pending = [] ∧ (Sh.producerCloses = true → s.srcOpen = false)
  capc : s.cap = c0

theorem inv_init (Sh : Shape) (stops : α → Bool) (w c0 : Nat) (inp : List α) :
    Inv Sh stops w c0 inp (init w c0 inp : PState α β) := by
  refine ⟨?_, ?_, ?_, ?_, ?_, ?_, ?_, ?_, ?_, ?_, ?_, ?_, ?_, ?_⟩ <;> simp [init, sumMap_replicate, Phase.cnt, Phase.items, Phase.notFinished, Phase.exited]
  intros; trivial

theorem mem_of_getElem?' {l : List (Phase α β)} {i : Nat} {p : Phase α β} (h : l[i]? = some p) : p ∈ l :=
  List.mem_of_getElem? h

theorem mem_set_cases {l : List (Phase α β)} {i : Nat} {p q : Phase α β} (h : p ∈ l.set i q) : p ∈ l ∨ p = q :=
  List.mem_or_eq_of_mem_set h

/-- a closed pool has no worker left that could send -/
theorem closed_no_worker {Sh : Shape} {stops : α → Bool} {w c0 : Nat} {inp0 : List α} {s : PState α β}
    (h : Inv Sh stops w c0 inp0 s) (hc : s.closed = true) {i : Nat} {p : Phase α β} (hget : s.workers[i]? = some p) :
    p.notFinished = 0 := by
  have h0 : sumMap Phase.notFinished s.workers = 0 := by rw [← h.wg]; exact h.closed hc
  exact sumMap_eq_zero h0 p (List.mem_of_getElem? hget)

/-- The invariant is preserved by every step, for every shape. -/
theorem inv_step {Sh : Shape} {f : α → β} {stops : α → Bool} {w c0 : Nat} {inp0 : List α} {s s' : PState α β} {i c : Nat}
    (h : Inv Sh stops w c0 inp0 s) (hs : stepFn Sh f stops s i c = some s') : Inv Sh stops w c0 inp0 s' := by
  have hW := fun (g : Phase α β → Nat) p q hget => sumMap_set g s.workers i p q hget
  unfold stepFn at hs
  split at hs
  · simp at hs
  · rename_i hp
    split at hs
    · -- idle
      rename_i hget
      split at hs
      · rename_i x r hinp
        simp at hs; subst hs
        refine ⟨?_, ?_, ?_, ?_, ?_, ?_, ?_, ?_, ?_, ?_, ?_, h.src1, h.src2, h.capc⟩
        · intro a
          have h1 := h.cons a
          have h2 := hW (Phase.cnt a) _ (.holding x) hget
          simp [hinp, Phase.cnt, Phase.items, List.count_cons] at *
          by_cases hx : x = a <;> simp [hx] at * <;> omega
        · have h2 := hW Phase.notFinished _ (.holding x) hget
          have := h.wg
          simp [Phase.notFinished] at *; omega
        · exact h.closed
        · simp [h.len]
        · exact h.nopanic
        · exact h.errset
        · exact h.droppedStops
        · exact h.droppedEarly
        · have h2 := hW Phase.exited _ (.holding x) hget
          have h3 := h.exits
          simp [hinp, Phase.exited] at *
          right; omega
        · exact h.noStopDone
        · intro he p hp'
          rcases mem_set_cases hp' with hp' | hp'
          · exact h.noStopW he p hp'
          · subst hp'; trivial
      · rename_i hinp
        split at hs
        · -- rendezvous on an unbuffered channel: the item goes from the producer straight to the worker
          rename_i hrdv
          split at hs
          · rename_i x r hpend
            simp at hs; subst hs
            refine ⟨?_, ?_, h.closed, by simp [h.len], h.nopanic, h.errset, h.droppedStops, h.droppedEarly, ?_,
              h.noStopDone, ?_, ?_, ?_, h.capc⟩
            · intro a
              have h1 := h.cons a
              have h2 := hW (Phase.cnt a) _ (.holding x) hget
              simp [hpend, Phase.cnt, Phase.items, List.count_cons] at *
              by_cases hx : x = a <;> simp [hx] at * <;> omega
            · have h2 := hW Phase.notFinished _ (.holding x) hget
              have := h.wg
              simp [Phase.notFinished] at *; omega
            · rcases h.exits with h3 | h3
              · have := (h.src1 h3.2).2
                rw [hrdv.2] at this; cases this
              · right
                have h2 := hW Phase.exited _ (.holding x) hget
                simp [Phase.exited] at *; omega
            · intro he p hp'
              rcases mem_set_cases hp' with hp' | hp'
              · exact h.noStopW he p hp'
              · subst hp'; trivial
            · intro hso
              have := (h.src1 hso).1
              rw [hpend] at this; cases this
            · intro hpf
              rw [hrdv.2] at hpf; cases hpf
          · simp at hs
        split at hs
        · simp at hs
        rename_i hsrc
        simp at hs; subst hs
        refine ⟨?_, ?_, ?_, ?_, ?_, ?_, ?_, ?_, ?_, ?_, ?_, h.src1, h.src2, h.capc⟩
        · intro a
          have h1 := h.cons a
          have h2 := hW (Phase.cnt a) _ (if Sh.rangeEndDone then .exiting else .leaked) hget
          cases hr : Sh.rangeEndDone <;> simp [hr, hinp, Phase.cnt, Phase.items] at * <;> omega
        · have h2 := hW Phase.notFinished _ (if Sh.rangeEndDone then .exiting else .leaked) hget
          have := h.wg
          cases hr : Sh.rangeEndDone <;> simp [hr, Phase.notFinished] at * <;> omega
        · exact h.closed
        · simp [h.len]
        · exact h.nopanic
        · exact h.errset
        · exact h.droppedStops
        · exact h.droppedEarly
        · left; exact ⟨hinp, by simpa using hsrc⟩
        · exact h.noStopDone
        · intro he p hp'
          rcases mem_set_cases hp' with hp' | hp'
          · exact h.noStopW he p hp'
          · subst hp'; cases Sh.rangeEndDone <;> trivial
    · -- holding
      rename_i x hget
      split at hs
      · rename_i hcond
        split at hs
        · rename_i e he
          simp at hs; subst hs
          simp at hcond
          refine ⟨?_, ?_, ?_, ?_, ?_, ?_, ?_, ?_, ?_, ?_, ?_, h.src1, h.src2, h.capc⟩
          · intro a
            have h1 := h.cons a
            have h2 := hW (Phase.cnt a) _ (if e then .exiting else .leaked) hget
            cases e <;> simp [Phase.cnt, Phase.items, List.count_cons] at * <;>
              by_cases hx : x = a <;> simp [hx] at * <;> omega
          · have h2 := hW Phase.notFinished _ (if e then .exiting else .leaked) hget
            have := h.wg
            cases e <;> simp [Phase.notFinished] at * <;> omega
          · exact h.closed
          · simp [h.len]
          · exact h.nopanic
          · simp
          · intro z hz
            simp at hz
            rcases hz with hz | hz
            · subst hz; exact hcond.1
            · exact h.droppedStops z hz
          · intro he0; simp [he0] at hcond
          · have h2 := hW Phase.exited _ (if e then .exiting else .leaked) hget
            have h3 := h.exits
            rcases h3 with h3 | h3
            · left; exact h3
            · right
              cases e <;> simp [Phase.exited] at * <;> omega
          · exact h.noStopDone
          · intro he' p hp'
            rcases mem_set_cases hp' with hp' | hp'
            · exact h.noStopW he' p hp'
            · subst hp'; cases e <;> trivial
        · simp at hs
      · rename_i hcond
        -- both ways of computing a result leave the same trace in this invariant
        have key : ∀ y : β, Inv Sh stops w c0 inp0 { s with workers := s.workers.set i (.computed x y) } := by
          intro y
          refine ⟨?_, ?_, ?_, ?_, ?_, ?_, ?_, ?_, ?_, ?_, ?_, h.src1, h.src2, h.capc⟩
          · intro a
            have h1 := h.cons a
            have h2 := hW (Phase.cnt a) _ (.computed x y) hget
            simp [Phase.cnt, Phase.items] at *; omega
          · have h2 := hW Phase.notFinished _ (.computed x y) hget
            have := h.wg
            simp [Phase.notFinished] at *; omega
          · exact h.closed
          · simp [h.len]
          · exact h.nopanic
          · exact h.errset
          · exact h.droppedStops
          · exact h.droppedEarly
          · have h2 := hW Phase.exited _ (.computed x y) hget
            have h3 := h.exits
            simp [Phase.exited] at *
            rcases h3 with h3 | h3
            · left; exact h3
            · right; omega
          · exact h.noStopDone
          · intro he p hp'
            rcases mem_set_cases hp' with hp' | hp'
            · exact h.noStopW he p hp'
            · subst hp'
              simp [Phase.noStopAt]
              cases hsx : stops x
              · rfl
              · simp [hsx] at hcond; exact absurd hcond he
        split at hs
        · simp at hs; subst hs; exact key _
        · split at hs
          · simp at hs
          · split at hs
            · simp at hs; subst hs; exact key _
            · simp at hs
    · -- computed
      rename_i x y hget
      split at hs
      · rename_i hc
        have := closed_no_worker h hc hget
        simp [Phase.notFinished] at this
      · rename_i hc
        simp at hs; subst hs
        refine ⟨?_, ?_, ?_, ?_, ?_, ?_, ?_, ?_, ?_, ?_, ?_, h.src1, h.src2, h.capc⟩
        · intro a
          have h1 := h.cons a
          have h2 := hW (Phase.cnt a) _ .idle hget
          simp [Phase.cnt, Phase.items, List.count_cons] at *
          by_cases hx : x = a <;> simp [hx] at * <;> omega
        · have h2 := hW Phase.notFinished _ .idle hget
          have := h.wg
          simp [Phase.notFinished] at *; omega
        · exact h.closed
        · simp [h.len]
        · exact h.nopanic
        · exact h.errset
        · exact h.droppedStops
        · exact h.droppedEarly
        · have h2 := hW Phase.exited _ .idle hget
          have h3 := h.exits
          simp [Phase.exited] at *
          rcases h3 with h3 | h3
          · left; exact h3
          · right; omega
        · intro he z hz
          simp at hz
          rcases hz with hz | hz
          · subst hz
            exact h.noStopW he _ (List.mem_of_getElem? hget)
          · exact h.noStopDone he z hz
        · intro he p hp'
          rcases mem_set_cases hp' with hp' | hp'
          · exact h.noStopW he p hp'
          · subst hp'; trivial
    · -- exiting
      rename_i hget
      simp at hs; subst hs
      refine ⟨?_, ?_, ?_, ?_, ?_, ?_, ?_, ?_, ?_, ?_, ?_, h.src1, h.src2, h.capc⟩
      · intro a
        have h1 := h.cons a
        have h2 := hW (Phase.cnt a) _ .finished hget
        simp [Phase.cnt, Phase.items] at *; omega
      · have h2 := hW Phase.notFinished _ .finished hget
        have := h.wg
        simp [Phase.notFinished] at *; omega
      · intro hc
        have := h.closed hc
        simp; omega
      · simp [h.len]
      · exact h.nopanic
      · exact h.errset
      · exact h.droppedStops
      · exact h.droppedEarly
      · have h2 := hW Phase.exited _ .finished hget
        have h3 := h.exits
        simp [Phase.exited] at *
        rcases h3 with h3 | h3
        · left; exact h3
        · right; omega
      · exact h.noStopDone
      · intro he p hp'
        rcases mem_set_cases hp' with hp' | hp'
        · exact h.noStopW he p hp'
        · subst hp'; trivial
    · simp at hs
    · simp at hs
    · -- the closer and the producer
      split at hs
      · split at hs
        · rename_i hc
          simp at hs; subst hs
          exact ⟨h.cons, h.wg, fun _ => hc.1, h.len, h.nopanic, h.errset, h.droppedStops, h.droppedEarly, h.exits,
            h.noStopDone, h.noStopW, h.src1, h.src2, h.capc⟩
        · simp at hs
      · split at hs
        · rename_i hprod
          split at hs
          · -- the producer sends one item
            rename_i x r hpend
            split at hs
            · simp at hs; subst hs
              refine ⟨?_, h.wg, h.closed, h.len, h.nopanic, h.errset, h.droppedStops, h.droppedEarly, ?_,
                h.noStopDone, h.noStopW, ?_, ?_, h.capc⟩
              · intro a
                have h1 := h.cons a
                simp [hpend, List.count_cons, List.count_append] at *
                by_cases hx : x = a <;> simp [hx] at * <;> omega
              · rcases h.exits with h3 | h3
                · have := (h.src1 h3.2).2
                  rw [hprod.2] at this; cases this
                · right; exact h3
              · intro hso
                have := (h.src1 hso).1
                rw [hpend] at this; cases this
              · intro hpf
                rw [hprod.2] at hpf; cases hpf
            · simp at hs
          · -- the producer leaves: with or without closing the channel
            rename_i hpend
            split at hs
            · rename_i hpc
              simp at hs; subst hs
              refine ⟨h.cons, h.wg, h.closed, h.len, h.nopanic, h.errset, h.droppedStops, h.droppedEarly, ?_,
                h.noStopDone, h.noStopW, ?_, ?_, h.capc⟩
              · rcases h.exits with h3 | h3
                · left; exact ⟨h3.1, rfl⟩
                · right; exact h3
              · intro _; exact ⟨hpend, rfl⟩
              · intro _; exact ⟨hpend, fun _ => rfl⟩
            · rename_i hpc
              simp at hs; subst hs
              refine ⟨h.cons, h.wg, h.closed, h.len, h.nopanic, h.errset, h.droppedStops, h.droppedEarly, h.exits,
                h.noStopDone, h.noStopW, ?_, ?_, h.capc⟩
              · intro hso; exact ⟨hpend, rfl⟩
              · intro _
                refine ⟨hpend, fun hh => ?_⟩
                rw [hh] at hpc; exact absurd rfl hpc
        · simp at hs

end

/-! ## The extra invariant of a pool without leaking exit and without unsynchronised shared write -/

/-- the shape of a clean pool -/
def Shape.clean (Sh : Shape) : Prop := Sh.rangeEndDone = true ∧ (∀ e ∈ Sh.early, e = true) ∧ Sh.pureCompute = true

structure InvClean (f : α → β) (s : PState α β) : Prop where
  noleak : sumMap Phase.isLeaked s.workers = 0
  pure : ∀ p ∈ s.workers, p.pureAt f
  out : s.out = s.done.map f

theorem invClean_init (f : α → β) (w c0 : Nat) (inp : List α) : InvClean f (init w c0 inp : PState α β) := by
  refine ⟨?_, ?_, ?_⟩
  · simp [init, sumMap_replicate, Phase.isLeaked]
  · intro p hp
    simp [init, List.mem_replicate] at hp
    rw [hp.2]; trivial
  · simp [init]

theorem invClean_step {Sh : Shape} (hSh : Sh.clean) {f : α → β} {stops : α → Bool} {s s' : PState α β} {i c : Nat}
    (h : InvClean f s) (hs : stepFn Sh f stops s i c = some s') : InvClean f s' := by
  have hW := fun p q hget => sumMap_set (Phase.isLeaked (α := α) (β := β)) s.workers i p q hget
  obtain ⟨hR, hE, hP⟩ := hSh
  unfold stepFn at hs
  split at hs
  · simp at hs
  · split at hs
    · rename_i hget
      split at hs
      · rename_i x r hinp
        simp at hs; subst hs
        refine ⟨?_, ?_, h.out⟩
        · have := hW _ (.holding x) hget
          have := h.noleak
          simp [Phase.isLeaked] at *; omega
        · intro p hp
          rcases List.mem_or_eq_of_mem_set hp with hp | hp
          · exact h.pure p hp
          · subst hp; trivial
      · split at hs
        · split at hs
          · rename_i x r hpend
            simp at hs; subst hs
            refine ⟨?_, ?_, h.out⟩
            · have := hW _ (.holding x) hget
              have := h.noleak
              simp [Phase.isLeaked] at *; omega
            · intro p hp
              rcases List.mem_or_eq_of_mem_set hp with hp | hp
              · exact h.pure p hp
              · subst hp; trivial
          · simp at hs
        split at hs
        · simp at hs
        simp at hs; subst hs
        refine ⟨?_, ?_, h.out⟩
        · have := hW _ (if Sh.rangeEndDone then .exiting else .leaked) hget
          have := h.noleak
          simp [hR, Phase.isLeaked] at *; omega
        · intro p hp
          rcases List.mem_or_eq_of_mem_set hp with hp | hp
          · exact h.pure p hp
          · subst hp; first | trivial | (simp [hR]; trivial)
    · rename_i x hget
      split at hs
      · split at hs
        · rename_i e he
          have he' : e = true := hE e (List.mem_of_getElem? he)
          simp at hs; subst hs
          refine ⟨?_, ?_, h.out⟩
          · have := hW _ (if e then .exiting else .leaked) hget
            have := h.noleak
            simp [he', Phase.isLeaked] at *; omega
          · intro p hp
            rcases List.mem_or_eq_of_mem_set hp with hp | hp
            · exact h.pure p hp
            · subst hp; first | trivial | (simp [he']; trivial)
        · simp at hs
      · split at hs
        · simp at hs; subst hs
          refine ⟨?_, ?_, h.out⟩
          · have := hW _ (.computed x (f x)) hget
            have := h.noleak
            simp [Phase.isLeaked] at *; omega
          · intro p hp
            rcases List.mem_or_eq_of_mem_set hp with hp | hp
            · exact h.pure p hp
            · subst hp; simp [Phase.pureAt]
        · simp_all
    · rename_i x y hget
      split at hs
      · simp at hs; subst hs
        exact ⟨h.noleak, h.pure, h.out⟩
      · simp at hs; subst hs
        refine ⟨?_, ?_, ?_⟩
        · have := hW _ .idle hget
          have := h.noleak
          simp [Phase.isLeaked] at *; omega
        · intro p hp
          rcases List.mem_or_eq_of_mem_set hp with hp | hp
          · exact h.pure p hp
          · subst hp; trivial
        · have hy : y = f x := h.pure _ (List.mem_of_getElem? hget)
          simp [h.out, hy]
    · rename_i hget
      simp at hs; subst hs
      refine ⟨?_, ?_, h.out⟩
      · have := hW _ .finished hget
        have := h.noleak
        simp [Phase.isLeaked] at *; omega
      · intro p hp
        rcases List.mem_or_eq_of_mem_set hp with hp | hp
        · exact h.pure p hp
        · subst hp; trivial
    · simp at hs
    · simp at hs
    · split at hs
      · split at hs
        · simp at hs; subst hs
          exact ⟨h.noleak, h.pure, h.out⟩
        · simp at hs
      · split at hs
        · split at hs
          · split at hs
            · simp at hs; subst hs
              exact ⟨h.noleak, h.pure, h.out⟩
            · simp at hs
          · split at hs
            · simp at hs; subst hs
              exact ⟨h.noleak, h.pure, h.out⟩
            · simp at hs; subst hs
              exact ⟨h.noleak, h.pure, h.out⟩
        · simp at hs

/-! ## When can a goroutine move -/

/-- a worker that is neither finished nor leaked can always move (the consumer drains), unless the
    pool has panicked or it waits on the empty, open input channel with nothing offered to it -/
theorem worker_can_move (Sh : Shape) (f : α → β) (stops : α → Bool) (s : PState α β) (i : Nat) (p : Phase α β)
    (hp : s.panicked = false) (hget : s.workers[i]? = some p) (h0 : stepFn Sh f stops s i 0 = none) :
    p = .finished ∨ p = .leaked ∨ (p = .idle ∧ s.inp = [] ∧ (s.srcOpen = true ∨ (s.cap = 0 ∧ s.prod = true))) := by
  unfold stepFn at h0
  simp [hp, hget] at h0
  cases p with
  | idle =>
    cases hi : s.inp with
    | nil =>
      simp [hi] at h0
      refine Or.inr (Or.inr ⟨rfl, rfl, ?_⟩)
      by_cases hr : s.cap = 0 ∧ s.prod = true
      · exact Or.inr hr
      · left
        simp [hr] at h0
        first
          | exact h0
          | exact h0.2
          | (simp at hr; exact h0 (fun hc => by simpa using hr hc))
    | cons _ _ => simp [hi] at h0
  | holding x =>
    cases hsx : stops x <;> cases he : Sh.early <;> simp_all
  | computed x y =>
    try simp at h0
    cases hcl : s.closed <;> simp [hcl] at h0
  | exiting => simp at h0
  | finished => left; rfl
  | leaked => right; left; rfl

/-- …and in the rendezvous case (capacity 0, producer running) nothing is offered: `pending = []` -/
theorem worker_stuck_rendezvous (Sh : Shape) (f : α → β) (stops : α → Bool) (s : PState α β) (i : Nat)
    (hp : s.panicked = false) (hget : s.workers[i]? = some .idle) (hinp : s.inp = [])
    (h0 : stepFn Sh f stops s i 0 = none) (hc : s.cap = 0) (hpr : s.prod = true) : s.pending = [] := by
  unfold stepFn at h0
  simp [hp, hget, hinp, hc, hpr] at h0
  cases hpd : s.pending with
  | nil => rfl
  | cons x r => simp [hpd] at h0

/-- a running producer can move as soon as there is room in the channel or nothing left to send -/
theorem producer_can_move (Sh : Shape) (f : α → β) (stops : α → Bool) (s : PState α β)
    (hp : s.panicked = false) (hprod : s.prod = true) (hroom : s.pending = [] ∨ s.inp.length < s.cap)
    (h0 : stepFn Sh f stops s (s.workers.length + 1) 0 = none) : False := by
  unfold stepFn at h0
  have hget : s.workers[s.workers.length + 1]? = none := by
    rw [List.getElem?_eq_none_iff]; omega
  simp [hp, hget, hprod] at h0
  cases hpd : s.pending with
  | nil => cases hpc : Sh.producerCloses <;> simp [hpd, hpc] at h0
  | cons x r =>
    rcases hroom with h | h
    · rw [hpd] at h; cases h
    · simp [hpd] at h0; omega

/-- when nothing can move, every worker is gone and, if the WaitGroup is at zero, the channel is closed -/
theorem closer_can_move (Sh : Shape) (f : α → β) (stops : α → Bool) (s : PState α β)
    (hp : s.panicked = false) (h0 : stepFn Sh f stops s s.workers.length 0 = none) (hwg : s.wg = 0) : s.closed = true := by
  unfold stepFn at h0
  simp [hp] at h0
  cases hc : s.closed
  · simp [hc, hwg] at h0
  · rfl

/-! ## Reachable states, and the functions the driver runs -/

section
open Classical

/-- every step strictly decreases the measure -/
theorem stepFn_mu (F : Shape) (f : α → β) (stops : α → Bool) (s s' : PState α β) (i c : Nat)
    (h : stepFn F f stops s i c = some s') : mu s' < mu s := by
  unfold stepFn at h
  split at h
  · simp at h
  · rename_i hp
    split at h
    · -- idle
      rename_i hget
      split at h
      · rename_i x r hinp
        simp at h; subst h
        have := sumMap_set Phase.weight s.workers i .idle (.holding x) hget
        simp [mu, hinp, Phase.weight] at *; omega
      · rename_i hinp
        split at h
        · split at h
          · rename_i x r hpend
            simp at h; subst h
            have := sumMap_set Phase.weight s.workers i .idle (.holding x) hget
            simp [mu, hinp, hpend, Phase.weight] at *; omega
          · simp at h
        split at h
        · simp at h
        simp at h; subst h
        have := sumMap_set Phase.weight s.workers i .idle (if F.rangeEndDone then .exiting else .leaked) hget
        cases hr : F.rangeEndDone <;> simp [mu, hinp, Phase.weight, hr] at * <;> omega
    · -- holding
      rename_i x hget
      split at h
      · split at h
        · rename_i e he
          simp at h; subst h
          have := sumMap_set Phase.weight s.workers i (.holding x) (if e then .exiting else .leaked) hget
          cases e <;> simp [mu, Phase.weight] at * <;> omega
        · simp at h
      · split at h
        · simp at h; subst h
          have := sumMap_set Phase.weight s.workers i (.holding x) (.computed x (f x)) hget
          simp [mu, Phase.weight] at *; omega
        · split at h
          · simp at h
          · split at h
            · rename_i x' _
              simp at h; subst h
              have := sumMap_set Phase.weight s.workers i (.holding x) (.computed x (f x')) hget
              simp [mu, Phase.weight] at *; omega
            · simp at h
    · -- computed
      rename_i x y hget
      split at h
      · simp at h; subst h
        simp [mu, hp]
      · simp at h; subst h
        have := sumMap_set Phase.weight s.workers i (.computed x y) .idle hget
        simp [mu, Phase.weight] at *; omega
    · -- exiting
      rename_i hget
      simp at h; subst h
      have := sumMap_set Phase.weight s.workers i .exiting .finished hget
      simp [mu, Phase.weight] at *; omega
    · simp at h
    · simp at h
    · -- the closer and the producer
      split at h
      · split at h
        · rename_i hc
          simp at h; subst h
          simp [mu, hc.2]
        · simp at h
      · split at h
        · rename_i hprod
          split at h
          · rename_i x r hpend
            split at h
            · simp at h; subst h
              simp [mu, hpend, hprod.2]; omega
            · simp at h
          · split at h
            · simp at h; subst h
              simp [mu, hprod.2]
            · simp at h; subst h
              simp [mu, hprod.2]
        · simp at h

theorem reachable_inv (F : PoolFacts) (f : α → β) (stops : α → Bool) (w c0 : Nat) (inp : List α) (s : PState α β)
    (h : Reachable F f stops (init w c0 inp) s) : Inv F.shape stops w c0 inp s := by
  induction h with
  | refl => exact inv_init _ _ _ _ _
  | step _ hs ih =>
    obtain ⟨i, c, hs⟩ := hs
    exact inv_step ih hs

theorem shape_clean (F : PoolFacts) (hF : F.exitsWithoutDone = [] ∧ F.unsyncSharedWrites = []) : F.shape.clean := by
  obtain ⟨h1, h2⟩ := hF
  have hall : ∀ e ∈ F.exits, e.done = true := by
    intro e he
    have := (List.filter_eq_nil_iff.mp h1) e he
    simpa using this
  refine ⟨?_, ?_, ?_⟩
  · simp only [PoolFacts.shape, PoolFacts.rangeEndDone, List.all_eq_true]
    intro e he
    simp [hall e he]
  · intro b hb
    simp only [PoolFacts.shape, PoolFacts.earlyExits, List.mem_map, List.mem_filter] at hb
    obtain ⟨e, ⟨he, _⟩, rfl⟩ := hb
    exact hall e he
  · simp [PoolFacts.shape, h2]

theorem reachable_invClean (F : PoolFacts) (hF : F.exitsWithoutDone = [] ∧ F.unsyncSharedWrites = [])
    (f : α → β) (stops : α → Bool) (w c0 : Nat) (inp : List α) (s : PState α β)
    (h : Reachable F f stops (init w c0 inp) s) : InvClean f s := by
  induction h with
  | refl => exact invClean_init _ _ _ _
  | step _ hs ih =>
    obtain ⟨i, c, hs⟩ := hs
    exact invClean_step (shape_clean F hF) ih hs

/-- in a state where nothing can move every worker goroutine is gone, or waits on the empty input
    channel that nobody will close -/
theorem terminal_workers (F : PoolFacts) (f : α → β) (stops : α → Bool) (s : PState α β)
    (hp : s.panicked = false) (hT : Terminal F f stops s) :
    ∀ p ∈ s.workers, p = .finished ∨ p = .leaked ∨ (p = .idle ∧ s.inp = [] ∧ (s.srcOpen = true ∨ (s.cap = 0 ∧ s.prod = true))) := by
  intro p hp'
  obtain ⟨i, hi⟩ := List.getElem?_of_mem hp'
  apply worker_can_move F.shape f stops s i p hp hi
  cases h0 : stepFn F.shape f stops s i 0 with
  | none => rfl
  | some s' => exact absurd ⟨i, 0, h0⟩ (hT s')

/-- with a producer that closes its channel no worker is left waiting, whatever the capacity of the
    channel (0 = rendezvous included): in a state where nothing can move every worker goroutine is gone -/
theorem terminal_workers_gone' (F : PoolFacts) (hprod : F.producerLeaks = []) (f : α → β) (stops : α → Bool)
    (w c0 : Nat) (inp : List α) (s : PState α β)
    (hI : Inv F.shape stops w c0 inp s) (hT : Terminal F f stops s) : ∀ p ∈ s.workers, p = .finished ∨ p = .leaked := by
  intro p hp'
  obtain ⟨i, hi⟩ := List.getElem?_of_mem hp'
  have hstep : ∀ j, stepFn F.shape f stops s j 0 = none := by
    intro j
    cases h0 : stepFn F.shape f stops s j 0 with
    | none => rfl
    | some s' => exact absurd ⟨j, 0, h0⟩ (hT s')
  rcases worker_can_move F.shape f stops s i p hI.nopanic hi (hstep i) with h | h | ⟨hidle, hinp, hsrc⟩
  · exact Or.inl h
  · exact Or.inr h
  · exfalso
    subst hidle
    -- the producer is still there (the channel is open, or it is the rendezvous case) …
    have hpr : s.prod = true := by
      rcases hsrc with hsrc | hsrc
      · cases hpp : s.prod
        · have := (hI.src2 hpp).2 (by simp [PoolFacts.shape, hprod])
          rw [hsrc] at this; cases this
        · rfl
      · exact hsrc.2
    -- … and it can move: send into the empty channel, or close when nothing is left
    apply producer_can_move F.shape f stops s hI.nopanic hpr _ (hstep _)
    by_cases hc : s.cap = 0
    · left; exact worker_stuck_rendezvous F.shape f stops s i hI.nopanic hi hinp (hstep i) hc hpr
    · right; rw [hinp]; simp; omega

theorem terminal_workers_gone (F : PoolFacts) (hprod : F.producerLeaks = []) (f : α → β) (stops : α → Bool)
    (w c0 : Nat) (_hc0 : 1 ≤ c0) (inp : List α) (s : PState α β)
    (hI : Inv F.shape stops w c0 inp s) (hT : Terminal F f stops s) : ∀ p ∈ s.workers, p = .finished ∨ p = .leaked :=
  terminal_workers_gone' F hprod f stops w c0 inp s hI hT

theorem exec_reachable (F : PoolFacts) (f : α → β) (stops : α → Bool) (s₀ : PState α β) :
    ∀ (sched : List (Nat × Nat)) (s : PState α β), Reachable F f stops s₀ s →
      Reachable F f stops s₀ (exec F.shape f stops sched s)
  | [], s, h => h
  | (i, c) :: r, s, h => by
    unfold exec
    split
    · rename_i s' hs
      exact exec_reachable F f stops s₀ r s' (Reachable.step h ⟨i, c, hs⟩)
    · exact exec_reachable F f stops s₀ r s h

theorem firstEnabled_step (Sh : Shape) (f : α → β) (stops : α → Bool) (s s' : PState α β) :
    ∀ n, firstEnabled Sh f stops s n = some s' → ∃ i, stepFn Sh f stops s i 0 = some s'
  | 0, h => ⟨0, h⟩
  | n + 1, h => by
    unfold firstEnabled at h
    split at h
    · rename_i s'' hs
      simp at h; subst h
      exact firstEnabled_step Sh f stops s s'' n hs
    · exact ⟨n + 1, h⟩

theorem firstEnabled_none (Sh : Shape) (f : α → β) (stops : α → Bool) (s : PState α β) :
    ∀ n, firstEnabled Sh f stops s n = none → ∀ i, i ≤ n → stepFn Sh f stops s i 0 = none
  | 0, h, i, hi => by
    have : i = 0 := by omega
    subst this; exact h
  | n + 1, h, i, hi => by
    unfold firstEnabled at h
    split at h
    · simp at h
    · rename_i hn
      by_cases hin : i ≤ n
      · exact firstEnabled_none Sh f stops s n hn i hin
      · have : i = n + 1 := by omega
        subst this; exact h

theorem drain_reachable (F : PoolFacts) (f : α → β) (stops : α → Bool) (s₀ : PState α β) :
    ∀ (fuel : Nat) (s : PState α β), Reachable F f stops s₀ s → Reachable F f stops s₀ (drain F.shape f stops fuel s)
  | 0, s, h => h
  | fuel + 1, s, h => by
    unfold drain
    split
    · rename_i s' hs
      obtain ⟨i, hi⟩ := firstEnabled_step F.shape f stops s s' _ hs
      exact drain_reachable F f stops s₀ fuel s' (Reachable.step h ⟨i, 0, hi⟩)
    · exact h

/-- if a goroutine can move with some choice it can move with choice 0 -/
theorem enabled_choice0 (Sh : Shape) (f : α → β) (stops : α → Bool) (s : PState α β) (i c : Nat)
    (h0 : stepFn Sh f stops s i 0 = none) : stepFn Sh f stops s i c = none := by
  cases hget : s.workers[i]? with
  | none =>
    have : stepFn Sh f stops s i c = stepFn Sh f stops s i 0 := by
      unfold stepFn; simp only [hget]
    rw [this]; exact h0
  | some p =>
    cases hp : s.panicked
    case true => simp [stepFn, hp]
    case false =>
    cases p with
    | idle =>
      cases hi : s.inp with
      | nil => simp [stepFn, hp, hget, hi] at h0 ⊢; exact h0
      | cons _ _ => simp [stepFn, hp, hget, hi] at h0
    | holding x =>
      simp [stepFn, hp, hget] at h0 ⊢
      cases hsx : stops x <;> cases he : Sh.early <;> simp_all
    | computed x y =>
      simp [stepFn, hp, hget] at h0
      cases hc : s.closed <;> simp [hc] at h0
    | exiting => simp [stepFn, hp, hget] at h0
    | finished => simp [stepFn, hp, hget]
    | leaked => simp [stepFn, hp, hget]

/-- nothing can move as soon as no goroutine (workers, closer, producer) can move with choice 0 -/
theorem terminal_of_none (F : PoolFacts) (f : α → β) (stops : α → Bool) (s : PState α β)
    (h : ∀ i, i ≤ s.workers.length + 1 → stepFn F.shape f stops s i 0 = none) : Terminal F f stops s := by
  intro s' ⟨i, c, hs⟩
  by_cases hi : i ≤ s.workers.length + 1
  · have := enabled_choice0 F.shape f stops s i c (h i hi)
    rw [this] at hs; cases hs
  · have hlt : s.workers.length + 1 < i := by omega
    unfold stepFn at hs
    split at hs
    · cases hs
    · have hget : s.workers[i]? = none := by
        rw [List.getElem?_eq_none_iff]; omega
      have h1 : i ≠ s.workers.length := by omega
      have h2 : i ≠ s.workers.length + 1 := by omega
      simp [hget, h1, h2] at hs

theorem drain_terminal (F : PoolFacts) (f : α → β) (stops : α → Bool) :
    ∀ (fuel : Nat) (s : PState α β), mu s ≤ fuel → Terminal F f stops (drain F.shape f stops fuel s)
  | 0, s, h => by
    intro s' ⟨i, c, hs⟩
    have := stepFn_mu F.shape f stops s s' i c hs
    simp [drain] at *; omega
  | fuel + 1, s, h => by
    unfold drain
    split
    · rename_i s' hs
      obtain ⟨i, hi⟩ := firstEnabled_step F.shape f stops s s' _ hs
      have := stepFn_mu F.shape f stops s s' i 0 hi
      exact drain_terminal F f stops fuel s' (by omega)
    · rename_i hn
      intro s' ⟨i, c, hs⟩
      have hnone := firstEnabled_none F.shape f stops s _ hn
      by_cases hi : i ≤ s.workers.length + 1
      · have := enabled_choice0 F.shape f stops s i c (hnone i hi)
        rw [this] at hs; cases hs
      · -- beyond the producer nobody exists
        have hlt : s.workers.length + 1 < i := by omega
        unfold stepFn at hs
        split at hs
        · cases hs
        · have hget : s.workers[i]? = none := by
            rw [List.getElem?_eq_none_iff]; omega
          have h1 : i ≠ s.workers.length := by omega
          have h2 : i ≠ s.workers.length + 1 := by omega
          simp [hget, h1, h2] at hs

end

/-! ## Two pool shapes that differ only in how many early exits (all reaching `Done`) they have
      generate the same transition relation -/

/-- same behaviour up to the numbering of the early exits -/
def Shape.similar (A B : Shape) : Prop :=
  A.rangeEndDone = B.rangeEndDone ∧ A.pureCompute = B.pureCompute ∧ A.producerCloses = B.producerCloses ∧
  A.early.isEmpty = B.early.isEmpty ∧
  (∀ e ∈ A.early, e = true) ∧ (∀ e ∈ B.early, e = true)

theorem Shape.similar_symm {A B : Shape} (h : A.similar B) : B.similar A :=
  ⟨h.1.symm, h.2.1.symm, h.2.2.1.symm, h.2.2.2.1.symm, h.2.2.2.2.2, h.2.2.2.2.1⟩

theorem step_simulation {A B : Shape} (h : A.similar B) (f : α → β) (stops : α → Bool) (s s' : PState α β) (i c : Nat)
    (hs : stepFn A f stops s i c = some s') : ∃ c', stepFn B f stops s i c' = some s' := by
  obtain ⟨hR, hP, hC, hE, hA, hB⟩ := h
  cases hp : s.panicked
  case true => simp [stepFn, hp] at hs
  case false =>
  cases hw : s.workers[i]? with
  | none => exact ⟨c, by simpa [stepFn, hp, hw, hC] using hs⟩
  | some p =>
    cases p with
    | idle => exact ⟨c, by simpa [stepFn, hp, hw, hR] using hs⟩
    | computed x y => exact ⟨c, by simpa [stepFn, hp, hw] using hs⟩
    | exiting => exact ⟨c, by simpa [stepFn, hp, hw] using hs⟩
    | finished => simp [stepFn, hp, hw] at hs
    | leaked => simp [stepFn, hp, hw] at hs
    | holding x =>
      cases hsx : stops x
      case false => exact ⟨c, by simpa [stepFn, hp, hw, hsx, hP] using hs⟩
      case true =>
        cases ha : A.early with
        | nil =>
          have hb : B.early = [] := by
            rw [ha] at hE
            cases hbb : B.early with
            | nil => rfl
            | cons _ _ => rw [hbb] at hE; simp at hE
          exact ⟨c, by simpa [stepFn, hp, hw, hsx, ha, hb, hP] using hs⟩
        | cons a ra =>
          cases hb : B.early with
          | nil => rw [ha, hb] at hE; simp at hE
          | cons b rb =>
            have hbt : b = true := hB b (by rw [hb]; simp)
            subst hbt
            refine ⟨0, ?_⟩
            simp [stepFn, hp, hw, hsx, ha] at hs
            simp [stepFn, hp, hw, hsx, hb]
            -- whichever early exit A took, it reaches Done
            cases hc : (a :: ra)[c]? with
            | none => simp [hc] at hs
            | some e =>
              have het : e = true := hA e (by rw [ha]; exact List.mem_of_getElem? hc)
              subst het
              simpa [hc] using hs

theorem step_congr {F G : PoolFacts} (h : F.shape.similar G.shape) (f : α → β) (stops : α → Bool) (s s' : PState α β) :
    Step F f stops s s' ↔ Step G f stops s s' := by
  constructor
  · intro ⟨i, c, hs⟩
    obtain ⟨c', hs'⟩ := step_simulation h f stops s s' i c hs
    exact ⟨i, c', hs'⟩
  · intro ⟨i, c, hs⟩
    obtain ⟨c', hs'⟩ := step_simulation (Shape.similar_symm h) f stops s s' i c hs
    exact ⟨i, c', hs'⟩

theorem reachable_congr {F G : PoolFacts} (h : F.shape.similar G.shape) (f : α → β) (stops : α → Bool) (s₀ s : PState α β)
    (hr : Reachable F f stops s₀ s) : Reachable G f stops s₀ s := by
  induction hr with
  | refl => exact Reachable.refl
  | step _ hs ih => exact Reachable.step ih ((step_congr h f stops _ _).mp hs)

theorem terminal_congr {F G : PoolFacts} (h : F.shape.similar G.shape) (f : α → β) (stops : α → Bool) (s : PState α β)
    (ht : Terminal F f stops s) : Terminal G f stops s :=
  fun s' hs => ht s' ((step_congr h f stops s s').mpr hs)

/-! ## One worker: the items are delivered in the order of the stream -/

def heldL : List (Phase α β) → List α
  | [] => []
  | p :: r => p.items ++ heldL r

theorem one_worker {ws : List (Phase α β)} (h1 : ws.length = 1) {i : Nat} {p : Phase α β} (hget : ws[i]? = some p) :
    i = 0 ∧ ws = [p] := by
  match ws, h1 with
  | [q], _ =>
    cases i with
    | zero => simp at hget; subst hget; exact ⟨rfl, rfl⟩
    | succ i => simp at hget

/-- with a single worker and no early exit the stream is an ordered concatenation:
    delivered (oldest first) ++ held ++ in the channel ++ not yet sent -/
structure OrdInv (inp0 : List α) (s : PState α β) : Prop where
  ord : s.done.reverse ++ heldL s.workers ++ s.inp ++ s.pending = inp0
  one : s.workers.length = 1

theorem ordInv_init (cap : Nat) (inp : List α) : OrdInv inp (init 1 cap inp : PState α β) := by
  refine ⟨?_, ?_⟩ <;> simp [init, heldL, Phase.items]

theorem ordInv_step {Sh : Shape} (hE : Sh.early = []) {f : α → β} {stops : α → Bool} {inp0 : List α} {s s' : PState α β} {i c : Nat}
    (h : OrdInv inp0 s) (hs : stepFn Sh f stops s i c = some s') : OrdInv inp0 s' := by
  have hord := h.ord
  have hone := h.one
  unfold stepFn at hs
  split at hs
  · simp at hs
  · split at hs
    · rename_i hget
      obtain ⟨hi, hw⟩ := one_worker hone hget
      subst hi
      split at hs
      · rename_i x r hinp
        simp at hs; subst hs
        refine ⟨?_, by simp [hw]⟩
        simp [hw, hinp, heldL, Phase.items] at hord ⊢
        exact hord
      · rename_i hinp0
        split at hs
        · split at hs
          · rename_i x r hpend
            simp at hs; subst hs
            refine ⟨?_, by simp [hw]⟩
            simp [hw, hinp0, hpend, heldL, Phase.items] at hord ⊢
            exact hord
          · simp at hs
        split at hs
        · simp at hs
        simp at hs; subst hs
        refine ⟨?_, by simp [hw]⟩
        cases hr : Sh.rangeEndDone <;> simp [hw, hr, heldL, Phase.items] at hord ⊢ <;> exact hord
    · rename_i x hget
      obtain ⟨hi, hw⟩ := one_worker hone hget
      subst hi
      split at hs
      · rename_i hcond
        simp [hE] at hcond
      · split at hs
        · simp at hs; subst hs
          refine ⟨?_, by simp [hw]⟩
          simp [hw, heldL, Phase.items] at hord ⊢
          exact hord
        · split at hs
          · simp at hs
          · split at hs
            · simp at hs; subst hs
              refine ⟨?_, by simp [hw]⟩
              simp [hw, heldL, Phase.items] at hord ⊢
              exact hord
            · simp at hs
    · rename_i x y hget
      obtain ⟨hi, hw⟩ := one_worker hone hget
      subst hi
      split at hs
      · simp at hs; subst hs
        exact ⟨hord, hone⟩
      · simp at hs; subst hs
        refine ⟨?_, by simp [hw]⟩
        simp [hw, heldL, Phase.items] at hord ⊢
        exact hord
    · rename_i hget
      obtain ⟨hi, hw⟩ := one_worker hone hget
      subst hi
      simp at hs; subst hs
      refine ⟨?_, by simp [hw]⟩
      simp [hw, heldL, Phase.items] at hord ⊢
      exact hord
    · simp at hs
    · simp at hs
    · split at hs
      · split at hs
        · simp at hs; subst hs
          exact ⟨hord, hone⟩
        · simp at hs
      · split at hs
        · split at hs
          · rename_i x r hpend
            split at hs
            · simp at hs; subst hs
              refine ⟨?_, hone⟩
              simp [hpend] at hord ⊢
              exact hord
            · simp at hs
          · split at hs
            · simp at hs; subst hs
              exact ⟨hord, hone⟩
            · simp at hs; subst hs
              exact ⟨hord, hone⟩
        · simp at hs

theorem reachable_ordInv (F : PoolFacts) (hE : F.earlyExits = []) (f : α → β) (stops : α → Bool) (cap : Nat) (inp : List α)
    (s : PState α β) (h : Reachable F f stops (init 1 cap inp) s) : OrdInv inp s := by
  induction h with
  | refl => exact ordInv_init _ _
  | step _ hs ih =>
    obtain ⟨i, c, hs⟩ := hs
    exact ordInv_step (by simp [PoolFacts.shape, hE]) ih hs

end Gotree.C11
