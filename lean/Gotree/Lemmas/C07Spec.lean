/-
  C07 — the vocabulary of Spec/Splits.lean (`sortS`, `canonSide`, `lightSize`) does not depend
  on the order in which the leaf names below a branch are listed: these are instances of the
  order-independent observations `f` the C07 theorems quantify over.
-/
import Gotree.Lemmas.C07
import Gotree.Spec.Splits

namespace Gotree.C07
open Gotree

theorem sortS_pairwise (l : List String) : (sortS l).Pairwise (fun a b => decide (a ≤ b) = true) := by
  unfold sortS
  apply List.pairwise_mergeSort
  · intro a b c h1 h2
    simp only [decide_eq_true_eq] at h1 h2 ⊢
    exact String.le_trans h1 h2
  · intro a b
    simp only [Bool.or_eq_true, decide_eq_true_eq]
    exact String.le_total a b

theorem sortS_perm_eq {l l' : List String} (h : l.Perm l') : sortS l = sortS l' := by
  apply List.Perm.eq_of_pairwise (le := fun a b => decide (a ≤ b) = true)
  · intro a b _ _ h1 h2
    simp only [decide_eq_true_eq] at h1 h2
    exact String.le_antisymm h1 h2
  · exact sortS_pairwise l
  · exact sortS_pairwise l'
  · unfold sortS
    exact (List.mergeSort_perm l _).trans (h.trans (List.mergeSort_perm l' _).symm)

theorem sortS_permInv : PermInv sortS := fun _ _ h => sortS_perm_eq h

theorem canonSide_permInv (all : List String) : PermInv (canonSide all) := by
  intro l l' h
  unfold canonSide
  have : sortS (l.filter all.contains) = sortS (l'.filter all.contains) := sortS_perm_eq (h.filter _)
  simp only [this]

theorem lightSize_permInv (all : List String) : PermInv (lightSize all) := by
  intro l l' h
  unfold lightSize
  have : (l.filter all.contains).length = (l'.filter all.contains).length := (h.filter _).length_eq
  simp only [this]

theorem pair_permInv {β γ : Type} (f : List String → β) (g : List String → γ) (hf : PermInv f) (hg : PermInv g) :
    PermInv (fun l => (f l, g l)) := by
  intro l l' h
  show (f l, g l) = (f l', g l')
  rw [hf l l' h, hg l l' h]

end Gotree.C07
