/-
  C01 — the regenerated source table `Gotree.Gen.C01` (harness/c01/extract.go, written on every run from the
  working tree of the repository) INTERPRETED and compared with the model functions themselves: nothing below
  restates the table; each Bool runs `Newick.isWhitespace / isIdent / scan / iter / writeDecor / writeNode` on a
  finite family of probes and asks whether the table, read as the Go conditions it was extracted from, gives the
  same answer.  The theorems `…TableCheck` of Proofs/C01.lean decide them.  Core Lean only.
-/
import Gotree.Gen.C01Syntax
import Gotree.Model.C01

namespace Gotree.C01.Table
open Gotree Gotree.Newick

def tokOf : String → Option Tok
  | "ILLEGAL" => some .illegal | "EOF" => some .eof | "WS" => some .ws | "IDENT" => some .ident
  | "NUMERIC" => some .numeric | "OPENPAR" => some .openpar | "CLOSEPAR" => some .closepar
  | "STARTLEN" => some .startlen | "OPENBRACK" => some .openbrack | "CLOSEBRACK" => some .closebrack
  | "NEWSIBLING" => some .newsibling | "EOT" => some .eot | _ => none

def allToks : List Tok :=
  [.illegal, .eof, .ws, .ident, .numeric, .openpar, .closepar, .startlen, .openbrack, .closebrack, .newsibling, .eot]

/-- every constant of newick_token.go is a token of the model, in the same order, none missing, none new -/
def tokensOK : Bool := decide (Gen.C01.tokens.map tokOf = allToks.map some)

/-- a codec that knows no number (the lexer / parser decisions probed below do not depend on the codec) -/
def noCodec : Codec := ⟨fun _ => ['#'], fun _ => false, fun _ => none⟩

/-- a codec for which the digit strings are the numbers -/
def digitCodec : Codec :=
  ⟨fun _ => ['#'], fun l => !l.isEmpty && l.all Char.isDigit, fun l => some ((l.foldl (fun n c => 10 * n + (c.toNat - 48)) 0 : Nat) : Rat)⟩

/-- the table may only name code points below this bound -/
def limit : Nat := 0x3100

/-- the code points probed one by one: all of ASCII and Latin-1, every other blank of `unicode.IsSpace`, a few more -/
def probeChars : List Nat :=
  List.range 0x100 ++ [0x1680, 0x2000, 0x2001, 0x2002, 0x2003, 0x2004, 0x2005, 0x2006, 0x2007, 0x2008, 0x2009, 0x200A,
    0x2028, 0x2029, 0x202F, 0x205F, 0x3000, 0x3B1, 0x4E2D, 0xFEFF, 0xFFFD, 0x1F600]

/-- newick_token.go / newick_lexer.go: `isWhitespace`, `isIdent` and the `switch ch` of `Scan`, against the model,
    for every code point of `probeChars` (and every one the table names) and both modes; `eof` is not a rune. -/
def lexerOK : Bool :=
  (decide (Gen.C01.eofRune < 0) || decide (Gen.C01.eofRune > 0x10FFFF)) &&    -- never delivered by ReadRune
  Gen.C01.scanSwitch.all (fun r => r.2.2 == "" || r.2.2 == "!ignoreSemiColumn") &&
  (Gen.C01.whitespace ++ Gen.C01.identExcluded ++ Gen.C01.identSemi ++ Gen.C01.scanSwitch.map (·.1)).all (fun n => decide (n < limit)) &&
  (probeChars ++ Gen.C01.whitespace ++ Gen.C01.identExcluded ++ Gen.C01.identSemi ++ Gen.C01.scanSwitch.map (·.1)).all fun n =>
    let c := Char.ofNat n
    (isWhitespace c == Gen.C01.whitespace.contains n) &&
    [false, true].all fun ign =>
      (isIdent ign c == (!Gen.C01.identExcluded.contains n && (ign || !Gen.C01.identSemi.contains n))) &&
      (let tk := (scan noCodec ign [c]).1
       if Gen.C01.whitespace.contains n then tk == .ws
       else match Gen.C01.scanSwitch.find? (fun r => r.1 == n && (r.2.2 == "" || !ign)) with
         | some r => some tk == tokOf r.2.1
         | none => tk == .ident)

/-- a parser state with `depth` elements on the stack: `node == nil` iff depth 0, `edge == nil` iff depth ≤ 1
    (theorem `parse_literal_stack`) -/
def stateAt (prev : Option Tok) (depth : Nat) : PState :=
  { stack := List.replicate depth (⟨⟨"", []⟩, EdgeD.blank, []⟩ : Frame), level := depth, prevTok := prev }

def prevs : List (Option Tok) := none :: allToks.map some

def prevIn (names : List String) (prev : Option Tok) : Bool :=
  match prev with
  | none => false
  | some t => names.any (fun nm => tokOf nm == some t)

def nilTestOK (test : String) (isNil : Bool) : Option Bool :=
  match test with
  | "" => some true
  | "nil" => some isNil
  | "nonnil" => some !isNil
  | _ => none

/-- the if / else-if chain of `case OPENBRACK`, read off the table -/
def tableCommentTarget (prev : Option Tok) (depth : Nat) : String :=
  let rec go : List (List String × String × String × String) → String
    | [] => "none"
    | (ps, et, nt, target) :: rest =>
      match nilTestOK et (decide (depth ≤ 1)), nilTestOK nt (depth == 0) with
      | some a, some b => if (ps.contains "*" || prevIn ps prev) && a && b then target else go rest
      | _, _ => "?"
  go Gen.C01.commentChain

/-- where the model puts the comment `[]` read in that state -/
def modelCommentTarget (prev : Option Tok) (depth : Nat) : String :=
  match iter noCodec (stateAt prev depth) .openbrack ['['] [] [']'] with
  | .cont st _ =>
    match st.stack with
    | f :: _ => if f.e.comments.length == 1 && f.d.comments.isEmpty then "edge"
                else if f.d.comments.length == 1 && f.e.comments.isEmpty then "node" else "?"
    | [] => "?"
  | .stop (.err _) => "err"
  | .stop _ => "?"

def commentOK : Bool :=
  Gen.C01.commentChain.all (fun r => r.1.all (fun nm => nm == "*" || (tokOf nm).isSome)) &&
  prevs.all fun prev => [0, 1, 2].all fun depth => tableCommentTarget prev depth == modelCommentTarget prev depth

/-- `case IDENT, NUMERIC` with a non-nil node: label, new tip or error, by prevTok -/
def modelIdentKind (prev : Option Tok) (depth : Nat) : String :=
  match iter noCodec (stateAt prev depth) .ident ['x'] [] [] with
  | .cont st _ => if st.stack.length == depth + 1 then "tip" else if st.stack.length == depth then "label" else "?"
  | .stop (.err _) => "err"
  | .stop _ => "?"

def tableIdentKind (prev : Option Tok) : String :=
  if prevIn Gen.C01.labelPrev prev then "label" else if prevIn Gen.C01.tipPrev prev then "tip" else "err"

def cmpNat (op : String) (a b : Nat) : Option Bool :=
  match op with
  | "==" => some (a == b) | "!=" => some (a != b) | ">" => some (decide (a > b)) | ">=" => some (decide (a ≥ b))
  | "<" => some (decide (a < b)) | "<=" => some (decide (a ≤ b)) | _ => none

def cmpRat (op : String) (a b : Rat) : Option Bool :=
  match op with
  | "==" => some (a == b) | "!=" => some (a != b) | ">" => some (decide (a > b)) | ">=" => some (decide (a ≥ b))
  | "<" => some (decide (a < b)) | "<=" => some (decide (a ≤ b)) | _ => none

/-- does the model take the label `lit` after `)` on an inner branch for a support/p-value pair -/
def modelPair (lit : String) : Bool :=
  match iter digitCodec (stateAt (some .closepar) 2) .ident lit.toList [] [] with
  | .cont st _ => (match st.stack with | f :: _ => f.e.sup != NIL && f.e.pval != NIL && f.d.name == "" | [] => false)
  | .stop _ => false

/-- `strings.Split` for a separator of one character -/
def splitChar (sep : Char) : List Char → List (List Char)
  | [] => [[]]
  | c :: r =>
    match splitChar sep r with
    | [] => [[]]
    | p :: ps => if c == sep then [] :: p :: ps else (c :: p) :: ps

/-- the same from the table: `vals := strings.Split(lit, sep); len(vals) op n` and both parts numbers -/
def tablePair (lit : String) : Option Bool :=
  match Gen.C01.splitLabel.1.toList with
  | [sep] =>
    let vals := splitChar sep lit.toList
    (cmpNat Gen.C01.splitLabel.2.1 vals.length Gen.C01.splitLabel.2.2).map fun c =>
      c && (match vals with | a :: b :: _ => digitCodec.isFloat a && digitCodec.isFloat b | _ => false)
  | _ => none

def identOK : Bool :=
  (Gen.C01.labelPrev ++ Gen.C01.tipPrev).all (fun nm => (tokOf nm).isSome) &&
  (prevs.all fun prev => [1, 2].all fun depth => tableIdentKind prev == modelIdentKind prev depth) &&
  ["1/2", "1/2/3", "1", "1/x", "x/2", "/", "1/", "//"].all (fun lit => tablePair lit == some (modelPair lit)) &&
  Gen.C01.parseFloatBits.all (· == 64)

/-- probes for the presence tests of the writer -/
def probes : List Rat := [-2, -1, -1/2, 0, 1/2, 1]

def hasChar (c : Char) (l : List Char) : Bool := l.any (· == c)

def sentinelOf : String → Option Rat
  | "NIL_SUPPORT" => some Gen.C01.nil_support
  | "NIL_LENGTH" => some Gen.C01.nil_length
  | "NIL_PVALUE" => some Gen.C01.nil_pvalue
  | _ => none

/-- is the field printed by the model's `writeDecor` when it holds `v` (the other conditions fulfilled) -/
def modelPrints (field : String) (v : Rat) : Option Bool :=
  match field with
  | "support" => some (hasChar '#' (writeDecor noCodec ⟨NIL, v, NIL, [], 0⟩ ⟨"", []⟩))
  | "pvalue" => some (hasChar '/' (writeDecor noCodec ⟨NIL, 1, v, [], 0⟩ ⟨"", []⟩))
  | "length" => some (hasChar ':' (writeDecor noCodec ⟨v, NIL, NIL, [], 0⟩ ⟨"", []⟩))
  | _ => none

def natOf (s : String) : Option Nat :=
  let l := s.toList
  if !l.isEmpty && l.all Char.isDigit then some (l.foldl (fun n c => 10 * n + (c.toNat - 48)) 0) else none

def parenOf (alts : List (String × String × String)) (nneigh : Nat) (isRoot : Bool) : Option Bool :=
  alts.foldl (fun acc a =>
    match acc with
    | none => none
    | some b =>
      let r : Option Bool :=
        if a.1 == "len(n.neigh)" then (natOf a.2.2).bind (fun k => cmpNat a.2.1 nneigh k)
        else if a.1 == "parent" && a.2.2 == "nil" then
          (if a.2.1 == "==" then some isRoot else if a.2.1 == "!=" then some !isRoot else none)
        else none
      r.map (b || ·)) (some false)

def kidsN (k : Nat) : Kids := List.replicate k ((⟨NIL, NIL, NIL, [], 0⟩ : EdgeD), T.node ⟨"t", []⟩ 0 [])

/-- tree/edge.go + Node.Newick: the sentinels are the model's `NIL`; each of support, p-value, length is guarded once,
    by a test that agrees with the model on the probes; a support is printed only next to an empty name; every
    FormatFloat is `('f', -1, 64)` (what `Codec.fmt` stands for) and there is one per guarded field; both
    parenthesis conditions agree with `writeNode` for 1..4 neighbours, root or not. -/
def writerOK : Bool :=
  Gen.C01.nil_support == NIL && Gen.C01.nil_length == NIL && Gen.C01.nil_pvalue == NIL &&
  ["support", "pvalue", "length"].all (fun f => (Gen.C01.writerGuards.filter (·.1 == f)).length == 1) &&
  Gen.C01.writerGuards.length == 3 &&
  (Gen.C01.writerGuards.all fun g =>
    match sentinelOf g.2.2 with
    | none => false
    | some s => probes.all fun v => (cmpRat g.2.1 v s).isSome && cmpRat g.2.1 v s == modelPrints g.1 v) &&
  Gen.C01.writerNameGuard == ["==", "\"\""] &&
  hasChar '#' (writeDecor noCodec ⟨NIL, 1, NIL, [], 0⟩ ⟨"", []⟩) && !hasChar '#' (writeDecor noCodec ⟨NIL, 1, NIL, [], 0⟩ ⟨"N", []⟩) &&
  Gen.C01.formatFloat.length == 3 && Gen.C01.formatFloat.all (fun r => r.1 == 102 && r.2.1 == -1 && r.2.2 == 64) &&
  Gen.C01.parenConds.length == 2 &&
  Gen.C01.parenConds.all fun alts =>
    [0, 1, 2, 3].all fun k => [false, true].all fun nonRoot =>
      let nneigh := k + (if nonRoot then 1 else 0)
      nneigh == 0 ||
        parenOf alts nneigh (!nonRoot) == some ((writeNode noCodec nonRoot (.node ⟨"n", []⟩ 0 (kidsN k))).head? == some '(')

end Gotree.C01.Table
