/-
  C16 — "depth = number of branches to the closest tip" for an unrooted tree, as a decidable local
  condition on the reported depths (`tipDistOK`): a node with one neighbour has depth 0, any other
  node has a neighbour and its depth is one more than the least depth among its neighbours.
  `Lemmas/C16DepthDist` proves that a list of depths passing it gives, for every node, the length of
  a shortest walk to a tip (`IsTipDist`).  Core Lean only.
-/
import Gotree.Model.Core

namespace Gotree.C16
open Gotree

def minList : List Nat → Nat
  | [] => 0
  | [a] => a
  | a :: b :: r => min a (minList (b :: r))

/-- the condition at node `v` -/
def tipDistAt (adj : List (List Nat)) (dep : List Nat) (v : Nat) : Bool :=
  let nb := adj.getD v []
  nb.all (fun u => decide (u < adj.length)) &&
  (if nb.length == 1 then dep.getD v 0 == 0
   else !nb.isEmpty && dep.getD v 0 == 1 + minList (nb.map fun u => dep.getD u 0))

def tipDistOK (adj : List (List Nat)) (dep : List Nat) : Bool :=
  dep.length == adj.length && (List.range adj.length).all (tipDistAt adj dep)

/-- the depths reported by the implementation (`-1` = not computed: refused) -/
def tipDistOKInt (adj : List (List Nat)) (ds : List Int) : Bool :=
  ds.all (fun d => decide (0 ≤ d)) && tipDistOK adj (ds.map Int.toNat)

end Gotree.C16
