/-
  C02 — what the property means, on the implementation's own observation:
  the outcome class of a reader is `ok` or `err` (never panic / exit / timeout),
  and every delivered tree was traversed, indexed and written without a crash.
-/
import Gotree.Model.C02

namespace Gotree.C02
open Gotree

/-- outcome classes the property allows for a reader -/
def outcomeAllowed (o : String) : Bool := o == "ok" || o == "err"

/-- classes the property allows for the use of a delivered tree
    (`err` = `ReinitIndexes` reported an error, e.g. duplicate tip names) -/
def useAllowed (u : String) : Bool := u == "ok" || u == "err"

/-- one delivered record as observed: id, and for a tree its use class and α dump -/
structure ObsRec where
  id : Int
  isTree : Bool
  use : String
  dump : String
  deriving Repr

/-- "either reports an error or delivers trees": a reader that returns normally hands over at least one
    record (a tree or an error); `ok` with no record at all is neither -/
def reportsOrDelivers (outcome : String) (recs : List ObsRec) : Bool :=
  outcome != "ok" || !recs.isEmpty

/-- the Spec predicate of C02 on one observation.  A record that carries an error may come with a
    half-built tree (PhyloXML): its `use` field then says how traversing that tree went. -/
def readOK (outcome : String) (recs : List ObsRec) : Bool :=
  outcomeAllowed outcome && reportsOrDelivers outcome recs &&
  recs.all fun r =>
    if r.isTree then useAllowed r.use && !(r.dump.startsWith "MALFORMED")
    else r.use == "" || useAllowed r.use

def containsSub (s sub : String) : Bool := (s.splitOn sub).length ≥ 2

/-- F7 (known finding, runtime behaviour outside any model): the Newick nesting probe at depth ≥ 3·10⁶ makes
    the Go runtime abort with `fatal error: stack overflow`.  Exactly that: any other crash at that depth
    (an index panic, another exit) is not this finding. -/
def isF7 (depth : Nat) (outcome : String) : Bool :=
  depth ≥ 3000000 && outcome.startsWith "panic:" && containsSub outcome "fatal%20error%3A%20stack%20overflow"

end Gotree.C02
