// Package c01: Newick write/parse round trip on the real code.
//
// Case lines (consumer: lean/Driver/C01.lean):
//
//	C01.rt     dump(orig)  text1  outcome  dump(reread)  text2
//	C01.parse  text  outcome  dump(tree)
//	C01.float  literal  class  value  fmt  back
//	C01.utf8   name-bytes  outcome  reread-name-bytes  text1  text2
//
// Request lines (corpus / replay): the op and its inputs only (first field(s)); outputs are recomputed.
package c01

import (
	"fmt"
	"math"
	"math/big"
	"strconv"
	"strings"

	"verifharness/core"

	"github.com/evolbioinfo/gotree/io/newick"
	"github.com/evolbioinfo/gotree/tree"
)

// Run generates the cases of C01.
func Run(c *core.Ctx) {
	if c.Arg != "" {
		Replay(c, core.ReadRequests(c.Arg))
		return
	}
	// fixed cases first: defect F2 and its neighbours
	for _, nm := range utf8Names {
		doUTF8(c, nm)
		doUTF8Inner(c, nm)
		doUTF8Comment(c, nm)
	}
	for _, l := range fixedLiterals {
		doFloat(c, l)
	}
	for _, s := range fixedTexts {
		doParse(c, s)
	}
	if !c.Quick() && c.Seed%1000 == 0 {
		// very large trees, once per thorough run (first shard): 10^5 tips, a node of degree 10^4, a deep comb
		for kind := 0; kind < 4; kind++ {
			doRT(c, bigTree(c.G, kind))
		}
	}
	n := c.Scale(1000, 10000)
	for i := 0; i < n; i++ {
		big := !c.Quick() && i%40 == 0
		n, wf := genTree(c.G, c.Quick(), big, i)
		if wf {
			doRTShrink(c, n)
		} else {
			doRT(c, n)
		}
	}
	m := c.Scale(1500, 8000)
	for i := 0; i < m; i++ {
		doFloat(c, genLiteral(c.G))
	}
	k := c.Scale(400, 5000)
	for i := 0; i < k; i++ {
		doParse(c, genText(c.G))
	}
	q := c.Scale(300, 3000)
	for i := 0; i < q; i++ {
		doParse(c, genQuotedText(c.G, 0)+";")
	}
	for _, s := range fixedMulti {
		doMulti(c, s)
		doMore(c, s)
	}
	mm := c.Scale(150, 1500)
	for i := 0; i < mm; i++ {
		txt := genMulti(c.G)
		doMulti(c, txt)
		doMore(c, txt)
	}
}

// Replay re-executes request lines on the real code.
func Replay(c *core.Ctx, lines []string) {
	for _, l := range lines {
		f := strings.Split(l, "\t")
		if len(f) < 2 {
			continue
		}
		switch f[0] {
		case "C01.rt0":
			// the dump cannot carry -0.0: the sign bits are the second field
			n, err := core.ParseDump(f[1])
			if err != nil {
				panic(err)
			}
			if len(f) > 2 {
				applySigns(n, f[2])
			}
			doRT(c, n)
		case "C01.rt":
			n, err := core.ParseDump(f[1])
			if err != nil {
				panic(err)
			}
			doRT(c, n)
		case "C01.parse":
			s, err := core.Unescape(f[1])
			if err != nil {
				panic(err)
			}
			doParse(c, s)
		case "C01.multi":
			s, err := core.Unescape(f[1])
			if err != nil {
				panic(err)
			}
			doMulti(c, s)
		case "C01.more":
			s, err := core.Unescape(f[1])
			if err != nil {
				panic(err)
			}
			doMore(c, s)
		case "C01.float":
			s, err := core.Unescape(f[1])
			if err != nil {
				panic(err)
			}
			doFloat(c, s)
		case "C01.utf8c":
			s, err := core.Unescape(f[1])
			if err != nil {
				panic(err)
			}
			doUTF8Comment(c, s)
		case "C01.utf8i":
			s, err := core.Unescape(f[1])
			if err != nil {
				panic(err)
			}
			doUTF8Inner(c, s)
		case "C01.utf8":
			s, err := core.Unescape(f[1])
			if err != nil {
				panic(err)
			}
			doUTF8(c, s)
		}
	}
}

// parseErrMsg: the message of the error Parse returns on s ("" when there is none)
func parseErrMsg(s string) (msg string) {
	core.Safe(func() {
		if _, err := newick.NewParser(strings.NewReader(s)).Parse(); err != nil {
			msg = err.Error()
		}
	})
	return
}

func parseText(s string) (t *tree.Tree, outcome string) {
	var err error
	if p, msg := core.Safe(func() { t, err = newick.NewParser(strings.NewReader(s)).Parse() }); p {
		return nil, "panic:" + core.Escape(msg)
	}
	if err != nil {
		return nil, "err"
	}
	return t, "ok"
}

// roundTrip runs the real writer and parser on n; fields are the case-line fields after the op name,
// good says whether the harness' own reading of the oracle holds (same tree up to ids / parent positions,
// same text).  The verdict is the Lean driver's; `good` only steers the shrinker.
func roundTrip(n *core.N) (fields []string, good bool) {
	core.NumberEdges(n)
	t, err := core.Build(n)
	if err != nil {
		panic(err)
	}
	var text1 string
	if p, msg := core.Safe(func() { text1 = t.Newick() }); p {
		return []string{n.Dump(), "", "panic:write:" + core.Escape(msg), "", ""}, false
	}
	t2, outcome := parseText(text1)
	if outcome != "ok" {
		return []string{n.Dump(), core.Escape(text1), outcome, "", ""}, false
	}
	a2, wf := core.Alpha(t2)
	if !wf.OK() {
		return []string{n.Dump(), core.Escape(text1), "panic:malformed:" + core.Escape(strings.Join(wf.Problems, ";")), "", ""}, false
	}
	text2 := t2.Newick()
	return []string{n.Dump(), core.Escape(text1), "ok", a2.Dump(), core.Escape(text2)}, sameN(n, a2) && text1 == text2
}

// applySigns: make the zeros whose sign bit is set negative zeros (inverse of signBits, for replays)
func applySigns(n *core.N, bits string) {
	i := 0
	var rec func(x *core.N)
	rec = func(x *core.N) {
		if x.E != nil {
			for _, p := range []*float64{&x.E.Len, &x.E.Sup, &x.E.Pval} {
				if i < len(bits) && bits[i] == '1' && *p == 0 {
					*p = negZero
				}
				i++
			}
		}
		for _, k := range x.Kids {
			rec(k)
		}
	}
	rec(n)
}

// signBits: math.Signbit of length, support and p-value of every branch in pre-order: what tells -0.0 from 0
// (both are the rational 0 in the dump).
func signBits(n *core.N) string {
	var b strings.Builder
	var rec func(x *core.N)
	rec = func(x *core.N) {
		if x.E != nil {
			for _, v := range []float64{x.E.Len, x.E.Sup, x.E.Pval} {
				if math.Signbit(v) {
					b.WriteByte('1')
				} else {
					b.WriteByte('0')
				}
			}
		}
		for _, k := range x.Kids {
			rec(k)
		}
	}
	rec(n)
	return b.String()
}

func hasNegZero(n *core.N) bool {
	if n.E != nil {
		for _, v := range []float64{n.E.Len, n.E.Sup, n.E.Pval} {
			if v == 0 && math.Signbit(v) {
				return true
			}
		}
	}
	for _, k := range n.Kids {
		if hasNegZero(k) {
			return true
		}
	}
	return false
}

// emitRT: a tree holding a -0.0 goes out as C01.rt0 (with the sign bits before and after), any other as C01.rt
func emitRT(c *core.Ctx, n *core.N, f []string) {
	if !hasNegZero(n) {
		c.Emit("C01.rt", f...)
		return
	}
	after := ""
	// the dump cannot hold the sign: re-run to take the sign bits from the re-read tree itself (these cases are few)
	core.NumberEdges(n)
	if t, err := core.Build(n); err == nil {
		if t2, oc := parseText(t.Newick()); oc == "ok" {
			if a2, wf := core.Alpha(t2); wf.OK() {
				after = signBits(a2)
			}
		}
	}
	c.Emit("C01.rt0", f[0], signBits(n), f[1], f[2], f[3], after, f[4])
}

func sameStrs(a, b []string) bool {
	if len(a) != len(b) {
		return false
	}
	for i := range a {
		if a[i] != b[i] {
			return false
		}
	}
	return true
}

// sameN: same shape, order, names, values and comments (ids and parent positions ignored)
func sameN(a, b *core.N) bool {
	if a.Name != b.Name || !sameStrs(a.Comments, b.Comments) || len(a.Kids) != len(b.Kids) || (a.E == nil) != (b.E == nil) {
		return false
	}
	if a.E != nil && (a.E.Len != b.E.Len || a.E.Sup != b.E.Sup || a.E.Pval != b.E.Pval || !sameStrs(a.E.Comments, b.E.Comments) ||
		math.Signbit(a.E.Len) != math.Signbit(b.E.Len) || math.Signbit(a.E.Sup) != math.Signbit(b.E.Sup) || math.Signbit(a.E.Pval) != math.Signbit(b.E.Pval)) {
		return false
	}
	for i := range a.Kids {
		if !sameN(a.Kids[i], b.Kids[i]) {
			return false
		}
	}
	return true
}

func doRT(c *core.Ctx, n *core.N) {
	f, _ := roundTrip(n)
	emitRT(c, n, f)
}

// doRTShrink: as doRT for a tree known to satisfy WF01; when the round trip fails the tree is first
// shrunk greedily (each step keeps WF01 and keeps the failure) and the small case is emitted BEFORE the
// original one, so that the first replay written by bin/check is the minimal request.
func doRTShrink(c *core.Ctx, n *core.N) {
	f, good := roundTrip(n)
	if !good {
		small := shrink(n.Clone())
		if fs, g := roundTrip(small); !g {
			emitRT(c, small, fs)
		}
	}
	emitRT(c, n, f)
}

func allNodes(n *core.N) []*core.N {
	out := []*core.N{n}
	for _, k := range n.Kids {
		out = append(out, allNodes(k)...)
	}
	return out
}

// shrink: greedy minimisation of a failing WF01 tree.
func shrink(n *core.N) *core.N {
	fails := func(x *core.N) bool {
		g := true
		if p, _ := core.Safe(func() { _, g = roundTrip(x) }); p {
			return false // the candidate cannot even be built: not a valid step
		}
		return !g
	}
	try := func(mutate func(x *core.N) bool) bool {
		// mutate works on a clone; keep it if the failure persists
		cl := n.Clone()
		if !mutate(cl) {
			return false
		}
		if fails(cl) {
			n = cl
			return true
		}
		return false
	}
	for progress, rounds := true, 0; progress && rounds < 200; rounds++ {
		progress = false
		count := len(allNodes(n))
		for i := 0; i < count; i++ {
			i := i
			// drop one child (root keeps two, inner nodes keep one)
			for k := 0; ; k++ {
				k := k
				done := false
				ok := try(func(x *core.N) bool {
					nd := allNodes(x)
					if i >= len(nd) {
						done = true
						return false
					}
					v := nd[i]
					min := 1
					if i == 0 {
						min = 2
					}
					if k >= len(v.Kids) || len(v.Kids) <= min {
						done = true
						return false
					}
					v.Kids = append(v.Kids[:k:k], v.Kids[k+1:]...)
					if v.PPos > len(v.Kids) {
						v.PPos = len(v.Kids)
					}
					return true
				})
				if ok {
					progress = true
					break
				}
				if done {
					break
				}
			}
		}
		count = len(allNodes(n))
		for i := 0; i < count; i++ {
			i := i
			steps := []func(v *core.N) bool{
				func(v *core.N) bool { r := len(v.Comments) > 0; v.Comments = nil; return r },
				func(v *core.N) bool {
					r := v.E != nil && len(v.E.Comments) > 0
					if r {
						v.E.Comments = nil
					}
					return r
				},
				func(v *core.N) bool {
					r := v.E != nil && v.E.Len != -1
					if r {
						v.E.Len = -1
						v.E.Comments = nil
					}
					return r
				},
				func(v *core.N) bool {
					r := v.E != nil && v.E.Pval != -1
					if r {
						v.E.Pval = -1
					}
					return r
				},
				func(v *core.N) bool {
					r := v.E != nil && v.E.Sup != -1
					if r {
						v.E.Sup = -1
						v.E.Pval = -1
					}
					return r
				},
				func(v *core.N) bool {
					r := len(v.Kids) > 0 && v.Name != ""
					if r {
						v.Name = ""
					}
					return r
				},
				func(v *core.N) bool {
					nm := fmt.Sprintf("t%d", i)
					r := len(v.Kids) == 0 && v.Name != nm
					if r {
						v.Name = nm
					}
					return r
				},
				func(v *core.N) bool {
					r := v.E != nil && v.E.Len != -1 && v.E.Len != 1
					if r {
						v.E.Len = 1
					}
					return r
				},
				func(v *core.N) bool {
					r := v.E != nil && v.E.Sup != -1 && v.E.Sup != 1
					if r {
						v.E.Sup = 1
					}
					return r
				},
				func(v *core.N) bool {
					r := v.E != nil && v.E.Pval != -1 && v.E.Pval != 1
					if r {
						v.E.Pval = 1
					}
					return r
				},
				func(v *core.N) bool { r := v.PPos != 0; v.PPos = 0; return r },
			}
			for _, st := range steps {
				st := st
				if try(func(x *core.N) bool {
					nd := allNodes(x)
					if i >= len(nd) {
						return false
					}
					return st(nd[i])
				}) {
					progress = true
				}
			}
		}
	}
	return n
}

func doParse(c *core.Ctx, s string) {
	t, outcome := parseText(s)
	if outcome == "err" {
		// fidelity only (decides nothing): the text of the error, to compare the REASON the model gives with the code's
		c.Emit("C01.parse", core.Escape(s), outcome, "", core.Escape(parseErrMsg(s)))
		return
	}
	if outcome != "ok" {
		c.Emit("C01.parse", core.Escape(s), outcome, "")
		return
	}
	a, wf := core.Alpha(t)
	if !wf.OK() {
		c.Emit("C01.parse", core.Escape(s), "panic:malformed", "")
		return
	}
	c.Emit("C01.parse", core.Escape(s), "ok", a.Dump())
}

// doMulti: ONE Parser on the text, Parse() called until it fails (at most 12 times).
func doMulti(c *core.Ctx, s string) {
	p := newick.NewParser(strings.NewReader(s))
	var classes []string
	var dumps []string
	for i := 0; i < 12; i++ {
		var t *tree.Tree
		var err error
		if pn, msg := core.Safe(func() { t, err = p.Parse() }); pn {
			classes = append(classes, "panic:"+core.Escape(msg))
			break
		}
		if err != nil {
			classes = append(classes, "err")
			break
		}
		a, wf := core.Alpha(t)
		if !wf.OK() {
			classes = append(classes, "panic:malformed")
			break
		}
		classes = append(classes, "ok")
		dumps = append(dumps, a.Dump())
	}
	c.Emit("C01.multi", core.Escape(s), strings.Join(classes, ","), strings.Join(dumps, "|"))
}

// doMore: the loop of utils.ReadMultiTrees over one line (3850fd2): ONE Parser,
// `for more := true; more; more = p.More() { Parse … break on error }` (at most 12 turns).
func doMore(c *core.Ctx, s string) {
	p := newick.NewParser(strings.NewReader(s))
	var classes []string
	var dumps []string
	turns := 0
	for more := true; more && turns < 12; turns++ {
		var t *tree.Tree
		var err error
		if pn, msg := core.Safe(func() { t, err = p.Parse() }); pn {
			classes = append(classes, "panic:"+core.Escape(msg))
			break
		}
		if err != nil {
			classes = append(classes, "err")
			break
		}
		a, wf := core.Alpha(t)
		if !wf.OK() {
			classes = append(classes, "panic:malformed")
			break
		}
		classes = append(classes, "ok")
		dumps = append(dumps, a.Dump())
		if pn, msg := core.Safe(func() { more = p.More() }); pn {
			classes = append(classes, "panic:more:"+core.Escape(msg))
			break
		}
	}
	c.Emit("C01.more", core.Escape(s), strings.Join(classes, ","), strings.Join(dumps, "|"))
}

var fixedMulti = []string{"(a,b);(c,d);", "(a,b);\n(c,d);\n", "(a,b); [x] (c,d);", "(a,b);(c,d)", "(a,b);;(c,d);", "(a,b)(c,d);", "(a,b);x(c,d);",
	"(a,b)); (c,d);", "(a,b);(c:inf,d);(e,f);", "", ";", "(a,b);   ", "[h](a,b);[i](c,d);[j]", "(a,b);(c,(d,e)f)g;((h));", "(a,b),(c);(d,e);"}

// labels and comments as other programs write them: the parser knows no quoting (a quote is an ordinary
// identifier rune, so metacharacters inside quotes still act), blanks are identifier runes, NHX / BEAST
// comments are ordinary comments.  Outside WF01: tie only.
var quotedLabels = []string{"'a b'", "'a,b'", "'it''s'", "\"x y\"", "'(x)'", "a b", "'a:1'", "'a[1]'", "_x_", "'  sp  '", "a_b", "'a;b'", "''", "'",
	"Homo sapiens", "'Homo sapiens'", "x'y", "'a]'", " lead", "trail ", "a\tb", "'a\nb'", "0.5", "'0.5'", "1e3 ", "a/b", "'1/2'"}

var richComments = []string{"[&&NHX:S=human:E=1.1.1:D=N]", "[&!color=#ff0000]", "[&rate=0.1,height_95%_HPD={1.0,2.0}]", "[%]", "[&&NHX]", "[]",
	"[&&NHX:B=100:T=9606][second]", "[& a = 1 ]", "[&&NHX:S='x]", "[[nested]", "[&&NHX:N=a(b,c)d;]", "[ ]", "[\t&&NHX ]"}

func genQuotedText(g *core.G, depth int) string {
	var b strings.Builder
	k := 2 + g.Intn(3)
	b.WriteByte('(')
	for i := 0; i < k; i++ {
		if i > 0 {
			b.WriteString([]string{",", ",", ", ", " ,"}[g.Intn(4)])
		}
		if depth < 3 && g.Chance(0.3) {
			b.WriteString(genQuotedText(g, depth+1))
			switch g.Intn(4) {
			case 0:
				b.WriteString(quotedLabels[g.Intn(len(quotedLabels))])
			case 1:
				b.WriteString([]string{"0.9", "100", "0.9/0.01", "'0.9'", "95 "}[g.Intn(5)])
			}
		} else {
			if g.Chance(0.05) {
				b.WriteString(richComments[g.Intn(len(richComments))]) // a comment before the label: an error
			}
			b.WriteString(quotedLabels[g.Intn(len(quotedLabels))])
		}
		if g.Chance(0.4) {
			b.WriteString(richComments[g.Intn(len(richComments))])
		}
		if g.Chance(0.6) {
			b.WriteString([]string{":1", ":0.5", ": 2", ":1e-3", ":'1'", ":1 "}[g.Intn(6)])
			if g.Chance(0.4) {
				b.WriteString(richComments[g.Intn(len(richComments))])
			}
		}
	}
	b.WriteByte(')')
	if depth == 0 {
		if g.Chance(0.3) {
			b.WriteString(quotedLabels[g.Intn(len(quotedLabels))])
		}
		if g.Chance(0.3) {
			b.WriteString(richComments[g.Intn(len(richComments))])
		}
	}
	return b.String()
}

// bigTree: 0 = star of 10^4 tips, 1 = balanced binary tree of 10^5 tips, 2 = 10^5 tips under a root of
// degree 10^4 (each child a small multifurcation), 3 = comb (caterpillar) of depth 3000.  All WF01, decorated lightly.
func bigTree(g *core.G, kind int) *core.N {
	cnt := 0
	tip := func() *core.N {
		cnt++
		e := core.NewE()
		if cnt%3 != 0 {
			e.Len = float64(cnt%1000) / 8
		}
		x := &core.N{Name: fmt.Sprintf("t%d", cnt), E: e}
		if cnt%97 == 0 {
			x.Comments = []string{"c  " + x.Name}
		}
		return x
	}
	inner := func(kids []*core.N) *core.N {
		cnt++
		e := core.NewE()
		e.Len = 0.1
		if cnt%2 == 0 {
			e.Sup = float64(cnt%101) / 100
			if cnt%4 == 0 {
				e.Pval = 0.05
			}
		}
		x := &core.N{E: e, Kids: kids}
		if cnt%5 == 1 {
			x.Name, e.Sup, e.Pval = fmt.Sprintf("N%d", cnt), -1, -1
		}
		if cnt%89 == 0 {
			e.Comments = []string{"b;" + fmt.Sprint(cnt)}
		}
		return x
	}
	var root *core.N
	switch kind {
	case 0:
		root = &core.N{}
		for i := 0; i < 10000; i++ {
			root.Kids = append(root.Kids, tip())
		}
	case 1:
		var bal func(n int) *core.N
		bal = func(n int) *core.N {
			if n == 1 {
				return tip()
			}
			return inner([]*core.N{bal(n / 2), bal(n - n/2)})
		}
		root = bal(100000)
		root.E = nil
	case 2:
		root = &core.N{}
		for i := 0; i < 10000; i++ {
			var ks []*core.N
			for j := 0; j < 10; j++ {
				ks = append(ks, tip())
			}
			root.Kids = append(root.Kids, inner(ks))
		}
	default:
		cur := inner([]*core.N{tip(), tip()})
		for i := 0; i < 3000; i++ {
			cur = inner([]*core.N{cur, tip()})
		}
		root = cur
		root.E = nil
	}
	root.Name = "R"
	root.Comments = []string{"big"}
	return root
}

func genMulti(g *core.G) string {
	var b strings.Builder
	k := 1 + g.Intn(5)
	for i := 0; i < k; i++ {
		n, _ := genTree(g, true, false, 1+g.Intn(50))
		core.NumberEdges(n)
		t, err := core.Build(n)
		if err != nil {
			panic(err)
		}
		txt := t.Newick()
		if len(txt) > 600 {
			txt = "(s1,s2:1[c])r;"
		}
		if g.Chance(0.1) && len(txt) > 2 { // damage one tree
			pos := g.Intn(len(txt))
			txt = txt[:pos] + string("();,:[] x"[g.Intn(9)]) + txt[pos+1:]
		}
		b.WriteString(txt)
		b.WriteString([]string{"", "", "\n", " ", "\r\n\t", "[note]", "x", ";"}[g.Intn(8)])
	}
	return strings.ToValidUTF8(b.String(), "?")
}

func doFloat(c *core.Ctx, lit string) {
	v, err := strconv.ParseFloat(lit, 64)
	if err != nil {
		c.Emit("C01.float", core.Escape(lit), "bad", "", "", "", "")
		return
	}
	if math.IsNaN(v) || math.IsInf(v, 0) {
		c.Emit("C01.float", core.Escape(lit), "nonfin", "", "", "", "")
		return
	}
	text := strconv.FormatFloat(v, 'f', -1, 64)
	back, err := strconv.ParseFloat(text, 64)
	bs := core.Rat(back)
	if err != nil {
		bs = "0/1" // unreadable own text: the driver sees back != value unless the value is 0 …
		if v == 0 {
			bs = "1"
		}
	}
	// the text of the value read back: tells -0 from 0, which have the same rational
	c.Emit("C01.float", core.Escape(lit), "fin", core.Rat(v), core.Escape(text), bs, core.Escape(strconv.FormatFloat(back, 'f', -1, 64)))
}

// doUTF8: a three-tip tree one of whose tips carries the given bytes as its name.
func doUTF8(c *core.Ctx, name string) {
	n := &core.N{Kids: []*core.N{{Name: name, E: core.NewE()}, {Name: "b", E: core.NewE()}, {Name: "c", E: core.NewE()}}}
	core.NumberEdges(n)
	t, err := core.Build(n)
	if err != nil {
		panic(err)
	}
	text1 := t.Newick()
	t2, outcome := parseText(text1)
	if outcome != "ok" {
		c.Emit("C01.utf8", core.Escape(name), outcome, "", core.Escape(text1), "")
		return
	}
	a2, wf := core.Alpha(t2)
	if !wf.OK() || len(a2.Kids) < 1 {
		c.Emit("C01.utf8", core.Escape(name), "shape", "", core.Escape(text1), "")
		return
	}
	c.Emit("C01.utf8", core.Escape(name), "ok", core.Escape(a2.Kids[0].Name), core.Escape(text1), core.Escape(t2.Newick()))
}

// doUTF8Comment: the same bytes as a node comment AND as a branch comment of one tip.
func doUTF8Comment(c *core.Ctx, bytes string) {
	e := core.NewE()
	e.Len = 1
	e.Comments = []string{bytes}
	n := &core.N{Kids: []*core.N{{Name: "a", Comments: []string{bytes}, E: e}, {Name: "b", E: core.NewE()}, {Name: "c", E: core.NewE()}}}
	core.NumberEdges(n)
	t, err := core.Build(n)
	if err != nil {
		panic(err)
	}
	text1 := t.Newick()
	t2, outcome := parseText(text1)
	if outcome != "ok" {
		c.Emit("C01.utf8c", core.Escape(bytes), outcome, "", "", core.Escape(text1))
		return
	}
	a2, wf := core.Alpha(t2)
	if !wf.OK() || len(a2.Kids) < 1 || len(a2.Kids[0].Comments) != 1 || a2.Kids[0].E == nil || len(a2.Kids[0].E.Comments) != 1 {
		c.Emit("C01.utf8c", core.Escape(bytes), "shape", "", "", core.Escape(text1))
		return
	}
	c.Emit("C01.utf8c", core.Escape(bytes), "ok", core.Escape(a2.Kids[0].Comments[0]), core.Escape(a2.Kids[0].E.Comments[0]), core.Escape(text1))
}

// doUTF8Inner: the same bytes as the name of an inner node.
func doUTF8Inner(c *core.Ctx, name string) {
	in := &core.N{Name: name, E: core.NewE(), Kids: []*core.N{{Name: "x", E: core.NewE()}, {Name: "y", E: core.NewE()}}}
	n := &core.N{Kids: []*core.N{in, {Name: "b", E: core.NewE()}, {Name: "c", E: core.NewE()}}}
	core.NumberEdges(n)
	t, err := core.Build(n)
	if err != nil {
		panic(err)
	}
	text1 := t.Newick()
	t2, outcome := parseText(text1)
	if outcome != "ok" {
		c.Emit("C01.utf8i", core.Escape(name), outcome, "", core.Escape(text1), "")
		return
	}
	a2, wf := core.Alpha(t2)
	if !wf.OK() || len(a2.Kids) < 1 {
		c.Emit("C01.utf8i", core.Escape(name), "shape", "", core.Escape(text1), "")
		return
	}
	c.Emit("C01.utf8i", core.Escape(name), "ok", core.Escape(a2.Kids[0].Name), core.Escape(text1), core.Escape(t2.Newick()))
}

// names for the utf8 op: the first ones are not valid UTF-8 (defect F2), the others are and must survive
var utf8Names = []string{
	"a\xffb",        // a byte that never occurs in UTF-8
	"\xc3",          // truncated two-byte sequence
	"x\xe2\x82",     // truncated three-byte sequence
	"\xed\xa0\x80",  // surrogate half
	"\xc0\xaf",      // overlong
	"a\x00b",        // NUL (F1, repaired)
	"\xef\xbf\xbd",  // a genuine U+FFFD
	"é日本\U0001F600", // 2-, 3- and 4-byte runes
}

/* ---------- trees ---------- */

var negZero = math.Copysign(0, -1)

var valuePool = []float64{0, 0.5, 1, 2, 0.125, 3.75, 0.1, 0.2, 0.30000000000000004, 1e-7, 123.456, 1e21, 1e22, 1e23,
	-0.5, -2, -1.5, 100, 1234567.875, 0.000001, 9007199254740993, 0.05, 0.95, 1e-5,
	4.35, 0.1 + 0.7, 1.0 / 3.0, 2.5e-10, 6.02214076e23}

// values whose 'f' text has hundreds of digits (mode 2 only: they make the case lines long)
var extremePool = []float64{5e-324, 1.7976931348623157e308, 2.2250738585072014e-308, 1e-300, -1e300, 2.2250738585072011e-308, 1e-320}

// genValue: mode 0 = multiples of 1/8 only, 1 = those and the pool of decimal / exponent-sized values,
// 2 = also random bit patterns (any finite float64)
func genValue(g *core.G, mode int) float64 {
	for {
		var v float64
		if mode > 0 && g.Chance(0.004) {
			return negZero // -0.0: the rational 0 with the sign bit set (such trees go out as C01.rt0)
		}
		switch r := g.Intn(10); {
		case mode == 0 || r < 5:
			v = float64(g.Intn(400)) / 8
		case mode == 1 || r < 8:
			v = valuePool[g.Intn(len(valuePool))]
		case r < 9:
			v = extremePool[g.Intn(len(extremePool))]
		default:
			v = math.Float64frombits(g.R.Uint64())
		}
		if math.IsNaN(v) || math.IsInf(v, 0) || v == -1 {
			continue
		}
		return v
	}
}

var tipNameFmt = []string{"t%d", "t%d", "t%d", "%d", "1e%d", "a b%d", "x/y%d", "'q%d'", "é%d", "日本%d", "0.5/0.%d", "inf%d", "a\x00b%d",
	"T_%d|x=1", "a\tb%d", "a b%d", "{%d}", "-%d", "0x%dp1", "\"%d\"", "%d_0", "a  b%d", "\U0001F600%d", "+.%d",
	// printf- and escape-sensitive characters are ordinary name characters
	"p%%%d", "%%d%d", "%%s_%d", "a\\b%d", "a%%%%b%d", "%%!%d", "$%d", "`%d`", "\\n%d", "%%v%d", "#%d", "&%d", "<%d>", "~%d^", "*%d?", "a=b%d", "@%d", "95%%_%d", "%%%d%%",
	// round 7: blanks of unicode.IsSpace that are NOT blanks of the lexer, inside a name (TrimSpace must not see them, the lexer must keep them)
	"a\u00a0b%d", "a\u2028b%d", "a\vb%d", "a\fb%d", "x\u0085y%d", "1 %d", "1/2/%d"}

var innerNames = []string{"N%d", "N%d", "x/y%d", "1/x%d", "in %d", "é%d", "n%d ", "a%d/1", "1e%dz", "0x%d", "-", "_%d", "p/q/r%d", "/%d", "%d/", "%%%d", "n\\%d", "N%%d_%d", "%%s%d", "100%%_%d", "\\\\%d",
	// round 7: labels that only just fail to be numeric: a number followed by a blank (the lexer keeps the blank, ParseFloat refuses it),
	// three '/'-separated numbers (len(vals) == 2 fails), a number and a blank-terminated number, a trailing no-break space
	"%d ", "0.5 ", "1e%d\t", "1/2/%d", "0.5/0.25/%d", "1/%d ", "n%d\u00a0", "1//%d"}

var comments = []string{"&x=1", "c", "a b", "&&NHX:S=x", "k;(),:[", "", " ", "[[", "1.5", "é;", "a\x00", "(", ";",
	// runs of blanks: a WS token of the comment scanner (at the start, or right after a metacharacter) must come back whole
	"  ", "   x", "\t\t", " \t ", "    ", "a(  b", "x,   y", ":  1", ")\t\tz", "[  [", "(\t \t)", "\n\n x", "k:\r\n v", "a  b", " ( , ) ", ";  ;",
	// printf- and escape-sensitive contents: a writer or reader that formats / unescapes must not touch them
	"&bootstrap=95%", "%", "%d", "%s", "%%", "100%!", "\\", "\\n", "%v %x", "{%}", "\"q\"", "'", "$1", "`", "\\t", "%\x00", "%!(EXTRA)", "a%20b", "&#38;", "\\\\"}

var bareNames = []string{"x/y%d", "1/x%d", "a%d/1", "x%d/2", "/%d", "%d/", "1//%d", "1/2/%d", "1/%d "}

func genComment(g *core.G) string { return comments[g.Intn(len(comments))] }

// genTree draws a WF01 tree (90 %) or one that violates exactly one clause of the quantifier (10 %, tie only).
func genTree(g *core.G, quick, big bool, i int) (*core.N, bool) {
	o := core.DefaultOpts()
	o.MinTips, o.MaxTips = 2, 40
	o.MaxDeg = 8
	o.Multif = 0.4
	if i%7 == 0 {
		o.MaxDeg = 40
		o.Multif = 0.7
	}
	if big {
		o.MinTips, o.MaxTips = 200, 400
		o.MaxDeg = 40
	}
	if g.Chance(0.2) {
		o.Singles = 0.1
	}
	n, _ := g.Tree(o)
	simple := g.Chance(0.3)
	mode := 1
	if simple {
		mode = 0
	} else if g.Chance(0.15) {
		mode = 2
	}
	// round 7: "bare" trees — no length, no support, no comment, inner names of the x/y kind: nothing after such a label
	// calls ParseFloat or consumeComment again, so the error its failed ParseFloat left in parseIter's named result is
	// only cleared by the Pop of the next ',' / ')' (model: `stale`)
	bare := !simple && !big && g.Chance(0.05)
	cnt := 0
	var rec func(x *core.N, root bool)
	rec = func(x *core.N, root bool) {
		x.Name, x.Comments = "", nil
		inner := len(x.Kids) > 0
		if bare {
			cnt++
			if !root {
				x.E = core.NewE()
			}
			if !inner {
				x.Name = fmt.Sprintf("t%d", cnt)
			} else if g.Chance(0.6) {
				x.Name = fmt.Sprintf(bareNames[g.Intn(len(bareNames))], cnt)
			}
			for _, k := range x.Kids {
				rec(k, false)
			}
			return
		}
		if !root {
			x.E = core.NewE()
			if g.Chance(0.8) {
				x.E.Len = genValue(g, mode)
			}
			if x.E.Len != -1 && g.Chance(0.15) {
				x.E.Comments = []string{genComment(g)}
			}
		}
		cnt++
		if !inner {
			f := tipNameFmt[0]
			if !simple && g.Chance(0.3) {
				f = tipNameFmt[g.Intn(len(tipNameFmt))]
			}
			x.Name = fmt.Sprintf(f, cnt)
		} else {
			switch r := g.Intn(10); {
			case r < 2:
				f := innerNames[0]
				if !simple {
					f = innerNames[g.Intn(len(innerNames))]
				}
				if strings.Contains(f, "%d") {
					x.Name = fmt.Sprintf(f, cnt)
				} else {
					x.Name = f
				}
			case r < 8 && !root:
				x.E.Sup = genValue(g, mode)
				if g.Chance(0.3) {
					x.E.Pval = genValue(g, mode)
				}
			}
		}
		if g.Chance(0.25) {
			k := 1 + g.Intn(3)
			for j := 0; j < k; j++ {
				x.Comments = append(x.Comments, genComment(g))
			}
		}
		for _, k := range x.Kids {
			rec(k, false)
		}
	}
	rec(n, true)
	if g.Chance(0.25) {
		// the parent anywhere in the neighbour slices, as after a re-rooting: the writer must skip it
		var pp func(x *core.N, root bool)
		pp = func(x *core.N, root bool) {
			if !root && len(x.Kids) > 0 {
				x.PPos = g.Intn(len(x.Kids) + 1)
			}
			for _, k := range x.Kids {
				pp(k, false)
			}
		}
		pp(n, true)
	}
	if g.Chance(0.15) {
		spoil(g, n)
		return n, false
	}
	return n, true
}

// spoil breaks one clause of the quantifier (the oracle is then not applied; the model must still agree).
func spoil(g *core.G, n *core.N) {
	var nodes []*core.N
	var rec func(x *core.N)
	rec = func(x *core.N) {
		for _, k := range x.Kids {
			nodes = append(nodes, k)
			rec(k)
		}
	}
	rec(n)
	x := nodes[g.Intn(len(nodes))]
	tip := len(x.Kids) == 0
	switch g.Intn(14) {
	case 0:
		x.E.Sup = 0.5 // support on a tip, or next to a name
		if !tip && x.Name == "" {
			x.Name = "named"
		}
		x.Comments = append(x.Comments, "sc")
	case 1:
		x.E.Comments = []string{"one", "two"}
	case 2:
		x.E.Len = -1
		x.E.Comments = []string{"nolen"}
	case 3:
		x.Name = "12"
	case 4:
		x.Name = "1/2"
	case 5:
		x.Name = " lead"
	case 6:
		x.Name = "trail "
	case 7:
		x.Comments = append(x.Comments, "a]b")
	case 8:
		x.Name = "a(b"
	case 9:
		x.Name = ""
	case 10:
		x.E.Pval = 0.5
		x.E.Sup = -1
	case 11:
		n.Name = "42" // numeric root name
	case 12:
		n.Kids = n.Kids[:1] // a root with a single neighbour
	case 13:
		n.Name = "1/2" // float/float root name: kept (no branch above the root)
	}
}

/* ---------- float literals ---------- */

var fixedLiterals = []string{"1e999", "-1e999", "0x1p-2", "0X1P+2", "0x1p", "0x1", "0x.8p1", "0x1.fffffffffffff8p1023", "0x1.fffffffffffff7p1023",
	"Inf", "inf", "+Inf", "-inf", "Infinity", "infinit", "infinityx", "nan", "NaN", "+nan", "-nan", "nanx", "1_0", "1__0", "_1", "1_", "1_.5", "1._5",
	"0x_1p0", "0_x1p0", "+.5", ".", "+", "-", "", "1e", "1e+", "1e-", "1e+5", "1E5", "1e5_", "1e_5", "1e0_1", ".e1", "1.e1", "1.", ".5", "..5", "1..5",
	"12345678901234567890", "123456789012345678901234567890e-10", "0.1", "0.30000000000000004", "1e23", "9007199254740993", "9007199254740992.5",
	"1.7976931348623157e308", "1.7976931348623158e308", "1.797693134862315807e308", "1.797693134862315808e308", "1.7976931348623159e308",
	"4.9e-324", "2.4703282292062327e-324", "2.4703282292062328e-324", "2.5e-324", "1e-400", "-0", "-0.0", "+0", "00012", "1e00005", "1e99999", "1e-99999",
	"0e999999999999", "1e999999999999", "0.000…1", "1 ", " 1", "1,5", "1/2", "0.5/0.25", "/", "1/", "/1", "inf/1", "0x1p0/2", "١٢", "１２", "0b101", "0o17", "017", "1p5", "0x1e5", "0x1e+5", "1f", "1d5",
	"2.2250738585072011e-308", "2.2250738585072014e-308", "0.1e1", "100e-2", "5e-1", "1e22", "1e21", "123456789e-17",
	"0." + strings.Repeat("0", 400) + "1", strings.Repeat("9", 400), strings.Repeat("9", 308), strings.Repeat("9", 309) + ".5",
	"0x" + strings.Repeat("f", 20) + "p0", "0x1_0p0", "0x1p0_0", "0x_p0", "0X1.8P+1", "0x1p+1024", "0x.0000000000001p-1022", "0x1.0000000000000800000001p0", "0x1.00000000000008p0", "0x1.00000000000018p0", "+0x1p-1074", "-0x0.8p-1074", "0x1p-1075", "0x1.000001p-1075", "iNf", "INFINITY", "+InFiNiTy", "-NAN", "NaN ", "+.5e1", "+5.", "+1_000.5", "1_000_000e-3", "1e1_0", "1e+1_0", "4.9406564584124654e-324", "2.4703282292062327208e-324", "2.4703282292062327209e-324", "2.2250738585072009e-308", "2.2250738585072011e-308", strings.Repeat("1", 400) + "e-90", "0." + strings.Repeat("0", 320) + strings.Repeat("7", 400), strings.Repeat("9", 400) + "e-92", "0x1p1023", "0x1p1024", "0x1p-1074", "0x1p-1075", "0x1.8p-1075", "0x1p-1076", "0x0p0", "0x.p0", "0x1.p0", "0x1p0_0"}

func randDigits(g *core.G, n int, alphabet string) string {
	b := make([]byte, n)
	for i := range b {
		b[i] = alphabet[g.Intn(len(alphabet))]
	}
	return string(b)
}

// sprinkle inserts underscores at random positions (some legal, some not)
func sprinkle(g *core.G, s string) string {
	k := 1 + g.Intn(3)
	for j := 0; j < k; j++ {
		pos := g.Intn(len(s) + 1)
		s = s[:pos] + "_" + s[pos:]
	}
	return s
}

// randCase flips the case of letters at random
func randCase(g *core.G, s string) string {
	b := []byte(s)
	for i, c := range b {
		if g.Chance(0.5) {
			if c >= 'a' && c <= 'z' {
				b[i] = c - 32
			} else if c >= 'A' && c <= 'Z' {
				b[i] = c + 32
			}
		}
	}
	return string(b)
}

func genLiteral(g *core.G) string {
	switch g.Intn(13) {
	case 6: // hex floats: mantissa with or without a point, binary exponent anywhere from far below to far above the range
		m := randDigits(g, 1+g.Intn(18), "0123456789abcdefABCDEF")
		if g.Chance(0.5) {
			pos := g.Intn(len(m) + 1)
			m = m[:pos] + "." + m[pos:]
		}
		e := []int{0, 1, -1, 52, -52, 1023, 1024, 970, 971, -1022, -1023, -1074, -1075, -1076, -1080, 2000, -2000}[g.Intn(17)] - 4*g.Intn(3)
		s := []string{"", "+", "-"}[g.Intn(3)] + []string{"0x", "0X"}[g.Intn(2)] + m
		switch g.Intn(8) {
		case 0: // no exponent: an error
		case 1:
			s += "p"
		default:
			s += fmt.Sprintf("%s%s%d", []string{"p", "P"}[g.Intn(2)], []string{"", "+"}[g.Intn(2)], e)
		}
		if g.Chance(0.25) {
			s = sprinkle(g, s)
		}
		return s
	case 7: // underscores in decimal literals
		s := strconv.FormatFloat(float64(g.Intn(1000000))/float64(1+g.Intn(1000)), []byte{'f', 'e', 'g'}[g.Intn(3)], -1, 64)
		return sprinkle(g, s)
	case 8: // Inf / NaN in every spelling
		w := []string{"inf", "infinity", "nan", "in", "infi", "infinit", "infinityy", "na", "nann", "i", "n"}[g.Intn(11)]
		return []string{"", "", "+", "-", "++", " "}[g.Intn(6)] + randCase(g, w)
	case 9: // leading '+', leading zeros, bare points
		s := strconv.FormatFloat(float64(g.Intn(100000))/float64(1+g.Intn(100)), []byte{'f', 'e'}[g.Intn(2)], g.Intn(8), 64)
		return []string{"+", "+0", "00", "+.", "+00."}[g.Intn(5)] + s
	case 10: // mantissas of hundreds of digits, exponent bringing them anywhere around the float64 range
		nd := 50 + g.Intn(400)
		m := randDigits(g, nd, "0123456789")
		if g.Chance(0.6) {
			pos := g.Intn(len(m) + 1)
			m = m[:pos] + "." + m[pos:]
		}
		if g.Chance(0.7) {
			m += fmt.Sprintf("e%d", g.Intn(800)-400-nd/2)
		}
		return m
	case 11: // sub-normals and their neighbourhood: k * 2^-1074 printed exactly or perturbed in the last digits
		k := uint64(1 + g.Intn(64))
		if g.Chance(0.3) {
			k = g.R.Uint64() >> (12 + uint(g.Intn(40)))
		}
		v := math.Float64frombits(k)
		s := strconv.FormatFloat(v, 'e', 17+g.Intn(30), 64)
		if g.Chance(0.5) { // midpoint between two sub-normals, as a long decimal
			r := new(big.Float).SetPrec(2000).SetFloat64(v)
			h := new(big.Float).SetPrec(2000).SetFloat64(math.Float64frombits(1))
			h.Quo(h, big.NewFloat(2))
			r.Add(r, h)
			s = r.Text('e', 760+g.Intn(3))
			if g.Chance(0.5) {
				s = strings.Replace(s, "e-", []string{"1e-", "0001e-", "9e-"}[g.Intn(3)], 1)
			}
		}
		return s
	case 12: // exact halfway between two adjacent normal floats, and one digit to either side
		v := math.Float64frombits(g.R.Uint64() &^ (1 << 63))
		if math.IsNaN(v) || math.IsInf(v, 0) {
			v = 1.5
		}
		n := math.Nextafter(v, math.Inf(1))
		a := new(big.Float).SetPrec(2200).SetFloat64(v)
		b := new(big.Float).SetPrec(2200).SetFloat64(n)
		a.Add(a, b)
		a.Quo(a, big.NewFloat(2))
		s := a.Text('e', 800)
		switch g.Intn(3) {
		case 0:
			s = strings.Replace(s, "e", "1e", 1)
		case 1:
			// drop the last digit: slightly below or equal
			i := strings.Index(s, "e")
			s = s[:i-1] + s[i:]
		}
		return s
	}
	switch g.Intn(6) {
	case 0: // a float64 printed in one of strconv's formats
		v := math.Float64frombits(g.R.Uint64())
		f := []byte{'e', 'f', 'g', 'E', 'G', 'x'}[g.Intn(6)]
		prec := -1
		if g.Chance(0.4) {
			prec = g.Intn(25)
		}
		return strconv.FormatFloat(v, f, prec, 64)
	case 1: // simple decimals
		return strconv.FormatFloat(float64(g.Intn(100000))/float64(1+g.Intn(1000)), 'f', g.Intn(20), 64)
	case 2: // pieces of the grammar glued at random
		pieces := []string{"", "+", "-", "0", "1", "9", "12", ".", "e", "E", "e+", "e-", "_", "0x", "p", "p-", "inf", "nan", "f", "5", "00", "308", "324", "1024"}
		var b strings.Builder
		k := 1 + g.Intn(6)
		for j := 0; j < k; j++ {
			b.WriteString(pieces[g.Intn(len(pieces))])
		}
		return b.String()
	case 3: // near the overflow / underflow thresholds
		m := 1 + g.Intn(99999)
		e := []int{-330, -325, -324, -323, -308, -307, 300, 304, 305, 306, 307, 308, 309}[g.Intn(13)]
		return fmt.Sprintf("%d.%de%d", m/10000, m%10000, e)
	case 4: // halfway cases: 2^53 + odd, long digit strings
		base := uint64(1) << 53
		return fmt.Sprintf("%d.%s", base+uint64(g.Intn(64)), []string{"0", "5", "50000000000000000001", "49999999999999999999"}[g.Intn(4)])
	default: // mutate a good literal
		s := []byte(strconv.FormatFloat(float64(g.Intn(1000))/8, 'g', -1, 64))
		pos := g.Intn(len(s) + 1)
		ins := "_.eE+-x0 "[g.Intn(9)]
		return string(s[:pos]) + string(ins) + string(s[pos:])
	}
}

/* ---------- texts for the parser (tie only; shared with C02) ---------- */

var fixedTexts = []string{"(a) x ;", "(a)x ;", "((a,b))  r ;", "( a ) ;", "(a,b) r ;", "(a,b)\u00a0r\u00a0;", "(\u00a0a\u00a0,b);", "(a)\u2003x\u2003;", "(a,b),(c);", "(a(b))x/y;", "(a(b))xy;", " [pre] ( a b , c );", "(a:inf,b);", "(a,b)", "(a,,b);", "((a,b)x/y:1,c);",
	"(a:1.5 ,b);", "(a,b))(c;", "();", "(a);", "(a,b):1[x];", "(a[k;(),:[]:1,b);", "", ";", "a;", "(", "((a,b));", "(a,b);;", "(a,b) ; trailing",
	"[c](a,b);", "[c", "[c][d](a,b);", "(a,b)[", "(a,b)]", "(a:1:2,b);", "(a:-1:2,b);", "(a:x,b);", "(a:,b);", "(a: 1,b);", "(a :1,b);", "( a ,b);",
	"((a,b)1/x,c);", "((a,b)1/2,c);", "((a,b)1/inf,c);", "((a,b)nan,c);", "((a,b)1e999,c);", "((a,b)0.5name,c);", "((a,b)0.5[x]:2[y][z],c);",
	"(a,b)12;", "(a,b)1/2;", "(a,b)root:3[rc];", "(a[x][y],b)[z];", "(,);", "(,a);", "(a,);", "((,),);", "(a b,c d)e f;", "(a\n,b\t)\r;", "(a,b)\n;\n",
	"((a,b)(c,d));", "(a(b,c));", "(a,b)(c,d);", "((a,b)c(d,e));", "(a,b)),;", "(a,b),;", "(a,b),:1;", "(a,b):1:2;", "(a,b)x y;", "(a,b)x,y;",
	"(a:1[c1][c2],b);", "(a[n]:1[e],b);", "(:1,:2);", "(a:1e-7,b:1E+2);", "(a:0x1p-2,b:1_0);", "(a:.5,b:5.);", "(a:+1,b:-0);", "('a,b',c);", "(\"a\",b);",
	"(a;b,c);", "((a,b);", "(a,b));", "(a,b)x/y;", "((a)x/y);", "((a)1/y)z;", "((a)x/1);", "(((a)b)c)d;", "(a\x00b,c);", "(é,日本);", "(a:1[x;y],b);", "(�,b);",
	"(a,b)[c1][c2]:5[c3];", "((a,b):1[x]:2,c);", "((a,b)[x]y,c);", "((a,b)y[x]z,c);", "((a,b)0.9 ,c);", "((a,b) 0.9,c);", "((a,b)0.9/,c);", "((a,b)/0.9,c);"}

func genText(g *core.G) string {
	// start from the text of a generated tree and damage it
	n, _ := genTree(g, true, false, g.Intn(100))
	core.NumberEdges(n)
	t, err := core.Build(n)
	if err != nil {
		panic(err)
	}
	s := []byte(t.Newick())
	if len(s) > 400 {
		s = append(s[:200:200], s[len(s)-200:]...)
	}
	k := 1 + g.Intn(3)
	alphabet := "()[],:; \t;/.-+e01x]\n(("
	for j := 0; j < k && len(s) > 0; j++ {
		pos := g.Intn(len(s))
		switch g.Intn(5) {
		case 0: // truncate
			s = s[:pos]
		case 1: // delete one byte
			s = append(s[:pos:pos], s[pos+1:]...)
		case 2: // insert
			s = append(s[:pos:pos], append([]byte{alphabet[g.Intn(len(alphabet))]}, s[pos:]...)...)
		case 3: // replace
			s[pos] = alphabet[g.Intn(len(alphabet))]
		default: // splice a copy of a piece
			q := g.Intn(len(s))
			if q > pos {
				pos, q = q, pos
			}
			piece := append([]byte(nil), s[q:pos]...)
			at := g.Intn(len(s))
			s = append(s[:at:at], append(piece, s[at:]...)...)
		}
	}
	// keep the driver's input valid UTF-8 (bytes are the business of C02 and of the utf8 op)
	return strings.ToValidUTF8(string(s), "?")
}
