/-
  C09 — reading the consensus tree through `T.usplitsAll` (Spec/Splits.lean): the
  branches of the model's result have pairwise different bipartitions, so its
  `usplitsAll` is its branch list (nothing is fused), and the Spec predicates the
  oracle evaluates (`splitsOK`, `supportsOK`, `lengthsOK`) hold of the model's output.
-/
import Gotree.Lemmas.C09SinglesLen
import Gotree.Lemmas.C05Restr

namespace Gotree.C09
open Gotree

/-! ## counting -/

/-- a list that contains a duplicate-free list and is not longer is a permutation of it -/
theorem perm_of_sub_len {α : Type} [DecidableEq α] : ∀ (C K : List α), C.Nodup → C ⊆ K → K.length ≤ C.length → K.Perm C
  | [], K, _, _, h => by
    have : K = [] := List.eq_nil_of_length_eq_zero (by simpa using h)
    subst this; exact List.Perm.refl _
  | c :: C, K, hnd, hsub, hlen => by
    rw [List.nodup_cons] at hnd
    have hc : c ∈ K := hsub (by simp)
    have hsub' : C ⊆ K.erase c := fun x hx =>
      (List.mem_erase_of_ne (fun e => hnd.1 (by subst e; exact hx))).2 (hsub (by simp [hx]))
    have hl : (K.erase c).length ≤ C.length := by
      rw [List.length_erase_of_mem hc]
      simp only [List.length_cons] at hlen; omega
    exact (List.perm_cons_erase hc).trans (List.Perm.cons c (perm_of_sub_len C (K.erase c) hnd.2 hsub' hl))

theorem nodup_map_of_pairwise {α β : Type} (f : α → β) {l : List α} (h : l.Pairwise (fun a b => f a ≠ f b)) :
    (l.map f).Nodup := by
  rw [List.Nodup, List.pairwise_map]; exact h

/-! ## sides -/

theorem sameSide_singletons {tips : List String} (h3 : 3 ≤ tips.length) (hT : tips.Nodup) {a b : String}
    (ha : a ∈ tips) (h : SameSide tips [a] [b]) : a = b := by
  rcases h with h | h
  · have := (h a ha).1 (by simp)
    simpa using this
  · -- [a] would be the complement of [b]: only two tips
    exfalso
    have hsub : tips ⊆ [a, b] := fun x hx => by
      by_cases hxb : x = b
      · simp [hxb]
      · have := (h x hx).2 (by simpa using hxb)
        simp only [List.mem_singleton] at this
        simp [this]
    have := sub_length hT hsub
    simp at this; omega

/-- a tip branch and an inner row (two tips on each side) are different bipartitions -/
theorem not_sameSide_singleton {tips X : List String} (hT : tips.Nodup) (hX : X.Nodup) (hXT : SubS X tips)
    (h2 : 2 ≤ X.length) (hN : X.length + 2 ≤ tips.length) (a : String) (ha : a ∈ tips) :
    ¬ SameSide tips [a] X := by
  intro h
  have := sameSide_length hT hX (by simp : [a].Nodup) hXT
    (fun x hx => by simp only [List.mem_singleton] at hx; subst hx; exact ha) h
  simp only [List.length_singleton] at this
  omega

/-! ## the branches of the result have pairwise different bipartitions -/

/-- In a tree that satisfies the loop invariant with as many inner branches as inner
    rows, rows that are pairwise different bipartitions with two tips on each side: no
    two branches define the same bipartition. -/
theorem result_sides_nodup (tips : List String) (hT : tips.Nodup) (h3 : 3 ≤ tips.length) (r : T)
    (inner : List (List String × Rat × Rat)) (tipv : List (String × Rat))
    (inv : LoopInv tips r inner tipv) (hcnt : ni r.splits = inner.length)
    (hin : ∀ p ∈ inner, p.1.Nodup ∧ SubS p.1 tips ∧ 2 ≤ p.1.length ∧ p.1.length + 2 ≤ tips.length)
    (hpw : inner.Pairwise (fun p q => ¬ SameSide tips p.1 q.1)) :
    (r.splits.map (fun s => canonSide tips s.below)).Nodup := by
  have hne : tips ≠ [] := by intro h; rw [h] at h3; simp at h3
  have hbelow : ∀ s ∈ r.splits, SubS s.below tips ∧ s.below.Nodup := fun s hs =>
    ⟨fun a ha => inv.perm.mem_iff.1 ((below_sublist_L r.kids s hs).subset ha),
      (below_sublist_L r.kids s hs).nodup inv.nd⟩
  have canonEq : ∀ {X Y : List String}, X.Nodup → Y.Nodup →
      (canonSide tips X = canonSide tips Y ↔ SameSide tips X Y) := fun hX hY =>
    canonSide_eq_iff tips tips _ _ hT hT (fun _ => Iff.rfl) hne hX hY
  -- the inner part
  have hC : (inner.map (fun p => canonSide tips p.1)).Nodup := by
    apply nodup_map_of_pairwise
    refine hpw.imp_of_mem ?_
    intro p q hp hq hnss heq
    exact hnss ((canonEq (hin p hp).1 (hin q hq).1).1 heq)
  have hK : ((r.splits.filter (fun s => !s.tip)).map (fun s => canonSide tips s.below)).Perm
      (inner.map (fun p => canonSide tips p.1)) := by
    apply perm_of_sub_len _ _ hC
    · intro c hc
      obtain ⟨p, hp, rfl⟩ := List.mem_map.1 hc
      obtain ⟨s, hs, htip, hss, _, _⟩ := inv.j2 p hp
      exact List.mem_map.2 ⟨s, List.mem_filter.2 ⟨hs, by simp [htip]⟩,
        (canonEq (hbelow s hs).2 (hin p hp).1).2 hss⟩
    · rw [List.length_map, List.length_map]
      have : (r.splits.filter (fun s => !s.tip)).length = ni r.splits := rfl
      omega
  have hKn : ((r.splits.filter (fun s => !s.tip)).map (fun s => canonSide tips s.below)).Nodup :=
    hK.nodup_iff.2 hC
  -- the tip part
  have htips : ∀ s ∈ r.splits, s.tip = true → s.below = [s.below.headD ""] := by
    intro s hs htip
    rcases inv.j1 s hs with ⟨a, ha⟩ | ⟨hf, _⟩
    · rw [ha]; rfl
    · rw [hf] at htip; cases htip
  have hleaf : (((r.splits).filter (·.tip)).map (fun s => s.below.headD "")).Nodup := by
    have := tipSplitsL r.kids
    unfold T.splits
    rw [this]; exact inv.nd
  have hTn : ((r.splits.filter (·.tip)).map (fun s => canonSide tips s.below)).Nodup := by
    apply nodup_map_of_pairwise
    rw [List.Nodup, List.pairwise_map] at hleaf
    refine hleaf.imp_of_mem ?_
    intro s s' hs hs' hne' heq
    obtain ⟨h1, h2⟩ := List.mem_filter.1 hs
    obtain ⟨h1', h2'⟩ := List.mem_filter.1 hs'
    have e1 := htips s h1 h2
    have e2 := htips s' h1' h2'
    rw [e1, e2] at heq
    have hss := (canonEq (by simp) (by simp)).1 heq
    have ha : s.below.headD "" ∈ tips := (hbelow s h1).1 _ (by rw [e1]; simp)
    exact hne' (sameSide_singletons h3 hT ha hss)
  -- together
  have hperm : (r.splits.map (fun s => canonSide tips s.below)).Perm
      ((r.splits.filter (·.tip)).map (fun s => canonSide tips s.below) ++
       (r.splits.filter (fun s => !s.tip)).map (fun s => canonSide tips s.below)) := by
    rw [← List.map_append]
    exact (List.filter_append_perm (·.tip) r.splits).symm.map _
  rw [hperm.nodup_iff, List.nodup_append]
  refine ⟨hTn, hKn, ?_⟩
  intro x hx y hy hxy
  obtain ⟨s, hs, rfl⟩ := List.mem_map.1 hx
  obtain ⟨s', hs', rfl⟩ := List.mem_map.1 hy
  obtain ⟨h1, h2⟩ := List.mem_filter.1 hs
  obtain ⟨h1', h2'⟩ := List.mem_filter.1 hs'
  have e1 := htips s h1 h2
  have htip' : s'.tip = false := by simpa using h2'
  rcases inv.j1 s' h1' with ⟨a, ha⟩ | ⟨_, p, hp, hss, _, _⟩
  · -- an inner branch of the result is never a singleton: it is a side of an inner row
    obtain ⟨p, hp, hss⟩ : ∃ p ∈ inner, SameSide tips s'.below p.1 := by
      have hmem : canonSide tips s'.below ∈ inner.map (fun p => canonSide tips p.1) :=
        hK.mem_iff.1 (List.mem_map.2 ⟨s', List.mem_filter.2 ⟨h1', by simp [htip']⟩, rfl⟩)
      obtain ⟨p, hp, hpe⟩ := List.mem_map.1 hmem
      exact ⟨p, hp, (canonEq (hbelow s' h1').2 (hin p hp).1).1 hpe.symm⟩
    have hain : a ∈ tips := (hbelow s' h1').1 a (by rw [ha]; simp)
    rw [ha] at hss
    exact not_sameSide_singleton hT (hin p hp).1 (hin p hp).2.1 (hin p hp).2.2.1 (hin p hp).2.2.2 a hain hss
  · rw [e1] at hxy
    have h12 := (canonEq (by simp) (hbelow s' h1').2).1 hxy
    have ha : s.below.headD "" ∈ tips := (hbelow s h1).1 _ (by rw [e1]; simp)
    have hcomb : SameSide tips [s.below.headD ""] p.1 := h12.trans' hss
    exact not_sameSide_singleton hT (hin p hp).1 (hin p hp).2.1 (hin p hp).2.2.1 (hin p hp).2.2.2 _ ha hcomb

/-! ## nothing is fused in `usplitsAll` of the result -/

theorem insertU_append_of_ne (s : USplit) : ∀ acc : List USplit, (∀ x ∈ acc, x.side ≠ s.side) →
    insertU s acc = acc ++ [s]
  | [], _ => rfl
  | x :: r, h => by
    rw [insertU_cons_ne s x r (h x (by simp)), insertU_append_of_ne s r (fun y hy => h y (by simp [hy]))]
    rfl

theorem ufoldU_of_nodup : ∀ (l acc : List USplit), ((acc ++ l).map (·.side)).Nodup → ufoldU l acc = acc ++ l
  | [], acc, _ => by simp [ufoldU]
  | s :: l, acc, h => by
    have hs : ∀ x ∈ acc, x.side ≠ s.side := by
      intro x hx heq
      rw [List.map_append, List.map_cons, List.nodup_append] at h
      exact h.2.2 x.side (List.mem_map.2 ⟨x, hx, rfl⟩) s.side (by simp) heq
    rw [ufoldU_cons, insertU_append_of_ne s acc hs, ufoldU_of_nodup l (acc ++ [s]) (by simpa using h)]
    simp

/-- `usplitsAll` of a tree whose branches have pairwise different canonical sides is its
    branch list, sorted -/
theorem usplitsAll_perm_of_nodup (r : T) (h : (r.splits.map (fun s => canonSide r.tipNames s.below)).Nodup) :
    r.usplitsAll.Perm (r.splits.map (toU r.tipNames)) := by
  rw [T.usplitsAll_eq, ufoldU_of_nodup _ [] (by simpa [toU, List.map_map, Function.comp_def] using h)]
  simpa using List.mergeSort_perm _ _

/-! ## the light side of a canonical side -/

theorem lightSize_canonSide (all X : List String) (hall : all.Nodup) (hne : all ≠ []) (hX : X.Nodup) :
    lightSize all (canonSide all X) =
      min (X.filter all.contains).length (all.length - (X.filter all.contains).length) := by
  obtain ⟨m, hm⟩ := minS_ne_none hne
  have hmall := (minS_spec hm).1
  rw [canonSide_eq all X m hm hmall]
  have hF : (X.filter all.contains).Nodup := hX.filter _
  have hFsub : SubS (X.filter all.contains) all := fun a ha => by
    have := (List.mem_filter.1 ha).2; simpa using this
  have hk : ((sortS (X.filter all.contains)).filter all.contains).length = (X.filter all.contains).length := by
    rw [List.filter_eq_self.2 (fun a ha => by simpa using hFsub a (mem_sortS.1 ha))]
    exact (sortS_perm _).length_eq
  unfold lightSize
  split
  · -- the complement is taken
    have hc : ((sortS (complS all (sortS (X.filter all.contains)))).filter all.contains).length =
        all.length - (X.filter all.contains).length := by
      rw [List.filter_eq_self.2 (fun a ha => by
        have := (mem_complS.1 (mem_sortS.1 ha)).1; simpa using this)]
      rw [(sortS_perm _).length_eq]
      unfold complS
      have h1 := length_filter_not (sortS (X.filter all.contains)).contains all
      have h2 : (all.filter (sortS (X.filter all.contains)).contains).length = (X.filter all.contains).length := by
        rw [length_filter_of_sub ((sortS_perm _).nodup_iff.2 hF) hall
          (fun a ha => hFsub a (mem_sortS.1 ha))]
        exact (sortS_perm _).length_eq
      omega
    simp only [hc]
    have hle : (X.filter all.contains).length ≤ all.length := sub_length hF hFsub
    omega
  · simp only [hk]

/-! ## every inner branch has its row; a branch above a single tip is a tip branch -/

theorem inner_has_row (tips : List String) (hT : tips.Nodup) (h3 : 3 ≤ tips.length) (r : T)
    (inner : List (List String × Rat × Rat)) (tipv : List (String × Rat))
    (inv : LoopInv tips r inner tipv) (hcnt : ni r.splits = inner.length)
    (hin : ∀ p ∈ inner, p.1.Nodup ∧ SubS p.1 tips ∧ 2 ≤ p.1.length ∧ p.1.length + 2 ≤ tips.length)
    (hpw : inner.Pairwise (fun p q => ¬ SameSide tips p.1 q.1)) :
    ∀ s ∈ r.splits, s.tip = false →
      ∃ p ∈ inner, SameSide tips s.below p.1 ∧ s.e.len = p.2.1 ∧ s.e.sup = p.2.2 := by
  intro s hs htip
  rcases inv.j1 s hs with ⟨a, ha⟩ | ⟨_, p, hp, h⟩
  · exfalso
    -- s would be an inner branch above the single tip a: but the inner branches are the rows
    have hne : tips ≠ [] := by intro h; rw [h] at h3; simp at h3
    have hb : SubS s.below tips ∧ s.below.Nodup :=
      ⟨fun x hx => inv.perm.mem_iff.1 ((below_sublist_L r.kids s hs).subset hx),
        (below_sublist_L r.kids s hs).nodup inv.nd⟩
    have canonEq : ∀ {X Y : List String}, X.Nodup → Y.Nodup →
        (canonSide tips X = canonSide tips Y ↔ SameSide tips X Y) := fun hX hY =>
      canonSide_eq_iff tips tips _ _ hT hT (fun _ => Iff.rfl) hne hX hY
    have hC : (inner.map (fun p => canonSide tips p.1)).Nodup := by
      apply nodup_map_of_pairwise
      refine hpw.imp_of_mem ?_
      intro p q hp hq hnss heq
      exact hnss ((canonEq (hin p hp).1 (hin q hq).1).1 heq)
    have hK : ((r.splits.filter (fun s => !s.tip)).map (fun s => canonSide tips s.below)).Perm
        (inner.map (fun p => canonSide tips p.1)) := by
      apply perm_of_sub_len _ _ hC
      · intro c hc
        obtain ⟨p, hp, rfl⟩ := List.mem_map.1 hc
        obtain ⟨s', hs', htip', hss, _, _⟩ := inv.j2 p hp
        have hb' : s'.below.Nodup := (below_sublist_L r.kids s' hs').nodup inv.nd
        exact List.mem_map.2 ⟨s', List.mem_filter.2 ⟨hs', by simp [htip']⟩, (canonEq hb' (hin p hp).1).2 hss⟩
      · rw [List.length_map, List.length_map]
        have : (r.splits.filter (fun s => !s.tip)).length = ni r.splits := rfl
        omega
    have hmem : canonSide tips s.below ∈ inner.map (fun p => canonSide tips p.1) :=
      hK.mem_iff.1 (List.mem_map.2 ⟨s, List.mem_filter.2 ⟨hs, by simp [htip]⟩, rfl⟩)
    obtain ⟨p, hp, hpe⟩ := List.mem_map.1 hmem
    have hss := (canonEq hb.2 (hin p hp).1).1 hpe.symm
    rw [ha] at hss
    exact not_sameSide_singleton hT (hin p hp).1 (hin p hp).2.1 (hin p hp).2.2.1 (hin p hp).2.2.2 a
      (hb.1 a (by rw [ha]; simp)) hss
  · exact ⟨p, hp, h⟩

theorem approx_refl (a : Rat) : C09S.approx a a = true := by
  unfold C09S.approx
  simp only [Rat.le_refl, ge_iff_le, if_true, decide_eq_true_eq]
  rw [Rat.sub_self, Rat.zero_mul]
  split
  · assumption
  · rename_i h
    have := Rat.not_le.1 h
    grind

/-! ## the Spec predicates on the result of the loop -/

theorem mem_tipRows_of' {alltips : List String} {sel : List Entry} {x : Entry} {a : String} (hx : x ∈ sel)
    (ha : rowNames alltips x = [a]) : (a, x.len / (x.count : Rat)) ∈ tipRows alltips sel := by
  unfold tipRows
  rw [List.mem_filterMap]
  exact ⟨x, hx, by rw [ha]⟩

/-- pairwise compatible and different rows are not sides of one bipartition -/
theorem not_sameSide_of_pairOK {tips P Q : List String} (hP : SubS P tips) (hQ : SubS Q tips)
    (h : pairOK tips P Q = true) : ¬ SameSide tips P Q := by
  obtain ⟨_, n1, n2⟩ := (pairOK_iff tips P Q).1 h
  rintro (hs | hs)
  · exact n1 ⟨fun a ha => (hs a (hP a ha)).1 ha, fun a ha => (hs a (hQ a ha)).2 ha⟩
  · exact n2 ⟨fun a ha hq => (hs a (hP a ha)).1 ha hq, fun a ha => by
      by_cases hp : a ∈ P
      · exact Or.inl hp
      · exact Or.inr (Classical.byContradiction fun hnq => hp ((hs a ha).2 hnq))⟩

/-- facts about the inner rows of a selection that satisfies `selOK` -/
theorem innerRows_facts (tips : List String) (hT : tips.Nodup) (n : Nat) (sel : List Entry)
    (hsel : selOK tips tips sel = true) :
    (∀ p ∈ innerRows tips n sel, p.1.Nodup ∧ SubS p.1 tips ∧ 2 ≤ p.1.length ∧ p.1.length + 2 ≤ tips.length) ∧
    (innerRows tips n sel).Pairwise (fun p q => ¬ SameSide tips p.1 q.1) := by
  have hsub : ∀ x : Entry, SubS (rowNames tips x) tips := fun x a ha => (List.mem_filter.1 ha).1
  unfold selOK at hsel
  simp only [Bool.and_eq_true, List.all_eq_true] at hsel
  constructor
  · intro p hp
    obtain ⟨x, hx, h2, rfl⟩ := mem_innerRows'.1 hp
    refine ⟨hT.filter _, hsub x, h2, ?_⟩
    have := hsel.1.1 (rowNames tips x) (List.mem_map.2 ⟨x, hx, rfl⟩)
    simp only [Bool.or_eq_true, beq_iff_eq, Bool.and_eq_true, decide_eq_true_eq] at this
    rcases this with h | h
    · omega
    · exact h.2
  · have hpw := allPairsOK_pairwise tips _ hsel.2
    have hnames : (innerRows tips n sel).map (·.1) =
        (sel.map (rowNames tips)).filter (fun s => decide (2 ≤ s.length)) := by
      unfold innerRows
      rw [List.map_map, List.filter_map]
      rfl
    rw [← hnames, List.pairwise_map] at hpw
    refine hpw.imp_of_mem ?_
    intro p q hp hq h
    obtain ⟨x, _, _, rfl⟩ := mem_innerRows'.1 hp
    obtain ⟨y, _, _, rfl⟩ := mem_innerRows'.1 hq
    exact not_sameSide_of_pairOK (hsub x) (hsub y) h

/-- the canonical side of a row is that of its names -/
theorem canon_rowNames (tips taxa : List String) (hT : tips.Nodup) (hne : tips ≠ []) (hp : taxa.Perm tips)
    (x : Entry) (hk : x.key.Nodup) :
    canonSide tips (rowNames tips x) = canonSide taxa x.key := by
  rw [canonSide_perm_all hp]
  have hnd : (rowNames tips x).Nodup := hT.filter _
  rw [canonSide_eq_iff tips tips _ _ hT hT (fun _ => Iff.rfl) hne hnd hk]
  left
  intro a ha
  unfold rowNames
  rw [List.mem_filter]
  simp only [List.contains_eq_mem, decide_eq_true_eq]
  exact ⟨fun h => h.2, fun h => ⟨ha, h⟩⟩

/-- The Spec predicates of the oracle hold of a tree `r` that satisfies the loop invariant
    for the rows `sel`, when the rows are the Spec's selected sides with the Spec's
    frequency and mean length. -/
theorem oracle_of_inv (ts : List T) (c : Rat) (tips : List String) (n : Nat) (sel : List Entry) (r : T)
    (hT : tips.Nodup) (h3 : 3 ≤ tips.length) (htaxa : (C09S.taxa ts).Perm tips)
    (inv : LoopInv tips r (innerRows tips n sel) (tipRows tips sel))
    (hcnt : ni r.splits = (innerRows tips n sel).length)
    (hsel : selOK tips tips sel = true)
    (rowSpec : ∀ x ∈ sel, x.key.Nodup ∧
      C09S.isSelected ts c (canonSide (C09S.taxa ts) x.key) = true ∧
      (x.count : Rat) / (n : Rat) = C09S.freq ts (canonSide (C09S.taxa ts) x.key) ∧
      x.len / (x.count : Rat) = C09S.meanLen ts (canonSide (C09S.taxa ts) x.key) ∧
      canonSide (C09S.taxa ts) x.key ∈ C09S.allSides ts)
    (rowComplete : ∀ a ∈ C09S.allSides ts, C09S.isSelected ts c a = true → ∃ x ∈ sel, canonSide (C09S.taxa ts) x.key = a)
    (tipRow : ∀ a ∈ tips, ∃ x ∈ sel, rowNames tips x = [a])
    (hkeys : C09S.keysOK ts = true) :
    C09S.splitsOK ts c r = true ∧ C09S.supportsOK ts r = true ∧ C09S.lengthsOK ts r = true := by
  have hne : tips ≠ [] := by intro h; rw [h] at h3; simp at h3
  obtain ⟨hin, hpw⟩ := innerRows_facts tips hT n sel hsel
  have hrt : r.tipNames = leavesL r.kids := tipNames_eq_leaves r inv.deg
  have hrperm : r.tipNames.Perm tips := by rw [hrt]; exact inv.perm
  have hrnd : r.tipNames.Nodup := by rw [hrt]; exact inv.nd
  have hbelow : ∀ s ∈ r.splits, SubS s.below tips ∧ s.below.Nodup := fun s hs =>
    ⟨fun a ha => inv.perm.mem_iff.1 ((below_sublist_L r.kids s hs).subset ha),
      (below_sublist_L r.kids s hs).nodup inv.nd⟩
  have canonEq : ∀ {X Y : List String}, X.Nodup → Y.Nodup →
      (canonSide tips X = canonSide tips Y ↔ SameSide tips X Y) := fun hX hY =>
    canonSide_eq_iff tips tips _ _ hT hT (fun _ => Iff.rfl) hne hX hY
  -- the result read through usplitsAll
  have hsides := result_sides_nodup tips hT h3 r _ _ inv hcnt hin hpw
  have hsides' : (r.splits.map (fun s => canonSide r.tipNames s.below)).Nodup := by
    have : (fun s : SplitE => canonSide r.tipNames s.below) = (fun s => canonSide tips s.below) := by
      funext s; exact canonSide_perm_all hrperm s.below
    rw [this]; exact hsides
  have husp := usplitsAll_perm_of_nodup r hsides'
  have hmemU : ∀ u, u ∈ r.usplitsAll ↔ ∃ s ∈ r.splits, u = toU tips s := by
    intro u
    rw [husp.mem_iff, toU_perm_all hrperm, List.mem_map]
    exact ⟨fun ⟨s, hs, e⟩ => ⟨s, hs, e.symm⟩, fun ⟨s, hs, e⟩ => ⟨s, hs, e.symm⟩⟩
  -- inner branches and their rows
  have innerRow : ∀ s ∈ r.splits, s.tip = false → ∃ x ∈ sel, 2 ≤ (rowNames tips x).length ∧
      canonSide tips s.below = canonSide (C09S.taxa ts) x.key ∧
      s.e.len = x.len / (x.count : Rat) ∧ s.e.sup = (x.count : Rat) / (n : Rat) := by
    intro s hs htip
    obtain ⟨p, hp, hss, hl, hsu⟩ := inner_has_row tips hT h3 r _ _ inv hcnt hin hpw s hs htip
    obtain ⟨x, hx, h2, rfl⟩ := mem_innerRows'.1 hp
    refine ⟨x, hx, h2, ?_, hl, hsu⟩
    rw [← canon_rowNames tips _ hT hne htaxa x (rowSpec x hx).1]
    exact (canonEq (hbelow s hs).2 (hT.filter _)).2 hss
  -- a branch above a single tip is a tip branch and is trivial
  have lightTip : ∀ a ∈ tips, lightSize tips (canonSide tips [a]) ≤ 1 := by
    intro a ha
    rw [lightSize_canonSide tips [a] hT hne (by simp)]
    have : ([a].filter tips.contains).length = 1 := by simp [ha]
    rw [this]; omega
  have lightInner : ∀ x ∈ sel, 2 ≤ (rowNames tips x).length →
      2 ≤ lightSize tips (canonSide tips (rowNames tips x)) := by
    intro x hx h2
    obtain ⟨_, _, _, hN⟩ := hin _ (mem_innerRows'.2 ⟨x, hx, h2, rfl⟩)
    have hnd : (rowNames tips x).Nodup := hT.filter _
    rw [lightSize_canonSide tips _ hT hne hnd]
    have : ((rowNames tips x).filter tips.contains) = rowNames tips x := by
      rw [List.filter_eq_self]; intro a ha; simpa using (List.mem_filter.1 ha).1
    rw [this]; simp only at hN; omega
  have lightPerm : ∀ side, lightSize r.tipNames side = lightSize tips side := fun side => lightSize_perm_all hrperm side
  have lightTaxa : ∀ side, lightSize (C09S.taxa ts) side = lightSize tips side := fun side => lightSize_perm_all htaxa side
  -- non-trivial entries of usplitsAll come from inner branches
  have nontriv : ∀ s ∈ r.splits, 2 ≤ lightSize tips (canonSide tips s.below) → s.tip = false := by
    intro s hs h2
    cases htip : s.tip with
    | false => rfl
    | true =>
      exfalso
      rcases inv.j1 s hs with ⟨a, ha⟩ | ⟨hf, _⟩
      · have hain : a ∈ tips := (hbelow s hs).1 a (by rw [ha]; simp)
        have := lightTip a hain
        rw [ha] at h2; omega
      · rw [hf] at htip; cases htip
  refine ⟨?_, ?_, ?_⟩
  · -- splitsOK
    unfold C09S.splitsOK
    rw [Bool.and_eq_true]
    constructor
    · rw [beq_iff_eq]
      exact Gotree.sortS_congr (hrperm.trans htaxa.symm)
    · rw [beq_iff_eq]
      unfold canonSet C09S.expectedSplits canonSet
      have hmem : ∀ a, a ∈ r.usplitSet ↔
          a ∈ (C09S.allSides ts).filter (fun s => C09S.isSelected ts c s && decide (2 ≤ lightSize (C09S.taxa ts) s)) := by
        intro a
        unfold T.usplitSet T.usplits
        rw [List.mem_map, List.mem_filter]
        constructor
        · rintro ⟨u, hu, rfl⟩
          obtain ⟨hu1, hu2⟩ := List.mem_filter.1 hu
          obtain ⟨s, hs, rfl⟩ := (hmemU u).1 hu1
          have h2 : 2 ≤ lightSize tips (canonSide tips s.below) := by
            have := hu2; simp only [decide_eq_true_eq, toU, lightPerm] at this; exact this
          obtain ⟨x, hx, _, hce, _, _⟩ := innerRow s hs (nontriv s hs h2)
          obtain ⟨_, hselx, _, _, hall⟩ := rowSpec x hx
          have hside : (toU tips s).side = canonSide tips s.below := rfl
          rw [hside, hce]
          refine ⟨hall, ?_⟩
          rw [Bool.and_eq_true]
          refine ⟨hselx, ?_⟩
          rw [decide_eq_true_eq, lightTaxa, ← hce]; exact h2
        · rintro ⟨hall, hsl⟩
          rw [Bool.and_eq_true, decide_eq_true_eq] at hsl
          obtain ⟨x, hx, rfl⟩ := rowComplete a hall hsl.1
          have hk := (rowSpec x hx).1
          have hcr := canon_rowNames tips _ hT hne htaxa x hk
          have h2 : 2 ≤ (rowNames tips x).length := by
            have hls : 2 ≤ lightSize tips (canonSide tips (rowNames tips x)) := by
              rw [hcr, ← lightTaxa]; exact hsl.2
            have hnd : (rowNames tips x).Nodup := hT.filter _
            rw [lightSize_canonSide tips _ hT hne hnd] at hls
            have : ((rowNames tips x).filter tips.contains) = rowNames tips x := by
              rw [List.filter_eq_self]; intro a ha; simpa using (List.mem_filter.1 ha).1
            rw [this] at hls; omega
          obtain ⟨s, hs, _, hss, _, _⟩ := inv.j2 _ (mem_innerRows'.2 ⟨x, hx, h2, rfl⟩)
          have hcs : canonSide tips s.below = canonSide (C09S.taxa ts) x.key := by
            rw [← hcr]; exact (canonEq (hbelow s hs).2 (hT.filter _)).2 hss
          refine ⟨toU tips s, List.mem_filter.2 ⟨(hmemU _).2 ⟨s, hs, rfl⟩, ?_⟩, hcs⟩
          rw [decide_eq_true_eq, lightPerm]
          show 2 ≤ lightSize tips (canonSide tips s.below)
          rw [hcs, ← lightTaxa]; exact hsl.2
      apply Gotree.C05.canon_eq hmem
      intro a ha b hb hab
      have ha' := (List.mem_filter.1 ((hmem a).1 ha)).1
      have hb' := (List.mem_filter.1 ((hmem b).1 hb)).1
      have hk : ((C09S.allSides ts).map fun s => toString s).Nodup := by
        simpa [C09S.keysOK] using hkeys
      exact Gotree.C05.inj_of_nodup_map _ _ hk a ha' b hb' hab
  · -- supportsOK
    unfold C09S.supportsOK T.usplits
    rw [List.all_eq_true]
    intro u hu
    obtain ⟨hu1, hu2⟩ := List.mem_filter.1 hu
    obtain ⟨s, hs, rfl⟩ := (hmemU u).1 hu1
    have h2 : 2 ≤ lightSize tips (canonSide tips s.below) := by
      have := hu2; simp only [decide_eq_true_eq, toU, lightPerm] at this; exact this
    obtain ⟨x, hx, _, hce, _, hsu⟩ := innerRow s hs (nontriv s hs h2)
    show C09S.approx s.e.sup (C09S.freq ts (canonSide tips s.below)) = true
    rw [hce, hsu, (rowSpec x hx).2.2.1]
    exact approx_refl _
  · -- lengthsOK
    unfold C09S.lengthsOK
    rw [List.all_eq_true]
    intro u hu
    obtain ⟨s, hs, rfl⟩ := (hmemU u).1 hu
    show C09S.approx s.e.len (C09S.meanLen ts (canonSide tips s.below)) = true
    cases htip : s.tip with
    | false =>
      obtain ⟨x, hx, _, hce, hl, _⟩ := innerRow s hs htip
      rw [hce, hl, (rowSpec x hx).2.2.2.1]
      exact approx_refl _
    | true =>
      rcases inv.j1 s hs with ⟨a, ha⟩ | ⟨hf, _⟩
      · have hain : a ∈ tips := (hbelow s hs).1 a (by rw [ha]; simp)
        obtain ⟨x, hx, hxa⟩ := tipRow a hain
        have hl := inv.j3 _ (mem_tipRows_of' hx hxa) s hs ha htip
        have hce : canonSide tips s.below = canonSide (C09S.taxa ts) x.key := by
          rw [ha, ← hxa]; exact canon_rowNames tips _ hT hne htaxa x (rowSpec x hx).1
        rw [hce, hl, (rowSpec x hx).2.2.2.1]
        exact approx_refl _
      · rw [hf] at htip; cases htip

/-- every leaf has its tip branch in the split list -/
theorem leaf_entry : ∀ (k : Kids) (a : String), a ∈ leavesL k → ∃ s ∈ splitsL k, s.below = [a]
  | [], a, h => by simp [leavesL] at h
  | (e, .node d p kk) :: r, a, h => by
    rw [leavesL_cons] at h
    rw [splitsL_cons]
    rcases List.mem_append.1 h with h | h
    · cases kk with
      | nil =>
        simp only [T.leaves, List.mem_singleton] at h
        subst h
        exact ⟨_, List.mem_append_left _ List.mem_cons_self, rfl⟩
      | cons x y =>
        obtain ⟨s, hs, hb⟩ := leaf_entry (x :: y) a h
        exact ⟨s, List.mem_append_left _ (List.mem_cons_of_mem _ hs), hb⟩
    · obtain ⟨s, hs, hb⟩ := leaf_entry r a h
      exact ⟨s, List.mem_append_right _ hs, hb⟩

end Gotree.C09
