/-
  C03 — models added in round 7 (core Lean only; imported by Model/C03Ops.lean).

  `Node.RotateNeighbors()` on ONE node (tree/node.go:222), the node being named by its child-index path:

      for i, _ := range n.neigh {
          j := rand.Intn(i + 1)
          n.neigh[i], n.neigh[j] = n.neigh[j], n.neigh[i]
          n.br[i], n.br[j] = n.br[j], n.br[i]
      }

  The neighbour list of a non-root node holds the parent at position `ppos`; the loop is C05's
  `shuf` (one draw per neighbour); the new parent position is where the parent ends up.

  `Tree.AddBipartition(n, edges, length, support)` (tree/algo.go:208), `edges` given by their slots in
  `n.br`: every selected branch is cut (`delNeighbor` on both ends) and re-created from a new node `n2`
  (`ConnectNodes(n2, other)`, or `ConnectNodes(other, n2)` for the branch that leads to n's parent), then n
  and n2 are joined (`n -> n2` when no selected branch led to the parent, `n2 -> n` otherwise).  Follows the
  statements: appended neighbours come last, re-created branches lose comments and id, a moved child's
  parent is its last neighbour, the new node replaces n as the LAST child of n's parent.
-/
import Gotree.Model.C05

namespace Gotree.C03
open Gotree

/-- `RotateNeighbors` on this node with the draws given (`isRoot`: the node has no parent) -/
def rotNode (draws : List Nat) (isRoot : Bool) : T → T
  | .node d p kids =>
    let m := kids.length + (if isRoot then 0 else 1)
    let neigh : List (Option (EdgeD × T)) :=
      if isRoot then kids.map some else Gotree.C05.insertAt (kids.map some) p none
    let neigh' := Gotree.C05.shuf m 0 neigh (draws.take m)
    .node d (if isRoot then 0 else neigh'.findIdx (·.isNone)) (neigh'.filterMap id)

/- apply `f` to the node at a child-index path (a path that leaves the tree changes nothing) -/
mutual
def modAt (f : Bool → T → T) (isRoot : Bool) : List Nat → T → T
  | [], t => f isRoot t
  | i :: p, .node d pp k => .node d pp (modAtL f i p k)
def modAtL (f : Bool → T → T) : Nat → List Nat → Kids → Kids
  | _, _, [] => []
  | 0, p, (e, t) :: r => (e, modAt f false p t) :: r
  | i + 1, p, x :: r => x :: modAtL f i p r
end

/-- `n.RotateNeighbors()` for the node `n` at `path` -/
def rotateOne (path : List Nat) (draws : List Nat) (t : T) : T := modAt (rotNode draws) true path t

/-! ### AddBipartition (tree/algo.go:208) -/

/-- the branch `ConnectNodes` creates for a moved neighbour: length, support, p-value are copied, the
    comments and the id are those of a new branch -/
def freshE (e : EdgeD) : EdgeD := ⟨e.len, e.sup, e.pval, [], -1⟩

/-- `other.delNeighbor(n); ConnectNodes(n2, other)`: the parent of a moved child is its LAST neighbour -/
def reparent (c : T) : T := .node c.d c.kids.length c.kids

def dropSlots {α : Type} (S : List Nat) : Nat → List α → List α
  | _, [] => []
  | i, x :: r => if S.contains i then dropSlots S (i + 1) r else x :: dropSlots S (i + 1) r

inductive BipRes where
  | err                 -- "we cannot add the bipartition, it already exists"
  | inner (n' : T)      -- no selected branch leads to the parent: the new node hangs below n (last neighbour)
  | outer (n2 : T)      -- the parent's branch is selected: the new node takes n's place below the parent, n hangs below it

/-- AddBipartition at node `n` with the branches in the slots `S` of `n.br` (in the order given) -/
def addBipNode (isRoot : Bool) (S : List Nat) (len sup : Rat) : T → BipRes
  | .node d p kids =>
    let ng : List (Option (EdgeD × T)) :=
      if isRoot then kids.map some else Gotree.C05.insertAt (kids.map some) p none
    -- len(edges) <= 1 || len(edges) >= len(n.br)-1
    if S.length ≤ 1 || S.length + 1 ≥ ng.length then .err else
    match S.mapM (fun i => ng[i]?) with
    | none => .err
    | some sel =>
      let rest := dropSlots S 0 ng
      let moved : Kids := (sel.filterMap id).map fun ec => (freshE ec.1, reparent ec.2)
      let ne : EdgeD := ⟨len, sup, NIL, [], -1⟩
      if sel.any (·.isNone) then
        .outer (.node ⟨"", []⟩ (sel.findIdx (·.isNone)) (moved ++ [(ne, .node d (rest.filterMap id).length (rest.filterMap id))]))
      else
        .inner (.node d (if isRoot then p else rest.findIdx (·.isNone))
          (rest.filterMap id ++ [(ne, .node ⟨"", []⟩ sel.length moved)]))

/- at a path; `none` = the call reports an error (or the path leaves the tree) -/
mutual
def addBipAt (S : List Nat) (len sup : Rat) : List Nat → T → Option T
  | [], t =>
    match addBipNode true S len sup t with
    | .inner t' => some t'
    | _ => none
  | i :: p, .node d pp k =>
    match addBipL S len sup i p k with
    | none => none
    | some (k', none) => some (.node d pp k')
    -- the child in slot i was taken out and the new node appended: a parent position behind it moves up
    | some (k', some (eP, n2)) => some (.node d (if i < pp then pp - 1 else pp) (k' ++ [(freshE eP, n2)]))
def addBipL (S : List Nat) (len sup : Rat) : Nat → List Nat → Kids → Option (Kids × Option (EdgeD × T))
  | _, _, [] => none
  | 0, [], (e, t) :: r =>
    match addBipNode false S len sup t with
    | .err => none
    | .inner t' => some ((e, t') :: r, none)
    | .outer n2 => some (r, some (e, n2))
  | 0, j :: q, (e, t) :: r =>
    match addBipAt S len sup (j :: q) t with
    | some t' => some ((e, t') :: r, none)
    | none => none
  | i + 1, p, x :: r =>
    match addBipL S len sup i p r with
    | some (k', o) => some (x :: k', o)
    | none => none
end

end Gotree.C03
