/-
  C07 — the Spec oracle (Spec/C07.lean: `collapseOK`, `resolveOK`, the Bool predicates the driver
  evaluates on the implementation's own output) follows from what the theorems say about the
  model.  This file relates the Spec's own traversal (`ents`) to the observation list.
-/
import Gotree.Lemmas.C07Proof
import Gotree.Lemmas.C07Spec
import Gotree.Lemmas.C07USplits
import Gotree.Spec.C07

namespace Gotree.C07
open Gotree

/- ## multisets as lists -/

theorem msub_of_perm {α : Type} [BEq α] [LawfulBEq α] : ∀ (l₁ l₂ : List α), l₁.Perm l₂ → msub l₁ l₂ = true
  | [], _, _ => rfl
  | x :: r, l₂, h => by
    have hx : x ∈ l₂ := h.subset List.mem_cons_self
    have hr : r.Perm (l₂.erase x) := by
      have := h.erase x
      rwa [List.erase_cons_head] at this
    simp only [msub, Bool.and_eq_true]
    exact ⟨List.contains_iff_mem.mpr hx, msub_of_perm r _ hr⟩

theorem msub_append_of_perm {α : Type} [BEq α] [LawfulBEq α] : ∀ (l₁ ex l₂ : List α), l₂.Perm (l₁ ++ ex) → msub l₁ l₂ = true
  | [], _, _, _ => rfl
  | x :: r, ex, l₂, h => by
    have hx : x ∈ l₂ := h.symm.subset (by simp)
    have hr : (l₂.erase x).Perm (r ++ ex) := by
      have := h.erase x
      rwa [List.cons_append, List.erase_cons_head] at this
    simp only [msub, Bool.and_eq_true]
    exact ⟨List.contains_iff_mem.mpr hx, msub_append_of_perm r ex _ hr⟩

theorem mdiff_perm_append {α : Type} [BEq α] [LawfulBEq α] : ∀ (m ex l : List α), l.Perm (m ++ ex) → (mdiff l m).Perm ex
  | [], _, _, h => by simpa [mdiff] using h
  | x :: r, ex, l, h => by
    have hr : (l.erase x).Perm (r ++ ex) := by
      have := h.erase x
      rwa [List.cons_append, List.erase_cons_head] at this
    simp only [mdiff]
    exact mdiff_perm_append r ex _ hr

theorem mdiff_of_perm {α : Type} [BEq α] [LawfulBEq α] (l m : List α) (h : l.Perm m) : mdiff l m = [] := by
  have := mdiff_perm_append m [] l (by simpa using h)
  exact this.eq_nil

/- ## the Spec's traversal and the observation list -/

abbrev FB := List String × Nat

/-- canonical side and topological depth: the order-independent view the oracle uses -/
def FF (all : List String) (l : List String) : FB := (canonSide all l, lightSize all l)

theorem FF_permInv (all : List String) : PermInv (FF all) :=
  pair_permInv _ _ (canonSide_permInv all) (lightSize_permInv all)

/-- all the oracle reads of an entry, except the "hangs off the root" flag -/
abbrev Tup := List String × Rat × Rat × Bool × String × Nat × Int

def Ent.tup (e : Ent) : Tup := (e.side, e.len, e.sup, e.tip, e.name, e.depth, e.id)

def obsTup (x : Obs FB) : Tup := (x.1.1, x.2.1.len, x.2.1.sup, x.2.2.1, x.2.2.2.name, x.1.2, x.2.1.id)

mutual
theorem entsT_tup (all : List String) : ∀ c : T, (entsT all c).map Ent.tup = (obsT (FF all) c).map obsTup
  | .node d p k => by
    have := entsL_tup all false false k
    simp only [entsT, obsT]; exact this
theorem entsL_tup (all : List String) (top pd : Bool) :
    ∀ k : Kids, (entsL all top false pd k).map Ent.tup = (obsL (FF all) k).map obsTup
  | [] => by simp [entsL, obsL]
  | (e, c) :: r => by
    have h1 := entsT_tup all c
    have h2 := entsL_tup all top pd r
    simp only [entsL, obsL, List.map_cons, List.map_append, h1, h2]
    congr 1
    simp [Ent.tup, obsTup, FF, T.name]
end

theorem ents_tup (all : List String) (t : T) (h1 : t.kids.length ≠ 1) :
    (ents all t).map Ent.tup = (obsT (FF all) t).map obsTup := by
  unfold ents
  have : (t.kids.length == 1) = false := by simpa using h1
  rw [this, obsT_kids]
  exact entsL_tup all true _ t.kids

def keyT (u : Tup) : Key := (u.1, u.2.1, u.2.2.1, u.2.2.2.2.1)

theorem key_tup (e : Ent) : e.key = keyT e.tup := rfl

def holdsT : Crit → Tup → Bool
  | .len l, u => decide (u.2.1 ≤ l)
  | .sup s, u => u.2.2.1 != NIL && decide (u.2.2.1 < s)
  | .depth mn mx, u => decide (mn ≤ (u.2.2.2.2.2.1 : Int)) && decide ((u.2.2.2.2.2.1 : Int) ≤ mx)
  | .ids l, u => l.contains u.2.2.2.2.2.2

theorem holds_tup (c : Crit) (e : Ent) : c.holds e = holdsT c e.tup := by cases c <;> rfl

/-- the criterion on an observed branch -/
def critV : Crit → FB × EdgeD × Bool → Bool
  | .len l, y => decide (y.2.1.len ≤ l)
  | .sup s, y => y.2.1.sup != NIL && decide (y.2.1.sup < s)
  | .depth mn mx, y => decide (mn ≤ (y.1.2 : Int)) && decide ((y.1.2 : Int) ≤ mx)
  | .ids l, y => l.contains y.2.1.id

theorem holdsT_obsTup (c : Crit) (x : Obs FB) : holdsT c (obsTup x) = critV c (x.1, x.2.1, x.2.2.1) := by
  cases c <;> rfl

end Gotree.C07

namespace Gotree.C07
open Gotree

/-- what the oracle demands of a branch of the tree before (MANDATORY part), on tuples -/
def mandT (crit : Crit) (rt : Bool) (u : Tup) : Option Key :=
  if u.2.2.2.1 then some (if rt && holdsT crit u then (u.1, 0, u.2.2.1, u.2.2.2.2.1) else keyT u)
  else if holdsT crit u then none else some (keyT u)

theorem mand_eq (crit : Crit) (rt : Bool) (eb : List Ent) :
    (eb.filterMap fun e =>
      if e.tip then some (if rt && crit.holds e then ({ e with len := 0 } : Ent).key else e.key)
      else if crit.holds e then none else some e.key) = (eb.map Ent.tup).filterMap (mandT crit rt) := by
  rw [List.filterMap_map]
  congr 1
  funext e
  simp only [Function.comp, mandT, holds_tup]
  rfl

theorem mandT_keepV (crit : Crit) (rt : Bool) (x : Obs FB) :
    (keepV (critV crit) rt x).map (fun y => keyT (obsTup y)) = mandT crit rt (obsTup x) := by
  unfold keepV mandT
  rw [holdsT_obsTup]
  obtain ⟨fb, e, tip, d⟩ := x
  cases hc : critV crit (fb, e, tip) <;> cases tip <;> cases rt <;> simp [keyT, obsTup, zeroLen]

end Gotree.C07

namespace Gotree.C07
open Gotree

/- ## the code's topological depth is the Spec's `lightSize` -/

mutual
theorem below_sub_T : ∀ (c : T), ∀ s ∈ c.splitsBelow, ∀ x ∈ s.below, x ∈ c.leaves
  | .node d p k => by
    intro s hs x hx
    have hk : k ≠ [] := by intro h; subst h; simp [T.splitsBelow, splitsL] at hs
    rw [leaves_node, if_neg hk]
    exact below_sub_L k s (by simpa [T.splitsBelow] using hs) x hx
theorem below_sub_L : ∀ (k : Kids), ∀ s ∈ splitsL k, ∀ x ∈ s.below, x ∈ leavesL k
  | [] => by intro s hs; simp [splitsL] at hs
  | (e, c) :: r => by
    intro s hs x hx
    simp only [splitsL, List.mem_cons, List.mem_append] at hs
    simp only [leavesL, List.mem_append]
    rcases hs with rfl | hs | hs
    · exact Or.inl hx
    · exact Or.inl (below_sub_T c s hs x hx)
    · exact Or.inr (below_sub_L r s hs x hx)
end

theorem lightSize_eq_topoDepth (t : T) (s : SplitE) (hs : s ∈ t.splits) :
    lightSize t.tipNames s.below = topoDepth t.tipNames.length s := by
  unfold lightSize topoDepth
  have hall : ∀ x ∈ s.below, t.tipNames.contains x = true := by
    intro x hx
    have := below_sub_L t.kids s hs x hx
    unfold T.tipNames
    simp [this]
  have : s.below.filter t.tipNames.contains = s.below := List.filter_eq_self.mpr hall
  simp only [this]
  exact Nat.min_comm _ _

end Gotree.C07

namespace Gotree.C07
open Gotree

/- ## the resolve oracle -/

theorem resolve_kids_one (t t' : T) (draws : List Nat) (h : resolve t draws = some t') :
    (t'.kids.length == 1) = (t.kids.length == 1) := by
  have h' := resolve_some t draws t' h
  cases t with
  | node d p k =>
    obtain ⟨k1, ds1, hk, hn⟩ := resolveT_unfold true d p k draws t' [] h'
    obtain ⟨_, hlen, _⟩ := resolveL_spec (fun _ => ()) permInv_unit k draws k1 ds1 hk
    obtain ⟨_, _, _, _, _, hcount⟩ := resolveNode_spec (fun _ => ()) true d p k1 ds1 t' [] hn
    simp only [if_true, Nat.add_zero] at hcount
    simp only [T.kids_node]
    split at hcount
    · rw [hcount, hlen]
    · have : ¬ k1.length ≤ 3 := by assumption
      have e1 : (t'.kids.length == 1) = false := by simp; omega
      have e2 : (k.length == 1) = false := by simp; omega
      rw [e1, e2]

def keyR (y : ObsR FB) : Key := (y.1.1, y.2.1, y.2.2.1, y.2.2.2.2.2.name)

def ktR (y : ObsR FB) : Key × Bool := (keyR y, y.2.2.2.2.1)

theorem ents_keys (all : List String) (t : T) (h1 : t.kids.length ≠ 1) :
    (ents all t).map Ent.key = (RT (FF all) t).map keyR := by
  have := ents_tup all t h1
  have h2 : (ents all t).map Ent.key = ((ents all t).map Ent.tup).map keyT := by
    rw [List.map_map]; rfl
  rw [h2, this]
  unfold RT
  rw [List.map_map, List.map_map]; rfl

theorem ents_kts (all : List String) (t : T) (h1 : t.kids.length ≠ 1) :
    (ents all t).map (fun e => (e.key, e.tip)) = (RT (FF all) t).map ktR := by
  have := ents_tup all t h1
  have h2 : (ents all t).map (fun e => (e.key, e.tip)) = ((ents all t).map Ent.tup).map (fun u => (keyT u, u.2.2.2.1)) := by
    rw [List.map_map]; rfl
  rw [h2, this]
  unfold RT
  rw [List.map_map, List.map_map]; rfl

/-- The resolve oracle accepts every tree `a` on the same tips and root whose observed branch list
    is that of `b` plus added branches, with equal distances, and binary when it has to be. -/
theorem resolveOK_of_obs (b a : T) (hb1 : b.kids.length ≠ 1) (ha1 : a.kids.length ≠ 1)
    (htips : a.tipNames.Perm b.tipNames) (hname : a.d = b.d)
    (ex : List (ObsR FB)) (hnew : ∀ x ∈ ex, IsNew x)
    (hobs : (RT (FF b.tipNames) a).Perm (RT (FF b.tipNames) b ++ ex))
    (hdist : ∀ x y : String, a.dist x y = b.dist x y)
    (hbin : b.noSingle = true → 2 ≤ b.kids.length → a.binary = true)
    (hdeg3 : deg3 a = true) :
    resolveOK b a = true := by
  unfold resolveOK
  simp only
  rw [ents_keys _ b hb1, ents_keys _ a ha1, ents_kts _ b hb1, ents_kts _ a ha1]
  have h1 : (sortS a.tipNames == sortS b.tipNames) = true := by
    rw [sortS_perm_eq htips]; exact beq_self_eq_true _
  have h2 : (a.name == b.name) = true := by
    unfold T.name; rw [hname]; exact beq_self_eq_true _
  have h3 : msub ((RT (FF b.tipNames) b).map keyR) ((RT (FF b.tipNames) a).map keyR) = true := by
    apply msub_append_of_perm _ (ex.map keyR)
    rw [← List.map_append]; exact hobs.map keyR
  have h4 : ((mdiff ((RT (FF b.tipNames) a).map ktR) ((RT (FF b.tipNames) b).map ktR)).all
      fun x => x.1.2.1 == 0 && x.1.2.2.1 == NIL && x.1.2.2.2 == "" && !x.2) = true := by
    have hp : (mdiff ((RT (FF b.tipNames) a).map ktR) ((RT (FF b.tipNames) b).map ktR)).Perm (ex.map ktR) := by
      apply mdiff_perm_append
      rw [← List.map_append]; exact hobs.map ktR
    rw [hp.all_eq]
    rw [List.all_eq_true]
    intro x hx
    obtain ⟨y, hy, rfl⟩ := List.mem_map.mp hx
    obtain ⟨e1, e2, _, e4, e5⟩ := hnew y hy
    simp [ktR, keyR, e1, e2, e4, e5]
  have h5 : (a.distMatrix == b.distMatrix) = true := by
    have : a.distMatrix = b.distMatrix := by
      unfold T.distMatrix
      simp only [sortS_perm_eq htips, hdist]
    rw [this]; exact beq_self_eq_true _
  have h6 : (!(b.noSingle && decide (2 ≤ b.kids.length)) || a.binary) = true := by
    by_cases hc : b.noSingle = true ∧ 2 ≤ b.kids.length
    · rw [hbin hc.1 hc.2]; simp
    · have : (b.noSingle && decide (2 ≤ b.kids.length)) = false := by
        rw [Bool.and_eq_false_iff]
        by_cases hn : b.noSingle = true
        · right; simpa using fun h => hc ⟨hn, h⟩
        · left; simpa using hn
      rw [this]; rfl
  simp only [h1, h2, h3, h4, h5, h6, hdeg3, Bool.and_self]

end Gotree.C07

namespace Gotree.C07
open Gotree

/- ## the collapse oracle on a rooted tree without `removeRoot` -/

mutual
theorem entsT_root (all : List String) : ∀ (c : T), ∀ e ∈ entsT all c, e.root = false
  | .node d p k => by
    intro e he
    exact entsL_root all _ k e (by simpa [entsT] using he)
theorem entsL_root (all : List String) (pd : Bool) : ∀ (k : Kids), ∀ e ∈ entsL all false false pd k, e.root = false
  | [] => by intro e he; simp [entsL] at he
  | (ed, c) :: r => by
    intro e he
    simp only [entsL, List.mem_cons, List.mem_append] at he
    rcases he with rfl | he | he
    · rfl
    · exact entsT_root all c e he
    · exact entsL_root all pd r e he
end

/- below the root branches no branch is protected -/
mutual
theorem entsT_prot (all : List String) : ∀ (c : T), ∀ e ∈ entsT all c, e.prot = false
  | .node d p k => by
    intro e he
    exact entsL_prot all k e (by simpa [entsT] using he)
theorem entsL_prot (all : List String) : ∀ (k : Kids), ∀ e ∈ entsL all false false false k, e.prot = false
  | [] => by intro e he; simp [entsL] at he
  | (ed, c) :: r => by
    intro e he
    simp only [entsL, List.mem_cons, List.mem_append] at he
    rcases he with rfl | he | he
    · rfl
    · exact entsT_prot all c e he
    · exact entsL_prot all r e he
end

/-- the entry of a root branch -/
def rootEnt (all : List String) (e : EdgeD) (c : T) : Ent :=
  ⟨canonSide all c.leaves, e.len, e.sup, c.isLeaf || false, c.name, true, lightSize all c.leaves, e.id,
    true⟩

theorem ents_rooted (all : List String) (d : NodeD) (p : Nat) (e1 e2 : EdgeD) (c1 c2 : T) :
    ents all (.node d p [(e1, c1), (e2, c2)]) =
      rootEnt all e1 c1 :: (entsT all c1 ++ (rootEnt all e2 c2 :: (entsT all c2 ++ []))) := by
  simp [ents, entsL, rootEnt]

/-- MANDATORY and OPTIONAL parts of the oracle, as functions of an entry -/
def mandE (crit : Crit) (rt : Bool) (e : Ent) : Option Key :=
  if e.tip then some (if rt && crit.holds e then ({ e with len := 0 } : Ent).key else e.key)
  else if crit.holds e then none else some e.key

def optE (crit : Crit) (e : Ent) : Option Key :=
  if !e.tip && crit.holds e && e.prot then some e.key else none

theorem collapseOK_eq (crit : Crit) (rt : Bool) (b a : T) :
    collapseOK crit rt b a =
      (sortS a.tipNames == sortS b.tipNames && a.name == b.name
        && msub ((ents b.tipNames b).filterMap (mandE crit rt)) ((ents b.tipNames a).map Ent.key)
        && msub (mdiff ((ents b.tipNames a).map Ent.key) ((ents b.tipNames b).filterMap (mandE crit rt)))
             ((ents b.tipNames b).filterMap (optE crit))) := rfl

/-- General form: whatever the tree before (rooted or not, with or without single-child nodes), as
    long as its root is not a tip: if the observed branch list after is exactly the filtered list,
    the oracle accepts (nothing optional is left over). -/
theorem collapseOK_of_obs' (crit : Crit) (rt : Bool) (b a : T)
    (hb1 : b.kids.length ≠ 1) (ha1 : a.kids.length ≠ 1)
    (htips : a.tipNames.Perm b.tipNames) (hname : a.d = b.d)
    (hobs : (obsT (FF b.tipNames) a).Perm ((obsT (FF b.tipNames) b).filterMap (keepV (critV crit) rt))) :
    collapseOK crit rt b a = true := by
  rw [collapseOK_eq]
  have hm : (ents b.tipNames b).filterMap (mandE crit rt) =
      (obsT (FF b.tipNames) b).filterMap (mandT crit rt ∘ obsTup) := by
    have := mand_eq crit rt (ents b.tipNames b)
    unfold mandE
    rw [this, ents_tup _ b hb1, List.filterMap_map]
  have hkeys : (ents b.tipNames a).map Ent.key = (obsT (FF b.tipNames) a).map (fun y => keyT (obsTup y)) := by
    have := ents_tup b.tipNames a ha1
    have h2 : (ents b.tipNames a).map Ent.key = ((ents b.tipNames a).map Ent.tup).map keyT := by
      rw [List.map_map]; rfl
    rw [h2, this, List.map_map]; rfl
  rw [hm, hkeys]
  have hperm : ((obsT (FF b.tipNames) a).map (fun y => keyT (obsTup y))).Perm
      ((obsT (FF b.tipNames) b).filterMap (mandT crit rt ∘ obsTup)) := by
    refine (hobs.map _).trans (List.Perm.of_eq ?_)
    rw [List.map_filterMap]
    apply filterMap_congr'
    intro x _
    exact mandT_keepV crit rt x
  rw [msub_of_perm _ _ hperm.symm, mdiff_of_perm _ _ hperm]
  have h1 : (sortS a.tipNames == sortS b.tipNames) = true := by
    rw [sortS_perm_eq htips]; exact beq_self_eq_true _
  have h2 : (a.name == b.name) = true := by
    unfold T.name; rw [hname]; exact beq_self_eq_true _
  simp [h1, h2, msub]

/-- The collapse oracle accepts every tree `a` whose observed branch list is the filtered list of
    `b`'s, on the same tips and root, for an unrooted `b` without single-child nodes. -/
theorem collapseOK_of_obs (crit : Crit) (rt : Bool) (b a : T)
    (hb3 : 3 ≤ b.kids.length) (_hns : b.noSingle = true) (ha1 : a.kids.length ≠ 1)
    (htips : a.tipNames.Perm b.tipNames) (hname : a.d = b.d)
    (hobs : (obsT (FF b.tipNames) a).Perm ((obsT (FF b.tipNames) b).filterMap (keepV (critV crit) rt))) :
    collapseOK crit rt b a = true :=
  collapseOK_of_obs' crit rt b a (by omega) ha1 htips hname hobs

theorem optE_below (crit : Crit) (all : List String) (c : T) :
    (entsT all c).filterMap (optE crit) = [] := by
  rw [List.filterMap_eq_nil_iff]
  intro e he
  simp [optE, entsT_prot all c e he]

theorem keys_below (all : List String) (c : T) :
    (entsT all c).map Ent.key = (obsT (FF all) c).map (fun y => keyT (obsTup y)) := by
  have h2 : (entsT all c).map Ent.key = ((entsT all c).map Ent.tup).map keyT := by
    rw [List.map_map]; rfl
  rw [h2, entsT_tup, List.map_map]; rfl

theorem mand_below (crit : Crit) (rt : Bool) (all : List String) (c : T) :
    (entsT all c).filterMap (mandE crit rt) = (obsT (FF all) c).filterMap (mandT crit rt ∘ obsTup) := by
  have := mand_eq crit rt (entsT all c)
  unfold mandE
  rw [this, entsT_tup, List.filterMap_map]

/-- rearrangement used below -/
theorem perm_six {α : Type} (g1 o1 K1 M1 g2 o2 K2 M2 : List α) (h1 : K1.Perm M1) (h2 : K2.Perm M2) :
    ((g1 ++ o1) ++ (K1 ++ ((g2 ++ o2) ++ (K2 ++ [])))).Perm ((g1 ++ (M1 ++ (g2 ++ (M2 ++ [])))) ++ (o1 ++ o2)) := by
  simp only [List.append_nil, List.append_assoc]
  refine List.Perm.append_left g1 ?_
  refine (List.Perm.append_left o1 (h1.append (List.Perm.append_left g2 (List.Perm.append_left o2 h2)))).trans ?_
  refine List.perm_append_comm.trans ?_
  simp only [List.append_assoc]
  refine List.Perm.append_left M1 (List.Perm.append_left g2 ?_)
  refine (List.perm_append_comm (l₁ := o2) (l₂ := M2 ++ o1)).trans ?_
  rw [List.append_assoc]

end Gotree.C07

namespace Gotree.C07
open Gotree

theorem holds_rootEnt (crit : Crit) (all : List String) (e : EdgeD) (c : T) :
    crit.holds (rootEnt all e c) = critV crit (FF all c.leaves, e, c.isLeaf) := by
  cases crit <;> rfl

/-- a root branch after the operation is what the oracle wants of it: MANDATORY when it is a tip
    branch or does not meet the criterion, OPTIONAL (and in fact kept) otherwise -/
theorem rootEnt_key (crit : Crit) (rt : Bool) (all : List String) (e e' : EdgeD) (c c' : T)
    (hl : c'.leaves.Perm c.leaves) (_hleaf : c'.isLeaf = c.isLeaf) (hd : c'.d = c.d)
    (he' : e' = if crit.holds (rootEnt all e c) = true ∧ c.isLeaf = true ∧ rt = true then zeroLen e else e) :
    [(rootEnt all e' c').key] =
      (mandE crit rt (rootEnt all e c)).toList ++ (optE crit (rootEnt all e c)).toList := by
  have hside : canonSide all c'.leaves = canonSide all c.leaves := canonSide_permInv all _ _ hl
  have hname : c'.name = c.name := by unfold T.name; rw [hd]
  have hk : ∀ x : EdgeD, (rootEnt all x c').key = (canonSide all c.leaves, x.len, x.sup, c.name) := by
    intro x; simp [rootEnt, Ent.key, hside, hname]
  have hk0 : (rootEnt all e c).key = (canonSide all c.leaves, e.len, e.sup, c.name) := by
    simp [rootEnt, Ent.key]
  have htip : (rootEnt all e c).tip = c.isLeaf := by simp [rootEnt]
  have hroot : (rootEnt all e c).prot = true := by simp [rootEnt]
  subst he'
  rw [hk]
  unfold mandE optE
  rw [htip, hroot, hk0]
  cases hh : crit.holds (rootEnt all e c) <;> cases hlf : c.isLeaf <;> cases rt <;>
    simp [zeroLen, rootEnt, Ent.key]

theorem collapseOK_rooted_of (crit : Crit) (rt : Bool) (d : NodeD) (p : Nat) (e1 e2 e1' e2' : EdgeD)
    (c1 c2 c1' c2' : T)
    (_hns : (T.node d p [(e1, c1), (e2, c2)]).noSingle = true)
    (he1 : e1' = if crit.holds (rootEnt (T.node d p [(e1, c1), (e2, c2)]).tipNames e1 c1) = true ∧ c1.isLeaf = true ∧ rt = true then zeroLen e1 else e1)
    (he2 : e2' = if crit.holds (rootEnt (T.node d p [(e1, c1), (e2, c2)]).tipNames e2 c2) = true ∧ c2.isLeaf = true ∧ rt = true then zeroLen e2 else e2)
    (ho1 : (obsT (FF (T.node d p [(e1, c1), (e2, c2)]).tipNames) c1').Perm
      ((obsT (FF (T.node d p [(e1, c1), (e2, c2)]).tipNames) c1).filterMap (keepV (critV crit) rt)))
    (ho2 : (obsT (FF (T.node d p [(e1, c1), (e2, c2)]).tipNames) c2').Perm
      ((obsT (FF (T.node d p [(e1, c1), (e2, c2)]).tipNames) c2).filterMap (keepV (critV crit) rt)))
    (hl1 : c1'.leaves.Perm c1.leaves) (hl2 : c2'.leaves.Perm c2.leaves)
    (hf1 : c1'.isLeaf = c1.isLeaf) (hf2 : c2'.isLeaf = c2.isLeaf) (hd1 : c1'.d = c1.d) (hd2 : c2'.d = c2.d) :
    collapseOK crit rt (.node d p [(e1, c1), (e2, c2)]) (.node d p [(e1', c1'), (e2', c2')]) = true := by
  rw [collapseOK_eq]
  generalize hall : (T.node d p [(e1, c1), (e2, c2)]).tipNames = all at *
  rw [ents_rooted, ents_rooted]
  have htips : (T.node d p [(e1', c1'), (e2', c2')]).tipNames.Perm all := by
    rw [← hall]
    simp only [T.tipNames, T.kids_node, List.length_cons, List.length_nil, leavesL]
    exact (List.Perm.refl _).append (hl1.append (hl2.append (List.Perm.refl _)))
  have h1 : (sortS (T.node d p [(e1', c1'), (e2', c2')]).tipNames == sortS all) = true := by
    rw [sortS_perm_eq htips]; exact beq_self_eq_true _
  have h2 : ((T.node d p [(e1', c1'), (e2', c2')]).name == (T.node d p [(e1, c1), (e2, c2)]).name) = true :=
    beq_self_eq_true _
  -- the lists
  have hK : ∀ (c c' : T), (obsT (FF all) c').Perm ((obsT (FF all) c).filterMap (keepV (critV crit) rt)) →
      ((entsT all c').map Ent.key).Perm ((entsT all c).filterMap (mandE crit rt)) := by
    intro c c' ho
    rw [keys_below, mand_below]
    refine (ho.map _).trans (List.Perm.of_eq ?_)
    rw [List.map_filterMap]
    apply filterMap_congr'
    intro x _
    exact mandT_keepV crit rt x
  have hkeys : ((rootEnt all e1' c1' :: (entsT all c1' ++ (rootEnt all e2' c2' :: (entsT all c2' ++ [])))).map Ent.key).Perm
      (((rootEnt all e1 c1 :: (entsT all c1 ++ (rootEnt all e2 c2 :: (entsT all c2 ++ [])))).filterMap (mandE crit rt)) ++
       ((rootEnt all e1 c1 :: (entsT all c1 ++ (rootEnt all e2 c2 :: (entsT all c2 ++ [])))).filterMap (optE crit))) := by
    have r1 := rootEnt_key crit rt all e1 e1' c1 c1' hl1 hf1 hd1 he1
    have r2 := rootEnt_key crit rt all e2 e2' c2 c2' hl2 hf2 hd2 he2
    have e_mand : (rootEnt all e1 c1 :: (entsT all c1 ++ (rootEnt all e2 c2 :: (entsT all c2 ++ [])))).filterMap (mandE crit rt) =
        (mandE crit rt (rootEnt all e1 c1)).toList ++ ((entsT all c1).filterMap (mandE crit rt) ++
          ((mandE crit rt (rootEnt all e2 c2)).toList ++ ((entsT all c2).filterMap (mandE crit rt) ++ []))) := by
      simp only [List.filterMap_cons, List.filterMap_append, List.filterMap_nil]
      cases mandE crit rt (rootEnt all e1 c1) <;> cases mandE crit rt (rootEnt all e2 c2) <;> simp
    have e_opt : (rootEnt all e1 c1 :: (entsT all c1 ++ (rootEnt all e2 c2 :: (entsT all c2 ++ [])))).filterMap (optE crit) =
        (optE crit (rootEnt all e1 c1)).toList ++ (optE crit (rootEnt all e2 c2)).toList := by
      simp only [List.filterMap_cons, List.filterMap_append, List.filterMap_nil, optE_below]
      cases optE crit (rootEnt all e1 c1) <;> cases optE crit (rootEnt all e2 c2) <;> simp
    have e_keys : (rootEnt all e1' c1' :: (entsT all c1' ++ (rootEnt all e2' c2' :: (entsT all c2' ++ [])))).map Ent.key =
        ([(rootEnt all e1' c1').key]) ++ ((entsT all c1').map Ent.key ++ ([(rootEnt all e2' c2').key] ++ ((entsT all c2').map Ent.key ++ []))) := by
      simp
    rw [e_mand, e_opt, e_keys, r1, r2]
    exact perm_six _ _ _ _ _ _ _ _ (hK c1 c1' ho1) (hK c2 c2' ho2)
  have h3 := msub_append_of_perm _ _ _ hkeys
  have h4 := msub_of_perm _ _ (mdiff_perm_append _ _ _ hkeys)
  simp only [h1, h2, h3, h4, Bool.and_self]

end Gotree.C07
