/-
  C15 — lemmas about `RemoveSingleNodes`.  Core Lean only.
-/
import Gotree.Lemmas.C15

namespace Gotree.C15
open Gotree Gotree.C14

/-- `math.Max(0, l)`: what the length rule of the code adds -/
def wPos (e : EdgeD) : Rat := max 0 e.len

theorem wPos_fuse (ec e : EdgeD) : wPos (fuseEdge fuseLenGo ec e) = wPos ec + wPos e := by
  have hn : NIL = (-1 : Rat) := rfl
  simp only [wPos, fuseEdge, fuseLenGo]
  split
  · grind
  · rename_i h
    simp only [Bool.or_eq_true, bne_iff_ne, ne_eq, not_or, Decidable.not_not] at h
    rw [h.1, h.2, hn]; grind

theorem splitsBelow_eq (t : T) : t.splitsBelow = splitsL t.kids := by cases t; simp

theorem leaves_eq_of_kids_ne (t : T) (h : t.kids ≠ []) : t.leaves = leavesL t.kids := by
  cases t with
  | node d p k => exact leaves_of_kids_ne d p k h

theorem leaves_eq_of_kids_nil (t : T) (h : t.kids = []) : t.leaves = [t.name] := by
  cases t with
  | node d p k => simp at h; subst h; simp [T.leaves, T.name]

theorem rsKids_cons (fl : Rat → Rat → Rat) (e : EdgeD) (t : T) (r : Kids) (pp i : Nat) :
    rsKids fl ((e, t) :: r) pp i =
      match (rsNode fl t).kids with
      | [(ec, c)] => ((rsKids fl r pp (i + 1)).1, (fuseEdge fl ec e, c) :: (rsKids fl r pp (i + 1)).2.1,
          (rsKids fl r pp (i + 1)).2.2 + (if i < pp then 1 else 0))
      | _ => ((e, rsNode fl t) :: (rsKids fl r pp (i + 1)).1, (rsKids fl r pp (i + 1)).2.1, (rsKids fl r pp (i + 1)).2.2) := by
  simp only [rsKids]
  rcases (rsNode fl t).kids with _ | ⟨⟨ec, c⟩, _ | ⟨y, ys⟩⟩ <;> rfl

theorem rsNode_eq (fl : Rat → Rat → Rat) (d : NodeD) (p : Nat) (k : Kids) :
    rsNode fl (.node d p k) = .node d (p - (rsKids fl k p 0).2.2) ((rsKids fl k p 0).1 ++ (rsKids fl k p 0).2.1) := by
  simp [rsNode]

/-- what the induction carries for one node -/
structure RsT (fl : Rat → Rat → Rat) (t : T) : Prop where
  dist : ∀ a b, distW wPos (rsNode fl t).splitsBelow a b = distW wPos t.splitsBelow a b
  mem : ∀ x, x ∈ (rsNode fl t).leaves ↔ x ∈ t.leaves
  nil : (rsNode fl t).kids = [] ↔ t.kids = []
  name : (rsNode fl t).name = t.name

/-- … and for the children of one node -/
structure RsK (fl : Rat → Rat → Rat) (k : Kids) (pp i : Nat) : Prop where
  dist : ∀ a b, distW wPos (splitsL (rsKids fl k pp i).1) a b + distW wPos (splitsL (rsKids fl k pp i).2.1) a b
      = distW wPos (splitsL k) a b
  mem : ∀ x, (x ∈ leavesL (rsKids fl k pp i).1 ∨ x ∈ leavesL (rsKids fl k pp i).2.1) ↔ x ∈ leavesL k
  len : (rsKids fl k pp i).1.length + (rsKids fl k pp i).2.1.length = k.length

theorem RsK_iff {fl : Rat → Rat → Rat} {k : Kids} {pp i : Nat} : RsK fl k pp i ↔
      ((∀ a b, distW wPos (splitsL (rsKids fl k pp i).1) a b + distW wPos (splitsL (rsKids fl k pp i).2.1) a b
        = distW wPos (splitsL k) a b) ∧
      (∀ x, (x ∈ leavesL (rsKids fl k pp i).1 ∨ x ∈ leavesL (rsKids fl k pp i).2.1) ↔ x ∈ leavesL k) ∧
      (rsKids fl k pp i).1.length + (rsKids fl k pp i).2.1.length = k.length) :=
    ⟨fun h => ⟨h.dist, h.mem, h.len⟩, fun h => ⟨h.1, h.2.1, h.2.2⟩⟩

mutual
theorem rsNode_ok : ∀ (t : T), RsT fuseLenGo t
  | .node d p k => by
    have hk := rsKids_ok k p 0
    have hlen := hk.len
    refine ⟨fun a b => ?_, fun x => ?_, ?_, by simp [rsNode_eq, T.name]⟩
    · rw [rsNode_eq, splitsBelow_node, splitsBelow_node, splitsL_append, distW_append]
      exact hk.dist a b
    · rw [rsNode_eq]
      cases k with
      | nil => simp [rsKids, T.leaves]
      | cons y r =>
        have hne : (rsKids fuseLenGo (y :: r) p 0).1 ++ (rsKids fuseLenGo (y :: r) p 0).2.1 ≠ [] := by
          intro h0
          have := congrArg List.length h0
          simp only [List.length_append, List.length_nil] at this
          simp only [List.length_cons] at hlen
          omega
        rw [leaves_of_kids_ne _ _ _ hne, leaves_node_cons, leavesL_append, List.mem_append]
        exact hk.mem x
    · rw [rsNode_eq]
      simp only [T.kids_node]
      constructor
      · intro h0
        have := congrArg List.length h0
        simp only [List.length_append, List.length_nil] at this
        cases k with
        | nil => rfl
        | cons y r => simp only [List.length_cons] at hlen; omega
      · intro h0; subst h0; simp [rsKids]
theorem rsKids_ok : ∀ (k : Kids) (pp i : Nat), RsK fuseLenGo k pp i
  | [], pp, i => ⟨fun a b => by simp [rsKids, splitsL, distW_nil, Rat.add_zero], fun x => by simp [rsKids, leavesL], by simp [rsKids]⟩
  | (e, t) :: r, pp, i => by
    have ht := rsNode_ok t
    have hr := rsKids_ok r pp (i + 1)
    rw [RsK_iff, rsKids_cons]
    split
    · rename_i ec c heq
      have hkne : (rsNode fuseLenGo t).kids ≠ [] := by simp [heq]
      have htne : t.kids ≠ [] := fun h => hkne (ht.nil.mpr h)
      have hl' : (rsNode fuseLenGo t).leaves = c.leaves := by
        rw [leaves_eq_of_kids_ne _ hkne, heq]; simp [leavesL]
      have hmem : ∀ x, x ∈ c.leaves ↔ x ∈ t.leaves := fun x => by rw [← hl']; exact ht.mem x
      refine ⟨fun a b => ?_, fun x => ?_, ?_⟩
      · have h1 := ht.dist a b
        rw [splitsBelow_eq (rsNode fuseLenGo t), heq] at h1
        simp only [splitsL, distW_cons, distW_append, List.append_nil] at h1 ⊢
        have h2 := hr.dist a b
        rw [sep_congr ⟨t.leaves, e, t.isLeaf⟩ ⟨c.leaves, fuseEdge fuseLenGo ec e, c.isLeaf⟩ a b (hmem a) (hmem b)]
        rw [sep_congr ⟨t.leaves, e, t.isLeaf⟩ ⟨c.leaves, ec, c.isLeaf⟩ a b (hmem a) (hmem b)] at h1
        rw [wPos_fuse]
        split <;> grind
      · have := hr.mem x
        simp only [leavesL, List.mem_append]
        rw [hmem x]
        grind
      · have := hr.len
        simp only [List.length_cons]
        omega
    · refine ⟨fun a b => ?_, fun x => ?_, ?_⟩
      · have h1 := ht.dist a b
        have h2 := hr.dist a b
        simp only [splitsL, distW_cons, distW_append]
        rw [sep_congr ⟨t.leaves, e, t.isLeaf⟩ ⟨(rsNode fuseLenGo t).leaves, e, (rsNode fuseLenGo t).isLeaf⟩ a b (ht.mem a) (ht.mem b), h1]
        grind
      · have := hr.mem x
        simp only [leavesL, List.mem_append]
        rw [ht.mem x]
        grind
      · have := hr.len
        simp only [List.length_cons]
        omega
end

/-! ### tips, admissible lengths, no single-child node left -/

/-- a length the generator draws / the property is about: absent or ≥ 0 -/
def okE (e : EdgeD) : Prop := e.len = NIL ∨ 0 ≤ e.len

theorem okE_fuse (ec e : EdgeD) : okE (fuseEdge fuseLenGo ec e) := by
  simp only [okE, fuseEdge, fuseLenGo]
  split
  · right; grind
  · rename_i h
    simp only [Bool.or_eq_true, bne_iff_ne, ne_eq, not_or, Decidable.not_not] at h
    exact Or.inl h.1

theorem noSingleBelow_eq (t : T) : t.noSingleBelow = (t.kids.length != 1 && noSingleL t.kids) := by
  cases t; simp [T.noSingleBelow]

theorem noSingleL_append : ∀ (k₁ k₂ : Kids), noSingleL (k₁ ++ k₂) = (noSingleL k₁ && noSingleL k₂)
  | [], _ => by simp [noSingleL]
  | (e, t) :: r, k₂ => by simp [noSingleL, noSingleL_append r k₂, Bool.and_assoc]

structure RsT2 (t : T) : Prop where
  perm : (rsNode fuseLenGo t).leaves.Perm t.leaves
  ok : (∀ s ∈ t.splitsBelow, okE s.e) → ∀ s ∈ (rsNode fuseLenGo t).splitsBelow, okE s.e
  ns : noSingleL (rsNode fuseLenGo t).kids = true

structure RsK2 (k : Kids) (pp i : Nat) : Prop where
  perm : (leavesL (rsKids fuseLenGo k pp i).1 ++ leavesL (rsKids fuseLenGo k pp i).2.1).Perm (leavesL k)
  ok : (∀ s ∈ splitsL k, okE s.e) →
    (∀ s ∈ splitsL (rsKids fuseLenGo k pp i).1, okE s.e) ∧ (∀ s ∈ splitsL (rsKids fuseLenGo k pp i).2.1, okE s.e)
  ns : noSingleL (rsKids fuseLenGo k pp i).1 = true ∧ noSingleL (rsKids fuseLenGo k pp i).2.1 = true

theorem RsK2_iff {k : Kids} {pp i : Nat} : RsK2 k pp i ↔
    ((leavesL (rsKids fuseLenGo k pp i).1 ++ leavesL (rsKids fuseLenGo k pp i).2.1).Perm (leavesL k) ∧
     ((∀ s ∈ splitsL k, okE s.e) →
      (∀ s ∈ splitsL (rsKids fuseLenGo k pp i).1, okE s.e) ∧ (∀ s ∈ splitsL (rsKids fuseLenGo k pp i).2.1, okE s.e)) ∧
     (noSingleL (rsKids fuseLenGo k pp i).1 = true ∧ noSingleL (rsKids fuseLenGo k pp i).2.1 = true)) :=
  ⟨fun h => ⟨h.perm, h.ok, h.ns⟩, fun h => ⟨h.1, h.2.1, h.2.2⟩⟩

mutual
theorem rsNode_ok2 : ∀ (t : T), RsT2 t
  | .node d p k => by
    have hk := rsKids_ok2 k p 0
    have hnil := (rsNode_ok (.node d p k)).nil
    refine ⟨?_, fun h s hs => ?_, ?_⟩
    · cases k with
      | nil => simp [rsNode_eq, rsKids]
      | cons y r =>
        have hne : (rsNode fuseLenGo (.node d p (y :: r))).kids ≠ [] := fun h0 => by
          have := hnil.mp h0; simp at this
        rw [leaves_eq_of_kids_ne _ hne, rsNode_eq, leaves_node_cons, T.kids_node, leavesL_append]
        exact hk.perm
    · rw [rsNode_eq, splitsBelow_node, splitsL_append, List.mem_append] at hs
      rw [splitsBelow_node] at h
      rcases hs with hs | hs
      · exact (hk.ok h).1 s hs
      · exact (hk.ok h).2 s hs
    · rw [rsNode_eq, T.kids_node, noSingleL_append, hk.ns.1, hk.ns.2]; rfl
theorem rsKids_ok2 : ∀ (k : Kids) (pp i : Nat), RsK2 k pp i
  | [], pp, i => ⟨by simp [rsKids, leavesL], fun _ => by simp [rsKids, splitsL], by simp [rsKids, noSingleL]⟩
  | (e, t) :: r, pp, i => by
    have ht := rsNode_ok2 t
    have ht1 := rsNode_ok t
    have hr := rsKids_ok2 r pp (i + 1)
    rw [RsK2_iff, rsKids_cons]
    split
    · rename_i ec c heq
      have hkne : (rsNode fuseLenGo t).kids ≠ [] := by simp [heq]
      have hl' : (rsNode fuseLenGo t).leaves = c.leaves := by
        rw [leaves_eq_of_kids_ne _ hkne, heq]; simp [leavesL]
      have hsb : (rsNode fuseLenGo t).splitsBelow = ⟨c.leaves, ec, c.isLeaf⟩ :: c.splitsBelow := by
        rw [splitsBelow_eq, heq]; simp [splitsL]
      refine ⟨?_, fun h => ⟨fun s hs => ?_, fun s hs => ?_⟩, hr.ns.1, ?_⟩
      · simp only [leavesL]
        have hc : c.leaves.Perm t.leaves := hl' ▸ ht.perm
        exact List.perm_append_comm_assoc _ _ _ |>.trans (hc.append hr.perm)
      · exact (hr.ok (fun s hs => h s (by simp [splitsL, hs]))).1 s hs
      · simp only [splitsL, List.mem_cons, List.mem_append] at hs
        rcases hs with rfl | hs | hs
        · exact okE_fuse ec e
        · exact ht.ok (fun s hs => h s (by simp [splitsL, hs])) s (by rw [hsb]; simp [hs])
        · exact (hr.ok (fun s hs => h s (by simp [splitsL, hs]))).2 s hs
      · have := ht.ns
        rw [heq] at this
        simp only [noSingleL, Bool.and_true] at this
        simp [noSingleL, this, hr.ns.2]
    · rename_i hno
      refine ⟨?_, fun h => ⟨fun s hs => ?_, fun s hs => ?_⟩, ?_, hr.ns.2⟩
      · simp only [leavesL, List.append_assoc]
        exact ht.perm.append hr.perm
      · simp only [splitsL, List.mem_cons, List.mem_append] at hs
        rcases hs with rfl | hs | hs
        · exact h ⟨t.leaves, e, t.isLeaf⟩ (by simp [splitsL])
        · exact ht.ok (fun s hs => h s (by simp [splitsL, hs])) s hs
        · exact (hr.ok (fun s hs => h s (by simp [splitsL, hs]))).1 s hs
      · exact (hr.ok (fun s hs => h s (by simp [splitsL, hs]))).2 s hs
      · have hlen : (rsNode fuseLenGo t).kids.length ≠ 1 := by
          intro h1
          match hk : (rsNode fuseLenGo t).kids, h1 with
          | [(ec, c)], _ => exact hno ec c hk
        simp [noSingleL, noSingleBelow_eq, hlen, ht.ns, hr.ns.1]
end

/-! ### nothing to remove: nothing changes -/

mutual
theorem rsNode_id (fl : Rat → Rat → Rat) : ∀ (t : T), noSingleL t.kids = true → rsNode fl t = t
  | .node d p k, h => by
    simp only [T.kids_node] at h
    rw [rsNode_eq, rsKids_id fl k p 0 h]
    simp
theorem rsKids_id (fl : Rat → Rat → Rat) : ∀ (k : Kids) (pp i : Nat), noSingleL k = true → rsKids fl k pp i = (k, [], 0)
  | [], _, _, _ => by simp [rsKids]
  | (e, t) :: r, pp, i, h => by
    simp only [noSingleL, Bool.and_eq_true, noSingleBelow_eq, bne_iff_ne, ne_eq] at h
    obtain ⟨⟨hlen, hk⟩, hr⟩ := h
    rw [rsKids_cons, rsNode_id fl t hk, rsKids_id fl r pp (i + 1) hr]
    split
    · rename_i ec c heq
      rw [heq] at hlen
      exact absurd rfl hlen
    · rfl
end

theorem removeSingleBy_id (fl : Rat → Rat → Rat) (t : T) (h : t.noSingle = true) : removeSingleBy fl t = t := by
  cases t with
  | node d p k =>
    simp only [T.noSingle, T.kids_node] at h
    simp [removeSingleBy, rsKids_id fl k 0 0 h]

/-! ### the whole operation -/

theorem distW_congr (w w' : EdgeD → Rat) (a b : String) : ∀ (l : List SplitE), (∀ s ∈ l, w s.e = w' s.e) →
    distW w l a b = distW w' l a b
  | [], _ => rfl
  | s :: l, h => by
    rw [distW_cons, distW_cons, h s (by simp), distW_congr w w' a b l (fun s hs => h s (by simp [hs]))]

theorem lenOr0_eq_wPos (e : EdgeD) (h : okE e) : e.lenOr0 = wPos e := by
  have hn : NIL = (-1 : Rat) := rfl
  simp only [EdgeD.lenOr0, wPos, beq_iff_eq]
  rcases h with h | h
  · rw [h, hn]; grind
  · split
    · rename_i h1; rw [h1, hn] at h; grind
    · grind

theorem lengthsOK_iff (t : T) : lengthsOK t = true ↔ ∀ s ∈ t.splits, okE s.e := by
  simp only [lengthsOK, T.edges, List.all_map, List.all_eq_true, Function.comp, okE, Bool.or_eq_true, beq_iff_eq,
    decide_eq_true_eq, ge_iff_le]

theorem removeSingle_splits (t : T) :
    (removeSingle t).splits = splitsL (rsKids fuseLenGo t.kids 0 0).1 ++ splitsL (rsKids fuseLenGo t.kids 0 0).2.1 := by
  simp [removeSingle, removeSingleBy, T.splits, splitsL_append]

theorem removeSingle_dist_wPos (t : T) (a b : String) :
    distW wPos (removeSingle t).splits a b = distW wPos t.splits a b := by
  rw [removeSingle_splits, distW_append]
  exact (rsKids_ok t.kids 0 0).dist a b

theorem removeSingle_lengthsOK (t : T) (h : lengthsOK t = true) : lengthsOK (removeSingle t) = true := by
  rw [lengthsOK_iff] at h ⊢
  intro s hs
  rw [removeSingle_splits, List.mem_append] at hs
  have := (rsKids_ok2 t.kids 0 0).ok h
  rcases hs with hs | hs
  · exact this.1 s hs
  · exact this.2 s hs

theorem removeSingle_dist' (t : T) (h : lengthsOK t = true) (a b : String) :
    (removeSingle t).dist a b = t.dist a b := by
  have h2 := removeSingle_lengthsOK t h
  rw [lengthsOK_iff] at h h2
  simp only [T.dist]
  rw [distW_congr EdgeD.lenOr0 wPos a b _ (fun s hs => lenOr0_eq_wPos _ (h2 s hs)),
    distW_congr EdgeD.lenOr0 wPos a b _ (fun s hs => lenOr0_eq_wPos _ (h s hs))]
  exact removeSingle_dist_wPos t a b

theorem removeSingle_tips' (t : T) : (removeSingle t).tipNames.Perm t.tipNames := by
  have hl := (rsKids_ok t.kids 0 0).len
  have hp := (rsKids_ok2 t.kids 0 0).perm
  simp only [T.tipNames, removeSingle, removeSingleBy, T.kids_node, T.name, T.d_node, List.length_append, hl, leavesL_append]
  exact hp.append_left _

theorem removeSingle_noSingle' (t : T) : (removeSingle t).noSingle = true := by
  have := (rsKids_ok2 t.kids 0 0).ns
  simp [T.noSingle, removeSingle, removeSingleBy, noSingleL_append, this.1, this.2]

end Gotree.C15
