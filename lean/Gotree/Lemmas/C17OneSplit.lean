/-
  C17 — from `Apart` on the split lists to "exactly one split apart" in the canonical
  presentation `usplitSet` of `Spec/Splits.lean`.
-/
import Gotree.Lemmas.C17Apart
import Gotree.Lemmas.C17Canon

namespace Gotree.C17
open Gotree Gotree.C17.Spec

/-- the tips below a branch are a contiguous part of the leaves -/
theorem below_sublist_leavesL : ∀ (k : Kids), ∀ s ∈ splitsL k, s.below.Sublist (leavesL k) := by
  have main : ∀ (t : T), ∀ s ∈ splitsL t.kids, s.below.Sublist (leavesL t.kids) := by
    intro t
    induction t using T.induct with
    | h d p k ih =>
      simp only [T.kids_node]
      have : ∀ (r : Kids), (∀ et ∈ r, et ∈ k) → ∀ s ∈ splitsL r, s.below.Sublist (leavesL r) := by
        intro r
        induction r with
        | nil => intro _ s hs; simp [splitsL] at hs
        | cons et r ihr =>
          obtain ⟨e, c⟩ := et
          intro hsub s hs
          rw [splitsL_cons] at hs
          rw [leavesL_cons]
          simp only [List.mem_cons, List.mem_append] at hs
          rcases hs with rfl | hs | hs
          · exact List.sublist_append_left _ _
          · have := ih (e, c) (hsub _ (by simp)) s (by simpa [splitsBelow_eq] using hs)
            refine List.Sublist.trans ?_ (List.sublist_append_left _ _)
            rw [leaves_eq]
            split
            · rename_i h0
              rw [h0] at this
              simp only [leavesL, List.sublist_nil] at this
              rw [this]
              exact List.nil_sublist _
            · exact this
          · exact (ihr (fun et het => hsub et (by simp [het])) s hs).trans (List.sublist_append_right _ _)
      exact this k (fun _ h => h)
  intro k
  exact main (.node default 0 k)

theorem leavesL_sub_tipNames (t : T) : ∀ x ∈ leavesL t.kids, x ∈ t.tipNames := by
  intro x hx
  unfold T.tipNames
  exact List.mem_append_right _ hx

theorem sameBranches_right : ∀ {R R' : List SplitE}, SameBranches R R' → ∀ s' ∈ R', ∃ s ∈ R, SameBranch s s'
  | [], [], _, s', hs' => by simp at hs'
  | [], _ :: _, h, _, _ => by simp [SameBranches] at h
  | _ :: _, [], h, _, _ => by simp [SameBranches] at h
  | s :: R, t :: R', h, s', hs' => by
    simp only [SameBranches] at h
    rcases List.mem_cons.mp hs' with rfl | hs'
    · exact ⟨s, by simp, h.1⟩
    · obtain ⟨x, hx, hxs⟩ := sameBranches_right h.2 s' hs'
      exact ⟨x, by simp [hx], hxs⟩

theorem sameBranches_left : ∀ {R R' : List SplitE}, SameBranches R R' → ∀ s ∈ R, ∃ s' ∈ R', SameBranch s s'
  | [], [], _, s, hs => by simp at hs
  | [], _ :: _, h, _, _ => by simp [SameBranches] at h
  | _ :: _, [], h, _, _ => by simp [SameBranches] at h
  | s₀ :: R, t :: R', h, s, hs => by
    simp only [SameBranches] at h
    rcases List.mem_cons.mp hs with rfl | hs
    · exact ⟨t, by simp, h.1⟩
    · obtain ⟨x, hx, hxs⟩ := sameBranches_left h.2 s hs
      exact ⟨x, by simp [hx], hxs⟩

theorem length_one_of {α : Type} {l : List α} {a : α} (hn : l.Nodup) (ha : a ∈ l) (hall : ∀ b ∈ l, b = a) :
    l.length = 1 := by
  match l, hn, ha, hall with
  | [], _, ha, _ => simp at ha
  | [_], _, _, _ => rfl
  | x :: y :: r, hn, _, hall =>
    have hx := hall x (by simp)
    have hy := hall y (by simp)
    simp only [List.nodup_cons, List.mem_cons, not_or] at hn
    exact absurd (hx.trans hy.symm) hn.1.1

/-- a branch that lies `Within` the site as the unchanged branches do defines neither the old nor the new split -/
theorem within_ne {all Z c c' s : List String} (hne : all ≠ [])
    {w x1 x2 x3 x4 : String} (hw : w ∈ s) (hwall : w ∈ all)
    (h1 : x1 ∈ c ∧ x1 ∈ c') (h2 : x2 ∈ c ∧ x2 ∉ c') (h3 : x3 ∈ Z ∧ x3 ∉ c ∧ x3 ∈ c') (h4 : x4 ∈ all ∧ x4 ∉ c ∧ x4 ∉ c')
    (hcZ : ∀ x ∈ c, x ∈ Z) (_hcZ' : ∀ x ∈ c', x ∈ Z) (hZ : ∀ x ∈ Z, x ∈ all)
    (hW : Within Z c c' s) :
    canonSide all s ≠ canonSide all c ∧ canonSide all s ≠ canonSide all c' := by
  have a1 : x1 ∈ all := hZ _ (hcZ _ h1.1)
  have a2 : x2 ∈ all := hZ _ (hcZ _ h2.1)
  have a3 : x3 ∈ all := hZ _ h3.1
  have z1 : x1 ∈ Z := hcZ _ h1.1
  have z2 : x2 ∈ Z := hcZ _ h2.1
  constructor
  · intro heq
    rcases canonSide_eq_cases hne heq with h | h <;>
      rcases hW with g | g | g | g | g | g <;>
      (have e1 := h x1 a1; have e2 := h x2 a2; have e3 := h x3 a3; have e4 := h x4 h4.1; have e5 := h w hwall
       have g1 := g w; have g2 := g x1; have g3 := g x2; have g4 := g x3; have g5 := g x4
       grind)
  · intro heq
    rcases canonSide_eq_cases hne heq with h | h <;>
      rcases hW with g | g | g | g | g | g <;>
      (have e1 := h x1 a1; have e2 := h x2 a2; have e3 := h x3 a3; have e4 := h x4 h4.1; have e5 := h w hwall
       have g1 := g w; have g2 := g x1; have g3 := g x2; have g4 := g x3; have g5 := g x4
       grind)

/-- below a proper path there is a tip outside the subtree reached (the root having at least
    two children) -/
theorem outside_nonempty (t S : T) (q : List Nat) (hq : q ≠ []) (hs : subAt q t = some S) (hne : S.kids ≠ [])
    (hk : 2 ≤ t.kids.length) (hnd : (leavesL t.kids).Nodup) : ∃ z, z ∈ leavesL t.kids ∧ z ∉ leavesL S.kids := by
  obtain ⟨d, pp, k⟩ := t
  cases q with
  | nil => exact absurd rfl hq
  | cons i q =>
    simp only [subAt] at hs
    cases hki : k[i]? with
    | none => simp [hki] at hs
    | some ec =>
      obtain ⟨e, c⟩ := ec
      simp only [hki] at hs
      simp only [T.kids_node] at hk hnd ⊢
      have hsubS : ∀ x ∈ leavesL S.kids, x ∈ c.leaves := fun x hx =>
        mem_leaves_of_mem_leavesL_kids ((sub_leaves_sublist q c S hs hne).subset hx)
      obtain ⟨hsplit, _⟩ := list_split_at k i (e, c) hki
      have hleaves : leavesL k = leavesL (k.take i) ++ (c.leaves ++ leavesL (k.drop (i + 1))) := by
        conv => lhs; rw [hsplit]
        simp [leavesL_append, leavesL_cons]
      rw [hleaves] at hnd ⊢
      by_cases h0 : k.take i = []
      · have h1 : k.drop (i + 1) ≠ [] := by
          intro h1
          have : k.length = 1 := by
            have := congrArg List.length hsplit
            simp only [h0, h1, List.nil_append, List.length_cons, List.length_nil] at this
            omega
          omega
        obtain ⟨z, hz⟩ := List.exists_mem_of_ne_nil _ (leavesL_ne_nil _ h1)
        refine ⟨z, by simp [hz], fun hzS => ?_⟩
        exact (List.nodup_append.mp (List.nodup_append.mp hnd).2.1).2.2 z (hsubS z hzS) z hz rfl
      · obtain ⟨z, hz⟩ := List.exists_mem_of_ne_nil _ (leavesL_ne_nil _ h0)
        refine ⟨z, by simp [hz], fun hzS => ?_⟩
        exact (List.nodup_append.mp hnd).2.2 z hz z (List.mem_append_left _ (hsubS z hzS)) rfl

/-- From the split lists to the canonical split sets. -/
theorem oneSplitApart_of_apart (t t' : T) (Z cb : List String) (isRoot : Bool)
    (hall : t'.tipNames.Perm t.tipNames) (hnd : t.tipNames.Nodup)
    (hA : Apart Z cb isRoot (splitsL t.kids) (splitsL t'.kids)) (hZ : ∀ x ∈ Z, x ∈ leavesL t.kids)
    (hout : isRoot = false → ∃ z, z ∈ t.tipNames ∧ z ∉ Z) :
    oneSplitApart t.usplitSet t'.usplitSet = true ∧
      canonSide t.tipNames cb ∈ t.usplitSet ∧ canonSide t.tipNames cb ∉ t'.usplitSet := by
  obtain ⟨c, c', R, R', hcb, p1, p2, hsame, _, _, _, hcZ, hcZ', ⟨x1, h1a, h1b⟩, ⟨x2, h2a, h2b⟩, ⟨x3, h3a, h3b, h3c⟩, hq4, hR⟩ := hA
  -- notation
  have hZall : ∀ x ∈ Z, x ∈ t.tipNames := fun x hx => leavesL_sub_tipNames t x (hZ x hx)
  have hne : t.tipNames ≠ [] := List.ne_nil_of_mem (hZall x3 h3a)
  have hndL : (leavesL t.kids).Nodup := by
    unfold T.tipNames at hnd
    exact (List.nodup_append.mp hnd).2.1
  have hnd' : t'.tipNames.Nodup := hall.nodup_iff.mpr hnd
  have hndL' : (leavesL t'.kids).Nodup := by
    unfold T.tipNames at hnd'
    exact (List.nodup_append.mp hnd').2.1
  have hcan : ∀ X, canonSide t'.tipNames X = canonSide t.tipNames X := fun X => canonSide_perm_all hall X
  have hlight : ∀ a, lightSize t'.tipNames a = lightSize t.tipNames a := fun a => lightSize_perm_all hall a
  -- the fourth quadrant
  obtain ⟨x4, h4a, h4b, h4c⟩ : ∃ x4, x4 ∈ t.tipNames ∧ x4 ∉ c.below ∧ x4 ∉ c'.below := by
    cases isRoot with
    | true =>
      obtain ⟨x, hx1, hx2, hx3⟩ := hq4 rfl
      exact ⟨x, hZall x hx1, hx2, hx3⟩
    | false =>
      obtain ⟨z, hz1, hz2⟩ := hout rfl
      exact ⟨z, hz1, fun h => hz2 (hcZ z h), fun h => hz2 (hcZ' z h)⟩
  -- membership of the entries
  have hcmem : c ∈ splitsL t.kids := p1.mem_iff.mpr (by simp)
  have hcmem' : c' ∈ splitsL t'.kids := p2.mem_iff.mpr (by simp)
  have hRmem : ∀ s ∈ R, s ∈ splitsL t.kids := fun s hs => p1.mem_iff.mpr (by simp [hs])
  have hRmem' : ∀ s ∈ R', s ∈ splitsL t'.kids := fun s hs => p2.mem_iff.mpr (by simp [hs])
  have hbelow : ∀ s ∈ splitsL t.kids, ∀ x ∈ s.below, x ∈ t.tipNames := fun s hs x hx =>
    leavesL_sub_tipNames t x ((below_sublist_leavesL t.kids s hs).subset hx)
  have hcnd : c.below.Nodup := hndL.sublist (below_sublist_leavesL t.kids c hcmem)
  have hcnd' : c'.below.Nodup := hndL'.sublist (below_sublist_leavesL t'.kids c' hcmem')
  -- the facts
  have a1 : x1 ∈ t.tipNames := hZall _ (hcZ _ h1a)
  have a2 : x2 ∈ t.tipNames := hZall _ (hcZ _ h2a)
  have a3 : x3 ∈ t.tipNames := hZall _ h3a
  have n12 : x1 ≠ x2 := fun h => h2b (h ▸ h1b)
  have n34 : x3 ≠ x4 := fun h => h4c (h ▸ h3c)
  have n13 : x1 ≠ x3 := fun h => h3b (h ▸ h1a)
  have n24 : x2 ≠ x4 := fun h => h4b (h ▸ h2a)
  have triv_c : 2 ≤ lightSize t.tipNames (canonSide t.tipNames c.below) :=
    lightSize_canonSide hnd hcnd a1 a2 n12 h1a h2a a3 h4a n34 h3b h4b
  have triv_c' : 2 ≤ lightSize t.tipNames (canonSide t.tipNames c'.below) :=
    lightSize_canonSide hnd hcnd' a1 a3 n13 h1b h3c a2 h4a n24 h2b h4c
  have hB : canonSide t.tipNames c.below ≠ canonSide t.tipNames c'.below := by
    intro heq
    rcases canonSide_eq_cases hne heq with h | h
    · exact h2b ((h x2 a2).mp h2a)
    · exact ((h x1 a1).mp h1a) h1b
  have hAne : ∀ s ∈ R, canonSide t.tipNames s.below ≠ canonSide t.tipNames c.below ∧
      canonSide t.tipNames s.below ≠ canonSide t.tipNames c'.below := by
    intro s hs
    obtain ⟨hsne, hW⟩ := hR s hs
    obtain ⟨w, hw⟩ := List.exists_mem_of_ne_nil _ hsne
    exact within_ne hne hw (hbelow s (hRmem s hs) w hw) ⟨h1a, h1b⟩ ⟨h2a, h2b⟩ ⟨h3a, h3b, h3c⟩ ⟨h4a, h4b, h4c⟩
      hcZ hcZ' hZall hW
  have hsameC : ∀ s s', SameBranch s s' → canonSide t.tipNames s.below = canonSide t.tipNames s'.below :=
    fun s s' h => canonSide_perm_side _ h.1
  -- members of the two split sets
  have memS := mem_usplitSet t
  have memS' : ∀ a, a ∈ t'.usplitSet ↔ (∃ s ∈ splitsL t'.kids, canonSide t.tipNames s.below = a) ∧ 2 ≤ lightSize t.tipNames a := by
    intro a
    rw [mem_usplitSet]
    simp only [hcan, hlight, T.splits]
  simp only [T.splits] at memS
  have inS : canonSide t.tipNames c.below ∈ t.usplitSet := (memS _).mpr ⟨⟨c, hcmem, rfl⟩, triv_c⟩
  have inS' : canonSide t.tipNames c'.below ∈ t'.usplitSet := (memS' _).mpr ⟨⟨c', hcmem', rfl⟩, triv_c'⟩
  have notS : canonSide t.tipNames c'.below ∉ t.usplitSet := by
    intro h
    obtain ⟨⟨s, hs, heq⟩, _⟩ := (memS _).mp h
    rcases List.mem_cons.mp (p1.mem_iff.mp hs) with rfl | hsR
    · exact hB heq
    · exact (hAne s hsR).2 heq
  have notS' : canonSide t.tipNames c.below ∉ t'.usplitSet := by
    intro h
    obtain ⟨⟨s', hs', heq⟩, _⟩ := (memS' _).mp h
    rcases List.mem_cons.mp (p2.mem_iff.mp hs') with rfl | hsR
    · exact hB heq.symm
    · obtain ⟨s, hs, hss⟩ := sameBranches_right hsame s' hsR
      exact (hAne s hs).1 ((hsameC s s' hss).trans heq)
  -- the two differences
  have d1 : diffCount t'.usplitSet t.usplitSet = 1 := by
    unfold diffCount
    apply length_one_of ((usplitSet_nodup t').sublist List.filter_sublist) (a := canonSide t.tipNames c'.below)
    · simp only [List.mem_filter, Bool.not_eq_true', List.contains_eq_mem, decide_eq_false_iff_not]
      exact ⟨inS', notS⟩
    · intro b hb
      simp only [List.mem_filter, Bool.not_eq_true', List.contains_eq_mem, decide_eq_false_iff_not] at hb
      obtain ⟨hb1, hb2⟩ := hb
      obtain ⟨⟨s', hs', heq⟩, hl⟩ := (memS' _).mp hb1
      rcases List.mem_cons.mp (p2.mem_iff.mp hs') with rfl | hsR
      · exact heq.symm
      · obtain ⟨s, hs, hss⟩ := sameBranches_right hsame s' hsR
        exact absurd ((memS b).mpr ⟨⟨s, hRmem s hs, (hsameC s s' hss).trans heq⟩, hl⟩) hb2
  have d2 : diffCount t.usplitSet t'.usplitSet = 1 := by
    unfold diffCount
    apply length_one_of ((usplitSet_nodup t).sublist List.filter_sublist) (a := canonSide t.tipNames c.below)
    · simp only [List.mem_filter, Bool.not_eq_true', List.contains_eq_mem, decide_eq_false_iff_not]
      exact ⟨inS, notS'⟩
    · intro b hb
      simp only [List.mem_filter, Bool.not_eq_true', List.contains_eq_mem, decide_eq_false_iff_not] at hb
      obtain ⟨hb1, hb2⟩ := hb
      obtain ⟨⟨s, hs, heq⟩, hl⟩ := (memS _).mp hb1
      rcases List.mem_cons.mp (p1.mem_iff.mp hs) with rfl | hsR
      · exact heq.symm
      · obtain ⟨s', hs', hss⟩ := sameBranches_left hsame s hsR
        exact absurd ((memS' b).mpr ⟨⟨s', hRmem' s' hs', (hsameC s s' hss).symm.trans heq⟩, hl⟩) hb2
  subst hcb
  exact ⟨by simp [oneSplitApart, d1, d2], inS, notS'⟩

end Gotree.C17
