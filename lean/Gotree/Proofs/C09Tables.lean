/-
  C09 — the theorems about the facts regenerated from the Go source (`Gen/C09Facts.lean`, written by
  harness/c09/extract.go on every run; vocabulary and evaluators in `Model/C09Facts.lean`).
  Round 7b: split from Proofs/C09.lean (nothing there depends on a generated table any more), and the rows
  about conditions are SEMANTIC: the extracted condition is evaluated on probes and compared with the
  reviewed condition's value, so an equivalent rewrite of the source stays green while a rewrite that
  changes the behaviour on a probe does not.

    sourceFactsCheck            the generated record passes `C09F.factsOK`:
                                  range test   = the reviewed one on 14 thresholds (ends, float64 neighbours, NaN …)
                                  Edges filter = `(x > min && x <= max) || x == max` on 0..5³
                                  AddBipartition refusal = `a <= 1 || a >= b-1` on 0..7 × 1..8
                                  per-tree steps: the four of them, UnRoot after RemoveSingleNodes and after the
                                    tip-root Reroot, ReinitIndexes last (Reroot / RemoveSingleNodes in either order)
                                  literally: message, NewEdgeIndex(128, 3/4), the float64 cut and its FMA
                                    correction, the arguments of Edges, the flag and the arguments of Consensus
    range_facts_model           the reviewed range test, interpreted, is the model's for every rational, and
                                rejects NaN
    keep_facts_model            the reviewed filter, interpreted, is the model's `keep` for all inputs
    cli_default_fact            the extracted default of -f is `cliCutoff none`; the flag's variable is the
                                one handed to tree.Consensus
    semantic_rows_discriminate  equivalent rewrites pass the rows, the historical defects do not
-/
import Gotree.Proofs.C09
import Gotree.Gen.C09Facts

namespace Gotree.C09
open Gotree

/-- What `harness/c09/extract.go` reads in tree/algo.go, tree/edgeindex.go and cmd/consensus.go on every
    run behaves, on the probes, like what the model was written from (`C09F.factsOK`, see the header). -/
theorem sourceFactsCheck : C09F.factsOK Gen.C09.facts = true := by decide +kernel

/-- The reviewed range test (the one the probes compare the source with), interpreted over the
    rationals, is the model's (`consensusG`: `if c < 1/2 || c > 1 then .err "range"`); over float64
    values it rejects NaN (`consensusThr`). -/
theorem range_facts_model (c : Rat) :
    C09F.evalB [("cutoff", c)] C09F.expectedRange = some (decide (c < 1/2) || decide (c > 1)) ∧
    C09F.evalBF [("cutoff", none)] C09F.expectedRange = some true := by
  refine ⟨?_, by decide +kernel⟩
  have e1 : ((1 : Nat) : Rat) / ((2 : Nat) : Rat) = 1/2 := by decide +kernel
  have e2 : ((1 : Nat) : Rat) / ((1 : Nat) : Rat) = 1 := by decide +kernel
  simp only [C09F.expectedRange, C09F.evalB, C09F.evalR, C09F.cmpR, List.lookup, e1, e2]
  by_cases h1 : c < 1/2 <;> by_cases h2 : c > 1 <;> simp_all [Rat.not_lt] <;> grind

/-- The reviewed filter of `EdgeIndex.Edges`, interpreted over the naturals, is the model's `keep`. -/
theorem keep_facts_model (m n : Nat) (x : Entry) :
    C09F.evalBN [("v.Count", x.count), ("minCount", m), ("maxCount", n)] C09F.expectedKeep
      = some (keep m n x) := by
  simp [C09F.expectedKeep, C09F.evalBN, C09F.evalN, C09F.cmpN, List.lookup, keep]

/-- The default of `-f` in the source is the model's (`cliCutoff none`), and the variable the flag
    fills is the one handed to `tree.Consensus`. -/
theorem cli_default_fact :
    (C09F.evalR [] Gen.C09.facts.flagDefault).map some = some (cliCutoff none) ∧
    Gen.C09.facts.consensusArgs = [.v "treechan", .v Gen.C09.facts.flagVar] := by
  constructor
  · decide +kernel
  · rfl

/-- The semantic rows let equivalent rewrites through and stop the historical defects:
    `cutoff < 0.5 || cutoff > 1 || cutoff != cutoff` and `!(cutoff <= 1 && 0.5 <= cutoff)`-style tests
    pass, the test before def0221 (`cutoff < 0.5 || cutoff > 1`, accepts NaN) does not; the tip-root
    `Reroot` may come after `RemoveSingleNodes`, `UnRoot` may not come before it (seeded change C09-2);
    the filter without `== maxCount` does not pass. -/
theorem semantic_rows_discriminate :
    C09F.rangeRowOK (.bin "||" (.bin "||" (.bin "<" (.v "cutoff") (.lit 1 2)) (.bin ">" (.v "cutoff") (.lit 1 1)))
      (.bin "!=" (.v "cutoff") (.v "cutoff"))) = true ∧
    C09F.rangeRowOK (.not (.bin "&&" (.bin "<=" (.v "cutoff") (.lit 1 1)) (.bin "<=" (.lit 1 2) (.v "cutoff")))) = true ∧
    C09F.rangeRowOK (.bin "||" (.bin "<" (.v "cutoff") (.lit 1 2)) (.bin ">" (.v "cutoff") (.lit 1 1))) = false ∧
    C09F.prepOrderOK ["RemoveSingleNodes", "Reroot", "UnRoot", "ReinitIndexes"] = true ∧
    C09F.prepOrderOK ["Reroot", "UnRoot", "RemoveSingleNodes", "ReinitIndexes"] = false ∧
    C09F.prepOrderOK ["Reroot", "RemoveSingleNodes", "UnRoot"] = false ∧
    C09F.keepRowOK (.bin "&&" (.bin ">" (.v "v.Count") (.v "minCount")) (.bin "<=" (.v "v.Count") (.v "maxCount")))
      ["minCount", "maxCount"] = false ∧
    C09F.keepRowOK (.bin "||" (.bin "==" (.v "v.Count") (.v "hi")) (.bin "&&" (.bin "<" (.v "lo") (.v "v.Count"))
      (.bin ">=" (.v "hi") (.v "v.Count")))) ["lo", "hi"] = true := by decide +kernel

end Gotree.C09
