/-
  C11 — the model of `hashmap.HashMap` meets the Spec of a history (`HM.historyOK`, Spec/C11.lean): whatever
  the list of calls, the initial capacity, the load factor and the hash function, the answers of the model
  are those of the association-list reference.  And: the order in which `PutValue` calls of goroutines
  owning disjoint keys interleave does not change what any later `Value` answers.
-/
import Gotree.Lemmas.C11HashMap
import Gotree.Spec.C11

namespace Gotree.C11.HM

/-! ### interleavings -/

/-- Two lists of `PutValue` calls that agree key by key (the same calls on each key, in the same order —
    e.g. two interleavings of goroutines that own disjoint sets of keys) leave maps that answer every
    `Value` alike; neither panics. -/
theorem putAll_interleaving {κ ν : Type} [DecidableEq κ] (hash : κ → Nat) (m : HMap κ ν) (hw : WF hash m)
    (ops1 ops2 : List (κ × ν))
    (h : ∀ k, ops1.filter (fun o => decide (o.1 = k)) = ops2.filter (fun o => decide (o.1 = k))) :
    ∃ m1 m2, putAll hash m ops1 = some m1 ∧ putAll hash m ops2 = some m2 ∧
      ∀ k, value hash m1 k = value hash m2 k := by
  obtain ⟨m1, h1, w1, l1⟩ := putAll_spec hash ops1 m hw
  obtain ⟨m2, h2, w2, l2⟩ := putAll_spec hash ops2 m hw
  refine ⟨m1, m2, h1, h2, ?_⟩
  intro k
  rw [value_eq hash m1 w1, value_eq hash m2 w2, l1 k, l2 k, lastPut_filter ops1 k, lastPut_filter ops2 k, h k]

/-! ### the association-list reference of the Spec -/

theorem refGet_eq (ref : List (Nat × Int)) (k : Nat) : refGet ref k = lookup ref k := by
  unfold refGet lookup
  congr 1
  induction ref with
  | nil => rfl
  | cons a r ih =>
    by_cases h : k = a.1
    · simp [List.find?_cons, h]
    · have h' : ¬ a.1 = k := fun e => h e.symm
      simp [List.find?_cons, h, h', ih]

theorem refPut_keys (ref : List (Nat × Int)) (k : Nat) (v : Int) :
    (refPut ref k v).map Prod.fst = if k ∈ ref.map Prod.fst then ref.map Prod.fst else ref.map Prod.fst ++ [k] := by
  unfold refPut
  by_cases h : k ∈ ref.map Prod.fst
  · have : ref.any (fun x => x.1 == k) = true := by
      obtain ⟨x, hx, hk⟩ := List.mem_map.mp h
      exact List.any_eq_true.mpr ⟨x, hx, by simp [hk]⟩
    rw [if_pos this, if_pos h]
    rw [List.map_map]
    apply List.map_congr_left
    intro a _
    by_cases ha : a.1 = k <;> simp [ha]
  · have : ¬ ref.any (fun x => x.1 == k) = true := by
      intro ha
      obtain ⟨x, hx, hk⟩ := List.any_eq_true.mp ha
      exact h (List.mem_map.mpr ⟨x, hx, by simpa using hk⟩)
    rw [if_neg this, if_neg h]; simp

theorem lookup_map_put (ref : List (Nat × Int)) (k : Nat) (v : Int) (k' : Nat) :
    lookup (ref.map (fun kv => if kv.1 == k then (kv.1, v) else kv)) k' =
      if k' = k then (lookup ref k').map (fun _ => v) else lookup ref k' := by
  induction ref with
  | nil => simp [lookup]
  | cons a r ih =>
    by_cases hk' : k' = a.1
    · by_cases ha : a.1 = k
      · have : k' = k := hk'.trans ha
        simp [lookup, hk', ha]
      · have : ¬ k' = k := by rw [hk']; exact ha
        simp [lookup, hk', ha]
    · have e1 : ∀ (x : Nat × Int) l, x.1 = a.1 → lookup (x :: l) k' = lookup l k' := by
        intro x l hx; simp [lookup, hx, hk']
      have hfst : (if a.1 == k then (a.1, v) else a).1 = a.1 := by by_cases ha : a.1 = k <;> simp [ha]
      rw [List.map_cons, e1 _ _ hfst, e1 a r rfl, ih]

theorem refPut_lookup (ref : List (Nat × Int)) (k : Nat) (v : Int) (k' : Nat) :
    lookup (refPut ref k v) k' = assocPut ref k v k' := by
  unfold refPut assocPut
  by_cases h : k ∈ ref.map Prod.fst
  · have : ref.any (fun x => x.1 == k) = true := by
      obtain ⟨x, hx, hk⟩ := List.mem_map.mp h
      exact List.any_eq_true.mpr ⟨x, hx, by simp [hk]⟩
    rw [if_pos this, lookup_map_put]
    by_cases hk' : k' = k
    · subst hk'
      cases hl : lookup ref k' with
      | none => exact absurd h ((lookup_none_iff ref k').mp hl)
      | some x => simp
    · simp [hk']
  · have : ¬ ref.any (fun x => x.1 == k) = true := by
      intro ha
      obtain ⟨x, hx, hk⟩ := List.any_eq_true.mp ha
      exact h (List.mem_map.mpr ⟨x, hx, by simpa using hk⟩)
    rw [if_neg this, lookup_append]
    by_cases hk' : k' = k
    · subst hk'
      rw [(lookup_none_iff ref k').mpr h]; simp [lookup]
    · have : lookup [(k, v)] k' = none := by simp [lookup, hk']
      rw [this]; simp [hk']

/-- two association lists without repeated key that answer every lookup alike hold the same pairs -/
theorem perm_of_lookup_eq {κ ν : Type} [DecidableEq κ] (l1 l2 : List (κ × ν))
    (h1 : (l1.map Prod.fst).Nodup) (h2 : (l2.map Prod.fst).Nodup)
    (h : ∀ k, lookup l1 k = lookup l2 k) : l1.Perm l2 := by
  have nd : ∀ l : List (κ × ν), (l.map Prod.fst).Nodup → l.Nodup := fun l hl =>
    List.Pairwise.of_map Prod.fst (fun a b (hab : a.1 ≠ b.1) e => hab (by rw [e])) hl
  classical
  refine (List.perm_ext_iff_of_nodup (nd _ h1) (nd _ h2)).mpr ?_
  intro a
  obtain ⟨k, v⟩ := a
  rw [← lookup_some_iff l1 h1 k v, ← lookup_some_iff l2 h2 k v, h k]

theorem sameSet_of_perm {α : Type} [BEq α] [LawfulBEq α] (l want : List α) (hp : want.Perm l) :
    sameSet (l.map some) want = true := by
  unfold sameSet
  simp only [List.length_map, Bool.and_eq_true, beq_iff_eq, List.all_eq_true]
  refine ⟨hp.length_eq.symm, ?_⟩
  intro x hx
  rw [List.contains_iff_mem]
  exact List.mem_map.mpr ⟨x, hp.mem_iff.mp hx, rfl⟩

/-- ★ the model meets the Spec: from any well-formed map standing for the reference list `ref`, the answers
    of the model to ANY history are accepted by the oracle — no panic, every `Value` answers the last
    `PutValue`, `Keys` / `KeyValues` list every stored key (pair) exactly once without nil cell. -/
theorem runOps_meets_spec (hash : Nat → Nat) (ops : List (Op Nat Int)) :
    ∀ (m : HMap Nat Int) (ref : List (Nat × Int)), WF hash m → ref.Perm (entries m) →
      historyOK ref ops (runOps hash m ops) = true := by
  induction ops with
  | nil => intro m ref _ _; simp [runOps, historyOK]
  | cons op r ih =>
    intro m ref hw hp
    have hrefn : (ref.map Prod.fst).Nodup := ((hp.map Prod.fst).nodup_iff).mpr hw.nodup
    cases op with
    | put k v =>
      obtain ⟨m', h1, hw', hl, _⟩ := putValue_spec hash m hw k v
      simp only [runOps, h1, historyOK]
      apply ih m' (refPut ref k v) hw'
      apply perm_of_lookup_eq _ _ _ hw'.nodup
      · intro k'
        rw [refPut_lookup, hl k']
        unfold assocPut
        rw [lookup_perm hp hrefn k']
      · rw [refPut_keys]
        split
        · exact hrefn
        · rename_i hk
          exact List.nodup_append.mpr ⟨hrefn, by simp, by
            intro a ha b hb; simp at hb; subst hb; intro e; subst e; exact hk ha⟩
    | get k =>
      simp only [runOps, value_eq hash m hw, historyOK, Bool.and_eq_true]
      refine ⟨?_, ih m ref hw hp⟩
      rw [refGet_eq, lookup_perm hp hrefn k]; simp
    | keys =>
      simp only [runOps, keys_eq hash m hw, historyOK, Bool.and_eq_true]
      refine ⟨?_, ih m ref hw hp⟩
      have : (entries m).map (fun kv => some kv.1) = ((entries m).map Prod.fst).map some := by simp
      rw [this]
      exact sameSet_of_perm _ _ (hp.map Prod.fst)
    | keyValues =>
      simp only [runOps, keyValues, cells_eq hash m hw, historyOK, Bool.and_eq_true]
      exact ⟨sameSet_of_perm _ _ hp, ih m ref hw hp⟩

end Gotree.C11.HM
