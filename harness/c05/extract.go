package c05

// Source facts the hand-written model of C05 relies on, regenerated from the working tree by
// `vh gen-tables` (go/ast only) into lean/Gotree/Gen/C05Source.lean and re-decided by the theorem
// `source_facts_check` of Proofs/C05.lean:
//
//	reaches   which of the sinks ReorderEdges / UpdateTipIndex / UpdateBitSet / ComputeDepths / UnRoot each
//	          anchored function of package tree reaches through the static call graph (by name)
//	cmps      the comparisons of the selection predicates (ordering comparisons, and ==/!= against a literal
//	          or a NIL_* constant), normalised: a > b is lt(b,a), a >= b is le(b,a), the constant comes second
//	factors   the constant factors of the arithmetic (x / 2.0 and x * 0.5 are both "1/2")
//	commands  which library method every command of the property calls on the tree it read, with the arguments
//	flags     the flags of these commands: name, shorthand, default, variable
//
// The rows are semantic normal forms, not text: inlining a helper, replacing /2.0 by *0.5 or turning a < b
// into b > a or renaming a local variable changes nothing (locals are printed $1, $2, … in order of first
// occurrence among the comparisons of the function); reordering two comparisons does.

import (
	"fmt"
	"go/ast"
	"go/parser"
	"go/token"
	"go/types"
	"math/big"
	"os"
	"path/filepath"
	"sort"
	"strconv"
	"strings"
)

var srcSinks = []string{"ComputeDepths", "ReorderEdges", "UnRoot", "UpdateBitSet", "UpdateTipIndex"}

var srcFuncs = []string{"Reroot", "reroot_nocheck", "RerootFirst", "UnRoot", "RerootOutGroup", "RerootMidPoint",
	"RotateInternalNodes", "SortNeighborsByTips"}

var srcCmpFuncs = []string{"Reroot", "reroot_nocheck", "RerootFirst", "UnRoot", "LeastCommonAncestorUnrooted",
	"LeastCommonAncestorRecur", "RerootOutGroup", "MaxLengthPath", "RerootMidPoint", "sortNeighbors", "RotateNeighbors"}

var srcCmdFiles = []string{"outgroup.go", "midpoint.go", "unroot.go", "rotate_rand.go", "rotate_sort.go", "reroot.go", "rotate.go"}

func parseDir(dir string, only []string) (*token.FileSet, []*ast.File, error) {
	fset := token.NewFileSet()
	ents, err := os.ReadDir(dir)
	if err != nil {
		return nil, nil, err
	}
	var names []string
	for _, e := range ents {
		nm := e.Name()
		if !strings.HasSuffix(nm, ".go") || strings.HasSuffix(nm, "_test.go") {
			continue
		}
		if only != nil {
			keep := false
			for _, o := range only {
				keep = keep || o == nm
			}
			if !keep {
				continue
			}
		}
		names = append(names, nm)
	}
	sort.Strings(names)
	var files []*ast.File
	for _, nm := range names {
		f, err := parser.ParseFile(fset, filepath.Join(dir, nm), nil, 0)
		if err != nil {
			return nil, nil, fmt.Errorf("parse %s: %v", nm, err)
		}
		files = append(files, f)
	}
	return fset, files, nil
}

func calleeName(c *ast.CallExpr) string {
	switch f := c.Fun.(type) {
	case *ast.SelectorExpr:
		return f.Sel.Name
	case *ast.Ident:
		return f.Name
	}
	return ""
}

func isConst(e ast.Expr) bool {
	switch x := e.(type) {
	case *ast.BasicLit:
		return true
	case *ast.Ident:
		return strings.HasPrefix(x.Name, "NIL_")
	}
	return false
}

// localsOf collects the names a function declares itself: receiver, parameters, results, `:=`, `var`, range
// variables.  In the rendering of a comparison they are replaced by $1, $2, … in the order of their first
// occurrence among the comparisons of the function, so that renaming a local changes nothing.
func localsOf(fn ast.Node) map[string]bool {
	loc := map[string]bool{}
	addFields := func(fl *ast.FieldList) {
		if fl == nil {
			return
		}
		for _, f := range fl.List {
			for _, nm := range f.Names {
				loc[nm.Name] = true
			}
		}
	}
	ast.Inspect(fn, func(n ast.Node) bool {
		switch x := n.(type) {
		case *ast.FuncDecl:
			addFields(x.Recv)
			addFields(x.Type.Params)
			addFields(x.Type.Results)
		case *ast.FuncLit:
			addFields(x.Type.Params)
			addFields(x.Type.Results)
		case *ast.AssignStmt:
			if x.Tok == token.DEFINE {
				for _, l := range x.Lhs {
					if id, ok := l.(*ast.Ident); ok {
						loc[id.Name] = true
					}
				}
			}
		case *ast.ValueSpec:
			for _, nm := range x.Names {
				loc[nm.Name] = true
			}
		case *ast.RangeStmt:
			if x.Tok == token.DEFINE {
				for _, e := range []ast.Expr{x.Key, x.Value} {
					if id, ok := e.(*ast.Ident); ok {
						loc[id.Name] = true
					}
				}
			}
		}
		return true
	})
	delete(loc, "_")
	return loc
}

type renamer struct {
	loc map[string]bool
	num map[string]int
}

func (r *renamer) str(e ast.Expr) string {
	switch x := e.(type) {
	case *ast.Ident:
		if r.loc[x.Name] {
			if _, ok := r.num[x.Name]; !ok {
				r.num[x.Name] = len(r.num) + 1
			}
			return fmt.Sprintf("$%d", r.num[x.Name])
		}
		return x.Name
	case *ast.BasicLit:
		return x.Value
	case *ast.ParenExpr:
		return "(" + r.str(x.X) + ")"
	case *ast.SelectorExpr:
		return r.str(x.X) + "." + x.Sel.Name
	case *ast.StarExpr:
		return "*" + r.str(x.X)
	case *ast.UnaryExpr:
		return x.Op.String() + r.str(x.X)
	case *ast.BinaryExpr:
		// x / c and x * c with a numeric literal c are printed as x*<rational factor>
		if l, ok := x.Y.(*ast.BasicLit); ok && (x.Op == token.QUO || x.Op == token.MUL) && (l.Kind == token.INT || l.Kind == token.FLOAT) {
			if c, ok := new(big.Rat).SetString(l.Value); ok && c.Sign() != 0 {
				if x.Op == token.QUO {
					c = new(big.Rat).Inv(c)
				}
				return r.str(x.X) + "*" + c.RatString()
			}
		}
		return r.str(x.X) + " " + x.Op.String() + " " + r.str(x.Y)
	case *ast.IndexExpr:
		return r.str(x.X) + "[" + r.str(x.Index) + "]"
	case *ast.CallExpr:
		a := make([]string, len(x.Args))
		for i, y := range x.Args {
			a[i] = r.str(y)
		}
		return r.str(x.Fun) + "(" + strings.Join(a, ", ") + ")"
	}
	return types.ExprString(e)
}

// cmpsOf lists the normalised comparisons of a function in source order.
func cmpsOf(fn ast.Node, body ast.Node) [][3]string {
	var out [][3]string
	r := &renamer{loc: localsOf(fn), num: map[string]int{}}
	ast.Inspect(body, func(n ast.Node) bool {
		b, ok := n.(*ast.BinaryExpr)
		if !ok {
			return true
		}
		switch b.Op {
		case token.LSS:
			x, y := r.str(b.X), r.str(b.Y)
			out = append(out, [3]string{"lt", x, y})
		case token.LEQ:
			x, y := r.str(b.X), r.str(b.Y)
			out = append(out, [3]string{"le", x, y})
		case token.GTR:
			y, x := r.str(b.Y), r.str(b.X)
			out = append(out, [3]string{"lt", y, x})
		case token.GEQ:
			y, x := r.str(b.Y), r.str(b.X)
			out = append(out, [3]string{"le", y, x})
		case token.EQL, token.NEQ:
			op := "eq"
			if b.Op == token.NEQ {
				op = "ne"
			}
			if isConst(b.Y) {
				x, y := r.str(b.X), r.str(b.Y)
				out = append(out, [3]string{op, x, y})
			} else if isConst(b.X) {
				y, x := r.str(b.Y), r.str(b.X)
				out = append(out, [3]string{op, y, x})
			}
		}
		return true
	})
	return out
}

// factorsOf lists (sorted, without repetition) the constant factors x/c ↦ 1/c, x*c ↦ c of a body.
func factorsOf(body ast.Node) []string {
	set := map[string]bool{}
	lit := func(e ast.Expr) *big.Rat {
		l, ok := e.(*ast.BasicLit)
		if !ok || (l.Kind != token.INT && l.Kind != token.FLOAT) {
			return nil
		}
		r, ok := new(big.Rat).SetString(l.Value)
		if !ok {
			return nil
		}
		return r
	}
	ast.Inspect(body, func(n ast.Node) bool {
		b, ok := n.(*ast.BinaryExpr)
		if !ok {
			return true
		}
		switch b.Op {
		case token.QUO:
			if c := lit(b.Y); c != nil && c.Sign() != 0 {
				set[new(big.Rat).Inv(c).RatString()] = true
			}
		case token.MUL:
			if c := lit(b.Y); c != nil {
				set[c.RatString()] = true
			} else if c := lit(b.X); c != nil {
				set[c.RatString()] = true
			}
		}
		return true
	})
	var out []string
	for k := range set {
		out = append(out, k)
	}
	sort.Strings(out)
	return out
}

func leanStr(s string) string { return strconv.Quote(s) }

func leanList(l []string) string {
	q := make([]string, len(l))
	for i, s := range l {
		q[i] = leanStr(s)
	}
	return "[" + strings.Join(q, ", ") + "]"
}

// GenTables writes <out>/C05Source.lean.
func GenTables(repo, out string) error {
	_, files, err := parseDir(filepath.Join(repo, "tree"), nil)
	if err != nil {
		return err
	}
	decls := map[string][]*ast.FuncDecl{}
	for _, f := range files {
		for _, d := range f.Decls {
			if fd, ok := d.(*ast.FuncDecl); ok && fd.Body != nil {
				decls[fd.Name.Name] = append(decls[fd.Name.Name], fd)
			}
		}
	}
	// the anchored functions are methods of *Tree (or plain functions): of several declarations with one
	// name, the one whose receiver is Tree is meant
	pick := func(name string) *ast.FuncDecl {
		var first *ast.FuncDecl
		for _, fd := range decls[name] {
			if first == nil {
				first = fd
			}
			if fd.Recv != nil && len(fd.Recv.List) == 1 && strings.HasSuffix(types.ExprString(fd.Recv.List[0].Type), "Tree") {
				return fd
			}
		}
		return first
	}
	callees := func(fd *ast.FuncDecl) []string {
		var l []string
		ast.Inspect(fd.Body, func(n ast.Node) bool {
			if c, ok := n.(*ast.CallExpr); ok {
				if nm := calleeName(c); nm != "" && len(decls[nm]) > 0 {
					l = append(l, nm)
				}
			}
			return true
		})
		return l
	}
	var b strings.Builder
	b.WriteString("-- GENERATED by harness/c05/extract.go (vh gen-tables) from tree/*.go and cmd/{outgroup,midpoint,unroot,rotate_rand,rotate_sort,reroot,rotate}.go; do not edit\n")
	b.WriteString("namespace Gotree.Gen.C05Source\n\n")
	b.WriteString("/-- function ↦ the sinks it reaches through the static call graph of package tree -/\n")
	b.WriteString("def reaches : List (String × List String) := [\n")
	for i, fn := range srcFuncs {
		fd := pick(fn)
		if fd == nil {
			return fmt.Errorf("function %s not found in package tree", fn)
		}
		seen := map[string]bool{}
		var walk func(name string)
		walk = func(name string) {
			if seen[name] {
				return
			}
			seen[name] = true
			for _, d := range decls[name] {
				for _, c := range callees(d) {
					walk(c)
				}
			}
		}
		seen[fn] = true
		for _, c := range callees(fd) {
			walk(c)
		}
		var hit []string
		for _, s := range srcSinks {
			if seen[s] && s != fn {
				hit = append(hit, s)
			}
		}
		sep := ","
		if i == len(srcFuncs)-1 {
			sep = ""
		}
		fmt.Fprintf(&b, "  (%s, %s)%s\n", leanStr(fn), leanList(hit), sep)
	}
	b.WriteString("]\n\n")
	type row struct {
		fn   string
		cmps [][3]string
		fac  []string
	}
	var rows []row
	for _, fn := range srcCmpFuncs {
		fd := pick(fn)
		if fd == nil {
			// RotateNeighbors is a method of Node
			for _, d := range decls[fn] {
				fd = d
			}
		}
		if fd == nil {
			return fmt.Errorf("function %s not found in package tree", fn)
		}
		rows = append(rows, row{fn, cmpsOf(fd, fd.Body), factorsOf(fd.Body)})
	}
	// the commands
	_, cfiles, err := parseDir(filepath.Join(repo, "cmd"), srcCmdFiles)
	if err != nil {
		return err
	}
	type cmdRow struct {
		name  string
		calls []string
		args  []string
	}
	var cmds []cmdRow
	var flags [][5]string
	for _, f := range cfiles {
		for _, d := range f.Decls {
			switch x := d.(type) {
			case *ast.GenDecl:
				for _, sp := range x.Specs {
					vs, ok := sp.(*ast.ValueSpec)
					if !ok || len(vs.Names) != 1 || len(vs.Values) != 1 || !strings.HasSuffix(vs.Names[0].Name, "Cmd") {
						continue
					}
					var run *ast.FuncLit
					ast.Inspect(vs.Values[0], func(n ast.Node) bool {
						if kv, ok := n.(*ast.KeyValueExpr); ok {
							if k, ok := kv.Key.(*ast.Ident); ok && (k.Name == "RunE" || k.Name == "Run") {
								if fl, ok := kv.Value.(*ast.FuncLit); ok {
									run = fl
								}
							}
						}
						return true
					})
					if run == nil {
						continue
					}
					cr := cmdRow{name: vs.Names[0].Name}
					ast.Inspect(run.Body, func(n ast.Node) bool {
						c, ok := n.(*ast.CallExpr)
						if !ok {
							return true
						}
						sel, ok := c.Fun.(*ast.SelectorExpr)
						if !ok || !strings.HasSuffix(types.ExprString(sel.X), ".Tree") || len(decls[sel.Sel.Name]) == 0 {
							return true
						}
						cr.calls = append(cr.calls, sel.Sel.Name)
						if sel.Sel.Name != "Newick" && cr.args == nil {
							for i, a := range c.Args {
								s := types.ExprString(a)
								if i == len(c.Args)-1 && c.Ellipsis != token.NoPos {
									s += "..."
								}
								cr.args = append(cr.args, s)
							}
						}
						return true
					})
					cmds = append(cmds, cr)
					rows = append(rows, row{"cmd:" + cr.name, cmpsOf(run, run.Body), factorsOf(run.Body)})
				}
			case *ast.FuncDecl:
				if x.Name.Name != "init" || x.Body == nil {
					continue
				}
				ast.Inspect(x.Body, func(n ast.Node) bool {
					c, ok := n.(*ast.CallExpr)
					if !ok {
						return true
					}
					sel, ok := c.Fun.(*ast.SelectorExpr)
					if !ok || !strings.Contains(sel.Sel.Name, "Var") {
						return true
					}
					inner, ok := sel.X.(*ast.CallExpr)
					if !ok {
						return true
					}
					isel, ok := inner.Fun.(*ast.SelectorExpr)
					if !ok || !strings.HasSuffix(isel.Sel.Name, "Flags") {
						return true
					}
					withShort := strings.HasSuffix(sel.Sel.Name, "P")
					need := 4
					if withShort {
						need = 5
					}
					if len(c.Args) != need {
						return true
					}
					unq := func(e ast.Expr) string {
						if l, ok := e.(*ast.BasicLit); ok && l.Kind == token.STRING {
							if s, err := strconv.Unquote(l.Value); err == nil {
								return s
							}
						}
						return types.ExprString(e)
					}
					v := strings.TrimPrefix(types.ExprString(c.Args[0]), "&")
					short, def := "", ""
					if withShort {
						short, def = unq(c.Args[2]), unq(c.Args[3])
					} else {
						def = unq(c.Args[2])
					}
					flags = append(flags, [5]string{types.ExprString(isel.X), unq(c.Args[1]), short, def, v})
					return true
				})
			}
		}
	}
	sort.Slice(cmds, func(i, j int) bool { return cmds[i].name < cmds[j].name })
	sort.Slice(flags, func(i, j int) bool {
		if flags[i][0] != flags[j][0] {
			return flags[i][0] < flags[j][0]
		}
		return flags[i][1] < flags[j][1]
	})
	b.WriteString("/-- function ↦ its comparisons (op, left, right), normalised, in source order -/\n")
	b.WriteString("def cmps : List (String × List (String × String × String)) := [\n")
	for i, r := range rows {
		var l []string
		for _, c := range r.cmps {
			l = append(l, fmt.Sprintf("(%s, %s, %s)", leanStr(c[0]), leanStr(c[1]), leanStr(c[2])))
		}
		sep := ","
		if i == len(rows)-1 {
			sep = ""
		}
		fmt.Fprintf(&b, "  (%s, [%s])%s\n", leanStr(r.fn), strings.Join(l, ", "), sep)
	}
	b.WriteString("]\n\n")
	b.WriteString("/-- function ↦ the constant factors of its arithmetic -/\n")
	b.WriteString("def factors : List (String × List String) := [\n")
	for i, r := range rows {
		sep := ","
		if i == len(rows)-1 {
			sep = ""
		}
		fmt.Fprintf(&b, "  (%s, %s)%s\n", leanStr(r.fn), leanList(r.fac), sep)
	}
	b.WriteString("]\n\n")
	b.WriteString("/-- command ↦ the methods it calls on the tree it read, and the arguments of the first one -/\n")
	b.WriteString("def commands : List (String × List String × List String) := [\n")
	for i, c := range cmds {
		sep := ","
		if i == len(cmds)-1 {
			sep = ""
		}
		fmt.Fprintf(&b, "  (%s, %s, %s)%s\n", leanStr(c.name), leanList(c.calls), leanList(c.args), sep)
	}
	b.WriteString("]\n\n")
	b.WriteString("/-- (command, flag, shorthand, default, variable) -/\n")
	b.WriteString("def flags : List (String × String × String × String × String) := [\n")
	for i, f := range flags {
		sep := ","
		if i == len(flags)-1 {
			sep = ""
		}
		fmt.Fprintf(&b, "  (%s, %s, %s, %s, %s)%s\n", leanStr(f[0]), leanStr(f[1]), leanStr(f[2]), leanStr(f[3]), leanStr(f[4]), sep)
	}
	b.WriteString("]\n\nend Gotree.Gen.C05Source\n")
	if err := os.MkdirAll(out, 0o755); err != nil {
		return err
	}
	return os.WriteFile(filepath.Join(out, "C05Source.lean"), []byte(b.String()), 0o644)
}
