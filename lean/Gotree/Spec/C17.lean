/-
  C17 — what "NNI neighbourhood is complete, minimal and reversible" means,
  in terms of the tree's tips and its unrooted split set only (no reference to
  the model of `rearrange.go`).  Core Lean only.
-/
import Gotree.Model.Core
import Gotree.Spec.Splits

namespace Gotree.C17.Spec
open Gotree

abbrev SplitSet := List (List String)

/-- `|A \ B|` -/
def diffCount (A B : SplitSet) : Nat := (A.filter fun s => !B.contains s).length

/-- the two split sets differ by exactly one split each way -/
def oneSplitApart (S S' : SplitSet) : Bool := diffCount S' S == 1 && diffCount S S' == 1

/-- same tips (as sets of names; names are unique) -/
def sameTips (t t' : T) : Bool := sortS t.tipNames == sortS t'.tipNames

def pairwiseDistinct : List SplitSet → Bool
  | [] => true
  | s :: r => !(r.contains s) && pairwiseDistinct r

/-- a tree the property talks about: binary, unique tip names, at least four tips -/
def inScope (t : T) : Bool := t.binary && t.uniqueTips && 4 ≤ t.tipNames.length

/-- Binary for ANY root position: the root has two or three children (`T.binary`), or the root is
    itself a tip — one child, which has two children — and everything below is binary
    (`(((a,b),(c,d)))e;`). -/
def tipRooted (t : T) : Bool :=
  t.kids.length == 1 && binaryL t.kids && t.kids.all (fun et => et.2.kids.length == 2)

def binaryAnyRoot (t : T) : Bool := t.binary || tipRooted t

/-- the property's trees, the tip-rooted ones included -/
def inScope1 (t : T) : Bool := binaryAnyRoot t && t.uniqueTips && 4 ≤ t.tipNames.length

/-- number of inner branches of the (unrooted) tree = number of non-trivial splits -/
def innerBranches (t : T) : Nat := t.usplitSet.length

/-- the same number read off the shape: branches whose lower end is not a tip; the two
    branches at the root of a rooted tree are one branch of the unrooted tree -/
def innerBranchesShape (t : T) : Nat :=
  if t.rooted then t.internalEdges.length - 1 else t.internalEdges.length

/-- "Differs by exactly that one split", branch data included: exactly one inner branch
    of each tree is not a branch (same split, same length, same support) of the other, the
    two carry the same length and support, and every tip branch keeps its length. -/
def oneBranchApart (t t' : T) : Bool :=
  let U := t.usplits
  let U' := t'.usplits
  match U.filter (fun s => !U'.contains s), U'.filter (fun s => !U.contains s) with
  | [x], [x'] => x.side != x'.side && x.len == x'.len && x.sup == x'.sup && t.tipLens == t'.tipLens
  | _, _ => false

/-- What "differs by exactly that one split" says about branch data: every branch OTHER than the
    one that changes keeps its split, length and support (exactly one inner branch of each tree
    is not a branch of the other, and these two define different splits), and every tip branch
    keeps its length.  Nothing is demanded of the data the changed branch carries (the property
    does not say that its support or length survive): that is compared with the model, as a tie. -/
def othersKeepData (t t' : T) : Bool :=
  let U := t.usplits
  let U' := t'.usplits
  match U.filter (fun s => !U'.contains s), U'.filter (fun s => !U.contains s) with
  | [x], [x'] => x.side != x'.side && t.tipLens == t'.tipLens
  | _, _ => false

/-- the same on values computed once -/
def othersKeepDataU (U U' : List USplit) (L L' : List (List String × Rat)) : Bool :=
  match U.filter (fun s => !U'.contains s), U'.filter (fun s => !U.contains s) with
  | [x], [x'] => x.side != x'.side && L == L'
  | _, _ => false

theorem othersKeepData_eq (t t' : T) : othersKeepData t t' = othersKeepDataU t.usplits t'.usplits t.tipLens t'.tipLens := rfl

/-- what the oracle needs of a tree, computed once per tree by the driver -/
structure View where
  tips : List String
  binary : Bool
  unique : Bool
  rooted : Bool
  set : SplitSet
  us : List USplit
  tl : List (List String × Rat)

def viewOf (t : T) : View :=
  { tips := sortS t.tipNames, binary := t.binary, unique := t.uniqueTips, rooted := t.rooted,
    set := t.usplits.map (·.side), us := t.usplits, tl := t.tipLens }

def neighbourOK2V (v v' : View) : Bool :=
  v'.binary && v'.unique && v.tips == v'.tips && v'.rooted == v.rooted &&
  oneSplitApart v.set v'.set && othersKeepDataU v.us v'.us v.tl v'.tl

/-- One neighbour as proposed by the implementation: is it a correct NNI neighbour of `t`?
    (round 3: `othersKeepData` instead of `oneBranchApart`) -/
def neighbourOK2 (t t' : T) : Bool :=
  t'.binary && t'.uniqueTips && sameTips t t' && t'.rooted == t.rooted &&
  oneSplitApart t.usplitSet t'.usplitSet && othersKeepData t t'

/-- One neighbour as proposed by the implementation: is it a correct NNI neighbour of `t`? -/
def neighbourOK (t t' : T) : Bool :=
  t'.binary && t'.uniqueTips && sameTips t t' && t'.rooted == t.rooted &&
  oneSplitApart t.usplitSet t'.usplitSet && oneBranchApart t t'

/-- The whole statement about the list of proposed neighbours (completeness = count,
    minimality = each one split away, all distinct). -/
def neighbourhoodOK (t : T) (ns : List T) : Bool :=
  ns.length == 2 * innerBranches t && ns.all (neighbourOK t) &&
  pairwiseDistinct (ns.map (·.usplitSet))

/-- the same with `binaryAnyRoot` (tip-rooted trees included) -/
def neighbourOK3 (t t' : T) : Bool :=
  binaryAnyRoot t' && t'.uniqueTips && sameTips t t' && t'.rooted == t.rooted &&
  oneSplitApart t.usplitSet t'.usplitSet && othersKeepData t t'

def viewOf1 (t : T) : View := { viewOf t with binary := binaryAnyRoot t }

theorem neighbourOK3V_eq (t t' : T) : neighbourOK2V (viewOf1 t) (viewOf1 t') = neighbourOK3 t t' := rfl

/-- on the trees of the old scope nothing changes -/
theorem viewOf1_eq (t : T) (h : t.binary = true) : viewOf1 t = viewOf t := by
  simp [viewOf1, viewOf, binaryAnyRoot, h]

/-- the driver evaluates the oracle on views; it is the same predicate -/
theorem neighbourOK2V_eq (t t' : T) : neighbourOK2V (viewOf t) (viewOf t') = neighbourOK2 t t' := rfl

/-- the split separating the two sides of the root of a rooted tree, when both children
    of the root are inner nodes (the branch F22 is about) -/
def rootSplit (t : T) : Option (List String) :=
  match t.kids with
  | [(_, x), (_, y)] =>
    if !x.isLeaf && !y.isLeaf then some (canonSide t.tipNames x.leaves) else none
  | _ => none

/-- Region of the known finding F22: rooted tree whose root has two inner children; every
    proposed neighbour is right, they are pairwise distinct, none of them touches the
    root split, and exactly the two rearrangements of that branch are missing. -/
def f22Region (t : T) (ns : List T) : Bool :=
  match rootSplit t with
  | none => false
  | some rs =>
    t.rooted && ns.length + 2 == 2 * innerBranches t && ns.all (neighbourOK2 t) &&
    pairwiseDistinct (ns.map (·.usplitSet)) && ns.all (fun n => n.usplitSet.contains rs)

/- The degrees (`Nneigh()`) of the two ends of every branch, in `Edges()` order: the root has
   as many neighbours as children, any other node one more. -/
mutual
def endsBelow (nn : Nat) : T → List (Nat × Nat)
  | .node _ _ k => endsL nn k
def endsL (nn : Nat) : Kids → List (Nat × Nat)
  | [] => []
  | (_, c) :: r => (nn, c.kids.length + 1) :: (endsBelow (c.kids.length + 1) c ++ endsL nn r)
end

def branchEnds (t : T) : List (Nat × Nat) := endsL t.kids.length t.kids

/-- number of branches whose two ends both have three neighbours -/
def deg3Branches (t : T) : Nat := ((branchEnds t).filter fun p => p.1 == 3 && p.2 == 3).length

/- ## the same notions on the split list itself (no canonical presentation), as relations -/

/-- the same branch: same data, same tips below (up to order), same kind -/
def SameBranch (s s' : SplitE) : Prop := s.below.Perm s'.below ∧ s.e = s'.e ∧ s.tip = s'.tip

/-- `X` and `Y` are sides of two different bipartitions of the tips: they are not the same
    side (some `x` in `X` only) and not complementary sides (some `y` in both) -/
def DifferentSplit (X Y : List String) : Prop := (∃ x, x ∈ X ∧ x ∉ Y) ∧ (∃ y, y ∈ X ∧ y ∈ Y)

/-- entry by entry the same branches -/
def SameBranches : List SplitE → List SplitE → Prop
  | [], [] => True
  | s :: l, s' :: l' => SameBranch s s' ∧ SameBranches l l'
  | _, _ => False

/-- The two split lists are one branch apart: after removing one inner branch `c` from `L` and
    one inner branch `c'` from `L'` the remaining branches correspond one to one (same data,
    same tips below); `c` and `c'` carry the same data and define different splits. -/
def OneBranchApart (L L' : List SplitE) : Prop :=
  ∃ c c' R R', L.Perm (c :: R) ∧ L'.Perm (c' :: R') ∧ SameBranches R R' ∧
    c.e = c'.e ∧ c.tip = false ∧ c'.tip = false ∧ DifferentSplit c.below c'.below

/-- `f22Region` on views -/
def f22RegionV (t : T) (v : View) (vs : List View) : Bool :=
  match rootSplit t with
  | none => false
  | some rs =>
    t.rooted && vs.length + 2 == 2 * v.set.length && vs.all (neighbourOK2V v) &&
    pairwiseDistinct (vs.map (·.set)) && vs.all (fun n => n.set.contains rs)

theorem f22RegionV_eq (t : T) (ns : List T) : f22RegionV t (viewOf t) (ns.map viewOf) = f22Region t ns := by
  unfold f22RegionV f22Region
  cases rootSplit t with
  | none => rfl
  | some rs =>
    simp only [List.length_map, List.all_map, List.map_map]
    rfl

end Gotree.C17.Spec
