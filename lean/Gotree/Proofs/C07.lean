/-
  C07 — the property theorems.  Everything is about the functions of Gotree/Model/C07.lean
  that the driver runs against the Go code (`contractT`, `removeEdges`, `collapse…`, `resolve`).

  Reading guide.  `obsT f t` (Lemmas/C07.lean) lists, for every branch of `t`, the tuple
  (f (leaf names below), branch data, tip?, data of the node below); `f` is ANY function that
  does not depend on the order of the names (`PermInv f`): the sorted list, the canonical
  side of Spec/Splits.lean, the number of names, membership of a given name …  A statement
  `(obsT f t').Perm L` therefore says: the branches of `t'`, seen as splits with their
  lengths, supports, ids, comments and node names, are exactly those of `L`, with
  multiplicity.
-/
import Gotree.Lemmas.C07
import Gotree.Lemmas.C07Resolve
import Gotree.Lemmas.C07Spec
import Gotree.Lemmas.C07Proof
import Gotree.Lemmas.C07USplits
import Gotree.Lemmas.C07Oracle
import Gotree.Lemmas.C07Perm
import Gotree.Lemmas.C07Root
import Gotree.Lemmas.C07Single
import Gotree.Lemmas.C07OracleG
import Gotree.Lemmas.C07Deg
import Gotree.Lemmas.C07Cmd
import Gotree.Lemmas.C07Hist
import Gotree.Lemmas.C07Renum

namespace Gotree.C07
open Gotree

/-- ★ `collapse_exact`.  For every selection `sel` that is a function `selV` of what is observed
    of a branch, on a tree with unique branch ids, with `removeRoot`, or on an unrooted tree
    (root of degree ≥ 3) without single-child inner nodes:
    the branches after `collapse` are exactly the branches before, minus the selected inner
    ones; every survivor keeps its split, length, support, p-value, comments, id and the
    name and comments of its lower node; a selected tip branch survives too, with length 0
    when `removeTips` is set and untouched otherwise. -/
theorem collapse_exact {β : Type} (f : List String → β) (hf : PermInv f)
    (sel : SplitE → Bool) (selV : β × EdgeD × Bool → Bool)
    (rr rt : Bool) (t : T)
    (hsel : ∀ s ∈ t.splits, sel s = selV (f s.below, s.e, s.tip))
    (hid : uniqueIds t = true) (h : RootOK rr t) :
    (obsT f (collapse sel rr rt t)).Perm ((obsT f t).filterMap (keepV selV rt)) := by
  unfold collapse
  refine (removeEdges_obs f hf rr rt _ t h).trans (List.Perm.of_eq ?_)
  exact sel_congr f sel selV rt t hsel hid _ (obs_partner f t)

/-- what happens to an entry of Core's split list `T.splits` under a selection -/
def keepS (sel : SplitE → Bool) (rt : Bool) (s : SplitE) : Option SplitE :=
  if sel s then (if s.tip then some { s with e := (if rt then zeroLen s.e else s.e) } else none) else some s

/-- `collapse_exact` read on the split list of Model/Core.lean (`T.splits`, the list every other
    Spec function — `usplits`, `distMatrix`, … — is computed from): seen through any
    order-independent `f`, the split list after is the split list before, filtered. -/
theorem collapse_exact_splits {β : Type} (f : List String → β) (hf : PermInv f)
    (sel : SplitE → Bool) (selV : β × EdgeD × Bool → Bool)
    (rr rt : Bool) (t : T)
    (hsel : ∀ s ∈ t.splits, sel s = selV (f s.below, s.e, s.tip))
    (hid : uniqueIds t = true) (h : RootOK rr t) :
    ((collapse sel rr rt t).splits.map (fun s => (f s.below, s.e, s.tip))).Perm
      ((t.splits.filterMap (keepS sel rt)).map (fun s => (f s.below, s.e, s.tip))) := by
  have hmain := (collapse_exact f hf sel selV rr rt t hsel hid h).map (fun x => (x.1, x.2.1, x.2.2.1))
  have hL : (collapse sel rr rt t).splits.map (fun s => (f s.below, s.e, s.tip)) =
      (obsT f (collapse sel rr rt t)).map (fun x => (x.1, x.2.1, x.2.2.1)) := by
    rw [obsT_kids]; exact splitsL_obs f _
  have hR : (t.splits.filterMap (keepS sel rt)).map (fun s => (f s.below, s.e, s.tip)) =
      ((obsT f t).filterMap (keepV selV rt)).map (fun x => (x.1, x.2.1, x.2.2.1)) := by
    let keep3 : β × EdgeD × Bool → Option (β × EdgeD × Bool) := fun y =>
      if selV y then (if y.2.2 then some (y.1, (if rt then zeroLen y.2.1 else y.2.1), y.2.2) else none) else some y
    have e1 : (t.splits.filterMap (keepS sel rt)).map (fun s => (f s.below, s.e, s.tip)) =
        (t.splits.map (fun s => (f s.below, s.e, s.tip))).filterMap keep3 := by
      rw [List.map_filterMap, List.filterMap_map]
      apply filterMap_congr'
      intro s hs
      simp only [Function.comp, keep3, keepS, hsel s hs]
      split
      · split <;> rfl
      · rfl
    have e2 : ((obsT f t).filterMap (keepV selV rt)).map (fun x => (x.1, x.2.1, x.2.2.1)) =
        ((obsT f t).map (fun x => (x.1, x.2.1, x.2.2.1))).filterMap keep3 := by
      rw [List.map_filterMap, List.filterMap_map]
      apply filterMap_congr'
      intro x _
      simp only [Function.comp, keep3, keepV]
      split
      · split <;> rfl
      · rfl
    rw [e1, e2, obsT_kids]
    congr 1
    exact splitsL_obs f _
  rw [hL, hR]
  exact hmain

/-- The same through the vocabulary of Spec/Splits.lean: canonical side of the unrooted split over
    the taxa of the tree, and its topological depth (`lightSize`) — the view of the oracle. -/
theorem collapse_exact_canon (sel : SplitE → Bool)
    (selV : (List String × Nat) × EdgeD × Bool → Bool) (rr rt : Bool) (t : T)
    (hsel : ∀ s ∈ t.splits, sel s = selV ((canonSide t.tipNames s.below, lightSize t.tipNames s.below), s.e, s.tip))
    (hid : uniqueIds t = true) (h : RootOK rr t) :
    ((collapse sel rr rt t).splits.map (fun s => ((canonSide t.tipNames s.below, lightSize t.tipNames s.below), s.e, s.tip))).Perm
      ((t.splits.filterMap (keepS sel rt)).map (fun s => ((canonSide t.tipNames s.below, lightSize t.tipNames s.below), s.e, s.tip))) :=
  collapse_exact_splits (fun l => (canonSide t.tipNames l, lightSize t.tipNames l))
    (pair_permInv _ _ (canonSide_permInv _) (lightSize_permInv _)) sel selV rr rt t hsel hid h

/-- The code's length criterion (`Crit.holds`, the stored value compared with `≤`, absent = −1) is the
    DEFINITE criterion (a present length ≤ l) or the AMBIGUOUS one (no length at all and −1 ≤ l).  The
    documentation ("branches with length <= threshold") does not say which reading of an absent length
    is meant, so the oracle (`collapseOK`) demands the definite part only and accepts both fates of an
    ambiguous branch; the model and the theorems follow the code. -/
theorem code_criterion_readings (crit : Crit) (e : Ent) :
    crit.holds e = (crit.definite e || crit.ambiguous e) ∧ (crit.ambiguous e = true → crit.definite e = false) :=
  ⟨holds_eq_definite_or_ambiguous crit e, definite_ambiguous_excl crit e⟩

/-- `CollapseShortBranches`: the criterion is `length ≤ l` ON THE STORED VALUE, so a branch
    without length (sentinel −1) is selected as soon as `l ≥ −1`. -/
theorem collapseLen_exact {β : Type} (f : List String → β) (hf : PermInv f) (l : Rat)
    (rr rt : Bool) (t : T) (hid : uniqueIds t = true) (h : RootOK rr t) :
    (obsT f (collapseLen l rr rt t)).Perm
      ((obsT f t).filterMap (keepV (fun x => decide (x.2.1.len ≤ l)) rt)) :=
  collapse_exact f hf (selLen l) _ rr rt t (fun _ _ => rfl) hid h

/-- `CollapseLowSupport`: support present (≠ −1) and `< s`; tips are never touched. -/
theorem collapseSup_exact {β : Type} (f : List String → β) (hf : PermInv f) (x : Rat)
    (rr : Bool) (t : T) (hid : uniqueIds t = true) (h : RootOK rr t) :
    (obsT f (collapseSup x rr t)).Perm
      ((obsT f t).filterMap (keepV (fun y => y.2.1.sup != NIL && decide (y.2.1.sup < x)) false)) :=
  collapse_exact f hf (selSup x) _ rr false t (fun _ _ => rfl) hid h

/-- `CollapseTopoDepth`: `mn ≤ min(#below, #tips − #below) ≤ mx` (both ends included); the
    observation must expose the number of names below (here: paired with any other `g`). -/
theorem collapseDepth_exact {β : Type} (g : List String → β) (hg : PermInv g) (mn mx : Int)
    (rr rt : Bool) (t t' : T) (hid : uniqueIds t = true) (h : RootOK rr t)
    (hok : collapseDepth mn mx rr rt t = some t') :
    (obsT (fun l => (l.length, g l)) t').Perm
      ((obsT (fun l => (l.length, g l)) t).filterMap
        (keepV (fun x => decide (mn ≤ ((min (t.tipNames.length - x.1.1) x.1.1 : Nat) : Int)) &&
                         decide (((min (t.tipNames.length - x.1.1) x.1.1 : Nat) : Int) ≤ mx)) rt)) := by
  unfold collapseDepth at hok
  simp only at hok
  split at hok
  · cases hok
  · injection hok with hok
    subst hok
    have hf : PermInv (fun l : List String => (l.length, g l)) := by
      intro l l' hp
      show (l.length, g l) = (l'.length, g l')
      rw [hp.length_eq, hg l l' hp]
    exact collapse_exact _ hf (selDepth t.tipNames.length mn mx) _ rr rt t (fun _ _ => rfl) hid h

/-- `TopoDepth` never reports its error once the subtree sizes are computed (`ReinitIndexes`): on
    every tree, each branch has a taxon on both sides — the root counts when it is a tip. -/
theorem collapseDepth_defined (mn mx : Int) (rr rt : Bool) (t : T) :
    collapseDepth mn mx rr rt t = some (collapse (selDepth t.tipNames.length mn mx) rr rt t) := by
  unfold collapseDepth
  simp only [depth_never_errs t, Bool.false_eq_true, if_false]

/-- The LIBRARY call `CollapseTopoDepth` reads the subtree sizes stored on the branches by the last
    indexing (`collapseDepthStored`); when those are the sizes of the tree as it is now (unique branch
    ids), it is `collapseDepth`, i.e. `ReinitIndexes(); CollapseTopoDepth(…)`, which is what the command
    `collapse depth` runs (`cmdDepth`).  With stale sizes (an edit since the last indexing) it is not:
    `stale_sizes_differ`. -/
theorem collapseDepthStored_fresh (mn mx : Int) (rr rt : Bool) (t : T) (hid : uniqueIds t = true) :
    collapseDepthStored (freshSizes t) mn mx rr rt t = collapseDepth mn mx rr rt t := by
  unfold collapseDepthStored collapseDepth
  have herr : t.splits.any (staleErr (freshSizes t)) = t.splits.any (depthErr t.tipNames.length) := by
    rw [Bool.eq_iff_iff, List.any_eq_true, List.any_eq_true]
    constructor <;> rintro ⟨s, hs, h⟩ <;> refine ⟨s, hs, ?_⟩
    · simpa [staleErr, depthErr, storedSizes_fresh t hid s hs] using h
    · simpa [staleErr, depthErr, storedSizes_fresh t hid s hs] using h
  have hsel : t.splits.filter (selDepthStored (freshSizes t) mn mx) = t.splits.filter (selDepth t.tipNames.length mn mx) := by
    apply List.filter_congr
    intro s hs
    unfold selDepthStored selDepth topoDepth
    rw [storedSizes_fresh t hid s hs]
  simp only [herr, collapse, hsel]

/-- No tip is lost or invented, whatever the tree, the branches and the flags: the leaf names
    below the root are the same up to order, and the root node keeps its data. -/
theorem removeEdges_tips (rr rt : Bool) (ids : List Int) (t : T) :
    (removeEdges rr rt ids t).leaves.Perm t.leaves ∧ (removeEdges rr rt ids t).d = t.d :=
  removeEdges_leaves rr rt ids t

theorem collapse_tips (sel : SplitE → Bool) (rr rt : Bool) (t : T) :
    (collapse sel rr rt t).leaves.Perm t.leaves ∧ (collapse sel rr rt t).d = t.d :=
  removeEdges_leaves rr rt _ t

/-- "Never a tip", in full, for every tree (since fix e276115; before it the statement failed when
    the root itself is a tip, see `roottip_tip_lost`): the tip names — the root included when it has
    a single neighbour — are the same before and after, whatever the branches, their order and the
    flags. -/
theorem removeEdges_tipNames (rr rt : Bool) (ids : List Int) (t : T) :
    (removeEdges rr rt ids t).tipNames.Perm t.tipNames := by
  have hl := (removeEdges_leaves rr rt ids t).1
  have hd := (removeEdges_leaves rr rt ids t).2
  by_cases h0 : t.kids = []
  · -- no branch at all
    have : ∀ (ids : List Int) (t : T), t.kids = [] → removeEdges rr rt ids t = t := by
      intro ids
      induction ids with
      | nil => intro t _; rfl
      | cons id ids ih =>
        intro t ht
        rw [removeEdges_cons]
        have : contractT rr rt id true t = t := by
          cases t with
          | node d p k => simp only [T.kids_node] at ht; subst ht; simp [contractT_node, contractL, nNone, stayKids]
        rw [this]; exact ih t ht
    rw [this ids t h0]
  · have hlen := removeEdges_kids_len rr rt ids t
    have hpos : 1 ≤ t.kids.length := by
      cases hk : t.kids with
      | nil => exact absurd hk h0
      | cons _ _ => simp
    have hne' : (removeEdges rr rt ids t).kids ≠ [] := by
      intro h; rw [h] at hlen; simp only [List.length_nil] at hlen; omega
    rw [leaves_eq_leavesL_kids _ h0, leaves_eq_leavesL_kids _ hne'] at hl
    unfold T.tipNames
    by_cases h1 : t.kids.length = 1
    · have h1' := removeEdges_kids_one rr rt ids t h1
      have hn : (removeEdges rr rt ids t).name = t.name := by unfold T.name; rw [hd]
      simp only [h1, h1', beq_self_eq_true, if_true, hn]
      exact (List.Perm.refl _).append hl
    · have e1 : (t.kids.length == 1) = false := by simpa using h1
      have e2 : ((removeEdges rr rt ids t).kids.length == 1) = false := by simp; omega
      simp only [e1, e2, Bool.false_eq_true, if_false, List.nil_append]
      exact hl

/-- … and on the unrooted split map of Spec/Splits.lean itself (DESIGN Appendix B:
    `splitMapU (collapse t) = (splitMapU t) filtered`): `T.usplitsAll` of the collapsed tree is the
    split map (`usplitsOfU`: same fusing of equal sides, same sorting) of the branch list of `t`
    filtered by the criterion.  `LensGood`: every length is absent or ≥ 0 (needed by the shared
    library for the fusing of equal sides to be order-independent). -/
theorem collapse_usplitsAll (sel : SplitE → Bool)
    (selV : (List String × Nat) × EdgeD × Bool → Bool) (rr rt : Bool) (t : T)
    (hsel : ∀ s ∈ t.splits, sel s = selV ((canonSide t.tipNames s.below, lightSize t.tipNames s.below), s.e, s.tip))
    (hid : uniqueIds t = true) (h : RootOK rr t) (h2 : 2 ≤ t.kids.length) (hg : LensGood t.splits) :
    (collapse sel rr rt t).usplitsAll.Perm
      (usplitsOfU ((t.splits.filterMap (keepS sel rt)).map (toU t.tipNames))) := by
  apply usplitsAll_perm_list _ (removeEdges_tipNames rr rt _ t)
  · have hc := (collapse_exact_canon sel selV rr rt t hsel hid h).map
      (fun y : (List String × Nat) × EdgeD × Bool => (⟨y.1.1, y.2.1.len, y.2.1.sup⟩ : USplit))
    rw [List.map_map, List.map_map] at hc
    exact hc
  · intro x hx
    obtain ⟨s', hs', rfl⟩ := List.mem_map.mp hx
    obtain ⟨s, hs, hk⟩ := List.mem_filterMap.mp hs'
    unfold keepS at hk
    split at hk
    · split at hk
      · injection hk with hk; subst hk
        show GoodL (if rt = true then zeroLen s.e else s.e).len
        split
        · exact Or.inr (Rat.le_refl)
        · exact hg s hs
      · cases hk
    · injection hk with hk; subst hk; exact hg s hs

/-- Order-independence of the contraction sequence: two lists naming the same set of branches
    (in any order, with any repetitions) leave the same branches. -/
theorem removeEdges_order {β : Type} (f : List String → β) (hf : PermInv f) (rr rt : Bool)
    (ids ids' : List Int) (hset : ∀ i, i ∈ ids ↔ i ∈ ids') (t : T) (h : RootOK rr t) :
    (obsT f (removeEdges rr rt ids t)).Perm (obsT f (removeEdges rr rt ids' t)) := by
  refine (removeEdges_obs f hf rr rt ids t h).trans ?_
  refine List.Perm.trans (List.Perm.of_eq ?_) (removeEdges_obs f hf rr rt ids' t h).symm
  apply filterMap_congr'
  intro x _
  rw [stepAllO_char, stepAllO_char]
  simp only [hset]

/-- What the code does on a ROOTED tree without `removeRoot` (the part the property leaves
    open): the root and its two branches always stay — a root branch is never contracted,
    even when selected; the only thing that can happen to it is `SetLength(0.0)` when it is a
    selected tip branch and `removeTips` is set — and inside each of the two subtrees exactly
    the selected inner branches disappear, as in `collapse_exact`. -/
theorem collapse_rooted {β : Type} (f : List String → β) (hf : PermInv f)
    (sel : SplitE → Bool) (selV : β × EdgeD × Bool → Bool)
    (rt : Bool) (d : NodeD) (p : Nat) (e1 e2 : EdgeD) (c1 c2 : T)
    (hsel : ∀ s ∈ (T.node d p [(e1, c1), (e2, c2)]).splits, sel s = selV (f s.below, s.e, s.tip))
    (hid : uniqueIds (.node d p [(e1, c1), (e2, c2)]) = true)
    (hns : (T.node d p [(e1, c1), (e2, c2)]).noSingle = true) :
    ∃ c1' c2' : T,
      collapse sel false rt (.node d p [(e1, c1), (e2, c2)]) =
        .node d p [(if sel ⟨c1.leaves, e1, c1.isLeaf⟩ = true ∧ c1.isLeaf = true ∧ rt = true then zeroLen e1 else e1, c1'),
                   (if sel ⟨c2.leaves, e2, c2.isLeaf⟩ = true ∧ c2.isLeaf = true ∧ rt = true then zeroLen e2 else e2, c2')]
      ∧ (obsT f c1').Perm ((obsT f c1).filterMap (keepV selV rt))
      ∧ (obsT f c2').Perm ((obsT f c2).filterMap (keepV selV rt))
      ∧ c1'.leaves.Perm c1.leaves ∧ c2'.leaves.Perm c2.leaves
      ∧ c1'.isLeaf = c1.isLeaf ∧ c2'.isLeaf = c2.isLeaf ∧ c1'.d = c1.d ∧ c2'.d = c2.d := by
  let t : T := .node d p [(e1, c1), (e2, c2)]
  let ids := (t.splits.filter sel).map (·.e.id)
  have hsp : t.splits = ⟨c1.leaves, e1, c1.isLeaf⟩ :: (c1.splitsBelow ++ (⟨c2.leaves, e2, c2.isLeaf⟩ :: (c2.splitsBelow ++ []))) := by
    simp [t, T.splits, splitsL]
  have hns' : c1.noSingleBelow = true ∧ c2.noSingleBelow = true := by
    simp [T.noSingle, noSingleL] at hns; exact hns
  have hnd : (t.splits.map (·.e.id)).Nodup := by simpa [uniqueIds] using hid
  refine ⟨belowAll rt ids c1, belowAll rt ids c2, ?_, ?_, ?_, (belowAll_leaves rt ids c1).1, (belowAll_leaves rt ids c2).1,
    (belowAll_leaves rt ids c1).2.1, (belowAll_leaves rt ids c2).2.1, (belowAll_leaves rt ids c1).2.2, (belowAll_leaves rt ids c2).2.2⟩
  · show removeEdges false rt ids t = _
    rw [removeEdges_rooted]
    -- the two root entries are in the split list, so "id selected" is "selected"
    have hroot : ∀ (e : EdgeD) (c : T), (⟨c.leaves, e, c.isLeaf⟩ : SplitE) ∈ t.splits →
        (e.id ∈ ids ↔ sel ⟨c.leaves, e, c.isLeaf⟩ = true) := by
      intro e c hm
      constructor
      · intro hin
        obtain ⟨s, hsf, hsid⟩ := List.mem_map.mp hin
        have hsm := List.mem_filter.mp hsf
        have : s = ⟨c.leaves, e, c.isLeaf⟩ := eq_of_nodup_map (·.e.id) t.splits hnd s hsm.1 _ hm hsid
        rw [← this]; exact hsm.2
      · intro hs
        exact List.mem_map.mpr ⟨_, List.mem_filter.mpr ⟨hm, hs⟩, rfl⟩
    have hm1 : (⟨c1.leaves, e1, c1.isLeaf⟩ : SplitE) ∈ t.splits := by rw [hsp]; simp
    have hm2 : (⟨c2.leaves, e2, c2.isLeaf⟩ : SplitE) ∈ t.splits := by rw [hsp]; simp
    simp only [rootEdge, hroot e1 c1 hm1, hroot e2 c2 hm2]
  · refine (belowAll_obs f hf rt ids c1 hns'.1).trans (List.Perm.of_eq ?_)
    apply sel_congr f sel selV rt t hsel hid
    intro x hx
    obtain ⟨s, hs, he⟩ := obs_partner f c1 x hx
    refine ⟨s, ?_, he⟩
    rw [hsp]
    have : s ∈ c1.splitsBelow := by cases c1; simpa [T.splits, T.splitsBelow] using hs
    simp [this]
  · refine (belowAll_obs f hf rt ids c2 hns'.2).trans (List.Perm.of_eq ?_)
    apply sel_congr f sel selV rt t hsel hid
    intro x hx
    obtain ⟨s, hs, he⟩ := obs_partner f c2 x hx
    refine ⟨s, ?_, he⟩
    rw [hsp]
    have : s ∈ c2.splitsBelow := by cases c2; simpa [T.splits, T.splitsBelow] using hs
    simp [this]

/- ## without `removeRoot`, on ANY tree (single-child inner nodes allowed)

   `obsGRoot f t` is the observation list with one more Boolean per branch: PROTECTED = the branch hangs
   off a root that has exactly two neighbours (a root branch of a rooted tree).  Since fix 82ce8b8 these
   are the only branches `RemoveEdges` spares; before it, every branch next to a node with exactly two
   neighbours was spared (`single_child_protected_pinned`). -/

/-- `collapse_exact_general`: for EVERY tree whose root is not a tip — rooted or not, with or without
    single-child inner nodes — with unique branch ids, without `removeRoot`: the branches after
    `collapse` are those before minus the selected inner branches that are not root branches of a rooted
    tree; tip branches and the two root branches always stay (a selected tip branch gets length 0 with
    `removeTips`); every survivor keeps split, data, node data and its flag. -/
theorem collapse_exact_general {β : Type} (f : List String → β) (hf : PermInv f)
    (sel : SplitE → Bool) (selV : β × EdgeD × Bool → Bool) (rt : Bool) (t : T)
    (hsel : ∀ s ∈ t.splits, sel s = selV (f s.below, s.e, s.tip))
    (hid : uniqueIds t = true) (h1 : t.kids.length ≠ 1) :
    (obsGRoot f (collapse sel false rt t)).Perm ((obsGRoot f t).filterMap (keepG selV rt)) := by
  unfold collapse
  refine (removeEdges_obsG f hf rt _ t h1).trans (List.Perm.of_eq ?_)
  exact selG_congr f sel selV rt t hsel hid

/-- the flag is what it says: forgetting it gives the plain observation list of `collapse_exact` -/
theorem obsGRoot_forget {β : Type} (f : List String → β) (t : T) : (obsGRoot f t).map Prod.fst = obsT f t := by
  rw [obsT_kids]; exact obsGL_fst f _ _

/-- `collapse_exact` without the "no single-child node" hypothesis (possible since fix 82ce8b8): on
    every tree whose root has neither one nor two neighbours, without `removeRoot`, exactly the
    selected inner branches disappear. -/
theorem collapse_exact_unrooted {β : Type} (f : List String → β) (hf : PermInv f)
    (sel : SplitE → Bool) (selV : β × EdgeD × Bool → Bool) (rt : Bool) (t : T)
    (hsel : ∀ s ∈ t.splits, sel s = selV (f s.below, s.e, s.tip))
    (hid : uniqueIds t = true) (h1 : t.kids.length ≠ 1) (h2 : t.kids.length ≠ 2) :
    (obsT f (collapse sel false rt t)).Perm ((obsT f t).filterMap (keepV selV rt)) := by
  have hg := (collapse_exact_general f hf sel selV rt t hsel hid h1).map Prod.fst
  rw [obsGRoot_forget] at hg
  refine hg.trans (List.Perm.of_eq ?_)
  have hflag : (t.kids.length == 2) = false := by simpa using h2
  unfold obsGRoot
  rw [hflag, obsGL_false, ← obsT_kids, List.filterMap_map, List.map_filterMap]
  apply filterMap_congr'
  intro x _
  obtain ⟨b, e, tip, d⟩ := x
  simp only [Function.comp, keepG, keepV]
  cases selV (b, e, tip) <;> cases tip <;> simp

/-- The last region: a root that is itself a tip (a single neighbour).  With or without `removeRoot`,
    its branch is a terminal branch — never contracted, length 0 iff selected and `removeTips` — the root
    stays a tip, and inside the subtree exactly the selected inner branches disappear.  Together with
    `collapse_exact` (removeRoot) and `collapse_exact_general` (no removeRoot) this covers every tree. -/
theorem collapse_tiproot {β : Type} (f : List String → β) (hf : PermInv f)
    (sel : SplitE → Bool) (selV : β × EdgeD × Bool → Bool) (rr rt : Bool)
    (d : NodeD) (p : Nat) (e : EdgeD) (c : T)
    (hsel : ∀ s ∈ (T.node d p [(e, c)]).splits, sel s = selV (f s.below, s.e, s.tip))
    (hid : uniqueIds (.node d p [(e, c)]) = true) :
    ∃ c' : T,
      collapse sel rr rt (.node d p [(e, c)]) =
        .node d p [(if sel ⟨c.leaves, e, c.isLeaf⟩ = true ∧ rt = true then zeroLen e else e, c')]
      ∧ (obsT f c').Perm ((obsT f c).filterMap (keepV selV rt))
      ∧ c'.leaves.Perm c.leaves ∧ c'.isLeaf = c.isLeaf ∧ c'.d = c.d := by
  let t : T := .node d p [(e, c)]
  let ids := (t.splits.filter sel).map (·.e.id)
  have hsp : t.splits = ⟨c.leaves, e, c.isLeaf⟩ :: (c.splitsBelow ++ []) := by simp [t, T.splits, splitsL]
  have hnd : (t.splits.map (·.e.id)).Nodup := by simpa [uniqueIds] using hid
  have hm : (⟨c.leaves, e, c.isLeaf⟩ : SplitE) ∈ t.splits := by rw [hsp]; simp
  have hroot : e.id ∈ ids ↔ sel ⟨c.leaves, e, c.isLeaf⟩ = true := by
    constructor
    · intro hin
      obtain ⟨s, hsf, hsid⟩ := List.mem_map.mp hin
      have hsm := List.mem_filter.mp hsf
      have : s = ⟨c.leaves, e, c.isLeaf⟩ := eq_of_nodup_map (·.e.id) t.splits hnd s hsm.1 _ hm hsid
      rw [← this]; exact hsm.2
    · intro hs
      exact List.mem_map.mpr ⟨_, List.mem_filter.mpr ⟨hm, hs⟩, rfl⟩
  refine ⟨belowAllR rr rt ids c, ?_, ?_, (belowAllR_leaves rr rt ids c).1, (belowAllR_leaves rr rt ids c).2.1,
    (belowAllR_leaves rr rt ids c).2.2⟩
  · show removeEdges rr rt ids t = _
    rw [removeEdges_tiproot]
    simp only [hroot]
  · refine (belowAllR_obs f hf rr rt ids c).trans (List.Perm.of_eq ?_)
    apply sel_congr f sel selV rt t hsel hid
    intro x hx
    obtain ⟨s, hs, he⟩ := obs_partner f c x hx
    refine ⟨s, ?_, he⟩
    rw [hsp]
    have : s ∈ c.splitsBelow := by cases c; simpa [T.splits, T.splitsBelow] using hs
    simp [this]

/- ## `removeRoot` on a rooted tree: what happens to the root

   (`collapse_exact` already says which branches remain; these say what the ROOT looks like.)  The
   root node is never removed: contracting one of its two branches hands the children of the node
   below to the root, appended at the end of its neighbour slice.  The tree stays rooted only if that
   node had a single child; contracting both branches leaves the root with all grand-children. -/

theorem removeRoot_first_branch (rt : Bool) (d : NodeD) (p : Nat) (e1 e2 : EdgeD) (c1 c2 : T)
    (hid : uniqueIds (.node d p [(e1, c1), (e2, c2)]) = true) (hinner : c1.isLeaf = false) :
    contractT true rt e1.id true (.node d p [(e1, c1), (e2, c2)]) =
        .node d (p - nNone ([none, some (e2, c2)].take p)) ((e2, c2) :: c1.kids)
    ∧ (contractT true rt e1.id true (.node d p [(e1, c1), (e2, c2)])).rooted = (c1.kids.length == 1) := by
  have h := root_first_contracted rt d p e1 e2 c1 c2 hid hinner
  refine ⟨h, ?_⟩
  rw [h]; simp [T.rooted]

theorem removeRoot_second_branch (rt : Bool) (d : NodeD) (p : Nat) (e1 e2 : EdgeD) (c1 c2 : T)
    (hid : uniqueIds (.node d p [(e1, c1), (e2, c2)]) = true) (hinner : c2.isLeaf = false) :
    contractT true rt e2.id true (.node d p [(e1, c1), (e2, c2)]) =
        .node d (p - nNone ([some (e1, c1), none].take p)) ((e1, c1) :: c2.kids)
    ∧ (contractT true rt e2.id true (.node d p [(e1, c1), (e2, c2)])).rooted = (c2.kids.length == 1) := by
  have h := root_second_contracted rt d p e1 e2 c1 c2 hid hinner
  refine ⟨h, ?_⟩
  rw [h]; simp [T.rooted]

theorem removeRoot_both_branches (rt : Bool) (d : NodeD) (p : Nat) (e1 e2 : EdgeD) (c1 c2 : T)
    (hid : uniqueIds (.node d p [(e1, c1), (e2, c2)]) = true) (h1 : c1.isLeaf = false) (h2 : c2.isLeaf = false) :
    ∃ p', removeEdges true rt [e1.id, e2.id] (.node d p [(e1, c1), (e2, c2)]) = .node d p' (c1.kids ++ c2.kids) :=
  root_both_contracted rt d p e1 e2 c1 c2 hid h1 h2

/- ## the Spec oracle follows

   `collapseOK` (Spec/C07.lean) is the Bool predicate the driver evaluates on the trees the
   IMPLEMENTATION returned.  The theorems below say that the model satisfies that very
   predicate, for all trees in the domain of `collapse_exact` whose root is not a tip, all
   thresholds and flags: the oracle demands nothing the theorems do not deliver, and an
   implementation that agrees with the model on obs_C07 passes it. -/

theorem collapse_oracle (crit : Crit) (sel : SplitE → Bool) (rr rt : Bool) (t : T)
    (hsel : ∀ s ∈ t.splits, sel s = critV crit (FF t.tipNames s.below, s.e, s.tip))
    (hid : uniqueIds t = true) (h : RootOK rr t) (h2 : 2 ≤ t.kids.length) :
    collapseOK crit rt t (collapse sel rr rt t) = true := by
  apply collapseOK_of_obs' crit rt t _ (by omega)
  · have := removeEdges_kids_len rr rt ((t.splits.filter sel).map (·.e.id)) t
    unfold collapse; omega
  · exact removeEdges_tipNames rr rt _ t
  · exact (removeEdges_leaves rr rt _ t).2
  · exact collapse_exact (FF t.tipNames) (FF_permInv _) sel (critV crit) rr rt t hsel hid h

/- Instances.  `RootOK rr t`: `removeRoot` (then also on rooted trees, where the root branches go like
   the others), or root degree ≥ 3 and no single-child node. -/
theorem collapseLen_oracle (l : Rat) (rr rt : Bool) (t : T)
    (hid : uniqueIds t = true) (h : RootOK rr t) (h2 : 2 ≤ t.kids.length) :
    collapseOK (.len l) rt t (collapseLen l rr rt t) = true :=
  collapse_oracle (.len l) (selLen l) rr rt t (fun _ _ => rfl) hid h h2

theorem collapseSup_oracle (x : Rat) (rr : Bool) (t : T)
    (hid : uniqueIds t = true) (h : RootOK rr t) (h2 : 2 ≤ t.kids.length) :
    collapseOK (.sup x) false t (collapseSup x rr t) = true :=
  collapse_oracle (.sup x) (selSup x) rr false t (fun _ _ => rfl) hid h h2

/-- here the code's `TopoDepth` (min of the two subtree sizes) meets the Spec's `lightSize` -/
theorem collapseDepth_oracle (mn mx : Int) (rr rt : Bool) (t : T)
    (hid : uniqueIds t = true) (h : RootOK rr t) (h2 : 2 ≤ t.kids.length) :
    (collapseDepth mn mx rr rt t).map (collapseOK (.depth mn mx) rt t) = some true := by
  rw [collapseDepth_defined]
  simp only [Option.map_some]
  congr 1
  apply collapse_oracle (.depth mn mx) _ rr rt t _ hid h h2
  intro s hs
  simp only [selDepth, critV, FF, lightSize_eq_topoDepth t s hs]

/-- `RemoveEdges` called directly with any list of branches, in any order: what is left (exactly
    the branches whose id is not listed, and the tip branches) … -/
theorem removeEdges_exact {β : Type} (f : List String → β) (hf : PermInv f) (rr rt : Bool)
    (ids : List Int) (t : T) (h : RootOK rr t) :
    (obsT f (removeEdges rr rt ids t)).Perm
      ((obsT f t).filterMap (keepV (fun y => decide (y.2.1.id ∈ ids)) rt)) := by
  refine (removeEdges_obs f hf rr rt ids t h).trans (List.Perm.of_eq ?_)
  apply filterMap_congr'
  intro x _
  rw [stepAllO_char]
  unfold keepV
  by_cases hm : x.2.1.id ∈ ids <;> simp [hm]

/-- … and the oracle on it -/
theorem removeEdges_oracle (ids : List Int) (rr rt : Bool) (t : T)
    (h : RootOK rr t) (h2 : 2 ≤ t.kids.length) :
    collapseOK (.ids ids) rt t (removeEdges rr rt ids t) = true := by
  apply collapseOK_of_obs' (.ids ids) rt t _ (by omega)
  · have := removeEdges_kids_len rr rt ids t; omega
  · exact removeEdges_tipNames rr rt _ t
  · exact (removeEdges_leaves rr rt _ t).2
  · refine (removeEdges_obs (FF t.tipNames) (FF_permInv _) rr rt ids t h).trans (List.Perm.of_eq ?_)
    apply filterMap_congr'
    intro x _
    rw [stepAllO_char]
    unfold keepV critV
    simp only [List.contains_iff_mem]

/-- … and on EVERY tree whose root is not a tip, without `removeRoot` — rooted or not, with or without
    single-child inner nodes: the branches the code protects (an end point with two neighbours) are
    the OPTIONAL part of the oracle; everything else is exact. -/
theorem collapse_general_oracle (crit : Crit) (sel : SplitE → Bool) (rt : Bool) (t : T)
    (hsel : ∀ s ∈ t.splits, sel s = critV crit (FF t.tipNames s.below, s.e, s.tip))
    (hid : uniqueIds t = true) (h1 : t.kids.length ≠ 1) :
    collapseOK crit rt t (collapse sel false rt t) = true := by
  apply collapseOK_of_obsG crit rt t _ h1
  · have := removeEdges_kids_len false rt ((t.splits.filter sel).map (·.e.id)) t
    have h0 : t.kids.length = 0 → (collapse sel false rt t).kids.length = 0 := by
      intro h
      have hk : t.kids = [] := List.length_eq_zero_iff.mp h
      have : (collapse sel false rt t).leaves.Perm t.leaves := (collapse_tips sel false rt t).1
      cases t with
      | node d p k =>
        simp only [T.kids_node] at hk; subst hk
        simp [collapse, T.splits, splitsL, removeEdges]
    unfold collapse at this ⊢
    by_cases hz : t.kids.length = 0
    · have := h0 hz; unfold collapse at this; omega
    · omega
  · exact removeEdges_tipNames false rt _ t
  · exact (removeEdges_leaves false rt _ t).2
  · exact collapse_exact_general (FF t.tipNames) (FF_permInv _) sel (critV crit) rt t hsel hid h1

/-- … and on a ROOTED tree without `removeRoot`, where the property makes no exact-set claim on the
    two root branches and the oracle accordingly accepts either fate for a root branch that meets
    the criterion: the model (which keeps them) passes. -/
theorem collapse_rooted_oracle (crit : Crit) (sel : SplitE → Bool) (rt : Bool)
    (d : NodeD) (p : Nat) (e1 e2 : EdgeD) (c1 c2 : T)
    (hsel : ∀ s ∈ (T.node d p [(e1, c1), (e2, c2)]).splits,
      sel s = critV crit (FF (T.node d p [(e1, c1), (e2, c2)]).tipNames s.below, s.e, s.tip))
    (hid : uniqueIds (.node d p [(e1, c1), (e2, c2)]) = true)
    (hns : (T.node d p [(e1, c1), (e2, c2)]).noSingle = true) :
    collapseOK crit rt (.node d p [(e1, c1), (e2, c2)]) (collapse sel false rt (.node d p [(e1, c1), (e2, c2)])) = true :=
  collapse_general_oracle crit sel rt _ hsel hid (by simp)

/-- … and for a root that is itself a tip (with or without `removeRoot`): the oracle, which treats the
    branch of a tip-root as a tip branch, accepts the model there too — so `collapseOK` holds of the model
    on EVERY tree with unique branch ids. -/
theorem collapse_tiproot_oracle (crit : Crit) (sel : SplitE → Bool) (rr rt : Bool)
    (d : NodeD) (p : Nat) (e : EdgeD) (c : T)
    (hsel : ∀ s ∈ (T.node d p [(e, c)]).splits,
      sel s = critV crit (FF (T.node d p [(e, c)]).tipNames s.below, s.e, s.tip))
    (hid : uniqueIds (.node d p [(e, c)]) = true) :
    collapseOK crit rt (.node d p [(e, c)]) (collapse sel rr rt (.node d p [(e, c)])) = true := by
  obtain ⟨c', heq, ho, hl, _, hd⟩ :=
    collapse_tiproot (FF (T.node d p [(e, c)]).tipNames) (FF_permInv _) sel (critV crit) rr rt d p e c hsel hid
  rw [heq]
  have hm : (⟨c.leaves, e, c.isLeaf⟩ : SplitE) ∈ (T.node d p [(e, c)]).splits := by simp [T.splits, splitsL]
  apply collapseOK_tiproot_of crit rt rr d p e _ c c' _ ho hl hd
  rw [holds_tipRootEnt, ← hsel _ hm]

/- ## the oracle the driver runs: `collapseOKr`, given the `--root` flag

   `collapseOKr crit rt rr` is `collapseOK` plus the documented `--root` clause: with `rr` a root branch of a
   rooted tree that meets the criterion must be gone too (without it, it stays optional); and the reading
   of an absent length is ONE for the whole call.  The model passes it with the flag it was run with. -/

theorem collapse_oracle_r (crit : Crit) (sel : SplitE → Bool) (rr rt : Bool) (t : T)
    (hsel : ∀ s ∈ t.splits, sel s = critV crit (FF t.tipNames s.below, s.e, s.tip))
    (hid : uniqueIds t = true) (h1 : t.kids.length ≠ 1) :
    collapseOKr crit rt rr t (collapse sel rr rt t) = true := by
  have ha1 : (collapse sel rr rt t).kids.length ≠ 1 := by
    have := removeEdges_kids_len rr rt ((t.splits.filter sel).map (·.e.id)) t
    by_cases hz : t.kids.length = 0
    · have hk : t.kids = [] := List.length_eq_zero_iff.mp hz
      cases t with
      | node d p k =>
        simp only [T.kids_node] at hk; subst hk
        simp [collapse, T.splits, splitsL, removeEdges]
    · unfold collapse; omega
  cases rr with
  | true =>
    apply collapseOKr_of_obs' crit rt true t _ h1 ha1 (removeEdges_tipNames true rt _ t) (removeEdges_leaves true rt _ t).2
    exact collapse_exact (FF t.tipNames) (FF_permInv _) sel (critV crit) true rt t hsel hid ⟨h1, Or.inl rfl⟩
  | false => exact collapse_general_oracle crit sel rt t hsel hid h1

theorem collapse_tiproot_oracle_r (crit : Crit) (sel : SplitE → Bool) (rr rt : Bool)
    (d : NodeD) (p : Nat) (e : EdgeD) (c : T)
    (hsel : ∀ s ∈ (T.node d p [(e, c)]).splits,
      sel s = critV crit (FF (T.node d p [(e, c)]).tipNames s.below, s.e, s.tip))
    (hid : uniqueIds (.node d p [(e, c)]) = true) :
    collapseOKr crit rt rr (.node d p [(e, c)]) (collapse sel rr rt (.node d p [(e, c)])) = true := by
  obtain ⟨c', heq, ho, hl, _, hd⟩ :=
    collapse_tiproot (FF (T.node d p [(e, c)]).tipNames) (FF_permInv _) sel (critV crit) rr rt d p e c hsel hid
  rw [heq]
  have hm : (⟨c.leaves, e, c.isLeaf⟩ : SplitE) ∈ (T.node d p [(e, c)]).splits := by simp [T.splits, splitsL]
  apply collapseOKr_tiproot_of crit rt rr d p e _ c c' _ ho hl hd
  rw [holds_tipRootEnt, ← hsel _ hm]

/- ## Resolve -/

/-- ★ `resolve_refines`.  For EVERY list of draws on which the model of `Resolve` is defined
    (i.e. exactly the draws the function consumes, each within the bound of its `Intn`):
    * every branch observed before is observed after, with the same split, length, support,
      p-value, tip flag and node data, and what is added (`ex`) are inner branches of length 0
      without support or p-value under unnamed nodes;
    * same tips, same root node;
    * every tip-to-tip distance (indeed `dist a b` for all names) is unchanged;
    * the result is binary as soon as the input has no single-child node and a root of
      degree ≥ 2. -/
theorem resolve_refines {β : Type} (f : List String → β) (hf : PermInv f) (t t' : T) (draws : List Nat)
    (h : resolve t draws = some t') :
    (∃ ex : List (ObsR β), (∀ x ∈ ex, IsNew x) ∧ ((obsT f t').map obsR).Perm ((obsT f t).map obsR ++ ex))
    ∧ t'.leaves.Perm t.leaves ∧ t'.d = t.d
    ∧ (∀ a b : String, t'.dist a b = t.dist a b)
    ∧ (t.noSingle = true → 2 ≤ t.kids.length → t'.binary = true) := by
  have h' := resolve_some t draws t' h
  obtain ⟨hl, _, hd, ex, hnew, hp⟩ := resolveT_spec f hf true t draws t' [] h'
  refine ⟨⟨ex, hnew, hp⟩, hl, hd, ?_, ?_⟩
  · intro a b
    obtain ⟨_, _, _, ex', hnew', hp'⟩ := resolveT_spec (sepf a b) (sepf_permInv a b) true t draws t' [] h'
    rw [dist_eq_RT, dist_eq_RT, sum_perm (hp'.map wR), List.map_append, List.sum_append]
    have : (ex'.map wR).sum = 0 := by
      have hz : ∀ l : List (ObsR Bool), (∀ x ∈ l, IsNew x) → (l.map wR).sum = 0 := by
        intro l
        induction l with
        | nil => intro _; rfl
        | cons x r ih =>
          intro hh
          have hx := hh x (List.mem_cons_self)
          have hr := ih (fun y hy => hh y (List.mem_cons_of_mem _ hy))
          simp only [List.map_cons, List.sum_cons, hr]
          unfold wR
          rw [hx.1]
          simp only [ite_self]
          exact Rat.add_zero 0
      exact hz ex' hnew'
    rw [this]; exact Rat.add_zero _
  · intro hns h2
    cases t with
    | node d p k =>
      obtain ⟨k1, ds1, hk, hn⟩ := resolveT_unfold true d p k draws t' [] h'
      have hb := resolveL_binary k draws k1 ds1 hk hns
      obtain ⟨_, hlen, _⟩ := resolveL_spec (fun _ => ()) permInv_unit k draws k1 ds1 hk
      obtain ⟨_, _, _, _, hbin, hcount⟩ := resolveNode_spec (fun _ => ()) true d p k1 ds1 t' [] hn
      have hb' := hbin hb
      simp only [T.kids_node] at h2
      simp only [if_true, Nat.add_zero] at hcount
      unfold T.binary
      simp only [Bool.and_eq_true, Bool.or_eq_true, beq_iff_eq]
      refine ⟨?_, hb'⟩
      split at hcount <;> omega

/-- `resolve_refines` on the unrooted split map of Spec/Splits.lean: `T.usplitsAll` of the resolved
    tree is the split map of the branches of `t` plus added branches of length 0 without support
    (an added branch whose split already exists is fused with it: length + 0, same support). -/
theorem resolve_usplitsAll (t t' : T) (draws : List Nat) (h : resolve t draws = some t')
    (hg : LensGood t.splits) :
    ∃ ex : List USplit, (∀ x ∈ ex, x.len = 0 ∧ x.sup = NIL) ∧
      t'.usplitsAll.Perm (usplitsOfU (t.splits.map (toU t.tipNames) ++ ex)) := by
  obtain ⟨⟨ex, hnew, hp⟩, _⟩ := resolve_refines (fun l => (canonSide t.tipNames l, ())) 
    (pair_permInv _ _ (canonSide_permInv _) permInv_unit) t t' draws h
  refine ⟨ex.map toUR, ?_, ?_⟩
  · intro x hx
    obtain ⟨y, hy, rfl⟩ := List.mem_map.mp hx
    exact ⟨(hnew y hy).1, (hnew y hy).2.1⟩
  · apply usplitsAll_perm_list _ (resolve_tipNames t t' draws h)
    · rw [splits_toU_eq_RT t.tipNames (fun _ => ()) t', splits_toU_eq_RT t.tipNames (fun _ => ()) t, ← List.map_append]
      exact hp.map toUR
    · intro x hx
      rcases List.mem_append.mp hx with hx | hx
      · exact hg.goodU _ x hx
      · obtain ⟨y, hy, rfl⟩ := List.mem_map.mp hx
        show GoodL y.2.1
        rw [(hnew y hy).1]
        exact Or.inr (Rat.le_refl)

/-- Resolve on ARBITRARY trees, single-child inner nodes included (where the result cannot be binary):
    for every draw list, no node is left with more than three neighbours.  (Single-child nodes have two
    neighbours and are never touched; `resolve_refines` gives the rest.) -/
theorem resolve_max_degree (t t' : T) (draws : List Nat) (h : resolve t draws = some t') : deg3 t' = true :=
  resolve_deg3 t t' draws h

/-- The Spec oracle `resolveOK` (the Bool predicate the driver evaluates on the implementation's
    output) holds of the model's output, for every tree whose root is not a tip and every draw
    list on which the model is defined. -/
theorem resolve_oracle (t t' : T) (draws : List Nat) (h : resolve t draws = some t')
    (h1 : t.kids.length ≠ 1) : resolveOK t t' = true := by
  obtain ⟨⟨ex, hnew, hp⟩, _, hd, hdist, hbin⟩ := resolve_refines (FF t.tipNames) (FF_permInv _) t t' draws h
  have hone := resolve_kids_one t t' draws h
  have h1' : t'.kids.length ≠ 1 := by
    intro hh
    have : (t'.kids.length == 1) = true := by simp [hh]
    rw [hone] at this
    exact h1 (by simpa using this)
  exact resolveOK_of_obs t t' h1 h1' (resolve_tipNames t t' draws h) hd ex hnew hp hdist hbin (resolve_deg3 t t' draws h)

/-- … and when the root is itself a tip (it is never resolved: one neighbour): `resolveOK` holds of the model
    on EVERY tree. -/
theorem resolve_tiproot_oracle (d : NodeD) (p : Nat) (e : EdgeD) (c t' : T) (draws : List Nat)
    (h : resolve (.node d p [(e, c)]) draws = some t') : resolveOK (.node d p [(e, c)]) t' = true := by
  have h' := resolve_some _ draws t' h
  obtain ⟨k1, ds1, hk, hn⟩ := resolveT_unfold true d p [(e, c)] draws t' [] h'
  obtain ⟨c1, dsx, r1, hc, hr, hk1⟩ := resolveL_unfold e c [] draws k1 ds1 hk
  rw [resolveL] at hr
  injection hr with hr; injection hr with hr1 hr2
  subst hr1; subst hr2; subst hk1
  have ht' : t' = .node d p [(e, c1)] := by
    unfold resolveNode at hn
    simp at hn
    exact hn.1.symm
  subst ht'
  obtain ⟨hl, _, hd, ex, hnew, hobs⟩ :=
    resolveT_spec (FF (T.node d p [(e, c)]).tipNames) (FF_permInv _) false c draws c1 dsx hc
  obtain ⟨_, _, _, hdist, _⟩ := resolve_refines (fun _ => ()) permInv_unit _ _ draws h
  exact resolveOK_tiproot_of d p e c c1 hl hd ex hnew hobs hdist (resolve_deg3 _ _ draws h)
    (resolveT_binary c draws c1 dsx hc)

/-- The draw protocol.  The model of `Resolve` is defined EXACTLY on the draw lists that answer the
    `Intn` calls of the draw script of the tree (post-order, `Perm(l)` = `Intn(1)…Intn(l)` at every
    node with more than 3 neighbours): as many values, each within its bound.  So
    `resolve_refines` is not vacuous (it speaks about every outcome of the random choices), and
    the harness, which replays exactly that script on the seeded source and checks that the
    real function consumed as many values, exercises precisely the domain of the theorem. -/
theorem resolve_total (t : T) (draws : List Nat) :
    (∃ t', resolve t draws = some t') ↔ okDraws (drawScript t) draws = true := by
  constructor
  · rintro ⟨t', h⟩
    obtain ⟨dl, he, ho⟩ := resolveT_some_ok true t draws t' [] (resolve_some t draws t' h)
    rw [List.append_nil] at he
    rw [he]; exact ho
  · intro h
    obtain ⟨t', ht⟩ := resolveT_ok true t draws [] h
    refine ⟨t', ?_⟩
    unfold resolve
    rw [List.append_nil] at ht
    rw [ht]

/- ## the commands (Model/C07Cmd.lean) -/

/-- `gotree collapse length`: the command writes, in order, the collapsed version of every tree before
    the first record in error, and succeeds iff no record is in error; `-l` omitted means 0. -/
theorem cmdLength_spec (fl : CmdFlags) (recs : List Rec) :
    cmdLength fl recs = ((goodRecs recs).map (collapseLen (fl.l.getD 0) fl.root fl.tips), !hasErrRec recs) :=
  runEach_total _ recs

/-- `gotree collapse support`: likewise (`-s` omitted means 0; tip branches are never touched). -/
theorem cmdSupport_spec (fl : CmdFlags) (recs : List Rec) :
    cmdSupport fl recs = ((goodRecs recs).map (collapseSup (fl.s.getD 0) fl.root), !hasErrRec recs) :=
  runEach_total _ recs

/-- `gotree collapse depth` on trees that can be indexed (unique tip names, at least one tip): the
    command re-indexes each tree, so it is the collapse by the FRESH topological depths, whatever was
    stored on the branches before (`collapseDepthStored_fresh`, `collapseDepth_defined`). -/
theorem cmdDepth_spec (fl : CmdFlags) (recs : List Rec)
    (hok : ∀ t ∈ goodRecs recs, reinitErr t = false) :
    cmdDepth fl recs =
      ((goodRecs recs).map (fun t => collapse (selDepth t.tipNames.length (fl.mn.getD 0) (fl.mx.getD 0)) fl.root fl.tips t),
        !hasErrRec recs) := by
  induction recs with
  | nil => rfl
  | cons r rs ih =>
    cases r with
    | none => rfl
    | some t =>
      have ht : reinitErr t = false := hok t (by simp [goodRecs])
      have ih' := ih (fun u hu => hok u (by simp [goodRecs, hu]))
      unfold cmdDepth at ih' ⊢
      simp only [collapseDepth_defined, Option.getD_some] at ih'
      simp only [runEach, ht, Bool.false_eq_true, if_false, collapseDepth_defined, Option.getD_some,
        goodRecs, List.map_cons, hasErrRec]
      rw [ih']

/-- `gotree resolve`: defined on the draws that follow the scripts of the successive trees on ONE
    stream; it writes one tree per record before the first in error. -/
theorem cmdResolve_total (recs : List Rec) (draws : List Nat) (h : okDraws (cmdResolveScript recs) draws = true) :
    ∃ o, cmdResolve recs draws = some o ∧ o.1.length = (goodRecs recs).length ∧ o.2 = !hasErrRec recs :=
  cmdResolve_ok recs draws h

/- ## fidelity of the model of `rand.Perm` / `togroup` (not needed by the theorems above) -/

/-- the modelled `rand.Perm(n)` (inside-out shuffle driven by the draws) is a permutation of 0…n−1 -/
theorem perm_is_permutation (ds r : List Nat) (h : goPerm ds = some r) : r.Perm (List.range ds.length) :=
  goPerm_perm ds r h

/-- `togroup[perm[nb]] = current.Edges()[i]`: the model builds `togroup` as "the children sorted by
    `perm[nb]`"; for every permutation the model can draw, position `p` of that list holds the
    child number `nb` with `perm[nb] = p` — the result of the scatter loop of the Go code. -/
theorem togroup_is_scatter (ds perm : List Nat) (k : Kids) (h : goPerm ds = some perm) (hl : ds.length = k.length) :
    ∀ p, p < k.length → ∃ nb, ∃ (hnb : nb < k.length),
      ((sortK (perm.zip ((List.range k.length).zip k))).map (·.2))[p]? = some (nb, k[nb]) ∧ perm[nb]? = some p :=
  togroup_scatter ds perm k h hl

/- ## the hypotheses are satisfiable on non-trivial trees; concrete behaviours -/

/-- unrooted, 6 tips, a multifurcation, an absent length (id 4), an absent support, a zero length:
    `((a:1,b:2)50:0,(c:1,d:1,e:3):-,f:2);` with branch ids in pre-order -/
def exU : T :=
  .node ⟨"", []⟩ 0 [
    (⟨0, 50, NIL, [], 0⟩, .node ⟨"", []⟩ 0 [(⟨1, NIL, NIL, [], 1⟩, T.leaf "a"), (⟨2, NIL, NIL, [], 2⟩, T.leaf "b")]),
    (⟨NIL, NIL, NIL, [], 3⟩, .node ⟨"", []⟩ 0 [(⟨1, NIL, NIL, [], 4⟩, T.leaf "c"), (⟨1, NIL, NIL, [], 5⟩, T.leaf "d"), (⟨3, NIL, NIL, [], 6⟩, T.leaf "e")]),
    (⟨2, NIL, NIL, [], 7⟩, T.leaf "f")]

/-- rooted: `((a:1,b:2)50:0,((c:1,d:1)90:1,e:3)20:1);` -/
def exR : T :=
  .node ⟨"", []⟩ 0 [
    (⟨0, 50, NIL, [], 0⟩, .node ⟨"", []⟩ 0 [(⟨1, NIL, NIL, [], 1⟩, T.leaf "a"), (⟨2, NIL, NIL, [], 2⟩, T.leaf "b")]),
    (⟨1, 20, NIL, [], 3⟩, .node ⟨"", []⟩ 0 [
        (⟨1, 90, NIL, [], 4⟩, .node ⟨"", []⟩ 0 [(⟨1, NIL, NIL, [], 5⟩, T.leaf "c"), (⟨1, NIL, NIL, [], 6⟩, T.leaf "d")]),
        (⟨3, NIL, NIL, [], 7⟩, T.leaf "e")])]

/-- a star with 6 tips -/
def exS : T :=
  .node ⟨"", []⟩ 0 [(⟨1, NIL, NIL, [], 0⟩, T.leaf "a"), (⟨1, NIL, NIL, [], 1⟩, T.leaf "b"), (⟨1, NIL, NIL, [], 2⟩, T.leaf "c"),
    (⟨1, NIL, NIL, [], 3⟩, T.leaf "d"), (⟨1, NIL, NIL, [], 4⟩, T.leaf "e"), (⟨1, NIL, NIL, [], 5⟩, T.leaf "f")]

example : uniqueIds exU = true ∧ RootOK false exU := ⟨by decide, by decide, Or.inr ⟨by decide, by decide⟩⟩
example : uniqueIds exR = true ∧ RootOK true exR := ⟨by decide, by decide, Or.inl rfl⟩
example : uniqueIds exR = true ∧ exR.noSingle = true ∧ exR.rooted = true := ⟨by decide, by decide, by decide⟩

-- hypotheses of `collapse_usplitsAll` / `resolve_usplitsAll` (every length absent or ≥ 0), of `cmdDepth_spec` (the
-- trees can be indexed) and of `collapse_rooted_oracle` on the example trees
example : LensGood exU.splits := by unfold LensGood GoodL; decide
example : LensGood exS.splits := by unfold LensGood GoodL; decide
example : reinitErr exU = false ∧ reinitErr exR = false := by decide
example : uniqueIds exR = true ∧ exR.noSingle = true ∧ exR.kids.length = 2 := by decide

/-- the length criterion includes the threshold itself (`<=`): the branch of length 0 goes at l = 0 -/
theorem len_threshold_inclusive :
    ((collapseLen 0 false false exU).splits.map (·.e.id)) = [7, 1, 2, 4, 5, 6] ∧
    (exU.splits.map (·.e.id)) = [0, 1, 2, 3, 4, 5, 6, 7] := by decide

/-- … and an ABSENT length is the sentinel −1, hence "short" for every l ≥ −1 (stated, not hidden):
    at l = −1 the branch without length (id 3) is contracted, and it is the only one. -/
theorem absent_length_counts_as_short :
    ((collapseLen (-1) false false exU).splits.map (·.e.id)) = [0, 1, 2, 7, 4, 5, 6] := by decide

/-- the support criterion needs a support: the branch without support (id 3) stays whatever the threshold -/
theorem absent_support_never_collapsed :
    ((collapseSup 100 false exU).splits.map (·.e.id)) = [3, 4, 5, 6, 7, 1, 2] := by decide

/-- the depth interval is closed at both ends -/
theorem depth_interval_closed :
    ((collapseDepth 2 2 false false exU).map fun t => t.splits.map (·.e.id)) = some [3, 4, 5, 6, 7, 1, 2] ∧
    ((collapseDepth 3 3 false false exU).map fun t => t.splits.map (·.e.id)) = some [0, 1, 2, 7, 4, 5, 6] := by decide

/-- without `removeRoot` the two root branches of a rooted tree stay even when selected … -/
theorem rooted_root_branches_kept :
    ((collapseLen 1 false false exR).splits.map (·.e.id)) = [0, 1, 2, 3, 7, 5, 6] := by decide

/-- … with `removeRoot` they go like any other (the tree is no longer rooted) -/
theorem rooted_root_branches_removed_with_flag :
    ((collapseLen 1 true false exR).splits.map (·.e.id)) = [1, 2, 7, 5, 6] ∧ (collapseLen 1 true false exR).rooted = false := by decide

/-- a tree whose root is a tip: `((a:1,b:2,c:2):1)r;` -/
def exT : T :=
  .node ⟨"r", []⟩ 0 [(⟨1, NIL, NIL, [], 0⟩, .node ⟨"", []⟩ 0
    [(⟨1, NIL, NIL, [], 1⟩, T.leaf "a"), (⟨2, NIL, NIL, [], 2⟩, T.leaf "b"), (⟨2, NIL, NIL, [], 3⟩, T.leaf "c")])]

/-- NEGATIVE, about the PINNED variant of the model (the code before fix e276115, whose tip test
    looked at `e.Right()` only): when the root is a tip, the terminal branch next to it was
    contracted like an inner branch and the tip was lost.  The current model keeps it. -/
theorem roottip_tip_lost :
    exT.tipNames = ["r", "a", "b", "c"] ∧
    (collapsePinned (selLen 1) false false exT).tipNames = ["a", "b", "c"] ∧
    (collapsePinned (selDepth 4 1 1) false false exT).tipNames = ["a", "b", "c"] ∧
    (collapseLen 1 false false exT).tipNames = ["r", "a", "b", "c"] ∧
    (collapseLen 1 false true exT).edges.map (·.len) = [0, 0, 2, 2] := by decide

/-- stale sizes: the stored sizes of `exU` say that branch 0 has one taxon below (as if `b` had been
    grafted after the indexing); `CollapseTopoDepth(1,1)` then removes that INNER branch of depth 2,
    and with no sizes at all (never indexed) it fails and removes nothing. -/
theorem stale_sizes_differ :
    ((collapseDepthStored ((freshSizes exU).map fun x => if x.1 == 0 then (0, 5, 1) else x) 1 1 false false exU).map
        fun t => t.splits.map (·.e.id)) = some [3, 4, 5, 6, 7, 1, 2] ∧
    ((collapseDepth 1 1 false false exU).map fun t => t.splits.map (·.e.id)) = some [0, 1, 2, 3, 4, 5, 6, 7] ∧
    collapseDepthStored [] 1 1 false false exU = none := by decide

/-- `(((a:1,b:1):1):1,c:1,d:1);` — a single-child inner node (branch 1 below branch 0) -/
def exSg : T :=
  .node ⟨"", []⟩ 0 [
    (⟨1, NIL, NIL, [], 0⟩, .node ⟨"", []⟩ 0 [
      (⟨1, NIL, NIL, [], 1⟩, .node ⟨"", []⟩ 0 [(⟨1, NIL, NIL, [], 2⟩, T.leaf "a"), (⟨1, NIL, NIL, [], 3⟩, T.leaf "b")])]),
    (⟨1, NIL, NIL, [], 4⟩, T.leaf "c"), (⟨1, NIL, NIL, [], 5⟩, T.leaf "d")]

/-- NEGATIVE, about the PINNED variant (the code before fix 82ce8b8, whose "root branch" test was "an
    end point has exactly two neighbours"): a single-child inner node protected both its branches, so
    `collapse length -l 1` left `exSg` unchanged although its two inner branches meet the criterion.
    The current model removes both. -/
theorem single_child_protected_pinned :
    (collapsePinned (selLen 1) false false exSg).splits.map (·.e.id) = [0, 1, 2, 3, 4, 5] ∧
    (collapseLen 1 false false exSg).splits.map (·.e.id) = [4, 5, 2, 3] ∧
    uniqueIds exSg = true ∧ exSg.noSingle = false := by decide

/-- With `--root` nothing is optional: a selected inner branch — root branch or not — has no key the
    oracle would accept afterwards (so a code that ignored the flag is an ORACLE failure; the corpus holds
    such a hand-made pair), and under either reading the choice is the same for all branches. -/
theorem root_flag_nothing_optional (sel : Ent → Bool) (rt : Bool) (e : Ent) :
    optKeysR sel true e = [] ∧ (e.tip = false → sel e = true → mandKeyR sel rt e = none) := by
  constructor
  · simp [optKeysR]
  · intro h1 h2; simp [mandKeyR, h1, h2]

/-- `resolve` is defined on the draws it asks for (here: a star with 6 tips, `Perm(6)`), and the
    result is binary with 3 added branches -/
theorem resolve_defined_example :
    drawScript exS = [1, 2, 3, 4, 5, 6] ∧
    ((resolve exS [0, 1, 0, 2, 4, 3]).map fun t => (t.binary, t.splits.length)) = some (true, 9) ∧
    resolve exS [0, 1, 0, 2, 4] = none ∧ resolve exS [0, 2, 0, 2, 4, 3] = none := by decide


/-! ## Histories: several collapses on ONE tree (the sequences `C07.seq` runs on one object)

  A collapse leaves what the next one needs — branch ids still pairwise distinct, the root condition — and
  the two filters of the branch list compose (`keepV2`): the second criterion is evaluated on the branch AS
  THE FIRST LEFT IT (a tip zeroed by `removeTips` is judged with length 0).  Same `removeRoot` in both steps. -/

/-- ★ two collapses in a row, any two selections -/
theorem collapse_then_collapse {β : Type} (f : List String → β) (hf : PermInv f)
    (sel1 sel2 : SplitE → Bool) (selV1 selV2 : β × EdgeD × Bool → Bool) (rr rt1 rt2 : Bool) (t : T)
    (hsel1 : ∀ s ∈ t.splits, sel1 s = selV1 (f s.below, s.e, s.tip))
    (hsel2 : ∀ s ∈ (collapse sel1 rr rt1 t).splits, sel2 s = selV2 (f s.below, s.e, s.tip))
    (hid : uniqueIds t = true) (h : RootOK rr t) :
    uniqueIds (collapse sel1 rr rt1 t) = true ∧ RootOK rr (collapse sel1 rr rt1 t) ∧
    (obsT f (collapse sel2 rr rt2 (collapse sel1 rr rt1 t))).Perm
      ((obsT f t).filterMap (keepV2 selV1 selV2 rt1 rt2)) := by
  have hid' : uniqueIds (collapse sel1 rr rt1 t) = true := uniqueIds_removeEdges rr rt1 _ t hid h
  have h' : RootOK rr (collapse sel1 rr rt1 t) := rootOK_removeEdges rr rt1 _ t h
  refine ⟨hid', h', ?_⟩
  have p1 := collapse_exact f hf sel1 selV1 rr rt1 t hsel1 hid h
  have p2 := collapse_exact f hf sel2 selV2 rr rt2 _ hsel2 hid' h'
  refine p2.trans ((p1.filterMap _).trans (List.Perm.of_eq ?_))
  rw [List.filterMap_filterMap]; rfl

/-- `collapse length` then `collapse support` on the same tree -/
theorem collapseLen_then_collapseSup {β : Type} (f : List String → β) (hf : PermInv f) (l x : Rat)
    (rr rt : Bool) (t : T) (hid : uniqueIds t = true) (h : RootOK rr t) :
    (obsT f (collapseSup x rr (collapseLen l rr rt t))).Perm
      ((obsT f t).filterMap (keepV2 (fun y => decide (y.2.1.len ≤ l))
        (fun y => y.2.1.sup != NIL && decide (y.2.1.sup < x)) rt false)) :=
  (collapse_then_collapse f hf (selLen l) (selSup x) _ _ rr rt false t (fun _ _ => rfl) (fun _ _ => rfl) hid h).2.2

/-- `collapse support` then `collapse length` on the same tree -/
theorem collapseSup_then_collapseLen {β : Type} (f : List String → β) (hf : PermInv f) (l x : Rat)
    (rr rt : Bool) (t : T) (hid : uniqueIds t = true) (h : RootOK rr t) :
    (obsT f (collapseLen l rr rt (collapseSup x rr t))).Perm
      ((obsT f t).filterMap (keepV2 (fun y => y.2.1.sup != NIL && decide (y.2.1.sup < x))
        (fun y => decide (y.2.1.len ≤ l)) false rt)) :=
  (collapse_then_collapse f hf (selSup x) (selLen l) _ _ rr false rt t (fun _ _ => rfl) (fun _ _ => rfl) hid h).2.2

/-- collapsing twice with the same threshold changes nothing the second time -/
theorem collapseLen_idempotent {β : Type} (f : List String → β) (hf : PermInv f) (l : Rat)
    (rr rt : Bool) (t : T) (hid : uniqueIds t = true) (h : RootOK rr t) :
    (obsT f (collapseLen l rr rt (collapseLen l rr rt t))).Perm (obsT f (collapseLen l rr rt t)) := by
  have p := (collapse_then_collapse f hf (selLen l) (selLen l) (fun y => decide (y.2.1.len ≤ l)) (fun y => decide (y.2.1.len ≤ l))
    rr rt rt t (fun _ _ => rfl) (fun _ _ => rfl) hid h).2.2
  have q := collapseLen_exact f hf l rr rt t hid h
  refine p.trans (List.Perm.trans (List.Perm.of_eq ?_) q.symm)
  apply filterMap_congr'
  intro x _
  exact keepV_idem _ rt x

/-- the same for supports -/
theorem collapseSup_idempotent {β : Type} (f : List String → β) (hf : PermInv f) (x : Rat)
    (rr : Bool) (t : T) (hid : uniqueIds t = true) (h : RootOK rr t) :
    (obsT f (collapseSup x rr (collapseSup x rr t))).Perm (obsT f (collapseSup x rr t)) := by
  have p := (collapse_then_collapse f hf (selSup x) (selSup x) (fun y => y.2.1.sup != NIL && decide (y.2.1.sup < x))
    (fun y => y.2.1.sup != NIL && decide (y.2.1.sup < x)) rr false false t (fun _ _ => rfl) (fun _ _ => rfl) hid h).2.2
  have q := collapseSup_exact f hf x rr t hid h
  refine p.trans (List.Perm.trans (List.Perm.of_eq ?_) q.symm)
  apply filterMap_congr'
  intro y _
  exact keepV_idem _ false y
/-- the hypotheses are met by `exR` with `--root` (see the examples above), and the history is what it should be:
    `-l 0 --root` removes branch 0, `-s 50 --root` then removes branch 3 (support 20) and keeps 4 (support 90) -/
example : (collapseLen 0 true false exR).splits.map (·.e.id) = [3, 4, 5, 6, 7, 1, 2] ∧
    (collapseSup 50 true (collapseLen 0 true false exR)).splits.map (·.e.id) = [1, 2, 4, 5, 6, 7] := by decide

/-- ★ a history through `Resolve`: resolve, renumber the branches (as the harness does between steps — the
    branches `Resolve` makes have no id), collapse the branches of length ≤ 0 with `--root`: when every inner
    branch of the input has a positive length, what is observed (splits, lengths, supports, p-values, node
    data) is the input again — the collapse removes exactly what `Resolve` added. -/
theorem resolve_then_collapse {β : Type} (f : List String → β) (hf : PermInv f) (t r : T) (draws : List Nat)
    (h : resolve t draws = some r) (hk : t.kids.length ≠ 1)
    (hpos : ∀ y ∈ RT f t, y.2.2.2.2.1 = false → 0 < y.2.1) :
    (RT f (collapseLen 0 true false (renumber r))).Perm (RT f t) := by
  have hid := uniqueIds_renumber r
  have hroot : RootOK true (renumber r) := by
    refine ⟨?_, Or.inl rfl⟩
    rw [renumber_kids_length]
    have := resolve_kids_one t r draws h
    intro hc; apply hk
    simpa [hc] using this.symm
  have p1 := (collapseLen_exact f hf 0 true false (renumber r) hid hroot).map obsR
  rw [keepV_obsR] at p1
  obtain ⟨⟨ex, hnew, hp⟩, _⟩ := resolve_refines f hf t r draws h
  have e1 : (obsT f (renumber r)).map obsR = RT f r := renumber_RT f r
  rw [e1] at p1
  have hp' : (RT f r).Perm (RT f t ++ ex) := hp
  refine p1.trans ((hp'.filter _).trans (List.Perm.of_eq ?_))
  rw [List.filter_append]
  have h1 : (RT f t).filter (keptR 0) = RT f t := by
    apply List.filter_eq_self.mpr
    intro y hy
    unfold keptR
    cases ht : y.2.2.2.2.1
    · have := hpos y hy ht
      have : ¬ y.2.1 ≤ 0 := Rat.not_le.mpr this
      simp [this]
    · simp
  have h2 : ex.filter (keptR 0) = [] := by
    apply List.filter_eq_nil_iff.mpr
    intro y hy
    obtain ⟨hl, _, _, htip, _⟩ := hnew y hy
    unfold keptR
    rw [hl, htip]
    decide
  rw [h1, h2, List.append_nil]
/-- the hypotheses are met by the star `exS` (no inner branch, six children) with the draws of
    `resolve_defined_example`: after renumbering the ids are distinct, and the collapse leaves the six tips -/
example : ((resolve exS [0, 1, 0, 2, 4, 3]).map fun r =>
    (uniqueIds r, uniqueIds (renumber r), (collapseLen 0 true false (renumber r)).splits.length)) = some (false, true, 6) := by
  decide

end Gotree.C07
