/-
  C09 — the property theorems (DESIGN §6 C09).  Everything is about the model
  functions of `Gotree/Model/C09.lean` that the driver runs against the code
  (`consensus`, and inside it `countAll`/`addCount`, `selectEntries`, `floorCut`,
  `applyEntry`, `insertSplit`, `setTipLen`).

  Vocabulary (Model/C09.lean, "Vocabulary"): for a collection `ts`, `index ts` is the
  edge index the counting loop builds, `count ts k` the number of trees containing the
  bipartition with bitset `k` (naive table over the branch lists of the unrooted
  trees), `freq = count / n`, `meanLen` the mean of the lengths of the branch over the
  trees containing it, `selected ord ts c` the rows inserted into the star tree.
  `ord` is the iteration order of the hash map (`KeyValues()`): any permutation.

  Inventory
    thresholds        threshold_floor, cutoff_range_err
    counting          consensus_inserts_selected, index_is_frequency_table, index_complete,
                      count_le_trees
    ★ selection       selected_exact
    values            support_eq_freq, length_eq_mean, applyEntry_values, tip_length_update
    invariance        count_order_independent, count_perm, count_presentation_independent,
                      child_order_independent, reroot_independent, rooting_independent,
                      rooting_tip_independent, consensus_presentation_independent,
                      consensus_order_independent, consensus_presentation_meets_oracle,
                      consensus_reroot_independent (arbitrary re-rooting paths, C05's `reroot`)
    rejection         different_taxa_err
    insertion         consensus_splits_partial (one insertion keeps everything, adds at most the
                      new branch), Lemmas: insertSplit_adds (it does add it when compatible)
    ★★ the whole      consensus_splits (for compatible rows), selected_compatible (they are),
                      consensus_exact, consensus_exact_spec (in the Spec's terms)
    bridge to Spec    spec_count_bridge, spec_row_bridge, spec_len_bridge
    ★★★ oracle        consensus_meets_oracle (splitsOK, supportsOK, lengthsOK of the model's output)
    F34               root_split_pinned_fails
    single-child      single_child_pinned_fails (pinned variant of the defect repaired by 5dad91e)
    tip-rooted inputs consensus_tip_root, consensus_tip_rooted_meets_oracle, tip_rooted_accepted (5a3a76a)
    float64 product   fma_cut_exact, consensus_fma_cut (abstract rounding: monotone, fixes every integer — NOT
                      the driver's `roundF64`, which fixes only 0 ≤ k < 2^53), consensusCut_floorCut,
                      float_product_pinned_fails; for the rounding the driver runs: cutNow_exact,
                      consensusNow_eq_consensus (thresholds in [0,1], fewer than 2^52 trees)
    non-finite thr.   consensusThr_fin, nonfinite_threshold_rejected, nan_threshold_pinned_fails (def0221)
    oracle clause     oracle_lengths_where_defined
    error records     (round 7, the channel `<-chan tree.Trees` with `Trees.Err` items, Model/C09Items.lean)
                      consensusItems_trees, consensusItems_bad_never_ok, consensusItems_input_err,
                      consensusItems_taxa_before_record, skip_bad_items_wrong,
                      consumedItems_range, consumedItems_all (round 7b: what has been read from the channel)
    output text       newick_text_witness (round 7b, Model/C09Text.lean: the writer and the lexer the driver applies
                      to the text written by cmd/consensus.go)
    source facts      in Proofs/C09Tables.lean (round 7b: nothing in this file depends on a generated table)
  `consensus_splits_partial` keeps its round-1 name: it is the complete one-step lemma `insertSplit_spec`
  (not a partial result), superseded by `consensus_exact` / `consensus_meets_oracle`.

  Hypotheses are `Bool` predicates the driver evaluates and reports as tags:
  `domB` (hyp-dom), `lensOK` (hyp-lensok), `noRepeat` (hyp-norepeat, a consequence of
  `domB`), `selOK` (hyp-selok, a consequence of `domB` and `1/2 ≤ c`), `C09S.keysOK` (hyp-keys).
-/
import Gotree.Lemmas.C09
import Gotree.Lemmas.C09Rooting
import Gotree.Lemmas.C09Final
import Gotree.Lemmas.C09Compat
import Gotree.Lemmas.C09NoRepeat
import Gotree.Lemmas.C09Invariance
import Gotree.Lemmas.C09Bridge
import Gotree.Lemmas.C09BridgeLen
import Gotree.Lemmas.C09Singles
import Gotree.Lemmas.C09SinglesLen
import Gotree.Lemmas.C09Oracle
import Gotree.Lemmas.C09Reroot
import Gotree.Lemmas.C09Float
import Gotree.Lemmas.C09Witness
import Gotree.Lemmas.C09Items
import Gotree.Lemmas.C09Consumed
import Gotree.Model.C09Text

namespace Gotree.C09
open Gotree

/-! ### thresholds -/

/-- `⌊c·n⌋ < k ↔ c < k/n`: comparing a count with the truncated product is
    comparing the frequency with the threshold. -/
theorem threshold_floor (c : Rat) (n k : Nat) (hc : 0 ≤ c) (hn : 0 < n) :
    floorCut c n < k ↔ c < (k : Rat) / (n : Rat) :=
  floorCut_lt_iff_freq c n k hc hn

/-- Thresholds outside `[1/2, 1]` are rejected, whatever the collection. -/
theorem cutoff_range_err (ord : List Entry → List Entry) (ts : List T) (c : Rat)
    (h : c < 1/2 ∨ 1 < c) : consensus ord ts c = .err "range" := by
  unfold consensus consensusG
  have : (decide (c < 1/2) || decide (c > 1)) = true := by
    rcases h with h | h <;> simp [h]
  rw [if_pos this]

/-! ### what is counted -/

/-- When the counting loop succeeds, `Consensus` inserts exactly the rows
    `selected ord ts c` of the index into the star tree of the first tree. -/
theorem consensus_inserts_selected (ord : List Entry → List Entry) (ts : List T) (c : Rat)
    (hc : 1/2 ≤ c ∧ c ≤ 1) (hdeg : ∀ t ∈ ts, 2 ≤ t.kids.length)
    (cn : Counted) (h : countAll true true ts = .ok (some cn)) :
    consensus ord ts c =
      match applyAll cn.alltips ts.length (starOf cn.first) (selected ord ts c) with
      | .ok r => .ok r
      | .error w => .err w := by
  obtain ⟨_, hn, hidx, _, _⟩ := countAll_index ts cn h
  unfold consensus consensusG consensusCore
  rw [map_rerootTip_of_deg ts hdeg]
  have h1 : (decide (c < 1/2) || decide (c > 1)) = false := by
    simp only [Bool.or_eq_false_iff, decide_eq_false_iff_not, Rat.not_lt]
    exact ⟨hc.1, hc.2⟩
  have h2 : (ts.any fun t => decide (t.kids.length < 2)) = false := by
    simp only [List.any_eq_false, decide_eq_true_eq, Nat.not_lt]
    exact hdeg
  rw [if_neg (by simp [h1]), if_neg (by simp [h2]), h]
  simp only [selected, hn, hidx]
  rfl

/-- The index is the naive frequency table: each row carries the number of trees
    containing its bipartition and the sum of the lengths of that branch. -/
theorem index_is_frequency_table (ts : List T) (hr : noRepeat ts = true) (x : Entry) (hx : x ∈ index ts) :
    x.count = count ts x.key ∧ x.len = lenM (univOf ts) (trees ts) x.key ∧ 0 < x.count :=
  let h := buildIdx_entry (univOf ts) (trees ts) (noRepeat_trees ts hr) x hx
  ⟨h.1, h.2, (buildIdx_inv (univOf ts) (trees ts)).pos x hx⟩

/-- Every bipartition of every tree has a row, and no bipartition has two. -/
theorem index_complete (ts : List T) :
    (∀ u ∈ trees ts, ∀ kl ∈ edgeKeys (univOf ts) u, ∃ x ∈ index ts, eqc (univOf ts) x.key kl.1 = true) ∧
    ((index ts).map (·.key)).Pairwise (fun a b => eqc (univOf ts) a b = false) :=
  ⟨fun u hu kl hkl => buildIdx_cover _ _ u hu kl hkl, buildIdx_distinct _ _⟩

/-- A bipartition is in at most all the trees. -/
theorem count_le_trees (ts : List T) (k : List String) : count ts k ≤ ts.length := by
  have := countM_le (univOf ts) (trees ts) k
  simpa [count, trees] using this

/-! ### ★ selection -/

/-- ★ A row is inserted iff its bipartition's frequency is strictly greater than
    the threshold or it occurs in every tree. -/
theorem selected_exact (ord : List Entry → List Entry) (hord : ∀ l, (ord l).Perm l)
    (ts : List T) (hne : ts ≠ []) (c : Rat) (hc : 1/2 ≤ c ∧ c ≤ 1)
    (hr : noRepeat ts = true) (x : Entry) :
    x ∈ selected ord ts c ↔
      x ∈ index ts ∧ (c < freq ts x.key ∨ count ts x.key = ts.length) := by
  have hn : 0 < ts.length := List.length_pos_iff.2 hne
  have hc0 : (0 : Rat) ≤ c := Rat.le_trans (by decide +kernel) hc.1
  unfold selected selectEntries
  rw [List.mem_filter, (hord (index ts)).mem_iff, keep_iff c ts.length hc0 hn]
  constructor
  · rintro ⟨hx, hk⟩
    have hcount := (index_is_frequency_table ts hr x hx).1
    refine ⟨hx, ?_⟩
    unfold freq
    rw [← hcount]
    rcases hk with ⟨h1, _⟩ | h1
    · exact Or.inl h1
    · exact Or.inr h1
  · rintro ⟨hx, hk⟩
    have hcount := (index_is_frequency_table ts hr x hx).1
    have hle := count_le_trees ts x.key
    refine ⟨hx, ?_⟩
    unfold freq at hk
    rw [← hcount] at hk hle
    rcases hk with h1 | h1
    · exact Or.inl ⟨h1, hle⟩
    · exact Or.inr h1

/-! ### support and length -/

/-- The support handed to `AddBipartition` is the frequency of the bipartition. -/
theorem support_eq_freq (ts : List T) (hr : noRepeat ts = true) (x : Entry) (hx : x ∈ index ts) :
    (x.count : Rat) / (ts.length : Rat) = freq ts x.key := by
  unfold freq; rw [(index_is_frequency_table ts hr x hx).1]

/-- The length handed to `AddBipartition` / `SetLength` is the mean of the lengths
    of the branch over the trees containing the bipartition. -/
theorem length_eq_mean (ts : List T) (hr : noRepeat ts = true) (x : Entry) (hx : x ∈ index ts) :
    x.len / (x.count : Rat) = meanLen ts x.key := by
  obtain ⟨h1, h2, _⟩ := index_is_frequency_table ts hr x hx
  unfold meanLen; rw [h1, h2, ← h1]

/-- What one iteration of the insertion loop does with a row of the index: an
    inner bipartition is inserted with (mean length, frequency); a tip branch
    gets the mean length. -/
theorem applyEntry_values (ts : List T) (hr : noRepeat ts = true) (x : Entry) (hx : x ∈ index ts)
    (alltips : List String) (star : T) :
    (2 ≤ (alltips.filter x.key.contains).length →
      applyEntry alltips ts.length star x =
        insertSplit (alltips.filter x.key.contains) (meanLen ts x.key) (freq ts x.key) star) ∧
    (∀ a, alltips.filter x.key.contains = [a] → star.tipNames.contains a = true →
      applyEntry alltips ts.length star x = .ok (setTipLen a (meanLen ts x.key) star)) := by
  have hs := support_eq_freq ts hr x hx
  have hl := length_eq_mean ts hr x hx
  constructor
  · intro h2
    unfold applyEntry
    simp only [hs, hl]
    rw [if_neg (by omega)]
  · intro a ha hmem
    unfold applyEntry
    simp only [hl, ha, List.length_singleton, Nat.lt_add_one, if_true, hmem]

/-! ### order of the trees -/

/-- Permuting the trees does not change the table: every row of one index has a
    row in the other with the same bipartition, the same count and the same
    length sum (the stored key may be the complementary presentation). -/
theorem count_order_independent (all : List String) (us us' : List T) (hp : us.Perm us')
    (x : Entry) (hx : x ∈ buildIdx all us) :
    ∃ y ∈ buildIdx all us', eqc all y.key x.key = true ∧ y.count = x.count ∧ y.len = x.len :=
  inv_perm (buildIdx_inv all us) (buildIdx_inv all us') (flatMap_perm all hp) x hx

/-- … and neither the count nor the length sum of any bipartition. -/
theorem count_perm (all : List String) (us us' : List T) (hp : us.Perm us') (k : List String) :
    countM all us k = countM all us' k ∧ lenM all us k = lenM all us' k :=
  ⟨hp.countP_eq _, sumR_perm (hp.map _)⟩

/-! ### child order and rooting of the input trees -/

/-- The table depends on each tree only through its branch list up to order and
    complement: if the trees of two collections correspond one to one with
    equivalent branch lists (`LEq`), every row of one index has a row in the other
    with the same bipartition, count and length sum. -/
theorem count_presentation_independent (all : List String) (us us' : List T)
    (h : F2 (fun u u' => LEq all (edgeKeys all u) (edgeKeys all u')) us us')
    (x : Entry) (hx : x ∈ buildIdx all us) :
    ∃ y ∈ buildIdx all us', eqc all y.key x.key = true ∧ y.count = x.count ∧ y.len = x.len :=
  inv_equiv (buildIdx_inv all us) (buildIdx_inv all us') (flat_LEq all h) x hx

/-- The same from the equivalence of the two flattened branch lists (which also covers a
    permutation of the trees, `flatMap_perm`, and any combination). -/
theorem count_presentation_independent_flat (all : List String) (us us' : List T)
    (h : LEq all (us.flatMap (edgeKeys all)) (us'.flatMap (edgeKeys all)))
    (x : Entry) (hx : x ∈ buildIdx all us) :
    ∃ y ∈ buildIdx all us', eqc all y.key x.key = true ∧ y.count = x.count ∧ y.len = x.len :=
  inv_equiv (buildIdx_inv all us) (buildIdx_inv all us') h x hx

/-- Reordering the children of every node (any function `f` that permutes each
    child list) gives the same branch list. -/
theorem child_order_independent (all : List String) (f : Kids → Kids) (hf : ∀ k, (f k).Perm k) (t : T) :
    LEq all (edgeKeys all t) (edgeKeys all (rotT f t)) :=
  LEq.of_perm (rot_keys all f hf t).symm

/-- Moving the root to a neighbouring inner node (`Reroot` by one branch) gives an
    equivalent branch list: the moved branch is seen from its other side. -/
theorem reroot_independent (all : List String) (t : T) (i : Nat) (h3 : 3 ≤ t.kids.length)
    (hnd : (leavesL t.kids).Nodup) (hall : ∀ x ∈ all, x ∈ leavesL t.kids) :
    LEq all (edgeKeys all t) (edgeKeys all (moveRoot t i)) :=
  moveRoot_LEq all t i h3 hnd hall

/-- A rooted presentation (the root placed on a branch `e`, its length shared
    between the two root branches) is counted, after `unroot`, as the unrooted tree:
    the root bipartition once, with the whole length (repaired F34). -/
theorem rooting_independent (all : List String) (dr d1 d2 : NodeD) (pr p1 p2 p1' : Nat) (k1 k2 : Kids)
    (e e1 e2 : EdgeD) (hk1 : k1 ≠ []) (hlen : e1.len ≠ NIL ∨ e2.len ≠ NIL)
    (hsum : max0 e1.len + max0 e2.len = e.len) :
    edgeKeys all (unroot (.node dr pr [(e1, .node d1 p1 k1), (e2, .node d2 p2 k2)])) =
      edgeKeys all (.node d1 p1' (k1 ++ [(e, .node d2 p2 k2)])) :=
  unroot_rooting_keys all dr d1 d2 pr p1 p2 p1' k1 k2 e e1 e2 hk1 hlen hsum

/-- The same when the first child of the root is a tip (a tip hanging off the root). -/
theorem rooting_tip_independent (all : List String) (dr d1 d2 : NodeD) (pr p1 p2 p2' p1' : Nat) (k2 : Kids)
    (e e1 e2 : EdgeD) (hlen : e1.len ≠ NIL ∨ e2.len ≠ NIL)
    (hsum : max0 e1.len + max0 e2.len = e.len) :
    edgeKeys all (unroot (.node dr pr [(e1, .node d1 p1 []), (e2, .node d2 p2 k2)])) =
      edgeKeys all (.node d2 p2' (k2 ++ [(e, .node d1 p1' [])])) :=
  unroot_rooting_tip_keys all dr d1 d2 pr p1 p2 p2' p1' k2 e e1 e2 hlen hsum

/- the hypotheses of `reroot_independent` hold on the first example tree, for its tip index -/
example : 3 ≤ exU1.kids.length ∧ (leavesL exU1.kids).Nodup ∧
    ∀ x ∈ univOf exColl, x ∈ leavesL exU1.kids := by decide +kernel
example : (moveRoot exU1 0).tipNames = ["a", "b", "c", "d", "e"] := by decide +kernel

/-! ### differing taxa -/

/-- A collection in which some tree has other tips than the first one is rejected
    (`norm` = single-child nodes removed, then unrooted; all trees with unique tip names
    and a root of degree ≥ 2 also after `norm`). -/
theorem different_taxa_err (ord : List Entry → List Entry) (t : T) (r : List T) (c : Rat)
    (hc : 1/2 ≤ c ∧ c ≤ 1)
    (hdeg : ∀ u ∈ t :: r, 2 ≤ u.kids.length ∧ 2 ≤ (norm u).kids.length)
    (hnd : ∀ u ∈ t :: r, (norm u).tipNames.Nodup)
    (hdiff : ∃ u ∈ r, ¬ (norm u).tipNames.Perm (norm t).tipNames) :
    consensus ord (t :: r) c = .err "taxa" := by
  unfold consensus consensusG consensusCore
  rw [map_rerootTip_of_deg (t :: r) (fun u hu => (hdeg u hu).1)]
  have h1 : (decide (c < 1/2) || decide (c > 1)) = false := by
    simp only [Bool.or_eq_false_iff, decide_eq_false_iff_not, Rat.not_lt]
    exact ⟨hc.1, hc.2⟩
  have h2 : ((t :: r).any fun t => decide (t.kids.length < 2)) = false := by
    simp only [List.any_eq_false, decide_eq_true_eq, Nat.not_lt]
    exact fun u hu => (hdeg u hu).1
  rw [if_neg (by simp [h1]), if_neg (by simp [h2])]
  have hpt : ∀ u ∈ t :: r, prep true true u = norm u := fun _ _ => rfl
  have hdupF : ∀ u ∈ t :: r, dupTips (prep true true u) = false := by
    intro u hu
    rw [hpt u hu]; unfold dupTips
    exact (hasDup_false_iff _).2 (hnd u hu)
  have hat : ∀ u ∈ t :: r, allTipNames (norm u) = (norm u).tipNames := by
    intro u hu
    apply allTipNames_eq
    have := (hdeg u hu).2
    omega
  -- the first tree has at least two tip branches
  have hfirst : 2 ≤ ((norm t).splits.filter (·.tip)).length := by
    have h3 := tipSplitsL (norm t).kids
    have h4 : (norm t).tipNames = leavesL (norm t).kids := by
      rw [← hat t (by simp)]; unfold allTipNames
      have : ((norm t).kids.length == 1) = false := by
        have := (hdeg t (by simp)).2
        simp; omega
      simp [this]
    have h5 : ((norm t).splits.filter (·.tip)).length = (leavesL (norm t).kids).length := by
      rw [← h3, List.length_map]; rfl
    rw [h5]
    have := leavesL_len (norm t).kids
    have := (hdeg t (by simp)).2
    omega
  rw [countAll]
  have hd0 := hdupF t (by simp)
  simp only [hd0, Bool.false_eq_true, if_false]
  rw [if_neg (by rw [hpt t (by simp)]; omega)]
  have hstar : (starOf (prep true true t)).tipNames = (norm t).tipNames := by
    rw [hpt t (by simp), starOf_tipNames _ hfirst, ← hat t (by simp)]
    unfold allTipNames
    have : ((norm t).kids.length == 1) = false := by
      have := (hdeg t (by simp)).2
      simp; omega
    simp [this]
  have : countRest true true (prep true true t) (allTipNames (prep true true t)) (sortN (prep true true t).tipNames) r
      (addTree (sortN (prep true true t).tipNames) [] (prep true true t)) 1 = .error "taxa" := by
    apply countRest_taxa
    · exact fun u hu => hdupF u (by simp [hu])
    · obtain ⟨u, hu, hnp⟩ := hdiff
      refine ⟨u, hu, ?_⟩
      rw [hstar, hpt u (by simp [hu]), hpt t (by simp)]
      rw [hat u (by simp [hu]), hat t (by simp)]
      apply Classical.byContradiction
      intro hcon
      rw [not_or] at hcon
      have hA : ((norm u).tipNames.length != (norm t).tipNames.length) = false := by
        simpa using hcon.1
      have hB : ((norm u).tipNames.all fun a => (norm t).tipNames.contains a) = true := by
        have := hcon.2; simpa using this
      have hlen : (norm u).tipNames.length = (norm t).tipNames.length := by simpa using hA
      have hsub' : (norm u).tipNames ⊆ (norm t).tipNames := fun a ha => by
        have := List.all_eq_true.1 hB a ha; simpa using this
      have hback := sub_of_length (hnd u (by simp [hu])) hsub' (by omega)
      apply hnp
      rw [List.perm_ext_iff_of_nodup (hnd u (by simp [hu])) (hnd t (by simp))]
      exact fun a => ⟨fun h => hsub' h, fun h => hback h⟩
  rw [this]

/-! ### the consensus tree has exactly the selected rows as branches -/

/-- `consensus_splits`, for rows that are pairwise compatible (`selOK`, a `Bool`
    the driver evaluates on every valid case: every selected row is a tip branch or
    has two tips on each side, no two rows have the same side, the inner ones are
    pairwise compatible and different).  Then `Consensus` succeeds and in its result
    `r` (`LoopInv`): every branch is a tip branch or an inner branch whose side is a
    side of a selected inner row and that carries exactly that row's
    `(len/count, count/n)` — which are the mean length and the frequency by
    `length_eq_mean` / `support_eq_freq`, and the selected rows are those with
    frequency above the threshold or in every tree by `selected_exact`; every
    selected inner row has its branch; every tip branch of a selected tip row has
    the row's mean length; the leaves are those of the first tree. -/
theorem consensus_splits (ord : List Entry → List Entry) (ts : List T) (c : Rat)
    (hc : 1/2 ≤ c ∧ c ≤ 1) (hdeg : ∀ t ∈ ts, 2 ≤ t.kids.length)
    (cn : Counted) (hcn : countAll true true ts = .ok (some cn)) (hdeg1 : 2 ≤ cn.first.kids.length)
    (hsel : selOK (starOf cn.first).tipNames cn.alltips (selected ord ts c) = true) :
    ∃ r, consensus ord ts c = .ok r ∧
      LoopInv (starOf cn.first).tipNames r
        (innerRows cn.alltips ts.length (selected ord ts c)) (tipRows cn.alltips (selected ord ts c)) := by
  obtain ⟨_, _, _, hfirst, halt, hnd, h2⟩ := countAll_index ts cn hcn
  obtain ⟨r, hr, inv⟩ := consensus_loop cn.first cn.alltips ts.length (selected ord ts c) hnd hdeg1 h2
    (by rw [halt, hfirst]) hsel
  refine ⟨r, ?_, inv⟩
  rw [consensus_inserts_selected ord ts c hc hdeg cn hcn, hr]

/- the hypotheses hold on the example collection (majority rule: two inner rows) -/
example : (match countAll true true exColl with
    | .ok (some cn) => decide (2 ≤ cn.first.kids.length) &&
        selOK (starOf cn.first).tipNames cn.alltips (selected id exColl (1/2))
    | _ => false) = true := by decide +kernel
example : (match countAll true true exColl with
    | .ok (some cn) => innerRows cn.alltips exColl.length (selected id exColl (1/2))
    | _ => []) = [(["a", "b"], 2, 2/3), (["d", "e"], 1, 1)] := by decide +kernel

/-! ### ★★ the full statement on the property's domain -/

/-- With a threshold in `[1/2, 1]`, the rows selected from a collection of the
    domain are pairwise compatible (two bipartitions each in more than half of the
    trees share a tree, whose clades are nested or disjoint): `selOK` holds. -/
theorem selected_compatible (ord : List Entry → List Entry) (hord : ∀ l, (ord l).Perm l) (ts : List T) (c : Rat)
    (hc : 1/2 ≤ c ∧ c ≤ 1) (hdom : domB ts = true) :
    selOK (leavesL (norm ts.head!).kids) (leavesL (norm ts.head!).kids) (selected ord ts c) = true :=
  selOK_of_dom ord hord ts c hc (dom_of_domB ts hdom)

/-- ★★ `Consensus` on a collection of the property's domain (`domB`: non-empty, after
    `norm` every root of degree ≥ 3, no single-child inner node, unique leaves, the
    same leaves in every tree) and a threshold in `[1/2, 1]`, for every
    iteration order `ord` of the hash map: it succeeds, and in the result `r`
    * every branch is a tip branch, or an inner branch whose side is a side of a row
      `x` of the index with `c < freq x ∨ count x = n`, carrying the mean length and
      the frequency of `x`;
    * every such row with at least two tips on its stored side has its inner branch;
    * the tip branch of every such row with one tip has the row's mean length;
    * the leaves are the leaves of the first tree;
    * there are exactly as many inner branches as selected rows with two tips on their
      stored side (no bipartition twice, none missing). -/
theorem consensus_exact (ord : List Entry → List Entry) (hord : ∀ l, (ord l).Perm l) (ts : List T) (c : Rat)
    (hc : 1/2 ≤ c ∧ c ≤ 1) (hdom : domB ts = true) :
    ∃ r, consensus ord ts c = .ok r ∧
      (∀ s ∈ r.splits, (∃ a, s.below = [a]) ∨
        (s.tip = false ∧ ∃ x ∈ index ts, (c < freq ts x.key ∨ count ts x.key = ts.length) ∧
          2 ≤ (rowNames (leavesL (norm ts.head!).kids) x).length ∧
          SameSide (leavesL (norm ts.head!).kids) s.below (rowNames (leavesL (norm ts.head!).kids) x) ∧
          s.e.len = meanLen ts x.key ∧ s.e.sup = freq ts x.key)) ∧
      (∀ x ∈ index ts, (c < freq ts x.key ∨ count ts x.key = ts.length) →
        2 ≤ (rowNames (leavesL (norm ts.head!).kids) x).length →
        ∃ s ∈ r.splits, s.tip = false ∧
          SameSide (leavesL (norm ts.head!).kids) s.below (rowNames (leavesL (norm ts.head!).kids) x) ∧
          s.e.len = meanLen ts x.key ∧ s.e.sup = freq ts x.key) ∧
      (∀ x ∈ index ts, (c < freq ts x.key ∨ count ts x.key = ts.length) →
        ∀ a, rowNames (leavesL (norm ts.head!).kids) x = [a] →
        ∀ s ∈ r.splits, s.below = [a] → s.tip = true → s.e.len = meanLen ts x.key) ∧
      (leavesL r.kids).Perm (leavesL (norm ts.head!).kids) ∧
      ni r.splits = ((selected ord ts c).filter fun x =>
        decide (2 ≤ (rowNames (leavesL (norm ts.head!).kids) x).length)).length := by
  have hd := dom_of_domB ts hdom
  have hdeg := deg_of_domB ts hdom
  obtain ⟨cn, hcn⟩ := countAll_of_dom ts hd
  obtain ⟨hne, _, _, hfirst, halt, hnd, h2⟩ := countAll_index ts cn hcn
  have hfm : norm ts.head! ∈ trees ts := by
    cases ts with
    | nil => exact absurd rfl hne
    | cons a b => exact List.mem_map.2 ⟨a, by simp, rfl⟩
  have h3 := hd.deg _ hfm
  have htips : (starOf cn.first).tipNames = leavesL (norm ts.head!).kids := by
    rw [starOf_tipNames cn.first h2, hfirst]
  have halltips : cn.alltips = leavesL (norm ts.head!).kids := by
    rw [halt, allTipNames_eq _ (by omega), tipNames_eq_leaves _ (by omega)]
  have hsel := selOK_of_dom ord hord ts c hc hd
  obtain ⟨r, hr, inv⟩ := consensus_splits ord ts c hc hdeg cn hcn (by rw [hfirst]; omega)
    (by rw [htips, halltips]; exact hsel)
  rw [htips, halltips] at inv
  have hnr := hd.norepeat
  have hsx := selected_exact ord hord ts hne c hc hnr
  have hcount := inner_count _ _ ts.length (selected ord ts c) r _ (fun a h => h) hsel inv
  refine ⟨r, hr, ?_, ?_, ?_, inv.perm, by rw [hcount]; unfold innerRows; rw [List.length_map]⟩
  · intro s hs
    rcases inv.j1 s hs with h | ⟨htip, p, hp, hss, hl, hsu⟩
    · exact Or.inl h
    · right
      obtain ⟨x, hx, hx2, rfl⟩ := mem_innerRows.1 hp
      obtain ⟨hxi, hxs⟩ := (hsx x).1 hx
      exact ⟨htip, x, hxi, hxs, hx2, hss, by rw [hl]; exact length_eq_mean ts hnr x hxi,
        by rw [hsu]; exact support_eq_freq ts hnr x hxi⟩
  · intro x hxi hxs h2x
    have hx := (hsx x).2 ⟨hxi, hxs⟩
    obtain ⟨s, hs, htip, hss, hl, hsu⟩ := inv.j2 _ (mem_innerRows.2 ⟨x, hx, h2x, rfl⟩)
    exact ⟨s, hs, htip, hss, by rw [hl]; exact length_eq_mean ts hnr x hxi,
      by rw [hsu]; exact support_eq_freq ts hnr x hxi⟩
  · intro x hxi hxs a ha s hs hb htip
    have hx := (hsx x).2 ⟨hxi, hxs⟩
    have := inv.j3 _ (mem_tipRows_of hx ha) s hs hb htip
    rw [this]; exact length_eq_mean ts hnr x hxi

/- the example collection is in the domain -/
example : domB exColl = true := by decide +kernel
/- … and so is the collection with single-child inner nodes (they are removed by `norm`) -/
example : domB exSingle = true ∧ ¬ (∀ t ∈ exSingle, okBelowL t.kids = true) := by decide +kernel

/-! ### the consensus does not depend on the presentation of the collection -/

/-- Two collections of the domain, with as many trees, whose flattened branch lists are
    equivalent (`LEq`: the same bipartitions with the same lengths — which holds when
    the trees are permuted (`flatMap_perm`), or correspond one to one (`flat_LEq`) with
    their children reordered (`child_order_independent`), their root moved
    (`reroot_independent`) or placed on a branch (`rooting_independent`)), over the
    same tip index: both
    runs succeed, with any bucket orders, and every inner branch of one result has a
    counterpart in the other on the same bipartition with the same length and the
    same support. -/
theorem consensus_presentation_independent (ord ord' : List Entry → List Entry)
    (hord : ∀ l, (ord l).Perm l) (hord' : ∀ l, (ord' l).Perm l) (ts ts' : List T) (c : Rat)
    (hc : 1/2 ≤ c ∧ c ≤ 1) (hdom : domB ts = true) (hdom' : domB ts' = true)
    (hu : univOf ts' = univOf ts) (hlen : ts.length = ts'.length)
    (hE : LEq (univOf ts) ((trees ts).flatMap (edgeKeys (univOf ts)))
      ((trees ts').flatMap (edgeKeys (univOf ts)))) :
    ∃ r r', consensus ord ts c = .ok r ∧ consensus ord' ts' c = .ok r' ∧
      ∀ s ∈ r.splits, (∀ a, s.below ≠ [a]) →
        ∃ s' ∈ r'.splits, s'.tip = false ∧
          SameSide (leavesL (norm ts.head!).kids) s'.below s.below ∧
          s'.e.len = s.e.len ∧ s'.e.sup = s.e.sup := by
  obtain ⟨r, hr, P1, _, _, _, _⟩ := consensus_exact ord hord ts c hc hdom
  obtain ⟨r', hr', _, P2', _, _, _⟩ := consensus_exact ord' hord' ts' c hc hdom'
  refine ⟨r, r', hr, hr', ?_⟩
  have hd := dom_of_domB ts hdom
  have hd' := dom_of_domB ts' hdom'
  obtain ⟨t0, rest, rfl⟩ : ∃ t0 rest, ts = t0 :: rest := by
    cases ts with
    | nil => exact absurd rfl hd.ne
    | cons a b => exact ⟨a, b, rfl⟩
  obtain ⟨t0', rest', rfl⟩ : ∃ t0 rest, ts' = t0 :: rest := by
    cases ts' with
    | nil => exact absurd rfl hd'.ne
    | cons a b => exact ⟨a, b, rfl⟩
  have hf : norm t0 ∈ trees (t0 :: rest) := List.mem_map.2 ⟨t0, by simp, rfl⟩
  have hf' : norm t0' ∈ trees (t0' :: rest') := List.mem_map.2 ⟨t0', by simp, rfl⟩
  have h3 := hd.deg _ hf
  have h3' := hd'.deg _ hf'
  show ∀ s ∈ r.splits, (∀ a, s.below ≠ [a]) → ∃ s' ∈ r'.splits, s'.tip = false ∧
      SameSide (leavesL (norm t0).kids) s'.below s.below ∧ s'.e.len = s.e.len ∧ s'.e.sup = s.e.sup
  have e0 : (t0 :: rest).head! = t0 := rfl
  have e0' : (t0' :: rest').head! = t0' := rfl
  rw [e0] at P1
  rw [e0'] at P2'
  generalize htips : leavesL (norm t0).kids = tips at *
  generalize htips' : leavesL (norm t0').kids = tips' at *
  have hT : tips.Nodup := by rw [← htips]; exact hd.nodup _ hf
  have hT' : tips'.Nodup := by rw [← htips']; exact hd'.nodup _ hf'
  have hun : univOf (t0 :: rest) = sortN tips := by
    show sortN (norm t0).tipNames = _
    rw [tipNames_eq_leaves _ (by omega), htips]
  have hun' : univOf (t0' :: rest') = sortN tips' := by
    show sortN (norm t0').tipNames = _
    rw [tipNames_eq_leaves _ (by omega), htips']
  have hut : ∀ a, a ∈ univOf (t0 :: rest) ↔ a ∈ tips := fun a => by rw [hun]; exact (sortN_perm _).mem_iff
  have hut' : ∀ a, a ∈ univOf (t0 :: rest) ↔ a ∈ tips' := fun a => by
    rw [← hu, hun']; exact (sortN_perm _).mem_iff
  have hmm : ∀ a, a ∈ tips ↔ a ∈ tips' := fun a => (hut a).symm.trans (hut' a)
  have hperm : tips.Perm tips' := (List.perm_ext_iff_of_nodup hT hT').2 hmm
  have hn : (t0 :: rest).length = (t0' :: rest').length := hlen
  have hnr := hd.norepeat
  have hnr' := hd'.norepeat
  have hsel := selected_compatible ord hord (t0 :: rest) c hc hdom
  rw [e0, htips] at hsel
  intro s hs hns
  rcases P1 s hs with ⟨a, ha⟩ | ⟨_, x, hx, hxs, hx2, hss, hl, hsu⟩
  · exact absurd ha (hns a)
  · -- the corresponding row of the other index
    have hidx' : index (t0' :: rest') = buildIdx (univOf (t0 :: rest)) (trees (t0' :: rest')) := by
      unfold index; rw [hu]
    obtain ⟨y, hy, hye, hyc, hyl⟩ := count_presentation_independent_flat (univOf (t0 :: rest))
      (trees (t0 :: rest)) (trees (t0' :: rest')) hE x hx
    rw [← hidx'] at hy
    have fx := support_eq_freq _ hnr x hx
    have fy := support_eq_freq _ hnr' y hy
    have mx := length_eq_mean _ hnr x hx
    have my := length_eq_mean _ hnr' y hy
    have cx := (index_is_frequency_table _ hnr x hx).1
    have cy := (index_is_frequency_table _ hnr' y hy).1
    have hfreq : freq (t0' :: rest') y.key = freq (t0 :: rest) x.key := by
      rw [← fx, ← fy, hyc, hn]
    have hmean : meanLen (t0' :: rest') y.key = meanLen (t0 :: rest) x.key := by
      rw [← mx, ← my, hyc, hyl]
    have hsely : c < freq (t0' :: rest') y.key ∨ count (t0' :: rest') y.key = (t0' :: rest').length := by
      rcases hxs with h | h
      · exact Or.inl (by rw [hfreq]; exact h)
      · exact Or.inr (by rw [← cy, hyc, cx, h, hn])
    -- sizes
    have hxsel : x ∈ selected ord (t0 :: rest) c := (selected_exact ord hord _ (by simp) c hc hnr x).2 ⟨hx, hxs⟩
    have hxN : (rowNames tips x).length + 2 ≤ tips.length := by
      unfold selOK at hsel
      simp only [Bool.and_eq_true, List.all_eq_true] at hsel
      have := hsel.1.1 (rowNames tips x) (List.mem_map.2 ⟨x, hxsel, rfl⟩)
      simp only [Bool.or_eq_true, beq_iff_eq, Bool.and_eq_true, decide_eq_true_eq] at this
      rcases this with h | h
      · omega
      · exact h.2
    have kx : IsKey (univOf (t0 :: rest)) x.key := (buildIdx_inv _ _).keys x hx
    have hYX : SameSide tips' (rowNames tips' y) (rowNames tips' x) :=
      rowNames_sameSide hut' x y ((eqc_iff _ _ _).1 hye)
    have hlenx : (rowNames tips' x).length = (rowNames tips x).length := (rowNames_perm hperm x).length_eq.symm
    have hy2 : 2 ≤ (rowNames tips' y).length := by
      have : (rowNames tips' y).length = (rowNames tips' x).length ∨
          (rowNames tips' y).length + (rowNames tips' x).length = tips'.length :=
        sameSide_length hT' (hT'.filter _) (hT'.filter _)
          (fun a ha => (List.mem_filter.1 ha).1) (fun a ha => (List.mem_filter.1 ha).1) hYX
      have hNN : tips'.length = tips.length := hperm.length_eq.symm
      rw [hlenx, hNN] at this
      omega
    obtain ⟨s', hs', htip', hss', hl', hsu'⟩ := P2' y hy hsely hy2
    refine ⟨s', hs', htip', ?_, by rw [hl', hl, hmean], by rw [hsu', hsu, hfreq]⟩
    -- compose the sides
    have e1 : SameSide tips s'.below (rowNames tips' y) := SameSide.of_mem_iff (fun a => (hmm a).symm) hss'
    have e2 : SameSide tips (rowNames tips' y) (rowNames tips' x) := SameSide.of_mem_iff (fun a => (hmm a).symm) hYX
    have e3 : SameSide tips (rowNames tips' x) (rowNames tips x) :=
      Or.inl fun a _ => (rowNames_perm hperm x).mem_iff.symm
    exact (e1.trans' e2).trans' (e3.trans' hss.symm')

/-- In particular the order of the trees does not matter: for a permutation `ts'` of
    `ts` both runs succeed and every inner branch of one result has a counterpart in
    the other on the same bipartition, with the same length and the same support. -/
theorem consensus_order_independent (ord ord' : List Entry → List Entry)
    (hord : ∀ l, (ord l).Perm l) (hord' : ∀ l, (ord' l).Perm l) (ts ts' : List T) (hp : ts.Perm ts') (c : Rat)
    (hc : 1/2 ≤ c ∧ c ≤ 1) (hdom : domB ts = true) (hdom' : domB ts' = true) :
    ∃ r r', consensus ord ts c = .ok r ∧ consensus ord' ts' c = .ok r' ∧
      ∀ s ∈ r.splits, (∀ a, s.below ≠ [a]) →
        ∃ s' ∈ r'.splits, s'.tip = false ∧
          SameSide (leavesL (norm ts.head!).kids) s'.below s.below ∧
          s'.e.len = s.e.len ∧ s'.e.sup = s.e.sup := by
  have hd := dom_of_domB ts hdom
  have hd' := dom_of_domB ts' hdom'
  have hu : univOf ts' = univOf ts := by
    cases ts with
    | nil => exact absurd rfl hd.ne
    | cons t0 r =>
      cases ts' with
      | nil => exact absurd rfl hd'.ne
      | cons t0' r' =>
        have hm : norm t0' ∈ trees (t0 :: r) :=
          List.mem_map.2 ⟨t0', hp.mem_iff.2 (by simp), rfl⟩
        have hf : norm t0 ∈ trees (t0 :: r) := List.mem_map.2 ⟨t0, by simp, rfl⟩
        have hf' : norm t0' ∈ trees (t0' :: r') := List.mem_map.2 ⟨t0', by simp, rfl⟩
        have h3 := hd.deg _ hf
        have h3' := hd'.deg _ hf'
        show sortN (norm t0').tipNames = sortN (norm t0).tipNames
        rw [tipNames_eq_leaves _ (by omega), tipNames_eq_leaves _ (by omega)]
        exact sortN_eq_of_perm (hd.same _ hm)
  exact consensus_presentation_independent ord ord' hord hord' ts ts' c hc hdom hdom' hu hp.length_eq
    (LEq.of_perm (flatMap_perm _ (hp.map norm)))

/-! ### the theorems' table is the Spec's table (the oracle's) -/

/-- Bridge to the Spec the oracle evaluates: on the domain, the number of trees
    whose `T.usplitsAll` (Spec/Splits.lean) contains the canonical side of a set of
    tips `k` is the model-side count of the bitset of `k` (branch lists of the
    normed trees, up to complement). -/
theorem spec_count_bridge (ts : List T) (hdom : domB ts = true) (k : List String) (hk : k.Nodup) :
    C09S.count ts (canonSide (C09S.taxa ts) k) = count ts (bits (univOf ts) k) := by
  obtain ⟨h1, h2, h3, h4, h5⟩ := bridge_hyps_norm ts (dom_of_domB ts hdom)
  exact spec_count_eq_norm ts k hk h1 h2 h3 h4 h5

/-- … in particular for the rows of the index: the Spec's count and frequency of
    the canonical side of a row are the row's `count` and `freq` of
    `selected_exact` / `consensus_exact`. -/
theorem spec_row_bridge (ts : List T) (hdom : domB ts = true) (x : Entry) (hx : x ∈ index ts) :
    C09S.count ts (canonSide (C09S.taxa ts) x.key) = count ts x.key ∧
    C09S.freq ts (canonSide (C09S.taxa ts) x.key) = freq ts x.key := by
  have hkey : IsKey (univOf ts) x.key := (buildIdx_inv _ _).keys x hx
  have hb : bits (univOf ts) x.key = x.key := (isKey_eq_filter hkey).symm
  have hd := dom_of_domB ts hdom
  have hund : (univOf ts).Nodup := by
    cases ts with
    | nil => exact absurd rfl hd.ne
    | cons t0 r =>
      have hf : norm t0 ∈ trees (t0 :: r) := List.mem_map.2 ⟨t0, by simp, rfl⟩
      have h3 := hd.deg _ hf
      have : univOf (t0 :: r) = sortN (leavesL (norm t0).kids) := by
        show sortN (norm t0).tipNames = _
        rw [tipNames_eq_leaves _ (by omega)]
      rw [this]
      exact (sortN_perm _).nodup_iff.2 (hd.nodup _ hf)
  have hk : x.key.Nodup := by rw [isKey_eq_filter hkey]; exact hund.filter _
  have hc := spec_count_bridge ts hdom x.key hk
  rw [hb] at hc
  exact ⟨hc, by unfold C09S.freq freq; rw [hc]⟩

/-- The same for the lengths: when every branch length is absent or non-negative
    (`lensOK`), the Spec's length sum and mean length of the canonical side of a row
    are the row's `lenM` and `meanLen`.  (For a rooted input, and around a single-child
    node, the Spec fuses the branches of one bipartition with `fuseLen`, the code adds
    them with the `max(0,·)` rule of `UnRoot` / `RemoveSingleNodes`.) -/
theorem spec_len_bridge (ts : List T) (hdom : domB ts = true) (hl : lensOK ts = true) (x : Entry)
    (hx : x ∈ index ts) :
    C09S.lenSum ts (canonSide (C09S.taxa ts) x.key) = lenM (univOf ts) (trees ts) x.key ∧
    C09S.meanLen ts (canonSide (C09S.taxa ts) x.key) = meanLen ts x.key := by
  have hkey : IsKey (univOf ts) x.key := (buildIdx_inv _ _).keys x hx
  have hb : bits (univOf ts) x.key = x.key := (isKey_eq_filter hkey).symm
  have hd := dom_of_domB ts hdom
  obtain ⟨h1, h2, h3, h4, h5⟩ := bridge_hyps_norm ts hd
  have hund : (univOf ts).Nodup := by
    cases ts with
    | nil => exact absurd rfl hd.ne
    | cons t0 r =>
      have hf : norm t0 ∈ trees (t0 :: r) := List.mem_map.2 ⟨t0, by simp, rfl⟩
      have h3 := hd.deg _ hf
      have : univOf (t0 :: r) = sortN (leavesL (norm t0).kids) := by
        show sortN (norm t0).tipNames = _
        rw [tipNames_eq_leaves _ (by omega)]
      rw [this]
      exact (sortN_perm _).nodup_iff.2 (hd.nodup _ hf)
  have hk : x.key.Nodup := by rw [isKey_eq_filter hkey]; exact hund.filter _
  have hs := spec_lenSum_eq_norm ts x.key hk h1 h2 h3 h4 h5 hd.norepeat hl
  rw [hb] at hs
  refine ⟨hs, ?_⟩
  unfold C09S.meanLen meanLen
  rw [hs, (spec_row_bridge ts hdom x hx).1]

/-- ★★ `consensus_exact` in the Spec's own terms (the quantities the oracle
    evaluates on the implementation's output): on the domain — single-child inner
    nodes and rooted inputs included — every inner branch of the model's consensus is
    a side of a row whose canonical side `cs` satisfies the Spec's selection rule
    `C09S.isSelected ts c cs`, and it carries `C09S.freq ts cs` as support and
    `C09S.meanLen ts cs` as length (lengths absent or ≥ 0); every row selected by the
    Spec's rule with two tips on its stored side has its branch. -/
theorem consensus_exact_spec (ord : List Entry → List Entry) (hord : ∀ l, (ord l).Perm l) (ts : List T) (c : Rat)
    (hc : 1/2 ≤ c ∧ c ≤ 1) (hdom : domB ts = true) (hl : lensOK ts = true) :
    ∃ r, consensus ord ts c = .ok r ∧
      (∀ s ∈ r.splits, (∃ a, s.below = [a]) ∨
        (s.tip = false ∧ ∃ x ∈ index ts,
          C09S.isSelected ts c (canonSide (C09S.taxa ts) x.key) = true ∧
          SameSide (leavesL (norm ts.head!).kids) s.below (rowNames (leavesL (norm ts.head!).kids) x) ∧
          s.e.len = C09S.meanLen ts (canonSide (C09S.taxa ts) x.key) ∧
          s.e.sup = C09S.freq ts (canonSide (C09S.taxa ts) x.key))) ∧
      (∀ x ∈ index ts, C09S.isSelected ts c (canonSide (C09S.taxa ts) x.key) = true →
        2 ≤ (rowNames (leavesL (norm ts.head!).kids) x).length →
        ∃ s ∈ r.splits, s.tip = false ∧
          SameSide (leavesL (norm ts.head!).kids) s.below (rowNames (leavesL (norm ts.head!).kids) x) ∧
          s.e.len = C09S.meanLen ts (canonSide (C09S.taxa ts) x.key) ∧
          s.e.sup = C09S.freq ts (canonSide (C09S.taxa ts) x.key)) := by
  obtain ⟨r, hr, P1, P2, _, _, _⟩ := consensus_exact ord hord ts c hc hdom
  have hsel : ∀ x ∈ index ts, (C09S.isSelected ts c (canonSide (C09S.taxa ts) x.key) = true ↔
      (c < freq ts x.key ∨ count ts x.key = ts.length)) := by
    intro x hx
    obtain ⟨h1, h2⟩ := spec_row_bridge ts hdom x hx
    unfold C09S.isSelected
    rw [h1, h2]
    simp
  refine ⟨r, hr, ?_, ?_⟩
  · intro s hs
    rcases P1 s hs with h | ⟨htip, x, hx, hxs, _, hss, hlen, hsup⟩
    · exact Or.inl h
    · right
      refine ⟨htip, x, hx, (hsel x hx).2 hxs, hss, ?_, ?_⟩
      · rw [hlen, (spec_len_bridge ts hdom hl x hx).2]
      · rw [hsup, (spec_row_bridge ts hdom x hx).2]
  · intro x hx hxs h2
    obtain ⟨s, hs, htip, hss, hlen, hsup⟩ := P2 x hx ((hsel x hx).1 hxs) h2
    refine ⟨s, hs, htip, hss, ?_, ?_⟩
    · rw [hlen, (spec_len_bridge ts hdom hl x hx).2]
    · rw [hsup, (spec_row_bridge ts hdom x hx).2]

example : lensOK exColl = true ∧ lensOK exSingle = true := by decide +kernel

/- a collection with a differing taxon (e renamed z in the second tree) is rejected -/
example : (consensus id [exU1, exRoot [exInner 1 [exTip "a" 1, exTip "b" 1], exTip "c" 2,
    exInner (1/2) [exTip "d" 1, exTip "z" 3]]] (1/2)).cls = "err" := by decide +kernel
example : (consensus id exColl (3/2)).cls = "err" ∧ (consensus id exColl (1/4)).cls = "err" := by decide +kernel

/-! ### the hypotheses are satisfiable on a non-trivial collection; concrete values -/

/- rooted and normed, binary and multifurcating, a tip hanging off the root -/
example : exColl.map (·.rooted) = [false, true, true] := by decide +kernel
example : noRepeat exColl = true := by decide +kernel
example : ∀ u ∈ exColl, 2 ≤ u.kids.length ∧ 2 ≤ (norm u).kids.length := by decide +kernel
example : ∀ u ∈ exColl, (norm u).tipNames.Nodup := by decide +kernel
/- de|abc is in all three trees, ab|cde in two of them: the majority consensus has both,
   the strict one and the one at threshold 2/3 (frequency = threshold) only the first -/
example : outValues (consensus id exColl (1/2)) =
    some [(["a", "b"], 2/3, 2), (["d", "e"], 1, 1)] := by decide +kernel
example : outSplits (consensus id exColl (2/3)) = some [["d", "e"]] := by decide +kernel
example : outSplits (consensus id exColl 1) = some [["d", "e"]] := by decide +kernel

/-! ### F34 (repaired by 8466f11): the pinned variant drops a split present in every rooted tree -/

/-- On three rooted trees `((a,b),(c,d))` the model of the code before the fix
    (rooted inputs not normed: both root branches counted, count 6 > 3) loses
    the bipartition ab|cd, which the repaired code keeps with support 1 and the
    mean of the fused root-branch lengths (3 + 1 + 4)/3. -/
theorem root_split_pinned_fails :
    outSplits (consensusPinned id exF34 1) = some [] ∧
    outValues (consensus id exF34 1) = some [(["c", "d"], 1, 8/3)] := by decide +kernel

/-! ### insertion of one bipartition (the `consensus_splits` fallback, DESIGN Appendix F)

Full statement, NOT proved (checked per case by the oracle `splitsOK`/`supportsOK`/`lengthsOK`):

    theorem consensus_splits (ord) (hord : ∀ l, (ord l).Perm l) (ts) (c) (hc : 1/2 ≤ c ∧ c ≤ 1) (hdom : domain ts)
        (r) (h : consensus ord ts c = .ok r) :
        usplitSet r = {k ∈ index ts | c < freq ts k ∨ count ts k = ts.length}   (with their support and mean length)

What is missing: the composition over the loop — the selected bipartitions are pairwise
compatible (pigeonhole on trees), so no insertion is refused or fails, and the `IsNew`
branch of each step is the bipartition of the row.  Proved below: what ONE insertion
does to any tree with unique tips. -/

/-- One run of `insertSplit names len sup` (LeastCommonAncestorUnrooted + the checks of
    Consensus + AddBipartition) that succeeds: every branch of the tree is still there
    with the same tips below, length, support and kind (`Keeps`); every branch of the
    result is one of those or is new, and a new branch carries exactly `(len, sup)`,
    joins two inner nodes, and has below it either exactly the tips of `names` or
    `n - |names|` tips none of which is in `names` (i.e. the complementary side); the
    leaves are unchanged; at most one inner branch more. -/
theorem consensus_splits_partial (names : List String) (len sup : Rat) (t t' : T)
    (hnd : t.tipNames.Nodup) (hdeg : t.kids.length ≠ 1) (hn : names.Nodup)
    (h : insertSplit names len sup t = .ok t') :
    Keeps t.splits t'.splits ∧
    (∀ s' ∈ t'.splits, Old t.splits s' ∨
      IsNew (names.filter t.tipNames.contains) (names.filter t.tipNames.contains).length
        t.tipNames.length len sup s') ∧
    (leavesL t'.kids).Perm (leavesL t.kids) ∧ (2 ≤ t.kids.length → 2 ≤ t'.kids.length) ∧
    ni t'.splits ≤ ni t.splits + 1 :=
  insertSplit_spec names len sup t t' hnd hdeg hn h

/-- The tip-length update of the loop (`t.br[0].SetLength(mean)`) changes the length
    of the tip branch of `a` and nothing else in the split list. -/
theorem tip_length_update (a : String) (v : Rat) (t : T) :
    (setTipLen a v t).splits = t.splits.map (setLenEntry a v) :=
  setTipLen_splits a v t

/- the hypotheses are satisfiable and the insertion does create the branch: de|abc into the
   star tree of the first example tree, then ab|cde (stored as its root side) into the result -/
example : (starOf (unroot exU1)).tipNames.Nodup ∧ (starOf (unroot exU1)).kids.length ≠ 1 := by decide +kernel
example : (match insertSplit ["d", "e"] 1 1 (starOf (unroot exU1)) with
    | .ok r => (r.splits.filter (!·.tip)).map (fun s => (s.below, s.e.len, s.e.sup))
    | .error _ => []) = [(["d", "e"], 1, 1)] := by decide +kernel
example : (match insertSplit ["d", "e"] 1 1 (starOf (unroot exU1)) with
    | .ok r => (match insertSplit ["c", "d", "e"] 2 (2/3) r with
      | .ok r' => (r'.splits.filter (!·.tip)).map (fun s => (s.below, s.e.len, s.e.sup))
      | .error _ => [])
    | .error _ => []) = [(["c", "d", "e"], 2, 2/3), (["d", "e"], 1, 1)] := by decide +kernel

/-! ### single-child inner nodes (repaired by 5dad91e): the pinned variant counts both branches -/

/-- On two trees `(((a,b):_):2,c,d)` with a single-child node above the clade `(a,b)`,
    the model of the code before the fix (single-child nodes kept: the two branches
    around the node are both counted, count 4 > 2) loses the bipartition ab|cd, which
    the repaired code keeps with support 1 and the mean of the added lengths
    ((1+2) + (3+2))/2. -/
theorem single_child_pinned_fails :
    outSplits (consensusPinnedSingles id exSingle (1/2)) = some [] ∧
    outValues (consensus id exSingle (1/2)) = some [(["a", "b"], 1, 4)] := by decide +kernel

/-! ### ★★★ the Spec oracle holds of the model's output -/

/-- The three Spec predicates the driver evaluates on the *implementation's* output
    (`C09S.splitsOK`, `supportsOK`, `lengthsOK`: the result read through `T.usplits` /
    `T.usplitsAll` of Spec/Splits.lean) are theorems of the *model's* output: on the domain
    (`domB`, rooted inputs and single-child nodes included), lengths absent or ≥ 0, threshold
    in `[1/2, 1]`, any bucket order, the model of `Consensus` succeeds and its tree has the
    taxa of the collection, its non-trivial unrooted splits are exactly the Spec's selected
    splits (`expectedSplits`), each with the Spec's frequency as support and the Spec's mean
    length, and every tip branch has the Spec's mean length.  `keysOK` (the printing by which
    `canonSet` sorts distinguishes the sides; it fails only for names containing ", ") is
    needed for the literal list equality in `splitsOK`. -/
theorem consensus_meets_oracle (ord : List Entry → List Entry) (hord : ∀ l, (ord l).Perm l) (ts : List T) (c : Rat)
    (hc : 1/2 ≤ c ∧ c ≤ 1) (hdom : domB ts = true) (hl : lensOK ts = true) (hkeys : C09S.keysOK ts = true) :
    ∃ r, consensus ord ts c = .ok r ∧
      C09S.splitsOK ts c r = true ∧ C09S.supportsOK ts r = true ∧ C09S.lengthsOK ts r = true := by
  have hd := dom_of_domB ts hdom
  have hdeg := deg_of_domB ts hdom
  obtain ⟨cn, hcn⟩ := countAll_of_dom ts hd
  obtain ⟨hne, _, _, hfirst, halt, hnd, h2⟩ := countAll_index ts cn hcn
  have hfm : norm ts.head! ∈ trees ts := by
    cases ts with
    | nil => exact absurd rfl hne
    | cons a b => exact List.mem_map.2 ⟨a, by simp, rfl⟩
  have h3 := hd.deg _ hfm
  have htips : (starOf cn.first).tipNames = leavesL (norm ts.head!).kids := by
    rw [starOf_tipNames cn.first h2, hfirst]
  have halltips : cn.alltips = leavesL (norm ts.head!).kids := by
    rw [halt, allTipNames_eq _ (by omega), tipNames_eq_leaves _ (by omega)]
  have hsel := selOK_of_dom ord hord ts c hc hd
  obtain ⟨r, hr, inv⟩ := consensus_splits ord ts c hc hdeg cn hcn (by rw [hfirst]; omega)
    (by rw [htips, halltips]; exact hsel)
  rw [htips, halltips] at inv
  have hnr := hd.norepeat
  have hsx := selected_exact ord hord ts hne c hc hnr
  have hcount := inner_count _ _ ts.length (selected ord ts c) r _ (fun a h => h) hsel inv
  refine ⟨r, hr, ?_⟩
  -- the tips
  generalize htd : leavesL (norm ts.head!).kids = tips at *
  have hT : tips.Nodup := by rw [← htd]; exact hd.nodup _ hfm
  have hN3 : 3 ≤ tips.length := by
    rw [← htd]; have := leavesL_len (norm ts.head!).kids; omega
  obtain ⟨b1, b2, b3, b4, b5⟩ := bridge_hyps_norm ts hd
  have hun : univOf ts = sortN tips := by
    cases ts with
    | nil => exact absurd rfl hne
    | cons t0 rest =>
      show sortN (norm t0).tipNames = _
      rw [tipNames_eq_leaves _ (by exact Nat.le_trans (by omega) h3)]
      exact congrArg sortN htd
  have hut : ∀ a, a ∈ univOf ts ↔ a ∈ tips := fun a => by rw [hun]; exact (sortN_perm _).mem_iff
  have htaxa : (C09S.taxa ts).Perm tips :=
    (List.perm_ext_iff_of_nodup b5 hT).2 fun a => (b4 a).symm.trans (hut a)
  have hund : (univOf ts).Nodup := by rw [hun]; exact (sortN_perm _).nodup_iff.2 hT
  have inv_idx := buildIdx_inv (univOf ts) (trees ts)
  have keyNodup : ∀ x ∈ index ts, x.key.Nodup := fun x hx => by
    rw [isKey_eq_filter (inv_idx.keys x hx)]; exact hund.filter _
  have selIff : ∀ x ∈ index ts, (C09S.isSelected ts c (canonSide (C09S.taxa ts) x.key) = true ↔
      (c < freq ts x.key ∨ count ts x.key = ts.length)) := by
    intro x hx
    obtain ⟨h1, h2⟩ := spec_row_bridge ts hdom x hx
    unfold C09S.isSelected
    rw [h1, h2]
    simp
  have sameLeaves : ∀ u ∈ trees ts, ∀ a, a ∈ leavesL u.kids ↔ a ∈ tips := fun u hu a => by
    rw [← htd]; exact (hd.same u hu).mem_iff
  apply oracle_of_inv ts c tips ts.length (selected ord ts c) r hT hN3 htaxa inv hcount hsel
  · -- rowSpec
    intro x hx
    obtain ⟨hxi, hxs⟩ := (hsx x).1 hx
    refine ⟨keyNodup x hxi, (selIff x hxi).2 hxs, ?_, ?_, ?_⟩
    · rw [support_eq_freq ts hnr x hxi, (spec_row_bridge ts hdom x hxi).2]
    · rw [length_eq_mean ts hnr x hxi, (spec_len_bridge ts hdom hl x hxi).2]
    · -- the canonical side occurs in some tree
      have hc1 := (spec_row_bridge ts hdom x hxi).1
      have hpos := (index_is_frequency_table ts hnr x hxi).2.2
      rw [(index_is_frequency_table ts hnr x hxi).1, ← hc1] at hpos
      unfold C09S.count at hpos
      obtain ⟨t, ht⟩ := List.exists_mem_of_length_pos hpos
      obtain ⟨ht1, ht2⟩ := List.mem_filter.1 ht
      rw [List.any_eq_true] at ht2
      obtain ⟨u, hu, hue⟩ := ht2
      unfold C09S.allSides
      rw [List.mem_eraseDups, List.mem_flatMap]
      exact ⟨t, ht1, List.mem_map.2 ⟨u, hu, by simpa using hue⟩⟩
  · -- rowComplete
    intro a ha hsa
    unfold C09S.allSides at ha
    rw [List.mem_eraseDups, List.mem_flatMap] at ha
    obtain ⟨t, ht, hta⟩ := ha
    obtain ⟨u, hu, rfl⟩ := List.mem_map.1 hta
    obtain ⟨s0, hs0, hs0e⟩ := (usplitsAll_any t u.side).1 (List.any_eq_true.2 ⟨u, hu, by simp⟩)
    have htn := b1 t ht
    have hmem := b3 t ht
    have hbip : HasBip t.tipNames t.splits s0.below := ⟨s0, hs0, Or.inl fun _ _ => Iff.rfl⟩
    obtain ⟨s1, hs1, hss1⟩ := (hasBip_norm t s0.below htn).1 hbip
    obtain ⟨x, hx, hxe⟩ := (index_complete ts).1 (norm t) (List.mem_map.2 ⟨t, ht, rfl⟩)
      (bits (univOf ts) s1.below, s1.e.len) (by
        unfold edgeKeys; exact List.mem_map.2 ⟨s1, hs1, rfl⟩)
    have hmu : ∀ a, a ∈ t.tipNames ↔ a ∈ univOf ts := fun a => (hmem a).trans (b4 a).symm
    have hkx := keyNodup x hx
    have hb : bits (univOf ts) x.key = x.key := (isKey_eq_filter (inv_idx.keys x hx)).symm
    have hs0nd : s0.below.Nodup := (below_sublist_L t.kids s0 hs0).nodup (leavesL_nodup_of_tipNames htn)
    have hs1u : SameSide (univOf ts) s1.below x.key := by
      have := (eqc_iff _ _ _).1 hxe
      rw [← hb] at this
      exact (eqc_bits_iff _ _ _).1 this
    have hcs : canonSide (C09S.taxa ts) x.key = u.side := by
      rw [← hs0e]
      have htp : t.tipNames.Perm (C09S.taxa ts) := (List.perm_ext_iff_of_nodup htn b5).2 hmem
      rw [canonSide_perm_all htp]
      have hne' : C09S.taxa ts ≠ [] := by
        intro h; rw [h] at htaxa; have := htaxa.length_eq; simp at this; omega
      rw [canonSide_eq_iff _ _ _ _ b5 b5 (fun _ => Iff.rfl) hne' hkx hs0nd]
      have h1 : SameSide (C09S.taxa ts) s1.below x.key := SameSide.of_mem_iff b4 hs1u
      have h2 : SameSide (C09S.taxa ts) s1.below s0.below := SameSide.of_mem_iff hmem hss1
      exact h1.symm'.trans' h2
    refine ⟨x, (hsx x).2 ⟨hx, (selIff x hx).1 (by rw [hcs]; exact hsa)⟩, hcs⟩
  · -- tipRow
    intro a ha
    obtain ⟨s0, hs0, hs0b⟩ := leaf_entry (norm ts.head!).kids a (by rw [htd]; exact ha)
    obtain ⟨x, hx, hxe⟩ := (index_complete ts).1 (norm ts.head!) hfm
      (bits (univOf ts) s0.below, s0.e.len) (by unfold edgeKeys; exact List.mem_map.2 ⟨s0, hs0, rfl⟩)
    rw [hs0b] at hxe
    -- the tip branch is in every tree
    have hcnt : count ts x.key = ts.length := by
      unfold count countM
      have hlen : (trees ts).length = ts.length := by simp [trees]
      rw [← hlen, List.countP_eq_length]
      intro u hu
      obtain ⟨s, hs, hsb⟩ := leaf_entry u.kids a ((sameLeaves u hu a).2 ha)
      rw [hasSplit_iff]
      exact ⟨s, hs, by rw [hsb]; exact (eqc_iff _ _ _).1 hxe⟩
    have hxsel : x ∈ selected ord ts c := (hsx x).2 ⟨hx, Or.inr hcnt⟩
    refine ⟨x, hxsel, ?_⟩
    have hss : SameSide tips (rowNames tips x) [a] := names_sameSide hut ((eqc_iff _ _ _).1 hxe)
    have hsz : (rowNames tips x).length = 1 := by
      have hsl : (rowNames tips x).length = [a].length ∨ (rowNames tips x).length + [a].length = tips.length :=
        sameSide_length hT (by simp : [a].Nodup) (hT.filter _ : (rowNames tips x).Nodup)
          (fun y hy => by simp only [List.mem_singleton] at hy; subst hy; exact ha)
          (fun y hy => (List.mem_filter.1 hy).1) hss
      simp only [List.length_singleton] at hsl
      have hso := hsel
      unfold selOK at hso
      simp only [Bool.and_eq_true, List.all_eq_true] at hso
      have := hso.1.1 (rowNames tips x) (List.mem_map.2 ⟨x, hxsel, rfl⟩)
      simp only [Bool.or_eq_true, beq_iff_eq, Bool.and_eq_true, decide_eq_true_eq] at this
      rcases this with h | h
      · exact h
      · omega
    obtain ⟨b, hb⟩ := List.length_eq_one_iff.1 hsz
    rw [hb] at hss ⊢
    have hbin : b ∈ tips := by
      have : b ∈ rowNames tips x := by rw [hb]; simp
      exact (List.mem_filter.1 this).1
    rw [sameSide_singletons hN3 hT hbin hss]
  · exact hkeys


/-! ### rooting: moves of the root along arbitrary paths -/

/-- The consensus of another presentation `ts'` of the collection `ts` — tree by tree the
    same tips and the same unrooted split map `T.usplitsAll` (`SameU`) — meets the Spec of
    `ts`: the same non-trivial splits, supports and lengths (as the oracle reads them). -/
theorem consensus_presentation_meets_oracle (ord' : List Entry → List Entry) (hord' : ∀ l, (ord' l).Perm l)
    (ts ts' : List T) (c : Rat) (hc : 1/2 ≤ c ∧ c ≤ 1) (hsame : F2 SameU ts ts')
    (hdom' : domB ts' = true) (hl' : lensOK ts' = true)
    (hkeys : C09S.keysOK ts = true) (hkeys' : C09S.keysOK ts' = true) :
    ∃ r', consensus ord' ts' c = .ok r' ∧
      C09S.splitsOK ts c r' = true ∧ C09S.supportsOK ts r' = true ∧ C09S.lengthsOK ts r' = true := by
  obtain ⟨r', hr', ho⟩ := consensus_meets_oracle ord' hord' ts' c hc hdom' hl' hkeys'
  exact ⟨r', hr', oracle_congr hsame c r' hkeys ho⟩

/-- Root moves along arbitrary paths: if every tree of `ts'` is `Reroot` (C05's model: a
    fold of `moveRoot` along a child-index path) of the corresponding tree of `ts`, the
    consensus of `ts'` meets the Spec of `ts`. -/
theorem consensus_reroot_independent (ord' : List Entry → List Entry) (hord' : ∀ l, (ord' l).Perm l)
    (ts ts' : List T) (c : Rat) (hc : 1/2 ≤ c ∧ c ≤ 1)
    (hre : F2 (fun t t' => t.tipNames.Nodup ∧ LensGood t.splits ∧ ∃ p, C05.reroot t p = .ok t') ts ts')
    (hdom' : domB ts' = true) (hl' : lensOK ts' = true)
    (hkeys : C09S.keysOK ts = true) (hkeys' : C09S.keysOK ts' = true) :
    ∃ r', consensus ord' ts' c = .ok r' ∧
      C09S.splitsOK ts c r' = true ∧ C09S.supportsOK ts r' = true ∧ C09S.lengthsOK ts r' = true := by
  have hs : F2 SameU ts ts' := by
    clear hdom' hl' hkeys hkeys'
    induction hre with
    | nil => exact F2.nil
    | cons h _ ih =>
      obtain ⟨hu, hg, p, hp⟩ := h
      exact F2.cons (reroot_usplitsAll _ _ p hu hg hp) ih
  exact consensus_presentation_meets_oracle ord' hord' ts ts' c hc hs hdom' hl' hkeys hkeys'


/-! ### input trees rooted at a tip (5a3a76a) -/

/-- `Consensus` first moves a tip root to its neighbour: the consensus of a collection is the
    consensus of the collection so re-rooted (`rerootTip` is the identity on every tree whose
    root has two neighbours or more, and idempotent). -/
theorem consensus_tip_root (ord : List Entry → List Entry) (ts : List T) (c : Rat) :
    consensus ord ts c = consensus ord (ts.map rerootTip) c := by
  unfold consensus consensusG
  rw [List.map_map]
  have : ts.map (rerootTip ∘ rerootTip) = ts.map rerootTip :=
    List.map_congr_left fun t _ => rerootTip_idem t
  rw [this]

/-- Tip-rooted inputs meet the Spec: if the collection re-rooted at the neighbours of its tip
    roots is in the domain, the consensus of the collection *as given* has exactly the Spec's
    selected splits of the collection as given (tip root counted as a taxon), with the Spec's
    supports and lengths. -/
theorem consensus_tip_rooted_meets_oracle (ord : List Entry → List Entry) (hord : ∀ l, (ord l).Perm l)
    (ts : List T) (c : Rat) (hc : 1/2 ≤ c ∧ c ≤ 1)
    (hu : ∀ t ∈ ts, t.tipNames.Nodup ∧ LensGood t.splits)
    (hdom : domB (ts.map rerootTip) = true) (hl : lensOK (ts.map rerootTip) = true)
    (hkeys : C09S.keysOK ts = true) (hkeys' : C09S.keysOK (ts.map rerootTip) = true) :
    ∃ r, consensus ord ts c = .ok r ∧
      C09S.splitsOK ts c r = true ∧ C09S.supportsOK ts r = true ∧ C09S.lengthsOK ts r = true := by
  have hs : F2 SameU ts (ts.map rerootTip) := by
    clear hdom hl hkeys hkeys'
    induction ts with
    | nil => exact F2.nil
    | cons a l ih =>
      exact F2.cons (rerootTip_sameU a (hu a (by simp)).1 (hu a (by simp)).2)
        (ih fun t ht => hu t (by simp [ht]))
  rw [consensus_tip_root]
  exact consensus_presentation_meets_oracle ord hord ts _ c hc hs hdom hl hkeys hkeys'

/-- A witness: two trees rooted at the tip `a` are accepted (before 5a3a76a the first one alone
    was rejected, "No tip named a in the index"); the clade (d,e) has support 1 and the mean
    length (1+3)/2, and the branch of the former root `a` the mean length (2+4)/2. -/
theorem tip_rooted_accepted :
    outValues (consensus id exTipRoot (1/2)) = some [(["d", "e"], 1, 2)] ∧
    (match consensus id exTipRoot (1/2) with
     | .ok r => (r.splits.filter (·.tip)).map (fun s => (s.below, s.e.len))
     | _ => []) = [(["a"], 3), (["b"], 1), (["c"], 1), (["d"], 1), (["e"], 2)] := by decide +kernel


/-! ### the float64 product of the threshold (tree/algo.go:353) -/

/-- The repaired cut `m := int(c*float64(n)); if FMA(c, n, -m) < 0 { m-- }` is the exact `⌊c·n⌋`
    for every rounding of the product that is monotone and fixes the integers (float64
    round-to-nearest below 2^53 is one). -/
theorem fma_cut_exact (rnd : Rat → Rat) (hmono : ∀ a b : Rat, a ≤ b → rnd a ≤ rnd b)
    (hint : ∀ k : Int, rnd (k : Rat) = (k : Rat)) (c : Rat) (n : Nat) (hc : 0 ≤ c) :
    fmaCutG rnd c n = floorCut c n :=
  fmaCutG_eq_floorCut rnd hmono hint c n hc

/-- … hence `Consensus` with the repaired cut is the `consensus` of the theorems. -/
theorem consensus_fma_cut (rnd : Rat → Rat) (hmono : ∀ a b : Rat, a ≤ b → rnd a ≤ rnd b)
    (hint : ∀ k : Int, rnd (k : Rat) = (k : Rat)) (ord : List Entry → List Entry) (ts : List T) (c : Rat) :
    consensusCut (fmaCutG rnd) ord ts c = consensus ord ts c := by
  unfold consensusCut consensus consensusG
  by_cases hr : (decide (c < 1/2) || decide (c > 1)) = true
  · rw [if_pos hr, if_pos hr]
  · rw [if_neg hr, if_neg hr]
    have hc : 0 ≤ c := by
      simp only [Bool.or_eq_true, decide_eq_true_eq, not_or, Rat.not_lt] at hr
      grind
    unfold consensusCoreCut consensusCore
    simp only [fmaCutG_eq_floorCut rnd hmono hint c _ hc]
    rfl

/-- `consensusCut floorCut` (the driver's tie model is `consensusCut cutNow`) is `consensus`. -/
theorem consensusCut_floorCut (ord : List Entry → List Entry) (ts : List T) (c : Rat) :
    consensusCut floorCut ord ts c = consensus ord ts c := rfl

/-- The defect: with the threshold `fl(2/3) = 6004799503160661/2^53 < 2/3` and three trees, the
    float64 product rounds up to 2 (exact floor 1, repaired cut 1); the bipartition ab|cde, in two
    of the three trees (frequency 2/3 > threshold), is not in the consensus computed with the
    float64 cut, and is in the consensus with the exact cut. -/
theorem float_product_pinned_fails :
    floatCut exFloatC 3 = 2 ∧ floorCut exFloatC 3 = 1 ∧ fmaCut exFloatC 3 = 1 ∧ exFloatC < 2/3 ∧
    outSplits (consensusFloat id exFloat exFloatC) = some [["d", "e"]] ∧
    outSplits (consensus id exFloat exFloatC) = some [["a", "b"], ["d", "e"]] := by decide +kernel

/-- The length clause the driver evaluates split by split (`lengthsOKWhereDefined`) follows from
    the clause `consensus_meets_oracle` proves (`lengthsOK`). -/
theorem oracle_lengths_where_defined (ts : List T) (r : T) (h : C09S.lengthsOK ts r = true) :
    C09S.lengthsOKWhereDefined ts r = true := lengthsOK_whereDefined ts r h

/-! ### the cut of the code as it is, with the driver's own float64 rounding -/

/-- `cutNow` — the float64 product rounded by `roundF64` (the rounding the driver runs and checks
    against Go's arithmetic on every case), truncated and corrected with the exact sign of
    `c·n - m` — is the exact `⌊c·n⌋` for thresholds in `[0, 1]` and fewer than 2^52 trees. -/
theorem cutNow_exact (c : Rat) (n : Nat) (hc0 : 0 ≤ c) (hc1 : c ≤ 1) (hn : n < 4503599627370496) :
    cutNow c n = floorCut c n := fmaCut_eq_floorCut c n hc0 hc1 hn

/-- The driver's tie model `consensusNow` (= `consensusCut cutNow`) IS the `consensus` of the
    theorems, for every collection of fewer than 2^52 trees. -/
theorem consensusNow_eq_consensus (ord : List Entry → List Entry) (ts : List T) (c : Rat)
    (hn : ts.length < 4503599627370496) : consensusNow ord ts c = consensus ord ts c := by
  unfold consensusNow consensusCut consensus consensusG
  by_cases hr : (decide (c < 1/2) || decide (c > 1)) = true
  · rw [if_pos hr, if_pos hr]
  · rw [if_neg hr, if_neg hr]
    have hc : 0 ≤ c ∧ c ≤ 1 := by
      simp only [Bool.or_eq_true, decide_eq_true_eq, not_or, Rat.not_lt] at hr
      constructor <;> grind
    unfold consensusCoreCut consensusCore
    by_cases ha : ((ts.map rerootTip).any fun t => decide (t.kids.length < 2)) = true
    · rw [if_pos ha, if_pos ha]
    · rw [if_neg ha, if_neg ha]
      cases hca : countAll true true (ts.map rerootTip) with
      | error w => rfl
      | ok o =>
        cases o with
        | none => rfl
        | some cn =>
          have hcn := (countAll_index _ cn hca).2.1
          rw [List.length_map] at hcn
          simp only [cutNow_exact c cn.n hc.1 hc.2 (by omega)]
          rfl

/-! ### thresholds that are not finite numbers (def0221) -/

/-- A finite threshold: `consensusThr` is `consensus`. -/
theorem consensusThr_fin (ord : List Entry → List Entry) (ts : List T) (c : Rat)
    (hn : ts.length < 4503599627370496) : consensusThr ord ts (.fin c) = consensus ord ts c :=
  consensusNow_eq_consensus ord ts c hn

/-- NaN and ±Inf are rejected with the range error, whatever the collection. -/
theorem nonfinite_threshold_rejected (ord : List Entry → List Entry) (ts : List T) :
    consensusThr ord ts .nan = .err "range" ∧ ∀ b, consensusThr ord ts (.inf b) = .err "range" :=
  ⟨rfl, fun _ => rfl⟩

/-- The defect repaired by def0221: with the check `cutoff < 0.5 || cutoff > 1` a NaN threshold
    passes, every row of the index is selected; on three copies of `((a,b),c,d)` the call
    succeeded (with the split ab|cd) instead of being rejected. -/
theorem nan_threshold_pinned_fails :
    outValues (consensusThrPinnedNaN id [exNaN, exNaN, exNaN] .nan) = some [(["a", "b"], 1, 1)] ∧
    (consensusThr id [exNaN, exNaN, exNaN] .nan).cls = "err" := by decide +kernel

example : (0 : Rat) ≤ exFloatC ∧ exFloatC ≤ 1 ∧ (3 : Nat) < 4503599627370496 ∧
    cutNow exFloatC 3 = 1 ∧ floatCut exFloatC 3 = 2 := by decide +kernel
example : exColl.length < 4503599627370496 := by decide

/-! ### the hypotheses of the round-2 theorems are satisfiable -/

-- `consensus_meets_oracle` on `exColl` (three trees, rooted and unrooted, five taxa)
example : domB exColl = true ∧ lensOK exColl = true := by decide +kernel
example : C09S.keysOK exColl = true := keysOK_of_sidesN _ (by decide +kernel)
-- `consensus_reroot_independent`: `exCollRe` = `exColl` re-rooted along the paths [0], [1], [1,0]
example : F2 (fun t t' => t.tipNames.Nodup ∧ LensGood t.splits ∧ ∃ p, C05.reroot t p = .ok t') exColl exCollRe :=
  exCollRe_hyp
example : domB exCollRe = true ∧ lensOK exCollRe = true := by decide +kernel
example : C09S.keysOK exCollRe = true := keysOK_of_sidesN _ (by decide +kernel)
example : exCollRe.map (fun t => (t.kids.length, t.tipNames)) =
    [(3, ["c", "d", "e", "a", "b"]), (3, ["b", "a", "c", "e", "d"]), (3, ["c", "b", "a", "d", "e"])] := by decide +kernel
-- `consensus_presentation_meets_oracle`: the same pair of collections
example : F2 SameU exColl exCollRe := by
  have h := exCollRe_hyp
  generalize exColl = a at h
  generalize exCollRe = b at h
  induction h with
  | nil => exact F2.nil
  | cons h _ ih =>
    obtain ⟨hu, hg, p, hp⟩ := h
    exact F2.cons (reroot_usplitsAll _ _ p hu hg hp) ih
-- `consensus_tip_rooted_meets_oracle` on `exTipRoot` (two trees rooted at the tip `a`)
example : (∀ t ∈ exTipRoot, t.tipNames.Nodup ∧ LensGood t.splits) := fun t ht =>
  ⟨by revert t; decide +kernel, lensGood_of_lensOK exTipRoot (by decide +kernel) t ht⟩
example : domB (exTipRoot.map rerootTip) = true ∧ lensOK (exTipRoot.map rerootTip) = true := by decide +kernel
example : C09S.keysOK exTipRoot = true := keysOK_of_sidesN _ (by decide +kernel)
example : C09S.keysOK (exTipRoot.map rerootTip) = true := keysOK_of_sidesN _ (by decide +kernel)

/-! ### round 7: the channel with error records (tree/algo.go:284-290) -/

/-- A channel that only holds trees: `consensusItems` is the tie model `consensusNow`
    (hence `consensus` below 2^52 trees, `consensusNow_eq_consensus`). -/
theorem consensusItems_trees (ord : List Entry → List Entry) (ts : List T) (c : Rat) :
    consensusItems ord (ts.map Item.tree) c = consensusNow ord ts c := by
  unfold consensusItems consensusItemsCut consensusNow consensusCut
  rw [splitItems_trees]

/-- A channel holding an error record never yields a consensus tree, whatever the trees, the
    threshold and the place of the record. -/
theorem consensusItems_bad_never_ok (ord : List Entry → List Entry) (items : List Item) (c : Rat)
    (h : items.any Item.isBad = true) : ∀ r, consensusItems ord items c ≠ .ok r := by
  intro r
  obtain ⟨ts, m, e⟩ := splitItems_some_of_bad items h
  unfold consensusItems consensusItemsCut
  rw [e]
  by_cases hr : (decide (c < 1/2) || decide (c > 1)) = true
  · rw [if_pos hr]; intro h; cases h
  · rw [if_neg hr]
    simp only
    split
    · intro h; cases h
    · split <;> (intro h; cases h)

/-- On the property's domain (or when the record comes first) the error returned is the error of
    the FIRST error record, whatever follows it in the channel. -/
theorem consensusItems_input_err (ord : List Entry → List Entry) (pre : List T) (m : String)
    (rest : List Item) (c : Rat) (hc : 1/2 ≤ c ∧ c ≤ 1) (hdom : pre = [] ∨ domB pre = true) :
    consensusItems ord (pre.map Item.tree ++ Item.bad m :: rest) c = .err ("input:" ++ m) := by
  unfold consensusItems consensusItemsCut
  rw [splitItems_append_bad]
  have h1 : (decide (c < 1/2) || decide (c > 1)) = false := by
    simp only [Bool.or_eq_false_iff, decide_eq_false_iff_not, Rat.not_lt]
    exact ⟨hc.1, hc.2⟩
  rw [if_neg (by simp [h1])]
  simp only
  rcases hdom with rfl | hdom
  · rfl
  · have hdeg := deg_of_domB pre hdom
    rw [map_rerootTip_of_deg pre hdeg]
    have h2 : (pre.any fun t => decide (t.kids.length < 2)) = false := by
      simp only [List.any_eq_false, decide_eq_true_eq, Nat.not_lt]
      exact hdeg
    rw [if_neg (by simp [h2])]
    obtain ⟨cn, hcn⟩ := countAll_of_dom pre (dom_of_domB pre hdom)
    rw [hcn]

/-- Negative witness: a variant that skips error records (`continue` instead of `return`) answers
    with the consensus of the readable trees — accepted where the code and the property reject. -/
theorem skip_bad_items_wrong :
    (consensusItemsSkip id (exColl.map Item.tree ++ [Item.bad "unreadable"]) (1/2)).cls = "ok" ∧
    consensusItems id (exColl.map Item.tree ++ [Item.bad "unreadable"]) (1/2) = .err "input:unreadable" ∧
    consensusItems id (Item.bad "unreadable" :: exColl.map Item.tree) (1/2) = .err "input:unreadable" :=
  ⟨by decide +kernel, consensusItems_input_err id exColl _ [] _ (by decide +kernel) (Or.inr (by decide +kernel)),
   consensusItems_input_err id [] _ _ _ (by decide +kernel) (Or.inl rfl)⟩

/- the hypotheses are satisfiable: `exColl` is in the domain, an error record in the middle -/
example : consensusItems id ((exColl.take 2).map Item.tree ++ Item.bad "e" :: (exColl.drop 2).map Item.tree) (2/3)
    = .err "input:e" :=
  consensusItems_input_err id _ _ _ _ (by decide +kernel) (Or.inr (by decide +kernel))
example : consumedItems (exColl.map Item.tree ++ [Item.bad "unreadable"]) (1/2) = 4 ∧
    consumedItems (exColl.map Item.tree) (1/4) = 0 := by decide +kernel

/-! ### round 7: the first obstacle in channel order decides -/

/-- The first obstacle in channel order decides: a tree with other tips than the first one, placed in
    front of the first error record, gives the taxa error, not the record's (hypotheses of
    `different_taxa_err` on the trees in front of the record). -/
theorem consensusItems_taxa_before_record (ord : List Entry → List Entry) (t : T) (r : List T) (m : String)
    (rest : List Item) (c : Rat) (hc : 1/2 ≤ c ∧ c ≤ 1)
    (hdeg : ∀ u ∈ t :: r, 2 ≤ u.kids.length ∧ 2 ≤ (norm u).kids.length)
    (hnd : ∀ u ∈ t :: r, (norm u).tipNames.Nodup)
    (hdiff : ∃ u ∈ r, ¬ (norm u).tipNames.Perm (norm t).tipNames) :
    consensusItems ord ((t :: r).map Item.tree ++ Item.bad m :: rest) c = .err "taxa" := by
  unfold consensusItems consensusItemsCut
  rw [splitItems_append_bad]
  simp only
  rw [map_rerootTip_of_deg (t :: r) (fun u hu => (hdeg u hu).1)]
  have h1 : (decide (c < 1/2) || decide (c > 1)) = false := by
    simp only [Bool.or_eq_false_iff, decide_eq_false_iff_not, Rat.not_lt]
    exact ⟨hc.1, hc.2⟩
  have h2 : ((t :: r).any fun t => decide (t.kids.length < 2)) = false := by
    simp only [List.any_eq_false, decide_eq_true_eq, Nat.not_lt]
    exact fun u hu => (hdeg u hu).1
  rw [if_neg (by simp [h1]), if_neg (by simp [h2])]
  have hpt : ∀ u ∈ t :: r, prep true true u = norm u := fun _ _ => rfl
  have hdupF : ∀ u ∈ t :: r, dupTips (prep true true u) = false := by
    intro u hu
    rw [hpt u hu]; unfold dupTips
    exact (hasDup_false_iff _).2 (hnd u hu)
  have hat : ∀ u ∈ t :: r, allTipNames (norm u) = (norm u).tipNames := by
    intro u hu
    apply allTipNames_eq
    have := (hdeg u hu).2
    omega
  -- the first tree has at least two tip branches
  have hfirst : 2 ≤ ((norm t).splits.filter (·.tip)).length := by
    have h3 := tipSplitsL (norm t).kids
    have h4 : (norm t).tipNames = leavesL (norm t).kids := by
      rw [← hat t (by simp)]; unfold allTipNames
      have : ((norm t).kids.length == 1) = false := by
        have := (hdeg t (by simp)).2
        simp; omega
      simp [this]
    have h5 : ((norm t).splits.filter (·.tip)).length = (leavesL (norm t).kids).length := by
      rw [← h3, List.length_map]; rfl
    rw [h5]
    have := leavesL_len (norm t).kids
    have := (hdeg t (by simp)).2
    omega
  rw [countAll]
  have hd0 := hdupF t (by simp)
  simp only [hd0, Bool.false_eq_true, if_false]
  rw [if_neg (by rw [hpt t (by simp)]; omega)]
  have hstar : (starOf (prep true true t)).tipNames = (norm t).tipNames := by
    rw [hpt t (by simp), starOf_tipNames _ hfirst, ← hat t (by simp)]
    unfold allTipNames
    have : ((norm t).kids.length == 1) = false := by
      have := (hdeg t (by simp)).2
      simp; omega
    simp [this]
  have : countRest true true (prep true true t) (allTipNames (prep true true t)) (sortN (prep true true t).tipNames) r
      (addTree (sortN (prep true true t).tipNames) [] (prep true true t)) 1 = .error "taxa" := by
    apply countRest_taxa
    · exact fun u hu => hdupF u (by simp [hu])
    · obtain ⟨u, hu, hnp⟩ := hdiff
      refine ⟨u, hu, ?_⟩
      rw [hstar, hpt u (by simp [hu]), hpt t (by simp)]
      rw [hat u (by simp [hu]), hat t (by simp)]
      apply Classical.byContradiction
      intro hcon
      rw [not_or] at hcon
      have hA : ((norm u).tipNames.length != (norm t).tipNames.length) = false := by
        simpa using hcon.1
      have hB : ((norm u).tipNames.all fun a => (norm t).tipNames.contains a) = true := by
        have := hcon.2; simpa using this
      have hlen : (norm u).tipNames.length = (norm t).tipNames.length := by simpa using hA
      have hsub' : (norm u).tipNames ⊆ (norm t).tipNames := fun a ha => by
        have := List.all_eq_true.1 hB a ha; simpa using this
      have hback := sub_of_length (hnd u (by simp [hu])) hsub' (by omega)
      apply hnp
      rw [List.perm_ext_iff_of_nodup (hnd u (by simp [hu])) (hnd t (by simp))]
      exact fun a => ⟨fun h => hsub' h, fun h => hback h⟩
  rw [this]


/-! ### round 7b: how much of the channel `Consensus` has read when it returns -/

/-- A threshold outside [1/2, 1]: nothing is taken from the channel. -/
theorem consumedItems_range (items : List Item) (c : Rat) (h : c < 1/2 ∨ c > 1) :
    consumedItems items c = 0 := by
  unfold consumedItems
  rw [if_pos (by simpa using h)]

/-- In the domain every item is taken from the channel: on a clean run (only trees), and when an
    error record follows trees of the domain (or comes first) — the drain loop — whatever stands
    behind the record. -/
theorem consumedItems_all (pre : List T) (c : Rat) (hc : 1/2 ≤ c ∧ c ≤ 1) (hdom : pre = [] ∨ domB pre = true) :
    consumedItems (pre.map Item.tree) c = pre.length ∧
    ∀ m rest, consumedItems (pre.map Item.tree ++ Item.bad m :: rest) c = pre.length + 1 + rest.length := by
  have h1 : (decide (c < 1/2) || decide (c > 1)) = false := by
    simp only [Bool.or_eq_false_iff, decide_eq_false_iff_not, Rat.not_lt]
    exact ⟨hc.1, hc.2⟩
  have hfr : firstRefused (pre.map rerootTip) = none := by
    rcases hdom with rfl | hdom
    · rfl
    · rw [map_rerootTip_of_deg pre (deg_of_domB pre hdom)]
      exact firstRefused_none_of_dom pre (dom_of_domB pre hdom)
  constructor
  · unfold consumedItems
    rw [if_neg (by simp [h1]), splitItems_trees]
    simp only [hfr, List.length_map]
  · intro m rest
    unfold consumedItems
    rw [if_neg (by simp [h1]), splitItems_append_bad]
    simp only [hfr, List.length_append, List.length_map, List.length_cons]
    omega

example : consumedItems (exColl.map Item.tree) (1/2) = 3 :=
  (consumedItems_all exColl _ (by decide +kernel) (Or.inr (by decide +kernel))).1

/-! ### round 7b: the text written by cmd/consensus.go -/

/-- The Newick text of a consensus (`consensus id [exU1, exU1] (1/2)`, text `(c:2,(a:1,b:1)1:1,(d:1,e:3)1:0.5);`), read back by the lexer the
    driver applies to the command's output, gives the writer's tokens; a text with another child
    order, a missing support or another length does not agree. -/
theorem newick_text_witness :
    (match consensus id [exU1, exU1] (1/2) with
     | .ok m =>
       C09L.showToks (C09L.newickToks m) == "(c:2,(a:1,b:1)1:1,(d:1,e:3)1:0.5);" &&
       C09L.lexNewick (C09L.showToks (C09L.newickToks m)) == C09L.newickToks m &&
       C09L.textAgrees (C09L.showToks (C09L.newickToks m)) m &&
       !C09L.textAgrees (C09L.showToks (C09L.newickToks m).reverse) m &&
       !C09L.textAgrees (C09L.showToks ((C09L.newickToks m).filter fun t => match t with | .sup _ => false | _ => true)) m
     | _ => false) = true := by decide +kernel

end Gotree.C09
