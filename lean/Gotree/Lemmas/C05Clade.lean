/-
  C05 — from `outgroup_clade` to the Spec predicate `cladeOK` that the oracle evaluates.
-/
import Gotree.Lemmas.C05Restr

namespace Gotree.C05
open Gotree

/-- the split lists before and after cutting a branch by a new root -/
theorem cutAt_splits (t u : T) (r : Nat) (ea eb : EdgeD) (aFirst : Bool) (e : EdgeD) (c : T)
    (hk : t.kids[r]? = some (e, c)) (h : cutAt t r ea eb aFirst = some u) :
    ∃ rest : List SplitE,
      t.splits.Perm (⟨c.leaves, e, c.isLeaf⟩ :: rest) ∧
      u.splits.Perm (⟨(oldRoot t r).leaves, ea, (oldRoot t r).isLeaf⟩ :: ⟨c.leaves, eb, c.isLeaf⟩ :: rest) ∧
      u.tipNames.Perm t.tipNames := by
  rw [cutAt_eq t r ea eb aFirst e c hk] at h
  have hu := (Option.some.inj h).symm
  clear h
  obtain ⟨q1, _⟩ := moveRoot_tipNames_split t r e c hk
  obtain ⟨rest, p1, _⟩ := moveRoot_splits_perm t r e c hk
  -- the two new subtrees have the leaves of the two sides
  have hA : (T.node t.d (t.kids.length - 1) (t.kids.eraseIdx r)).leaves = (oldRoot t r).leaves := by
    simp [oldRoot, T.leaves_node]
  have hB : (T.node c.d c.kids.length c.kids).leaves = c.leaves := by
    obtain ⟨dc, pc, kc⟩ := c; simp [T.leaves_node]
  have hAs : (T.node t.d (t.kids.length - 1) (t.kids.eraseIdx r)).splitsBelow = (oldRoot t r).splitsBelow := by
    simp [oldRoot, T.splitsBelow_node]
  have hBs : (T.node c.d c.kids.length c.kids).splitsBelow = c.splitsBelow := by
    obtain ⟨dc, pc, kc⟩ := c; simp [T.splitsBelow_node]
  have hBl : (T.node c.d c.kids.length c.kids).isLeaf = c.isLeaf := by
    obtain ⟨dc, pc, kc⟩ := c; simp [T.isLeaf_node]
  -- rest of the split list: what hangs on both sides
  have hrest : rest.Perm ((oldRoot t r).splitsBelow ++ c.splitsBelow) := by
    obtain ⟨hkk, he⟩ := list_split_at t.kids r (e, c) hk
    have h1 : t.splits.Perm (⟨c.leaves, e, c.isLeaf⟩ ::
        (splitsL (t.kids.take r) ++ splitsL (t.kids.drop (r + 1)) ++ c.splitsBelow)) := by
      unfold T.splits
      conv => lhs; rw [hkk]
      rw [splitsL_append, splitsL_cons]
      refine List.perm_middle.trans (List.Perm.cons _ ?_)
      simp only [List.append_assoc]
      exact List.Perm.append_left _ List.perm_append_comm
    have h2 : (oldRoot t r).splitsBelow = splitsL (t.kids.take r) ++ splitsL (t.kids.drop (r + 1)) := by
      simp [oldRoot, T.splitsBelow_node, he, splitsL_append]
    rw [h2]
    exact (List.Perm.cons_inv (p1.symm.trans h1))
  -- u, its tips and its split list
  have key : ∀ (x : T), (x = .node ⟨"", []⟩ 0 [(ea, .node t.d (t.kids.length - 1) (t.kids.eraseIdx r)), (eb, .node c.d c.kids.length c.kids)] ∨
      x = .node ⟨"", []⟩ 0 [(eb, .node c.d c.kids.length c.kids), (ea, .node t.d (t.kids.length - 1) (t.kids.eraseIdx r))]) →
      x.tipNames.Perm (c.leaves ++ (oldRoot t r).leaves) ∧
      x.splits.Perm (⟨(oldRoot t r).leaves, ea, (oldRoot t r).isLeaf⟩ :: ⟨c.leaves, eb, c.isLeaf⟩ :: rest) := by
    intro x hx
    have hAl : (T.node t.d (t.kids.length - 1) (t.kids.eraseIdx r)).isLeaf = (oldRoot t r).isLeaf := by
      simp [oldRoot, T.isLeaf_node]
    rcases hx with rfl | rfl
    · obtain ⟨t1, t2⟩ := two_kids ⟨"", []⟩ 0 ea eb (.node t.d (t.kids.length - 1) (t.kids.eraseIdx r)) (.node c.d c.kids.length c.kids)
      rw [hA, hB, hAs, hBs, hAl, hBl] at t2
      rw [hA, hB] at t1
      exact ⟨by rw [t1]; exact List.perm_append_comm,
        t2.trans (List.Perm.cons _ (List.Perm.cons _ hrest.symm))⟩
    · obtain ⟨t1, t2⟩ := two_kids ⟨"", []⟩ 0 eb ea (.node c.d c.kids.length c.kids) (.node t.d (t.kids.length - 1) (t.kids.eraseIdx r))
      rw [hA, hB, hAs, hBs, hAl, hBl] at t2
      rw [hA, hB] at t1
      exact ⟨by rw [t1],
        t2.trans ((List.Perm.swap _ _ _).trans (List.Perm.cons _ (List.Perm.cons _ (List.perm_append_comm.trans hrest.symm))))⟩
  obtain ⟨k1, k2⟩ := key u (by rw [hu]; cases aFirst <;> simp)
  exact ⟨rest, p1, k2, k1.trans q1⟩


/-! ## the fused entry of a split carried by exactly two branches -/

theorem insertU_mem_other (z y : USplit) (h : z.side ≠ y.side) : ∀ (acc : List USplit), y ∈ acc → y ∈ insertU z acc
  | [], hy => by cases hy
  | x :: r, hy => by
    by_cases hx : x.side = z.side
    · rw [insertU_cons_eq z x r hx]
      rcases List.mem_cons.1 hy with rfl | hy
      · exact absurd hx.symm h
      · exact List.mem_cons_of_mem _ hy
    · rw [insertU_cons_ne z x r hx]
      rcases List.mem_cons.1 hy with rfl | hy
      · exact List.mem_cons_self ..
      · exact List.mem_cons_of_mem _ (insertU_mem_other z y h r hy)

theorem mem_ufoldU_keep (y : USplit) : ∀ (l acc : List USplit), y ∈ acc → (∀ z ∈ l, z.side ≠ y.side) →
    y ∈ ufoldU l acc
  | [], _, hy, _ => hy
  | z :: l, acc, hy, h => by
    rw [ufoldU_cons]
    exact mem_ufoldU_keep y l _ (insertU_mem_other z y (h z (by simp)) acc hy) (fun w hw => h w (by simp [hw]))

theorem ufoldU_sidesNodup : ∀ (l acc : List USplit), SidesNodup acc → SidesNodup (ufoldU l acc)
  | [], _, h => h
  | z :: l, acc, h => by rw [ufoldU_cons]; exact ufoldU_sidesNodup l _ (insertU_sidesNodup z acc h)

theorem usplitsAll_sidesNodup (t : T) : (t.usplitsAll.map (·.side)).Nodup := by
  rw [T.usplitsAll_eq]
  have := ufoldU_sidesNodup (t.splits.map (toU t.tipNames)) [] sidesNodup_nil
  exact ((List.mergeSort_perm _ uLe).map _).nodup_iff.2 this

/-- two entries of the unrooted split map with the same side are the same entry -/
theorem usplitsAll_unique (t : T) {x y : USplit} (hx : x ∈ t.usplitsAll) (hy : y ∈ t.usplitsAll)
    (h : x.side = y.side) : x = y :=
  inj_of_nodup_map _ _ (usplitsAll_sidesNodup t) x hx y hy h

/-- a split carried by exactly two branches appears fused in the unrooted split map -/
theorem fused_mem_usplitsAll (u : T) (XA XB : SplitE) (rest : List SplitE)
    (hp : u.splits.Perm (XA :: XB :: rest)) (hg : LensGood u.splits)
    (hside : canonSide u.tipNames XA.below = canonSide u.tipNames XB.below)
    (hrest : ∀ s ∈ rest, canonSide u.tipNames s.below ≠ canonSide u.tipNames XA.below) :
    fuseU (toU u.tipNames XA) (toU u.tipNames XB) ∈ u.usplitsAll := by
  rw [T.usplitsAll_eq]
  apply (List.mergeSort_perm _ uLe).mem_iff.2
  have hL : (u.splits.map (toU u.tipNames)).Perm
      (toU u.tipNames XA :: toU u.tipNames XB :: rest.map (toU u.tipNames)) := by
    simpa using hp.map (toU u.tipNames)
  have hgU := hg.goodU u.tipNames
  have g := GoodU.of_perm hL.symm hgU
  obtain ⟨g1, g'⟩ := goodU_cons g
  obtain ⟨g2, _⟩ := goodU_cons g'
  apply (ufoldU_perm hL hgU [] sidesNodup_nil goodU_nil).mem_iff.2
  rw [ufoldU_fuse _ _ _ [] hside g1 g2 goodU_nil, ufoldU_cons, insertU_nil]
  apply mem_ufoldU_keep _ _ _ (by simp)
  intro z hz
  obtain ⟨s, hs, rfl⟩ := List.mem_map.1 hz
  exact hrest s hs



/-- the canonical sides of the branches, one per branch -/
def sideList (t : T) : List (List String) := t.splits.map (fun s => canonSide t.tipNames s.below)

theorem moveRoot_sideList (t : T) (i : Nat) (hu : t.tipNames.Nodup) : (sideList (moveRoot t i)).Perm (sideList t) := by
  cases hk : t.kids[i]? with
  | none => rw [moveRoot_of_none t i hk]
  | some ec =>
    obtain ⟨e, c⟩ := ec
    obtain ⟨rest, p1, p2⟩ := moveRoot_splits_perm t i e c hk
    obtain ⟨q1, _⟩ := moveRoot_tipNames_split t i e c hk
    unfold sideList
    have hf : (fun s : SplitE => canonSide (moveRoot t i).tipNames s.below) =
        (fun s : SplitE => canonSide t.tipNames s.below) := by
      funext s; exact canonSide_perm_all (moveRoot_tips t i) _
    rw [hf]
    refine (p2.map _).trans (List.Perm.trans ?_ (p1.map _).symm)
    simp only [List.map_cons]
    rw [canonSide_compl hu (List.perm_append_comm.trans q1)]

theorem rerootP_sideList : ∀ (path : List Nat) (t : T) (adj : Option Nat) (back : List Nat),
    t.tipNames.Nodup → (sideList (rerootP t path adj back).1).Perm (sideList t)
  | [], t, _, _, _ => List.Perm.refl _
  | i :: rest, t, adj, back, hu => by
    cases hk : t.kids[adjIdx adj i]? with
    | none => rw [rerootP_cons_none t i rest adj back hk]
    | some ec =>
      obtain ⟨e, c⟩ := ec
      rw [rerootP_cons_some t i rest adj back e c hk]
      have hu' : (moveRoot t (adjIdx adj i)).tipNames.Nodup := (moveRoot_tips t _).nodup_iff.2 hu
      exact (rerootP_sideList rest _ _ _ hu').trans (moveRoot_sideList t _ hu)

/-- what a successful outgroup rooting (outgroup kept) is made of -/
theorem outgroup_cut_facts (t t' : T) (strict : Bool) (S : List String)
    (h : rerootOutGroup false strict S t = .ok t') (hu : t.tipNames.Nodup) (hg : LensGood t.splits)
    (hs : ∀ s ∈ t.splits, GoodL s.e.sup) (hside : strict = true ∨ isSide t S = true) :
    ∃ (tn : T) (r : Nat) (e : EdgeD) (c : T) (b : Bool), Same t tn ∧ tn.tipNames.Nodup ∧ LensGood tn.splits ∧
      tn.kids[r]? = some (e, c) ∧ cutAt tn r (halfEdge e) (halfEdge e) b = some t' ∧
      (sideList tn).Perm (sideList (unroot t)) ∧ (∀ x, x ∈ (oldRoot tn r).leaves ↔ x ∈ outTips t S) := by
  unfold rerootOutGroup rerootOutGroupWith at h
  obtain ⟨pl, hpl, h⟩ := Res.bind_ok h
  obtain ⟨ec, hec, h⟩ := Res.bind_ok h
  obtain ⟨e, c⟩ := ec
  have hk := ofOption_ok_panic hec
  simp only [Bool.false_eq_true, if_false] at h
  have hcut := ofOption_ok_panic h
  obtain ⟨spath, hseff, hne, _, hts, hlen, hfound, hstrict, htn, hre⟩ := outgroupPlan_ok hpl
  have S1 := unroot_same t hu hg hs
  have hu1 : (unroot t).tipNames.Nodup := S1.tips.nodup_iff.2 hu
  obtain ⟨S2, g2⟩ := rerootP_same spath (unroot t) none [] hu1 (unroot_lensGood t hg)
  have L2 := rerootP_sideList spath (unroot t) none [] hu1
  rw [← hts] at S2 g2 L2
  have hu2 : pl.ts.tipNames.Nodup := S2.tips.nodup_iff.2 hu1
  obtain ⟨S3, g3⟩ := rerootP_same pl.f.p pl.ts none (rerootP (unroot t) spath none []).2.2 hu2 g2
  have L3 := rerootP_sideList pl.f.p pl.ts none (rerootP (unroot t) spath none []).2.2 hu2
  rw [← htn] at S3 g3 L3
  have ST := (S1.trans S2).trans S3
  have hu3 : pl.tn.tipNames.Nodup := ST.tips.nodup_iff.2 hu
  have hseff' : pl.seff = outTips t S := hseff.trans (effOutgroup_eq_outTips t S S1.tips)
  have hSn : pl.seff.Nodup := by rw [hseff']; exact nodup_eraseDups _
  obtain ⟨q1, _⟩ := moveRoot_tipNames_split pl.tn pl.r e c hk
  have hAl : (aSide pl.tn pl.r).leaves = (oldRoot pl.tn pl.r).leaves := by simp [aSide, oldRoot, T.leaves_node]
  have hnd2 : (c.leaves ++ (oldRoot pl.tn pl.r).leaves).Nodup := q1.nodup_iff.2 hu3
  have hAn : (aSide pl.tn pl.r).leaves.Nodup := by rw [hAl]; exact (List.nodup_append.1 hnd2).2.1
  have hdf : pl.f.diff = 0 := by
    rcases hside with hst | hst
    · exact hstrict hst
    · exact plan_diff_zero hpl hu hg hs hst
  obtain ⟨hin, hout⟩ := plan_clade hSn hne hlen hfound htn hre hAn
  refine ⟨pl.tn, pl.r, e, c, _, ST, hu3, g3, hk, hcut, L3.trans L2, ?_⟩
  intro x
  rw [← hAl, ← hseff']
  exact ⟨hout hdf x, hin x⟩



theorem halfEdge_len_eq (e : EdgeD) (l : Rat) (h : l = e.len) :
    ((halfEdge e).len == (if l == NIL then NIL else l / 2)) = true := by
  subst h
  unfold halfEdge
  by_cases h0 : e.len = NIL <;> simp [h0]

/-- the Spec predicate `cladeOK` holds on the model's result -/
theorem cladeOK_of (t t' : T) (strict : Bool) (S : List String)
    (h : rerootOutGroup false strict S t = .ok t') (hu : t.tipNames.Nodup) (hg : LensGood t.splits)
    (hs : ∀ s ∈ t.splits, GoodL s.e.sup) (hside : strict = true ∨ isSide t S = true)
    (hD : (sideList (unroot t)).Nodup) : cladeOK t S t' = true := by
  have hsame := outgroup_same t t' strict S h hu hg hs
  obtain ⟨tn, r, e, c, b, ST, hun, gn, hk, hcut, Lp, hA⟩ := outgroup_cut_facts t t' strict S h hu hg hs hside
  obtain ⟨rest, p1, p2, ptips⟩ := cutAt_splits tn t' r _ _ b e c hk hcut
  obtain ⟨cA, cB, hcA, hcB, hkids⟩ := cutAt_kids tn t' r _ _ b e c hk hcut
  obtain ⟨q1, _⟩ := moveRoot_tipNames_split tn r e c hk
  have hnd2 : (c.leaves ++ (oldRoot tn r).leaves).Nodup := q1.nodup_iff.2 hun
  have hon : (oldRoot tn r).leaves.Nodup := (List.nodup_append.1 hnd2).2.1
  have hsn : (outTips t S).Nodup := nodup_eraseDups _
  have hAperm : (oldRoot tn r).leaves.Perm (outTips t S) := (List.perm_ext_iff_of_nodup hon hsn).2 hA
  have hun' : t'.tipNames.Nodup := hsame.tips.nodup_iff.2 hu
  -- the side of the cut branch, in the three trees
  have hqn : ((oldRoot tn r).leaves ++ c.leaves).Perm tn.tipNames := List.perm_append_comm.trans q1
  have hq' : ((oldRoot tn r).leaves ++ c.leaves).Perm t'.tipNames := hqn.trans ptips.symm
  have hσ' : canonSide t'.tipNames (oldRoot tn r).leaves = canonSide t.tipNames (outTips t S) := by
    rw [canonSide_perm_all hsame.tips]; exact canonSide_perm_side _ hAperm
  -- in tn no other branch carries that split
  have hDn : (sideList tn).Nodup := Lp.nodup_iff.2 hD
  have hrest : ∀ s ∈ rest, canonSide t'.tipNames s.below ≠ canonSide t'.tipNames (oldRoot tn r).leaves := by
    have hp := p1.map (fun s : SplitE => canonSide tn.tipNames s.below)
    have hnd := hp.nodup_iff.1 hDn
    simp only [List.map_cons, List.nodup_cons, List.mem_map, not_exists, not_and] at hnd
    intro s hs heq
    apply hnd.1 s hs
    rw [← canonSide_perm_all ptips, ← canonSide_perm_all ptips, heq]
    exact canonSide_compl hun' hq'
  -- the fused entry of the result
  have gn' : LensGood t'.splits := by
    have ge : GoodL e.len := gn _ (kid_mem_splits tn r e c hk)
    intro s hs'
    rcases List.mem_cons.1 (p2.mem_iff.1 hs') with rfl | hs'
    · exact halfEdge_good ge
    · rcases List.mem_cons.1 hs' with rfl | hs'
      · exact halfEdge_good ge
      · exact gn s (p1.mem_iff.2 (List.mem_cons_of_mem _ hs'))
  have ge : GoodL e.len := gn _ (kid_mem_splits tn r e c hk)
  have hspu := fused_mem_usplitsAll t' _ _ rest p2 gn' (canonSide_compl hun' hq') hrest
  have hspu_side : (fuseU (toU t'.tipNames ⟨(oldRoot tn r).leaves, halfEdge e, (oldRoot tn r).isLeaf⟩)
      (toU t'.tipNames ⟨c.leaves, halfEdge e, c.isLeaf⟩)).side = canonSide t.tipNames (outTips t S) := hσ'
  have hspu_len : (fuseU (toU t'.tipNames ⟨(oldRoot tn r).leaves, halfEdge e, (oldRoot tn r).isLeaf⟩)
      (toU t'.tipNames ⟨c.leaves, halfEdge e, c.isLeaf⟩)).len = e.len := (halfEdge_len ge).symm
  have hspu_sup : (fuseU (toU t'.tipNames ⟨(oldRoot tn r).leaves, halfEdge e, (oldRoot tn r).isLeaf⟩)
      (toU t'.tipNames ⟨c.leaves, halfEdge e, c.isLeaf⟩)).sup = e.sup := (halfEdge_sup e).symm
  generalize fuseU (toU t'.tipNames ⟨(oldRoot tn r).leaves, halfEdge e, (oldRoot tn r).isLeaf⟩)
      (toU t'.tipNames ⟨c.leaves, halfEdge e, c.isLeaf⟩) = spu at hspu hspu_side hspu_len hspu_sup
  -- the entry of the input tree with that side
  have hmemt : canonSide t.tipNames (outTips t S) ∈ t.usplitsAll.map (·.side) := by
    rw [← hsame.sides]; exact List.mem_map.2 ⟨spu, hspu, hspu_side⟩
  obtain ⟨sp0, hsp0, hsp0s⟩ := List.mem_map.1 hmemt
  cases hf : t.usplitsAll.find? (fun sp => sp.side == canonSide t.tipNames (outTips t S)) with
  | none =>
    have := List.find?_eq_none.1 hf sp0 hsp0
    simp [hsp0s] at this
  | some sp =>
    have hsps : sp.side = canonSide t.tipNames (outTips t S) := by
      have := List.find?_some hf; simpa using this
    have hspm : sp ∈ t.usplitsAll := List.mem_of_find?_eq_some hf
    -- it has the length of the cut branch, and its support when the split is not trivial
    have hlen : sp.len = e.len ∧ (2 ≤ lightSize t.tipNames sp.side → sp.sup = e.sup) := by
      by_cases hnt : 2 ≤ lightSize t.tipNames sp.side
      · have h1 : sp ∈ t.usplits := by
          unfold T.usplits; exact List.mem_filter.2 ⟨hspm, by simpa using hnt⟩
        have h2 : sp ∈ t'.usplits := hsame.usp.mem_iff.2 h1
        have h3 : sp ∈ t'.usplitsAll := by unfold T.usplits at h2; exact (List.mem_filter.1 h2).1
        have := usplitsAll_unique t' h3 hspu (hsps.trans hspu_side.symm)
        rw [this]; exact ⟨hspu_len, fun _ => hspu_sup⟩
      · have h1 : (sp.side, sp.len) ∈ t.tipLens := by
          unfold T.tipLens
          exact List.mem_map.2 ⟨sp, List.mem_filter.2 ⟨hspm, by simp; omega⟩, rfl⟩
        have h2 := hsame.tl.mem_iff.2 h1
        unfold T.tipLens at h2
        obtain ⟨x, hx, hxe⟩ := List.mem_map.1 h2
        simp only [Prod.mk.injEq] at hxe
        have := usplitsAll_unique t' (List.mem_filter.1 hx).1 hspu (hxe.1.trans (hsps.trans hspu_side.symm))
        rw [this] at hxe
        exact ⟨hxe.2.symm.trans hspu_len, fun h' => absurd h' hnt⟩
    -- the predicate
    have hcAs : sortS cA.leaves = sortS (outTips t S) := by
      rw [hcA]
      have : (aSide tn r).leaves = (oldRoot tn r).leaves := by simp [aSide, oldRoot, T.leaves_node]
      rw [this]; exact sortS_congr hAperm
    have hsupc : (decide (lightSize t.tipNames sp.side ≤ 1) ||
        ((halfEdge e).sup == sp.sup && (halfEdge e).sup == sp.sup)) = true := by
      by_cases hnt : 2 ≤ lightSize t.tipNames sp.side
      · have := hlen.2 hnt
        simp [halfEdge, this]
      · have : lightSize t.tipNames sp.side ≤ 1 := by omega
        simp [this]
    unfold cladeOK sideSplit
    dsimp only
    rw [hkids, hf]
    cases b
    · simp only [Bool.false_eq_true, if_false, Bool.and_eq_true, Bool.or_eq_true, beq_iff_eq]
      exact ⟨Or.inr hcAs, ⟨by simpa using halfEdge_len_eq e sp.len hlen.1, trivial⟩, by simpa using hsupc⟩
    · simp only [if_true, Bool.and_eq_true, Bool.or_eq_true, beq_iff_eq]
      exact ⟨Or.inl hcAs, ⟨by simpa using halfEdge_len_eq e sp.len hlen.1, trivial⟩, by simpa using hsupc⟩


theorem branchesDistinct_iff (t : T) : branchesDistinct t = true ↔ (sideList (unroot t)).Nodup := by
  simp [branchesDistinct, sideList]

/-- the Spec predicate `insideOK` on the model's result (any mode) -/
theorem insideOK_of (t t' : T) (strict : Bool) (S : List String)
    (h : rerootOutGroup false strict S t = .ok t') (hu : t.tipNames.Nodup) (hg : LensGood t.splits)
    (hs : ∀ s ∈ t.splits, GoodL s.e.sup) : insideOK t S t' = true := by
  obtain ⟨e, cA, cB, first, hk, hin, _⟩ := outgroup_structure t t' strict S h hu hg hs
  unfold insideOK
  dsimp only
  rw [hk]
  cases first
  · simp only [Bool.false_eq_true, if_false, Bool.or_eq_true, List.all_eq_true, List.contains_eq_mem, decide_eq_true_eq]
    exact Or.inr hin
  · simp only [if_true, Bool.or_eq_true, List.all_eq_true, List.contains_eq_mem, decide_eq_true_eq]
    exact Or.inl hin

end Gotree.C05
