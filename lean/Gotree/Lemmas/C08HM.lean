/-
  C08 — the model through `ReinitIndexes` and the hash map (Model/C08HM.lean) returns the
  records of the bitset/association-list model (Model/C08.lean), by C04's refinement lemmas.
  Core Lean only.
-/
import Gotree.Model.C08HM
import Gotree.Lemmas.C04HM
import Gotree.Lemmas.C04Idx
import Gotree.Lemmas.C08Bits

namespace Gotree.C08
open Gotree List
open Gotree.C04 (HM KeyLaws Inv NoDupK Assoc.get Assoc.put EdgeIdx specIdx sortNames)

/-! ## transport of a map along a function on keys

C04's lemmas need `KeyLaws` on the whole key type; the keys of an `EdgeIndex` are lawful only
as records of branches of trees on one taxon set.  The lemmas are therefore applied to a map
keyed by a subtype, and carried over along `Subtype.val`. -/

section Transport
variable {κ' κ ν : Type} (f : κ' → κ) (hash : κ → UInt64) (eqv : κ → κ → Bool)

def mapB (b : List (κ' × ν)) : List (κ × ν) := b.map fun kv => (f kv.1, kv.2)

def mapHM (m : HM κ' ν) : HM κ ν := ⟨m.buckets.map (mapB f), m.cap, m.total⟩

theorem bucketFind_map (k : κ') (b : List (κ' × ν)) :
    C04.bucketFind eqv (f k) (mapB f b) = C04.bucketFind (fun a b => eqv (f a) (f b)) k b := by
  induction b with
  | nil => rfl
  | cons x r ih => obtain ⟨k', v⟩ := x; simp only [mapB, map_cons, C04.bucketFind] at *; rw [ih]

theorem bucketReplace_map (k : κ') (v : ν) (b : List (κ' × ν)) :
    C04.bucketReplace eqv (f k) v (mapB f b)
      = (C04.bucketReplace (fun a b => eqv (f a) (f b)) k v b).map (mapB f) := by
  induction b with
  | nil => rfl
  | cons x r ih =>
    obtain ⟨k', v'⟩ := x
    simp only [mapB, map_cons, C04.bucketReplace] at *
    by_cases h : eqv (f k) (f k') = true
    · simp [h, mapB]
    · simp only [h, Bool.false_eq_true, if_false]
      rw [ih]
      cases C04.bucketReplace (fun a b => eqv (f a) (f b)) k v r <;> rfl

theorem get_map (m : HM κ' ν) (k : κ') :
    (mapHM f m).get hash eqv (f k) = m.get (fun k => hash (f k)) (fun a b => eqv (f a) (f b)) k := by
  simp only [HM.get, mapHM, getElem?_map]
  cases m.buckets[C04.indexFor (hash (f k)) m.cap]? with
  | none => rfl
  | some b => simp only [Option.map_some]; rw [bucketFind_map]

theorem appendAt_map (bs : List (List (κ' × ν))) (i : Nat) (kv : κ' × ν) :
    C04.appendAt (bs.map (mapB f)) i (f kv.1, kv.2) = (C04.appendAt bs i kv).map (·.map (mapB f)) := by
  simp only [C04.appendAt, getElem?_map]
  cases bs[i]? with
  | none => rfl
  | some b => simp [mapB, List.map_set]

theorem reinsert_map (newcap : Nat) (l : List (κ' × ν)) (bs : List (List (κ' × ν))) :
    C04.reinsert hash newcap (mapB f l) (bs.map (mapB f))
      = (C04.reinsert (fun k => hash (f k)) newcap l bs).map (·.map (mapB f)) := by
  induction l generalizing bs with
  | nil => rfl
  | cons kv r ih =>
    simp only [mapB, map_cons, C04.reinsert] at *
    rw [appendAt_map]
    cases C04.appendAt bs (C04.indexFor (hash (f kv.1)) newcap) kv with
    | none => rfl
    | some bs' => simp only [Option.map_some]; exact ih bs'

theorem flatten_mapB (bs : List (List (κ' × ν))) : (bs.map (mapB f)).flatten = mapB f bs.flatten := by
  induction bs with
  | nil => rfl
  | cons b r ih => simp only [map_cons, flatten_cons, ih, mapB, map_append]

theorem rehash_map (policy : Nat → Nat → Bool) (m : HM κ' ν) :
    (mapHM f m).rehash hash policy = (m.rehash (fun k => hash (f k)) policy).map (mapHM f) := by
  simp only [HM.rehash, mapHM]
  by_cases hp : policy m.total m.cap = true
  · simp only [hp, if_true]
    rw [flatten_mapB]
    have : (replicate (2 * m.cap) ([] : List (κ × ν))) = (replicate (2 * m.cap) ([] : List (κ' × ν))).map (mapB f) := by
      simp [mapB]
    rw [this, reinsert_map]
    cases C04.reinsert (fun k => hash (f k)) (2 * m.cap) m.buckets.flatten (replicate (2 * m.cap) []) <;> rfl
  · simp only [hp, Bool.false_eq_true, if_false]; rfl

theorem put_map (policy : Nat → Nat → Bool) (m : HM κ' ν) (k : κ') (v : ν) :
    (mapHM f m).put hash eqv policy (f k) v
      = (m.put (fun k => hash (f k)) (fun a b => eqv (f a) (f b)) policy k v).map (mapHM f) := by
  simp only [HM.put, mapHM, getElem?_map]
  cases hb : m.buckets[C04.indexFor (hash (f k)) m.cap]? with
  | none => rfl
  | some b =>
    simp only [Option.map_some]
    rw [bucketReplace_map]
    cases C04.bucketReplace (fun a b => eqv (f a) (f b)) k v b with
    | some b' => simp [mapHM, List.map_set]
    | none =>
      simp only [Option.map_none]
      have := rehash_map f hash policy
        ({ m with buckets := m.buckets.set (C04.indexFor (hash (f k)) m.cap) (b ++ [(k, v)]), total := m.total + 1 })
      simp only [mapHM, List.map_set, mapB, map_append, map_cons, map_nil] at this ⊢
      exact this

theorem new_map (size : Nat) : mapHM f (HM.new size : HM κ' ν) = (HM.new size : HM κ ν) := by
  simp [mapHM, HM.new, mapB]

end Transport

/-! ## the keys of an `EdgeIndex` are lawful -/

/-- index records of branches of trees on the taxon set `base` -/
def IsKey (H : String → UInt64) (base : List String) (e : EdgeIdx) : Prop :=
  ∃ tips b, tips.Perm base ∧ tips.Nodup ∧ b.Sublist tips ∧ e = specIdx H tips b

abbrev Key (H : String → UInt64) (base : List String) := { e : EdgeIdx // IsKey H base e }

theorem sameSplit_perm {a a' : List String} (p : a.Perm a') (x y : List String) :
    C04.sameSplit a x y = C04.sameSplit a' x y := by
  unfold C04.sameSplit C04.sameSide C04.complSide
  rw [p.all_eq, p.all_eq]

theorem keyLaws (H : String → UInt64) (base : List String) :
    KeyLaws (κ := Key H base) (fun k => ehash k.1) (fun a b => eeqv a.1 b.1) := by
  refine ⟨?_, ?_, ?_, ?_⟩
  · rintro ⟨_, t1, b1, p1, n1, s1, rfl⟩
    show (specIdx H t1 b1).equals (specIdx H t1 b1) = true
    rw [C04.spec_equals_iff_sameSplit H ⟨n1, n1, Perm.refl _, s1, s1⟩]
    exact C04.sameSplit_refl _ _
  · rintro ⟨_, t1, b1, p1, n1, s1, rfl⟩ ⟨_, t2, b2, p2, n2, s2, rfl⟩ h
    have h : (specIdx H t1 b1).equals (specIdx H t2 b2) = true := h
    show (specIdx H t2 b2).equals (specIdx H t1 b1) = true
    have p12 : t1.Perm t2 := p1.trans p2.symm
    rw [C04.spec_equals_iff_sameSplit H ⟨n1, n2, p12, s1, s2⟩] at h
    rw [C04.spec_equals_iff_sameSplit H ⟨n2, n1, p12.symm, s2, s1⟩, ← sameSplit_perm p12]
    exact C04.sameSplit_symm h
  · rintro ⟨_, t1, b1, p1, n1, s1, rfl⟩ ⟨_, t2, b2, p2, n2, s2, rfl⟩ ⟨_, t3, b3, p3, n3, s3, rfl⟩ h1 h2
    have h1 : (specIdx H t1 b1).equals (specIdx H t2 b2) = true := h1
    have h2 : (specIdx H t2 b2).equals (specIdx H t3 b3) = true := h2
    show (specIdx H t1 b1).equals (specIdx H t3 b3) = true
    have p12 : t1.Perm t2 := p1.trans p2.symm
    have p23 : t2.Perm t3 := p2.trans p3.symm
    rw [C04.spec_equals_iff_sameSplit H ⟨n1, n2, p12, s1, s2⟩] at h1
    rw [C04.spec_equals_iff_sameSplit H ⟨n2, n3, p23, s2, s3⟩, ← sameSplit_perm p12] at h2
    rw [C04.spec_equals_iff_sameSplit H ⟨n1, n3, p12.trans p23, s1, s3⟩]
    exact C04.sameSplit_trans h1 h2
  · rintro ⟨_, t1, b1, p1, n1, s1, rfl⟩ ⟨_, t2, b2, p2, n2, s2, rfl⟩ h
    have h : (specIdx H t1 b1).equals (specIdx H t2 b2) = true := h
    have p12 : t1.Perm t2 := p1.trans p2.symm
    rw [C04.spec_equals_iff_sameSplit H ⟨n1, n2, p12, s1, s2⟩] at h
    exact C04.spec_hashCode_of_sameSplit H ⟨n1, n2, p12, s1, s2⟩ h

/-! ## association list keyed by records = association list keyed by bitsets -/

theorem eqv_bits (a b : List Bool) : C04.bitsEqualOrComplement a b = eqOrCompl b a := by
  unfold C04.bitsEqualOrComplement eqOrCompl
  rw [Bool.eq_iff_iff]
  simp only [Bool.or_eq_true, Bool.and_eq_true, beq_iff_eq]
  constructor
  · rintro (h | h)
    · exact Or.inl h.symm
    · exact Or.inr ⟨by rw [← h]; simp, h.symm⟩
  · rintro (h | h)
    · exact Or.inl h.symm
    · exact Or.inr h.2.symm

def bitsOf {H : String → UInt64} {base : List String} (kv : Key H base × Info) : List Bool × Info :=
  (kv.1.1.bits, kv.2)

theorem assoc_get_bits {H : String → UInt64} {base : List String} (k : Key H base) (A : List (Key H base × Info)) :
    Assoc.get (fun a b => eeqv a.1 b.1) k A = value (A.map bitsOf) k.1.bits := by
  induction A with
  | nil => rfl
  | cons x r ih =>
    obtain ⟨k1, v⟩ := x
    simp only [Assoc.get, value, map_cons, find?_cons, bitsOf]
    have : eeqv k.1 k1.1 = eqOrCompl k1.1.bits k.1.bits := eqv_bits _ _
    simp only [this]
    cases eqOrCompl k1.1.bits k.1.bits with
    | true => rfl
    | false => exact ih

theorem assoc_put_bits {H : String → UInt64} {base : List String} (k : Key H base) (v : Info)
    (A : List (Key H base × Info)) :
    (Assoc.put (fun a b => eeqv a.1 b.1) k v A).map bitsOf = put k.1.bits v (A.map bitsOf) := by
  induction A with
  | nil => rfl
  | cons x r ih =>
    obtain ⟨k1, v1⟩ := x
    simp only [Assoc.put, put, map_cons, bitsOf]
    have : eeqv k.1 k1.1 = eqOrCompl k1.1.bits k.1.bits := eqv_bits _ _
    simp only [this]
    cases eqOrCompl k1.1.bits k.1.bits with
    | true => rfl
    | false => simp only [Bool.false_eq_true, if_false, map_cons]; rw [← ih]; rfl

/-! ## the hash map represents the bitset index -/

/-- `m` (keyed by records, as the Go map) represents the association list `ix` (keyed by bitsets) -/
def Rep (H : String → UInt64) (base : List String) (m : EMap) (ix : Index) : Prop :=
  ∃ (m' : HM (Key H base) Info) (A : List (Key H base × Info)),
    mapHM Subtype.val m' = m ∧ Inv (fun k : Key H base => ehash k.1) m' ∧
    m'.buckets.flatten.Perm A ∧ NoDupK (fun a b : Key H base => eeqv a.1 b.1) A ∧ A.map bitsOf = ix

theorem rep_new (H : String → UInt64) (base : List String) (n : Nat) : Rep H base (HM.new n) [] :=
  ⟨HM.new n, [], new_map _ n, C04.inv_new n, by rw [C04.flatten_new], Pairwise.nil, rfl⟩

theorem rep_put {H : String → UInt64} {base : List String} {m : EMap} {ix : Index} (h : Rep H base m ix)
    (policy : Nat → Nat → Bool) (k : EdgeIdx) (hk : IsKey H base k) (v : Info) :
    ∃ m2, m.put ehash eeqv policy k v = some m2 ∧ Rep H base m2 (put k.bits v ix) := by
  obtain ⟨m', A, hm, hI, hp, hn, hA⟩ := h
  have L := keyLaws H base
  obtain ⟨m2', h1, h2, h3⟩ := C04.put_refines L policy hI ⟨k, hk⟩ v
  have hnf : NoDupK (fun a b : Key H base => eeqv a.1 b.1) m'.buckets.flatten := (C04.noDupK_perm L hp).mpr hn
  refine ⟨mapHM Subtype.val m2', ?_, m2', _, rfl, h2, h3.trans (C04.put_perm L hp hnf), C04.noDupK_put L hn, ?_⟩
  · rw [← hm]
    have := put_map (Subtype.val : Key H base → EdgeIdx) ehash eeqv policy m' ⟨k, hk⟩ v
    rw [this, h1]; rfl
  · rw [assoc_put_bits, hA]

theorem rep_get {H : String → UInt64} {base : List String} {m : EMap} {ix : Index} (h : Rep H base m ix)
    (k : EdgeIdx) (hk : IsKey H base k) : m.get ehash eeqv k = some (value ix k.bits) := by
  obtain ⟨m', A, hm, hI, hp, hn, hA⟩ := h
  have L := keyLaws H base
  rw [← hm]
  have := get_map (Subtype.val : Key H base → EdgeIdx) ehash eeqv m' ⟨k, hk⟩
  rw [this, C04.get_refines L hI]
  have hnf : NoDupK (fun a b : Key H base => eeqv a.1 b.1) m'.buckets.flatten := (C04.noDupK_perm L hp).mpr hn
  rw [C04.get_perm L hp hnf, assoc_get_bits, hA]

/-! ## `ReinitIndexes` -/

theorem eraseDups_of_nodup : ∀ (l : List String), l.Nodup → l.eraseDups = l
  | [], _ => by simp
  | a :: r, h => by
    have h' := nodup_cons.mp h
    rw [eraseDups_cons]
    have : r.filter (fun b => !b == a) = r := by
      apply filter_eq_self.mpr
      intro x hx
      have : x ≠ a := fun e => h'.1 (e ▸ hx)
      simpa using this
    rw [this, eraseDups_of_nodup r h'.2]
termination_by l => l.length

theorem uniqueTips_iff (t : T) : t.uniqueTips = true ↔ t.tipNames.Nodup := by
  constructor
  · exact Canon.nodup_of_uniqueTips t
  · intro h; unfold T.uniqueTips; rw [eraseDups_of_nodup _ h]; simp

theorem reinit_ok (H : String → UInt64) (t : T) (h : reinitOk t = true) :
    C04.reinit H t = .ok (sortNames t.tipNames, t.splits.map fun s => specIdx H t.tipNames s.below) := by
  have hn := nodup_of_reinitOk h
  have hne : t.tipNames ≠ [] := by
    unfold reinitOk at h; simp only [Bool.and_eq_true, bne_iff_ne, ne_eq, length_eq_zero_iff] at h; exact h.2
  exact C04.reinit_eq H t hn hne

theorem reinit_err (H : String → UInt64) (t : T) (h : reinitOk t = false) : ∃ msg, C04.reinit H t = .err msg := by
  unfold C04.reinit
  simp only
  by_cases hn : (sortNames t.tipNames).Nodup
  · have hn' : t.tipNames.Nodup := (C04.sortNames_perm _).nodup_iff.mp hn
    have hu := (uniqueTips_iff t).mpr hn'
    have hl : t.tipNames.length = 0 := by
      unfold reinitOk at h; rw [hu] at h; simpa using h
    have : (sortNames t.tipNames).length = 0 := by rw [(C04.sortNames_perm _).length_eq, hl]
    simp [hn, this]
  · simp [hn]

/-! ## the loops -/

theorem key_bits (H : String → UInt64) (all : List String) (s : SplitE) : (specIdx H all s.below).bits = key all s := rfl

theorem zip_map_self {α β : Type} (g : α → β) (l : List α) : (l.map g).zip l = l.map fun s => (g s, s) := by
  induction l with
  | nil => rfl
  | cons a r ih => simp [ih]

theorem putAll_rep {H : String → UInt64} {base all : List String} (policy : Nat → Nat → Bool) (l : List SplitE)
    (hl : ∀ s ∈ l, IsKey H base (specIdx H all s.below)) (i : Nat) {m : EMap} {ix : Index} (h : Rep H base m ix) :
    ∃ m2, putAll policy (l.map fun s => (specIdx H all s.below, s)) i m = some m2 ∧
      Rep H base m2 (buildFrom all l i ix) := by
  induction l generalizing i m ix with
  | nil => exact ⟨m, rfl, h⟩
  | cons s r ih =>
    obtain ⟨m1, h1, h2⟩ := rep_put h policy _ (hl s (by simp)) ⟨i, s.e.len⟩
    obtain ⟨m2, h3, h4⟩ := ih (fun x hx => hl x (by simp [hx])) (i + 1) h2
    refine ⟨m2, ?_, ?_⟩
    · simp only [map_cons, putAll, h1]; exact h3
    · simp only [buildFrom]; rw [← key_bits H]; exact h4

theorem isKey_of_split (H : String → UInt64) {base : List String} (t : T) (hn : t.tipNames.Nodup)
    (hp : t.tipNames.Perm base) : ∀ s ∈ t.splits, IsKey H base (specIdx H t.tipNames s.below) :=
  fun s hs => ⟨t.tipNames, s.below, hp, hn, C04.below_sublist t s hs, rfl⟩

theorem buildHM_rep (H : String → UInt64) {base : List String} (policy : Nat → Nat → Bool) (t : T)
    (hn : t.tipNames.Nodup) (hp : t.tipNames.Perm base) :
    ∃ m, buildHM policy (t.splits.map fun s => specIdx H t.tipNames s.below) t.splits = some m ∧
      Rep H base m (buildIndex t.tipNames t.splits) := by
  unfold buildHM buildIndex
  rw [zip_map_self]
  exact putAll_rep policy t.splits (isKey_of_split H t hn hp) 0 (rep_new H base _)

theorem cmpLoopHM_eq {H : String → UInt64} {base all : List String} {m : EMap} {ix : Index} (h : Rep H base m ix)
    (tips sc : Bool) (l : List SplitE) (hl : ∀ s ∈ l, IsKey H base (specIdx H all s.below)) (st : LoopSt) :
    cmpLoopHM m tips sc (l.map fun s => (specIdx H all s.below, s)) st = some (cmpLoop ix all tips sc l st) := by
  induction l generalizing st with
  | nil => rfl
  | cons e r ih =>
    simp only [map_cons, cmpLoopHM, cmpLoop]
    rw [rep_get h _ (hl e (by simp)), key_bits]
    cases ht : e.tip with
    | true =>
      simp only [Bool.not_true, Bool.false_eq_true, if_false, Bool.true_and, Bool.and_true]
      exact ih (fun x hx => hl x (by simp [hx])) _
    | false =>
      simp only [Bool.not_false, if_true, Option.map_some]
      split
      · rfl
      · exact ih (fun x hx => hl x (by simp [hx])) _

theorem wLoop1HM_eq {H : String → UInt64} {base all : List String} {m : EMap} {ix : Index} (h : Rep H base m ix)
    (tips sc : Bool) (l : List SplitE) (hl : ∀ s ∈ l, IsKey H base (specIdx H all s.below)) (same : Bool) :
    wLoop1HM m tips sc (l.map fun s => (specIdx H all s.below, s)) same = some (wLoop1 ix all tips sc l same) := by
  induction l generalizing same with
  | nil => rfl
  | cons e r ih =>
    have ih' := ih (fun x hx => hl x (by simp [hx]))
    simp only [map_cons, wLoop1HM, wLoop1]
    rw [rep_get h _ (hl e (by simp)), key_bits]
    cases hc : counted tips e with
    | false => simp only [Bool.false_eq_true, if_false]; exact ih' same
    | true =>
      simp only [if_true]
      cases hv : value ix (key all e) with
      | none =>
        simp only
        split
        · rfl
        · rw [ih']
      | some info =>
        simp only
        split
        · rfl
        · rw [ih']

theorem wLoop2HM_eq {H : String → UInt64} {base all : List String} {m : EMap} {ix : Index} (h : Rep H base m ix)
    (tips sc : Bool) (l : List SplitE) (hl : ∀ s ∈ l, IsKey H base (specIdx H all s.below)) (same : Bool) :
    wLoop2HM m tips sc (l.map fun s => (specIdx H all s.below, s)) same = some (wLoop2 ix all tips sc l same) := by
  induction l generalizing same with
  | nil => rfl
  | cons e r ih =>
    have ih' := ih (fun x hx => hl x (by simp [hx]))
    simp only [map_cons, wLoop2HM, wLoop2]
    rw [rep_get h _ (hl e (by simp)), key_bits]
    cases hc : counted tips e with
    | false => simp only [Bool.false_eq_true, if_false]; exact ih' same
    | true =>
      simp only [if_true]
      cases hv : value ix (key all e) with
      | none =>
        simp only
        split
        · rfl
        · rw [ih']
      | some info => simp only; exact ih' same

/-! ## no panic whatever the keys (the fall-through on trees with other taxa) -/

/-- a map whose bucket array has the announced, positive, size answers every lookup -/
def Sized (m : EMap) : Prop := m.buckets.length = m.cap ∧ 1 ≤ m.cap

theorem sized_of_rep {H : String → UInt64} {base : List String} {m : EMap} {ix : Index} (h : Rep H base m ix) :
    Sized m := by
  obtain ⟨m', _, hm, hI, _, _, _⟩ := h
  rw [← hm]
  exact ⟨by simp [mapHM, hI.len], hI.pos⟩

theorem get_total {m : EMap} (h : Sized m) (k : EdgeIdx) : ∃ o, m.get ehash eeqv k = some o := by
  have hi : C04.indexFor (ehash k) m.cap < m.buckets.length := by rw [h.1]; exact C04.indexFor_lt _ h.2
  simp only [HM.get, List.getElem?_eq_getElem hi]
  exact ⟨_, rfl⟩

theorem cmpLoopHM_total {m : EMap} (h : Sized m) (tips sc : Bool) (l : List (EdgeIdx × SplitE)) (st : LoopSt) :
    ∃ st', cmpLoopHM m tips sc l st = some st' := by
  induction l generalizing st with
  | nil => exact ⟨st, rfl⟩
  | cons x r ih =>
    obtain ⟨k, e⟩ := x
    obtain ⟨o, ho⟩ := get_total h k
    simp only [cmpLoopHM, ho, Option.map_some]
    cases e.tip with
    | true =>
      simp only [Bool.not_true, Bool.false_eq_true, if_false, Bool.and_true, Bool.true_and]
      exact ih _
    | false =>
      simp only [Bool.not_false, if_true]
      split
      · exact ⟨_, rfl⟩
      · exact ih _

theorem wLoop1HM_total {m : EMap} (h : Sized m) (tips sc : Bool) (l : List (EdgeIdx × SplitE)) (same : Bool) :
    ∃ x, wLoop1HM m tips sc l same = some x := by
  induction l generalizing same with
  | nil => exact ⟨_, rfl⟩
  | cons x r ih =>
    obtain ⟨k, e⟩ := x
    obtain ⟨o, ho⟩ := get_total h k
    simp only [wLoop1HM, ho]
    cases counted tips e with
    | false => simp only [Bool.false_eq_true, if_false]; exact ih _
    | true =>
      simp only [if_true]
      cases o with
      | none =>
        simp only
        split
        · exact ⟨_, rfl⟩
        · obtain ⟨y, hy⟩ := ih false; rw [hy]; exact ⟨_, rfl⟩
      | some info =>
        simp only
        split
        · exact ⟨_, rfl⟩
        · obtain ⟨y, hy⟩ := ih (same && info.len == e.e.len); rw [hy]; exact ⟨_, rfl⟩

theorem wLoop2HM_total {m : EMap} (h : Sized m) (tips sc : Bool) (l : List (EdgeIdx × SplitE)) (same : Bool) :
    ∃ x, wLoop2HM m tips sc l same = some x := by
  induction l generalizing same with
  | nil => exact ⟨_, rfl⟩
  | cons x r ih =>
    obtain ⟨k, e⟩ := x
    obtain ⟨o, ho⟩ := get_total h k
    simp only [wLoop2HM, ho]
    cases counted tips e with
    | false => simp only [Bool.false_eq_true, if_false]; exact ih _
    | true =>
      simp only [if_true]
      cases o with
      | none =>
        simp only
        split
        · exact ⟨_, rfl⟩
        · obtain ⟨y, hy⟩ := ih false; rw [hy]; exact ⟨_, rfl⟩
      | some info => simp only; exact ih _

/-! ## the records -/

/-- `Compare` through `ReinitIndexes` and the hash map = the association-list model, for every
    name hash, every rehash policy and all inputs; in particular the map never panics. -/
theorem compareHM_eq' (H : String → UInt64) (policy : Nat → Nat → Bool) (r c : T) (tips sc : Bool) :
    compareHM H policy r c tips sc = .res (compare r c tips sc) := by
  unfold compareHM compare
  cases hr : reinitOk r with
  | false =>
    obtain ⟨msg, he⟩ := reinit_err H r hr
    simp [he]
  | true =>
    rw [reinit_ok H r hr]
    have hnr := nodup_of_reinitOk hr
    obtain ⟨m, hm, hrep⟩ := buildHM_rep H policy r hnr (Perm.refl _)
    simp only [hm, Bool.not_true, Bool.false_eq_true, if_false]
    cases hc : reinitOk c with
    | false =>
      obtain ⟨msg, he⟩ := reinit_err H c hc
      simp [he]
    | true =>
      rw [reinit_ok H c hc]
      simp only [Bool.not_true, Bool.false_eq_true, if_false]
      cases h3 : compareTipIndexes r.tipNames c.tipNames with
      | false => simp
      | true =>
        have hp := perm_of_compareTipIndexes hr hc h3
        simp only [Bool.not_true, Bool.false_eq_true, if_false]
        rw [zip_map_self, cmpLoopHM_eq hrep tips sc c.splits (isKey_of_split H c (nodup_of_reinitOk hc) hp.symm)]

theorem compareWeightedHM_eq' (H : String → UInt64) (policy : Nat → Nat → Bool) (r c : T) (tips sc : Bool) :
    compareWeightedHM H policy r c tips sc = .res (compareWeighted r c tips sc) := by
  unfold compareWeightedHM compareWeighted
  cases hr : reinitOk r with
  | false =>
    obtain ⟨msg, he⟩ := reinit_err H r hr
    simp [he]
  | true =>
    rw [reinit_ok H r hr]
    have hnr := nodup_of_reinitOk hr
    obtain ⟨m, hm, hrep⟩ := buildHM_rep H policy r hnr (Perm.refl _)
    simp only [hm, Bool.not_true, Bool.false_eq_true, if_false]
    cases hc : reinitOk c with
    | false =>
      obtain ⟨msg, he⟩ := reinit_err H c hc
      simp [he]
    | true =>
      rw [reinit_ok H c hc]
      have hnc := nodup_of_reinitOk hc
      simp only [Bool.not_true, Bool.false_eq_true, if_false]
      cases h3 : compareTipIndexes r.tipNames c.tipNames with
      | false =>
        obtain ⟨m2, hm2, _⟩ := buildHM_rep H policy c hnc (Perm.refl _)
        simp [hm2]
      | true =>
        have hp := perm_of_compareTipIndexes hr hc h3
        obtain ⟨m2, hm2, hrep2⟩ := buildHM_rep (base := r.tipNames) H policy c hnc hp.symm
        simp only [hm2, Bool.not_true, Bool.false_eq_true, if_false]
        rw [zip_map_self, zip_map_self,
          wLoop1HM_eq hrep tips sc c.splits (isKey_of_split H c hnc hp.symm)]
        simp only [wLoop2HM_eq hrep2 tips sc r.splits (isKey_of_split H r hnr (Perm.refl _))]

/-- `Compare` through `ReinitIndexes` and the hash map = the association-list model, for every
    name hash, every rehash policy and all inputs; in particular the map never panics. -/
theorem compareHMFallthrough_eq' (H : String → UInt64) (policy : Nat → Nat → Bool) (r c : T) (tips sc : Bool) :
    compareHMFallthrough H policy r c tips sc = .res (compare r c tips sc) := by
  unfold compareHMFallthrough compare
  cases hr : reinitOk r with
  | false =>
    obtain ⟨msg, he⟩ := reinit_err H r hr
    simp [he]
  | true =>
    rw [reinit_ok H r hr]
    have hnr := nodup_of_reinitOk hr
    obtain ⟨m, hm, hrep⟩ := buildHM_rep H policy r hnr (Perm.refl _)
    simp only [hm, Bool.not_true, Bool.false_eq_true, if_false]
    cases hc : reinitOk c with
    | false =>
      obtain ⟨msg, he⟩ := reinit_err H c hc
      simp [he]
    | true =>
      rw [reinit_ok H c hc]
      simp only [Bool.not_true, Bool.false_eq_true, if_false]
      cases h3 : compareTipIndexes r.tipNames c.tipNames with
      | false =>
        -- other taxa: the loop runs all the same (and cannot panic), then the record carries `Err`
        obtain ⟨st', hst⟩ := cmpLoopHM_total (sized_of_rep hrep) tips sc
          ((c.splits.map fun s => specIdx H c.tipNames s.below).zip c.splits) ⟨0, 0, true⟩
        simp [hst]
      | true =>
        have hp := perm_of_compareTipIndexes hr hc h3
        simp only [Bool.not_true, Bool.false_eq_true, if_false]
        rw [zip_map_self, cmpLoopHM_eq hrep tips sc c.splits (isKey_of_split H c (nodup_of_reinitOk hc) hp.symm)]

theorem compareWeightedHMFallthrough_eq' (H : String → UInt64) (policy : Nat → Nat → Bool) (r c : T) (tips sc : Bool) :
    compareWeightedHMFallthrough H policy r c tips sc = .res (compareWeighted r c tips sc) := by
  unfold compareWeightedHMFallthrough compareWeighted
  cases hr : reinitOk r with
  | false =>
    obtain ⟨msg, he⟩ := reinit_err H r hr
    simp [he]
  | true =>
    rw [reinit_ok H r hr]
    have hnr := nodup_of_reinitOk hr
    obtain ⟨m, hm, hrep⟩ := buildHM_rep H policy r hnr (Perm.refl _)
    simp only [hm, Bool.not_true, Bool.false_eq_true, if_false]
    cases hc : reinitOk c with
    | false =>
      obtain ⟨msg, he⟩ := reinit_err H c hc
      simp [he]
    | true =>
      rw [reinit_ok H c hc]
      have hnc := nodup_of_reinitOk hc
      simp only [Bool.not_true, Bool.false_eq_true, if_false]
      cases h3 : compareTipIndexes r.tipNames c.tipNames with
      | false =>
        obtain ⟨m2, hm2, hrep2⟩ := buildHM_rep H policy c hnc (Perm.refl _)
        obtain ⟨x1, hx1⟩ := wLoop1HM_total (sized_of_rep hrep) tips sc
          ((c.splits.map fun s => specIdx H c.tipNames s.below).zip c.splits) true
        obtain ⟨x2, hx2⟩ := wLoop2HM_total (sized_of_rep hrep2) tips sc
          ((r.splits.map fun s => specIdx H r.tipNames s.below).zip r.splits) x1.2.2
        simp [hm2, hx1, hx2]
      | true =>
        have hp := perm_of_compareTipIndexes hr hc h3
        obtain ⟨m2, hm2, hrep2⟩ := buildHM_rep (base := r.tipNames) H policy c hnc hp.symm
        simp only [hm2, Bool.not_true, Bool.false_eq_true, if_false]
        rw [zip_map_self, zip_map_self,
          wLoop1HM_eq hrep tips sc c.splits (isKey_of_split H c hnc hp.symm)]
        simp only [wLoop2HM_eq hrep2 tips sc r.splits (isKey_of_split H r hnr (Perm.refl _))]

end Gotree.C08
