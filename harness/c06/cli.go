package c06

import (
	"fmt"
	"os"
	"strconv"
	"strings"
	"time"

	"verifharness/core"

	"github.com/evolbioinfo/gotree/cmd"
	"github.com/evolbioinfo/gotree/io/newick"
	"github.com/evolbioinfo/gotree/tree"
)

// CLI tier (DESIGN §4.3): the same kind of cases through `gotree prune`, with the
// name source chosen by -f / -c / --random / arguments, -r, and conflicting
// options given together (priority -f > -c > --random > arguments).

type cliReq struct {
	rev    bool
	hasF   bool
	fnames []string
	hasC   bool
	comp   *core.N
	random int
	seed   int
	args   []string
	ref    *core.N
	extra  *core.N // a second tree in the same input file (the command handles them all)
	toFile bool    // -o <file> instead of stdout
	stdin  bool    // the trees come on stdin (no -i)
}

func parseNewick(s string) (*tree.Tree, error) {
	return newick.NewParser(strings.NewReader(s)).Parse()
}

func decodeList(s string) []string {
	var out []string
	if s == "" {
		return out
	}
	for _, x := range strings.Split(strings.TrimSuffix(s, ","), ",") {
		u, err := core.Unescape(x)
		if err != nil {
			panic(err)
		}
		out = append(out, u)
	}
	return out
}

func (r *cliReq) head(before string) []string {
	comp := "-"
	if r.hasC {
		comp = r.comp.Dump()
	}
	return []string{b01(r.rev), b01(r.hasF), core.StrList(r.fnames), b01(r.hasC), comp,
		fmt.Sprint(r.random), fmt.Sprint(r.seed), core.StrList(r.args), before}
}

func runCLI(c *core.Ctx, r *cliReq) {
	refs := []*core.N{r.ref}
	if r.extra != nil {
		refs = append(refs, r.extra)
	}
	var nws, befores []string
	var input strings.Builder
	for _, ref := range refs {
		t, err := core.Build(ref)
		if err != nil {
			panic(err)
		}
		nw := t.Newick()
		// what the command will see: the Newick text re-read
		tb, err := parseNewick(nw)
		if err != nil {
			panic(fmt.Sprintf("harness: cannot re-read %q: %v", nw, err))
		}
		before, wf := core.Alpha(tb)
		if !wf.OK() {
			panic("harness: re-read tree malformed")
		}
		nws = append(nws, nw)
		befores = append(befores, before.Dump())
		input.WriteString(nw + "\n")
	}
	argv := []string{"prune"}
	stdin := ""
	if r.stdin {
		stdin = input.String()
	} else {
		argv = append(argv, "-i", c.TmpFile(input.String()))
	}
	hooks := make([]string, len(refs))
	for i := range hooks {
		hooks[i] = "-"
	}
	if r.hasF {
		argv = append(argv, "-f", c.TmpFile(tipFileText(r.fnames)))
	}
	if r.hasC {
		ct, err := core.Build(r.comp)
		if err != nil {
			panic(err)
		}
		cnw := ct.Newick()
		argv = append(argv, "-c", c.TmpFile(cnw+"\n"))
		// the hook: specificTips as the command computes it, on the trees as read
		for i, nw := range nws {
			ct2, err := parseNewick(cnw)
			if err != nil {
				panic(err)
			}
			tb2, _ := parseNewick(nw)
			var sp []string
			if p, _ := core.Safe(func() { sp = cmd.VerifSpecificTips(tb2, ct2) }); !p {
				hooks[i] = "h" + core.StrList(sp)
			}
		}
	}
	if r.random != 0 {
		argv = append(argv, "--random", strconv.Itoa(r.random), "--seed", strconv.Itoa(r.seed))
	}
	if r.rev {
		argv = append(argv, "-r")
	}
	outfile := ""
	if r.toFile {
		outfile = c.TmpFile("")
		argv = append(argv, "-o", outfile)
	}
	argv = append(argv, r.args...)
	res := c.RunCLI(stdin, 30*time.Second, argv...)
	emit := func(i int, rest ...string) {
		c.Emit("C06.cli", append(r.head(befores[i]), rest...)...)
	}
	all := func(rest ...string) {
		for i := range refs {
			emit(i, append(rest, hooks[i])...)
		}
	}
	if res.Timeout {
		all("timeout", "")
		return
	}
	failure := ""
	if res.Exit != 0 {
		// the command stops at the first tree it cannot prune: the trees before it were written
		failure = "err"
		if strings.Contains(res.Stderr, "panic:") || strings.Contains(res.Stderr, "goroutine ") {
			failure = "panic:cli"
		}
	}
	out := res.Stdout
	if r.toFile {
		b, err := os.ReadFile(outfile)
		if err != nil {
			all("unreadable:nofile", "")
			return
		}
		out = string(b)
	}
	var lines []string
	if strings.TrimSpace(out) != "" {
		lines = strings.Split(strings.TrimSpace(out), "\n")
	}
	if failure != "" {
		// a failing command also prints its error message on stdout: keep the trees only
		var trees []string
		for _, l := range lines {
			if strings.HasSuffix(strings.TrimSpace(l), ";") {
				trees = append(trees, l)
			}
		}
		lines = trees
	}
	if len(lines) > len(refs) || (failure == "" && len(lines) != len(refs)) {
		all("unreadable:"+core.Escape(fmt.Sprintf("%d trees written for %d read", len(lines), len(refs))), "")
		return
	}
	// the whole run: how many trees were written, did the command fail (model: pruneAll)
	{
		var all strings.Builder
		for _, b := range befores {
			all.WriteString(b)
			all.WriteByte('|')
		}
		h := r.head(all.String())
		exit := "0"
		if failure != "" {
			exit = "1"
		}
		mode := "file"
		if r.stdin {
			mode = "stdin"
		}
		if r.toFile {
			mode += "+o"
		}
		c.Emit("C06.run", append(h, exit, fmt.Sprint(len(lines)), mode)...)
	}
	for i := range refs {
		if i >= len(lines) {
			if i == len(lines) {
				emit(i, failure, "", hooks[i])
			}
			// the trees after the failing one were never looked at: no case
			continue
		}
		l := lines[i]
		ta, err := parseNewick(strings.TrimSpace(l))
		if err != nil {
			emit(i, "unreadable:"+core.Escape(l), "", hooks[i])
			continue
		}
		after, wf2 := core.Alpha(ta)
		if !wf2.OK() {
			emit(i, "malformed", "", hooks[i])
			continue
		}
		emit(i, "ok", after.Dump(), hooks[i])
	}
}

func replayCLI(c *core.Ctx, f []string) {
	ref, err := core.ParseDump(f[9])
	if err != nil {
		panic(err)
	}
	r := &cliReq{rev: f[1] == "1", hasF: f[2] == "1", fnames: decodeList(f[3]), hasC: f[4] == "1", args: decodeList(f[8]), ref: ref}
	if r.hasC {
		if r.comp, err = core.ParseDump(f[5]); err != nil {
			panic(err)
		}
	}
	r.random, _ = strconv.Atoi(f[6])
	r.seed, _ = strconv.Atoi(f[7])
	// corpus requests may carry a second input tree after the (ignored) output fields
	if len(f) > 13 && f[13] != "" {
		if r.extra, err = core.ParseDump(f[13]); err != nil {
			panic(err)
		}
	}
	runCLI(c, r)
}

// compTree draws a tree over the given tip names.
func compTree(g *core.G, names []string) *core.N {
	o := core.DefaultOpts()
	o.MinTips, o.MaxTips = len(names), len(names)
	o.InnerNames = 0
	n, _ := g.Tree(o)
	i := 0
	var rec func(x *core.N)
	rec = func(x *core.N) {
		if len(x.Kids) == 0 {
			x.Name = names[i]
			i++
		}
		for _, k := range x.Kids {
			rec(k)
		}
	}
	rec(n)
	core.NumberEdges(n)
	return n
}

func cliCase(c *core.Ctx) {
	g := c.G
	o := opts(g)
	o.Singles = 0
	o.InnerNames = 0
	o.MinTips = 5
	ref, _ := g.Tree(o)
	if g.Chance(0.08) { // the root itself is a tip: written `(subtree)rt;` (331c4ae), removable since 0cfc52b
		ref.E = core.NewE()
		ref.E.Len = 1.5
		ref = &core.N{Name: "rt", Kids: []*core.N{ref}}
	}
	core.NumberEdges(ref)
	r := &cliReq{ref: ref, seed: 1 + g.Intn(1000)}
	tips := ref.TipNames()
	primary := g.Intn(4)
	conflict := g.Chance(0.45)
	// a second tree in the same input file, with ANOTHER tip set: some tips of the first one
	// plus u0,u1,u2 (the compared tree has u0,u1: u2 is specific to the second tree only)
	multi := g.Chance(0.4)
	names := func() []string {
		rm := pickRemoval(g, ref)
		rev, l := request(g, ref, rm)
		if rev != r.rev {
			// request() drew its own revert flag: recompute the list for ours
			in := map[string]bool{}
			for _, s := range rm {
				in[s] = true
			}
			l = l[:0]
			for _, s := range tips {
				if in[s] != r.rev {
					l = append(l, s)
				}
			}
		}
		return l
	}
	r.rev = g.Chance(0.4)
	setF := func() { r.hasF = true; r.fnames = names() }
	setC := func() {
		r.hasC = true
		// the compared tree holds the tips to keep (to remove with -r) plus strangers
		l := names()
		in := map[string]bool{}
		for _, s := range l {
			in[s] = true
		}
		var keep []string
		for _, s := range tips {
			if !in[s] {
				keep = append(keep, s)
			}
		}
		keep = uniqSorted(keep)
		for len(keep) < 3 {
			keep = append(keep, fmt.Sprintf("x%d", len(keep)))
		}
		if g.Chance(0.3) {
			keep = append(keep, "stranger1", "stranger2")
		}
		if multi {
			keep = append(keep, "u0", "u1")
		}
		g.R.Shuffle(len(keep), func(i, j int) { keep[i], keep[j] = keep[j], keep[i] })
		r.comp = compTree(g, keep)
		// an inner node of the compared tree named like a tip of the reference tree that the
		// compared tree does not have as a tip: it is still specific to the reference tree
		if in := innerNodes(r.comp); len(in) > 0 && len(l) > 0 && g.Chance(0.4) {
			in[g.Intn(len(in))].Name = l[g.Intn(len(l))]
		}
		// a SINGLE-CHILD inner node of the compared tree (two neighbours) named like such a tip: no tip either
		if len(l) > 0 && len(r.comp.Kids) > 0 && g.Chance(0.3) {
			i := g.Intn(len(r.comp.Kids))
			old := r.comp.Kids[i]
			mid := &core.N{Name: l[g.Intn(len(l))], E: old.E, Kids: []*core.N{old}}
			old.E = core.NewE()
			old.E.Len = 1
			r.comp.Kids[i] = mid
		}
	}
	setR := func() {
		max := len(tips) - 3
		if r.rev {
			r.random = 3 + g.Intn(len(tips)-2)
		} else if max > 0 {
			r.random = 1 + g.Intn(max)
		} else {
			r.random = 0
		}
		if g.Chance(0.1) {
			r.random = len(tips) + 2
		}
	}
	setA := func() {
		r.args = names()
		var a []string
		for _, s := range r.args {
			if s != "" && !strings.HasPrefix(s, "-") {
				a = append(a, s)
			}
		}
		r.args = a
	}
	switch primary {
	case 0:
		setF()
	case 1:
		setC()
	case 2:
		setR()
	default:
		setA()
	}
	if conflict {
		// lower-priority sources given as well: they must be ignored
		if primary < 1 && g.Chance(0.6) {
			setC()
		}
		if primary < 2 && g.Chance(0.6) {
			setR()
		}
		if primary < 3 && g.Chance(0.8) {
			setA()
		}
	}
	// several trees in the input file (differing tip sets), output to a file
	if multi {
		perm := g.R.Perm(len(tips))
		k := 3 + g.Intn(len(tips)-2)
		var names2 []string
		for _, i := range perm[:k] {
			names2 = append(names2, tips[i])
		}
		names2 = append(names2, "u0", "u1", "u2")
		g.R.Shuffle(len(names2), func(i, j int) { names2[i], names2[j] = names2[j], names2[i] })
		r.extra = compTree(g, names2)
		// variant: a second tree of three tips that the same request leaves with two tips only, so that the
		// command fails on it: the result of the FIRST tree must have been written by then
		if !r.hasC && r.random == 0 && g.Chance(0.35) {
			src := r.args
			if r.hasF {
				src = r.fnames
			}
			in := map[string]bool{}
			for _, s := range src {
				in[s] = true
			}
			var gone, stay []string
			for _, s := range tips {
				if in[s] != r.rev {
					gone = append(gone, s)
				} else {
					stay = append(stay, s)
				}
			}
			if len(gone) >= 1 && len(stay) >= 3 {
				r.extra = compTree(g, []string{stay[0], gone[0], stay[1]})
			}
		}
	}
	r.toFile = g.Chance(0.3)
	r.stdin = g.Chance(0.25)
	runCLI(c, r)
}

// tipFileCase: what `-f` reads from a file (separators, line ends, empty lines, no trimming),
// observed through a star tree whose tips are the candidate names.
func tipFileCase(c *core.Ctx) {
	g := c.G
	pool := []string{"a", "b", "c", "d", "e", "f", "g", "h", "i"}
	junk := []string{"zz", " a", "b ", "", "A", "ab"}
	var b strings.Builder
	if g.Chance(0.08) {
		// a first line of more than 64 KiB (names that are no tips), ending with a tip name
		for i := 0; i < 9000; i++ {
			fmt.Fprintf(&b, "zz%05d,", i)
		}
		b.WriteString(pool[g.Intn(len(pool))] + "\n")
	}
	n := g.Intn(6)
	picked := 0
	for i := 0; i < n; i++ {
		if g.Chance(0.25) {
			b.WriteString(junk[g.Intn(len(junk))])
		} else if picked < 5 {
			b.WriteString(pool[g.Intn(len(pool))])
			picked++
		}
		if i < n-1 || g.Chance(0.7) {
			switch g.Intn(5) {
			case 0:
				b.WriteString("\r\n")
			case 1:
				b.WriteString(",")
			case 2:
				b.WriteString("\n\n")
			default:
				b.WriteString("\n")
			}
		}
	}
	if g.Chance(0.1) {
		b.WriteString("\r")
	}
	doTipFile(c, b.String(), pool)
}

func doTipFile(c *core.Ctx, content string, pool []string) {
	nw := "(" + strings.Join(pool, ",") + ");"
	res := c.RunCLI("", 30*time.Second, "prune", "-i", c.TmpFile(nw+"\n"), "-f", c.TmpFile(content))
	if res.Exit != 0 || res.Timeout {
		c.Emit("C06.tipfile", core.Escape(content), core.StrList(pool), "err", "")
		return
	}
	ta, err := parseNewick(strings.TrimSpace(res.Stdout))
	if err != nil {
		c.Emit("C06.tipfile", core.Escape(content), core.StrList(pool), "unreadable", "")
		return
	}
	left := map[string]bool{}
	for _, tp := range ta.Tips() {
		left[tp.Name()] = true
	}
	var removed []string
	for _, s := range pool {
		if !left[s] {
			removed = append(removed, s)
		}
	}
	c.Emit("C06.tipfile", core.Escape(content), core.StrList(pool), "ok", core.StrList(removed))
}

// tipFileText lays the names out in a tip file.  The layout is chosen by marker names (absent from
// every tree, so harmless as names, and kept in the request so that a replay writes the same file):
// "@oneline": everything on one comma-separated line; "@longmiddle": the first name alone on a line,
// then one long line, then the last name alone on a line; otherwise three names per line.
func tipFileText(names []string) string {
	has := func(m string) bool {
		for _, s := range names {
			if s == m {
				return true
			}
		}
		return false
	}
	var b strings.Builder
	switch {
	case has("@oneline"):
		b.WriteString(strings.Join(names, ","))
		b.WriteByte('\n')
	case has("@longmiddle") && len(names) >= 3:
		b.WriteString(names[0] + "\n")
		b.WriteString(strings.Join(names[1:len(names)-1], ","))
		b.WriteString("\n" + names[len(names)-1] + "\n")
	default:
		for i, s := range names {
			b.WriteString(s)
			if i%3 == 2 || i == len(names)-1 {
				b.WriteByte('\n')
			} else {
				b.WriteByte(',')
			}
		}
	}
	return b.String()
}

// longTipFileCase: a tip file with thousands of names (most of them absent from the tree) on one
// line of more than 64 KiB, or with such a line between two short ones: every named tip must go.
func longTipFileCase(c *core.Ctx, k int) {
	g := c.G
	o := opts(g)
	o.Singles, o.InnerNames, o.MinTips, o.MaxTips = 0, 0, 7, 12
	ref, _ := g.Tree(o)
	core.NumberEdges(ref)
	tips := ref.TipNames()
	perm := g.R.Perm(len(tips))
	nrm := 1 + g.Intn(len(tips)-3)
	var rm []string
	for _, i := range perm[:nrm] {
		rm = append(rm, tips[i])
	}
	var filler []string
	for i := 0; i < 6000+g.Intn(3000); i++ {
		filler = append(filler, fmt.Sprintf("absent%07d", i))
	}
	var names []string
	if k%2 == 0 {
		// one line: some requested tips before, some after the filler
		names = append(names, "@oneline")
		names = append(names, rm[:len(rm)/2]...)
		names = append(names, filler...)
		names = append(names, rm[len(rm)/2:]...)
	} else {
		// short line, long line, short line
		names = append(names, rm[0], "@longmiddle")
		names = append(names, filler...)
		if len(rm) > 2 {
			names = append(names, rm[2:]...)
		}
		if len(rm) > 1 {
			names = append(names, rm[1])
		} else {
			names = append(names, "absentlast")
		}
	}
	runCLI(c, &cliReq{ref: ref, hasF: true, fnames: names, seed: 1})
}
