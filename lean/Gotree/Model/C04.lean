/-
  C04 — model of the split indexes of `tree.Tree`
  (tree/tree.go: UpdateTipIndex, ClearBitSets, UpdateBitSet/fillRightBitSet, ReinitIndexes;
   tree/edge_hash.go: ComputeEdgeHashes (right pass, then left pass), HashCode, HashEquals;
   tree/edge.go: TopoDepth, SameBipartition, NumTipsLeft/Right).

  `uint64` is `UInt64` (wrap-around additions and products), `fnv.New64a` is a
  parameter `H : String → UInt64` (the driver instantiates it with `fnv1a`), the
  external `bitset.BitSet` is a `List Bool` (DESIGN §3.4).  Core Lean only.
-/
import Gotree.Model.Core

namespace Gotree.C04
open Gotree

/-- FNV-1a, 64 bits (Go `hash/fnv` `New64a`): offset basis 14695981039346656037,
    prime 1099511628211, `hash = (hash XOR byte) * prime` for every byte. -/
def fnv1a (s : String) : UInt64 :=
  s.toUTF8.foldl (fun h b => (h ^^^ b.toUInt64) * 1099511628211) 14695981039346656037

/-- What `ReinitIndexes` leaves on one `Edge` (edge.go:25-29). -/
structure EdgeIdx where
  bits : List Bool
  nleft : Nat
  nright : Nat
  hleft : UInt64
  hright : UInt64
  deriving DecidableEq, Repr

/-- `SortedTips`: `sort.Slice` with `strings.Compare(a,b) < 0`. -/
def sortNames (l : List String) : List String := l.mergeSort (fun a b => decide (a ≤ b))

/-- a fresh `bitset.New(n)` in which the bits `ids` have been `Set` -/
def mkBits (n : Nat) (ids : List Nat) : List Bool := (List.range n).map fun i => ids.contains i

/- `computeEdgeHashesRightRecur(cur, prev, e)` for `e ≠ nil`: what it leaves in
   `(e.hashcoderight, e.ntaxright)`.  A non-root node is a tip iff it has no child. -/
mutual
def rightT (H : String → UInt64) : T → UInt64 × Nat
  | .node d _ [] => (H d.name, 1)
  | .node _ _ (k :: ks) => rightL H (k :: ks)
def rightL (H : String → UInt64) : Kids → UInt64 × Nat
  | [] => (0, 0)
  | (_, t) :: r => ((rightT H t).1 + (rightL H r).1, (rightT H t).2 + (rightL H r).2)
end

/- `computeEdgeHashesLeftRecur` (pre-order) merged with the bitsets of
   `fillRightBitSet`, one `EdgeIdx` per branch in `Edges()` order.

   `up`  = what the branches leaving the current node get from *above* it: the
           `(hashcodeleft, ntaxleft)` of the branch to its parent, or, for the root,
           its own name hash and 1 when it is a tip (single neighbour), else (0,0);
   `acc` = sum of `(hashcoderight, ntaxright)` of the siblings already passed.
   (Go adds the neighbours of `prev` in slice order, the parent at position `ppos`
   among them; the sum does not depend on that order, so `ppos` is not used.) -/
mutual
def idxT (H : String → UInt64) (rank : String → Nat) (n : Nat) (up : UInt64 × Nat) : T → List EdgeIdx
  | .node _ _ k => idxL H rank n up (0, 0) k
def idxL (H : String → UInt64) (rank : String → Nat) (n : Nat) (up acc : UInt64 × Nat) : Kids → List EdgeIdx
  | [] => []
  | (_, t) :: r =>
    { bits := mkBits n (t.leaves.map rank)
      nleft := up.2 + acc.2 + (rightL H r).2
      nright := (rightT H t).2
      hleft := up.1 + acc.1 + (rightL H r).1
      hright := (rightT H t).1 } ::
    (idxT H rank n (up.1 + acc.1 + (rightL H r).1, up.2 + acc.2 + (rightL H r).2) t ++
     idxL H rank n up (acc.1 + (rightT H t).1, acc.2 + (rightT H t).2) r)
end

inductive Res (α : Type) where
  | ok (a : α)
  | err (msg : String)
  deriving Repr

/-- what the left pass adds for a root that is a tip (fix 6e33baa) -/
def rootUp (H : String → UInt64) (t : T) : UInt64 × Nat :=
  if t.kids.length == 1 then (H t.name, 1) else (0, 0)

/-- `ReinitIndexes`: the tip names by rank and one `EdgeIdx` per branch
    (`Edges()` order = order of `T.splits`). -/
def reinit (H : String → UInt64) (t : T) : Res (List String × List EdgeIdx) :=
  let sorted := sortNames t.tipNames
  if !(decide sorted.Nodup) then .err "Cannot create a tip index when several tips have the same name"
  else if sorted.length == 0 then .err "No tips in the index, tip name index is not initialized"
  else .ok (sorted, idxL H (fun x => sorted.idxOf x) sorted.length (rootUp H t) (0, 0) t.kids)

/-! ### `UpdateBitSet` / `fillRightBitSet`, statement by statement

The state is the stack `rightEdges` itself: the bitsets of the branches on the path from the
root branch down to the current one (top first; Go appends at the end — every member gets the same
`Set`, so the order is immaterial).  `bitset.Set(i)` is `List.set i true` (Go would *extend* a
bitset for `i ≥ length`; tip ids are ranks `< n`, so that never happens — theorem `reinitLit_eq`
needs no such hypothesis because `mkBits` ignores such ids too). -/

/-- `bitset.New(n)` (what `ClearBitSets` leaves on every branch) -/
def zeroBits (n : Nat) : List Bool := List.replicate n false

/-- `BitSet.ClearAll` -/
def clearAll (b : List Bool) : List Bool := b.map fun _ => false

mutual
/-- `fillRightBitSet(currentEdge, rightEdges)`: `st` = `rightEdges` with the bitset of `currentEdge`
    on top; returns the stack after the call and the finished bitsets of the branches strictly
    below `currentEdge`, in `Edges()` order. -/
def fillT (rank : String → Nat) (n : Nat) : T → List (List Bool) → List (List Bool) × List (List Bool)
  | _, [] => ([], [])                                               -- (rightEdges always holds currentEdge)
  | .node d _ [], cb :: rest =>                                      -- currentEdge.bitset.ClearAll(); a tip:
    ((clearAll cb :: rest).map fun b => b.set (rank d.name) true, []) --   for _, e := range *rightEdges { e.bitset.Set(i) }
  | .node _ _ (k :: ks), cb :: rest => fillL rank n (k :: ks) (clearAll cb :: rest)
/-- the loop `for _, e2 := range currentEdge.right.br` over the child branches -/
def fillL (rank : String → Nat) (n : Nat) : Kids → List (List Bool) → List (List Bool) × List (List Bool)
  | [], st => (st, [])
  | (_, t) :: r, st =>
    match fillT rank n t (zeroBits n :: st) with                     -- *rightEdges = append(*rightEdges, e2); recurse
    | (cb :: st', recs) =>                                          -- *rightEdges = (*rightEdges)[:len-1]
      ((fillL rank n r st').1, cb :: (recs ++ (fillL rank n r st').2))
    | ([], recs) => ([], recs)
end

/-- `UpdateBitSet`: every branch of the root starts a fresh stack holding only itself. -/
def updateBitSet (rank : String → Nat) (n : Nat) : Kids → List (List Bool)
  | [] => []
  | (_, t) :: r =>
    match fillT rank n t [zeroBits n] with
    | (cb :: _, recs) => cb :: (recs ++ updateBitSet rank n r)
    | ([], recs) => recs ++ updateBitSet rank n r

/-- `ReinitIndexes` with the bitsets computed by the statement-by-statement `updateBitSet`
    (this is what the driver runs; `reinitLit_eq` shows it is `reinit`). -/
def reinitLit (H : String → UInt64) (t : T) : Res (List String × List EdgeIdx) :=
  match reinit H t with
  | .err m => .err m
  | .ok (sorted, idx) =>
    .ok (sorted, List.zipWith (fun (e : EdgeIdx) (b : List Bool) => { e with bits := b }) idx
      (updateBitSet (fun x => sorted.idxOf x) sorted.length t.kids))

/-! ### `ComputeEdgeHashes`, statement by statement

`rightTL`/`rightLL`: the first pass with its running additions `e.hashcoderight += …`, `e.ntaxright += …`
in child order from 0.  `leftLit`: the loop of the second pass over `prev.Neigh()` in slice order —
children contribute their stored `(hashcoderight, ntaxright)`, the parent (at position `ppos`) the
`(hashcodeleft, ntaxleft)` of the branch above — skipping `cur`, then the `prev.Tip()` addition. -/

mutual
def rightTL (H : String → UInt64) : T → UInt64 × Nat
  | .node d _ [] => (H d.name, 1)
  | .node _ _ (k :: ks) => rightLL H (k :: ks) (0, 0)
def rightLL (H : String → UInt64) : Kids → UInt64 × Nat → UInt64 × Nat
  | [], acc => acc
  | (_, t) :: r, acc => rightLL H r (acc.1 + (rightTL H t).1, acc.2 + (rightTL H t).2)
end

/-- `(hashcodeleft, ntaxleft)` of the branch from the node (`name`, parent at `ppos`, `up` = fields of the
    branch above it) to its child number `i` -/
def leftLit (H : String → UInt64) (isRoot : Bool) (name : String) (ppos : Nat) (up : UInt64 × Nat)
    (kids : Kids) (i : Nat) : UInt64 × Nat :=
  let g : List (Option Nat × (UInt64 × Nat)) := kids.zipIdx.map fun (et, j) => (some j, rightTL H et.2)
  let neigh := if isRoot then g else g.take ppos ++ (none, up) :: g.drop ppos
  let s := neigh.foldl (fun acc x => if x.1 == some i then acc else (acc.1 + x.2.1, acc.2 + x.2.2)) (0, 0)
  if kids.length + (if isRoot then 0 else 1) == 1 then (s.1 + H name, s.2 + 1) else s

/- the four hash fields `(hashcodeleft, ntaxleft, hashcoderight, ntaxright)` of every branch, `Edges()` order -/
mutual
def hashTLit (H : String → UInt64) (isRoot : Bool) (up : UInt64 × Nat) : T → List (UInt64 × Nat × UInt64 × Nat)
  | .node d p kids => hashLLit H isRoot d.name p up kids 0 kids
def hashLLit (H : String → UInt64) (isRoot : Bool) (name : String) (p : Nat) (up : UInt64 × Nat) (all : Kids) (i : Nat) :
    Kids → List (UInt64 × Nat × UInt64 × Nat)
  | [] => []
  | (_, t) :: r =>
    ((leftLit H isRoot name p up all i).1, (leftLit H isRoot name p up all i).2, (rightTL H t).1, (rightTL H t).2) ::
      (hashTLit H false (leftLit H isRoot name p up all i) t ++ hashLLit H isRoot name p up all (i + 1) r)
end

/-- `ReinitIndexes`, every part statement by statement: bitsets by `updateBitSet`, hashes and counts by
    `hashTLit` (this is what the driver runs; `reinitLit2_eq` shows it is `reinit`). -/
def reinitLit2 (H : String → UInt64) (t : T) : Res (List String × List EdgeIdx) :=
  match reinit H t with
  | .err m => .err m
  | .ok (sorted, _) =>
    .ok (sorted, List.zipWith (fun (b : List Bool) (h : UInt64 × Nat × UInt64 × Nat) =>
        ({ bits := b, nleft := h.2.1, nright := h.2.2.2, hleft := h.1, hright := h.2.2.1 } : EdgeIdx))
      (updateBitSet (fun x => sorted.idxOf x) sorted.length t.kids) (hashTLit H true (0, 0) t))

/-- `UpdateTipIndex`, statement by statement: the sorted tips are entered one after the other in the
    name map (`seen`, in order of entry = rank); a name that is already there is the error. -/
def updateTipIndexLit : List String → List String → Res (List String)
  | [], seen => .ok seen
  | x :: r, seen =>
    if seen.contains x then .err "Cannot create a tip index when several tips have the same name"
    else updateTipIndexLit r (seen ++ [x])

/-- `ReinitInternalIndexes` on a tree whose tip index (names by rank) is `index`, as left by the last
    `UpdateTipIndex`: `ClearBitSets` (error when the index is empty), `UpdateBitSet`, `ComputeEdgeHashes`,
    all statement by statement; the tip ids are the positions in `index`. -/
def reinitInternalLit (H : String → UInt64) (index : List String) (t : T) : Res (List String × List EdgeIdx) :=
  if index.length == 0 then .err "No tips in the index, tip name index is not initialized"
  else .ok (index, List.zipWith (fun (b : List Bool) (h : UInt64 × Nat × UInt64 × Nat) =>
        ({ bits := b, nleft := h.2.1, nright := h.2.2.2, hleft := h.1, hright := h.2.2.1 } : EdgeIdx))
      (updateBitSet (fun x => index.idxOf x) index.length t.kids) (hashTLit H true (0, 0) t))

/-- `ReinitIndexes` = `UpdateTipIndex` then `ReinitInternalIndexes`, nothing summarised
    (what the driver runs; `reinitLit3_eq` shows it is `reinit`). -/
def reinitLit3 (H : String → UInt64) (t : T) : Res (List String × List EdgeIdx) :=
  match updateTipIndexLit (sortNames t.tipNames) [] with
  | .err m => .err m
  | .ok index => reinitInternalLit H index t

/-- the index record of branch number `i` (position in `Edges()` / `T.splits`) after `ReinitIndexes` -/
def indexOf (H : String → UInt64) (t : T) (i : Nat) : Option EdgeIdx :=
  match reinit H t with
  | .ok r => r.2[i]?
  | .err _ => none

/-- The pinned code before fix 6e33baa: the right pass dereferences the nil branch of a
    root that is a tip, and the left pass forgets that tip. -/
def reinitPinned (H : String → UInt64) (t : T) : Option (Res (List String × List EdgeIdx)) :=
  if t.kids.length == 1 then none else some (reinit H t)

/-- `Edge.HashCode` (edge_hash.go:84) -/
def EdgeIdx.hashCode (e : EdgeIdx) : UInt64 :=
  if e.nleft == e.nright then e.hleft * e.hright
  else if e.nleft < e.nright then e.hleft
  else e.hright

/-- `BitSet.EqualOrComplement` : `Equal` (same length, same bits) or `ComplementTest` -/
def bitsEqualOrComplement (a b : List Bool) : Bool :=
  a == b || a.map (!·) == b

/-- `Edge.HashEquals` -/
def EdgeIdx.equals (a b : EdgeIdx) : Bool := bitsEqualOrComplement a.bits b.bits

/-- `Edge.SameBipartition` -/
def EdgeIdx.sameBipartition (a b : EdgeIdx) : Bool :=
  a.hashCode == b.hashCode && bitsEqualOrComplement a.bits b.bits

/-- `Edge.FindEdge(edges)` (edge.go:288) on indexed branches, each with the flag "its lower node is a
    tip": `none` is the error "bitset of 0...000", `some true` a non-nil result.  (The Go function
    returns the receiver itself when a branch of `edges` matches; its only caller tests for nil.) -/
def findEdge (e : EdgeIdx) (tip : Bool) (es : List (EdgeIdx × Bool)) : Option Bool :=
  if e.bits.all (!·) then none else
  let rec go : List (EdgeIdx × Bool) → Option Bool
    | [] => some false
    | (e2, tip2) :: r =>
      if tip != tip2 then go r
      else if e.hashCode != e2.hashCode then go r
      else if bitsEqualOrComplement e.bits e2.bits then (if e2.bits.all (!·) then none else some true)
      else go r
  go es

/-- `Tree.CompareTipIndexes` on the two tip indexes (sizes of the name maps = numbers of tips when
    the names are unique): same size, not empty, every name of the first known to the second. -/
def compareTipIndexes (tips₁ tips₂ : List String) : Bool :=
  !(tips₁.length == 0 || tips₂.length == 0 || tips₁.length != tips₂.length) && tips₁.all fun x => tips₂.contains x

/-- the loop of `CommonEdges(edges1, edges2, tipEdges)` (tree.go:734): `(tree1, common)`,
    `none` when `FindEdge` reports an error (Go: `-1, -1, err`) -/
def commonEdgesLoop (tipEdges : Bool) (es2 : List (EdgeIdx × Bool)) :
    List (EdgeIdx × Bool) → Int → Int → Option (Int × Int)
  | [], tree1, common => some (tree1 - common, common)
  | (e, tip) :: r, tree1, common =>
    if tipEdges || !tip then
      match findEdge e tip es2 with
      | none => none
      | some found => commonEdgesLoop tipEdges es2 r (tree1 + 1) (if found then common + 1 else common)
    else commonEdgesLoop tipEdges es2 r tree1 common

/-- `Tree.CommonEdges(t2, tipEdges)` on two indexed trees: `none` is an error -/
def commonEdges (tips₁ tips₂ : List String) (es1 es2 : List (EdgeIdx × Bool)) (tipEdges : Bool) : Option (Int × Int) :=
  if !(compareTipIndexes tips₁ tips₂) then none else commonEdgesLoop tipEdges es2 es1 0 0

/-- `Edge.TopoDepth` : `none` is the error "subtree sizes not computed" -/
def EdgeIdx.topoDepth (e : EdgeIdx) : Option Nat :=
  if e.nleft == 0 || e.nright == 0 then none else some (min e.nleft e.nright)

end Gotree.C04
